(** [DLInv] is an invariant of every router step, and what it gives for deliveries (C01):
    every log-sourced forward carries a publish stored in the log of the request's filter,
    hence with a topic matching that filter and retain = false. *)
From Rumqtt Require Import Router.Model Router.LogAll Router.DataLogInv Topic.Proofs.
From Coq Require Import ZifyBool ZifyN ZifyNat.

(** destruct the first bind / match in hypothesis H *)
Ltac step H :=
  match type of H with
  | bind ?x _ = _ => let E := fresh "E" in destruct x eqn:E; cbn [bind] in H; try discriminate
  | (match ?x with _ => _ end) = _ => let E := fresh "E" in destruct x eqn:E; try discriminate
  | (if ?x then _ else _) = _ => let E := fresh "E" in destruct x eqn:E; try discriminate
  | (let '(_, _) := ?x in _) = _ => let E := fresh "E" in destruct x eqn:E
  end.
Ltac inv H := inversion H; subst; clear H.
(** destruct a bind in H, naming the bound value [x] and the equation [Ex] *)
Ltac bindn H x Ex :=
  match type of H with
  | bind ?e _ = _ => destruct e as [x|?|?] eqn:Ex; cbn [bind] in H; try discriminate
  end.
Ltac fin := repeat match goal with |- context [if ?b then _ else _] => destruct b end; reflexivity.

(* ------------------------------------------------------------------ frame: r_datalog untouched *)
Lemma link_get_ok st k b : link_get st k = Ok b -> True. Proof. trivial. Qed.

Lemma push_out_dl st k ns st' n : push_out st k ns = Ok (st', n) -> r_datalog st' = r_datalog st.
Proof. unfold push_out, link_get, link_put. intros H. repeat step H. inv H. reflexivity. Qed.

Lemma reschedule_dl st id w st' : reschedule st id w = Ok st' -> r_datalog st' = r_datalog st.
Proof.
  unfold reschedule, get_tracker, put_tracker. intros H. repeat step H; inv H; fin.
Qed.
Lemma track_dl st id rq st' : track st id rq = Ok st' -> r_datalog st' = r_datalog st.
Proof. unfold track, get_tracker, put_tracker. intros H. repeat step H; inv H; fin. Qed.
Lemma trackv_dl st id rq st' : trackv st id rq = Ok st' -> r_datalog st' = r_datalog st.
Proof. unfold trackv, get_tracker, put_tracker. intros H. repeat step H; inv H; fin. Qed.
Lemma untrack_dl st id f st' : untrack st id f = Ok st' -> r_datalog st' = r_datalog st.
Proof. unfold untrack, get_tracker, put_tracker. intros H. repeat step H; inv H; fin. Qed.
Lemma pause_dl st id w st' : pause st id w = Ok st' -> r_datalog st' = r_datalog st.
Proof. unfold pause, get_tracker, put_tracker. intros H. repeat step H; inv H; fin. Qed.
Lemma commit_ack_dl st id a st' : commit_ack st id a = Ok st' -> r_datalog st' = r_datalog st.
Proof. unfold commit_ack, get_acks, put_acks. intros H. repeat step H; inv H; fin. Qed.

Lemma wake_all_dl : forall ns st st', wake_all st ns = Ok st' -> r_datalog st' = r_datalog st.
Proof.
  induction ns as [|[id rq] r IH]; cbn [wake_all]; intros st st' H.
  - inv H. reflexivity.
  - step H. step H. rewrite (IH _ _ H). rewrite (reschedule_dl _ _ _ _ E0). now rewrite (track_dl _ _ _ _ E).
Qed.
Lemma drain_notifications_dl st st' : drain_notifications st = Ok st' -> r_datalog st' = r_datalog st.
Proof. unfold drain_notifications. intros H. now rewrite (wake_all_dl _ _ _ H). Qed.

(* ------------------------------------------------------------------ waiters-only / retained-only changes *)
Definition same_data (o o' : option data) : Prop :=
  match o, o' with
  | Some d, Some d' => d_filter d' = d_filter d /\ d_log d' = d_log d
  | None, None => True
  | _, _ => False
  end.
Definition same_logs (dl dl' : datalog) : Prop :=
  sl_free (dl_native dl') = sl_free (dl_native dl) /\ dl_findex dl' = dl_findex dl /\
  dl_pfilters dl' = dl_pfilters dl /\
  forall i, same_data (slab_get (dl_native dl) i) (slab_get (dl_native dl') i).

Lemma same_data_refl o : same_data o o.
Proof. destruct o; cbn; auto. Qed.
Lemma same_logs_refl dl : same_logs dl dl.
Proof. repeat split; auto using same_data_refl. Qed.
Lemma same_logs_trans a b c : same_logs a b -> same_logs b c -> same_logs a c.
Proof.
  intros (H1 & H2 & H3 & H4) (G1 & G2 & G3 & G4). repeat split; try congruence.
  intros i. specialize (H4 i). specialize (G4 i). unfold same_data in *.
  destruct (slab_get (dl_native a) i), (slab_get (dl_native b) i), (slab_get (dl_native c) i); try tauto.
  destruct H4, G4. split; congruence.
Qed.

Lemma dlinv_same dl dl' : DLInv dl -> same_logs dl dl' -> DLInv dl'.
Proof.
  intros [I1 I2 I3 I4] (H1 & H2 & H3 & H4). constructor.
  - congruence.
  - intros i d' Hd'. specialize (H4 i). rewrite Hd' in H4. unfold same_data in H4.
    destruct (slab_get (dl_native dl) i) as [d|] eqn:Ed; [|tauto]. destruct H4 as [Hf Hl].
    specialize (I2 _ _ Ed). unfold DataOk in *. rewrite Hf, Hl. assumption.
  - intros f i Hin. rewrite H2 in Hin. destruct (I3 _ _ Hin) as (d & Hd & Hf).
    specialize (H4 i). rewrite Hd in H4. unfold same_data in H4.
    destruct (slab_get (dl_native dl') i) as [d'|]; [|tauto]. exists d'. split; [reflexivity|]. destruct H4. congruence.
  - intros t v Hin i Hi. rewrite H3 in Hin. destruct (I4 _ _ Hin _ Hi) as (d & Hd & Hm).
    specialize (H4 i). rewrite Hd in H4. unfold same_data in H4.
    destruct (slab_get (dl_native dl') i) as [d'|]; [|tauto]. exists d'. split; [reflexivity|]. destruct H4 as [-> _]. assumption.
Qed.

Lemma same_logs_put_waiters dl i d w :
  slab_get (dl_native dl) i = Some d ->
  same_logs dl (set_dl_native dl (slab_put (dl_native dl) i (set_d_waiters d w))).
Proof.
  intros Hg. repeat split; cbn [set_dl_native dl_native dl_findex dl_pfilters slab_put sl_free]; auto.
  intros j. destruct (N.eq_dec i j) as [<-|Hn].
  - rewrite Hg. erewrite slab_get_put_eq by eassumption. cbn. auto.
  - rewrite slab_get_put_neq by assumption. apply same_data_refl.
Qed.

Lemma park_same st id rq st' : park st id rq = Ok st' -> same_logs (r_datalog st) (r_datalog st').
Proof.
  unfold park. intros H. step H. apply native_get_Some in E. inv H.
  cbn [r_datalog set_r_datalog]. now apply same_logs_put_waiters.
Qed.

(** items-level relation for the two functions that rewrite the whole item list *)
Definition same_items (a b : list (option data)) : Prop :=
  forall i, match nthN a i, nthN b i with
            | Some x, Some y => same_data x y
            | None, None => True
            | _, _ => False
            end.
Lemma same_items_cons x y a b : same_data x y -> same_items a b -> same_items (x :: a) (y :: b).
Proof.
  intros Hxy Hab i. cbn [nthN]. destruct (i =? 0); [assumption|apply Hab].
Qed.
Lemma same_items_nil : same_items [] [].
Proof. intros i. exact I. Qed.

Lemma same_items_logs dl items :
  same_items (sl_items (dl_native dl)) items ->
  same_logs dl (set_dl_native dl {| sl_items := items; sl_free := sl_free (dl_native dl) |}).
Proof.
  intros H. repeat split; cbn [set_dl_native dl_native dl_findex dl_pfilters sl_free]; auto.
  intros i. specialize (H i). unfold slab_get; cbn [sl_items].
  destruct (nthN (sl_items (dl_native dl)) i) as [x|], (nthN items i) as [y|]; try tauto.
  destruct x, y; cbn in *; tauto.
Qed.

Lemma clean_items_same id : forall items items' q, clean_items items id = (items', q) -> same_items items items'.
Proof.
  induction items as [|[d|] r IH]; cbn [clean_items]; intros items' q H.
  - inv H. apply same_items_nil.
  - destruct (waiters_remove (S (length (d_waiters d))) (d_waiters d) id) as [w' q1].
    destruct (clean_items r id) as [r' q2] eqn:E. inv H.
    apply same_items_cons; [cbn; auto|eapply IH; reflexivity].
  - destruct (clean_items r id) as [r' q2] eqn:E. inv H.
    apply same_items_cons; [exact I|eapply IH; reflexivity].
Qed.
Lemma dl_clean_same dl id dl' q : dl_clean dl id = (dl', q) -> same_logs dl dl'.
Proof.
  unfold dl_clean. destruct (clean_items (sl_items (dl_native dl)) id) as [items q'] eqn:E.
  intros H; inv H. apply same_items_logs. eapply clean_items_same; eassumption.
Qed.

Lemma remove_waiter_items_same id f : forall items, same_items items (remove_waiter_items items id f).
Proof.
  induction items as [|[d|] r IH]; cbn [remove_waiter_items].
  - apply same_items_nil.
  - destruct (position_req (d_waiters d) id f 0) as [i|].
    + destruct (swap_remove_back (d_waiters d) i) as [[? w']|].
      * apply same_items_cons; [cbn; auto|]. intros j. destruct (nthN r j) as [[x|]|]; cbn; auto.
      * apply same_items_cons; [cbn; auto|]. intros j. destruct (nthN r j) as [[x|]|]; cbn; auto.
    + apply same_items_cons; [cbn; auto|apply IH].
  - apply same_items_cons; [exact I|apply IH].
Qed.
Lemma remove_waiters_same st id f st' : remove_waiters_for_id st id f = Ok st' -> same_logs (r_datalog st) (r_datalog st').
Proof.
  unfold remove_waiters_for_id. intros H. inv H. cbn [r_datalog set_r_datalog].
  apply same_items_logs. apply remove_waiter_items_same.
Qed.

Lemma retain_update_same st t p pr : same_logs (r_datalog st) (r_datalog (retain_update st t p pr)).
Proof.
  unfold retain_update. destruct (p_retain p); [|apply same_logs_refl].
  destruct (p_payload p); cbn [r_datalog set_r_datalog]; repeat split; cbn; auto using same_data_refl.
Qed.

(** a convenient closure: states related by "same logs" *)
Definition SL (st st' : rstate) : Prop := same_logs (r_datalog st) (r_datalog st').
Lemma SL_eq st st' : r_datalog st' = r_datalog st -> SL st st'.
Proof. unfold SL. intros ->. apply same_logs_refl. Qed.
Lemma SL_trans a b c : SL a b -> SL b c -> SL a c.
Proof. apply same_logs_trans. Qed.

(* ------------------------------------------------------------------ connection set-up / tear-down *)
Lemma rewind_requests_ok : forall rqs retr gs r, rewind_requests rqs retr gs = Ok r -> True.
Proof. trivial. Qed.

Lemma handle_disconnection_SL st id reason st' : handle_disconnection st id reason = Ok st' -> SL st st'.
Proof.
  unfold handle_disconnection. intros H.
  destruct (slab_get (r_obufs st) id) as [o0|]; [|inv H; apply SL_eq; reflexivity].
  step H. rename a into st0.
  assert (H0 : r_datalog st0 = r_datalog st).
  { destruct reason; [|inv E; reflexivity]. step E. destruct a. inv E. eapply push_out_dl; eassumption. }
  repeat step H.
  - inv H. unfold SL; cbn [r_datalog]. rewrite <- H0. eapply dl_clean_same; eassumption.
Qed.

Lemma handle_new_connection_SL st conn link st' : handle_new_connection st conn link = Ok st' -> SL st st'.
Proof.
  unfold handle_new_connection. intros H.
  step H; [inv H; apply SL_eq; reflexivity|].
  step H. rename a into st1.
  assert (H1 : SL st st1).
  { destruct (al_get str_eqb (c_client conn) (r_cmap st)); [eapply handle_disconnection_SL; eassumption|inv E0; apply SL_eq; reflexivity]. }
  step H; [inv H; assumption|].
  repeat step H.
  eapply SL_trans; [exact H1|]. apply SL_eq. rewrite (reschedule_dl _ _ _ _ H). reflexivity.
Qed.

(* ------------------------------------------------------------------ DLInv through the packet handlers *)
Lemma dlinv_SL st st' : DLInv (r_datalog st) -> SL st st' -> DLInv (r_datalog st').
Proof. intros H1 H2. eapply dlinv_same; eassumption. Qed.

Lemma prepare_filter_dl st id cu fidx path qos grp subid st' :
  prepare_filter st id cu fidx path qos grp subid = Ok st' -> r_datalog st' = r_datalog st.
Proof.
  unfold prepare_filter, get_conn, put_conn. intros H.
  bindn H conn Ec. step H.
  - inv H. reflexivity.
  - bindn H st4 E4. bindn H st5 E5. bindn H u Eu. inv H.
    rewrite (reschedule_dl _ _ _ _ E5), (track_dl _ _ _ _ E4). reflexivity.
Qed.

Lemma subscribe_filters_inv id subid : forall fs st fl codes st' fl' codes',
  DLInv (r_datalog st) -> subscribe_filters st id fs subid fl codes = Ok (st', fl', codes') -> DLInv (r_datalog st').
Proof.
  induction fs as [|[path qos] r IH]; cbn [subscribe_filters]; intros st fl codes st' fl' codes' HI H.
  - inv H. assumption.
  - step H; [inv H; assumption|].
    destruct (extract_group path) as [[g p]|].
    + step H; [inv H; assumption|]. bindn H x Ex. destruct x as [[st1 idx] cu]. bindn H st2 E2.
      eapply IH; [|exact H]. rewrite (prepare_filter_dl _ _ _ _ _ _ _ _ _ E2).
      eapply next_native_offset_inv; eassumption.
    + step H; [inv H; assumption|]. bindn H x Ex. destruct x as [[st1 idx] cu]. bindn H st2 E2.
      eapply IH; [|exact H]. rewrite (prepare_filter_dl _ _ _ _ _ _ _ _ _ E2).
      eapply next_native_offset_inv; eassumption.
Qed.

Lemma unsubscribe_filters_SL id client : forall fs st reasons st' reasons',
  unsubscribe_filters st id client fs reasons = Ok (st', reasons') -> SL st st'.
Proof.
  induction fs as [|f r IH]; cbn [unsubscribe_filters]; intros st reasons st' reasons' H.
  - inv H. apply SL_eq; reflexivity.
  - step H; [eapply IH; eassumption|].
    unfold get_conn in H. bindn H conn Ec. step H.
    + eapply SL_trans; [|eapply IH; exact H]. apply SL_eq.
      destruct (al_get str_eqb f (r_submap st)); reflexivity.
    + bindn H st4 E4. bindn H st5 E5.
      eapply SL_trans; [|eapply IH; exact H].
      unfold SL. cbn [r_datalog set_r_notif].
      eapply same_logs_trans; [|eapply remove_waiters_same; exact E5].
      rewrite (untrack_dl _ _ _ _ E4). cbn [r_datalog set_r_groups put_conn set_r_conns].
      destruct (al_get str_eqb f (r_submap st)); apply same_logs_refl.
Qed.

Lemma append_to_commitlog_inv st id p props st' res :
  DLInv (r_datalog st) -> append_to_commitlog st id p props = Ok (st', res) -> DLInv (r_datalog st').
Proof.
  unfold append_to_commitlog, get_conn, put_conn. intros HI H.
  bindn H conn Ec. step H; [inv H; assumption|].
  bindn H sp Esp. destruct sp as [[st1 p1]|reason].
  2:{ inv H. assumption. }
  assert (H1 : r_datalog st1 = r_datalog st).
  { destruct (match props with Some pr => pp_alias pr | None => None end) as [al|]; [|destruct (p_topic p); inv Esp; reflexivity].
    repeat step Esp; inv Esp; reflexivity. }
  step H; [inv H; rewrite H1; assumption|].
  bindn H x Ex. destruct x as [st3 idxs]. bindn H st4 E4. inv H.
  match type of Ex with dl_matches ?s2 _ = _ => set (st2 := s2) in * end.
  assert (HI2 : DLInv (r_datalog st2)).
  { eapply dlinv_same; [|apply retain_update_same]. rewrite H1. assumption. }
  destruct (dl_matches_inv _ _ _ _ HI2 Ex) as (HI3 & Hidx & _).
  eapply append_all_inv; [exact HI3| |exact E4].
  intros i Hi d Hd. destruct (Hidx _ Hi) as (d' & Hd' & Hm). rewrite Hd in Hd'. inv Hd'.
  split; cbn [fst set_p_retain p_topic p_retain]; [assumption|reflexivity].
Qed.

Lemma handle_packet_inv st id client pk fl st' fl' brk :
  DLInv (r_datalog st) -> handle_packet st id client pk fl = Ok (st', fl', brk) -> DLInv (r_datalog st').
Proof.
  intros HI H. destruct pk; cbn [handle_packet] in H.
  - (* publish *)
    step H.
    + bindn H st1 E1. bindn H x Ex. destruct x as [st2 res]. assert (DLInv (r_datalog st2)).
      { eapply append_to_commitlog_inv; [|exact Ex]. rewrite (commit_ack_dl _ _ _ _ E1). assumption. }
      destruct res; inv H; assumption.
    + step H.
      * unfold get_acks in H. bindn H l El. inv H. assumption.
      * bindn H x Ex. destruct x as [st1 res]. assert (DLInv (r_datalog st1)) by (eapply append_to_commitlog_inv; eassumption).
        destruct res; inv H; assumption.
  - bindn H x Ex. destruct x as [[st1 fl1] codes]. bindn H st2 E2. inv H.
    rewrite (commit_ack_dl _ _ _ _ E2). eapply subscribe_filters_inv; eassumption.
  - bindn H c Ec. bindn H x Ex. destruct x as [st1 reasons]. bindn H st2 E2. inv H.
    rewrite (commit_ack_dl _ _ _ _ E2). eapply dlinv_SL; [eassumption|]. eapply unsubscribe_filters_SL; eassumption.
  - unfold get_obuf in H. bindn H o Eo. destruct (register_ack o pkid) as [o' ok]. destruct ok.
    + bindn H st2 E2. inv H. rewrite (reschedule_dl _ _ _ _ E2). assumption.
    + inv H. assumption.
  - unfold get_obuf in H. bindn H o Eo. destruct (register_ack o pkid) as [o' ok]. destruct ok.
    + unfold get_acks in H. bindn H l El. bindn H st2 E2. bindn H st3 E3. inv H.
      rewrite (reschedule_dl _ _ _ _ E3), (commit_ack_dl _ _ _ _ E2). assumption.
    + inv H. assumption.
  - unfold get_acks in H. bindn H l El. destruct (a_recorded l) as [|[p0 pr0] rec].
    + inv H. assumption.
    + bindn H x Ex. destruct x as [st2 res].
      assert (DLInv (r_datalog st2)) by (eapply append_to_commitlog_inv; [|exact Ex]; assumption).
      destruct res.
      * bindn H st3 E3. inv H. rewrite (reschedule_dl _ _ _ _ E3). assumption.
      * inv H. assumption.
  - unfold get_obuf in H. bindn H o Eo. destruct (register_pubcomp o pkid) as [o' ok]. destruct ok; inv H; assumption.
  - bindn H st1 E1. inv H. rewrite (commit_ack_dl _ _ _ _ E1). assumption.
  - inv H. assumption.
  - inv H. assumption.
Qed.

Lemma handle_packets_inv id client : forall pks st fl st' fl',
  DLInv (r_datalog st) -> handle_packets st id client pks fl = Ok (st', fl') -> DLInv (r_datalog st').
Proof.
  induction pks as [|pk r IH]; cbn [handle_packets]; intros st fl st' fl' HI H.
  - inv H. assumption.
  - bindn H x Ex. destruct x as [[st1 fl1] brk].
    assert (DLInv (r_datalog st1)) by (eapply handle_packet_inv; eassumption).
    destruct brk; [inv H; assumption|]. eapply IH; eassumption.
Qed.

Lemma handle_device_payload_inv st id st' :
  DLInv (r_datalog st) -> handle_device_payload st id = Ok st' -> DLInv (r_datalog st').
Proof.
  unfold handle_device_payload, link_get, link_put. intros HI H.
  step H; [|inv H; assumption]. bindn H b Eb. bindn H x Ex. destruct x as [st1 fl].
  assert (H1 : DLInv (r_datalog st1)) by (eapply handle_packets_inv; [|exact Ex]; assumption).
  bindn H st2 E2. assert (H2 : DLInv (r_datalog st2)).
  { destruct (f_force_ack fl); [rewrite (reschedule_dl _ _ _ _ E2)|inv E2]; assumption. }
  bindn H st3 E3. assert (H3 : DLInv (r_datalog st3)).
  { destruct (f_new_data fl); [rewrite (drain_notifications_dl _ _ E3)|inv E3]; assumption. }
  destruct (f_disconnect fl); [|inv H; assumption].
  eapply dlinv_SL; [exact H3|]. eapply handle_disconnection_SL; eassumption.
Qed.

(* ------------------------------------------------------------------ forward_device_data *)
Definition out_of (st : rstate) (k : N) : list notification :=
  match nthN (r_links st) k with Some b => lk_out b | None => [] end.

Lemma push_out_out st k ns st' n : push_out st k ns = Ok (st', n) ->
  (forall j, out_of st' j = if j =? k then out_of st k ++ ns else out_of st j) /\
  r_datalog st' = r_datalog st.
Proof.
  unfold push_out, link_get, link_put. intros H.
  destruct (nthN (r_links st) k) as [b|] eqn:Eb; cbn [bind] in H; [|discriminate]. inv H.
  split; [|reflexivity]. intros j. unfold out_of; cbn [r_links set_r_links].
  destruct (N.eqb_spec j k) as [->|Hn].
  - rewrite nthN_setN_eq by (eapply nthN_Some_lt; eassumption). rewrite Eb. reflexivity.
  - rewrite nthN_setN_neq by congruence. reflexivity.
Qed.

(** what a log-sourced forward must look like, given the filter of the log it was read from *)
Definition FwdOk (f : str) (n : notification) : Prop :=
  match n with
  | NForward (Some _) p _ =>
      exists e : pubdata, EntryOk f e /\ p_payload p = p_payload (fst e) /\
                          (p_topic p = p_topic (fst e) \/ p_topic p = []) /\ p_retain p = false
  | _ => True
  end.
Definition PreOk (f : str) (x : option cursor * publish * option pprops) : Prop :=
  match x with
  | (Some _, p, _) =>
      exists e : pubdata, EntryOk f e /\ p_payload p = p_payload (fst e) /\
                          (p_topic p = p_topic (fst e) \/ p_topic p = []) /\ p_retain p = false
  | _ => True
  end.

Lemma alias_forwards_ok f qos subid : forall l bal bal' l',
  Forall (PreOk f) l -> alias_forwards bal qos subid l = (bal', l') -> Forall (PreOk f) l'.
Proof.
  induction l as [|[[c p] pr] r IH]; cbn [alias_forwards]; intros bal bal' l' HF H.
  - inv H. constructor.
  - inversion HF as [|? ? Hx Hr]; subst.
    match type of H with (match ?X with _ => _ end) = _ => destruct X as [[bal1 p2] pr1] eqn:EX end.
    destruct (alias_forwards bal1 qos subid r) as [bal2 r'] eqn:Er. inv H.
    constructor; [|eapply IH; eassumption].
    destruct c as [cu|]; [|exact I]. cbn [PreOk] in *.
    destruct Hx as (e & He & Hp & Ht & Hr0). exists e. split; [assumption|].
    destruct bal as [b|].
    + destruct (utf8_valid (p_topic (set_p_qos p qos))).
      * destruct (al_get str_eqb (p_topic (set_p_qos p qos)) (ba_map b)) as [a|].
        -- inv EX. cbn [set_p_topic set_p_qos p_payload p_topic p_retain]. repeat split; auto.
        -- destruct (ba_set_new_alias b (p_topic (set_p_qos p qos))) as [b' a]. inv EX.
           cbn [set_p_qos p_payload p_topic p_retain]. repeat split; auto.
      * inv EX. cbn [set_p_qos p_payload p_topic p_retain]. repeat split; auto.
    + inv EX. cbn [set_p_qos p_payload p_topic p_retain]. repeat split; auto.
Qed.

Lemma number_forwards_ok f fidx : forall fw o o' ns,
  Forall (PreOk f) fw -> number_forwards o fidx fw = (o', ns) -> Forall (FwdOk f) ns.
Proof.
  induction fw as [|[[c p] pr] r IH]; cbn [number_forwards]; intros o o' ns HF H.
  - inv H. constructor.
  - inversion HF as [|? ? Hx Hr]; subst.
    match type of H with (match ?X with _ => _ end) = _ => destruct X as [o2 ns2] eqn:EX end. inv H.
    constructor; [|eapply IH; eassumption].
    destruct c as [cu|]; [|exact I]. cbn [PreOk FwdOk] in *.
    destruct Hx as (e & He & Hp & Ht & Hr0). exists e. cbn [set_p_pkid p_payload p_topic p_retain]. auto.
Qed.

Lemma map_forward_ok f (fw : list (option cursor * publish * option pprops)) :
  Forall (PreOk f) fw ->
  Forall (FwdOk f) (map (fun x : option cursor * publish * option pprops => let '(c, p, pr) := x in NForward c p pr) fw).
Proof.
  induction 1 as [|[[c p] pr] r Hx Hr IH]; cbn [map]; constructor; [|assumption].
  destruct c; [exact Hx|exact I].
Qed.

Lemma read_retained_dl st f st' rs : read_retained st f = Ok (st', rs) ->
  r_datalog st' = r_datalog st /\ r_links st' = r_links st.
Proof.
  unfold read_retained. intros H. bindn H base Eb.
  destruct base as [|b0 [|b1 br]]; try (inv H; split; reflexivity).
  destruct (r_oracle st) as [|[| |] ?]; try discriminate.
  step H. inv H. split; reflexivity.
Qed.

Lemma update_next_client_dl st g st' g' : update_next_client st g = Ok (st', g') ->
  r_datalog st' = r_datalog st /\ r_links st' = r_links st.
Proof.
  unfold update_next_client. intros H. destruct (g_strategy g).
  - step H. inv H. split; reflexivity.
  - step H. destruct (r_oracle st) as [|[| |] ?]; try discriminate. step H. inv H. split; reflexivity.
  - inv H. split; reflexivity.
Qed.

Lemma out_of_links st st' : r_links st' = r_links st -> forall j, out_of st' j = out_of st j.
Proof. intros H j. unfold out_of. now rewrite H. Qed.

(** C01, "nothing unmatched / original payload": whatever forward_device_data adds to any
    link buffer: every log-sourced forward is a stored entry of the request's log, whose topic
    matches that log's filter, with the stored payload, the stored topic (or an empty one when
    a topic alias stands for it) and retain = false. *)
Theorem forward_device_data_ok st id rq st' rq' status d :
  DLInv (r_datalog st) ->
  slab_get (dl_native (r_datalog st)) (dr_idx rq) = Some d ->
  forward_device_data st id rq = Ok (st', rq', status) ->
  r_datalog st' = r_datalog st /\
  exists k added,
    (forall j, out_of st' j = if j =? k then out_of st k ++ added else out_of st j) /\
    Forall (FwdOk (d_filter d)) added.
Proof.
  intros HI Hd H. unfold forward_device_data, get_obuf in H.
  bindn H o Eo. bindn H conn Ec.
  match type of H with context [set_dr_cursor] => idtac | _ => idtac end.
  remember (match dr_group rq with
            | Some name => match al_get str_eqb name (r_groups st) with Some g => Some (name, g) | None => None end
            | None => None end) as sg eqn:Esg.
  remember (match sg with Some (_, g) => set_dr_cursor rq (g_cursor g) | None => rq end) as rq0 eqn:Erq0.
  assert (Hidx0 : dr_idx rq0 = dr_idx rq) by (subst rq0; destruct sg as [[? ?]|]; reflexivity).
  bindn H slots0 Es0.
  step H.
  { inv H. split; [reflexivity|]. exists 0, []. split; [|constructor].
    intros j. destruct (N.eqb_spec j 0) as [-> | ]; [now rewrite app_nil_r|reflexivity]. }
  bindn H x Ex. destruct x as [[[st1 rq1] retained] slots2].
  assert (H1 : r_datalog st1 = r_datalog st /\ r_links st1 = r_links st /\ dr_idx rq1 = dr_idx rq).
  { destruct (dr_fwd_retained rq0).
    - bindn Ex y Ey. destruct y as [st0 rs]. inv Ex. destruct (read_retained_dl _ _ _ _ Ey). auto.
    - inv Ex. auto. }
  destruct H1 as (H1a & H1b & H1c).
  unfold native_get in H. rewrite H1a, H1c, Hd in H. cbn [bind] in H.
  bindn H y Ey. destruct y as [pos from_log].
  assert (Hlog : Forall (fun e : pubdata * cursor => EntryOk (d_filter d) (fst e)) from_log).
  { eapply (logall_readv (EntryOk (d_filter d))); [|exact Ey]. eapply dli_data; eassumption. }
  destruct (match pos with Next s e => (s, e, false) | Done s e => (s, e, true) end) as [[start next] caughtup].
  step H.
  { inv H. split; [assumption|]. exists 0, []. split; [|constructor].
    intros j. rewrite (out_of_links _ _ H1b). destruct (N.eqb_spec j 0) as [-> | ]; [now rewrite app_nil_r|reflexivity]. }
  match type of H with context [match ?pubs with [] => _ | _ :: _ => _ end] => remember pubs as publishes eqn:Ep end.
  assert (Hpre : Forall (PreOk (d_filter d)) publishes).
  { subst publishes. apply Forall_app. split.
    - apply Forall_forall. intros x Hx. apply in_map_iff in Hx as (e & <- & _). exact I.
    - apply Forall_forall. intros x Hx. apply in_map_iff in Hx as (e & <- & He).
      rewrite Forall_forall in Hlog. specialize (Hlog _ He). cbn [PreOk].
      exists (fst e). destruct Hlog as [Hm Hr]. repeat split; auto. }
  destruct publishes as [|pb pbs] eqn:Epubs.
  { inv H. split; [assumption|]. exists 0, []. split; [|constructor].
    intros j. rewrite (out_of_links _ _ H1b). destruct (N.eqb_spec j 0) as [-> | ]; [now rewrite app_nil_r|reflexivity]. }
  rewrite <- Epubs in *. clear Epubs.
  step H.
  match type of H with (match ?X with _ => _ end) = _ => destruct X as [bal forwards] eqn:Eal end.
  pose proof (alias_forwards_ok _ _ _ _ _ _ _ Hpre Eal) as Hfw.
  match type of H with (match ?X with _ => _ end) = _ => destruct X as [o1 notifs] eqn:Enum end.
  assert (Hn : Forall (FwdOk (d_filter d)) notifs).
  { cbn [dr_qos dr_idx] in Enum. destruct (dr_qos rq1 =? 0) eqn:Eq.
    - inv Enum. now apply map_forward_ok.
    - eapply number_forwards_ok; eassumption. }
  bindn H z Ez. destruct z as [st4 len].
  destruct (push_out_out _ _ _ _ _ Ez) as [Hout4 Hdl4].
  cbn [put_obuf put_conn set_r_obufs set_r_conns r_links r_datalog] in Hout4, Hdl4.
  assert (Hout4' : forall j, out_of st4 j = if j =? o_link o1 then out_of st (o_link o1) ++ notifs else out_of st j).
  { intros j. rewrite Hout4. unfold out_of, put_obuf, put_conn; cbn [r_links set_r_obufs set_r_conns]. rewrite ?H1b. reflexivity. }
  bindn H st5 E5.
  assert (H5 : r_datalog st5 = r_datalog st4 /\ r_links st5 = r_links st4).
  { destruct sg as [[name g0]|]; [|inv E5; auto].
    destruct (al_get str_eqb name (r_groups st4)) as [g|]; [|inv E5; auto].
    bindn E5 w Ew. destruct w as [st6 g']. inv E5. destruct (update_next_client_dl _ _ _ _ Ew). auto. }
  destruct H5 as [H5a H5b].
  step H.
  - bindn H w Ew. destruct w as [st6 n6]. inv H.
    destruct (push_out_out _ _ _ _ _ Ew) as [Hout6 Hdl6].
    split; [congruence|]. exists (o_link o1), (notifs ++ [NUnschedule]). split.
    + intros j. rewrite Hout6. rewrite !(out_of_links _ _ H5b). rewrite !Hout4'. rewrite N.eqb_refl.
      destruct (j =? o_link o1); [now rewrite app_assoc|reflexivity].
    + apply Forall_app. split; [assumption|]. constructor; [exact I|constructor].
  - inv H. split; [congruence|]. exists (o_link o1), notifs. split; [|assumption].
    intros j. rewrite (out_of_links _ _ H5b). apply Hout4'.
Qed.

(* ------------------------------------------------------------------ consume, wills, shadow, step *)
Lemma forward_device_data_dl st id rq st' rq' status :
  DLInv (r_datalog st) -> forward_device_data st id rq = Ok (st', rq', status) ->
  r_datalog st' = r_datalog st.
Proof.
  intros HI H.
  destruct (slab_get (dl_native (r_datalog st)) (dr_idx rq)) as [d|] eqn:Ed.
  - eapply forward_device_data_ok; eassumption.
  - (* no such log: the function fails before reading; only the early InflightFull exit returns Ok *)
    unfold forward_device_data, get_obuf in H.
    bindn H o Eo. bindn H conn Ec. bindn H slots0 Es0.
    step H; [inv H; reflexivity|].
    bindn H x Ex. destruct x as [[[st1 rq1] retained] slots2].
    assert (H1 : r_datalog st1 = r_datalog st /\ dr_idx rq1 = dr_idx rq).
    { match type of Ex with (if ?c then _ else _) = _ => destruct c end.
      - bindn Ex y Ey. destruct y as [st0 rs]. inversion Ex; subst st1 rq1 retained slots2; clear Ex.
        destruct (read_retained_dl _ _ _ _ Ey) as [-> _].
        split; [reflexivity|]. cbn [set_dr_fwd_retained dr_idx].
        destruct (dr_group rq) as [nm|]; [destruct (al_get str_eqb nm (r_groups st)); reflexivity|reflexivity].
      - inversion Ex; subst st1 rq1 retained slots2; clear Ex. split; [reflexivity|].
        destruct (dr_group rq) as [nm|]; [destruct (al_get str_eqb nm (r_groups st)); reflexivity|reflexivity]. }
    destruct H1 as [H1a H1c]. unfold native_get in H. rewrite H1a, H1c, Ed in H. discriminate.
Qed.

Lemma consume_loop_inv id : forall fuel st requests skipped st',
  DLInv (r_datalog st) -> consume_loop fuel st id requests skipped = Ok st' -> DLInv (r_datalog st').
Proof.
  induction fuel as [|fuel IH]; cbn [consume_loop]; intros st requests skipped st' HI H.
  - rewrite (trackv_dl _ _ _ _ H). assumption.
  - destruct requests as [|rq rest].
    + bindn H st1 E1. rewrite (trackv_dl _ _ _ _ H).
      destruct skipped; [rewrite (pause_dl _ _ _ _ E1)|inv E1]; assumption.
    + bindn H x Ex. destruct x as [[st1 rq'] status].
      assert (H1 : DLInv (r_datalog st1)) by (rewrite (forward_device_data_dl _ _ _ _ _ _ HI Ex); assumption).
      destruct status.
      * bindn H st2 E2. rewrite (trackv_dl _ _ _ _ H), (pause_dl _ _ _ _ E2). assumption.
      * bindn H st2 E2. rewrite (trackv_dl _ _ _ _ H), (pause_dl _ _ _ _ E2). assumption.
      * bindn H st2 E2. eapply IH; [|exact H]. eapply dlinv_SL; [exact H1|]. eapply park_same; eassumption.
      * eapply IH; eassumption.
      * eapply IH; eassumption.
Qed.

Lemma ack_device_data_dl st id o st' : ack_device_data st id o = Ok st' -> r_datalog st' = r_datalog st.
Proof.
  unfold ack_device_data, get_acks, put_acks. intros H. bindn H l El.
  destruct (a_committed l); [inv H; reflexivity|].
  bindn H x Ex. destruct x as [st2 n]. inv H. destruct (push_out_out _ _ _ _ _ Ex) as [_ ->]. reflexivity.
Qed.

Lemma consume_inv st st' b : DLInv (r_datalog st) -> consume st = Ok (st', b) -> DLInv (r_datalog st').
Proof.
  unfold consume, put_tracker. intros HI H.
  destruct (r_ready st) as [|id rq]; [inv H; assumption|].
  step H; [|inv H; assumption].
  step H; [|inv H; assumption].
  bindn H st3 E3. bindn H u Eu. bindn H st4 E4. inv H.
  eapply consume_loop_inv; [|exact E4]. rewrite (ack_device_data_dl _ _ _ _ E3). assumption.
Qed.

Lemma handle_last_will_inv st client st' :
  DLInv (r_datalog st) -> handle_last_will st client = Ok st' -> DLInv (r_datalog st').
Proof.
  unfold handle_last_will. intros HI H.
  destruct (al_get str_eqb client (r_wills st)) as [w|]; [|inv H; assumption].
  step H; [inv H; assumption|].
  step H; [inv H; assumption|].
  bindn H x Ex. destruct x as [st3 idxs]. bindn H st4 E4.
  rewrite (drain_notifications_dl _ _ H).
  match type of Ex with dl_matches ?s2 _ = _ => set (st2 := s2) in * end.
  assert (HI2 : DLInv (r_datalog st2)).
  { eapply dlinv_same; [|apply retain_update_same]. assumption. }
  destruct (dl_matches_inv _ _ _ _ HI2 Ex) as (HI3 & Hidx & _).
  eapply append_all_inv; [exact HI3| |exact E4].
  intros i Hi d Hd. destruct (Hidx _ Hi) as (d' & Hd' & Hm). rewrite Hd in Hd'. inv Hd'.
  split; cbn [fst set_p_retain p_topic p_retain]; [assumption|reflexivity].
Qed.

Lemma retrieve_shadow_dl st id f st' : retrieve_shadow st id f = Ok st' -> r_datalog st' = r_datalog st.
Proof.
  unfold retrieve_shadow. intros H.
  destruct (slab_get (r_obufs st) id); [|inv H; reflexivity].
  destruct (al_get str_eqb f (dl_findex (r_datalog st))); [|inv H; reflexivity].
  destruct (slab_get (dl_native (r_datalog st)) n); [|inv H; reflexivity].
  bindn H a Ea. destruct (last_opt (s_data a)) as [[p pr]|]; [|inv H; reflexivity].
  bindn H x Ex. destruct x as [st1 len]. destruct (push_out_out _ _ _ _ _ Ex) as [_ H1].
  step H.
  - bindn H y Ey. destruct y as [st2 n2]. inv H. destruct (push_out_out _ _ _ _ _ Ey) as [_ ->]. assumption.
  - inv H. assumption.
Qed.

Theorem step_inv st o st' out : DLInv (r_datalog st) -> step st o = Ok (st', out) -> DLInv (r_datalog st').
Proof.
  intros HI H. destruct o; cbn [step] in H.
  - bindn H st2 E2. inv H. eapply dlinv_SL; [|eapply handle_new_connection_SL; exact E2]. assumption.
  - destruct (nthN (r_links st) link); inv H; assumption.
  - bindn H st1 E1. inv H. eapply handle_device_payload_inv; eassumption.
  - bindn H x Ex. destruct x as [st1 b]. inv H. eapply consume_inv; eassumption.
  - destruct (nthN (r_links st) link); inv H; assumption.
  - destruct (slab_get (r_trackers st) id); [|inv H; assumption].
    bindn H st1 E1. inv H. rewrite (reschedule_dl _ _ _ _ E1). assumption.
  - bindn H st1 E1. inv H. eapply dlinv_SL; [|eapply handle_disconnection_SL; exact E1]. assumption.
  - bindn H st1 E1. inv H. rewrite (retrieve_shadow_dl _ _ _ _ E1). assumption.
  - bindn H st1 E1. inv H. eapply handle_last_will_inv; eassumption.
  - inv H. assumption.
Qed.

Theorem step_with_inv st orc o st' out :
  DLInv (r_datalog st) -> step_with st orc o = Ok (st', out) -> DLInv (r_datalog st').
Proof.
  unfold step_with. intros HI H. bindn H x Ex. destruct x as [st1 out1].
  destruct (r_oracle st1); [|discriminate]. inv H.
  eapply step_inv; [|exact Ex]. assumption.
Qed.

Lemma init_datalog_inv cfg dl : init_datalog cfg = Ok dl -> DLInv dl.
Proof.
  unfold init_datalog.
  set (go := fix go (fs : list str) (dl : datalog) {struct fs} : R datalog :=
    match fs with
    | [] => Ok dl
    | f :: r =>
        do d <- data_new cfg f;
        let '(native', idx) := slab_insert (dl_native dl) d in
        go r {| dl_native := native'; dl_findex := al_set str_eqb f idx (dl_findex dl);
                dl_retained := []; dl_pfilters := [] |}
    end).
  assert (Hgo : forall fs dl0 dl1, DLInv dl0 -> dl_pfilters dl0 = [] -> go fs dl0 = Ok dl1 -> DLInv dl1).
  { induction fs as [|f r IH]; intros dl0 dl1 HI Hpf H; cbn in H.
    - inv H. assumption.
    - bindn H d Ed. destruct (data_new_ok _ _ _ Ed) as [Hdf Hdo].
      destruct (slab_insert (dl_native dl0) d) as [native' k] eqn:Ei.
      destruct (slab_insert_nofree _ _ _ _ (dli_nofree _ HI) Ei) as (Hk & Hfree & Hget).
      eapply IH; [| |exact H]; [|reflexivity].
      assert (Hold : forall j d0, slab_get (dl_native dl0) j = Some d0 -> slab_get native' j = Some d0).
      { intros j d0 Hj. rewrite Hget. destruct (N.eqb_spec j k) as [->|]; [|assumption].
        exfalso. unfold slab_get in Hj. rewrite Hk in Hj. rewrite nthN_ge in Hj by lia. discriminate. }
      constructor; cbn [dl_native dl_findex dl_pfilters].
      + assumption.
      + intros j d0 Hj. rewrite Hget in Hj. destruct (j =? k); [inv Hj; assumption|]. eapply dli_data; eassumption.
      + intros f' i' Hin. apply al_set_In in Hin as [[-> ->]|Hin].
        * exists d. split; [rewrite Hget, N.eqb_refl; reflexivity|assumption].
        * destruct (dli_findex _ HI _ _ Hin) as (d0 & H0 & H1). exists d0. split; [now apply Hold|assumption].
      + intros t v []. }
  intros H. eapply Hgo; [| |exact H]; [|reflexivity].
  constructor; cbn; try reflexivity.
  - intros i d Hd. unfold slab_get in Hd; cbn in Hd. discriminate.
  - intros f i [].
  - intros t v [].
Qed.

Theorem init_inv cfg st : init cfg = Ok st -> DLInv (r_datalog st).
Proof.
  unfold init. intros H. bindn H dl Edl. inv H. cbn [r_datalog]. eapply init_datalog_inv; eassumption.
Qed.

(** every state reachable from [init] by any sequence of ops (with any oracles) *)
Fixpoint run (st : rstate) (ops : list (list oracle * rop)) : R rstate :=
  match ops with
  | [] => Ok st
  | (orc, o) :: r => do x <- step_with st orc o; run (fst x) r
  end.

Theorem reachable_inv cfg ops st0 st :
  init cfg = Ok st0 -> run st0 ops = Ok st -> DLInv (r_datalog st).
Proof.
  intros Hi. pose proof (init_inv _ _ Hi) as HI. clear Hi. revert st0 HI.
  induction ops as [|[orc o] r IH]; cbn [run]; intros st0 HI H.
  - inv H. assumption.
  - bindn H x Ex. destruct x as [st1 out]. eapply IH; [|exact H]. eapply step_with_inv; eassumption.
Qed.
