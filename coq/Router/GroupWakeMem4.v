(** C17, completeness clause — part 6: [MemInv] through UNSUBSCRIBE.

    One filter of an UNSUBSCRIBE removes the subscription, the client from the group of the
    filter's key, and the data request of that subscription from the tracker, from the waiter
    lists ([remove_waiters_for_id] takes out ONE entry — there is no second one by the
    request-location invariant [DevE]) and from [notifications].  What is left of the
    connection's requests belongs to other subscriptions, hence (by their [shape]) to other
    groups; the other members of the group are other connections (one live connection per
    client id). *)
From Rumqtt Require Import Router.NoPanicLog.
From Rumqtt Require Import Router.Model Router.InvLemmasBase Router.Inv Router.InvLemmasPrim Router.InvLemmasSched
  Router.InvLemmasDl Router.InvLemmasRoute Router.InvLemmasConn Router.InvLemmasPkt Router.InvLemmasConsume
  Router.NoPanic Router.NoPanicDevBase Router.NoPanicDevInv Router.NoPanicDev1 Router.NoPanicDev2 Router.NoPanicDev3 Router.NoPanicDev4.
From Rumqtt Require Import Router.ExactLoc1 Router.ExactLoc2 Router.ExactLoc3.
From Rumqtt Require Import Router.WindowFrame Router.DataLogInv Router.DataLogStep Router.ExactInv Router.ExactStep1
  Router.RetainedBase Router.SharedRunStep Router.Wake Router.WakeConsume Router.WakePark Router.GroupWakeMem Router.GroupWakeMem2 Router.GroupWakeMem3.
From Rumqtt Require Import Router.Model Router.RunDefs.
From Coq Require Import List Arith ZifyBool ZifyN ZifyNat.
Import ListNotations.

(* ------------------------------------------------------------------ counting *)
Lemma cntw_ge1 id rq w : In (id, rq) w -> (1 <= cntw (dr_filter rq) id w)%nat.
Proof.
  induction w as [| x w IH]; intros H; [destruct H |]. rewrite cntw_cons. destruct H as [-> | H]; [| specialize (IH H); lia].
  unfold wmatch, fmatch. cbn [fst snd]. rewrite N.eqb_refl. destruct (str_eqb_spec (dr_filter rq) (dr_filter rq)); [cbn; lia | congruence].
Qed.

Lemma cnti_ge1 id rq : forall items i d,
  nthN items i = Some (Some d) -> In (id, rq) (d_waiters d) -> (1 <= cnti (dr_filter rq) id items)%nat.
Proof.
  induction items as [| x r IH]; intros i d G Hin; cbn [nthN] in G; [discriminate |].
  destruct (i =? 0).
  - inversion G; subst x. cbn [cnti]. pose proof (cntw_ge1 _ _ _ Hin). lia.
  - specialize (IH _ _ G Hin). destruct x; cbn [cnti]; lia.
Qed.

Lemma wreq_cnti st id rq : wreq st id rq -> (1 <= cnti (dr_filter rq) id (items_of st))%nat.
Proof.
  intros (i & d & Hd & Hin). unfold nget, slab_get in Hd. unfold items_of.
  destruct (nthN (sl_items (dl_native (r_datalog st))) i) as [[d0 |] |] eqn:E; try discriminate. inversion Hd; subst d0.
  eapply cnti_ge1; eauto.
Qed.

(* ------------------------------------------------------------------ one filter at a time *)
Lemma unsub_cons st id client f r reasons :
  unsubscribe_filters st id client (f :: r) reasons =
  do (st1, rs1) <- unsubscribe_filters st id client [f] reasons; unsubscribe_filters st1 id client r rs1.
Proof.
  cbn [unsubscribe_filters].
  match goal with |- (if ?b then _ else _) = _ => destruct b end; [reflexivity |].
  match goal with |- context [get_conn ?s id] => destruct (get_conn s id) as [conn | |] end; cbn [bind]; try reflexivity.
  match goal with |- (if ?b then _ else _) = _ => destruct b end; [reflexivity |].
  match goal with |- context [untrack ?s id f] => destruct (untrack s id f) as [st4 | |] end; cbn [bind]; try reflexivity.
Qed.

(** members after [client] left the group under [gname] *)
Definition left_groups (gs : list (str * group)) (gname client : str) : list (str * group) :=
  match al_get str_eqb gname gs with
  | Some g =>
      let g' := group_remove_client g client in
      match g_clients g' with
      | [] => al_remove str_eqb gname gs
      | _ => al_set str_eqb gname g' gs
      end
  | None => gs
  end.

Lemma gmemL_left_inv gs gname client name c :
  NoDup (map fst gs) ->
  gmemL (left_groups gs gname client) name c -> gmemL gs name c /\ (name = gname -> c <> client).
Proof.
  intros Hnd. unfold left_groups. destruct (al_get str_eqb gname gs) as [g |] eqn:Eg.
  - destruct (g_clients (group_remove_client g client)) as [| x l] eqn:Ec.
    + intros (l0 & Hl & Hin). unfold memsL in Hl. destruct (str_eqb_spec name gname) as [-> | Hne].
      * rewrite (al_get_remove_same str_eqb str_eqb_spec) in Hl by exact Hnd. discriminate.
      * rewrite (al_get_remove_other str_eqb str_eqb_spec) in Hl by exact Hne. split; [exists l0; auto | congruence].
    + intros (l0 & Hl & Hin). rewrite memsL_set in Hl. destruct (str_eqb_spec name gname) as [-> | Hne].
      * inversion Hl; subst l0. cbn [group_remove_client g_clients] in Hin.
        apply filter_In in Hin as [Hin Hb].
        split; [exists (g_clients g); unfold memsL; rewrite Eg; auto |].
        intros _ ->. destruct (str_eqb_spec client client); [discriminate | congruence].
      * split; [exists l0; auto | congruence].
  - intros H. split; [exact H |]. intros -> . destruct H as (l0 & Hl & _). unfold memsL in Hl. rewrite Eg in Hl. discriminate.
Qed.

(** ... and who stays *)
Lemma gmemL_left_keep gs gname client name c :
  gmemL gs name c -> (name = gname -> c <> client) -> gmemL (left_groups gs gname client) name c.
Proof.
  intros (l0 & Hl & Hin) Hne. unfold left_groups. destruct (al_get str_eqb gname gs) as [g |] eqn:Eg; [| exists l0; auto].
  destruct (str_eqb_spec name gname) as [-> | Hn].
  - specialize (Hne eq_refl). unfold memsL in Hl. rewrite Eg in Hl. inversion Hl; subst l0.
    assert (Hin' : In c (g_clients (group_remove_client g client))).
    { cbn [group_remove_client g_clients]. apply filter_In. split; [exact Hin |].
      destruct (str_eqb_spec c client); [contradiction | reflexivity]. }
    destruct (g_clients (group_remove_client g client)) as [| x l] eqn:Ec; [destruct Hin' |].
    unfold gmemL. rewrite memsL_set. destruct (str_eqb_spec gname gname); [| congruence].
    eexists. split; [reflexivity |]. rewrite Ec. exact Hin'.
  - destruct (g_clients (group_remove_client g client)) as [| x l].
    + exists l0. unfold memsL. rewrite (al_get_remove_other str_eqb str_eqb_spec) by exact Hn. auto.
    + exists l0. rewrite memsL_set. destruct (str_eqb_spec name gname); [contradiction | auto].
Qed.

Lemma gpath_inj a b : gpath a = gpath b -> a = b.
Proof. unfold gpath. apply app_inv_head. Qed.

Lemma untrack_explicit st id f st' :
  untrack st id f = Ok st' ->
  exists t, slab_get (r_trackers st) id = Some t /\
    st' = put_tracker st id (set_tr_reqs t (filter (fun r => negb (str_eqb (dr_filter r) f)) (tr_reqs t))).
Proof.
  unfold untrack, get_tracker. intros H. destruct (slab_get (r_trackers st) id) as [t |] eqn:G; [| discriminate].
  cbn [bind] in H. inv_ok. eauto.
Qed.

Lemma unsub_one_mem cfg st id client f reasons st' rs' :
  RInvC cfg st -> DevEI st -> MemInv st -> cli st id = Some client ->
  unsubscribe_filters st id client [f] reasons = Ok (st', rs') -> MemInv st'.
Proof.
  intros HI HD HM Hcl H. pose proof (mi_gk _ HM) as HK. cbn [unsubscribe_filters] in H.
  match type of H with (if negb ?b then _ else _) = _ => destruct b end; cbn [negb] in H; [| inv_ok; exact HM].
  match type of H with context [get_conn ?s id] => set (st1 := s) in * end.
  assert (V1 : mview st1 = mview st) by (unfold st1; destruct (al_get str_eqb f (r_submap st)); reflexivity).
  assert (F1 : mfr [] st st1) by (now apply mfr_view).
  unfold get_conn in H.
  assert (Ec1 : r_conns st1 = r_conns st) by (unfold mview in V1; congruence).
  rewrite Ec1 in H.
  destruct (slab_get (r_conns st) id) as [conn |] eqn:Hc; [| discriminate]. cbn [bind] in H.
  destruct (negb (set_mem str_eqb f (c_subs conn))) eqn:Es; [inv_ok; eapply MemInv_mfr0; eauto |].
  apply negb_false_iff in Es.
  match type of H with context [put_conn st1 id ?cc] => set (conn1 := cc) in * end.
  match type of H with context [set_r_groups (put_conn st1 id conn1) ?g] => set (gs' := g) in * end.
  assert (Egs : gs' = match extract_group f with
                      | Some (gname, _) => left_groups (r_groups st) gname client
                      | None => r_groups st
                      end).
  { unfold gs', left_groups. replace (r_groups st1) with (r_groups st) by (unfold mview in V1; congruence).
    destruct (extract_group f) as [[gname p] |]; reflexivity. }
  clearbody gs'.
  set (st2 := set_r_groups (put_conn st1 id conn1) gs') in *.
  apply bind_ok in H as (st4 & H4 & H). apply bind_ok in H as (st5 & H5 & H).
  assert (E' : st' = set_r_notif st5 (filter (fun x : N * drequest => negb ((fst x =? id) && str_eqb (dr_filter (snd x)) f)) (r_notif st5)))
    by (inversion H; reflexivity).
  clear H.
  destruct (untrack_explicit _ _ _ _ H4) as (t & Ht & E4).
  assert (Et1 : r_trackers st1 = r_trackers st) by (unfold mview in V1; congruence).
  assert (Ed1 : dl_native (r_datalog st1) = dl_native (r_datalog st)) by (unfold mview in V1; congruence).
  assert (Ht0 : slab_get (r_trackers st) id = Some t) by (rewrite <- Et1; exact Ht).
  assert (F24 : mfr [] st2 st4).
  { rewrite E4. apply (mfr_put_tracker st2 id t _ [] Ht). cbn [set_tr_reqs tr_reqs]. rewrite app_nil_r. intros x Hx. apply filter_In in Hx. tauto. }
  pose proof (remove_waiters_mfr _ _ _ _ H5) as F45.
  assert (F5' : mfr [] st5 st').
  { rewrite E'. apply mfr_set_notif. intros x Hx. apply filter_In in Hx. tauto. }
  assert (F2' : mfr [] st2 st') by (eapply mfr_trans0; [exact F24 |]; eapply mfr_trans0; eauto).
  (* requests of [st2] are requests of [st] *)
  assert (R2 : forall id' rq, HasReq st2 id' rq -> HasReq st id' rq).
  { intros id' rq Hr. destruct (mf_req _ _ _ F1 id' rq) as [X | []]; [| exact X]. exact Hr. }
  assert (R' : forall id' rq, HasReq st' id' rq -> HasReq st id' rq).
  { intros id' rq Hr. destruct (mf_req _ _ _ F2' _ _ Hr) as [X | []]. now apply R2. }
  (* no request of [id] for the filter is left *)
  assert (Hsub : subs_of st id = Some (c_subs conn)) by (unfold subs_of; now rewrite Hc).
  assert (NoF : forall rq, HasReq st' id rq -> dr_filter rq <> f).
  { intros rq [Hr | [Hr | Hr]].
    - assert (T : treqs st' id = filter (fun r => negb (str_eqb (dr_filter r) f)) (tr_reqs t)).
      { rewrite E'. change (treqs (set_r_notif st5 _) id) with (treqs st5 id).
        unfold remove_waiters_for_id in H5. inversion H5; subst st5. change (treqs (set_r_datalog st4 _) id) with (treqs st4 id).
        rewrite E4, (treqs_put _ _ _ _ _ Ht), N.eqb_refl. reflexivity. }
      rewrite T in Hr. apply filter_In in Hr as [_ Hb]. intros E. rewrite E in Hb.
      destruct (str_eqb_spec f f); [discriminate | congruence].
    - intros E. pose proof (wreq_cnti _ _ _ Hr) as C. rewrite E in C.
      assert (I' : items_of st' = remove_waiter_items (items_of st) id f).
      { rewrite E'. unfold remove_waiters_for_id in H5. inversion H5; subst st5. unfold items_of. rsimpl.
        cbn [set_dl_native dl_native sl_items]. rewrite E4. rsimpl. change (dl_native (r_datalog st2)) with (dl_native (r_datalog st1)). now rewrite Ed1. }
      rewrite I', remove_waiter_items_cnt, N.eqb_refl in C.
      destruct (str_eqb_spec f f) as [_ | X]; [| congruence]. cbn [andb] in C.
      pose proof (de_live _ _ HD id _ Hsub f) as Hok. unfold okE, CNT in Hok.
      destruct (set_mem str_eqb f (c_subs conn)); lia.
    - rewrite E' in Hr. cbn [r_notif set_r_notif] in Hr. apply filter_In in Hr as [_ Hb]. cbn [fst snd] in Hb.
      rewrite N.eqb_refl in Hb. cbn [andb] in Hb. intros E. rewrite E in Hb.
      destruct (str_eqb_spec f f); [discriminate | congruence]. }
  (* client ids, groups, subscriptions of [st'] *)
  assert (C' : forall id', cli st' id' = cli st id').
  { intros id'. rewrite (mf_cli _ _ _ F2'). change (cli st2 id') with (cli st1 id'). apply (mf_cli _ _ _ F1). }
  assert (G' : forall name c, gmem st' name c <-> gmemL gs' name c).
  { intros name c. unfold gmem. rewrite (mf_mem _ _ _ F2'). reflexivity. }
  assert (S' : forall id', subs_of st' id' = if id' =? id then Some (set_del str_eqb f (c_subs conn)) else subs_of st id').
  { intros id'. rewrite (mf_sub _ _ _ F2'). unfold st2, subs_of, put_conn. rsimpl. rewrite Ec1.
    destruct (N.eqb_spec id' id) as [-> | Hne]; [now rewrite (slab_get_put_occ _ _ _ _ Hc) | now rewrite slab_get_put_other by congruence]. }
  constructor.
  - intros id' rq Hr. destruct (mi_req _ HM _ _ (R' _ _ Hr)) as [Sh M]. split; [exact Sh |].
    intros name Hn. destruct (M name Hn) as (c & Hc' & Hg). exists c. rewrite C'. split; [exact Hc' |].
    apply G'. rewrite Egs. destruct (extract_group f) as [[gname p] |] eqn:Ef; [| exact Hg].
    apply gmemL_left_keep; [exact Hg |]. intros -> ->.
    assert (id' = id) by (eapply cli_unique; eauto). subst id'.
    apply (NoF _ Hr). rewrite (shape_filter _ _ Sh Hn). symmetry. eapply extract_group_path; eauto.
  - rewrite (mf_grave _ _ _ F2'). change (r_graveyard st2) with (r_graveyard st1). rewrite (mf_grave _ _ _ F1). exact (mi_grave _ HM).
  - intros name c Hg. apply G' in Hg. rewrite Egs in Hg.
    assert (X : gmem st name c /\ forall gname p, extract_group f = Some (gname, p) -> name = gname -> c <> client).
    { destruct (extract_group f) as [[gname p] |] eqn:Ef.
      - destruct (gmemL_left_inv _ _ _ _ _ HK Hg) as [A B]. split; [exact A |]. intros g0 p0 E0. inversion E0; subst. exact B.
      - split; [exact Hg | discriminate]. }
    destruct X as [Hg0 Hne]. destruct (mi_sub _ HM _ _ Hg0) as (K & id'' & subs & H1 & H2 & H3).
    split; [exact K |]. exists id''. rewrite C', S'. destruct (N.eqb_spec id'' id) as [-> | Hn].
    + exists (set_del str_eqb f (c_subs conn)). split; [exact H1 | split; [reflexivity |]].
      rewrite Hsub in H2. inversion H2; subst subs. rewrite set_mem_set_del; [exact H3 |].
      assert (c = client) by congruence. subst c. intros E.
      destruct (extract_group f) as [[gname p] |] eqn:Ef.
      * pose proof (extract_group_path _ _ _ Ef) as Ep. rewrite Ep in E. apply gpath_inj in E. exact (Hne _ _ eq_refl E eq_refl).
      * rewrite E in K. unfold gkey_of in K. rewrite Ef in K. discriminate.
    + exists subs. auto.
  - rewrite (mf_keys _ _ _ F2'). unfold st2. rsimpl. rewrite Egs.
    destruct (extract_group f) as [[gname p] |]; [| exact HK]. unfold left_groups.
    destruct (al_get str_eqb gname (r_groups st)) as [g |]; [| exact HK].
    destruct (g_clients (group_remove_client g client));
      [apply (al_remove_nodup str_eqb) | apply (al_set_nodup str_eqb str_eqb_spec)]; exact HK.
Qed.

Lemma unsubscribe_filters_mem cfg id client : forall fs st reasons st' rs',
  RInvC cfg st -> DevEI st -> occ (lives st) id -> MemInv st -> cli st id = Some client ->
  unsubscribe_filters st id client fs reasons = Ok (st', rs') -> MemInv st'.
Proof.
  induction fs as [| f r IH]; intros st reasons st' rs' HI HD Ho HM Hcl H.
  - cbn [unsubscribe_filters] in H. now inv_ok.
  - rewrite unsub_cons in H. apply bind_ok in H as ([st1 rs1] & H1 & H).
    pose proof (unsubscribe_filters_spec cfg id client [f] st reasons HI Ho) as W1. rewrite H1 in W1. cbn [wp fst] in W1.
    destruct W1 as (HI1 & E1 & _).
    pose proof (unsubscribe_filters_loc cfg id client [f] st reasons HI HD Ho) as W2. rewrite H1 in W2. cbn [wpd fst] in W2.
    pose proof (unsub_one_mem _ _ _ _ _ _ _ _ HI HD HM Hcl H1) as HM1.
    pose proof (unsubscribe_filters_keep _ _ _ _ _ _ _ H1) as K1.
    eapply IH; [exact HI1 | exact W2 | eapply ext_occ; eauto | exact HM1 | | exact H].
    unfold cli. rewrite (keep_obufs _ _ K1). exact Hcl.
Qed.
