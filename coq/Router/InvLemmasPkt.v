(** wp-specifications of prepare_filter, subscribe/unsubscribe, handle_packet(s),
    handle_device_payload. *)
From Rumqtt Require Import Router.Inv Router.InvLemmasPrim Router.InvLemmasSched Router.InvLemmasDl
  Router.InvLemmasRoute.
From Coq Require Import Arith ZifyBool ZifyN ZifyNat.

Ltac flsimp := cbn [f_new_data f_force_ack f_disconnect f_reason fl_ack fl_data fl_disc flags0] in *.

(* ------------------------------------------------------------------ prepare_filter *)
Lemma prepare_filter_spec cfg st id cu fidx path qos grp subid :
  RInvC cfg st -> occ (lives st) id -> fidx < nlen st -> qos <= 2 ->
  wp cfg (prepare_filter st id cu fidx path qos grp subid)
     (fun st' => RInvC cfg st' /\ ext st st' /\ r_notif st' = r_notif st).
Proof.
  intros HI Ho Hidx Hq. destruct (live_gets _ _ _ HI Ho) as (c & i & o & a & t & Hc & Hi & Hob & Ha & Ht).
  unfold prepare_filter. cbv zeta.
  match goal with |- context [set_r_submap st ?m] => set (st1 := set_r_submap st m) end.
  assert (HI1 : RInvC cfg st1) by (apply RInv_set_submap; exact HI).
  assert (Hc1 : get_conn st1 id = Ok c) by (apply get_conn_ok; exact Hc).
  rewrite Hc1. cbn [bind].
  match goal with |- context [set_r_groups st1 ?g] => set (gs := g) end.
  assert (Hgs : groups_ne gs).
  { unfold gs. destruct grp as [name|]; [|apply (ri_groups _ _ HI1)].
    apply (Forall_al_set str_eqb (fun g => g_clients g <> [])); [apply (ri_groups _ _ HI1)|].
    cbn [set_g_clients g_clients]. intros H. apply app_eq_nil in H. destruct H; discriminate. }
  set (st2 := set_r_groups st1 gs).
  assert (HI2 : RInvC cfg st2) by (apply RInv_set_groups; assumption).
  set (conn1 := match subid with
                | Some s => set_c_subids c (al_set str_eqb path s (c_subids c))
                | None => c
                end).
  assert (Hcl1 : c_client conn1 = c_client c) by (unfold conn1; destruct subid; reflexivity).
  assert (Hc2 : slab_get (r_conns st2) id = Some c) by exact Hc.
  destruct (set_mem str_eqb path (c_subs conn1)).
  - cbn [wp]. split; [eapply RInv_put_conn; eauto|]. unfold st2, st1. frame_tac.
  - match goal with |- context [put_conn st2 id ?cc] => set (conn2 := cc) end.
    set (st3 := put_conn st2 id conn2).
    assert (HI3 : RInvC cfg st3) by (eapply RInv_put_conn; eauto).
    assert (F3 : fr st st3) by (unfold st3, st2, st1; frame_tac).
    assert (Ho3 : occ (lives st3) id) by (eapply ext_occ; [apply fr_ext; exact F3|exact Ho]).
    apply wp_bind. wp_use track_spec; [exact HI3|exact Ho3| |].
    { split; cbn [dr_qos dr_idx]; [exact Hq|]. destruct F3 as [[_ Hn] _]. lia. }
    intros st4 [HI4 F4]. apply wp_bind.
    assert (Ho4 : occ (lives st4) id) by (eapply ext_occ; [apply fr_ext; exact F4|exact Ho3]).
    wp_use reschedule_spec; [exact HI4|exact Ho4|discriminate|]. intros st5 (HI5 & E5 & N5).
    apply wp_bind. wp_use dbg_no_dups_spec; [exact HI5|eapply ext_occ; eauto|]. intros _ _. cbn [wp].
    split; [exact HI5|]. split.
    + eapply ext_trans; [apply fr_ext; exact F3|]. eapply ext_trans; [apply fr_ext; exact F4|exact E5].
    + destruct F3 as (_ & _ & N3), F4 as (_ & _ & N4). congruence.
Qed.

Lemma subscribe_filters_spec cfg id subid : forall fs st fl codes,
  RInvC cfg st -> occ (lives st) id -> Forall (fun fq : str * N => snd fq <= 2) fs ->
  wp cfg (subscribe_filters st id fs subid fl codes)
     (fun r => RInvC cfg (fst (fst r)) /\ ext st (fst (fst r)) /\ r_notif (fst (fst r)) = r_notif st /\
               f_new_data (snd (fst r)) = f_new_data fl).
Proof.
  induction fs as [|[path qos] fs IH]; intros st fl codes HI Ho Hq; cbn [subscribe_filters].
  - cbn [wp fst snd]. auto with rinv.
  - inversion Hq as [|? ? Hq1 Hq']; subst. cbn [snd] in Hq1.
    destruct (negb (validate_subscription path)); [cbn [wp fst snd]; flsimp; auto with rinv|].
    destruct (match extract_group path with Some (g, p) => (Some g, p) | None => (None, path) end) as [grp filter].
    match goal with |- wp _ (if ?b then _ else _) _ => destruct b end; [cbn [wp fst snd]; flsimp; auto with rinv|].
    apply wp_bind. wp_use next_native_offset_spec; [exact HI|]. intros [[st1 idx] cu] (HI1 & F1 & Hidx). cbn [fst snd] in *.
    assert (Ho1 : occ (lives st1) id) by (eapply ext_occ; [apply fr_ext; exact F1|exact Ho]).
    apply wp_bind. wp_use prepare_filter_spec; [exact HI1|exact Ho1|exact Hidx|exact Hq1|].
    intros st2 (HI2 & E2 & N2).
    wp_use IH; [exact HI2|eapply ext_occ; eauto|exact Hq'|].
    intros [[st3 fl3] codes3] (HI3 & E3 & N3 & D3). cbn [fst snd] in *.
    split; [exact HI3|]. split; [eapply ext_trans; [apply fr_ext; exact F1|eapply ext_trans; eauto]|].
    split; [|exact D3]. destruct F1 as (_ & _ & N1). congruence.
Qed.

(* ------------------------------------------------------------------ unsubscribe *)
Lemma unsubscribe_filters_spec cfg id client : forall fs st reasons,
  RInvC cfg st -> occ (lives st) id ->
  wp cfg (unsubscribe_filters st id client fs reasons)
     (fun r => RInvC cfg (fst r) /\ ext st (fst r) /\ (r_notif st = [] -> r_notif (fst r) = [])).
Proof.
  induction fs as [|f fs IH]; intros st reasons HI Ho; cbn [unsubscribe_filters].
  - cbn [wp fst]. auto with rinv.
  - destruct (al_get str_eqb f (r_submap st)) as [ids|] eqn:Em; [|cbn [negb]; apply IH; assumption].
    destruct (set_mem N.eqb id ids); [|cbn [negb]; apply IH; assumption]. cbn [negb].
    match goal with |- context [set_r_submap st ?m] => set (st1 := set_r_submap st m) end.
    assert (HI1 : RInvC cfg st1) by (apply RInv_set_submap; exact HI).
    assert (F1 : fr st st1) by (unfold st1; frame_tac).
    assert (Ho1 : occ (lives st1) id) by exact Ho.
    destruct (live_gets _ _ _ HI1 Ho1) as (c & i & o & a & t & Hc & Hi & Hob & Ha & Ht).
    rewrite (get_conn_ok _ _ _ Hc). cbn [bind].
    destruct (negb (set_mem str_eqb f (c_subs c))).
    { wp_use IH; [exact HI1|exact Ho1|]. intros r (H1 & H2 & H3). split; [exact H1|]. split; [|exact H3].
      eapply ext_trans; [apply fr_ext; exact F1|exact H2]. }
    match goal with |- context [put_conn st1 id ?cc] => set (conn1 := cc) end.
    match goal with |- context [set_r_groups (put_conn st1 id conn1) ?g] => set (gs := g) end.
    assert (Hgs : groups_ne gs).
    { unfold gs. destruct (extract_group f) as [[gname p]|]; [|apply (ri_groups _ _ HI1)].
      destruct (al_get str_eqb gname (r_groups st1)) as [g|]; [|apply (ri_groups _ _ HI1)].
      destruct (g_clients (group_remove_client g client)) eqn:Eg.
      - apply Forall_al_remove. apply (ri_groups _ _ HI1).
      - apply (Forall_al_set str_eqb (fun g => g_clients g <> [])); [apply (ri_groups _ _ HI1)|].
        rewrite Eg. discriminate. }
    set (st2 := set_r_groups (put_conn st1 id conn1) gs).
    assert (HI2 : RInvC cfg st2).
    { apply RInv_set_groups; [|exact Hgs]. eapply RInv_put_conn; eauto. }
    assert (F2 : fr st1 st2) by (unfold st2; frame_tac).
    assert (Ho2 : occ (lives st2) id) by (eapply ext_occ; [apply fr_ext; exact F2|exact Ho1]).
    apply wp_bind. wp_use untrack_spec; [exact HI2|exact Ho2|]. intros st4 [HI4 F4].
    apply wp_bind. wp_use remove_waiters_for_id_spec; [exact HI4|]. intros st5 [HI5 F5].
    match goal with |- context [set_r_notif st5 ?v] => set (st6 := set_r_notif st5 v) end.
    assert (HI6 : RInvC cfg st6).
    { apply RInv_set_notif; [exact HI5|]. apply Forall_filter. apply (ri_notif _ _ HI5). }
    assert (E6 : ext st5 st6) by (unfold st6; frame_tac).
    assert (E06 : ext st st6).
    { eapply ext_trans; [apply fr_ext; exact F1|]. eapply ext_trans; [apply fr_ext; exact F2|].
      eapply ext_trans; [apply fr_ext; exact F4|]. eapply ext_trans; [apply fr_ext; exact F5|exact E6]. }
    wp_use IH; [exact HI6|eapply ext_occ; eauto|]. intros r (H1 & H2 & H3).
    split; [exact H1|]. split; [eapply ext_trans; eauto|]. intros Hn. apply H3.
    unfold st6. cbn [r_notif set_r_notif].
    destruct F1 as (_ & _ & N1), F2 as (_ & _ & N2), F4 as (_ & _ & N4), F5 as (_ & _ & N5).
    rewrite N5, N4, N2, N1, Hn. reflexivity.
Qed.

(* ------------------------------------------------------------------ handle_packet *)
Definition NP (st : rstate) (fl : flags) : Prop := f_new_data fl = false -> r_notif st = [].

Definition pkt_post (cfg : config) (st : rstate) (fl : flags) (st' : rstate) (fl' : flags) : Prop :=
  RInvC cfg st' /\ ext st st' /\ (NP st fl -> NP st' fl').

Lemma register_ack_spec o pkid :
  o_client (fst (register_ack o pkid)) = o_client o /\ o_link (fst (register_ack o pkid)) = o_link o /\
  lenN (o_inflight (fst (register_ack o pkid))) <= lenN (o_inflight o) /\
  o_pubrels (fst (register_ack o pkid)) = o_pubrels o.
Proof.
  unfold register_ack. destruct (o_inflight o) as [|[[h x] y] r] eqn:E; cbn [fst]; [rewrite E; repeat split; lia|].
  destruct (pkid =? h); cbn [fst]; [|rewrite E; repeat split; lia].
  cbn [set_o_inflight o_client o_link o_inflight o_pubrels]. rewrite lenN_cons'. repeat split; lia.
Qed.

Lemma register_pubcomp_spec o pkid :
  o_client (fst (register_pubcomp o pkid)) = o_client o /\ o_link (fst (register_pubcomp o pkid)) = o_link o /\
  o_inflight (fst (register_pubcomp o pkid)) = o_inflight o.
Proof.
  unfold register_pubcomp. destruct (o_pubrels o) as [|h r]; cbn [fst]; auto.
  destruct (pkid =? h); cbn [fst]; auto.
Qed.

Lemma do_append_spec cfg id p props st0 fl0 :
  RInvC cfg st0 -> occ (lives st0) id ->
  wp cfg (do (st1, res) <- append_to_commitlog st0 id p props;
          match res with
          | AppOk => Ok (st1, fl_data fl0, false)
          | AppErr reason => Ok (st1, fl_disc fl0 reason, true)
          end)
     (fun r => pkt_post cfg st0 fl0 (fst (fst r)) (snd (fst r))).
Proof.
  intros HI Ho. apply wp_bind. wp_use append_to_commitlog_spec; [exact HI|exact Ho|].
  intros [st1 res] (H1 & H2 & H3 & H4). cbn [fst snd] in *.
  destruct res; cbn [wp fst snd]; unfold pkt_post, NP; flsimp.
  - split; [exact H1|]. split; [exact H2|]. intros _ X. discriminate.
  - split; [exact H1|]. split; [exact H2|]. intros X Y. rewrite H4 by discriminate. auto.
Qed.

Lemma pkt_post_trans cfg st fl st1 fl1 st2 fl2 :
  ext st st1 -> (NP st fl -> NP st1 fl1) -> pkt_post cfg st1 fl1 st2 fl2 -> pkt_post cfg st fl st2 fl2.
Proof.
  intros E N (H1 & H2 & H3). split; [exact H1|]. split; [eapply ext_trans; eauto|auto].
Qed.

Lemma handle_packet_spec cfg st id client pk fl :
  RInvC cfg st -> occ (lives st) id -> packet_wf pk ->
  wp cfg (handle_packet st id client pk fl)
     (fun r => pkt_post cfg st fl (fst (fst r)) (snd (fst r))).
Proof.
  intros HI Ho Hpk. destruct (live_gets _ _ _ HI Ho) as (c & i & o & a & t & Hc & Hi & Hob & Ha & Ht).
  destruct pk as [p props | pkid fs subid | pkid fs | pkid | pkid | pkid hp | pkid | | |]; cbn [handle_packet].
  - (* Publish *)
    destruct (p_qos p =? 1).
    { apply wp_bind. wp_use commit_ack_spec; [exact HI|exact Ho|]. intros st1 [HI1 F1].
      wp_use do_append_spec; [exact HI1|eapply ext_occ; [apply fr_ext; exact F1|exact Ho]|].
      intros r Hr. eapply pkt_post_trans; [apply fr_ext; exact F1| |exact Hr].
      unfold NP. flsimp. destruct F1 as (_ & _ & N1). rewrite N1. auto. }
    destruct (p_qos p =? 2).
    { rewrite (get_acks_ok _ _ _ Ha). cbn [bind wp fst snd]. unfold pkt_post, NP. flsimp.
      split; [eapply RInv_put_acks; eauto|]. split; [frame_tac|]. rsimp. auto. }
    apply do_append_spec; assumption.
  - (* Subscribe *)
    apply wp_bind. wp_use subscribe_filters_spec; [exact HI|exact Ho|exact Hpk|].
    intros [[st1 fl1] codes] (HI1 & E1 & N1 & D1). cbn [fst snd] in *.
    apply wp_bind. wp_use commit_ack_spec; [exact HI1|eapply ext_occ; eauto|]. intros st2 [HI2 F2].
    cbn [wp fst snd]. unfold pkt_post, NP. flsimp. split; [exact HI2|].
    split; [eapply ext_trans; [exact E1|apply fr_ext; exact F2]|].
    destruct F2 as (_ & _ & N2). rewrite N2, N1, D1. auto.
  - (* Unsubscribe *)
    rewrite (get_conn_ok _ _ _ Hc). cbn [bind].
    apply wp_bind. wp_use unsubscribe_filters_spec; [exact HI|exact Ho|].
    intros [st1 reasons] (HI1 & E1 & N1). cbn [fst snd] in *.
    apply wp_bind. wp_use commit_ack_spec; [exact HI1|eapply ext_occ; eauto|]. intros st2 [HI2 F2].
    cbn [wp fst snd]. unfold pkt_post, NP. flsimp. split; [exact HI2|].
    split; [eapply ext_trans; [exact E1|apply fr_ext; exact F2]|].
    destruct F2 as (_ & _ & N2). rewrite N2. auto.
  - (* PubAck *)
    rewrite (get_obuf_ok _ _ _ Hob). cbn [bind].
    destruct (register_ack_spec o pkid) as (R1 & R2 & R3 & _).
    destruct (register_ack o pkid) as [o' ok]. cbn [fst] in *.
    assert (HI1 : RInvC cfg (put_obuf st id o')).
    { eapply RInv_put_obuf; eauto. pose proof (ri_obuf _ _ HI _ _ Hob). lia. }
    assert (F1 : fr st (put_obuf st id o')) by frame_tac.
    destruct ok.
    + apply wp_bind. wp_use reschedule_spec; [exact HI1|exact Ho|discriminate|]. intros st2 (HI2 & E2 & N2).
      cbn [wp fst snd]. unfold pkt_post, NP. split; [exact HI2|].
      split; [eapply ext_trans; [apply fr_ext; exact F1|exact E2]|]. rewrite N2. rsimp. auto.
    + cbn [wp fst snd]. unfold pkt_post, NP. flsimp. split; [exact HI1|]. split; [apply fr_ext; exact F1|].
      rsimp. auto.
  - (* PubRec *)
    rewrite (get_obuf_ok _ _ _ Hob). cbn [bind].
    destruct (register_ack_spec o pkid) as (R1 & R2 & R3 & _).
    destruct (register_ack o pkid) as [o' ok]. cbn [fst] in *.
    destruct ok.
    + rewrite (get_acks_ok _ _ _ Ha). cbn [bind].
      match goal with |- context [put_obuf st id ?oo] => set (o2 := oo) end.
      assert (HI1 : RInvC cfg (put_obuf st id o2)).
      { eapply RInv_put_obuf; eauto. cbn [o2 set_o_pubrels o_inflight]. pose proof (ri_obuf _ _ HI _ _ Hob). lia. }
      assert (F1 : fr st (put_obuf st id o2)) by frame_tac.
      apply wp_bind. wp_use commit_ack_spec; [exact HI1|exact Ho|]. intros st2 [HI2 F2].
      apply wp_bind. wp_use reschedule_spec; [exact HI2|eapply ext_occ; [apply fr_ext; exact F2|exact Ho]|discriminate|].
      intros st3 (HI3 & E3 & N3). cbn [wp fst snd]. unfold pkt_post, NP. split; [exact HI3|].
      split; [eapply ext_trans; [apply fr_ext; exact F1|eapply ext_trans; [apply fr_ext; exact F2|exact E3]]|].
      destruct F2 as (_ & _ & N2). rewrite N3, N2. rsimp. auto.
    + assert (HI1 : RInvC cfg (put_obuf st id o')).
      { eapply RInv_put_obuf; eauto. pose proof (ri_obuf _ _ HI _ _ Hob). lia. }
      cbn [wp fst snd]. unfold pkt_post, NP. flsimp. split; [exact HI1|]. split; [frame_tac|]. rsimp. auto.
  - (* PubRel *)
    rewrite (get_acks_ok _ _ _ Ha). cbn [bind].
    destruct (a_recorded a) as [|[p props] rec].
    + cbn [wp fst snd]. unfold pkt_post, NP. flsimp. split; [eapply RInv_put_acks; eauto|]. split; [frame_tac|]. rsimp. auto.
    + match goal with |- context [put_acks st id ?aa] => set (a2 := aa) end.
      assert (HI1 : RInvC cfg (put_acks st id a2)) by (eapply RInv_put_acks; eauto).
      assert (F1 : fr st (put_acks st id a2)) by frame_tac.
      apply wp_bind. wp_use append_to_commitlog_spec; [exact HI1|exact Ho|].
      intros [st2 res] (H1 & H2 & H3 & H4). cbn [fst snd] in *.
      destruct res.
      * apply wp_bind. wp_use reschedule_spec; [exact H1|eapply ext_occ; eauto|discriminate|]. intros st3 (HI3 & E3 & N3).
        cbn [wp fst snd]. unfold pkt_post, NP. flsimp. split; [exact HI3|].
        split; [eapply ext_trans; [apply fr_ext; exact F1|eapply ext_trans; eauto]|]. intros _ X. discriminate.
      * cbn [wp fst snd]. unfold pkt_post, NP. flsimp. split; [exact H1|].
        split; [eapply ext_trans; [apply fr_ext; exact F1|exact H2]|]. rewrite H4 by discriminate. rsimp. auto.
  - (* PubComp *)
    rewrite (get_obuf_ok _ _ _ Hob). cbn [bind].
    destruct (register_pubcomp_spec o pkid) as (R1 & R2 & R3).
    destruct (register_pubcomp o pkid) as [o' ok]. cbn [fst] in *.
    assert (HI1 : RInvC cfg (put_obuf st id o')).
    { eapply RInv_put_obuf; eauto. rewrite R3. apply (ri_obuf _ _ HI _ _ Hob). }
    destruct ok; cbn [wp fst snd]; unfold pkt_post, NP; flsimp; (split; [exact HI1|]); (split; [frame_tac|]); rsimp; auto.
  - (* PingReq *)
    apply wp_bind. wp_use commit_ack_spec; [exact HI|exact Ho|]. intros st1 [HI1 F1].
    cbn [wp fst snd]. unfold pkt_post, NP. flsimp. split; [exact HI1|]. split; [apply fr_ext; exact F1|].
    destruct F1 as (_ & _ & N1). rewrite N1. auto.
  - (* Disconnect *)
    cbn [wp fst snd]. unfold pkt_post, NP. flsimp. split; [apply RInv_set_wills; exact HI|]. split; [frame_tac|]. rsimp. auto.
  - (* other *)
    cbn [wp fst snd]. unfold pkt_post. auto with rinv.
Qed.

Lemma handle_packets_spec cfg id client : forall pks st fl,
  RInvC cfg st -> occ (lives st) id -> Forall packet_wf pks ->
  wp cfg (handle_packets st id client pks fl)
     (fun r => pkt_post cfg st fl (fst r) (snd r)).
Proof.
  induction pks as [|pk pks IH]; intros st fl HI Ho Hp; cbn [handle_packets].
  - cbn [wp fst snd]. unfold pkt_post. auto with rinv.
  - inversion Hp as [|? ? Hp1 Hp']; subst.
    apply wp_bind. wp_use handle_packet_spec; [exact HI|exact Ho|exact Hp1|].
    intros [[st1 fl1] brk] (H1 & H2 & H3). cbn [fst snd] in *.
    destruct brk; [cbn [wp fst snd]; unfold pkt_post; auto|].
    wp_use IH; [exact H1|eapply ext_occ; eauto|exact Hp'|].
    intros r Hr. eapply pkt_post_trans; eauto.
Qed.

Lemma handle_device_payload_spec cfg st id :
  RInvC cfg st -> r_notif st = [] ->
  wp cfg (handle_device_payload st id) (fun st' => RInvC cfg st' /\ r_notif st' = []).
Proof.
  intros HI Hn. unfold handle_device_payload.
  destruct (slab_get (r_ibufs st) id) as [inc|] eqn:Hi; [|cbn [wp]; auto].
  destruct (RInv_ibuf_live _ _ _ _ HI Hi) as [c Hc].
  assert (Ho : occ (lives st) id) by (eapply get_occ; eauto).
  pose proof (ri_ilink _ _ HI _ _ Hi) as Hl. destruct (nthN_lt _ _ Hl) as [b Hb].
  unfold link_get. rewrite Hb. cbn [bind].
  set (st0 := link_put st (i_link inc) (set_lk_in b [])).
  assert (HI0 : RInvC cfg st0) by (apply RInv_link_put; [exact HI|constructor]).
  assert (F0 : fr st st0) by (unfold st0; frame_tac).
  apply wp_bind. wp_use handle_packets_spec; [exact HI0|exact Ho| |].
  { exact (Forall_nthN (fun b => Forall packet_wf (lk_in b)) _ _ _ (ri_pkts _ _ HI) Hb). }
  intros [st1 fl] (HI1 & E1 & NP1). cbn [fst snd] in *.
  assert (NP1' : NP st1 fl). { apply NP1. intros _. exact Hn. }
  assert (Ho1 : occ (lives st1) id) by (eapply ext_occ; eauto).
  apply wp_bind.
  assert (H2 : wp cfg (if f_force_ack fl then reschedule st1 id SFreshData else Ok st1)
                  (fun st2 => RInvC cfg st2 /\ ext st1 st2 /\ r_notif st2 = r_notif st1)).
  { destruct (f_force_ack fl); [apply reschedule_spec; [assumption|assumption|discriminate]|cbn [wp]; auto with rinv]. }
  eapply wp_mono; [exact H2|]. cbn beta. intros st2 (HI2 & E2 & N2).
  apply wp_bind.
  assert (H3 : wp cfg (if f_new_data fl then drain_notifications st2 else Ok st2)
                  (fun st3 => RInvC cfg st3 /\ r_notif st3 = [])).
  { destruct (f_new_data fl) eqn:Ed.
    - wp_use drain_notifications_spec; [exact HI2|]. intros st3 (A & _ & B). auto.
    - cbn [wp]. split; [exact HI2|]. rewrite N2. apply NP1'. exact Ed. }
  eapply wp_mono; [exact H3|]. cbn beta. intros st3 (HI3 & N3).
  destruct (f_disconnect fl); [|cbn [wp]; auto].
  wp_use handle_disconnection_spec; [exact HI3|exact N3|]. intros st4 (A & B & _). auto.
Qed.
