(** C17, completeness clause — part 5: [MemInv] through the functions that change memberships:
    SUBSCRIBE ([prepare_filter]) and UNSUBSCRIBE. *)
From Rumqtt Require Import Router.NoPanicLog.
From Rumqtt Require Import Router.Model Router.InvLemmasBase Router.Inv Router.InvLemmasPrim Router.InvLemmasSched
  Router.InvLemmasDl Router.InvLemmasRoute Router.InvLemmasConn Router.InvLemmasPkt Router.InvLemmasConsume
  Router.NoPanic Router.NoPanicDevBase Router.NoPanicDevInv Router.NoPanicDev1 Router.NoPanicDev2 Router.NoPanicDev3 Router.NoPanicDev4.
From Rumqtt Require Import Router.ExactLoc1 Router.ExactLoc2 Router.ExactLoc3.
From Rumqtt Require Import Router.WindowFrame Router.DataLogInv Router.DataLogStep Router.ExactInv Router.ExactStep1
  Router.RetainedBase Router.Wake Router.WakeConsume Router.WakePark Router.GroupWakeMem Router.GroupWakeMem2.
From Rumqtt Require Import Router.Model Router.RunDefs.
From Coq Require Import List Arith ZifyBool ZifyN ZifyNat.
Import ListNotations.

(* ------------------------------------------------------------------ what RInvC contributes *)
Lemma cli_conn cfg st id c :
  RInvC cfg st -> cli st id = Some c -> exists conn, slab_get (r_conns st) id = Some conn /\ c_client conn = c.
Proof.
  unfold cli. intros HI H. destruct (slab_get (r_obufs st) id) as [o |] eqn:Ho; [| discriminate].
  cbn [option_map] in H. inversion H; subst c. destruct (RInv_obuf_live _ _ _ _ HI Ho) as [conn Hc].
  exists conn. split; [exact Hc |]. symmetry. eapply ri_cl_o; eauto.
Qed.

Lemma conn_cli cfg st id conn :
  RInvC cfg st -> slab_get (r_conns st) id = Some conn -> cli st id = Some (c_client conn).
Proof.
  intros HI Hc. destruct (RInv_live_all _ _ _ _ HI Hc) as (i & o & a & t & _ & Ho & _ & _).
  unfold cli. rewrite Ho. cbn [option_map]. f_equal. eapply ri_cl_o; eauto.
Qed.

(** one live connection per client id *)
Lemma cli_unique cfg st id id' c : RInvC cfg st -> cli st id = Some c -> cli st id' = Some c -> id = id'.
Proof.
  intros HI H1 H2. destruct (cli_conn _ _ _ _ HI H1) as (c1 & G1 & E1). destruct (cli_conn _ _ _ _ HI H2) as (c2 & G2 & E2).
  pose proof (ri_cmap _ _ HI _ _ G1) as M1. pose proof (ri_cmap _ _ HI _ _ G2) as M2. rewrite E1 in M1. rewrite E2 in M2. congruence.
Qed.

(** whoever holds a request is alive *)
Lemma HasReq_live cfg st id rq : RInvC cfg st -> HasReq st id rq -> exists c, cli st id = Some c.
Proof.
  intros HI H.
  assert (L : occ (lives st) id).
  { destruct H as [H | [(i & d & Hd & Hin) | H]].
    - unfold treqs in H. destruct (slab_get (r_trackers st) id) as [t |] eqn:Ht; [| destruct H].
      destruct (RInv_trk_live _ _ _ _ HI Ht) as [c Hc]. eapply get_occ; eauto.
    - unfold nget, slab_get in Hd. destruct (nthN (sl_items (dl_native (r_datalog st))) i) as [[d0 |] |] eqn:E; try discriminate.
      inversion Hd; subst d0. pose proof (Forall_nthN _ _ _ _ (dk_items _ _ (ri_dl _ _ HI)) E) as X. cbn [odata_ok] in X.
      destruct X as [_ X]. rewrite Forall_forall in X. exact (proj1 (X _ Hin)).
    - pose proof (ri_notif _ _ HI) as X. rewrite Forall_forall in X. exact (proj1 (X _ H)). }
  destruct (RInv_occ_conn _ _ _ HI L) as [c Hc]. exists (c_client c). eapply conn_cli; eauto.
Qed.

(* ------------------------------------------------------------------ members of a list of groups *)
Definition memsL (gs : list (str * group)) (name : str) : option (list str) :=
  option_map g_clients (al_get str_eqb name gs).
Definition gmemL (gs : list (str * group)) (name c : str) : Prop := exists l, memsL gs name = Some l /\ In c l.

Lemma gmem_L st name c : gmem st name c <-> gmemL (r_groups st) name c.
Proof. reflexivity. Qed.

Lemma memsL_set gs name g name' :
  memsL (al_set str_eqb name g gs) name' = if str_eqb name' name then Some (g_clients g) else memsL gs name'.
Proof.
  unfold memsL. destruct (str_eqb_spec name' name) as [-> | Hne].
  - now rewrite (al_get_set_same str_eqb str_eqb_spec).
  - now rewrite (RetainedBase.al_get_set_other str_eqb str_eqb_spec) by exact Hne.
Qed.

(** the group after [c] joined it under [name] ([cu], [strat]: the cursor and strategy of a new group) *)
Definition joined (gs : list (str * group)) (name c : str) (cu : cursor) (strat : strategy) : list (str * group) :=
  let g := match al_get str_eqb name gs with
           | Some g => g
           | None => {| g_clients := []; g_idx := 0; g_cursor := cu; g_strategy := strat |}
           end in
  al_set str_eqb name (set_g_clients g (g_clients g ++ [c])) gs.

Lemma memsL_joined gs name c cu strat name' :
  memsL (joined gs name c cu strat) name' =
  if str_eqb name' name then Some (match memsL gs name with Some l => l | None => [] end ++ [c]) else memsL gs name'.
Proof.
  unfold joined. rewrite memsL_set. destruct (str_eqb name' name); [| reflexivity].
  unfold memsL. destruct (al_get str_eqb name gs); reflexivity.
Qed.

Lemma gmemL_joined_mono gs name c cu strat name' c' : gmemL gs name' c' -> gmemL (joined gs name c cu strat) name' c'.
Proof.
  intros (l & Hl & Hin). unfold gmemL. rewrite memsL_joined. destruct (str_eqb_spec name' name) as [-> | Hne].
  - rewrite Hl. eexists. split; [reflexivity | apply in_or_app; now left].
  - eauto.
Qed.

Lemma gmemL_joined_new gs name c cu strat : gmemL (joined gs name c cu strat) name c.
Proof.
  unfold gmemL. rewrite memsL_joined. destruct (str_eqb_spec name name) as [_ | C]; [| congruence].
  eexists. split; [reflexivity | apply in_or_app; right; now left].
Qed.

Lemma gmemL_joined_inv gs name c cu strat name' c' :
  gmemL (joined gs name c cu strat) name' c' -> gmemL gs name' c' \/ (name' = name /\ c' = c).
Proof.
  intros (l & Hl & Hin). rewrite memsL_joined in Hl. destruct (str_eqb_spec name' name) as [-> | Hne].
  - inversion Hl; subst l. apply in_app_or in Hin as [Hin | [<- | []]]; [| now right].
    left. destruct (memsL gs name) as [l0 |] eqn:E; [| destruct Hin]. exists l0. auto.
  - left. exists l. auto.
Qed.

(* ------------------------------------------------------------------ growing *)
(** the frame of the functions that ADD members / subscriptions / connections *)
Lemma MemInv_grow e st st' :
  MemInv st ->
  (forall id rq, HasReq st' id rq -> HasReq st id rq \/ In (id, rq) e) ->
  (forall id c, cli st id = Some c -> cli st' id = Some c) ->
  (forall name c, gmem st name c -> gmem st' name c) ->
  (forall id subs, subs_of st id = Some subs ->
     exists subs', subs_of st' id = Some subs' /\ forall f, set_mem str_eqb f subs = true -> set_mem str_eqb f subs' = true) ->
  Forall sess_shape (r_graveyard st') ->
  (forall id rq, In (id, rq) e -> Good st' id rq) ->
  (forall name c, gmem st' name c -> gmem st name c \/ SubOk st' name c) ->
  NoDup (map fst (r_groups st')) ->
  MemInv st'.
Proof.
  intros [R G S _] A B C D E F N ND. constructor; [| | | exact ND].
  - intros id rq H. destruct (A id rq H) as [H0 | H0]; [| now apply F].
    destruct (R id rq H0) as [Sh M]. split; [exact Sh |]. intros name Hn. destruct (M name Hn) as (c & Hc & Hg).
    exists c. split; [now apply B | now apply C].
  - exact E.
  - intros name c Hg. destruct (N name c Hg) as [H0 | H0]; [| exact H0].
    destruct (S name c H0) as (K & id & subs & H1 & H2 & H3). destruct (D id subs H2) as (subs' & H4 & H5).
    split; [exact K |]. exists id, subs'. split; [now apply B | split; [exact H4 | now apply H5]].
Qed.

Lemma set_mem_app_l f a b : set_mem str_eqb f a = true -> set_mem str_eqb f (a ++ b) = true.
Proof. induction a as [| x a IH]; cbn [set_mem app]; [intros H; discriminate H |]. destruct (str_eqb f x); cbn [orb]; auto. Qed.

Lemma set_mem_app_last f a : set_mem str_eqb f (a ++ [f]) = true.
Proof.
  induction a as [| x a IH]; cbn [set_mem app].
  - destruct (str_eqb_spec f f); [reflexivity | congruence].
  - rewrite IH. apply orb_true_r.
Qed.

(* ------------------------------------------------------------------ SUBSCRIBE *)
Lemma prepare_filter_mem cfg st id cu fidx path qos grp subid st' :
  RInvC cfg st -> MemInv st -> grp = gkey_of path ->
  prepare_filter st id cu fidx path qos grp subid = Ok st' -> MemInv st'.
Proof.
  intros HI HM Hgrp H. unfold prepare_filter, get_conn in H. rsimpl_all.
  destruct (slab_get (r_conns st) id) as [conn |] eqn:Hc; [| discriminate]. cbn [bind] in H.
  pose proof (conn_cli _ _ _ _ HI Hc) as Hcli.
  match type of H with context [set_r_groups _ ?g] => set (gs' := g) in * end.
  assert (Egs : gs' = match grp with
                      | Some name => joined (r_groups st) name (c_client conn) cu (cf_strategy (r_cfg st))
                      | None => r_groups st
                      end) by (unfold gs', joined; destruct grp; reflexivity).
  clearbody gs'.
  assert (Gmono : forall name c, gmemL (r_groups st) name c -> gmemL gs' name c).
  { intros name c Hg. rewrite Egs. destruct grp; [now apply gmemL_joined_mono | exact Hg]. }
  match type of H with context [set_mem str_eqb path (c_subs ?c1)] => set (conn1 := c1) in * end.
  assert (Es1 : c_subs conn1 = c_subs conn) by (unfold conn1; destruct subid; reflexivity).
  (* the state before the request is tracked: only submap, groups, and the connection differ *)
  assert (Core : forall connX m,
            (forall f, set_mem str_eqb f (c_subs conn) = true -> set_mem str_eqb f (c_subs connX) = true) ->
            set_mem str_eqb path (c_subs connX) = true ->
            forall e st2, mfr e (put_conn (set_r_groups (set_r_submap st m) gs') id connX) st2 ->
                          (forall id' rq, In (id', rq) e -> Good st2 id' rq) -> MemInv st2).
  { intros connX m Hsub Hpath e st2 F He.
    set (stX := put_conn (set_r_groups (set_r_submap st m) gs') id connX) in *. assert (EX : stX = put_conn (set_r_groups (set_r_submap st m) gs') id connX) by reflexivity. clearbody stX.
    assert (SX : forall id', subs_of stX id' = if id' =? id then Some (c_subs connX) else subs_of st id').
    { intros id'. rewrite EX. unfold subs_of, put_conn. rsimpl. destruct (N.eqb_spec id' id) as [-> | Hne].
      - now rewrite (slab_get_put_occ _ _ _ _ Hc).
      - now rewrite slab_get_put_other by congruence. }
    apply (MemInv_grow e st st2 HM).
    - intros id' rq Hr. destruct (mf_req _ _ _ F _ _ Hr) as [H0 | H0]; [| now right]. left. rewrite EX in H0. exact H0.
    - intros id' c Hc'. rewrite (mf_cli _ _ _ F). rewrite EX. exact Hc'.
    - intros name c Hg. apply gmem_L. unfold gmemL, memsL. change (option_map g_clients (al_get str_eqb name (r_groups st2))) with (mems st2 name).
      rewrite (mf_mem _ _ _ F). rewrite EX. apply (Gmono name c). apply gmem_L. exact Hg.
    - intros id' subs Hs. rewrite (mf_sub _ _ _ F), SX. destruct (N.eqb_spec id' id) as [-> | Hne]; [| eauto].
      unfold subs_of in Hs. rewrite Hc in Hs. inversion Hs; subst subs. eauto.
    - rewrite (mf_grave _ _ _ F). rewrite EX. exact (mi_grave _ HM).
    - exact He.
    - intros name c Hg.
      assert (Hg' : gmemL gs' name c).
      { destruct Hg as (l & Hl & Hin). rewrite (mf_mem _ _ _ F) in Hl. rewrite EX in Hl. exists l. auto. }
      rewrite Egs in Hg'. destruct grp as [gname |]; [| left; exact Hg'].
      destruct (gmemL_joined_inv _ _ _ _ _ _ _ Hg') as [H0 | [-> ->]]; [left; exact H0 | right].
      symmetry in Hgrp. pose proof (gkey_of_path _ _ Hgrp) as Ep.
      split; [rewrite <- Ep; exact Hgrp |].
      exists id, (c_subs connX). rewrite (mf_cli _ _ _ F), (mf_sub _ _ _ F), SX, N.eqb_refl. rewrite EX.
      split; [exact Hcli | split; [reflexivity |]]. now rewrite <- Ep.
    - rewrite (mf_keys _ _ _ F). rewrite EX. rsimpl. rewrite Egs.
      destruct grp; [unfold joined; apply (al_set_nodup str_eqb str_eqb_spec) |]; exact (mi_gk _ HM). }
  destruct (set_mem str_eqb path (c_subs conn1)) eqn:Em.
  - assert (E : st' = put_conn (set_r_groups (set_r_submap st (r_submap st')) gs') id conn1) by (inversion H; reflexivity).
    rewrite E. eapply (Core conn1); [now rewrite Es1 | exact Em | apply mfr_refl | intros ? ? []].
  - match type of H with context [put_conn _ id ?cc] => set (conn2 := cc) in * end.
    match type of H with context [track ?s id ?r] => set (st3 := s) in *; set (rq := r) in * end.
    apply bind_ok in H as (st4 & H4 & H). apply bind_ok in H as (st5 & H5 & H). apply bind_ok in H as (u & _ & H).
    assert (E5 : st5 = st') by (inversion H; reflexivity). subst st5. clear H.
    assert (F : mfr [(id, rq)] st3 st') by (eapply mfr_trans_r; [eapply track_mfr; eauto | eapply reschedule_mfr; eauto]).
    eapply (Core conn2); [| | exact F |].
    + intros f Hf. cbn [conn2 set_c_subs c_subs]. rewrite Es1. now apply set_mem_app_l.
    + cbn [conn2 set_c_subs c_subs]. apply set_mem_app_last.
    + intros id' rq' [E | []]. inversion E; subst id' rq'. split.
      * unfold shape. cbn [rq dr_group dr_filter]. first [exact Hgrp | reflexivity].
      * intros name Hn. cbn [rq dr_group] in Hn. exists (c_client conn).
        rewrite (mf_cli _ _ _ F). split; [exact Hcli |].
        apply gmem_L. unfold gmemL, memsL. change (option_map g_clients (al_get str_eqb name (r_groups st'))) with (mems st' name).
        rewrite (mf_mem _ _ _ F). change (mems st3 name) with (memsL gs' name). rewrite Egs, Hn. apply gmemL_joined_new.
Qed.

Lemma subscribe_filters_mem cfg id subid : forall fs st fl codes st' fl' codes',
  RInvC cfg st -> occ (lives st) id -> Forall (fun fq : str * N => snd fq <= 2) fs -> MemInv st ->
  subscribe_filters st id fs subid fl codes = Ok (st', fl', codes') -> MemInv st'.
Proof.
  induction fs as [| [path qos] fs IH]; intros st fl codes st' fl' codes' HI Ho Hq HM H; cbn [subscribe_filters] in H.
  - now inv_ok.
  - inversion Hq as [| ? ? Hq1 Hq']; subst. cbn [snd] in Hq1.
    destruct (negb (validate_subscription path)); [now inv_ok |].
    destruct (match extract_group path with Some (g, p) => (Some g, p) | None => (None, path) end) as [grp filter] eqn:Egf.
    assert (Hgrp : grp = gkey_of path).
    { unfold gkey_of. destruct (extract_group path) as [[g p] |]; inversion Egf; reflexivity. }
    match type of H with (if ?b then _ else _) = _ => destruct b end; [now inv_ok |].
    apply bind_ok in H as ([[st1 idx] cu] & H1 & H). apply bind_ok in H as (st2 & H2 & H).
    pose proof (next_native_offset_spec cfg st filter HI) as W1. rewrite H1 in W1. cbn [wp fst snd] in W1.
    destruct W1 as (HI1 & F1 & Hidx).
    assert (Ho1 : occ (lives st1) id) by (eapply ext_occ; [apply fr_ext; exact F1 | exact Ho]).
    pose proof (prepare_filter_spec cfg st1 id cu idx path qos grp subid HI1 Ho1 Hidx Hq1) as W2. rewrite H2 in W2. cbn [wp] in W2.
    destruct W2 as (HI2 & E2 & _).
    assert (HM1 : MemInv st1) by (eapply MemInv_mfr0; [exact HM | eapply next_native_offset_mfr; eauto]).
    assert (HM2 : MemInv st2) by (eapply (prepare_filter_mem cfg st1); [exact HI1 | exact HM1 | exact Hgrp | exact H2]).
    eapply IH; [exact HI2 | eapply ext_occ; eauto | exact Hq' | exact HM2 | exact H].
Qed.
