(** C01 exactness, log level: what the C13 theorems give when the call is KNOWN to have returned
    [Ok] (the router proofs start from [f st = Ok st']), without the size / count hypotheses
    of [append_spec]: an [Ok] append proves by itself that its checked additions did not
    overflow.  Plus the order [log_le] on logs ("reached by appends"): the ghost history only
    grows and issued cursors stay issued. *)
From Rumqtt Require Import Log.Spec Log.ListFacts Log.SegProofs Log.ReadProofs Log.WfFacts
                           Log.ReadTop Log.AppendProofs Log.Proofs.
From Coq Require Import Arith ZifyBool ZifyN ZifyNat.

Section ExactLog.
Context {T : Type} (size : T -> N).

Lemma add64_inv a b c : add64 a b = Ok c -> c = a + b /\ a + b < U64.
Proof.
  unfold add64. destruct (N.ltb_spec (a + b) U64) as [Hlt | Hge]; intros H; [|discriminate].
  injection H as <-. split; [reflexivity|assumption].
Qed.

Lemma wf_end_of (l : log T) all : WF size l all -> end_of l = lenN all.
Proof. intros [W _]. unfold end_of. rewrite retained_lenD. apply (wfs_end size l all W). Qed.

(** an [Ok] append on a well-formed log: same conclusions as [append_spec], and the count
    bound is a consequence instead of a hypothesis *)
Lemma append_ok_spec (l l' : log T) all x r :
  WF size l all -> append size l x = Ok (l', r) ->
  lenN all + 1 < U64 /\ WF size l' (all ++ [x]) /\ append_shape size l l' x /\
  max_seg l' = max_seg l /\ max_mem l' = max_mem l /\ r = (tail l', lenN all + 1).
Proof.
  intros WFl H. pose proof WFl as [W _].
  destruct (exists_last (wf_ne size l all W)) as (i & a & E).
  assert (E' : segs l = i ++ a :: []) by exact E.
  destruct (wfs_split size l all i a [] W E') as (_ & _ & Hend & _).
  rewrite lenD_cons, lenD_nil in Hend.
  assert (Hlt : lenN all < U64).
  { revert H. unfold append, apply_retention. rewrite (active_last l i a E). cbn [bind].
    destruct (max_seg l <=? seg_size a).
    - destruct (seg_next_offset a) as [no| |] eqn:En; cbn [bind]; try discriminate. intros _.
      unfold seg_next_offset in En. apply add64_inv in En. lia.
    - cbn [bind]. rewrite E, split_back_app. unfold seg_push.
      destruct (add64 (s_total a) (size x)) as [t| |]; cbn [bind]; try discriminate.
      unfold active. cbn [segs]. rewrite split_back_app. cbn [bind].
      destruct (seg_next_offset _) as [no| |] eqn:En; cbn [bind]; try discriminate. intros _.
      unfold seg_next_offset, seg_len in En. cbn [s_abs s_data] in En. apply add64_inv in En.
      rewrite lenN_app, lenN_cons, lenN_nil in En. unfold seg_len in Hend. lia. }
  destruct (apply_retention_cases size l all W Hlt) as (l1 & Hret & RC).
  destruct (retention_wfs size l l1 all W RC) as (W1 & i1 & a1 & E1 & Hroom & Hend1 & Hne1).
  set (l2 := with_segs l1 (head l1) (tail l1) (i1 ++ [pushed size a1 x])).
  pose proof (push_wf size l1 all i1 a1 x W1 E1 Hne1) as W2. fold l2 in W2.
  assert (Hcfg : max_seg l1 = max_seg l /\ max_mem l1 = max_mem l) by (destruct RC; subst; split; reflexivity).
  destruct Hcfg as [Hms Hmm].
  unfold append in H. rewrite Hret in H. cbn [bind] in H. rewrite E1, split_back_app in H.
  unfold seg_push in H.
  destruct (add64 (s_total a1) (size x)) as [t| |] eqn:Et; cbn [bind] in H; try discriminate.
  apply add64_inv in Et. destruct Et as [-> Ht].
  unfold active in H. cbn [segs] in H. rewrite split_back_app in H. cbn [bind] in H.
  destruct (seg_next_offset _) as [no| |] eqn:En; cbn [bind] in H; try discriminate.
  unfold seg_next_offset, seg_len in En. cbn [s_abs s_data] in En. apply add64_inv in En.
  rewrite lenN_app, lenN_cons, lenN_nil in En. unfold seg_len in Hend1. destruct En as [-> Hno].
  injection H as <- <-. fold (pushed size a1 x). fold l2.
  split; [lia|]. split; [exact W2|].
  split.
  { destruct RC as [i0 a0 E0 _ -> | i0 a0 E0 _ _ -> | s0 rest i0 a0 Es E0 _ _ ->].
    - rewrite E0 in E1. apply app_inj_tail in E1. destruct E1 as [-> ->].
      eapply (AS_same size l l2 x i1 a1); try reflexivity. exact E0.
    - cbn [with_segs segs] in E1. apply app_inj_tail in E1. destruct E1 as [<- <-].
      eapply (AS_roll size l l2 x); reflexivity.
    - cbn [with_segs segs] in E1. apply app_inj_tail in E1. destruct E1 as [<- <-].
      eapply (AS_evict size l l2 x s0 rest); try reflexivity. exact Es. }
  split; [exact Hms|]. split; [exact Hmm|].
  cbn [l2 with_segs tail]. f_equal. lia.
Qed.

(** [next_offset] that returned [Ok]: the result is the tail cursor, issued, fresh, and its
    offset is the number of entries ever appended *)
Lemma next_offset_ok (l : log T) all c :
  WF size l all -> next_offset l = Ok c ->
  c = (tail l, lenN all) /\ Issued l c /\ stale l c = false /\ lenN all < U64.
Proof.
  intros WFl H. pose proof WFl as [W _].
  destruct (exists_last (wf_ne size l all W)) as (i & a & E).
  assert (E' : segs l = i ++ a :: []) by exact E.
  destruct (wfs_split size l all i a [] W E') as (_ & _ & Hend & _).
  rewrite lenD_cons, lenD_nil in Hend.
  assert (Hlt : lenN all < U64).
  { revert H. unfold next_offset. rewrite (active_last l i a E). cbn [bind].
    destruct (seg_next_offset a) as [no| |] eqn:En; cbn [bind]; try discriminate. intros _.
    unfold seg_next_offset in En. apply add64_inv in En. lia. }
  destruct (next_offset_issued size l all WFl Hlt) as (H1 & H2 & H3).
  rewrite H1 in H. injection H as <-. auto.
Qed.

Lemma new_ok_wf ms mm (l : log T) : new ms mm = Ok l -> WF size l [].
Proof.
  intros H. destruct (N.ltb_spec ms 1024) as [Hs | Hs].
  { destruct (new_spec size ms mm) as [_ Hp]. rewrite H in Hp. specialize (Hp (or_introl Hs)). discriminate. }
  destruct (N.ltb_spec mm 1) as [Hm | Hm].
  { destruct (new_spec size ms mm) as [_ Hp]. rewrite H in Hp. specialize (Hp (or_intror Hm)). discriminate. }
  destruct (new_spec size ms mm) as [Hn _]. destruct (Hn Hs Hm) as (l0 & H0 & W0 & _).
  rewrite H in H0. injection H0 as <-. exact W0.
Qed.


(** [readv_exact] for a read that is known to have returned [Ok] *)
Lemma readv_ok_facts (l : log T) all c n pos out :
  WF size l all -> Issued l c -> 2 * lenN all < U64 -> snd c + n < U64 ->
  readv l c n = Ok (pos, out) ->
  let p := pos_of l c in
  base_of l <= p /\ p <= lenN all /\
  map fst out = firstn (N.to_nat n) (skipn (N.to_nat p) all) /\
  map (fun e => snd (snd e)) out = Nseq p (length out) /\
  Forall (fun e => Issued l (snd e) /\ snd (snd e) < lenN all) out /\
  Issued l (pos_end pos) /\ stale l (pos_end pos) = false /\
  snd (pos_end pos) = p + lenN out /\ p + lenN out <= lenN all /\
  (is_done pos = true <-> p + lenN out = lenN all).
Proof.
  intros W Hi H2 Hn H. pose proof W as [Ws _].
  destruct (readv_exact size l all c n W Hi H2 Hn) as (pos0 & out0 & Hr & F).
  rewrite Hr in H. injection H as -> ->. cbn zeta in F |- *.
  destruct F as (F1 & F2 & F3 & F4 & F5 & _ & F7 & F8 & F9 & F10 & F11).
  repeat (split; [assumption|]).
  split.
  { revert F5. apply Forall_impl. intros [x [sg o]] Hc. cbn [snd fst] in *. split.
    - now apply covers_issued.
    - now apply (covers_range size l all sg o Ws Hc). }
  repeat (split; [assumption|]).
  split; [|exact F11].
  destruct F10 as [Hc | [_ He]]; [|lia].
  pose proof (covers_range size l all _ _ Ws Hc). lia.
Qed.

(* ------------------------------------------------------------------ the order on logs *)
(** [l'] was reached from [l] by appends: the ghost history grew at the end, issued cursors are
    still issued, the base only moved forward, and a cursor that became stale on the way points
    at or before the new base (what lay between is the evicted backlog) *)
Definition log_le (l l' : log T) : Prop :=
  forall all, WF size l all ->
    exists xs, WF size l' (all ++ xs) /\ (forall c, Issued l c -> Issued l' c) /\
               base_of l <= base_of l' /\
               (forall c, Issued l c -> stale l c = false -> stale l' c = true -> snd c <= base_of l').

Lemma log_le_refl l : log_le l l.
Proof.
  intros all W. exists []. rewrite app_nil_r. split; [exact W|]. split; [auto|]. split; [lia|].
  intros c _ H1 H2. congruence.
Qed.

Lemma log_le_trans a b c : log_le a b -> log_le b c -> log_le a c.
Proof.
  intros H1 H2 all W. destruct (H1 all W) as (xs & W1 & I1 & B1 & S1). destruct (H2 _ W1) as (ys & W2 & I2 & B2 & S2).
  exists (xs ++ ys). rewrite app_assoc. split; [exact W2|]. split; [intros cu Hc; apply I2, I1, Hc|].
  split; [lia|]. intros cu Hi Ha Hc. destruct (stale b cu) eqn:Eb.
  - specialize (S1 cu Hi Ha Eb). lia.
  - apply (S2 cu (I1 _ Hi) Eb Hc).
Qed.

Lemma log_le_append (l l' : log T) x r : append size l x = Ok (l', r) -> log_le l l'.
Proof.
  intros H all W. destruct (append_ok_spec l l' all x r W H) as (_ & W' & Hsh & _).
  exists [x]. split; [exact W'|]. split; [intros c Hc; eapply issued_append; eassumption|].
  pose proof W as [Ws _]. pose proof W' as [Ws' _].
  pose proof (wfs_end size l all Ws) as He. pose proof (wfs_end size l' _ Ws') as He'.
  rewrite lenN_app, lenN_cons, lenN_nil in He'.
  destruct Hsh as [i a E E' Hh Ht | f E' Hf Hh Ht | s0 rest f E E' Hf Hh Ht].
  - assert (Hb : base_of l' = base_of l).
    { unfold base_of. rewrite E, E'. destruct i; reflexivity. }
    split; [lia|]. intros c _ H1 H2. unfold stale in *. rewrite Hh in H2. congruence.
  - assert (Hb : base_of l' = base_of l).
    { unfold base_of. rewrite E'. destruct (segs l) eqn:Es; [now destruct (wf_ne size l all Ws)|reflexivity]. }
    split; [lia|]. intros c _ H1 H2. unfold stale in *. rewrite Hh in H2. congruence.
  - assert (Hb : base_of l' = base_of l + seg_len s0).
    { rewrite E, lenD_cons in He. rewrite E', lenD_app, lenD_cons, lenD_nil in He'.
      unfold seg_len at 1 in He'. cbn [pushed s_data] in He'. rewrite Hf in He'.
      rewrite lenN_app, lenN_cons, !lenN_nil in He'. lia. }
    split; [lia|]. intros c Hi H1 H2. unfold stale in *. rewrite Hh in H2.
    destruct Hi as [Hs | (Hhd & _ & s & Hn & _ & Hhi)]; [lia|].
    replace (N.to_nat (fst c - head l)) with O in Hn by lia.
    rewrite E in Hn. cbn [nth_error] in Hn. injection Hn as <-.
    assert (s_abs s0 = base_of l) by (unfold base_of; now rewrite E). lia.
Qed.

Lemma log_le_end (l l' : log T) all : log_le l l' -> WF size l all -> end_of l <= end_of l'.
Proof.
  intros H W. destruct (H all W) as (xs & W' & _).
  rewrite (wf_end_of l all W), (wf_end_of l' _ W'), lenN_app. lia.
Qed.

End ExactLog.
