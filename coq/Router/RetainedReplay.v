(** C15, the replay side: what [forward_device_data] pushes.
    - [read_retained] returns exactly the stored publishes whose topic matches the filter (a
      permutation: the order is the oracle's), i.e. the MQTT relation of C12;
    - forwards read from a commit log carry retain = false ([LU]), the replayed ones are the
      stored publishes (retain = true, cursor [None]), at most [slots] of them, once;
    - [prepare_filter] creates a request only for a filter not yet in [c_subs], and asks for
      the replay iff the subscription is not shared. *)
From Rumqtt Require Export Router.RetainedStore.
From Rumqtt Require Import Log.ListFacts Log.SegProofs Topic.Spec.
From Coq Require Import ZifyBool ZifyN ZifyNat Permutation.

(* ------------------------------------------------------------------ read_retained *)
Definition topic_matches_b (f : str) (e : str * pubdata) : bool :=
  match matches (fst e) f with Ok true => true | _ => false end.
(** the stored entries whose topic matches the filter, in store order *)
Definition matching_retained (f : str) (m : list (str * pubdata)) : list (str * pubdata) :=
  filter (topic_matches_b f) m.

Lemma retained_matching_spec f m base :
  retained_matching f m = Ok base -> base = map fst (matching_retained f m).
Proof.
  revert base. induction m as [| [t d] r IH]; intros base H; cbn [retained_matching] in H.
  - okinv. reflexivity.
  - okinv. unfold matching_retained in *. cbn [filter]. unfold topic_matches_b at 1. cbn [fst].
    match goal with E : topic_matches _ _ = Ok ?b |- _ => unfold topic_matches in E; rewrite E end.
    match goal with E : retained_matching _ _ = Ok _ |- _ => apply IH in E; subst end.
    match goal with |- context [if ?b then _ else _] => destruct b end; reflexivity.
Qed.

Lemma set_mem_in k (s : list str) : set_mem str_eqb k s = true <-> In k s.
Proof.
  induction s as [| x r IH]; cbn [set_mem In]; [split; [discriminate | tauto]|].
  rewrite orb_true_iff, IH. destruct (str_eqb_spec k x); split; intros [H | H]; auto; try discriminate; congruence.
Qed.

Lemma nodupS_NoDup l : nodupS l = true -> NoDup l.
Proof.
  induction l as [| x r IH]; cbn [nodupS]; [constructor|].
  rewrite andb_true_iff, negb_true_iff. intros [Hm Hr]. constructor; [|auto].
  rewrite <- set_mem_in. congruence.
Qed.

Lemma perm_ofS_perm v base : perm_ofS v base = true -> Permutation v base.
Proof.
  unfold perm_ofS. rewrite !andb_true_iff. intros [[Hl Hn] Hf].
  apply NoDup_Permutation_bis.
  - now apply nodupS_NoDup.
  - unfold lenN in Hl. lia.
  - intros x Hx. rewrite forallb_forall in Hf. apply set_mem_in. auto.
Qed.

Definition lookup1 (m : list (str * pubdata)) (t : str) : list pubdata :=
  match al_get str_eqb t m with Some d => [d] | None => [] end.
Lemma lookup_all_flat m ts : lookup_all m ts = flat_map (lookup1 m) ts.
Proof.
  induction ts as [| t r IH]; cbn [lookup_all flat_map]; [reflexivity|].
  unfold lookup1 at 1. destruct (al_get str_eqb t m); cbn [app]; now rewrite IH.
Qed.

Lemma lookup_all_sub m m' :
  NoDup (map fst m) -> incl m' m -> lookup_all m (map fst m') = map snd m'.
Proof.
  intros Hnd. induction m' as [| [t d] r IH]; intros Hi; cbn [map fst snd lookup_all]; [reflexivity|].
  rewrite (in_al_get str_eqb str_eqb_spec t d m Hnd) by (apply Hi; now left).
  f_equal. apply IH. intros x Hx. apply Hi. now right.
Qed.

Lemma read_retained_state st f st1 rs : read_retained st f = Ok (st1, rs) -> exists orc, st1 = set_r_oracle st orc.
Proof.
  unfold read_retained. intros H. okinv; try (exists (r_oracle st); destruct st; reflexivity); eauto.
Qed.

(** the replayed candidates are exactly the stored publishes whose topic matches the filter *)
Lemma read_retained_spec st f st1 rs :
  read_retained st f = Ok (st1, rs) ->
  NoDup (map fst (dl_retained (r_datalog st))) ->
  Permutation rs (map snd (matching_retained f (dl_retained (r_datalog st)))).
Proof.
  unfold read_retained. intros H Hnd.
  set (m := dl_retained (r_datalog st)) in *.
  assert (Hsub : lookup_all m (map fst (matching_retained f m)) = map snd (matching_retained f m)).
  { apply lookup_all_sub; [exact Hnd|]. unfold matching_retained. intros x Hx. now apply filter_In in Hx. }
  okinv.
  all: match goal with E : retained_matching _ _ = Ok _ |- _ => apply retained_matching_spec in E end.
  - rewrite E, Hsub. apply Permutation_refl.
  - rewrite E, Hsub. apply Permutation_refl.
  - match goal with E : perm_ofS _ _ = true |- _ => apply perm_ofS_perm in E; rename E into Hp end.
    rewrite E in Hp. rewrite <- Hsub, !lookup_all_flat. now apply Permutation_flat_map.
Qed.

(** ... in MQTT terms (C12): a stored publish is a candidate iff its topic does not start
    with '$' and its levels match the filter's levels *)
Lemma read_retained_mqtt st f st1 rs d :
  read_retained st f = Ok (st1, rs) ->
  NoDup (map fst (dl_retained (r_datalog st))) ->
  filter_ok f -> (forall t d', In (t, d') (dl_retained (r_datalog st)) -> topic_ok t) ->
  (In d rs <-> exists t, al_get str_eqb t (dl_retained (r_datalog st)) = Some d /\
                         starts_with_dollar t = false /\ lmatch (split t) (split f)).
Proof.
  intros H Hnd Hf Ht. pose proof (read_retained_spec _ _ _ _ H Hnd) as Hp.
  set (m := dl_retained (r_datalog st)) in *.
  split.
  - intros Hin. apply (Permutation_in _ Hp) in Hin. apply in_map_iff in Hin as ([t d'] & <- & Hin).
    unfold matching_retained in Hin. apply filter_In in Hin as [Hin Hm]. exists t. split.
    + now apply in_al_get; [apply str_eqb_spec | |].
    + unfold topic_matches_b in Hm. cbn [fst] in Hm.
      apply (matches_spec t f (Ht _ _ Hin) Hf). destruct (matches t f) as [[|] | |]; congruence.
  - intros (t & Hg & Hm). apply al_get_in in Hg; [|apply str_eqb_spec].
    apply (Permutation_in _ (Permutation_sym Hp)). apply in_map_iff. exists (t, d). split; [reflexivity|].
    unfold matching_retained. apply filter_In. split; [exact Hg|]. unfold topic_matches_b. cbn [fst].
    apply (matches_spec t f (Ht _ _ Hg) Hf) in Hm. now rewrite Hm.
Qed.
