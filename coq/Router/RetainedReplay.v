(** C15, the replay side: what [forward_device_data] pushes.
    - [read_retained] returns exactly the stored publishes whose topic matches the filter (a
      permutation: the order is the oracle's), i.e. the MQTT relation of C12;
    - forwards read from a commit log carry retain = false ([LU]), the replayed ones are the
      stored publishes (retain = true, cursor [None]), at most [slots] of them, once;
    - [prepare_filter] creates a request only for a filter not yet in [c_subs], and asks for
      the replay iff the subscription is not shared. *)
From Rumqtt Require Export Router.RetainedStore.
From Rumqtt Require Import Log.ListFacts Log.SegProofs Topic.Spec.
From Coq Require Import ZifyBool ZifyN ZifyNat Permutation.

(* ------------------------------------------------------------------ read_retained *)
Definition topic_matches_b (f : str) (e : str * pubdata) : bool :=
  match matches (fst e) f with Ok true => true | _ => false end.
(** the stored entries whose topic matches the filter, in store order *)
Definition matching_retained (f : str) (m : list (str * pubdata)) : list (str * pubdata) :=
  filter (topic_matches_b f) m.

Lemma retained_matching_spec f m base :
  retained_matching f m = Ok base -> base = map fst (matching_retained f m).
Proof.
  revert base. induction m as [| [t d] r IH]; intros base H; cbn [retained_matching] in H.
  - okinv. reflexivity.
  - okinv. unfold matching_retained in *. cbn [filter]. unfold topic_matches_b at 1. cbn [fst].
    specialize (IH _ eq_refl). subst.
    match goal with E : topic_matches _ _ = Ok ?b |- _ => unfold topic_matches in E; rewrite E end.
    match goal with |- context [if ?b then _ else _] => destruct b end; reflexivity.
Qed.

Lemma set_mem_in k (s : list str) : set_mem str_eqb k s = true <-> In k s.
Proof.
  induction s as [| x r IH]; cbn [set_mem In]; [split; [discriminate | tauto]|].
  rewrite orb_true_iff, IH. destruct (str_eqb_spec k x); split; intros [H | H]; auto; try discriminate; congruence.
Qed.

Lemma nodupS_NoDup l : nodupS l = true -> NoDup l.
Proof.
  induction l as [| x r IH]; cbn [nodupS]; [constructor|].
  rewrite andb_true_iff, negb_true_iff. intros [Hm Hr]. constructor; [|auto].
  rewrite <- set_mem_in. congruence.
Qed.

Lemma perm_ofS_perm v base : perm_ofS v base = true -> Permutation v base.
Proof.
  unfold perm_ofS. rewrite !andb_true_iff. intros [[Hl Hn] Hf].
  apply NoDup_Permutation_bis.
  - now apply nodupS_NoDup.
  - unfold lenN in Hl. lia.
  - intros x Hx. rewrite forallb_forall in Hf. apply set_mem_in. auto.
Qed.

Definition lookup1 (m : list (str * pubdata)) (t : str) : list pubdata :=
  match al_get str_eqb t m with Some d => [d] | None => [] end.
Lemma lookup_all_flat m ts : lookup_all m ts = flat_map (lookup1 m) ts.
Proof.
  induction ts as [| t r IH]; cbn [lookup_all flat_map]; [reflexivity|].
  unfold lookup1 at 1. destruct (al_get str_eqb t m); cbn [app]; now rewrite IH.
Qed.

Lemma lookup_all_sub m m' :
  NoDup (map fst m) -> incl m' m -> lookup_all m (map fst m') = map snd m'.
Proof.
  intros Hnd. induction m' as [| [t d] r IH]; intros Hi; cbn [map fst snd lookup_all]; [reflexivity|].
  rewrite (in_al_get str_eqb str_eqb_spec t d m Hnd) by (apply Hi; now left).
  f_equal. apply IH. intros x Hx. apply Hi. now right.
Qed.

Lemma read_retained_state st f st1 rs : read_retained st f = Ok (st1, rs) -> exists orc, st1 = set_r_oracle st orc.
Proof.
  unfold read_retained. intros H. okinv.
  all: try (eexists; reflexivity).
  all: match goal with |- exists orc, ?s = set_r_oracle ?s orc => exists (r_oracle s); destruct s; reflexivity end.
Qed.

(** the replayed candidates are exactly the stored publishes whose topic matches the filter *)
Lemma read_retained_spec st f st1 rs :
  read_retained st f = Ok (st1, rs) ->
  NoDup (map fst (dl_retained (r_datalog st))) ->
  Permutation rs (map snd (matching_retained f (dl_retained (r_datalog st)))).
Proof.
  unfold read_retained. intros H Hnd.
  set (m := dl_retained (r_datalog st)) in *.
  assert (Hsub : lookup_all m (map fst (matching_retained f m)) = map snd (matching_retained f m)).
  { apply lookup_all_sub; [exact Hnd|]. unfold matching_retained. intros x Hx. now apply filter_In in Hx. }
  okinv.
  all: match goal with E : retained_matching _ _ = Ok _ |- _ => apply retained_matching_spec in E; rewrite <- E in Hsub end.
  - rewrite <- Hsub. cbn [lookup_all]. apply Permutation_refl.
  - rewrite <- Hsub. cbn [lookup_all]. apply Permutation_refl.
  - match goal with E : perm_ofS _ _ = true |- _ => apply perm_ofS_perm in E; rename E into Hp end.
    rewrite <- Hsub, !lookup_all_flat. now apply Permutation_flat_map.
Qed.

(** ... in MQTT terms (C12): a stored publish is a candidate iff its topic does not start
    with '$' and its levels match the filter's levels *)
Lemma read_retained_mqtt st f st1 rs d :
  read_retained st f = Ok (st1, rs) ->
  NoDup (map fst (dl_retained (r_datalog st))) ->
  filter_ok f -> (forall t d', In (t, d') (dl_retained (r_datalog st)) -> topic_ok t) ->
  (In d rs <-> exists t, al_get str_eqb t (dl_retained (r_datalog st)) = Some d /\
                         starts_with_dollar t = false /\ lmatch (split t) (split f)).
Proof.
  intros H Hnd Hf Ht. pose proof (read_retained_spec _ _ _ _ H Hnd) as Hp.
  set (m := dl_retained (r_datalog st)) in *.
  split.
  - intros Hin. apply (Permutation_in _ Hp) in Hin. apply in_map_iff in Hin as ([t d'] & <- & Hin).
    unfold matching_retained in Hin. apply filter_In in Hin as [Hin Hm]. exists t. split.
    + now apply in_al_get; [apply str_eqb_spec | |].
    + unfold topic_matches_b in Hm. cbn [fst] in Hm.
      apply (matches_spec t f (Ht _ _ Hin) Hf). destruct (matches t f) as [[|] | |]; congruence.
  - intros (t & Hg & Hm). apply al_get_in in Hg; [|apply str_eqb_spec].
    apply (Permutation_in _ (Permutation_sym Hp)). apply in_map_iff. exists (t, d). split; [reflexivity|].
    unfold matching_retained. apply filter_In. split; [exact Hg|]. unfold topic_matches_b. cbn [fst].
    apply (matches_spec t f (Ht _ _ Hg) Hf) in Hm. now rewrite Hm.
Qed.

(* ------------------------------------------------------------------ what a forward keeps of its source *)
Definition fsrc : Type := (option cursor * publish * option pprops)%type.

(** the forwarded publish is the source publish with the granted QoS; dup, retain and payload
    are untouched; the topic is the source's, or empty when a broker topic alias replaces it *)
Definition same_msg (qos : N) (p p' : publish) : Prop :=
  p_dup p' = p_dup p /\ p_retain p' = p_retain p /\ p_payload p' = p_payload p /\ p_qos p' = qos /\
  (p_topic p' = p_topic p \/ p_topic p' = []).
Definition fwd_of (qos : N) (s : fsrc) (n : notification) : Prop :=
  exists p' pr', n = NForward (fst (fst s)) p' pr' /\ same_msg qos (snd (fst s)) p'.

Lemma Forall2_compose {X Y Z} (R : X -> Y -> Prop) (S : Y -> Z -> Prop) (T : X -> Z -> Prop) l1 : forall l2 l3,
  (forall x y z, R x y -> S y z -> T x z) -> Forall2 R l1 l2 -> Forall2 S l2 l3 -> Forall2 T l1 l3.
Proof.
  induction l1 as [| x r IH]; intros l2 l3 H H1 H2; inversion H1; subst; inversion H2; subst; constructor; eauto.
Qed.

Lemma alias_forwards_spec qos subid l : forall bal bal' l',
  alias_forwards bal qos subid l = (bal', l') ->
  Forall2 (fun s s' : fsrc => fst (fst s') = fst (fst s) /\ same_msg qos (snd (fst s)) (snd (fst s'))) l l'.
Proof.
  induction l as [| [[c p] pr] r IH]; intros bal bal' l' H; cbn [alias_forwards] in H.
  - injection H as <- <-. constructor.
  - destruct bal as [b|].
    + destruct (utf8_valid (p_topic (set_p_qos p qos))).
      * destruct (al_get str_eqb (p_topic (set_p_qos p qos)) (ba_map b)) as [a|].
        -- match type of H with (let '(_, _) := alias_forwards ?x _ _ _ in _) = _ =>
             destruct (alias_forwards x qos subid r) as [bal2 r'] eqn:Er end.
           injection H as <- <-. constructor; [|eapply IH; eauto].
           cbn [fst snd]. unfold same_msg. cbn. auto 10.
        -- destruct (ba_set_new_alias b (p_topic (set_p_qos p qos))) as [b' a].
           match type of H with (let '(_, _) := alias_forwards ?x _ _ _ in _) = _ =>
             destruct (alias_forwards x qos subid r) as [bal2 r'] eqn:Er end.
           injection H as <- <-. constructor; [|eapply IH; eauto].
           cbn [fst snd]. unfold same_msg. cbn. auto 10.
      * destruct (alias_forwards (Some b) qos subid r) as [bal2 r'] eqn:Er.
        injection H as <- <-. constructor; [|eapply IH; eauto].
        cbn [fst snd]. unfold same_msg. cbn. auto 10.
    + destruct (alias_forwards None qos subid r) as [bal2 r'] eqn:Er.
      injection H as <- <-. constructor; [|eapply IH; eauto].
      cbn [fst snd]. unfold same_msg. cbn. auto 10.
Qed.

Lemma number_forwards_spec fidx fw : forall o o' ns,
  number_forwards o fidx fw = (o', ns) ->
  Forall2 (fun (s : fsrc) n => exists pk, n = NForward (fst (fst s)) (set_p_pkid (snd (fst s)) pk) (snd s)) fw ns /\
  o_client o' = o_client o /\ o_link o' = o_link o /\ o_pubrels o' = o_pubrels o.
Proof.
  induction fw as [| [[c p] pr] r IH]; intros o o' ns H; cbn [number_forwards] in H.
  - injection H as <- <-. repeat split. constructor.
  - match type of H with (let '(_, _) := number_forwards ?x _ _ in _) = _ =>
      destruct (number_forwards x fidx r) as [o2 ns2] eqn:Er end.
    injection H as <- <-. apply IH in Er as (Hf & H1 & H2 & H3). cbn [o_client o_link o_pubrels] in *.
    repeat split; auto. constructor; [|exact Hf]. cbn [fst snd]. eauto.
Qed.

Lemma fwd_of_numbered qos (s s' : fsrc) n :
  (fst (fst s') = fst (fst s) /\ same_msg qos (snd (fst s)) (snd (fst s'))) ->
  (exists pk, n = NForward (fst (fst s')) (set_p_pkid (snd (fst s')) pk) (snd s')) ->
  fwd_of qos s n.
Proof.
  intros [Hc Hm] (pk & ->). unfold fwd_of. rewrite Hc. do 2 eexists. split; [reflexivity|].
  unfold same_msg in *. cbn. exact Hm.
Qed.

Lemma fwd_of_plain qos (s s' : fsrc) :
  (fst (fst s') = fst (fst s) /\ same_msg qos (snd (fst s)) (snd (fst s'))) ->
  fwd_of qos s (let '(c, p, pr) := s' in NForward c p pr).
Proof.
  destruct s' as [[c' p'] pr']. cbn [fst snd]. intros [-> Hm]. unfold fwd_of. eauto.
Qed.

(* ------------------------------------------------------------------ link buffers *)
Definition out_of (st : rstate) (k : N) : list notification :=
  match nthN (r_links st) k with Some b => lk_out b | None => [] end.

Lemma push_out_spec st k ns st' len :
  push_out st k ns = Ok (st', len) ->
  out_of st' k = out_of st k ++ ns /\ len = lenN (out_of st k ++ ns) /\
  (forall j, j <> k -> out_of st' j = out_of st j) /\
  (exists b, nthN (r_links st) k = Some b).
Proof.
  unfold push_out, link_get, out_of. intros H. okinv. rsimpl.
  match goal with E : nthN _ _ = Some _ |- _ => rename E into En end.
  rewrite (nthN_setN_same _ _ _ _ En). cbn [lk_out set_lk_out]. repeat split; eauto.
  intros j Hj. rewrite nthN_setN_other by congruence. reflexivity.
Qed.

(* ------------------------------------------------------------------ entries read come from the log *)
Lemma In_firstN {X} (l : list X) : forall n x, In x (firstN n l) -> In x l.
Proof.
  induction l as [| y r IH]; intros n x H; cbn [firstN] in H; [contradiction|].
  destruct (n =? 0); [contradiction|]. destruct H as [<- | H]; [now left | right; eauto].
Qed.
Lemma In_skipN {X} (l : list X) : forall n x, In x (skipN n l) -> In x l.
Proof.
  induction l as [| y r IH]; intros n x H; cbn [skipN] in H; [contradiction|].
  destruct (n =? 0); [exact H | right; eauto].
Qed.

Section ReadSubset.
Context {T : Type}.

Lemma seg_readv_subset (s : segment T) c n sp o :
  seg_readv s c n = Ok (sp, o) -> forall e, In e o -> In (fst e) (s_data s).
Proof.
  unfold seg_readv. intros H e He. okinv; try contradiction.
  all: apply (in_map fst) in He; rewrite tag_from_map_fst in He; apply In_firstN, In_skipN in He; exact He.
Qed.

Lemma readv_active_subset start cur len (curr : segment T) pos o :
  readv_active start cur len curr = Ok (pos, o) -> forall e, In e o -> In (fst e) (s_data curr).
Proof.
  unfold readv_active. intros H e He. okinv; try contradiction.
  all: eapply seg_readv_subset; eauto.
Qed.

Lemma readv_walk_subset tl start more : forall cur len (curr : segment T) pos o,
  readv_walk tl start cur len curr more = Ok (pos, o) ->
  forall e, In e o -> exists s, In s (curr :: more) /\ In (fst e) (s_data s).
Proof.
  induction more as [| nxt more IH]; intros cur len curr pos o H e He; cbn [readv_walk] in H.
  - okinv.
    all: try solve [eexists; split; [left; reflexivity | eapply seg_readv_subset; solve [eauto]]].
    all: solve [eexists; split; [left; reflexivity | eapply readv_active_subset; solve [eauto]]].
  - okinv.
    all: try solve [eexists; split; [left; reflexivity | eapply seg_readv_subset; solve [eauto]]].
    all: try solve [eexists; split; [left; reflexivity | eapply readv_active_subset; solve [eauto]]].
    all: apply in_app_iff in He as [He | He];
      [ eexists; split; [left; reflexivity | eapply seg_readv_subset; solve [eauto]]
      | match goal with E : readv_walk _ _ _ _ _ _ = Ok _ |- _ => destruct (IH _ _ _ _ _ E _ He) as (s & Hs & Hd) end;
        exists s; split; [now right | exact Hd] ].
Qed.

Lemma readv_subset (l : log T) c n pos out :
  readv l c n = Ok (pos, out) -> forall e, In e out -> exists s, In s (segs l) /\ In (fst e) (s_data s).
Proof.
  unfold readv. intros H e He. okinv; try contradiction.
  all: match goal with E : nth_rest _ _ = Some _ |- _ => apply nth_rest_split in E as (pre & Hl & _) end.
  all: match goal with E : readv_walk _ _ _ _ _ _ = Ok _ |- _ => destruct (readv_walk_subset _ _ _ _ _ _ _ _ E _ He) as (s' & Hs & Hd) end.
  all: exists s'; split; [rewrite Hl; apply in_or_app; now right | exact Hd].
Qed.
End ReadSubset.

Lemma readv_unflagged (l : log pubdata) c n pos out :
  readv l c n = Ok (pos, out) -> unflagged l -> Forall (fun e => p_retain (fst (fst e)) = false) out.
Proof.
  intros H Hu. apply Forall_forall. intros e He. destruct (readv_subset _ _ _ _ _ H _ He) as (s & Hs & Hd).
  unfold unflagged, unflagged_seg in Hu. rewrite Forall_forall in Hu. specialize (Hu _ Hs).
  rewrite Forall_forall in Hu. exact (Hu _ Hd).
Qed.

(* ------------------------------------------------------------------ forward_device_data, by cases *)
Definition srcs (sel : list pubdata) (from_log : list (pubdata * cursor)) : list fsrc :=
  map (fun x : pubdata => (None, fst x, snd x)) sel ++
  map (fun x : pubdata * cursor => (Some (snd x), fst (fst x), snd (fst x))) from_log.

Lemma out_of_oracle st orc k : out_of (set_r_oracle st orc) k = out_of st k.
Proof. reflexivity. Qed.

Lemma set_fwd_false_id rq : dr_fwd_retained rq = false -> set_dr_fwd_retained rq false = rq.
Proof. destruct rq; cbn. now intros ->. Qed.

(** the forwards built from the publishes and pushed by [push_forwards] *)
Lemma forwards_spec (o : outgoing) qos fidx bal subid pubs bal' forwards o1 notifs :
  alias_forwards bal qos subid pubs = (bal', forwards) ->
  (if qos =? 0
   then (o, map (fun x : fsrc => let '(c, p, pr) := x in NForward c p pr) forwards)
   else number_forwards o fidx forwards) = (o1, notifs) ->
  Forall2 (fwd_of qos) pubs notifs /\ o_link o1 = o_link o /\ o_client o1 = o_client o /\ o_pubrels o1 = o_pubrels o.
Proof.
  intros Ha Hn. apply alias_forwards_spec in Ha. destruct (qos =? 0).
  - injection Hn as <- <-. repeat split. clear -Ha.
    induction Ha as [| s s' l l' Hs _ IH]; cbn [map]; constructor; [|exact IH].
    now apply fwd_of_plain.
  - apply number_forwards_spec in Hn as (Hf & H1 & H2 & H3). repeat split; auto.
    eapply Forall2_compose; [| exact Ha | exact Hf]. intros x y z. apply fwd_of_numbered.
Qed.


Lemma update_next_client_spec st g st1 g1 :
  update_next_client st g = Ok (st1, g1) ->
  (exists orc, st1 = set_r_oracle st orc) /\
  g_clients g1 = g_clients g /\ g_cursor g1 = g_cursor g /\ g_strategy g1 = g_strategy g /\
  match g_strategy g with
  | RoundRobin => g_idx g1 = (g_idx g + 1) mod lenN (g_clients g)
  | Random => g_idx g1 < lenN (g_clients g)
  | Sticky => g_idx g1 = g_idx g
  end.
Proof.
  unfold update_next_client. intros H.
  assert (Hs : exists orc, st = set_r_oracle st orc) by (exists (r_oracle st); destruct st; reflexivity).
  destruct (g_strategy g) eqn:Es; okinv; cbn [g_clients g_cursor g_strategy g_idx set_g_idx]; repeat split; eauto.
  lia.
Qed.

(** the group a request reads through, if it has one that exists *)
Definition req_group (st : rstate) (rq : drequest) : option (str * group) :=
  match dr_group rq with
  | Some name => match al_get str_eqb name (r_groups st) with
                 | Some g => Some (name, g)
                 | None => None
                 end
  | None => None
  end.

(** everything [forward_device_data] does, by cases *)
Lemma forward_cases st id rq st' rq' status o :
  forward_device_data st id rq = Ok (st', rq', status) ->
  get_obuf st id = Ok o ->
  let sg := req_group st rq in
  let rq0 := match sg with Some (_, g) => set_dr_cursor rq (g_cursor g) | None => rq end in
  let slots0 := if dr_qos rq =? 0 then cf_max_outgoing (r_cfg st) else MAX_INFLIGHT - lenN (o_inflight o) in
  let slots := match sg with
               | Some (_, g) => match g_strategy g with RoundRobin => 1 | _ => slots0 end
               | None => slots0
               end in
  let skip := match sg with
              | Some (_, g) => negb (ostr_eqb (Some (o_client o)) (current_client g))
              | None => false
              end in
  (status = SInflightFull /\ st' = st /\ rq' = rq0) \/
  exists sel d pos from_log,
    (if dr_fwd_retained rq
     then exists st1 rs, read_retained st (dr_filter rq) = Ok (st1, rs) /\ sel = firstnN slots rs
     else sel = []) /\
    native_get (r_datalog st) (dr_idx rq) = Ok d /\
    readv (d_log d) (dr_cursor rq0) (slots - lenN sel) = Ok (pos, from_log) /\
    dr_fwd_retained rq' = false /\
    dr_filter rq' = dr_filter rq /\ dr_idx rq' = dr_idx rq /\ dr_qos rq' = dr_qos rq /\ dr_group rq' = dr_group rq /\
    if skip then
      (exists orc, st' = set_r_oracle st orc) /\ dr_cursor rq' = dr_cursor rq0 /\ dr_read rq' = dr_read rq /\
      status = (if is_done pos && match srcs sel from_log with [] => true | _ => false end
                then FilterCaughtup else SkipRequest)
    else
      dr_cursor rq' = pos_end pos /\ dr_read rq' = dr_read rq + lenN (srcs sel from_log) /\
      status <> SInflightFull /\ status <> SkipRequest /\
      exists ns,
        out_of st' (o_link o) = out_of st (o_link o) ++ ns ++ (match status with BufferFull => [NUnschedule] | _ => [] end) /\
        (forall k, k <> o_link o -> out_of st' k = out_of st k) /\
        Forall2 (fwd_of (dr_qos rq)) (srcs sel from_log) ns /\
        match srcs sel from_log with
        | [] => status = FilterCaughtup /\ exists orc, st' = set_r_oracle st orc
        | _ :: _ =>
            match sg with
            | Some (name, g) =>
                exists sta stb g1, update_next_client sta g = Ok (stb, g1) /\
                  r_groups st' = al_set str_eqb name (set_g_cursor g1 (pos_end pos)) (r_groups st)
            | None => r_groups st' = r_groups st
            end
        end.
Proof.
  intros H Ho sg. assert (Esg : sg = req_group st rq) by reflexivity. clearbody sg.
  intros rq0 slots0 slots skip. unfold forward_device_data in H. rewrite Ho in H. cbn [bind] in H.
  fold (req_group st rq) in H. rewrite <- Esg in H.
  destruct (slab_get (r_conns st) id) as [conn|] eqn:Ec; cbn [bind] in H; [|discriminate].
  cbn beta zeta in H. fold rq0 in H.
  assert (Hq0 : dr_qos rq0 = dr_qos rq /\ dr_fwd_retained rq0 = dr_fwd_retained rq /\ dr_filter rq0 = dr_filter rq /\
                dr_idx rq0 = dr_idx rq /\ dr_group rq0 = dr_group rq /\ dr_read rq0 = dr_read rq)
    by (unfold rq0; destruct sg as [[? ?]|]; cbn; auto 10).
  destruct Hq0 as (Hq1 & Hq2 & Hq3 & Hq4 & Hq5 & Hq6). rewrite Hq1, Hq2, Hq3 in H.
  match type of H with bind ?x _ = _ =>
    assert (Hs0 : forall s0, x = Ok s0 -> s0 = slots0)
      by (unfold slots0, free_slots; destruct (dr_qos rq =? 0); cbn [negb]; intros s0 E; okinv; reflexivity);
    destruct x as [s0 | |] eqn:Es0; cbn [bind] in H; try discriminate end.
  specialize (Hs0 s0 eq_refl). subst s0. clear Es0.
  destruct (negb (dr_qos rq =? 0) && (slots0 =? 0)) eqn:Efull.
  { left. okinv. auto. }
  right.
  assert (Hsl : match sg with Some (_, g) => match g_strategy g with RoundRobin => 1 | _ => slots0 end | None => slots0 end = slots)
    by reflexivity.
  rewrite Hsl in H. clear Hsl.
  match type of H with bind ?x _ = _ => destruct x as [[[[st1 rq1] sel] slots2] | |] eqn:Est end; cbn [bind] in H; try discriminate.
  assert (Hst : exists orc, st1 = set_r_oracle st orc /\ rq1 = set_dr_fwd_retained rq0 false /\ slots2 = slots - lenN sel /\
            (if dr_fwd_retained rq
             then exists st1 rs, read_retained st (dr_filter rq) = Ok (st1, rs) /\ sel = firstnN slots rs
             else sel = [])).
  { clear H. destruct (dr_fwd_retained rq) eqn:Ef.
    - okinv. match goal with E : read_retained _ _ = Ok _ |- _ => pose proof (read_retained_state _ _ _ _ E) as (orc & ->) end.
      exists orc. repeat split; eauto.
    - okinv. exists (r_oracle st1). repeat split.
      + destruct st1; reflexivity.
      + rewrite set_fwd_false_id; [reflexivity | congruence].
      + unfold lenN. cbn [length]. lia. }
  destruct Hst as (orc & -> & -> & -> & Hsel). clear Est.
  rsimpl in H. cbn [dr_fwd_retained dr_cursor dr_filter dr_idx dr_qos dr_group dr_read set_dr_fwd_retained] in H.
  rewrite Hq1, Hq3, Hq4, Hq5, Hq6 in H.
  destruct (native_get (r_datalog st) (dr_idx rq)) as [d | |] eqn:Ed; cbn [bind] in H; try discriminate.
  destruct (readv (d_log d) (dr_cursor rq0) (slots - lenN sel)) as [[pos from_log] | |] eqn:Er; cbn [bind] in H; try discriminate.
  fold (srcs sel from_log) in H.
  exists sel, d, pos, from_log.
  assert (Hpos : (let '(start, next, caughtup) := match pos with Next s e => (s, e, false) | Done s e => (s, e, true) end in (next, caughtup))
                 = (pos_end pos, is_done pos))
    by (destruct pos; reflexivity).
  destruct (match pos with Next s e => (s, e, false) | Done s e => (s, e, true) end) as [[start next] caughtup] eqn:Epos.
  cbn beta iota in Hpos. injection Hpos as -> ->.
  assert (Hsk : match sg with
                | Some (_, g) => negb (ostr_eqb (Some (o_client o)) (current_client g))
                | None => false
                end = skip) by reflexivity.
  rewrite Hsk in H. clear Hsk.
  split; [assumption|]. split; [reflexivity|]. split; [assumption|].
  destruct skip.
  { okinv. cbn [dr_fwd_retained dr_cursor dr_filter dr_idx dr_qos dr_group dr_read set_dr_fwd_retained].
    repeat split; eauto. }
  destruct (srcs sel from_log) as [| s1 rest] eqn:Esrc.
  { okinv. cbn [dr_fwd_retained dr_cursor dr_filter dr_idx dr_qos dr_group dr_read].
    repeat split; auto; try discriminate. exists [].
    rewrite !out_of_oracle, app_nil_r. repeat split; eauto. }
  cbn beta iota. rewrite <- Esrc in *.
  destruct (2 <? dr_qos rq); [discriminate H|].
  destruct (alias_forwards (c_baliases conn) (dr_qos rq) (al_get str_eqb (dr_filter rq) (c_subids conn)) (srcs sel from_log))
    as [bal forwards] eqn:Ea.
  match type of H with (let '(_, _) := ?x in _) = _ => destruct x as [o1 notifs] eqn:En end.
  destruct (forwards_spec _ _ _ _ _ _ _ _ _ _ Ea En) as (Hf & Hl1 & _ & _).
  match type of H with bind ?x _ = _ => destruct x as [[st4 len] | |] eqn:Ep end; cbn [bind] in H; try discriminate.
  pose proof (fr_push_out _ _ _ _ Ep) as Hk4. cbn [fst] in Hk4.
  assert (Hg4 : r_groups st4 = r_groups st).
  { clear H. unfold push_out in Ep. okinv. reflexivity. }
  apply push_out_spec in Ep as (Hp1 & Hp2 & Hp3 & _). rewrite Hl1 in *.
  change (out_of (put_obuf (put_conn (set_r_oracle st orc) id (set_c_baliases conn bal)) id o1)) with (out_of st) in *.
  rewrite Hg4 in H.
  match type of H with bind ?x _ = _ => destruct x as [st5 | |] eqn:E5 end; cbn [bind] in H; try discriminate.
  assert (H5 : out_of st5 = out_of st4 /\
               match sg with
               | Some (name, g) =>
                   exists sta stb g1, update_next_client sta g = Ok (stb, g1) /\
                     r_groups st5 = al_set str_eqb name (set_g_cursor g1 (pos_end pos)) (r_groups st)
               | None => r_groups st5 = r_groups st
               end).
  { clear H. destruct sg as [[name g]|]; [|okinv; auto].
    assert (Hag : al_get str_eqb name (r_groups st) = Some g).
    { unfold req_group in Esg. destruct (dr_group rq) as [nm|]; [|discriminate].
      destruct (al_get str_eqb nm (r_groups st)) eqn:Eg; [|discriminate]. now injection Esg as -> ->. }
    rewrite Hag in E5. okinv.
    match goal with E : update_next_client _ _ = Ok _ |- _ => pose proof (update_next_client_spec _ _ _ _ E) as ((orc' & ->) & _) end.
    rsimpl. rewrite Hg4. split; [reflexivity | eauto]. }
  destruct H5 as [Ho5 Hg5]. clear E5.
  cbn [dr_fwd_retained dr_cursor dr_filter dr_idx dr_qos dr_group dr_read].
  destruct (MAX_CHANNEL_CAPACITY - 1 <=? len).
  - match type of H with bind ?x _ = _ => destruct x as [[st6 len6] | |] eqn:Ep6 end; cbn [bind] in H; try discriminate.
    assert (Hg6 : r_groups st6 = r_groups st5) by (clear H; unfold push_out in Ep6; okinv; reflexivity).
    apply push_out_spec in Ep6 as (Hq1' & _ & Hq3' & _). okinv.
    cbn [dr_fwd_retained dr_cursor dr_filter dr_idx dr_qos dr_group dr_read].
    do 5 (split; [reflexivity|]). split; [reflexivity|]. split; [reflexivity|].
    split; [discriminate|]. split; [discriminate|]. exists notifs.
    rewrite Hq1', Ho5, Hp1, <- app_assoc, Hg6. split; [reflexivity|]. split; [|split; [exact Hf | exact Hg5]].
    intros k Hk. rewrite Hq3', Ho5, Hp3; auto.
  - okinv. cbn [dr_fwd_retained dr_cursor dr_filter dr_idx dr_qos dr_group dr_read].
    do 5 (split; [reflexivity|]). split; [reflexivity|]. split; [reflexivity|].
    split; [destruct (is_done pos); discriminate|]. split; [destruct (is_done pos); discriminate|]. exists notifs.
    rewrite Ho5, Hp1. split; [destruct (is_done pos); rewrite app_nil_r; reflexivity|]. split; [|split; [exact Hf | exact Hg5]].
    intros k Hk. rewrite Hp3; auto.
Qed.

(* ------------------------------------------------------------------ what is pushed *)
Lemma In_firstnN {X} (l : list X) : forall n x, In x (firstnN n l) -> In x l.
Proof.
  induction l as [| y r IH]; intros n x H; cbn [firstnN] in H; [contradiction|].
  destruct (n =? 0); [contradiction|]. destruct H as [<- | H]; [now left | right; eauto].
Qed.

Lemma native_get_unflagged st idx d : native_get (r_datalog st) idx = Ok d -> LU st -> unflagged (d_log d).
Proof.
  unfold native_get, slab_get, LU, dl_logs. intros H Hl. rewrite Forall_map in Hl.
  destruct (nthN (sl_items (dl_native (r_datalog st))) idx) as [[d0|]|] eqn:E; try discriminate.
  injection H as <-. exact (Forall_nthN _ _ _ _ Hl E).
Qed.

Definition is_live_fwd (n : notification) : Prop := exists c p pr, n = NForward (Some c) p pr /\ p_retain p = false.
Definition is_replay_fwd (qos : N) (d : pubdata) (n : notification) : Prop :=
  exists p' pr', n = NForward None p' pr' /\ same_msg qos (fst d) p'.

Lemma srcs_split qos sel from_log ns :
  Forall2 (fwd_of qos) (srcs sel from_log) ns ->
  exists ns1 ns2, ns = ns1 ++ ns2 /\
    Forall2 (is_replay_fwd qos) sel ns1 /\
    Forall2 (fun (e : pubdata * cursor) n => exists p' pr', n = NForward (Some (snd e)) p' pr' /\ same_msg qos (fst (fst e)) p') from_log ns2.
Proof.
  unfold srcs. intros H. apply Forall2_app_inv_l in H as (ns1 & ns2 & H1 & H2 & ->).
  exists ns1, ns2. split; [reflexivity|]. split.
  - clear -H1. remember (map _ sel) as l eqn:El. revert sel El.
    induction H1 as [| s n l l' Hs _ IH]; intros sel El; destruct sel as [| d sel]; try discriminate; constructor.
    + injection El as -> ->. exact Hs.
    + injection El as _ ->. now apply IH.
  - clear -H2. remember (map _ from_log) as l eqn:El. revert from_log El.
    induction H2 as [| s n l l' Hs _ IH]; intros fl El; destruct fl as [| d fl]; try discriminate; constructor.
    + injection El as -> ->. exact Hs.
    + injection El as _ ->. now apply IH.
Qed.

(** [c15_live_unflagged] + the shape of everything pushed: on the connection's own link only;
    first the replayed retained publishes (cursor [None]), then the publishes read from the log
    (cursor [Some], retain = false), then possibly [NUnschedule] *)
Lemma forward_pushes st id rq st' rq' status o :
  forward_device_data st id rq = Ok (st', rq', status) -> get_obuf st id = Ok o -> LU st ->
  exists sel ns_ret ns_live tail,
    out_of st' (o_link o) = out_of st (o_link o) ++ ns_ret ++ ns_live ++ tail /\
    (forall k, k <> o_link o -> out_of st' k = out_of st k) /\
    (tail = [] \/ tail = [NUnschedule]) /\
    Forall2 (is_replay_fwd (dr_qos rq)) sel ns_ret /\
    Forall is_live_fwd ns_live /\
    (dr_fwd_retained rq = false -> sel = []) /\
    (forall d, In d sel -> exists st1 rs, read_retained st (dr_filter rq) = Ok (st1, rs) /\ In d rs).
Proof.
  intros H Ho Hlu. pose proof (forward_cases _ _ _ _ _ _ _ H Ho) as Hc. cbn zeta in Hc.
  destruct Hc as [(-> & -> & ->) | (sel & d & pos & from_log & Hsel & Hd & Hr & _ & _ & _ & _ & _ & Hrest)].
  { exists [], [], [], []. rewrite !app_nil_r. repeat split; auto. intros ? []. }
  match type of Hrest with if ?b then _ else _ => destruct b end.
  { destruct Hrest as ((orc & ->) & _). exists [], [], [], []. rewrite !app_nil_r. repeat split; auto. intros ? []. }
  destruct Hrest as (_ & _ & _ & _ & ns & Hout & Hoth & Hf & _).
  apply srcs_split in Hf as (ns1 & ns2 & -> & Hf1 & Hf2).
  exists sel, ns1, ns2, (match status with BufferFull => [NUnschedule] | _ => [] end).
  rewrite <- app_assoc in Hout. split; [exact Hout|]. split; [exact Hoth|].
  split; [destruct status; auto|]. split; [exact Hf1|]. split.
  - pose proof (readv_unflagged _ _ _ _ _ Hr (native_get_unflagged _ _ _ Hd Hlu)) as Hu.
    clear -Hf2 Hu. induction Hf2 as [| e n l l' (p' & pr' & -> & Hm) _ IH]; constructor.
    + inversion Hu; subst. exists (snd e), p', pr'. split; [reflexivity|]. destruct Hm as (_ & -> & _). assumption.
    + inversion Hu; subst. auto.
  - destruct (dr_fwd_retained rq).
    + destruct Hsel as (st1 & rs & Hrr & ->). split; [discriminate|].
      intros d0 Hd0. exists st1, rs. split; [exact Hrr|]. eapply In_firstnN; eauto.
    + subst sel. split; [reflexivity | intros ? []].
Qed.

Lemma req_group_none st rq : dr_group rq = None -> req_group st rq = None.
Proof. unfold req_group. now intros ->. Qed.

Lemma store_ok_values m d : store_ok m -> In d (map snd m) -> p_retain (fst d) = true.
Proof.
  intros [_ Hf] Hin. apply in_map_iff in Hin as (e & <- & He). rewrite Forall_forall in Hf. exact (Hf _ He).
Qed.

(** [c15_replay_flagged]: a non-shared request *)
Lemma replay_exact st id rq st' rq' status o :
  forward_device_data st id rq = Ok (st', rq', status) -> get_obuf st id = Ok o ->
  dr_group rq = None -> LU st -> store_ok (dl_retained (r_datalog st)) ->
  let slots := if dr_qos rq =? 0 then cf_max_outgoing (r_cfg st) else MAX_INFLIGHT - lenN (o_inflight o) in
  (status = SInflightFull /\ st' = st /\ rq' = rq) \/
  (dr_fwd_retained rq' = false /\
   exists sel ns_ret ns_live tail,
     (if dr_fwd_retained rq
      then exists st1 rs, read_retained st (dr_filter rq) = Ok (st1, rs) /\ sel = firstnN slots rs /\
             Permutation rs (map snd (matching_retained (dr_filter rq) (dl_retained (r_datalog st))))
      else sel = []) /\
     out_of st' (o_link o) = out_of st (o_link o) ++ ns_ret ++ ns_live ++ tail /\
     (forall k, k <> o_link o -> out_of st' k = out_of st k) /\
     (tail = [] \/ tail = [NUnschedule]) /\
     Forall2 (fun d n => exists p' pr', n = NForward None p' pr' /\ same_msg (dr_qos rq) (fst d) p' /\ p_retain p' = true) sel ns_ret /\
     Forall is_live_fwd ns_live).
Proof.
  intros H Ho Hg Hlu Hok slots. pose proof (forward_cases _ _ _ _ _ _ _ H Ho) as Hc. cbn zeta in Hc.
  rewrite (req_group_none _ _ Hg) in Hc.
  destruct Hc as [(-> & -> & ->) | (sel & d & pos & from_log & Hsel & Hd & Hr & Hfl & _ & _ & _ & _ & Hrest)]; [now left|].
  right. split; [exact Hfl|].
  destruct Hrest as (_ & _ & _ & _ & ns & Hout & Hoth & Hf & _).
  apply srcs_split in Hf as (ns1 & ns2 & -> & Hf1 & Hf2).
  exists sel, ns1, ns2, (match status with BufferFull => [NUnschedule] | _ => [] end).
  rewrite <- app_assoc in Hout.
  assert (Hsel' : (if dr_fwd_retained rq
      then exists st1 rs, read_retained st (dr_filter rq) = Ok (st1, rs) /\ sel = firstnN slots rs /\
             Permutation rs (map snd (matching_retained (dr_filter rq) (dl_retained (r_datalog st))))
      else sel = []) /\ Forall (fun d => p_retain (fst d) = true) sel).
  { destruct (dr_fwd_retained rq).
    - destruct Hsel as (st1 & rs & Hrr & ->). pose proof (read_retained_spec _ _ _ _ Hrr (proj1 Hok)) as Hp.
      split; [eauto 6|]. apply Forall_forall. intros d0 Hd0. apply In_firstnN in Hd0.
      apply (Permutation_in _ Hp) in Hd0. eapply store_ok_values; eauto.
      unfold matching_retained in Hd0. apply in_map_iff in Hd0 as (e & <- & He). apply filter_In in He as [He _].
      now apply in_map.
    - subst sel. split; [reflexivity | constructor]. }
  destruct Hsel' as [Hs1 Hs2].
  split; [exact Hs1|]. split; [exact Hout|]. split; [exact Hoth|]. split; [destruct status; auto|]. split.
  - clear -Hf1 Hs2. induction Hf1 as [| d0 n l l' (p' & pr' & -> & Hm) _ IH]; constructor.
    + inversion Hs2; subst. exists p', pr'. split; [reflexivity|]. split; [exact Hm|].
      destruct Hm as (_ & -> & _). assumption.
    + inversion Hs2; subst. auto.
  - pose proof (readv_unflagged _ _ _ _ _ Hr (native_get_unflagged _ _ _ Hd Hlu)) as Hu.
    clear -Hf2 Hu. induction Hf2 as [| e n l l' (p' & pr' & -> & Hm) _ IH]; constructor.
    + inversion Hu; subst. exists (snd e), p', pr'. split; [reflexivity|]. destruct Hm as (_ & -> & _). assumption.
    + inversion Hu; subst. auto.
Qed.

(* ------------------------------------------------------------------ prepare_filter *)
Lemma try_ready_reqs dbg t why t' b : try_ready dbg t why = Ok (t', b) -> tr_reqs t' = tr_reqs t /\ tr_id t' = tr_id t.
Proof. unfold try_ready. intros H. okinv; auto. Qed.

Lemma get_tracker_put st id t t0 : get_tracker st id = Ok t0 -> get_tracker (put_tracker st id t) id = Ok t.
Proof.
  unfold get_tracker, put_tracker. rsimpl. intros H. destruct (slab_get (r_trackers st) id) eqn:E; [|discriminate].
  now rewrite (slab_get_put_same _ _ _ _ E).
Qed.

Lemma reschedule_reqs st id why st' t :
  reschedule st id why = Ok st' -> get_tracker st id = Ok t ->
  exists t', get_tracker st' id = Ok t' /\ tr_reqs t' = tr_reqs t /\ tr_id t' = tr_id t.
Proof.
  unfold reschedule. intros H Ht. rewrite Ht in H. cbn [bind] in H. okinv.
  match goal with E : try_ready _ _ _ = Ok _ |- _ => apply try_ready_reqs in E as [E1 E2] end.
  eexists. split; [|split; eassumption].
  match goal with |- context [if ?b then _ else _] => destruct b end; unfold get_tracker in *; rsimpl;
    destruct (slab_get (r_trackers st) id) eqn:E; try discriminate; now rewrite (slab_get_put_same _ _ _ _ E).
Qed.

(** [c15_no_replay] / creation of requests: a request is created only for a filter path that is
    not yet among the connection's subscriptions; it asks for the retained replay iff the
    subscription is not shared *)
Lemma prepare_filter_request st id cu fidx path qos grp subid st' conn t :
  prepare_filter st id cu fidx path qos grp subid = Ok st' ->
  get_conn st id = Ok conn -> get_tracker st id = Ok t ->
  if set_mem str_eqb path (c_subs conn)
  then r_trackers st' = r_trackers st /\ r_datalog st' = r_datalog st /\ r_notif st' = r_notif st /\
       r_links st' = r_links st /\ r_ready st' = r_ready st
  else exists t', get_tracker st' id = Ok t' /\
       tr_reqs t' = tr_reqs t ++ [{| dr_filter := path; dr_idx := fidx; dr_qos := qos; dr_cursor := cu; dr_read := 0;
                                     dr_fwd_retained := match grp with None => true | Some _ => false end;
                                     dr_group := grp |}].
Proof.
  intros H Hc Ht. unfold prepare_filter in H.
  change (get_conn (set_r_submap st ?x) id) with (get_conn st id) in H. rewrite Hc in H. cbn [bind] in H.
  assert (Hsubs : c_subs (match subid with Some s0 => set_c_subids conn (al_set str_eqb path s0 (c_subids conn)) | None => conn end) = c_subs conn)
    by (destruct subid; reflexivity).
  rewrite Hsubs in H.
  destruct (set_mem str_eqb path (c_subs conn)).
  - okinv. rsimpl. auto.
  - match type of H with bind (track ?s _ ?r) _ = _ => destruct (track s id r) as [st4 | |] eqn:E4 end; cbn [bind] in H; try discriminate.
    unfold track in E4.
    match type of E4 with bind (get_tracker ?s id) _ = _ => change (get_tracker s id) with (get_tracker st id) in E4 end.
    rewrite Ht in E4. cbn [bind] in E4. injection E4 as <-.
    match type of H with bind (reschedule ?s _ _) _ = _ => destruct (reschedule s id SNewFilter) as [st5 | |] eqn:E5 end; cbn [bind] in H; try discriminate.
    eapply reschedule_reqs in E5; [| eapply get_tracker_put; exact Ht].
    destruct E5 as (t' & Ht' & Hr & _). okinv. exists t'. split; [exact Ht' | exact Hr].
Qed.

(* ------------------------------------------------------------------ on reachable states *)
Lemma reachable_forward_pushes cfg st id rq st' rq' status o :
  reachable cfg st ->
  forward_device_data st id rq = Ok (st', rq', status) -> get_obuf st id = Ok o ->
  exists sel ns_ret ns_live tail,
    out_of st' (o_link o) = out_of st (o_link o) ++ ns_ret ++ ns_live ++ tail /\
    (forall k, k <> o_link o -> out_of st' k = out_of st k) /\
    (tail = [] \/ tail = [NUnschedule]) /\
    Forall2 (is_replay_fwd (dr_qos rq)) sel ns_ret /\
    Forall is_live_fwd ns_live /\
    (dr_fwd_retained rq = false -> sel = []) /\
    (forall d, In d sel -> exists st1 rs, read_retained st (dr_filter rq) = Ok (st1, rs) /\ In d rs).
Proof. intros Hr H Ho. eapply forward_pushes; eauto. eapply reachable_LU; eauto. Qed.

Lemma reachable_replay_exact cfg st id rq st' rq' status o :
  reachable cfg st ->
  forward_device_data st id rq = Ok (st', rq', status) -> get_obuf st id = Ok o ->
  dr_group rq = None ->
  let slots := if dr_qos rq =? 0 then cf_max_outgoing (r_cfg st) else MAX_INFLIGHT - lenN (o_inflight o) in
  (status = SInflightFull /\ st' = st /\ rq' = rq) \/
  (dr_fwd_retained rq' = false /\
   exists sel ns_ret ns_live tail,
     (if dr_fwd_retained rq
      then exists st1 rs, read_retained st (dr_filter rq) = Ok (st1, rs) /\ sel = firstnN slots rs /\
             Permutation rs (map snd (matching_retained (dr_filter rq) (dl_retained (r_datalog st))))
      else sel = []) /\
     out_of st' (o_link o) = out_of st (o_link o) ++ ns_ret ++ ns_live ++ tail /\
     (forall k, k <> o_link o -> out_of st' k = out_of st k) /\
     (tail = [] \/ tail = [NUnschedule]) /\
     Forall2 (fun d n => exists p' pr', n = NForward None p' pr' /\ same_msg (dr_qos rq) (fst d) p' /\ p_retain p' = true) sel ns_ret /\
     Forall is_live_fwd ns_live).
Proof.
  intros Hr H Ho Hg. eapply replay_exact; eauto.
  - eapply reachable_LU; eauto.
  - eapply reachable_store_ok; eauto.
Qed.

(** a request that does not ask for the replay (every shared one, every one that was served
    once) gets no retained publish: all forwards pushed carry a log cursor *)
Lemma no_replay_without_flag st id rq st' rq' status o :
  forward_device_data st id rq = Ok (st', rq', status) -> get_obuf st id = Ok o -> LU st ->
  dr_fwd_retained rq = false ->
  dr_fwd_retained rq' = false /\
  exists ns_live tail,
    out_of st' (o_link o) = out_of st (o_link o) ++ ns_live ++ tail /\
    (tail = [] \/ tail = [NUnschedule]) /\ Forall is_live_fwd ns_live.
Proof.
  intros H Ho Hlu Hf. split.
  - pose proof (forward_cases _ _ _ _ _ _ _ H Ho) as Hc. cbn zeta in Hc.
    destruct Hc as [(_ & _ & ->) | (sel & d & pos & from_log & _ & _ & _ & Hfl & _)]; [|exact Hfl].
    destruct (req_group st rq) as [[? ?]|]; [exact Hf | exact Hf].
  - destruct (forward_pushes _ _ _ _ _ _ _ H Ho Hlu) as (sel & ns_ret & ns_live & tail & Hout & _ & Ht & Hf1 & Hf2 & Hs & _).
    rewrite (Hs Hf) in Hf1. inversion Hf1; subst. exists ns_live, tail. auto.
Qed.

(* ------------------------------------------------------------------ Example *)
Module C15Example.
Definition cfg0 : config :=
  {| cf_max_connections := 10; cf_max_outgoing := 200; cf_seg_size := 1024; cf_seg_count := 2;
     cf_init_filters := []; cf_strategy := RoundRobin; cf_debug_assertions := true |}.
Definition creq (c : str) (clean : bool) (w : option will) : connect_req :=
  {| cr_client := c; cr_clean := clean; cr_dynamic := false; cr_alias_max := 0; cr_will := w |}.
Definition mkpub (t pl : str) (qos pkid : N) (retain : bool) : publish :=
  {| p_dup := false; p_qos := qos; p_retain := retain; p_topic := t; p_pkid := pkid; p_payload := pl |}.
Definition no (o : rop) : op_in := ([], o).
(** "p" publishes a retained "x" on a/b; "s" then subscribes to a/+ ; later a live "y" on a/b *)
Definition ops : list op_in := map no
  [ OpConnect (creq [112] true None);
    OpPush 0 (PPublish (mkpub [97;47;98] [120] 0 0 true) None);
    OpData 0;
    OpConnect (creq [115] true None);
    OpPush 1 (PSubscribe 1 [([97;47;43], 0)] None);
    OpData 1;
    OpConsume;                      (* connection 0: flushes its ConnAck *)
    OpConsume;                      (* connection 1: acks + the replay *)
    OpConsume; OpConsume;
    OpPush 0 (PPublish (mkpub [97;47;98] [121] 0 0 false) None);
    OpData 0;
    OpConsume; OpConsume; OpConsume;
    OpDrain 1 ].

Definition outs_of (x : R (rstate * list rout)) : option (list rout) :=
  match x with Ok (_, o) => Some o | _ => None end.

(** what the new wildcard subscriber receives: ConnAck, SubAck, the retained publish flagged
    retain = true without a cursor, then the live publish with retain = false and its log cursor *)
Example replay_then_live :
  option_map (fun o => last o OutUnit) (outs_of (run_from cfg0 ops)) =
  Some (OutDrain [NAck (AConnAck 1 false); NAck (ASubAck 1 [0]);
                  NForward None (mkpub [97;47;98] [120] 0 0 true) None;
                  NForward (Some (0, 0)) (mkpub [97;47;98] [121] 0 0 false) None]).
Proof. vm_compute. reflexivity. Qed.

(** the hypotheses of [replay_exact] hold in the reachable state before the second consume:
    a non-shared request with the replay flag set; the call replays once and clears the flag *)
Example replay_hypotheses :
  match run_from cfg0 (firstn 7 ops) with
  | Ok (st, _) =>
      match slab_get (r_trackers st) 1, slab_get (r_obufs st) 1 with
      | Some t, Some o =>
          match tr_reqs t with
          | rq :: _ =>
              dr_fwd_retained rq = true /\ dr_group rq = None /\
              al_get str_eqb [97;47;98] (dl_retained (r_datalog st)) = Some (mkpub [97;47;98] [120] 0 0 true, None) /\
              match forward_device_data st 1 rq with
              | Ok (st', rq', status) =>
                  out_of st' (o_link o) = out_of st (o_link o) ++ [NForward None (mkpub [97;47;98] [120] 0 0 true) None] /\
                  dr_fwd_retained rq' = false /\ status = FilterCaughtup
              | _ => False
              end
          | [] => False
          end
      | _, _ => False
      end
  | _ => False
  end.
Proof. vm_compute. repeat split; reflexivity. Qed.

(** the ghost history and the store agree on the example ([retained_latest]) *)
Example latest_example :
  latest [97;47;98] (history_from cfg0 ops) = Some (mkpub [97;47;98] [120] 0 0 true, None).
Proof. vm_compute. reflexivity. Qed.
End C15Example.
