(** C17, completeness clause — part 4: [MemInv] through the functions that only move requests
    around: the commit-log append path, the notification drain, the last will, the shadow
    request, and the whole of [consume] ([forward_device_data] changes a group's turn and
    cursor, never its members, and returns the request with the same filter and group). *)
From Rumqtt Require Import Router.NoPanicLog.
From Rumqtt Require Import Router.Model Router.InvLemmasBase Router.Inv Router.InvLemmasPrim Router.InvLemmasSched
  Router.InvLemmasDl Router.InvLemmasConsume Router.NoPanic Router.NoPanicDevBase Router.NoPanicDevInv.
From Rumqtt Require Import Router.WindowFrame Router.Window Router.DataLogInv Router.DataLogStep Router.ExactInv Router.ExactStep1
  Router.ExactStep3 Router.RetainedBase Router.RetainedReplay Router.Wake Router.WakeConsume Router.WakePark Router.GroupWakeMem.
From Rumqtt Require Import Router.Model Router.RunDefs.
From Coq Require Import List Arith ZifyBool ZifyN ZifyNat.
Import ListNotations.

(** extras that were already there *)
Lemma mfr_absorb e st st' : mfr e st st' -> (forall id rq, In (id, rq) e -> HasReq st id rq) -> mfr [] st st'.
Proof.
  intros [A B C D E K] He. constructor; auto. intros id rq H. left. destruct (A id rq H); auto.
Qed.

(* ------------------------------------------------------------------ appending *)
Lemma append_to_commitlog_mfr st id p props st' res :
  append_to_commitlog st id p props = Ok (st', res) -> mfr [] st st'.
Proof.
  unfold append_to_commitlog, get_conn. intros H.
  destruct (slab_get (r_conns st) id) as [conn |] eqn:Hc; [| discriminate]. cbn [bind] in H.
  match type of H with (if ?b then _ else _) = _ => destruct b end; [inv_ok; apply mfr_refl |].
  apply bind_ok in H as (sp & Hsp & H). destruct sp as [[st1 p1] | reason]; [| inv_ok; apply mfr_refl].
  assert (F1 : mfr [] st st1).
  { clear H. break_all Hsp; inv_ok; try apply mfr_refl; (eapply mfr_put_conn; [exact Hc | reflexivity]). }
  destruct (negb (utf8_valid (p_topic p1))); [inv_ok; exact F1 |].
  apply bind_ok in H as ([st3 idxs] & H3 & H). apply bind_ok in H as (st4 & H4 & H). inv_ok.
  eapply mfr_trans0; [exact F1 |]. eapply mfr_trans0; [apply retain_update_mfr |].
  eapply mfr_trans0; [eapply dl_matches_mfr; eassumption | eapply append_all_mfr; eassumption].
Qed.

Lemma wake_all_mfr ns : forall st st', wake_all st ns = Ok st' -> mfr ns st st'.
Proof.
  induction ns as [| [id rq] r IH]; intros st st' H; cbn [wake_all] in H.
  - inv_ok. apply mfr_refl.
  - apply bind_ok in H as (st1 & H1 & H). apply bind_ok in H as (st2 & H2 & H).
    change ((id, rq) :: r) with ([(id, rq)] ++ r). eapply mfr_trans; [| eapply IH; exact H].
    eapply mfr_trans_r; [eapply track_mfr; eauto | eapply reschedule_mfr; eauto].
Qed.

Lemma drain_notifications_mfr st st' : drain_notifications st = Ok st' -> mfr [] st st'.
Proof.
  unfold drain_notifications. intros H. apply wake_all_mfr in H.
  eapply mfr_absorb with (e := r_notif st).
  - eapply mfr_trans_l; [apply (mfr_set_notif st []); intros x [] | exact H].
  - intros id rq Hin. right. now right.
Qed.

Lemma handle_last_will_mfr st client st' : handle_last_will st client = Ok st' -> mfr [] st st'.
Proof.
  unfold handle_last_will. intros H.
  destruct (al_get str_eqb client (r_wills st)) as [w |]; [| inv_ok; apply mfr_refl].
  match type of H with context [retain_update ?s _ _ _] => set (st1 := s) in * end.
  assert (F1 : mfr [] st st1) by (apply mfr_view; reflexivity).
  destruct (negb (utf8_valid _)); [inv_ok; exact F1 |].
  match type of H with (if ?b then _ else _) = _ => destruct b end; [inv_ok; exact F1 |].
  apply bind_ok in H as ([st3 idxs] & H3 & H). apply bind_ok in H as (st4 & H4 & H).
  eapply mfr_trans0; [exact F1 |]. eapply mfr_trans0; [apply retain_update_mfr |].
  eapply mfr_trans0; [eapply dl_matches_mfr; eassumption |].
  eapply mfr_trans0; [eapply append_all_mfr; eassumption | eapply drain_notifications_mfr; eassumption].
Qed.

Lemma retrieve_shadow_mfr st id f st' : retrieve_shadow st id f = Ok st' -> mfr [] st st'.
Proof.
  unfold retrieve_shadow. intros H.
  destruct (slab_get (r_obufs st) id); [| inv_ok; apply mfr_refl].
  destruct (al_get str_eqb f (dl_findex (r_datalog st))); [| inv_ok; apply mfr_refl].
  destruct (slab_get (dl_native (r_datalog st)) n); [| inv_ok; apply mfr_refl].
  apply bind_ok in H as (a & _ & H). destruct (last_opt (s_data a)) as [[p pr] |]; [| inv_ok; apply mfr_refl].
  apply bind_ok in H as ([st1 len] & H1 & H). apply push_out_mfr in H1.
  destruct (MAX_CHANNEL_CAPACITY - 1 <=? len); [| inv_ok; exact H1].
  apply bind_ok in H as ([st2 len2] & H2 & H). inv_ok. eapply mfr_trans0; [exact H1 | eapply push_out_mfr; eauto].
Qed.

Lemma ack_device_data_mfr st id o st' : ack_device_data st id o = Ok st' -> mfr [] st st'.
Proof.
  unfold ack_device_data, get_acks. intros H. apply bind_ok in H as (l & _ & H).
  destruct (a_committed l); [inv_ok; apply mfr_refl |]. apply bind_ok in H as ([st2 n] & H2 & H). inv_ok.
  eapply mfr_trans0; [| eapply push_out_mfr; eauto]. apply mfr_view. reflexivity.
Qed.

(* ------------------------------------------------------------------ forward_device_data *)
Lemma mems_al_set_same gs name g g2 name' :
  al_get str_eqb name gs = Some g -> g_clients g2 = g_clients g ->
  option_map g_clients (al_get str_eqb name' (al_set str_eqb name g2 gs)) = option_map g_clients (al_get str_eqb name' gs).
Proof.
  intros Hg Ec. destruct (str_eqb_spec name' name) as [-> | Hne].
  - rewrite (al_get_set_same str_eqb str_eqb_spec), Hg. cbn [option_map]. now rewrite Ec.
  - now rewrite (RetainedBase.al_get_set_other str_eqb str_eqb_spec) by exact Hne.
Qed.

Lemma fdd_push_mfr st1 id o conn sg rq2 publishes caughtup st' rq' cs :
  slab_get (r_obufs st1) id = Some o -> slab_get (r_conns st1) id = Some conn ->
  fdd_push st1 id o conn sg rq2 publishes caughtup = Ok (st', rq', cs) -> mfr [] st1 st' /\ rq' = rq2.
Proof.
  unfold fdd_push. intros Ho Hc H. cbv zeta in H.
  destruct (2 <? dr_qos rq2); [discriminate |].
  destruct (alias_forwards (c_baliases conn) (dr_qos rq2) (al_get str_eqb (dr_filter rq2) (c_subids conn)) publishes)
    as [bal forwards].
  match type of H with (match ?x with _ => _ end) = _ => destruct x as [o1 notifs] eqn:E1 end.
  apply bind_ok in H as ([st4 len] & H4 & H). apply bind_ok in H as (st5 & H5 & H).
  assert (K1 : o_client o1 = o_client o).
  { destruct (dr_qos rq2 =? 0); [inversion E1; subst; reflexivity |].
    pose proof (number_forwards_spec (dr_idx rq2) forwards o) as X. rewrite E1 in X. exact (proj1 (proj2 (X o1 notifs eq_refl))). }
  set (st2 := put_conn st1 id (set_c_baliases conn bal)) in *.
  assert (F2 : mfr [] st1 st2) by (eapply mfr_put_conn; [exact Hc | reflexivity]).
  assert (F3 : mfr [] st2 (put_obuf st2 id o1)) by (eapply mfr_put_obuf; [exact Ho | exact K1]).
  assert (F4 : mfr [] st1 st4).
  { eapply mfr_trans0; [exact F2 |]. eapply mfr_trans0; [exact F3 | eapply push_out_mfr; eauto]. }
  assert (F5 : mfr [] st4 st5).
  { destruct sg as [[name g0] |]; [| inv_ok; apply mfr_refl].
    destruct (al_get str_eqb name (r_groups st4)) as [g |] eqn:Eg; [| inv_ok; apply mfr_refl].
    apply bind_ok in H5 as ([s g'] & H5 & H6). inv_ok.
    assert (Es : mview s = mview st4 /\ g_clients g' = g_clients g).
    { unfold update_next_client in H5. break_all H5; inv_ok; split; reflexivity. }
    destruct Es as [Es Ec].
    assert (Eg' : r_groups s = r_groups st4) by (unfold mview in Es; congruence).
    eapply mfr_trans0; [apply mfr_view; exact Es |]. apply mfr_set_groups.
    - intros name'. unfold mems. rewrite Eg'. eapply mems_al_set_same; [exact Eg | exact Ec].
    - rewrite Eg'. eapply al_set_keys; exact Eg. }
  destruct (MAX_CHANNEL_CAPACITY - 1 <=? len).
  - apply bind_ok in H as ([st6 l6] & H6 & H). inv_ok. split; [| reflexivity].
    eapply mfr_trans0; [exact F4 |]. eapply mfr_trans0; [exact F5 | eapply push_out_mfr; eauto].
  - inv_ok. split; [| reflexivity]. eapply mfr_trans0; eauto.
Qed.

Theorem fdd_mfr st id rq st' rq' cs :
  forward_device_data st id rq = Ok (st', rq', cs) ->
  mfr [] st st' /\ dr_filter rq' = dr_filter rq /\ dr_group rq' = dr_group rq.
Proof.
  rewrite fdd_alt_eq. unfold fdd_alt, get_obuf. intros H.
  destruct (slab_get (r_obufs st) id) as [o |] eqn:Ho; [| discriminate]. cbn [bind] in H.
  destruct (slab_get (r_conns st) id) as [conn |] eqn:Hc; [| discriminate]. cbn [bind] in H.
  cbv zeta in H.
  match type of H with context [free_slots o] =>
    match type of H with context [dr_qos ?r =? 0] => set (rq0 := r) in * end end.
  assert (E0 : dr_filter rq0 = dr_filter rq /\ dr_group rq0 = dr_group rq).
  { unfold rq0. destruct (match dr_group rq with Some name => match al_get str_eqb name (r_groups st) with Some g => Some (name, g) | None => None end | None => None end) as [[n0 g0] |]; split; reflexivity. }
  destruct E0 as [Ef0 Eg0]. clearbody rq0.
  apply bind_ok in H as (slots0 & HS & H).
  match type of H with (if ?b then _ else _) = _ => destruct b end; [inv_ok; split; [apply mfr_refl | auto] |].
  apply bind_ok in H as ([[[st1 rq1] retained] slots2] & HR & H).
  assert (A1 : mfr [] st st1 /\ mview st1 = mview st /\ dr_filter rq1 = dr_filter rq0 /\ dr_group rq1 = dr_group rq0).
  { unfold fdd_retained in HR. destruct (dr_fwd_retained rq0).
    - apply bind_ok in HR as ([st2 rs] & HR1 & HR). cbv zeta in HR. inv_ok.
      assert (V : mview st1 = mview st) by (unfold read_retained in HR1; break_all HR1; inv_ok; reflexivity).
      split; [now apply mfr_view | auto].
    - inv_ok. split; [apply mfr_refl | auto]. }
  destruct A1 as (F1 & V1 & Ef1 & Eg1).
  apply bind_ok in H as (d & _ & H). apply bind_ok in H as ([pos from_log] & HV & H).
  destruct (match pos with Next s e => (s, e, false) | Done s e => (s, e, true) end) as [[start next] caughtup].
  match type of H with (if ?b then _ else _) = _ => destruct b end.
  { inv_ok. split; [exact F1 | split; congruence]. }
  match type of H with match ?l with [] => _ | _ => _ end = _ => destruct l eqn:Ep end.
  { inv_ok. split; [exact F1 |]. cbn [dr_filter dr_group]. split; congruence. }
  rewrite <- Ep in H.
  assert (Ho1 : slab_get (r_obufs st1) id = Some o) by (unfold mview in V1; inversion V1 as [[E1 E2 E3 E4 E5 E6 E7]]; now rewrite E4).
  assert (Hc1 : slab_get (r_conns st1) id = Some conn) by (unfold mview in V1; inversion V1 as [[E1 E2 E3 E4 E5 E6 E7]]; now rewrite E7).
  destruct (fdd_push_mfr _ _ _ _ _ _ _ _ _ _ _ Ho1 Hc1 H) as [F2 ->].
  split; [eapply mfr_trans0; eauto |]. cbn [dr_filter dr_group]. split; congruence.
Qed.

(* ------------------------------------------------------------------ consume *)
Lemma Good_fields st id rq rq' :
  dr_filter rq' = dr_filter rq -> dr_group rq' = dr_group rq -> Good st id rq -> Good st id rq'.
Proof.
  intros Ef Eg [S M]. split; [eapply shape_fields; eauto |]. rewrite Eg. exact M.
Qed.

Lemma consume_loop_mem id : forall fuel st requests skipped st',
  MemInv st -> Forall (Good st id) requests -> Forall (Good st id) skipped ->
  consume_loop fuel st id requests skipped = Ok st' -> MemInv st'.
Proof.
  induction fuel as [| fuel IH]; cbn [consume_loop]; intros st requests skipped st' HM Hr Hs H.
  - eapply MemInv_mfr; [exact HM | eapply trackv_mfr; eauto |].
    intros id' rq Hin. apply in_map_iff in Hin as (x & E & Hx). inversion E; subst.
    apply in_app_or in Hx. rewrite Forall_forall in Hr, Hs. destruct Hx; auto.
  - destruct requests as [| rq rest].
    + apply bind_ok in H as (st1 & H1 & H).
      assert (F1 : mfr [] st st1) by (destruct skipped; [eapply pause_mfr; eauto | inv_ok; apply mfr_refl]).
      eapply MemInv_mfr; [eapply MemInv_mfr0; eauto | eapply trackv_mfr; eauto |].
      intros id' rq Hin. apply in_map_iff in Hin as (x & E & Hx). inversion E; subst.
      rewrite Forall_forall in Hs. eapply Good_mfr; eauto.
    + inversion Hr as [| ? ? Hrq Hrest]; subst.
      apply bind_ok in H as ([[st1 rq'] status] & H1 & H).
      destruct (fdd_mfr _ _ _ _ _ _ H1) as (F1 & Ef & Eg).
      assert (HM1 : MemInv st1) by (eapply MemInv_mfr0; eauto).
      assert (Hrq' : Good st1 id rq') by (eapply Good_fields; eauto; eapply Good_mfr; eauto).
      assert (Hrest1 : Forall (Good st1 id) rest) by (revert Hrest; apply Forall_impl; intros a; eapply Good_mfr; eauto).
      assert (Hs1 : Forall (Good st1 id) skipped) by (revert Hs; apply Forall_impl; intros a; eapply Good_mfr; eauto).
      assert (Hall : forall st2, mfr [] st1 st2 -> forall id' rq0,
                 In (id', rq0) (map (pair id) ((rest ++ [rq']) ++ skipped)) -> Good st2 id' rq0).
      { intros st2 F2 id' rq0 Hin. apply in_map_iff in Hin as (x & E & Hx). inversion E; subst.
        eapply Good_mfr; [exact F2 |]. rewrite Forall_forall in Hrest1, Hs1.
        apply in_app_or in Hx as [Hx | Hx]; [| auto]. apply in_app_or in Hx as [Hx | [<- | []]]; auto. }
      destruct status.
      * apply bind_ok in H as (st2 & H2 & H). pose proof (pause_mfr _ _ _ _ H2) as F2.
        eapply MemInv_mfr; [eapply MemInv_mfr0; eauto | eapply trackv_mfr; eauto | now apply Hall].
      * apply bind_ok in H as (st2 & H2 & H). pose proof (pause_mfr _ _ _ _ H2) as F2.
        eapply MemInv_mfr; [eapply MemInv_mfr0; eauto | eapply trackv_mfr; eauto | now apply Hall].
      * apply bind_ok in H as (st2 & H2 & H). pose proof (park_mfr _ _ _ _ H2) as F2.
        assert (HM2 : MemInv st2).
        { eapply MemInv_mfr; [exact HM1 | exact F2 |]. intros id' rq0 [E | []]. inversion E; subst. exact Hrq'. }
        eapply IH; [exact HM2 | | | exact H].
        -- revert Hrest1. apply Forall_impl. intros a. eapply Good_mfr; eauto.
        -- revert Hs1. apply Forall_impl. intros a. eapply Good_mfr; eauto.
      * eapply IH; [exact HM1 | | exact Hs1 | exact H]. apply Forall_app. split; [exact Hrest1 | constructor; [exact Hrq' | constructor]].
      * eapply IH; [exact HM1 | exact Hrest1 | | exact H]. apply Forall_app. split; [exact Hs1 | constructor; [exact Hrq' | constructor]].
Qed.

Lemma consume_mem st st' b : MemInv st -> consume st = Ok (st', b) -> MemInv st'.
Proof.
  unfold consume. intros HM H.
  destruct (r_ready st) as [| id rq]; [now inv_ok |].
  cbn [r_trackers set_r_ready] in H.
  destruct (slab_get (r_trackers st) id) as [t |] eqn:Et; [| inv_ok; eapply MemInv_mfr0; [exact HM | apply mfr_view; reflexivity]].
  match type of H with context [slab_get (r_obufs ?s) id] => set (st2 := s) in * end.
  assert (F2 : mfr [] st st2).
  { unfold st2. eapply mfr_trans0; [apply (mfr_view st (set_r_ready st rq)); reflexivity |].
    apply (mfr_trans0 _ (put_tracker (set_r_ready st rq) id (set_tr_reqs t []))); [| apply mfr_view; reflexivity].
    apply (mfr_put_tracker (set_r_ready st rq) id t _ [] Et). cbn [set_tr_reqs tr_reqs]. intros x []. }
  assert (HM2 : MemInv st2) by (eapply MemInv_mfr0; eauto).
  assert (Hreqs : Forall (Good st2 id) (tr_reqs t)).
  { apply Forall_forall. intros rq0 Hin. eapply Good_mfr; [exact F2 |]. apply (mi_req _ HM). left. unfold treqs. now rewrite Et. }
  destruct (slab_get (r_obufs st2) id) as [o |]; [| inv_ok; exact HM2].
  apply bind_ok in H as (st3 & H3 & H). apply bind_ok in H as (u & _ & H). apply bind_ok in H as (st4 & H4 & H). inv_ok.
  pose proof (ack_device_data_mfr _ _ _ _ H3) as F3.
  eapply consume_loop_mem; [eapply MemInv_mfr0; eauto | | constructor | exact H4].
  revert Hreqs. apply Forall_impl. intros a. eapply Good_mfr; eauto.
Qed.
