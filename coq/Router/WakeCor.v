(** What follows from the wake-up discipline: completeness at quiescence (C01), no ack owed at
    quiescence (C06), resumption after an acknowledgement needs no further stimulus (C09). *)
From Coq Require Import List Arith ZifyBool ZifyN ZifyNat.
From Rumqtt Require Import Router.Inv Router.InvLemmasPrim Router.NoPanic Router.NoPanicDevBase Router.NoPanicDevInv Router.ExactLoc3.
From Rumqtt Require Import Router.WindowFrame Router.Window Router.WindowStep Router.WindowDisc Router.Acks Router.AcksRun Router.WindowResume.
From Rumqtt Require Import Router.IsolationFrame Router.IsolationServe Router.IsolationReady Router.Isolation.
From Rumqtt Require Import Router.ExactInv Router.ExactStep3.
From Rumqtt Require Import Router.Wake Router.WakePark Router.WakeThm.
From Rumqtt Require Import Router.Model Router.RunDefs.
Import ListNotations.

(* ------------------------------------------------------------------ quiescence *)
(** nothing is runnable and nothing is owed to the router: no live [Ready] connection in the
    ready queue, no event half-processed, every forwarded publish acknowledged, no
    [Unschedule] waiting in a link buffer, no link that still has to answer one with [Ready] *)
Definition quiescent (st : rstate) (owed : list N) : Prop :=
  (forall id t, In id (r_ready st) -> slab_get (r_trackers st) id = Some t -> tr_status t <> Ready) /\
  r_notif st = [] /\
  (forall id o, slab_get (r_obufs st) id = Some o ->
     o_inflight o = [] /\ ~ In NUnschedule (out_of st (o_link o)) /\ ~ In (o_link o) owed).

(** at quiescence every tracker is [Paused Caughtup] *)
Lemma quiescent_caughtup cfg st owed id t :
  RInvC cfg st -> WakeS st owed -> quiescent st owed ->
  slab_get (r_trackers st) id = Some t -> tr_status t = Paused Caughtup.
Proof.
  intros HI HW (Q1 & _ & Q3) G. specialize (HW id t G). unfold wake_ok, strict in HW.
  destruct (RInv_trk_live _ _ _ _ HI G) as [c Hc].
  destruct (RInv_live_all _ _ _ _ HI Hc) as (_ & o & _ & _ & _ & Go & _).
  destruct (Q3 _ _ Go) as (I1 & I2 & I3).
  destruct (tr_status t) as [| [ | | ]] eqn:ES; [| reflexivity | |].
  - exfalso. eapply Q1; eauto.
  - exfalso. exact (HW o Go I1).
  - exfalso. destruct (HW o Go); auto.
Qed.

Lemma RInv_acks_live cfg st id a : RInvC cfg st -> slab_get (r_acks st) id = Some a -> exists c, slab_get (r_conns st) id = Some c.
Proof. intros [] H. exact (aligned_get_rev _ _ _ _ ri_al_a H). Qed.

(** C06: at quiescence no registered ack is still waiting in any ack log *)
Theorem nothing_owed_quiescent cfg st0 ops st :
  cfg_ok cfg -> init cfg = Ok st0 -> ops_wf ops -> run st0 ops = Ok st ->
  quiescent st (owed_run st0 [] ops) ->
  forall id, pending st id = [].
Proof.
  intros Hcfg Hi Hwf Hr Q id. unfold pending. destruct (slab_get (r_acks st) id) as [a |] eqn:Ga; [| reflexivity].
  pose proof (rinv_reachable _ _ _ _ Hcfg Hi Hwf Hr) as [HI _].
  pose proof (wakes_reachable _ _ _ _ Hcfg Hi Hwf Hr) as HW.
  destruct (RInv_acks_live _ _ _ _ HI Ga) as [c Hc].
  destruct (RInv_live_all _ _ _ _ HI Hc) as (_ & _ & _ & t & _ & _ & _ & Gt).
  pose proof (quiescent_caughtup _ _ _ _ _ HI HW Q Gt) as ES.
  exact (proj2 (wakes_caughtup _ _ _ _ _ HW Gt Ga ES)).
Qed.

(* ------------------------------------------------------------------ where the one request is *)
Lemma cntw_pos f id w : (1 <= cntw f id w)%nat -> exists rq, In (id, rq) w /\ dr_filter rq = f.
Proof.
  unfold cntw. intros H. destruct (filter (wmatch f id) w) as [| [c rq] r] eqn:E; [cbn in H; lia |].
  assert (Hin : In (c, rq) (filter (wmatch f id) w)) by (rewrite E; now left).
  apply filter_In in Hin as [Hin M]. unfold wmatch, fmatch in M. cbn [fst snd] in M.
  apply andb_prop in M as [M1 M2]. apply N.eqb_eq in M1. apply str_eqb_eq in M2. subst c. eauto.
Qed.

Lemma cnti_pos f id : forall items, (1 <= cnti f id items)%nat ->
  exists i d rq, nthN items i = Some (Some d) /\ In (id, rq) (d_waiters d) /\ dr_filter rq = f.
Proof.
  induction items as [| [d |] r IH]; cbn [cnti]; intros H; [lia | |].
  - destruct (Nat.eq_dec (cntw f id (d_waiters d)) 0) as [Z | NZ].
    + destruct IH as (i & d' & rq & G & Hin & Hf); [lia |]. exists (i + 1), d', rq. split; [| auto].
      cbn [nthN]. replace (i + 1 =? 0) with false by lia. replace (i + 1 - 1) with i by lia. exact G.
    + destruct (cntw_pos f id (d_waiters d)) as (rq & Hin & Hf); [lia |]. exists 0, d, rq. auto.
  - destruct IH as (i & d' & rq & G & Hin & Hf); [exact H |]. exists (i + 1), d', rq. split; [| auto].
    cbn [nthN]. replace (i + 1 =? 0) with false by lia. replace (i + 1 - 1) with i by lia. exact G.
Qed.

(** C01: at quiescence, for every live connection: the tracker holds nothing, no ack is
    committed, and every subscription has its one data request ([CNT] = 1, all of it in the
    waiter lists) parked on the log it reads with the cursor at the END of that log — nothing
    that was appended is still to be forwarded to it (a request served through a shared group
    excepted: its cursor is the group's) *)
Theorem complete_quiescent cfg st0 ops st :
  cfg_ok cfg -> 1 <= cf_max_outgoing cfg < B62 -> init cfg = Ok st0 -> ops_wf ops ->
  run st0 ops = Ok st -> Bounded st ->
  quiescent st (owed_run st0 [] ops) ->
  forall id c, slab_get (r_conns st) id = Some c ->
  exists t a,
    slab_get (r_trackers st) id = Some t /\ slab_get (r_acks st) id = Some a /\
    tr_status t = Paused Caughtup /\ tr_reqs t = [] /\ a_committed a = [] /\
    forall f, set_mem str_eqb f (c_subs c) = true ->
      cnti f id (items_of st) = 1%nat /\
      exists i d rq,
        nget (r_datalog st) i = Some d /\ In (id, rq) (d_waiters d) /\ dr_filter rq = f /\ dr_idx rq = i /\
        (dr_group rq = None -> snd (dr_cursor rq) = end_of (d_log d)).
Proof.
  intros Hcfg Hm Hi Hwf Hr HB Q id c Hc.
  pose proof (rinv_reachable _ _ _ _ Hcfg Hi Hwf Hr) as [HI _].
  destruct (wake_reachable _ _ _ _ Hcfg Hm Hi Hwf Hr HB) as [HW HP].
  destruct (RInv_live_all _ _ _ _ HI Hc) as (_ & _ & a & t & _ & _ & Ga & Gt).
  pose proof (quiescent_caughtup _ _ _ _ _ HI HW Q Gt) as ES.
  destruct (wakes_caughtup _ _ _ _ _ HW Gt Ga ES) as [ER EA].
  exists t, a. repeat (split; [assumption |]). intros f Hf.
  pose proof (request_location _ _ _ _ Hcfg Hi Hwf Hr id c f Hc) as L. rewrite Hf in L.
  destruct Q as (_ & QN & _). unfold CNT, NoPanicDevInv.treqs in L. rewrite Gt, ER, QN in L.
  rewrite cnt_nil, !cntw_nil in L.
  assert (L1 : cnti f id (items_of st) = 1%nat) by lia. split; [exact L1 |].
  destruct (cnti_pos f id (items_of st)) as (i & d & rq & G & Hin & Hfl); [lia |].
  assert (Gd : nget (r_datalog st) i = Some d) by (unfold nget, slab_get, items_of in *; now rewrite G).
  exists i, d, rq. split; [exact Gd | split; [exact Hin | split; [exact Hfl |]]].
  specialize (HP _ _ Gd). rewrite Forall_forall in HP. exact (HP _ Hin).
Qed.

(* ------------------------------------------------------------------ C09: after the wake-up, served without stimulus *)
Lemma ahead_nil w l : ahead w l = [] -> In w l -> exists rest, l = w :: rest.
Proof.
  destruct l as [| x r]; cbn [ahead In]; [tauto |]. destruct (N.eqb_spec x w) as [-> | Hne]; [eauto | discriminate].
Qed.
Lemma ahead_lt w l : In w l -> (length (ahead w l) < length l)%nat.
Proof.
  induction l as [| x r IH]; cbn [ahead In length]; [tauto |].
  destruct (N.eqb_spec x w) as [-> | Hne]; cbn [length]; [lia |]. intros [E | H]; [congruence |]. specialize (IH H). lia.
Qed.

Lemma consume_other_tracker st orc st1 out w :
  step_with st orc OpConsume = Ok (st1, out) -> (forall rest, r_ready st <> w :: rest) ->
  slab_get (r_trackers st1) w = slab_get (r_trackers st) w.
Proof.
  intros H Hna. unfold step_with in H. apply bind_ok in H as ([s1 o1] & H1 & H).
  destruct (r_oracle s1); [| discriminate]. inv_ok. cbn [step] in H1.
  apply bind_ok in H1 as ([s2 b] & H2 & H1). inv_ok. apply consume_fq in H2. rsimpl.
  destruct (r_ready st) as [| x rest] eqn:ER; [now subst |].
  destruct H2 as [_ Q]. assert (Hne : w <> x) by (intros ->; eapply Hna; eauto).
  exact (q_trk _ _ _ (Q w Hne)).
Qed.

(** a connection that is Ready and queued: after exactly as many [consume] calls as there are
    entries ahead of it in the ready queue (fewer than the queue length), whatever else is in
    the queue, it is at the head with its tracker untouched, and that [consume] hands ALL its
    data requests to the sweep loop *)
Theorem served_after_ahead : forall ops st id t st2,
  RInv st -> slab_get (r_trackers st) id = Some t -> In id (r_ready st) ->
  Forall (fun x : list oracle * rop => snd x = OpConsume) ops ->
  length ops = length (ahead id (r_ready st)) ->
  run st ops = Ok st2 ->
  exists rest o,
    r_ready st2 = id :: rest /\ slab_get (r_trackers st2) id = Some t /\ slab_get (r_obufs st2) id = Some o /\
    consume st2 =
      (let s2 := set_r_ready (put_tracker (set_r_ready st2 rest) id (set_tr_reqs t [])) (rest ++ [id]) in
       do s3 <- ack_device_data s2 id o;
       do _ <- (match slab_get (r_conns s3) id with Some _ => Ok tt | None => Panic P_OBUF_INDEX end);
       do s4 <- consume_loop (N.to_nat MAX_SCHEDULE_ITERATIONS) s3 id (tr_reqs t) [];
       Ok (s4, true)).
Proof.
  induction ops as [| [orc o] ops IH]; intros st id t st2 HI G Hin Hall Hlen Hr; cbn [run length] in *.
  - inv_ok. symmetry in Hlen. apply length_zero_iff_nil in Hlen.
    destruct (ahead_nil _ _ Hlen Hin) as [rest ER].
    destruct HI as [HI _]. destruct (RInv_trk_live _ _ _ _ HI G) as [c Hc].
    destruct (RInv_live_all _ _ _ _ HI Hc) as (_ & ob & _ & _ & _ & Go & _).
    exists rest, ob. split; [exact ER | split; [exact G | split; [exact Go |]]].
    now apply consume_takes_all.
  - inversion Hall as [| ? ? Ho Hall']; subst. cbn [snd] in Ho. subst o.
    destruct (step_with st orc OpConsume) as [[st1 out] | e | tt] eqn:Es; try discriminate.
    assert (Hna : forall rest, r_ready st <> id :: rest).
    { intros rest ER. rewrite ER in Hlen. cbn [ahead] in Hlen. rewrite N.eqb_refl in Hlen. discriminate. }
    assert (Hna' : ~ addressed st id OpConsume) by (intros [rest ER]; eapply Hna; eauto).
    destruct (c14_ready_progress_thm _ _ _ _ _ _ Hin Hna' Es) as [Hin1 EA].
    destruct (rinv_step st orc OpConsume st1 out HI Logic.I Es) as [HI1 _].
    eapply (IH st1); eauto.
    + rewrite (consume_other_tracker _ _ _ _ _ Es Hna). exact G.
    + rewrite EA. destruct (ahead id (r_ready st)); cbn [length tl] in *; [discriminate | lia].
Qed.

(** C09 (resume): the connection was [Paused InflightFull] (or Caughtup, or Ready and queued);
    the DeviceData event that processes an in-order PUBACK / PUBREC — and does not end in a
    disconnection — leaves it Ready and queued ([resume_after_ack]); from there nothing but
    [consume] calls — no further packet, ack or Ready from anybody — gets it served, after
    fewer calls than the queue is long, with all its data requests *)
Theorem resume_no_stimulus st id inc b s fls p pkid o h r t st' :
  slab_get (r_ibufs st) id = Some inc -> nthN (r_links st) (i_link inc) = Some b ->
  processed id (i_client inc) (link_put st (i_link inc) (set_lk_in b [])) flags0 (lk_in b) s fls p ->
  p = PPubAck pkid \/ p = PPubRec pkid ->
  slab_get (r_obufs s) id = Some o -> o_inflight o = h :: r -> pkid = pkid_of h ->
  slab_get (r_trackers s) id = Some t ->
  tr_status t = Paused InflightFull \/ tr_status t = Paused Caughtup \/ (tr_status t = Ready /\ In id (r_ready s)) ->
  handle_device_payload st id = Ok st' -> slab_get (r_obufs st') id <> None ->
  RInv st' ->
  exists t', slab_get (r_trackers st') id = Some t' /\ tr_status t' = Ready /\ In id (r_ready st') /\
    (length (ahead id (r_ready st')) < length (r_ready st'))%nat /\
    forall ops st2,
      Forall (fun x : list oracle * rop => snd x = OpConsume) ops ->
      length ops = length (ahead id (r_ready st')) ->
      run st' ops = Ok st2 ->
      exists rest o2,
        r_ready st2 = id :: rest /\ slab_get (r_trackers st2) id = Some t' /\ slab_get (r_obufs st2) id = Some o2 /\
        consume st2 =
          (let s2 := set_r_ready (put_tracker (set_r_ready st2 rest) id (set_tr_reqs t' [])) (rest ++ [id]) in
           do s3 <- ack_device_data s2 id o2;
           do _ <- (match slab_get (r_conns s3) id with Some _ => Ok tt | None => Panic P_OBUF_INDEX end);
           do s4 <- consume_loop (N.to_nat MAX_SCHEDULE_ITERATIONS) s3 id (tr_reqs t') [];
           Ok (s4, true)).
Proof.
  intros Gi Hb Hp Hpk Go Hi Hk Gt Hs Hd Hlive HI.
  destruct (resume_after_ack _ _ _ _ _ _ _ _ _ _ _ _ _ Gi Hb Hp Hpk Go Hi Hk Gt Hs Hd Hlive) as (t' & G' & ES & Hin).
  exists t'. split; [exact G' | split; [exact ES | split; [exact Hin | split; [now apply ahead_lt |]]]].
  intros ops st2 Hall Hlen Hr. eapply served_after_ahead; eauto.
Qed.

(* ------------------------------------------------------------------ the invariant of DESIGN §7 (RInv 3), for every run *)
(** no lost wake-up: in every reachable state, a live connection with a data request in its
    tracker or a committed ack still to be flushed is Ready and queued, or is waiting for an
    acknowledgement its client owes (inflight buffer not empty), or is waiting for the Ready its
    link owes (the [Unschedule] is still in the link's buffer, or the link has taken it out —
    [owes_ready], the ghost computed from the op history — and has not sent Ready since);
    a connection that is [Paused Caughtup] holds no request and no committed ack *)
Theorem no_lost_wakeup cfg st0 ops st :
  cfg_ok cfg -> init cfg = Ok st0 -> ops_wf ops -> run st0 ops = Ok st ->
  forall id t a o,
    slab_get (r_trackers st) id = Some t -> slab_get (r_acks st) id = Some a -> slab_get (r_obufs st) id = Some o ->
    (tr_reqs t <> [] \/ a_committed a <> [] ->
       (tr_status t = Ready /\ In id (r_ready st)) \/
       (tr_status t = Paused InflightFull /\ o_inflight o <> []) \/
       (tr_status t = Paused Busy /\
        (In NUnschedule (out_of st (o_link o)) \/ owes_ready st0 ops (o_link o) = true))) /\
    (tr_status t = Paused Caughtup -> tr_reqs t = [] /\ a_committed a = []) /\
    (tr_status t = Ready -> In id (r_ready st)) /\
    (tr_status t = Paused InflightFull -> o_inflight o <> []) /\
    (tr_status t = Paused Busy ->
       In NUnschedule (out_of st (o_link o)) \/ owes_ready st0 ops (o_link o) = true).
Proof.
  intros Hcfg Hi Hwf Hr id t a o G1 G2 G3.
  pose proof (wakes_reachable _ _ _ _ Hcfg Hi Hwf Hr) as HW.
  assert (OW : forall k, In k (owed_run st0 [] ops) -> owes_ready st0 ops k = true)
    by (intros k Hk; unfold owes_ready; now apply set_mem_In).
  split; [| split; [| split; [| split]]].
  - intros P. destruct (wakes_pending _ _ _ _ _ _ HW G1 G2 G3 P) as [H | [H | [H1 [H2 | H2]]]]; auto.
    right. right. split; [exact H1 | right; now apply OW].
  - intros ES. eapply wakes_caughtup; eauto.
  - intros ES. specialize (HW id t G1). unfold wake_ok, strict in HW. now rewrite ES in HW.
  - intros ES. specialize (HW id t G1). unfold wake_ok, strict in HW. rewrite ES in HW. eauto.
  - intros ES. specialize (HW id t G1). unfold wake_ok, strict in HW. rewrite ES in HW.
    destruct (HW o G3); auto.
Qed.

(** a parked request is genuinely caught up *)
Theorem parked_at_end cfg st0 ops st :
  cfg_ok cfg -> 1 <= cf_max_outgoing cfg < B62 -> init cfg = Ok st0 -> ops_wf ops ->
  run st0 ops = Ok st -> Bounded st ->
  forall i d id rq, nget (r_datalog st) i = Some d -> In (id, rq) (d_waiters d) ->
    dr_idx rq = i /\ (dr_group rq = None -> snd (dr_cursor rq) = end_of (d_log d)).
Proof.
  intros Hcfg Hm Hi Hwf Hr HB i d id rq Gd Hin.
  destruct (wake_reachable _ _ _ _ Hcfg Hm Hi Hwf Hr HB) as [_ HP].
  specialize (HP _ _ Gd). rewrite Forall_forall in HP. exact (HP _ Hin).
Qed.
