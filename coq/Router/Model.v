(** M-ROUTER: executable model of the routing core, one event at a time.
    Written after rumqttd/src/router/{routing,scheduler,logs,iobufs,waiters,shared_subs,
    graveyard,connection}.rs.  Every Rust panic site is an explicit [Panic tag].
    [Err tt] is used for one thing only: the oracle handed to the step is missing or not
    admissible (not a permutation of the set the model computes itself / index out of range).
    Not modelled: meters, alert log, ConnectionEvents strings, tracing, message expiry,
    [custom_segment], features validate-tenant-prefix / allow-duplicate-clientid. *)
From Rumqtt Require Export Router.Types Gen.Params.

Definition R := Outcome unit.

(* panic tags (routing.rs line numbers of the pinned commit) *)
Definition P_TRACKER : N := 101.     (* scheduler: trackers.get_mut(id).unwrap()        scheduler.rs:48-64 *)
Definition P_PAUSE_Q : N := 102.     (* assert_eq!(readyqueue.pop_back(), Some(id))     scheduler.rs:71 *)
Definition P_DBG_READY : N := 103.   (* debug_assert!(status == Paused(Busy)) in try_ready *)
Definition P_SLAB_ALIGN : N := 104.  (* assert_eq!(ibufs/obufs/ackslog/trackers.insert, id) routing.rs:358-365 *)
Definition P_DBG_DUP : N := 105.     (* debug_assert!(check_tracker_duplicates(..).is_none()) *)
Definition P_UNWRAP : N := 106.      (* get_mut(id).unwrap() on connections/ibufs/obufs/ackslog *)
Definition P_REMOVE : N := 107.      (* Slab::remove on a vacant key (handle_disconnection) *)
Definition P_GROUP : N := 108.       (* expect("group must exists")                      routing.rs:512 *)
Definition P_NATIVE : N := 109.      (* datalog.native.get(idx).unwrap() *)
Definition P_OBUF_INDEX : N := 110.  (* self.obufs[id] (Shadow), self.connections[id] (consume) *)
Definition P_FREE_SLOTS : N := 111.  (* MAX_INFLIGHT - inflight_buffer.len() *)
Definition P_MOD_ZERO : N := 112.    (* % self.clients.len() with no clients *)
Definition P_QOS : N := 113.         (* protocol::qos(qos).unwrap() *)
Definition P_LINK : N := 114.        (* model-internal: link table index (never reachable) *)
Definition P_SUB : N := 115.         (* usize subtraction underflow (inflight_slots -= ..) *)

Definition RC_MALFORMED : N := 129.        (* DisconnectReasonCode::MalformedPacket   0x81 *)
Definition RC_PROTOCOL : N := 130.         (* ProtocolError                            0x82 *)
Definition RC_ALIAS_INVALID : N := 148.    (* TopicAliasInvalid                        0x94 *)
Definition TOPIC_ALIAS_MAX : N := 4096.
Definition MAX_COUNT : N := 100.           (* DataRequest.max_count (unused by the router) *)

Definition cursor_eqb (a b : cursor) : bool := (fst a =? fst b) && (snd a =? snd b).
Definition ostr_eqb (a b : option str) : bool :=
  match a, b with
  | Some x, Some y => str_eqb x y
  | None, None => true
  | _, _ => false
  end.

(* ------------------------------------------------------------------ link buffers *)
Definition link_get (st : rstate) (k : N) : R linkbuf :=
  match nthN (r_links st) k with Some b => Ok b | None => Panic P_LINK end.
Definition link_put (st : rstate) (k : N) (b : linkbuf) : rstate :=
  set_r_links st (setN (r_links st) k b).
(** push notifications at the back of a connection's outgoing data buffer; returns the new length *)
Definition push_out (st : rstate) (k : N) (ns : list notification) : R (rstate * N) :=
  do b <- link_get st k;
  let out := lk_out b ++ ns in
  Ok (link_put st k (set_lk_out b out), lenN out).

(* ------------------------------------------------------------------ scheduler.rs *)
Definition try_ready (dbg : bool) (t : tracker) (why : sched_reason) : R (tracker * bool) :=
  match tr_status t with
  | Ready => Ok (t, false)
  | Paused p =>
      let ready := Ok (set_tr_status t Ready, true) in
      match why with
      | SInit =>
          if dbg && negb (match p with Busy => true | _ => false end) then Panic P_DBG_READY else ready
      | SReady =>
          match p with Busy => ready | _ => Ok (t, false) end
      | SNewFilter | SFreshData =>
          match p with Caughtup => ready | _ => Ok (t, false) end
      | SIncomingAck =>
          match p with Busy => Ok (t, false) | _ => ready end
      end
  end.

Definition get_tracker (st : rstate) (id : N) : R tracker :=
  match slab_get (r_trackers st) id with Some t => Ok t | None => Panic P_TRACKER end.
Definition put_tracker (st : rstate) (id : N) (t : tracker) : rstate :=
  set_r_trackers st (slab_put (r_trackers st) id t).

Definition reschedule (st : rstate) (id : N) (why : sched_reason) : R rstate :=
  do t <- get_tracker st id;
  do (t', woke) <- try_ready (cf_debug_assertions (r_cfg st)) t why;
  let st1 := put_tracker st id t' in
  Ok (if woke then set_r_ready st1 (r_ready st1 ++ [id]) else st1).

Definition track (st : rstate) (id : N) (rq : drequest) : R rstate :=
  do t <- get_tracker st id;
  Ok (put_tracker st id (set_tr_reqs t (tr_reqs t ++ [rq]))).
Definition trackv (st : rstate) (id : N) (rqs : list drequest) : R rstate :=
  do t <- get_tracker st id;
  Ok (put_tracker st id (set_tr_reqs t (tr_reqs t ++ rqs))).
Definition untrack (st : rstate) (id : N) (f : str) : R rstate :=
  do t <- get_tracker st id;
  Ok (put_tracker st id (set_tr_reqs t (filter (fun r => negb (str_eqb (dr_filter r) f)) (tr_reqs t)))).

Fixpoint split_last_n (l : list N) : option (list N * N) :=
  match l with
  | [] => None
  | x :: r => match split_last_n r with
              | None => Some ([], x)
              | Some (i, a) => Some (x :: i, a)
              end
  end.

Definition pause (st : rstate) (id : N) (why : pause_reason) : R rstate :=
  match split_last_n (r_ready st) with
  | Some (init, last) =>
      if last =? id then
        let st1 := set_r_ready st init in
        do t <- get_tracker st1 id;
        Ok (put_tracker st1 id (set_tr_status t (Paused why)))
      else Panic P_PAUSE_Q
  | None => Panic P_PAUSE_Q
  end.

(** check_tracker_duplicates: is some filter repeated among the tracker's requests *)
Fixpoint has_dup_idx (seen : list str) (l : list drequest) : bool :=
  match l with
  | [] => false
  | r :: l' => set_mem str_eqb (dr_filter r) seen || has_dup_idx (dr_filter r :: seen) l'
  end.
Definition dbg_no_dups (st : rstate) (id : N) : R unit :=
  if cf_debug_assertions (r_cfg st) then
    do t <- get_tracker st id;
    if has_dup_idx [] (tr_reqs t) then Panic P_DBG_DUP else Ok tt
  else Ok tt.

(* ------------------------------------------------------------------ waiters.rs *)
(** VecDeque::swap_remove_back(i): element i is replaced by the last one *)
Fixpoint swap_remove_back {X} (l : list X) (i : N) {struct l} : option (X * list X) :=
  match l with
  | [] => None
  | x :: r =>
      if i =? 0 then
        match rev r with
        | [] => Some (x, [])
        | last :: mid_rev => Some (x, last :: rev mid_rev)
        end
      else match swap_remove_back r (i - 1) with
           | Some (y, r') => Some (y, x :: r')
           | None => None
           end
  end.
Fixpoint position_id (l : list (N * drequest)) (id : N) (i : N) : option N :=
  match l with
  | [] => None
  | (c, _) :: r => if c =? id then Some i else position_id r id (i + 1)
  end.
(** Waiters::remove: repeatedly swap_remove_back the first entry of this connection *)
Fixpoint waiters_remove (fuel : nat) (w : list (N * drequest)) (id : N) : list (N * drequest) * list drequest :=
  match fuel with
  | O => (w, [])
  | S fuel' =>
      match position_id w id 0 with
      | None => (w, [])
      | Some i =>
          match swap_remove_back w i with
          | None => (w, [])
          | Some ((_, rq), w') =>
              let '(w'', rqs) := waiters_remove fuel' w' id in (w'', rq :: rqs)
          end
      end
  end.

(* ------------------------------------------------------------------ logs.rs *)
Definition native_get (dl : datalog) (idx : N) : R data :=
  match slab_get (dl_native dl) idx with Some d => Ok d | None => Panic P_NATIVE end.

Definition data_new (cfg : config) (f : str) : R data :=
  do l <- @new pubdata (cf_seg_size cfg) (cf_seg_count cfg);     (* CommitLog::new(..).unwrap() *)
  Ok {| d_filter := f; d_log := l; d_waiters := [] |}.

Definition topic_matches (t f : str) : R bool := matches t f.

(** the set DataLog::matches computes on a cache miss, in [filter_indexes] insertion order *)
Fixpoint matching_idxs (t : str) (fi : list (str * N)) : R (list N) :=
  match fi with
  | [] => Ok []
  | (f, i) :: r =>
      do b <- topic_matches t f;
      do rest <- matching_idxs t r;
      Ok (if b then i :: rest else rest)
  end.

Fixpoint nodupN (l : list N) : bool :=
  match l with [] => true | x :: r => negb (set_mem N.eqb x r) && nodupN r end.
Definition perm_ofN (cand base : list N) : bool :=
  (lenN cand =? lenN base) && nodupN cand && forallb (fun x => set_mem N.eqb x base) cand.
Fixpoint nodupS (l : list str) : bool :=
  match l with [] => true | x :: r => negb (set_mem str_eqb x r) && nodupS r end.
Definition perm_ofS (cand base : list str) : bool :=
  (lenN cand =? lenN base) && nodupS cand && forallb (fun x => set_mem str_eqb x base) cand.

(** DataLog::matches(topic): cached list, or the matching filter indices in the order the
    HashMap iteration produced them (oracle), cached when non-empty. *)
Definition dl_matches (st : rstate) (t : str) : R (rstate * list N) :=
  let dl := r_datalog st in
  match al_get str_eqb t (dl_pfilters dl) with
  | Some v => Ok (st, v)
  | None =>
      do base <- matching_idxs t (dl_findex dl);
      do (v, orc) <-
        (match base with
         | [] | [_] => Ok (base, r_oracle st)              (* order is forced *)
         | _ => match r_oracle st with
                | OMatches v :: orc => if perm_ofN v base then Ok (v, orc) else Err tt
                | _ => Err tt
                end
         end);
      let dl' := match v with
                 | [] => dl
                 | _ => set_dl_pfilters dl (al_set str_eqb t v (dl_pfilters dl))
                 end in
      Ok (set_r_oracle (set_r_datalog st dl') orc, v)
  end.

Fixpoint pfilters_add (idx : N) (f : str) (pf : list (str * list N)) : R (list (str * list N)) :=
  match pf with
  | [] => Ok []
  | (t, v) :: r =>
      do b <- topic_matches t f;
      do r' <- pfilters_add idx f r;
      Ok ((t, if b then v ++ [idx] else v) :: r')
  end.

(** DataLog::next_native_offset(filter) -> (filter_idx, log tail) ; creates the log on first use *)
Definition next_native_offset (st : rstate) (f : str) : R (rstate * N * cursor) :=
  let dl := r_datalog st in
  match al_get str_eqb f (dl_findex dl) with
  | Some idx =>
      do d <- native_get dl idx;
      do c <- next_offset (d_log d);
      Ok (st, idx, c)
  | None =>
      do d <- data_new (r_cfg st) f;
      let '(native', idx) := slab_insert (dl_native dl) d in
      do pf <- pfilters_add idx f (dl_pfilters dl);
      let dl' := {| dl_native := native'; dl_findex := al_set str_eqb f idx (dl_findex dl);
                    dl_retained := dl_retained dl; dl_pfilters := pf |} in
      do c <- next_offset (d_log d);
      Ok (set_r_datalog st dl', idx, c)
  end.

(** Data::append: log.append, then move every parked waiter to [notifications] *)
Definition data_append (st : rstate) (idx : N) (item : pubdata) : R rstate :=
  let dl := r_datalog st in
  do d <- native_get dl idx;
  do (l', _off) <- append pubdata_size (d_log d) item;
  let d' := {| d_filter := d_filter d; d_log := l'; d_waiters := [] |} in
  let dl' := set_dl_native dl (slab_put (dl_native dl) idx d') in
  Ok (set_r_notif (set_r_datalog st dl') (r_notif st ++ d_waiters d)).

Fixpoint append_all (st : rstate) (idxs : list N) (item : pubdata) : R rstate :=
  match idxs with
  | [] => Ok st
  | i :: r => do st1 <- data_append st i item; append_all st1 r item
  end.

Definition park (st : rstate) (id : N) (rq : drequest) : R rstate :=
  let dl := r_datalog st in
  do d <- native_get dl (dr_idx rq);
  let d' := set_d_waiters d (d_waiters d ++ [(id, rq)]) in
  Ok (set_r_datalog st (set_dl_native dl (slab_put (dl_native dl) (dr_idx rq) d'))).

(** DataLog::clean(id): remove the connection from every log's waiters, in slab order *)
Fixpoint clean_items (items : list (option data)) (id : N) : list (option data) * list drequest :=
  match items with
  | [] => ([], [])
  | None :: r => let '(r', q) := clean_items r id in (None :: r', q)
  | Some d :: r =>
      let '(w', q1) := waiters_remove (S (length (d_waiters d))) (d_waiters d) id in
      let '(r', q2) := clean_items r id in
      (Some (set_d_waiters d w') :: r', q1 ++ q2)
  end.
Definition dl_clean (dl : datalog) (id : N) : datalog * list drequest :=
  let '(items, q) := clean_items (sl_items (dl_native dl)) id in
  (set_dl_native dl {| sl_items := items; sl_free := sl_free (dl_native dl) |}, q).

(** DataLog::remove_waiters_for_id(id, filter): the parked request of this connection for
    exactly this subscription filter, searched over all logs in slab order *)
Fixpoint position_req (l : list (N * drequest)) (id : N) (f : str) (i : N) : option N :=
  match l with
  | [] => None
  | (c, rq) :: r => if (c =? id) && str_eqb (dr_filter rq) f then Some i else position_req r id f (i + 1)
  end.
Fixpoint remove_waiter_items (items : list (option data)) (id : N) (f : str) : list (option data) :=
  match items with
  | [] => []
  | None :: r => None :: remove_waiter_items r id f
  | Some d :: r =>
      match position_req (d_waiters d) id f 0 with
      | Some i =>
          match swap_remove_back (d_waiters d) i with
          | Some (_, w') => Some (set_d_waiters d w') :: r
          | None => Some d :: r
          end
      | None => Some d :: remove_waiter_items r id f
      end
  end.
Definition remove_waiters_for_id (st : rstate) (id : N) (f : str) : R rstate :=
  let dl := r_datalog st in
  Ok (set_r_datalog st (set_dl_native dl
        {| sl_items := remove_waiter_items (sl_items (dl_native dl)) id f;
           sl_free := sl_free (dl_native dl) |})).

Fixpoint retained_matching (f : str) (m : list (str * pubdata)) : R (list str) :=
  match m with
  | [] => Ok []
  | (t, _) :: r =>
      do b <- topic_matches t f;
      do rest <- retained_matching f r;
      Ok (if b then t :: rest else rest)
  end.
Fixpoint lookup_all (m : list (str * pubdata)) (ts : list str) : list pubdata :=
  match ts with
  | [] => []
  | t :: r => match al_get str_eqb t m with
              | Some d => d :: lookup_all m r
              | None => lookup_all m r
              end
  end.
(** read_retained_messages(filter): matching retained publishes, HashMap order (oracle) *)
Definition read_retained (st : rstate) (f : str) : R (rstate * list pubdata) :=
  let m := dl_retained (r_datalog st) in
  do base <- retained_matching f m;
  match base with
  | [] | [_] => Ok (st, lookup_all m base)
  | _ => match r_oracle st with
         | ORetained v :: orc =>
             if perm_ofS v base then Ok (set_r_oracle st orc, lookup_all m v) else Err tt
         | _ => Err tt
         end
  end.

(* ------------------------------------------------------------------ iobufs.rs *)
Definition free_slots (o : outgoing) : R N :=
  let n := lenN (o_inflight o) in
  if n <=? MAX_INFLIGHT then Ok (MAX_INFLIGHT - n) else Panic P_FREE_SLOTS.

(** push_forwards for qos > 0: number the publishes, record them in the inflight buffer *)
Fixpoint number_forwards (o : outgoing) (fidx : N) (fw : list (option cursor * publish * option pprops))
  : outgoing * list notification :=
  match fw with
  | [] => (o, [])
  | (c, p, pr) :: r =>
      let pk := o_last o + 1 in
      let o1 := {| o_client := o_client o; o_link := o_link o;
                   o_inflight := o_inflight o ++ [(pk, fidx, c)];
                   o_pubrels := o_pubrels o;
                   o_last := if pk =? MAX_PKID then 0 else pk |} in
      let '(o2, ns) := number_forwards o1 fidx r in
      (o2, NForward c (set_p_pkid p pk) pr :: ns)
  end.

(** register_ack: pops the head iff it carries this pkid; an ack for anything else leaves the
    window as it is (the unacknowledged head must survive into the saved session) *)
Definition register_ack (o : outgoing) (pkid : N) : outgoing * bool :=
  match o_inflight o with
  | [] => (o, false)
  | (h, _, _) :: r => if pkid =? h then (set_o_inflight o r, true) else (o, false)
  end.
Definition register_pubcomp (o : outgoing) (pkid : N) : outgoing * bool :=
  match o_pubrels o with
  | [] => (o, false)
  | h :: r => if pkid =? h then (set_o_pubrels o r, true) else (o, false)
  end.
(** retransmission_map: per filter_idx, the cursor of the first inflight entry that has one *)
Fixpoint retransmission_map (infl : list (N * N * option cursor)) (acc : list (N * cursor)) : list (N * cursor) :=
  match infl with
  | [] => acc
  | (_, fidx, c) :: r =>
      match al_get N.eqb fidx acc, c with
      | None, Some cu => retransmission_map r (acc ++ [(fidx, cu)])
      | _, _ => retransmission_map r acc
      end
  end.

(* ------------------------------------------------------------------ shared_subs.rs *)
Definition group_remove_client (g : group) (c : str) : group :=
  let cl := filter (fun x => negb (str_eqb x c)) (g_clients g) in
  {| g_clients := cl;
     g_idx := match cl with [] => g_idx g | _ => g_idx g mod lenN cl end;
     g_cursor := g_cursor g; g_strategy := g_strategy g |}.
Fixpoint groups_remove_client (gs : list (str * group)) (c : str) : list (str * group) :=
  match gs with
  | [] => []
  | (n, g) :: r =>
      let g' := group_remove_client g c in
      match g_clients g' with
      | [] => groups_remove_client r c
      | _ => (n, g') :: groups_remove_client r c
      end
  end.
Definition current_client (g : group) : option str := nthN (g_clients g) (g_idx g).

Definition update_next_client (st : rstate) (g : group) : R (rstate * group) :=
  let n := lenN (g_clients g) in
  match g_strategy g with
  | RoundRobin =>
      if n =? 0 then Panic P_MOD_ZERO else Ok (st, set_g_idx g ((g_idx g + 1) mod n))
  | Random =>
      if n =? 0 then Panic P_MOD_ZERO    (* gen_range(0..0) panics *)
      else match r_oracle st with
           | ORandom i :: orc => if i <? n then Ok (set_r_oracle st orc, set_g_idx g i) else Err tt
           | _ => Err tt
           end
  | Sticky => Ok (st, g)
  end.

(* ------------------------------------------------------------------ connection.rs *)
Definition baliases_new (max : N) : baliases :=
  {| ba_map := []; ba_used := fst (slab_insert slab_empty tt); ba_max := max |}.
Definition ba_remove_alias (b : baliases) (f : str) : baliases :=
  match al_get str_eqb f (ba_map b) with
  | Some a =>
      {| ba_map := al_remove str_eqb f (ba_map b);
         ba_used := match slab_remove (ba_used b) a with Some (s, _) => s | None => ba_used b end;
         ba_max := ba_max b |}
  | None => b
  end.
Definition ba_set_new_alias (b : baliases) (f : str) : baliases * option N :=
  let '(used, a) := slab_insert (ba_used b) tt in
  if ba_max b <? a then (b, None)      (* inserted then removed again: same free list *)
  else ({| ba_map := al_set str_eqb f a (ba_map b); ba_used := used; ba_max := ba_max b |}, Some a).

(* ------------------------------------------------------------------ routing.rs helpers *)
Definition validate_clientid (c : str) : bool :=
  negb (contains PLUS c || contains DOLLAR c || contains HASH c || contains SLASH c).

Fixpoint starts_with (pre s : str) : bool :=
  match pre, s with
  | [], _ => true
  | a :: p', b :: s' => (a =? b) && starts_with p' s'
  | _, [] => false
  end.
Definition S_SHARE : str := [36; 115; 104; 97; 114; 101].            (* "$share" *)
Definition S_SHARE_SLASH : str := S_SHARE ++ [47].                   (* "$share/" *)
Fixpoint strip_prefix (pre s : str) : option str :=
  match pre, s with
  | [], _ => Some s
  | a :: p', b :: s' => if a =? b then strip_prefix p' s' else None
  | _, [] => None
  end.
Fixpoint split_once_slash (s : str) : option (str * str) :=
  match s with
  | [] => None
  | c :: r => if c =? SLASH then Some ([], r)
              else match split_once_slash r with
                   | Some (a, b) => Some (c :: a, b)
                   | None => None
                   end
  end.
(** extract_group("$share/<name>/<path>") = Some (<name>/<path>, path): the group is keyed by
    share name and topic filter *)
Definition extract_group (f : str) : option (str * str) :=
  match strip_prefix S_SHARE_SLASH f with
  | Some s => match split_once_slash s with
              | Some (_, path) => Some (s, path)
              | None => None
              end
  | None => None
  end.
Definition validate_subscription (path : str) : bool :=
  negb (starts_with [DOLLAR] path && negb (starts_with S_SHARE path)).

Definition get_conn (st : rstate) (id : N) : R connection :=
  match slab_get (r_conns st) id with Some c => Ok c | None => Panic P_UNWRAP end.
Definition put_conn (st : rstate) (id : N) (c : connection) : rstate :=
  set_r_conns st (slab_put (r_conns st) id c).
Definition get_obuf (st : rstate) (id : N) : R outgoing :=
  match slab_get (r_obufs st) id with Some c => Ok c | None => Panic P_UNWRAP end.
Definition put_obuf (st : rstate) (id : N) (o : outgoing) : rstate :=
  set_r_obufs st (slab_put (r_obufs st) id o).
Definition get_acks (st : rstate) (id : N) : R acklog :=
  match slab_get (r_acks st) id with Some c => Ok c | None => Panic P_UNWRAP end.
Definition put_acks (st : rstate) (id : N) (a : acklog) : rstate :=
  set_r_acks st (slab_put (r_acks st) id a).
Definition commit_ack (st : rstate) (id : N) (a : ack) : R rstate :=
  do l <- get_acks st id;
  Ok (put_acks st id (set_a_committed l (a_committed l ++ [a]))).

(** drain [notifications]: track + reschedule(FreshData) each woken request *)
Fixpoint wake_all (st : rstate) (ns : list (N * drequest)) : R rstate :=
  match ns with
  | [] => Ok st
  | (id, rq) :: r =>
      do st1 <- track st id rq;
      do st2 <- reschedule st1 id SFreshData;
      wake_all st2 r
  end.
Definition drain_notifications (st : rstate) : R rstate :=
  wake_all (set_r_notif st []) (r_notif st).

(** result of append_to_commitlog: Ok, or the error's effect on the connection *)
Inductive append_res := AppOk | AppErr (reason : option N).

Definition retain_update (st : rstate) (topic : str) (p : publish) (props : option pprops) : rstate :=
  let dl := r_datalog st in
  if p_retain p then
    match p_payload p with
    | [] => set_r_datalog st (set_dl_retained dl (al_remove str_eqb topic (dl_retained dl)))
    | _ => set_r_datalog st (set_dl_retained dl (al_set str_eqb topic (p, props) (dl_retained dl)))
    end
  else st.

Definition append_to_commitlog (st : rstate) (id : N) (p : publish) (props : option pprops)
  : R (rstate * append_res) :=
  do conn <- get_conn st id;
  let alias := match props with Some pr => pp_alias pr | None => None end in
  let props := match props with
               | Some pr => Some {| pp_alias := None; pp_subids := pp_subids pr; pp_tag := pp_tag pr |}
               | None => None
               end in
  if match props with Some pr => negb (match pp_subids pr with [] => true | _ => false end) | None => false end
  then Ok (st, AppErr (Some RC_MALFORMED))
  else
    (* validate_and_set_topic_alias *)
    do (st_p) <-
      (match alias with
       | None => match p_topic p with
                 | [] => Ok (inr (Some RC_PROTOCOL))     (* [MQTT-4.7.3-1]: empty name, no alias *)
                 | _ => Ok (inl (st, p))
                 end
       | Some a =>
           if (a =? 0) || (TOPIC_ALIAS_MAX <? a) then Ok (inr (Some RC_ALIAS_INVALID))
           else match p_topic p with
                | [] => match al_get N.eqb a (c_aliases conn) with
                        | None => Ok (inr (Some RC_PROTOCOL))
                        | Some t => Ok (inl (st, set_p_topic p t))
                        end
                | t => if utf8_valid t
                       then Ok (inl (put_conn st id (set_c_aliases conn (al_set N.eqb a t (c_aliases conn))), p))
                       else Ok (inr None)
                end
       end);
    match st_p with
    | inr reason => Ok (st, AppErr reason)
    | inl (st1, p1) =>
        let topic := p_topic p1 in
        if negb (utf8_valid topic) then Ok (st1, AppErr None)
        else
          let st2 := retain_update st1 topic p1 props in
          let p2 := set_p_retain p1 false in
          do (st3, idxs) <- dl_matches st2 topic;
          do st4 <- append_all st3 idxs (p2, props);
          Ok (st4, AppOk)
    end.

(* ------------------------------------------------------------------ handle_disconnection *)
Fixpoint submap_remove_id (m : list (str * list N)) (subs : list str) (id : N) : list (str * list N) :=
  match m with
  | [] => []
  | (f, ids) :: r =>
      (f, if set_mem str_eqb f subs then set_del N.eqb id ids else ids) :: submap_remove_id r subs id
  end.

(** the loop over tracker.data_requests rewinding cursors (persistent session) *)
Fixpoint rewind_requests (rqs : list drequest) (retr : list (N * cursor)) (gs : list (str * group))
  : R (list drequest * list (str * group)) :=
  match rqs with
  | [] => Ok ([], gs)
  | rq :: r =>
      match al_get N.eqb (dr_idx rq) retr with
      | Some cu =>
          let rq' := set_dr_cursor rq cu in
          do gs1 <-
            (match dr_group rq with
             | Some name =>
                 match al_get str_eqb name gs with
                 | Some g => Ok (al_set str_eqb name (set_g_cursor g cu) gs)
                 | None => Ok gs                 (* the group is gone if this was its last member *)
                 end
             | None => Ok gs
             end);
          do (r', gs2) <- rewind_requests r retr gs1;
          Ok (rq' :: r', gs2)
      | None =>
          do (r', gs2) <- rewind_requests r retr gs;
          Ok (rq :: r', gs2)
      end
  end.

Definition handle_disconnection (st : rstate) (id : N) (reason : option N) : R rstate :=
  match slab_get (r_obufs st) id with
  | None => Ok st
  | Some o0 =>
      let client := o_client o0 in
      do st0 <- (match reason with
                 | Some rc => do (s, _) <- push_out st (o_link o0) [NDisconnect rc]; Ok s
                 | None => Ok st
                 end);
      match slab_remove (r_conns st0) id, slab_remove (r_ibufs st0) id,
            slab_remove (r_obufs st0) id, slab_remove (r_trackers st0) id with
      | Some (conns, conn), Some (ibufs, _), Some (obufs, outg), Some (trackers, trk) =>
          match slab_remove (r_acks st0) id with
          | None => Panic P_REMOVE
          | Some (acks, _) =>
              let '(dl, inflight_rqs) := dl_clean (r_datalog st0) id in
              let retr := retransmission_map (o_inflight outg) [] in
              let groups := groups_remove_client (r_groups st0) client in
              let submap := submap_remove_id (r_submap st0) (c_subs conn) id in
              do (grave, groups') <-
                (if negb (c_clean conn) then
                   let rqs := tr_reqs trk ++ inflight_rqs in
                   do (rqs', gs) <- rewind_requests rqs retr groups;
                   let trk' := {| tr_id := tr_id trk; tr_reqs := rqs'; tr_status := Paused Busy |} in
                   Ok (al_set str_eqb (tr_id trk)
                              (Some {| ss_tracker := trk'; ss_subs := c_subs conn; ss_pubrels := o_pubrels outg |})
                              (al_remove str_eqb (tr_id trk) (r_graveyard st0)), gs)
                 else
                   Ok (al_set str_eqb (tr_id trk) None (al_remove str_eqb (tr_id trk) (r_graveyard st0)), groups));
              Ok {| r_cfg := r_cfg st0; r_graveyard := grave; r_conns := conns;
                    r_cmap := al_remove str_eqb client (r_cmap st0); r_submap := submap;
                    r_ibufs := ibufs; r_obufs := obufs; r_datalog := dl; r_acks := acks;
                    r_trackers := trackers; r_ready := r_ready st0; r_notif := r_notif st0;
                    r_groups := groups'; r_wills := r_wills st0; r_links := r_links st0;
                    r_oracle := r_oracle st0 |}
          end
      | _, _, _, _ => Panic P_REMOVE
      end
  end.

(* ------------------------------------------------------------------ handle_new_connection *)
Fixpoint commit_pubrels (l : acklog) (pks : list N) : acklog :=
  match pks with
  | [] => l
  | k :: r => commit_pubrels (set_a_committed l (a_committed l ++ [APubRel k])) r
  end.

(** a resumed session joins the groups of its restored shared requests again *)
Fixpoint rejoin_groups (gs : list (str * group)) (strat : strategy) (client : str) (rqs : list drequest)
  : list (str * group) :=
  match rqs with
  | [] => gs
  | rq :: r =>
      let gs' := match dr_group rq with
                 | Some name =>
                     let g := match al_get str_eqb name gs with
                              | Some g => g
                              | None => {| g_clients := []; g_idx := 0; g_cursor := dr_cursor rq; g_strategy := strat |}
                              end in
                     al_set str_eqb name (set_g_clients g (g_clients g ++ [client])) gs
                 | None => gs
                 end in
      rejoin_groups gs' strat client r
  end.

(** re-register the subscriptions of a resumed session under the new connection id *)
Fixpoint submap_add_all (m : list (str * list N)) (subs : list str) (id : N) : list (str * list N) :=
  match subs with
  | [] => m
  | f :: r =>
      let m' := match al_get str_eqb f m with
                | Some ids => al_set str_eqb f (set_add N.eqb id ids) m
                | None => al_set str_eqb f [id] m
                end in
      submap_add_all m' r id
  end.

Definition handle_new_connection (st : rstate) (conn : connection) (link : N) : R rstate :=
  let client := c_client conn in
  if negb (validate_clientid client) then Ok st
  else
    do st1 <- (match al_get str_eqb client (r_cmap st) with
               | Some cid => handle_disconnection st cid None
               | None => Ok st
               end);
    if cf_max_connections (r_cfg st1) <=? slab_len (r_conns st1) then Ok st1
    else
      let saved := al_get str_eqb client (r_graveyard st1) in
      let grave := al_remove str_eqb client (r_graveyard st1) in
      let clean := c_clean conn in
      let previous_session := match saved with Some (Some _) => true | _ => false end in
      let '(trk, conn1, pubrels) :=
        if negb clean then
          match saved with
          | Some (Some ss) => (ss_tracker ss, set_c_subs conn (ss_subs ss), ss_pubrels ss)
          | _ => ({| tr_id := client; tr_reqs := []; tr_status := Paused Busy |}, conn, [])
          end
        else ({| tr_id := client; tr_reqs := []; tr_status := Paused Busy |}, conn, []) in
      let groups1 := rejoin_groups (r_groups st1) (cf_strategy (r_cfg st1)) client (tr_reqs trk) in
      let wills := match c_will conn1 with
                   | Some w => al_set str_eqb client w (r_wills st1)
                   | None => al_remove str_eqb client (r_wills st1)
                   end in
      let conn2 := set_c_will conn1 None in
      let '(conns, id) := slab_insert (r_conns st1) conn2 in
      let '(ibufs, id_i) := slab_insert (r_ibufs st1) {| i_client := client; i_link := link |} in
      let '(obufs, id_o) := slab_insert (r_obufs st1)
            {| o_client := client; o_link := link; o_inflight := []; o_pubrels := pubrels; o_last := 0 |} in
      let ack0 := {| a_committed := [AConnAck id (negb clean && previous_session)]; a_recorded := [] |} in
      let '(acks, id_a) := slab_insert (r_acks st1) (commit_pubrels ack0 pubrels) in
      let '(trackers, id_t) := slab_insert (r_trackers st1) trk in
      if negb ((id_i =? id) && (id_o =? id) && (id_a =? id) && (id_t =? id)) then Panic P_SLAB_ALIGN
      else
        let st2 := {| r_cfg := r_cfg st1; r_graveyard := grave; r_conns := conns;
                      r_cmap := al_set str_eqb client id (r_cmap st1);
                      r_submap := submap_add_all (r_submap st1) (c_subs conn2) id;
                      r_ibufs := ibufs; r_obufs := obufs; r_datalog := r_datalog st1; r_acks := acks;
                      r_trackers := trackers; r_ready := r_ready st1; r_notif := r_notif st1;
                      r_groups := groups1; r_wills := wills; r_links := r_links st1;
                      r_oracle := r_oracle st1 |} in
        do _ <- dbg_no_dups st2 id;
        reschedule st2 id SInit.

(* ------------------------------------------------------------------ prepare_filter *)
Definition prepare_filter (st : rstate) (id : N) (cu : cursor) (fidx : N) (path : str) (qos : N)
           (grp : option str) (subid : option N) : R rstate :=
  let submap := match al_get str_eqb path (r_submap st) with
                | Some ids => al_set str_eqb path (set_add N.eqb id ids) (r_submap st)
                | None => al_set str_eqb path [id] (r_submap st)
                end in
  let st1 := set_r_submap st submap in
  do conn <- get_conn st1 id;
  let groups := match grp with
                | Some name =>
                    let g := match al_get str_eqb name (r_groups st1) with
                             | Some g => g
                             | None => {| g_clients := []; g_idx := 0; g_cursor := cu;
                                          g_strategy := cf_strategy (r_cfg st1) |}
                             end in
                    al_set str_eqb name (set_g_clients g (g_clients g ++ [c_client conn])) (r_groups st1)
                | None => r_groups st1
                end in
  let st2 := set_r_groups st1 groups in
  let conn1 := match subid with
               | Some s => set_c_subids conn (al_set str_eqb path s (c_subids conn))
               | None => conn
               end in
  if set_mem str_eqb path (c_subs conn1) then Ok (put_conn st2 id conn1)
  else
    let conn2 := set_c_subs conn1 (c_subs conn1 ++ [path]) in
    let st3 := put_conn st2 id conn2 in
    let rq := {| dr_filter := path; dr_idx := fidx; dr_qos := qos; dr_cursor := cu; dr_read := 0;
                 dr_fwd_retained := match grp with None => true | Some _ => false end;
                 dr_group := grp |} in
    do st4 <- track st3 id rq;
    do st5 <- reschedule st4 id SNewFilter;
    do _ <- dbg_no_dups st5 id;
    Ok st5.

(* ------------------------------------------------------------------ handle_device_payload *)
Record flags := { f_force_ack : bool; f_new_data : bool; f_disconnect : bool; f_reason : option N }.
Definition flags0 := {| f_force_ack := false; f_new_data := false; f_disconnect := false; f_reason := None |}.
Definition fl_ack (f : flags) := {| f_force_ack := true; f_new_data := f_new_data f; f_disconnect := f_disconnect f; f_reason := f_reason f |}.
Definition fl_data (f : flags) := {| f_force_ack := f_force_ack f; f_new_data := true; f_disconnect := f_disconnect f; f_reason := f_reason f |}.
Definition fl_disc (f : flags) (r : option N) :=
  {| f_force_ack := f_force_ack f; f_new_data := f_new_data f; f_disconnect := true;
     f_reason := match r with Some _ => r | None => f_reason f end |}.

(** the [for f in &mut subscribe.filters] loop: returns the codes pushed so far *)
Fixpoint subscribe_filters (st : rstate) (id : N) (fs : list (str * N)) (subid : option N)
         (fl : flags) (codes : list N) : R (rstate * flags * list N) :=
  match fs with
  | [] => Ok (st, fl, codes)
  | (path, qos) :: r =>
      if negb (validate_subscription path) then Ok (st, fl_disc fl None, codes)
      else
        let '(grp, filter) := match extract_group path with
                              | Some (g, p) => (Some g, p)
                              | None => (None, path)
                              end in
        if match subid with Some 0 => true | _ => false end
        then Ok (st, fl_disc fl (Some RC_PROTOCOL), codes)
        else
          do (st1, idx, cu) <- next_native_offset st filter;
          do st2 <- prepare_filter st1 id cu idx path qos grp subid;
          subscribe_filters st2 id r subid fl (codes ++ [qos])
  end.

Definition UR_SUCCESS : N := 0.           (* UnsubAckReason::Success *)
Definition UR_NO_SUB : N := 17.           (* UnsubAckReason::NoSubscriptionExisted *)

(** the loop over the filters of an UNSUBSCRIBE; collects one reason code per filter *)
Fixpoint unsubscribe_filters (st : rstate) (id : N) (client : str) (fs : list str) (reasons : list N)
  : R (rstate * list N) :=
  match fs with
  | [] => Ok (st, reasons)
  | f :: r =>
      let removed := match al_get str_eqb f (r_submap st) with
                     | Some ids => set_mem N.eqb id ids
                     | None => false
                     end in
      if negb removed then unsubscribe_filters st id client r (reasons ++ [UR_NO_SUB])
      else
        let st1 := match al_get str_eqb f (r_submap st) with
                   | Some ids => set_r_submap st (al_set str_eqb f (set_del N.eqb id ids) (r_submap st))
                   | None => st
                   end in
        do conn <- get_conn st1 id;
        if negb (set_mem str_eqb f (c_subs conn)) then unsubscribe_filters st1 id client r (reasons ++ [UR_NO_SUB])
        else
          let conn1 := {| c_client := c_client conn; c_dynamic := c_dynamic conn; c_clean := c_clean conn;
                          c_subs := set_del str_eqb f (c_subs conn); c_will := c_will conn;
                          c_aliases := c_aliases conn;
                          c_baliases := match c_baliases conn with
                                        | Some b => Some (ba_remove_alias b f)
                                        | None => None
                                        end;
                          c_subids := al_remove str_eqb f (c_subids conn) |} in
          let groups :=
            match extract_group f with
            | Some (gname, _) =>
                match al_get str_eqb gname (r_groups st1) with
                | Some g =>
                    let g' := group_remove_client g client in
                    match g_clients g' with
                    | [] => al_remove str_eqb gname (r_groups st1)
                    | _ => al_set str_eqb gname g' (r_groups st1)
                    end
                | None => r_groups st1
                end
            | None => r_groups st1
            end in
          let st2 := set_r_groups (put_conn st1 id conn1) groups in
          do st4 <- untrack st2 id f;
          do st5 <- remove_waiters_for_id st4 id f;
          let st6 := set_r_notif st5
                (filter (fun x : N * drequest => negb ((fst x =? id) && str_eqb (dr_filter (snd x)) f))
                        (r_notif st5)) in
          unsubscribe_filters st6 id client r (reasons ++ [UR_SUCCESS])
  end.

(** one packet of the batch; [true] in the result = [break] *)
Definition handle_packet (st : rstate) (id : N) (client : str) (pk : packet) (fl : flags)
  : R (rstate * flags * bool) :=
  match pk with
  | PPublish p props =>
      let do_append (st0 : rstate) (fl0 : flags) :=
        do (st1, res) <- append_to_commitlog st0 id p props;
        match res with
        | AppOk => Ok (st1, fl_data fl0, false)
        | AppErr reason => Ok (st1, fl_disc fl0 reason, true)
        end in
      if p_qos p =? 1 then
        do st1 <- commit_ack st id (APubAck (p_pkid p)); do_append st1 (fl_ack fl)
      else if p_qos p =? 2 then
        do l <- get_acks st id;
        Ok (put_acks st id {| a_committed := a_committed l ++ [APubRec (p_pkid p)];
                              a_recorded := a_recorded l ++ [(p, props)] |}, fl_ack fl, false)
      else do_append st fl
  | PSubscribe pkid fs subid =>
      do (st1, fl1, codes) <- subscribe_filters st id fs subid fl [];
      do st2 <- commit_ack st1 id (ASubAck pkid codes);
      Ok (st2, fl_ack fl1, false)
  | PUnsubscribe pkid fs =>
      do _ <- get_conn st id;
      do (st1, reasons) <- unsubscribe_filters st id client fs [];
      do st2 <- commit_ack st1 id (AUnsubAck pkid reasons);
      Ok (st2, fl_ack fl, false)
  | PPubAck pkid =>
      do o <- get_obuf st id;
      let '(o', ok) := register_ack o pkid in
      let st1 := put_obuf st id o' in
      if ok then do st2 <- reschedule st1 id SIncomingAck; Ok (st2, fl, false)
      else Ok (st1, fl_disc fl None, true)
  | PPubRec pkid =>
      do o <- get_obuf st id;
      let '(o', ok) := register_ack o pkid in
      if ok then
        do _ <- get_acks st id;
        let st1 := put_obuf st id (set_o_pubrels o' (o_pubrels o' ++ [pkid])) in
        do st2 <- commit_ack st1 id (APubRel pkid);
        do st3 <- reschedule st2 id SIncomingAck;
        Ok (st3, fl, false)
      else Ok (put_obuf st id o', fl_disc fl None, true)
  | PPubRel pkid _ =>
      do l <- get_acks st id;
      let committed := a_committed l ++ [APubComp pkid] in
      match a_recorded l with
      | [] => Ok (put_acks st id (set_a_committed l committed), fl_disc fl None, true)
      | (p, props) :: rec =>
          let st1 := put_acks st id {| a_committed := committed; a_recorded := rec |} in
          do (st2, res) <- append_to_commitlog st1 id p props;
          match res with
          | AppOk => do st3 <- reschedule st2 id SIncomingAck; Ok (st3, fl_data fl, false)
          | AppErr _ => Ok (st2, fl_disc fl None, true)
          end
      end
  | PPubComp pkid =>
      do o <- get_obuf st id;
      let '(o', ok) := register_pubcomp o pkid in
      let st1 := put_obuf st id o' in
      if ok then Ok (st1, fl, false) else Ok (st1, fl_disc fl None, true)
  | PPingReq =>
      do st1 <- commit_ack st id APingResp; Ok (st1, fl_ack fl, false)
  | PDisconnect =>
      Ok (set_r_wills st (al_remove str_eqb client (r_wills st)), fl_disc fl None, true)
  | POther => Ok (st, fl, false)
  end.

Fixpoint handle_packets (st : rstate) (id : N) (client : str) (pks : list packet) (fl : flags)
  : R (rstate * flags) :=
  match pks with
  | [] => Ok (st, fl)
  | pk :: r =>
      do (st1, fl1, brk) <- handle_packet st id client pk fl;
      if brk then Ok (st1, fl1) else handle_packets st1 id client r fl1
  end.

Definition handle_device_payload (st : rstate) (id : N) : R rstate :=
  match slab_get (r_ibufs st) id with
  | None => Ok st
  | Some inc =>
      do b <- link_get st (i_link inc);
      let st0 := link_put st (i_link inc) (set_lk_in b []) in       (* incoming.exchange(cache) *)
      do (st1, fl) <- handle_packets st0 id (i_client inc) (lk_in b) flags0;
      do st2 <- (if f_force_ack fl then reschedule st1 id SFreshData else Ok st1);
      do st3 <- (if f_new_data fl then drain_notifications st2 else Ok st2);
      if f_disconnect fl then handle_disconnection st3 id (f_reason fl) else Ok st3
  end.

(* ------------------------------------------------------------------ forward_device_data / consume *)
Inductive consume_status := BufferFull | SInflightFull | FilterCaughtup | PartialRead | SkipRequest.

Fixpoint firstnN {X} (n : N) (l : list X) {struct l} : list X :=
  match l with
  | [] => []
  | x :: r => if n =? 0 then [] else x :: firstnN (n - 1) r
  end.

(** the per-publish part of forward_device_data: granted QoS, broker topic alias (one per
    topic name: the alias of this topic if it has one — then the topic is cleared —, else a
    newly allocated one sent along with the topic), subscription identifier *)
Fixpoint alias_forwards (bal : option baliases) (qos : N) (subid : option N)
         (l : list (option cursor * publish * option pprops))
  : option baliases * list (option cursor * publish * option pprops) :=
  match l with
  | [] => (bal, [])
  | (c, p, pr) :: r =>
      let p1 := set_p_qos p qos in
      let '(bal1, p2, pr1) :=
        match bal with
        | Some b =>
            if utf8_valid (p_topic p1) then
              let '(b', alias, existed) :=
                match al_get str_eqb (p_topic p1) (ba_map b) with
                | Some a => (b, Some a, true)
                | None => let '(b', a) := ba_set_new_alias b (p_topic p1) in (b', a, false)
                end in
              let pr' := match alias with
                         | Some _ =>
                             let d := match pr with Some v => v | None => pprops_default end in
                             Some {| pp_alias := alias; pp_subids := pp_subids d; pp_tag := pp_tag d |}
                         | None => pr
                         end in
              (Some b', (if existed then set_p_topic p1 [] else p1), pr')
            else (bal, p1, pr)
        | None => (bal, p1, pr)
        end in
      let pr2 := match subid with
                 | Some s =>
                     let d := match pr1 with Some v => v | None => pprops_default end in
                     Some {| pp_alias := pp_alias d; pp_subids := pp_subids d ++ [s]; pp_tag := pp_tag d |}
                 | None => pr1
                 end in
      let '(bal2, r') := alias_forwards bal1 qos subid r in
      (bal2, (c, p2, pr2) :: r')
  end.

Definition forward_device_data (st : rstate) (id : N) (rq : drequest)
  : R (rstate * drequest * consume_status) :=
  do o <- get_obuf st id;
  do conn <- (match slab_get (r_conns st) id with Some c => Ok c | None => Panic P_OBUF_INDEX end);
  let sg := match dr_group rq with
            | Some name => match al_get str_eqb name (r_groups st) with
                           | Some g => Some (name, g)
                           | None => None
                           end
            | None => None
            end in
  let rq := match sg with Some (_, g) => set_dr_cursor rq (g_cursor g) | None => rq end in
  do slots0 <-
    (if negb (dr_qos rq =? 0) then free_slots o else Ok (cf_max_outgoing (r_cfg st)));
  if negb (dr_qos rq =? 0) && (slots0 =? 0) then Ok (st, rq, SInflightFull)
  else
    let slots1 := match sg with
                  | Some (_, g) => match g_strategy g with RoundRobin => 1 | _ => slots0 end
                  | None => slots0
                  end in
    do (st1, rq1, retained, slots2) <-
      (if dr_fwd_retained rq then
         do (st', rs) <- read_retained st (dr_filter rq);
         let rs' := firstnN slots1 rs in
         Ok (st', set_dr_fwd_retained rq false, rs', slots1 - lenN rs')
       else Ok (st, rq, [], slots1));
    do d <- native_get (r_datalog st1) (dr_idx rq1);
    do (pos, from_log) <- readv (d_log d) (dr_cursor rq1) slots2;
    let publishes : list (option cursor * publish * option pprops) :=
      map (fun x : pubdata => (None, fst x, snd x)) retained
      ++ map (fun x : pubdata * cursor => (Some (snd x), fst (fst x), snd (fst x))) from_log in
    let '(start, next, caughtup) := match pos with
                                    | Next s e => (s, e, false)
                                    | Done s e => (s, e, true)
                                    end in
    let skip := match sg with
                | Some (_, g) => negb (ostr_eqb (Some (o_client o)) (current_client g))
                | None => false
                end in
    if skip then Ok (st1, rq1, if caughtup && match publishes with [] => true | _ => false end
                               then FilterCaughtup else SkipRequest)
    else
      let rq2 := {| dr_filter := dr_filter rq1; dr_idx := dr_idx rq1; dr_qos := dr_qos rq1;
                    dr_cursor := next; dr_read := dr_read rq1 + lenN publishes;
                    dr_fwd_retained := dr_fwd_retained rq1; dr_group := dr_group rq1 |} in
      match publishes with
      | [] => Ok (st1, rq2, FilterCaughtup)
      | _ =>
          let subid := al_get str_eqb (dr_filter rq2) (c_subids conn) in
          if 2 <? dr_qos rq2 then Panic P_QOS
          else
            let '(bal, forwards) := alias_forwards (c_baliases conn) (dr_qos rq2) subid publishes in
            let conn1 := set_c_baliases conn bal in
            let st2 := put_conn st1 id conn1 in
            (* push_forwards *)
            let '(o1, notifs) :=
              if dr_qos rq2 =? 0
              then (o, map (fun x : option cursor * publish * option pprops =>
                              let '(c, p, pr) := x in NForward c p pr) forwards)
              else number_forwards o (dr_idx rq2) forwards in
            let st3 := put_obuf st2 id o1 in
            do (st4, len) <- push_out st3 (o_link o1) notifs;
            do st5 <-
              (match sg with
               | Some (name, _) =>
                   match al_get str_eqb name (r_groups st4) with
                   | Some g =>
                       do (st', g') <- update_next_client st4 g;
                       Ok (set_r_groups st' (al_set str_eqb name (set_g_cursor g' (dr_cursor rq2)) (r_groups st')))
                   | None => Ok st4
                   end
               | None => Ok st4
               end);
            if MAX_CHANNEL_CAPACITY - 1 <=? len then
              do (st6, _) <- push_out st5 (o_link o1) [NUnschedule];
              Ok (st6, rq2, BufferFull)
            else
              Ok (st5, rq2, if caughtup then FilterCaughtup else PartialRead)
      end.

(** ack_device_data: flush every committed ack to the connection's outgoing buffer *)
Definition ack_device_data (st : rstate) (id : N) (o : outgoing) : R rstate :=
  do l <- get_acks st id;
  match a_committed l with
  | [] => Ok st
  | acks =>
      let st1 := put_acks st id (set_a_committed l []) in
      do (st2, _) <- push_out st1 (o_link o) (map NAck acks);
      Ok st2
  end.

(** the [for _ in 0..MAX_SCHEDULE_ITERATIONS] loop of consume *)
Fixpoint consume_loop (fuel : nat) (st : rstate) (id : N) (requests skipped : list drequest) : R rstate :=
  match fuel with
  | O => trackv st id (requests ++ skipped)
  | S fuel' =>
      match requests with
      | [] =>
          do st1 <- (match skipped with [] => pause st id Caughtup | _ => Ok st end);
          trackv st1 id skipped
      | rq :: rest =>
          do (st1, rq', status) <- forward_device_data st id rq;
          match status with
          | BufferFull =>
              do st2 <- pause st1 id Busy; trackv st2 id ((rest ++ [rq']) ++ skipped)
          | SInflightFull =>
              do st2 <- pause st1 id InflightFull; trackv st2 id ((rest ++ [rq']) ++ skipped)
          | FilterCaughtup =>
              do st2 <- park st1 id rq'; consume_loop fuel' st2 id rest skipped
          | PartialRead => consume_loop fuel' st1 id (rest ++ [rq']) skipped
          | SkipRequest => consume_loop fuel' st1 id rest (skipped ++ [rq'])
          end
      end
  end.

Definition consume (st : rstate) : R (rstate * bool) :=
  match r_ready st with
  | [] => Ok (st, false)
  | id :: rq =>
      let st0 := set_r_ready st rq in
      match slab_get (r_trackers st0) id with
      | None => Ok (st0, false)
      | Some t =>
          let requests := tr_reqs t in
          let st1 := put_tracker st0 id (set_tr_reqs t []) in
          let st2 := set_r_ready st1 (r_ready st1 ++ [id]) in
          match slab_get (r_obufs st2) id with
          | None => Ok (st2, true)
          | Some o =>
              do st3 <- ack_device_data st2 id o;
              do _ <- (match slab_get (r_conns st3) id with Some _ => Ok tt | None => Panic P_OBUF_INDEX end);
              do st4 <- consume_loop (N.to_nat MAX_SCHEDULE_ITERATIONS) st3 id requests [];
              Ok (st4, true)
          end
      end
  end.

(* ------------------------------------------------------------------ last will / shadow *)
Definition handle_last_will (st : rstate) (client : str) : R rstate :=
  match al_get str_eqb client (r_wills st) with
  | None => Ok st
  | Some w =>
      let st1 := set_r_wills st (al_remove str_eqb client (r_wills st)) in
      let p := {| p_dup := false; p_qos := w_qos w; p_retain := w_retain w; p_topic := w_topic w;
                  p_pkid := 0; p_payload := w_message w |} in
      let props := match w_props w with
                   | Some tg => Some {| pp_alias := None; pp_subids := []; pp_tag := tg |}
                   | None => None
                   end in
      if negb (utf8_valid (p_topic p)) then Ok st1
      else if match p_topic p with [] => true | _ => false end then Ok st1   (* [MQTT-4.7.3-1] *)
      else
        let st2 := retain_update st1 (p_topic p) p props in
        do (st3, idxs) <- dl_matches st2 (p_topic p);
        do st4 <- append_all st3 idxs (set_p_retain p false, props);
        drain_notifications st4
  end.

Fixpoint last_opt {X} (l : list X) : option X :=
  match l with [] => None | [x] => Some x | _ :: r => last_opt r end.

Definition retrieve_shadow (st : rstate) (id : N) (f : str) : R rstate :=
  match slab_get (r_obufs st) id with
  | None => Ok st
  | Some o =>
      match al_get str_eqb f (dl_findex (r_datalog st)) with
      | None => Ok st
      | Some idx =>
          match slab_get (dl_native (r_datalog st)) idx with
          | None => Ok st
          | Some d =>
              do a <- active (d_log d);
              match last_opt (s_data a) with
              | None => Ok st
              | Some (p, _) =>
                  do (st1, len) <- push_out st (o_link o) [NShadow (p_topic p) (p_payload p)];
                  if MAX_CHANNEL_CAPACITY - 1 <=? len
                  then do (st2, _) <- push_out st1 (o_link o) [NUnschedule]; Ok st2
                  else Ok st1
              end
          end
      end
  end.

(* ------------------------------------------------------------------ the op language *)
Record connect_req := { cr_client : str; cr_clean : bool; cr_dynamic : bool; cr_alias_max : N;
                        cr_will : option will }.

Inductive rop :=
| OpConnect (c : connect_req)          (* Event::Connect with a fresh link (link number = table length) *)
| OpPush (link : N) (pk : packet)      (* link side: packet into the shared incoming buffer *)
| OpData (id : N)                      (* Event::DeviceData *)
| OpConsume                            (* one call of consume() *)
| OpDrain (link : N)                   (* link side: swap out the outgoing buffer *)
| OpReady (id : N)                     (* Event::Ready *)
| OpDisconnect (id : N)                (* Event::Disconnect *)
| OpShadow (id : N) (f : str)          (* Event::Shadow *)
| OpWill (client : str)                (* Event::PublishWill *)
| OpMeters                             (* Event::SendMeters / SendAlerts: no modelled effect *)
.

Inductive rout :=
| OutUnit
| OutConsume (some : bool)
| OutDrain (ns : list notification)
| OutNoLink.

Definition init_datalog (cfg : config) : R datalog :=
  let fix go (fs : list str) (dl : datalog) : R datalog :=
    match fs with
    | [] => Ok dl
    | f :: r =>
        do d <- data_new cfg f;
        let '(native', idx) := slab_insert (dl_native dl) d in
        go r {| dl_native := native'; dl_findex := al_set str_eqb f idx (dl_findex dl);
                dl_retained := []; dl_pfilters := [] |}
    end in
  go (cf_init_filters cfg) {| dl_native := slab_empty; dl_findex := []; dl_retained := []; dl_pfilters := [] |}.

Definition init (cfg : config) : R rstate :=
  do dl <- init_datalog cfg;
  Ok {| r_cfg := cfg; r_graveyard := []; r_conns := slab_empty; r_cmap := []; r_submap := [];
        r_ibufs := slab_empty; r_obufs := slab_empty; r_datalog := dl; r_acks := slab_empty;
        r_trackers := slab_empty; r_ready := []; r_notif := []; r_groups := []; r_wills := [];
        r_links := []; r_oracle := [] |}.

Definition step (st : rstate) (o : rop) : R (rstate * rout) :=
  match o with
  | OpConnect c =>
      let link := lenN (r_links st) in
      let st1 := set_r_links st (r_links st ++ [{| lk_in := []; lk_out := [] |}]) in
      let conn := {| c_client := cr_client c; c_dynamic := cr_dynamic c; c_clean := cr_clean c;
                     c_subs := []; c_will := cr_will c; c_aliases := [];
                     c_baliases := if 0 <? cr_alias_max c then Some (baliases_new (cr_alias_max c)) else None;
                     c_subids := [] |} in
      do st2 <- handle_new_connection st1 conn link; Ok (st2, OutUnit)
  | OpPush k pk =>
      match nthN (r_links st) k with
      | None => Ok (st, OutNoLink)
      | Some b => Ok (link_put st k (set_lk_in b (lk_in b ++ [pk])), OutUnit)
      end
  | OpData id => do st1 <- handle_device_payload st id; Ok (st1, OutUnit)
  | OpConsume => do (st1, b) <- consume st; Ok (st1, OutConsume b)
  | OpDrain k =>
      match nthN (r_links st) k with
      | None => Ok (st, OutNoLink)
      | Some b => Ok (link_put st k (set_lk_out b []), OutDrain (lk_out b))
      end
  | OpReady id =>
      match slab_get (r_trackers st) id with
      | Some _ => do st1 <- reschedule st id SReady; Ok (st1, OutUnit)
      | None => Ok (st, OutUnit)
      end
  | OpDisconnect id => do st1 <- handle_disconnection st id None; Ok (st1, OutUnit)
  | OpShadow id f => do st1 <- retrieve_shadow st id f; Ok (st1, OutUnit)
  | OpWill c => do st1 <- handle_last_will st c; Ok (st1, OutUnit)
  | OpMeters => Ok (st, OutUnit)
  end.

(** one step with the oracle entries recorded for it; unused entries are an error *)
Definition step_with (st : rstate) (orc : list oracle) (o : rop) : R (rstate * rout) :=
  do (st1, out) <- step (set_r_oracle st orc) o;
  match r_oracle st1 with
  | [] => Ok (st1, out)
  | _ => Err tt
  end.
