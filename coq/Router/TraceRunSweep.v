(** C01 at the level of whole runs — [DI] through one sweep ([forward_device_data]): the events
    it contributes are the chain continuation of the swept request's key, and the continuation
    request's cursor is where the last event continues.  Uses [sweep_exact] (ExactSweep.v). *)
From Rumqtt Require Import Log.Spec Log.Proofs Log.ListFacts Log.WfFacts Router.ExactLog.
From Rumqtt Require Import Topic.Proofs Router.WindowFrame Router.Window Router.WindowStep Router.DataLogInv Router.DataLogStep
                           Router.ExactInv Router.ExactStep1 Router.ExactStep2 Router.ExactStep3 Router.ExactLogs
                           Router.ExactSweep Router.ExactThm.
From Rumqtt Require Import Router.NoPanicDevBase Router.NoPanicDevInv.
From Rumqtt Require Import Router.TraceRun Router.TraceRunHeld Router.TraceRunInv.
From Rumqtt Require Import Router.Model Router.RunDefs.
From Coq Require Import List ZifyBool ZifyN ZifyNat.
Import ListNotations.

(* ------------------------------------------------------------------ the continuation request *)
Lemma fdd_push_rq st1 id o conn sg rq2 publishes caughtup st' rq' cs :
  fdd_push st1 id o conn sg rq2 publishes caughtup = Ok (st', rq', cs) -> rq' = rq2.
Proof.
  unfold fdd_push. intros H. destruct (2 <? dr_qos rq2); [discriminate|].
  destruct (alias_forwards _ _ _ _) as [bal forwards].
  match type of H with (let '(_, _) := ?x in _) = _ => destruct x as [o1 notifs] end.
  apply bind_ok in H as ([st4 len] & _ & H). apply bind_ok in H as (st5 & _ & H).
  destruct (_ <=? _); [apply bind_ok in H as ([st6 n6] & _ & H)|]; now inv_ok.
Qed.

Lemma fdd_shape st id rq st' rq' cs :
  forward_device_data st id rq = Ok (st', rq', cs) ->
  dr_group rq' = dr_group rq /\ dr_filter rq' = dr_filter rq /\ dr_idx rq' = dr_idx rq.
Proof.
  rewrite fdd_alt_eq. unfold fdd_alt, get_obuf. intros H.
  destruct (slab_get (r_obufs st) id) as [o|]; [|discriminate]. cbn [bind] in H.
  destruct (slab_get (r_conns st) id) as [conn|]; [|discriminate]. cbn [bind] in H. cbv zeta in H.
  match type of H with context [free_slots o] =>
    match type of H with context [dr_qos ?r =? 0] => set (rq0 := r) in * end end.
  assert (S0 : dr_group rq0 = dr_group rq /\ dr_filter rq0 = dr_filter rq /\ dr_idx rq0 = dr_idx rq).
  { unfold rq0. destruct (dr_group rq) as [name|] eqn:E; [|auto].
    destruct (al_get str_eqb name (r_groups st)); cbn [set_dr_cursor dr_group dr_filter dr_idx]; auto. }
  apply bind_ok in H as (slots0 & _ & H).
  match type of H with (if ?b then _ else _) = _ => destruct b end; [now inv_ok|].
  apply bind_ok in H as ([[[st1 rq1] retained] slots2] & HR & H).
  assert (S1 : dr_group rq1 = dr_group rq /\ dr_filter rq1 = dr_filter rq /\ dr_idx rq1 = dr_idx rq).
  { unfold fdd_retained in HR. destruct (dr_fwd_retained rq0).
    - apply bind_ok in HR as ([s rs] & _ & HR). inv_ok. exact S0.
    - inv_ok. exact S0. }
  apply bind_ok in H as (d & _ & H). apply bind_ok in H as ([pos from_log] & _ & H).
  destruct (match pos with Next s e => (s, e, false) | Done s e => (s, e, true) end) as [[start next] caughtup].
  match type of H with (if ?b then _ else _) = _ => destruct b end; [now inv_ok|].
  match type of H with (match ?l with [] => _ | _ => _ end) = _ => destruct l end; [now inv_ok|].
  apply fdd_push_rq in H. subst rq'. exact S1.
Qed.

(* ------------------------------------------------------------------ the forwards of a sweep, as events *)
Lemma log_fwds_retained rs : Forall is_retained_fwd rs -> log_fwds rs = [].
Proof. induction 1 as [|n l (p & pr & ->) _ IH]; cbn [log_fwds]; auto. Qed.

Lemma fwds_from_log qos : forall es p ns,
  fwds_from qos p es ns ->
  map fst (log_fwds ns) = Nseq p (length (log_fwds ns)) /\ lenN (log_fwds ns) = lenN es.
Proof.
  induction es as [|e es IH]; intros p [|n ns] H; cbn [fwds_from] in H; try contradiction.
  - split; reflexivity.
  - destruct H as [(c & q & pr & -> & Hc & _) H]. destruct (IH _ _ H) as [H1 H2].
    cbn [log_fwds map fst length Nseq]. rewrite Hc, H1. split; [reflexivity|]. rewrite !lenN_cons. lia.
Qed.

Lemma Nseq_In' p : forall k x, In x (Nseq p k) -> p <= x /\ x < p + N.of_nat k.
Proof.
  intros k. revert p. induction k as [|k IH]; intros p x H; [destruct H|]. cbn [Nseq] in H.
  destruct H as [<- | H]; [lia|]. apply IH in H. lia.
Qed.

(** the swept request is in the locals and unique: nothing else of that connection has its filter *)
Lemma cnt_unique st e id rq r :
  (forall f, (CNT st ((id, rq) :: e) id f <= 1)%nat) ->
  HeldE st e id r -> dr_filter r = dr_filter rq -> False.
Proof.
  intros HU Hh Hf. specialize (HU (dr_filter rq)). pose proof (helde_cnt _ _ _ _ Hh) as H1. rewrite Hf in H1.
  unfold CNT in *. rewrite cntw_cons in HU. unfold wmatch, fmatch in HU. cbn [fst snd] in HU.
  rewrite N.eqb_refl, str_eqb_refl' in HU. cbn [andb] in HU. lia.
Qed.

Lemma fdd_di st id rq st1 rq' cs e tr :
  CInv st -> Bounded st -> LinkInv st ->
  RqOk (r_datalog st) rq -> LocalsOk (r_datalog st) e ->
  (forall f, (CNT st ((id, rq) :: e) id f <= 1)%nat) ->
  DI st ((id, rq) :: e) tr ->
  forward_device_data st id rq = Ok (st1, rq', cs) ->
  DI st1 ((id, rq') :: e) (tr ++ fdd_ghost st id rq st1 cs).
Proof.
  intros HI HB HL Hrq HLo HU HDI H.
  destruct (fdd_cons_delta _ _ _ _ _ _ H) as (A & _ & EL & _ & _).
  pose proof (fdd_rview _ _ _ _ _ _ H) as V. pose proof (fdd_dl _ _ _ _ _ _ H) as D.
  destruct (fdd_shape _ _ _ _ _ _ H) as (Eg & Ef & Ei).
  pose proof (obs_at_sub _ _ _ A) as OS.
  destruct HDI as [D1 D2 D3 D4].
  (* the part of [di_cur] for everything that is not the continuation request *)
  assert (Hold : forall c o2 r, slab_get (r_obufs st1) c = Some o2 ->
            Held st1 c r \/ In (c, r) e ->
            exists o0, slab_get (r_obufs st) c = Some o0 /\ o_link o2 = o_link o0 /\ HeldE st e c r).
  { intros c o2 r Ho2 Hh. destruct (OS _ _ Ho2) as (o0 & Ho0 & Hs). apply ostep_link in Hs as [Hs _].
    exists o0. split; [exact Ho0|]. split; [exact Hs|].
    destruct Hh as [Hh | Hh]; [left; eapply held_view; eassumption|now right]. }
  destruct (dr_group rq) as [g|] eqn:Eg0.
  - (* shared (or orphan): no event *)
    assert (E : fdd_ghost st id rq st1 cs = []) by (unfold fdd_ghost; now rewrite Eg0). rewrite E, app_nil_r.
    constructor.
    + intros id0 k f i a Hin. rewrite EL. eapply D1; eassumption.
    + intros id0 k f i a Hin. rewrite D. eapply D2; eassumption.
    + exact D3.
    + intros c o2 r a Ho2 Hh Hg Hl. rewrite D.
      assert (Hh' : Held st1 c r \/ In (c, r) e).
      { destruct Hh as [Hh | [E1 | Hh]]; auto. inversion E1; subst c r. congruence. }
      destruct (Hold _ _ _ Ho2 Hh') as (o0 & Ho0 & Hlk & Hhe).
      assert (Hk : key_of o2 r = key_of o0 r) by (unfold key_of; now rewrite Hlk). rewrite Hk in Hl.
      eapply D4; [exact Ho0| |exact Hg|exact Hl]. destruct Hhe as [X | X]; [now left|right; now right].
  - (* not shared: [sweep_exact] *)
    destruct Hrq as [(d & Hd & Hiss & Hend) _]. pose proof HI as [LI _].
    destruct (li_wf _ LI _ _ Hd) as [all W]. pose proof (wf_end_of pubdata_size _ _ W) as Hall.
    assert (Hsnd : snd (dr_cursor rq) <= lenN all) by lia.
    assert (Hun : unshared st rq) by (unfold unshared; now rewrite Eg0).
    destruct (sweep_exact _ _ _ _ _ _ _ _ HI HB Hd W Hiss Hsnd Hun H) as (o & Ho & S). cbv zeta in S.
    destruct S as (_ & Hbase & Hple & [(Hcs & _ & -> & ->) | (Hcs1 & _ & rs & ns & tail & S)]).
    { (* refused: nothing happened *)
      subst cs. unfold fdd_ghost. rewrite Eg0, Ho, app_nil_r. constructor; assumption. }
    cbv zeta in S. destruct S as (Hout & Hrs & _ & _ & Hfw & Htail & Erq & Hiss' & Hst' & Hsnd' & _).
    set (p := pos_of (d_log d) (dr_cursor rq)) in *.
    set (es := firstn (N.to_nat (sweep_slots st o rq - lenN rs)) (skipn (N.to_nat p) all)) in *.
    set (K := (o_link o, dr_filter rq, dr_idx rq)).
    set (fw := log_fwds ns).
    destruct (fwds_from_log _ _ _ _ Hfw) as [Hseq Hlen]. fold fw in Hseq, Hlen.
    set (evK := (if stale (d_log d) (dr_cursor rq) then [KJump (snd (dr_cursor rq)) (base_of (d_log d))] else [])
                ++ map mkfwd fw).
    assert (Eghost : fdd_ghost st id rq st1 cs = map (fun a => (id, K, a)) evK).
    { unfold fdd_ghost. rewrite Eg0, Ho. fold K.
      assert (X : (match nget (r_datalog st) (dr_idx rq) with
                   | Some d0 => if stale (d_log d0) (dr_cursor rq)
                                then [(id, K, KJump (snd (dr_cursor rq)) (base_of (d_log d0)))] else []
                   | None => [] end) ++
                  map (fun x : N * publish => (id, K, KFwd (fst x) (snd x)))
                      (log_fwds (skipn (length (out_of st (o_link o))) (out_of st1 (o_link o))))
                  = map (fun a => (id, K, a)) evK).
      { rewrite Hd, (Hout (o_link o)), N.eqb_refl, skipn_length_app, !log_fwds_app, (log_fwds_retained _ Hrs).
        assert (Et : log_fwds tail = []) by (destruct Htail as [[-> _] | [-> _]]; reflexivity).
        rewrite Et, app_nil_r. cbn [app]. fold fw. unfold evK. rewrite map_app, map_map.
        destruct (stale (d_log d) (dr_cursor rq)); reflexivity. }
      destruct cs; try exact X. contradiction. }
    rewrite Eghost.
    (* the chain of the key *)
    assert (Hcur : forall a, last_opt (ktrace K tr) = Some a ->
              snd (dr_cursor rq) = nxt a /\ (stale (d_log d) (dr_cursor rq) = true -> snd (dr_cursor rq) <= base_of (d_log d))).
    { intros a Ha. destruct (D4 id o rq a Ho (or_intror (or_introl eq_refl)) Eg0 Ha) as [C1 C2].
      split; [exact C1|]. intros Hs. now apply (C2 d Hd). }
    assert (Hp : p = if stale (d_log d) (dr_cursor rq) then base_of (d_log d) else snd (dr_cursor rq)) by reflexivity.
    destruct (sweep_chain (ktrace K tr) _ _ p _ fw (D3 K) Hcur Hp Hseq) as [Hch Hlast]. fold evK in Hch, Hlast.
    assert (Hbound : p + lenN es <= lenN all).
    { unfold es. rewrite lenN_firstn_skipn. lia. }
    assert (HevK : forall a, In a evK -> nxt a <= lenN all).
    { intros a Ha. unfold evK in Ha. apply in_app_or in Ha as [Ha | Ha].
      - destruct (stale (d_log d) (dr_cursor rq)) eqn:Es; [|destruct Ha]. destruct Ha as [<- | []]. cbn [nxt].
        unfold p, pos_of in Hbase, Hple. rewrite Es in Hple. exact Hple.
      - apply in_map_iff in Ha as ([off q] & <- & Hin). cbn [mkfwd nxt fst].
        assert (Hoff : In off (map fst fw)) by (apply in_map_iff; exists (off, q); auto).
        rewrite Hseq in Hoff. apply Nseq_In' in Hoff. change (N.of_nat (length fw)) with (lenN fw) in Hoff. lia. }
    constructor.
    + intros id0 k f i a Hin. rewrite EL. apply in_app_or in Hin as [Hin | Hin]; [eapply D1; eassumption|].
      apply in_map_iff in Hin as (a0 & E0 & _). inversion E0; subst. apply (proj1 HL _ _ Ho).
    + intros id0 k f i a Hin. rewrite D. apply in_app_or in Hin as [Hin | Hin]; [eapply D2; eassumption|].
      apply in_map_iff in Hin as (a0 & E0 & Ha0). inversion E0; subst. exists d. split; [exact Hd|].
      specialize (HevK _ Ha0). lia.
    + intros K'. rewrite ktrace_app. destruct (dkey_dec K' K) as [-> | Hne].
      * rewrite ktrace_all_same. exact Hch.
      * rewrite ktrace_all_other by exact Hne. rewrite app_nil_r. apply D3.
    + intros c o2 r a Ho2 Hh Hg Hl. rewrite D. rewrite ktrace_app in Hl.
      destruct Hh as [Hh | [E1 | Hh]].
      2:{ (* the continuation request *)
          inversion E1; subst c r. destruct (OS _ _ Ho2) as (o0 & Ho0 & Hs). apply ostep_link in Hs as [Hs _].
          rewrite Ho in Ho0. inversion Ho0; subst o0.
          assert (Hk : key_of o2 rq' = K) by (unfold key_of, K; now rewrite Hs, Ef, Ei).
          rewrite Hk, ktrace_all_same in Hl. specialize (Hlast _ Hl). split; [lia|].
          intros d0 Hd0 Hs0. rewrite Ei, Hd in Hd0. inversion Hd0; subst d0. congruence. }
      all: assert (Hh' : Held st1 c r \/ In (c, r) e) by auto;
           destruct (Hold _ _ _ Ho2 Hh') as (o0 & Ho0 & Hlk & Hhe);
           assert (Hk : key_of o2 r = key_of o0 r) by (unfold key_of; now rewrite Hlk); rewrite Hk in Hl;
           (destruct (dkey_dec (key_of o0 r) K) as [Ek | Hne];
            [exfalso; unfold key_of, K in Ek; inversion Ek as [[X1 X2 X3]];
             assert (c = id) by (eapply (proj2 HL); eassumption); subst c;
             eapply cnt_unique; eassumption
            |rewrite ktrace_all_other, app_nil_r in Hl by exact Hne;
             eapply D4; [exact Ho0| |exact Hg|exact Hl]; destruct Hhe as [X | X]; [now left|right; now right]]).
Qed.
