(** C01 at the level of whole runs — [DI] through one sweep ([forward_device_data]): the events
    it contributes are the chain continuation of the swept request's key, and the continuation
    request's cursor is where the last event continues.  Uses [sweep_exact] (ExactSweep.v). *)
From Rumqtt Require Import Log.Spec Log.Proofs Log.ListFacts Log.WfFacts Router.ExactLog.
From Rumqtt Require Import Topic.Proofs Router.WindowFrame Router.Window Router.WindowStep Router.DataLogInv Router.DataLogStep
                           Router.ExactInv Router.ExactStep1 Router.ExactStep2 Router.ExactStep3 Router.ExactLogs
                           Router.ExactSweep Router.ExactThm.
From Rumqtt Require Import Router.NoPanicDevBase Router.NoPanicDevInv.
From Rumqtt Require Import Router.TraceRun Router.TraceRunHeld Router.TraceRunInv.
From Rumqtt Require Import Router.Model Router.RunDefs.
From Coq Require Import List ZifyBool ZifyN ZifyNat.
Import ListNotations.

(* ------------------------------------------------------------------ the continuation request *)
Lemma fdd_push_rq st1 id o conn sg rq2 publishes caughtup st' rq' cs :
  fdd_push st1 id o conn sg rq2 publishes caughtup = Ok (st', rq', cs) -> rq' = rq2.
Proof.
  unfold fdd_push. intros H. destruct (2 <? dr_qos rq2); [discriminate|].
  destruct (alias_forwards _ _ _ _) as [bal forwards].
  match type of H with (let '(_, _) := ?x in _) = _ => destruct x as [o1 notifs] end.
  apply bind_ok in H as ([st4 len] & _ & H). apply bind_ok in H as (st5 & _ & H).
  destruct (_ <=? _); [apply bind_ok in H as ([st6 n6] & _ & H)|]; now inv_ok.
Qed.

Lemma fdd_shape st id rq st' rq' cs :
  forward_device_data st id rq = Ok (st', rq', cs) ->
  dr_group rq' = dr_group rq /\ dr_filter rq' = dr_filter rq /\ dr_idx rq' = dr_idx rq.
Proof.
  rewrite fdd_alt_eq. unfold fdd_alt, get_obuf. intros H.
  destruct (slab_get (r_obufs st) id) as [o|]; [|discriminate]. cbn [bind] in H.
  destruct (slab_get (r_conns st) id) as [conn|]; [|discriminate]. cbn [bind] in H. cbv zeta in H.
  match type of H with context [free_slots o] =>
    match type of H with context [dr_qos ?r =? 0] => set (rq0 := r) in * end end.
  assert (S0 : dr_group rq0 = dr_group rq /\ dr_filter rq0 = dr_filter rq /\ dr_idx rq0 = dr_idx rq).
  { unfold rq0. destruct (dr_group rq) as [name|] eqn:E; [|auto].
    destruct (al_get str_eqb name (r_groups st)); cbn [set_dr_cursor dr_group dr_filter dr_idx]; auto. }
  apply bind_ok in H as (slots0 & _ & H).
  match type of H with (if ?b then _ else _) = _ => destruct b end; [now inv_ok|].
  apply bind_ok in H as ([[[st1 rq1] retained] slots2] & HR & H).
  assert (S1 : dr_group rq1 = dr_group rq /\ dr_filter rq1 = dr_filter rq /\ dr_idx rq1 = dr_idx rq).
  { unfold fdd_retained in HR. destruct (dr_fwd_retained rq0).
    - apply bind_ok in HR as ([s rs] & _ & HR). inv_ok. exact S0.
    - inv_ok. exact S0. }
  apply bind_ok in H as (d & _ & H). apply bind_ok in H as ([pos from_log] & _ & H).
  destruct (match pos with Next s e => (s, e, false) | Done s e => (s, e, true) end) as [[start next] caughtup].
  match type of H with (if ?b then _ else _) = _ => destruct b end; [now inv_ok|].
  match type of H with (match ?l with [] => _ | _ => _ end) = _ => destruct l end; [now inv_ok|].
  apply fdd_push_rq in H. subst rq'. exact S1.
Qed.

(* ------------------------------------------------------------------ the forwards of a sweep, as events *)
Lemma log_fwds_retained rs : Forall is_retained_fwd rs -> log_fwds rs = [].
Proof. induction 1 as [|n l (p & pr & ->) _ IH]; cbn [log_fwds]; auto. Qed.

Lemma fwds_from_log qos : forall es p ns,
  fwds_from qos p es ns ->
  map fst (log_fwds ns) = Nseq p (length (log_fwds ns)) /\ lenN (log_fwds ns) = lenN es.
Proof.
  induction es as [|e es IH]; intros p [|n ns] H; cbn [fwds_from] in H; try contradiction.
  - split; reflexivity.
  - destruct H as [(c & q & pr & -> & Hc & _) H]. destruct (IH _ _ H) as [H1 H2].
    cbn [log_fwds map fst length Nseq]. rewrite Hc, H1. split; [reflexivity|]. rewrite !lenN_cons. lia.
Qed.

Lemma Nseq_In' p : forall k x, In x (Nseq p k) -> p <= x /\ x < p + N.of_nat k.
Proof.
  intros k. revert p. induction k as [|k IH]; intros p x H; [destruct H|]. cbn [Nseq] in H.
  destruct H as [<- | H]; [lia|]. apply IH in H. lia.
Qed.

(** the swept request is in the locals and unique: nothing else of that connection has its filter *)
Lemma cnt_unique st e id rq r :
  (forall f, (CNT st ((id, rq) :: e) id f <= 1)%nat) ->
  HeldE st e id r -> dr_filter r = dr_filter rq -> False.
Proof.
  intros HU Hh Hf. specialize (HU (dr_filter rq)). pose proof (helde_cnt _ _ _ _ Hh) as H1. rewrite Hf in H1.
  unfold CNT in *. rewrite cntw_cons in HU. unfold wmatch, fmatch in HU. cbn [fst snd] in HU.
  rewrite N.eqb_refl, str_eqb_refl' in HU. cbn [andb] in HU. lia.
Qed.

Lemma fdd_di st id rq st1 rq' cs e tr :
  CInv st -> Bounded st -> LinkInv st ->
  RqOk (r_datalog st) rq -> LocalsOk (r_datalog st) e ->
  (forall f, (CNT st ((id, rq) :: e) id f <= 1)%nat) ->
  DI st ((id, rq) :: e) tr ->
  forward_device_data st id rq = Ok (st1, rq', cs) ->
  DI st1 ((id, rq') :: e) (tr ++ fdd_ghost st id rq st1 cs).
Proof.
  intros HI HB HL Hrq HLo HU HDI H.
  destruct (fdd_cons_delta _ _ _ _ _ _ H) as (A & _ & EL & _ & _).
  pose proof (fdd_rview _ _ _ _ _ _ H) as V. pose proof (fdd_dl _ _ _ _ _ _ H) as D.
  destruct (fdd_shape _ _ _ _ _ _ H) as (Eg & Ef & Ei).
  pose proof (obs_at_sub _ _ _ A) as OS.
  destruct HDI as [D1 D2 D3 D4 D5 D6 D7].
  assert (Hid : forall id0 k f i a c o2, In (id0, (k, f, i), a) tr -> slab_get (r_obufs st1) c = Some o2 -> o_link o2 = k -> id0 = c).
  { intros id0 k f i a c o2 Hin Ho2 Hk. destruct (OS _ _ Ho2) as (o0 & Ho0 & Hs). apply ostep_link in Hs as [Hs _].
    eapply D5; [exact Hin|exact Ho0|congruence]. }
  (* the part of [di_cur] for everything that is not the continuation request *)
  assert (Hold : forall c o2 r, slab_get (r_obufs st1) c = Some o2 ->
            Held st1 c r \/ In (c, r) e ->
            exists o0, slab_get (r_obufs st) c = Some o0 /\ o_link o2 = o_link o0 /\ HeldE st e c r).
  { intros c o2 r Ho2 Hh. destruct (OS _ _ Ho2) as (o0 & Ho0 & Hs). apply ostep_link in Hs as [Hs _].
    exists o0. split; [exact Ho0|]. split; [exact Hs|].
    destruct Hh as [Hh | Hh]; [left; eapply held_view; eassumption|now right]. }
  destruct (dr_group rq) as [g|] eqn:Eg0.
  - (* shared (or orphan): no event *)
    assert (E : fdd_ghost st id rq st1 cs = []) by (unfold fdd_ghost; now rewrite Eg0). rewrite E, app_nil_r.
    constructor.
    + intros id0 k f i a Hin. rewrite EL. eapply D1; eassumption.
    + intros id0 k f i a Hin. rewrite D. eapply D2; eassumption.
    + exact D3.
    + intros c o2 r a Ho2 Hh Hg Hl. rewrite D.
      assert (Hh' : Held st1 c r \/ In (c, r) e).
      { destruct Hh as [Hh | [E1 | Hh]]; auto. inversion E1; subst c r. congruence. }
      destruct (Hold _ _ _ Ho2 Hh') as (o0 & Ho0 & Hlk & Hhe).
      assert (Hk : key_of o2 r = key_of o0 r) by (unfold key_of; now rewrite Hlk). rewrite Hk in Hl.
      eapply D4; [exact Ho0| |exact Hg|exact Hl]. destruct Hhe as [X | X]; [now left|right; now right].
    + exact Hid.
    + intros c o2 r Ho2 Hh Hg.
      assert (Hh' : Held st1 c r \/ In (c, r) e).
      { destruct Hh as [Hh | [E1 | Hh]]; auto. inversion E1; subst c r. congruence. }
      destruct (Hold _ _ _ Ho2 Hh') as (o0 & Ho0 & Hlk & Hhe).
      assert (Hk : key_of o2 r = key_of o0 r) by (unfold key_of; now rewrite Hlk). rewrite Hk.
      eapply D6; [exact Ho0| |exact Hg]. destruct Hhe as [X | X]; [now left|right; now right].
    + exact D7.
  - (* not shared: [sweep_exact] *)
    destruct Hrq as [(d & Hd & Hiss & Hend) _]. pose proof HI as [LI _].
    destruct (li_wf _ LI _ _ Hd) as [all W]. pose proof (wf_end_of pubdata_size _ _ W) as Hall.
    assert (Hsnd : snd (dr_cursor rq) <= lenN all) by lia.
    assert (Hun : unshared st rq) by (unfold unshared; now rewrite Eg0).
    destruct (sweep_exact _ _ _ _ _ _ _ _ HI HB Hd W Hiss Hsnd Hun H) as (o & Ho & S). cbv zeta in S.
    destruct S as (_ & Hbase & Hple & [(Hcs & _ & -> & ->) | (Hcs1 & _ & rs & ns & tail & S)]).
    { (* refused: nothing happened *)
      subst cs. unfold fdd_ghost. rewrite Eg0, Ho, app_nil_r. constructor; assumption. }
    cbv zeta in S. destruct S as (Hout & Hrs & _ & _ & Hfw & Htail & Erq & Hiss' & Hst' & Hsnd' & _).
    set (p := pos_of (d_log d) (dr_cursor rq)) in *.
    set (es := firstn (N.to_nat (sweep_slots st o rq - lenN rs)) (skipn (N.to_nat p) all)) in *.
    set (K := (o_link o, dr_filter rq, dr_idx rq)).
    set (fw := log_fwds ns).
    destruct (fwds_from_log _ _ _ _ Hfw) as [Hseq Hlen]. fold fw in Hseq, Hlen.
    set (evK := (if stale (d_log d) (dr_cursor rq) then [KJump (snd (dr_cursor rq)) (base_of (d_log d))] else [])
                ++ map mkfwd fw).
    assert (Eghost : fdd_ghost st id rq st1 cs = map (fun a => (id, K, a)) evK).
    { unfold fdd_ghost. rewrite Eg0, Ho. fold K.
      assert (X : (match nget (r_datalog st) (dr_idx rq) with
                   | Some d0 => if stale (d_log d0) (dr_cursor rq)
                                then [(id, K, KJump (snd (dr_cursor rq)) (base_of (d_log d0)))] else []
                   | None => [] end) ++
                  map (fun x : N * publish => (id, K, KFwd (fst x) (snd x)))
                      (log_fwds (skipn (length (out_of st (o_link o))) (out_of st1 (o_link o))))
                  = map (fun a => (id, K, a)) evK).
      { rewrite Hd, (Hout (o_link o)), N.eqb_refl, skipn_length_app, !log_fwds_app, (log_fwds_retained _ Hrs).
        assert (Et : log_fwds tail = []) by (destruct Htail as [[-> _] | [-> _]]; reflexivity).
        rewrite Et, app_nil_r. cbn [app]. fold fw. unfold evK. rewrite map_app, map_map.
        destruct (stale (d_log d) (dr_cursor rq)); reflexivity. }
      destruct cs; try exact X. contradiction. }
    rewrite Eghost.
    (* the chain of the key *)
    assert (Hcur : forall a, last_opt (ktrace K tr) = Some a ->
              snd (dr_cursor rq) = nxt a /\
              (stale (d_log d) (dr_cursor rq) = true -> snd (dr_cursor rq) <= base_of (d_log d))).
    { intros a Ha. destruct (D4 id o rq a Ho (or_intror (or_introl eq_refl)) Eg0 Ha) as [C1 C2].
      split; [exact C1|]. intros Hs. now apply (C2 d Hd). }
    assert (HevE : forallb (fun a => negb (is_end a)) evK = true).
    { unfold evK. rewrite forallb_app. apply andb_true_iff. split.
      - destruct (stale (d_log d) (dr_cursor rq)); reflexivity.
      - apply forallb_forall. intros x Hx. apply in_map_iff in Hx as (y & <- & _). reflexivity. }
    assert (HneK : ktrace K tr <> []) by (apply (D6 id o rq Ho (or_intror (or_introl eq_refl)) Eg0)).
    assert (Hp : p = if stale (d_log d) (dr_cursor rq) then base_of (d_log d) else snd (dr_cursor rq)) by reflexivity.
    destruct (sweep_chain (ktrace K tr) _ _ p _ fw (D3 K) Hcur Hp Hseq) as [Hch Hlast]. fold evK in Hch, Hlast.
    assert (Hbound : p + lenN es <= lenN all).
    { unfold es. rewrite lenN_firstn_skipn. lia. }
    assert (HevK : forall a, In a evK -> nxt a <= lenN all).
    { intros a Ha. unfold evK in Ha. apply in_app_or in Ha as [Ha | Ha].
      - destruct (stale (d_log d) (dr_cursor rq)) eqn:Es; [|destruct Ha]. destruct Ha as [<- | []]. cbn [nxt].
        unfold p, pos_of in Hbase, Hple. rewrite Es in Hple. exact Hple.
      - apply in_map_iff in Ha as ([off q] & <- & Hin). cbn [mkfwd nxt fst].
        assert (Hoff : In off (map fst fw)) by (apply in_map_iff; exists (off, q); auto).
        rewrite Hseq in Hoff. apply Nseq_In' in Hoff. change (N.of_nat (length fw)) with (lenN fw) in Hoff. lia. }
    constructor.
    + intros id0 k f i a Hin. rewrite EL. apply in_app_or in Hin as [Hin | Hin]; [eapply D1; eassumption|].
      apply in_map_iff in Hin as (a0 & E0 & _). inversion E0; subst. apply (proj1 HL _ _ Ho).
    + intros id0 k f i a Hin. rewrite D. apply in_app_or in Hin as [Hin | Hin]; [eapply D2; eassumption|].
      apply in_map_iff in Hin as (a0 & E0 & Ha0). inversion E0; subst. exists d. split; [exact Hd|].
      specialize (HevK _ Ha0). lia.
    + intros K'. rewrite ktrace_app. destruct (dkey_dec K' K) as [-> | Hne].
      * rewrite ktrace_all_same by exact HevE. exact Hch.
      * rewrite ktrace_all_other by exact Hne. rewrite app_nil_r. apply D3.
    + intros c o2 r a Ho2 Hh Hg Hl. rewrite D. rewrite ktrace_app in Hl.
      destruct Hh as [Hh | [E1 | Hh]].
      2:{ (* the continuation request *)
          inversion E1; subst c r. destruct (OS _ _ Ho2) as (o0 & Ho0 & Hs). apply ostep_link in Hs as [Hs _].
          rewrite Ho in Ho0. inversion Ho0; subst o0.
          assert (Hk : key_of o2 rq' = K) by (unfold key_of, K; now rewrite Hs, Ef, Ei).
          rewrite Hk, ktrace_all_same in Hl by exact HevE. specialize (Hlast _ Hl). split; [lia|].
          intros d0 Hd0 Hs0. rewrite Ei, Hd in Hd0. inversion Hd0; subst d0. congruence. }
      all: assert (Hh' : Held st1 c r \/ In (c, r) e) by auto;
           destruct (Hold _ _ _ Ho2 Hh') as (o0 & Ho0 & Hlk & Hhe);
           assert (Hk : key_of o2 r = key_of o0 r) by (unfold key_of; now rewrite Hlk); rewrite Hk in Hl;
           (destruct (dkey_dec (key_of o0 r) K) as [Ek | Hne];
            [exfalso; unfold key_of, K in Ek; inversion Ek as [[X1 X2 X3]];
             assert (c = id) by (eapply (proj2 HL); eassumption); subst c;
             eapply cnt_unique; eassumption
            |rewrite ktrace_all_other, app_nil_r in Hl by exact Hne;
             eapply D4; [exact Ho0| |exact Hg|exact Hl]; destruct Hhe as [X | X]; [now left|right; now right]]).
    + intros id0 k f i a c o2 Hin Ho2 Hk. apply in_app_or in Hin as [Hin | Hin]; [eapply Hid; eassumption|].
      apply in_map_iff in Hin as (a0 & E0 & _). inversion E0; subst.
      destruct (OS _ _ Ho2) as (o0 & Ho0 & Hs). apply ostep_link in Hs as [Hs _].
      symmetry. eapply (proj2 HL); [exact Ho0|exact Ho|congruence].
    + intros c o2 r Ho2 Hh Hg. rewrite ktrace_app.
      destruct Hh as [Hh | [E1 | Hh]].
      2:{ inversion E1; subst c r. destruct (OS _ _ Ho2) as (o0 & Ho0 & Hs). apply ostep_link in Hs as [Hs _].
          rewrite Ho in Ho0. inversion Ho0; subst o0.
          assert (Hk : key_of o2 rq' = K) by (unfold key_of, K; now rewrite Hs, Ef, Ei).
          rewrite Hk. intros X. apply app_eq_nil in X as [X _]. contradiction. }
      all: assert (Hh' : Held st1 c r \/ In (c, r) e) by auto;
           destruct (Hold _ _ _ Ho2 Hh') as (o0 & Ho0 & Hlk & Hhe);
           assert (Hk : key_of o2 r = key_of o0 r) by (unfold key_of; now rewrite Hlk); rewrite Hk;
           intros X; apply app_eq_nil in X as [X _]; revert X;
           eapply D6; [exact Ho0| |exact Hg]; destruct Hhe as [Y | Y]; [now left|right; now right].
    + intros K' a l E. rewrite ktrace_app in E. destruct (dkey_dec K' K) as [-> | Hne'].
      * destruct (head_app _ _ _ _ HneK E) as (t' & Et). eapply D7; exact Et.
      * rewrite ktrace_all_other, app_nil_r in E by exact Hne'. eapply D7; exact E.
Qed.

(* ------------------------------------------------------------------ the consume loop *)
(** at most one request per filter among everything connection [id] holds and the locals [l] *)
Definition UQl (st : rstate) (id : N) (l : list drequest) : Prop :=
  forall f, (cnt f (treqs st id) + cnti f id (items_of st) + cntw f id (r_notif st) + cnt f l <= 1)%nat.

Lemma uql_cnt st id l : UQl st id l -> forall f, (CNT st (map (pair id) l) id f <= 1)%nat.
Proof. intros H f. unfold CNT. rewrite cntw_pairs, N.eqb_refl. apply H. Qed.

Lemma uql_view st st' id l : rview st' = rview st -> UQl st id l -> UQl st' id l.
Proof.
  unfold rview. intros E H f. inversion E as [[E1 E2 E3]]. unfold treqs, items_of. rewrite E1, E2, E3. apply H.
Qed.

Lemma uql_perm st id l l' : (forall f, cnt f l' = cnt f l) -> UQl st id l -> UQl st id l'.
Proof. intros E H f. rewrite E. apply H. Qed.

Lemma di_locals st e e' tr : incl e' e -> DI st e tr -> DI st e' tr.
Proof. intros Hi. apply di_frame_same; try reflexivity. now apply hsub_local. Qed.

Lemma park_uql st id rq st' l : park st id rq = Ok st' -> UQl st id (rq :: l) -> UQl st' id l.
Proof.
  unfold park. intros H HU f. apply bind_ok in H as (d & Hd & H). apply native_get_Some in Hd. inv_ok.
  specialize (HU f). rewrite cnt_cons in HU.
  assert (Hn : nthN (items_of st) (dr_idx rq) = Some (Some d)).
  { unfold items_of. unfold slab_get in Hd. destruct (nthN (sl_items (dl_native (r_datalog st))) (dr_idx rq)) as [[d0|]|]; congruence. }
  pose proof (cnti_setN f id _ _ _ (set_d_waiters d (d_waiters d ++ [(id, rq)])) Hn) as Hc.
  cbn [d_waiters set_d_waiters] in Hc. rewrite cntw_app, cntw_single, N.eqb_refl in Hc. cbn [andb] in Hc.
  unfold treqs, items_of in *. cbn [r_trackers r_datalog set_r_datalog set_dl_native dl_native slab_put sl_items r_notif] in *.
  lia.
Qed.

Lemma map_pair_incl (id : N) (l l' : list drequest) : incl l' l -> incl (map (pair id) l') (map (pair id) l).
Proof. intros H x Hx. apply in_map_iff in Hx as (r & <- & Hr). apply in_map. now apply H. Qed.

Lemma localsok_pairs dl (id : N) l : Forall (RqOk dl) l -> LocalsOk dl (map (pair id) l).
Proof. intros H. unfold LocalsOk. rewrite Forall_map. exact H. Qed.

Lemma consume_loop_di id : forall fuel st requests skipped st' evs tr,
  CInv st -> Bounded st -> LinkInv st ->
  Forall (RqOk (r_datalog st)) requests -> Forall (RqOk (r_datalog st)) skipped ->
  UQl st id (requests ++ skipped) ->
  DI st (map (pair id) (requests ++ skipped)) tr ->
  consume_loop_d fuel st id requests skipped = Ok (st', evs) ->
  DI st' [] (tr ++ evs).
Proof.
  induction fuel as [|fuel IH]; cbn [consume_loop_d]; intros st requests skipped st' evs tr HI HB HL Hr Hs HU HDI H.
  - apply bind_ok in H as (s & H1 & H). inv_ok. rewrite app_nil_r.
    pose proof (trackv_keep _ _ _ _ H1) as K.
    eapply di_frame_same; [| | | |exact HDI].
    + rewrite <- (app_nil_r (map (pair id) (requests ++ skipped))). eapply trackv_hsub; exact H1.
    + now apply keep_obufs. + eapply trackv_dl; exact H1. + now apply keep_links.
  - destruct requests as [|rq rest].
    + apply bind_ok in H as (st1 & H1 & H). apply bind_ok in H as (s & H2 & H). inv_ok. rewrite app_nil_r.
      cbn [app] in HDI.
      assert (X : DI st1 (map (pair id) skipped) tr).
      { destruct skipped; [|now inv_ok]. pose proof (pause_keep _ _ _ _ H1) as K.
        eapply di_frame_same; [eapply pause_hsub; exact H1|now apply keep_obufs|eapply pause_dl; exact H1|now apply keep_links|exact HDI]. }
      pose proof (trackv_keep _ _ _ _ H2) as K.
      eapply di_frame_same; [| | | |exact X].
      * rewrite <- (app_nil_r (map (pair id) skipped)). eapply trackv_hsub; exact H2.
      * now apply keep_obufs. * eapply trackv_dl; exact H2. * now apply keep_links.
    + inversion Hr as [|? ? Hrq Hrest]; subst.
      apply bind_ok in H as ([[st1 rq'] status] & H1 & H).
      destruct (fdd_cinv _ _ _ _ _ _ HI HB Hrq H1) as (HI1 & Hrq' & D1).
      assert (HB1 : Bounded st1) by (eapply bounded_eq; eassumption).
      destruct (fdd_cons_delta _ _ _ _ _ _ H1) as (A1 & _ & EL1 & _ & _).
      assert (HL1 : LinkInv st1) by (apply (obs_sub_LinkInv st st1); [eapply obs_at_sub; exact A1|lia|exact HL]).
      pose proof (fdd_rview _ _ _ _ _ _ H1) as V1. destruct (fdd_shape _ _ _ _ _ _ H1) as (_ & Ef & _).
      set (e := map (pair id) (rest ++ skipped)).
      assert (HDI1 : DI st1 ((id, rq') :: e) (tr ++ fdd_ghost st id rq st1 status)).
      { eapply fdd_di; try eassumption.
        - apply localsok_pairs. apply Forall_app. auto.
        - exact (uql_cnt _ _ _ HU). }
      assert (HU1 : UQl st1 id (rq' :: rest ++ skipped)).
      { eapply uql_view; [exact V1|]. eapply uql_perm; [|exact HU]. intros f. cbn [app]. rewrite !cnt_cons.
        unfold fmatch. now rewrite Ef. }
      rewrite <- D1 in Hrest, Hs.
      assert (Hcnt1 : forall f l1 l2, cnt f ((l1 ++ [rq']) ++ l2) = cnt f (rq' :: l1 ++ l2)).
      { intros f l1 l2. rewrite !cnt_app, !cnt_cons, cnt_app, cnt_nil. lia. }
      assert (Hcnt2 : forall f l1 l2, cnt f (l1 ++ l2 ++ [rq']) = cnt f (rq' :: l1 ++ l2)).
      { intros f l1 l2. rewrite !cnt_app, !cnt_cons, cnt_app, cnt_nil. lia. }
      assert (Hinc1 : forall l1 l2, incl (map (pair id) ((l1 ++ [rq']) ++ l2)) ((id, rq') :: map (pair id) (l1 ++ l2))).
      { intros l1 l2 x Hx. apply in_map_iff in Hx as (r & <- & Hr'). apply in_app_or in Hr' as [Hr' | Hr'].
        - apply in_app_or in Hr' as [Hr' | [<- | []]]; [right; apply in_map; apply in_or_app; now left|now left].
        - right. apply in_map. apply in_or_app. now right. }
      assert (Hinc2 : forall l1 l2, incl (map (pair id) (l1 ++ l2 ++ [rq'])) ((id, rq') :: map (pair id) (l1 ++ l2))).
      { intros l1 l2 x Hx. apply in_map_iff in Hx as (r & <- & Hr'). apply in_app_or in Hr' as [Hr' | Hr'].
        - right. apply in_map. apply in_or_app. now left.
        - apply in_app_or in Hr' as [Hr' | [<- | []]]; [right; apply in_map; apply in_or_app; now right|now left]. }
      assert (Hfin : forall st2 s, pause st1 id (match status with BufferFull => Busy | _ => InflightFull end) = Ok st2 ->
                trackv st2 id ((rest ++ [rq']) ++ skipped) = Ok s ->
                DI s [] (tr ++ fdd_ghost st id rq st1 status)).
      { intros st2 s H2 H3. pose proof (pause_keep _ _ _ _ H2) as K2. pose proof (trackv_keep _ _ _ _ H3) as K3.
        eapply (di_frame_same st1); [| | | |exact HDI1].
        - eapply hsub_trans; [eapply pause_hsub; exact H2|].
          eapply hsub_trans; [apply hsub_local; apply (Hinc1 rest skipped)|].
          rewrite <- (app_nil_r (map (pair id) ((rest ++ [rq']) ++ skipped))). eapply trackv_hsub; exact H3.
        - rewrite (keep_obufs _ _ K3). now apply keep_obufs.
        - rewrite (trackv_dl _ _ _ _ H3). eapply pause_dl; exact H2.
        - rewrite (keep_links _ _ K3). now apply keep_links. }
      destruct status.
      * apply bind_ok in H as (st2 & H2 & H). apply bind_ok in H as (s & H3 & H). inv_ok. eapply Hfin; eassumption.
      * apply bind_ok in H as (st2 & H2 & H). apply bind_ok in H as (s & H3 & H). inv_ok. eapply Hfin; eassumption.
      * apply bind_ok in H as (st2 & H2 & H). apply bind_ok in H as ([s evs2] & H3 & H). inv_ok.
        pose proof (park_same _ _ _ _ H2) as S2. pose proof (park_cinv _ _ _ _ HI1 Hrq' H2) as HI2.
        pose proof (park_keep _ _ _ _ H2) as K2.
        assert (Hmono : forall l, Forall (RqOk (r_datalog st1)) l -> Forall (RqOk (r_datalog st2)) l).
        { intros l. apply rqsok_mono; [exact (proj1 HI1)|now apply dl_le_same_logs]. }
        rewrite app_assoc. eapply IH; [exact HI2|exact (bounded_same _ _ S2 HB1)| | | | | |exact H3].
        -- apply (obs_sub_LinkInv st1 st2); [apply obs_sub_eq; now apply keep_obufs|rewrite (keep_links _ _ K2); lia|exact HL1].
        -- now apply Hmono. -- now apply Hmono.
        -- eapply park_uql; eassumption.
        -- apply (di_frame st1 st2 ((id, rq') :: e) e); [exact HI1| |eapply park_hsub; exact H2|apply obs_sub_eq; now apply keep_obufs
                             |now apply dl_le_same_logs|rewrite (keep_links _ _ K2); lia|exact HDI1].
           constructor; [exact Hrq'|]. apply localsok_pairs. apply Forall_app. auto.
      * apply bind_ok in H as ([s evs2] & H3 & H). inv_ok.
        rewrite app_assoc. eapply IH; [exact HI1|exact HB1|exact HL1| |exact Hs| | |exact H3].
        -- apply Forall_app. split; [exact Hrest|]. constructor; [exact Hrq'|constructor].
        -- eapply uql_perm; [|exact HU1]. intros f. apply Hcnt1.
        -- eapply di_locals; [|exact HDI1]. apply Hinc1.
      * apply bind_ok in H as ([s evs2] & H3 & H). inv_ok.
        rewrite app_assoc. eapply IH; [exact HI1|exact HB1|exact HL1|exact Hrest| | | |exact H3].
        -- apply Forall_app. split; [exact Hs|]. constructor; [exact Hrq'|constructor].
        -- eapply uql_perm; [|exact HU1]. intros f. apply Hcnt2.
        -- eapply di_locals; [|exact HDI1]. apply Hinc2.
Qed.

(* ------------------------------------------------------------------ consume *)
Lemma ack_device_data_fields st id o st' :
  ack_device_data st id o = Ok st' ->
  r_conns st' = r_conns st /\ r_obufs st' = r_obufs st /\ r_datalog st' = r_datalog st /\
  lenN (r_links st') = lenN (r_links st).
Proof.
  unfold ack_device_data, get_acks. intros H. apply bind_ok in H as (l & _ & H).
  destruct (a_committed l); [inv_ok; auto|]. apply bind_ok in H as ([st2 n] & H2 & H). inv_ok.
  pose proof (push_out_nlinks _ _ _ _ _ H2) as EL. apply push_out_fields in H2. rewrite H2 in *. rsimpl. auto.
Qed.

Lemma consume_di st st' b evs tr :
  CInv st -> Bounded st -> LinkInv st -> ExactLoc1.DevEI st -> DI st [] tr ->
  consume_d st = Ok (st', b, evs) -> DI st' [] (tr ++ evs).
Proof.
  intros HI HB HL HD HDI H. unfold consume_d in H.
  destruct (r_ready st) as [|id rq]; [inv_ok; now rewrite app_nil_r|]. cbv zeta in H.
  cbn [r_trackers set_r_ready] in H.
  destruct (slab_get (r_trackers st) id) as [t|] eqn:Et.
  2:{ inv_ok. rewrite app_nil_r. apply (di_frame_same st _ [] [] tr); [apply hsub_view; reflexivity|reflexivity|reflexivity|reflexivity|exact HDI]. }
  match type of H with context [slab_get (r_obufs ?s) id] => set (st2 := s) in * end.
  assert (HS2 : hsub st st2 [] (map (pair id) (tr_reqs t) ++ [])).
  { unfold st2. eapply hsub_trans; [apply (hsub_view st (set_r_ready st rq)); reflexivity|].
    eapply hsub_trans; [apply (take_tracker_hsub (set_r_ready st rq) id t []); exact Et|].
    apply hsub_view. reflexivity. }
  assert (HDI2 : DI st2 (map (pair id) (tr_reqs t)) tr).
  { rewrite <- (app_nil_r (map (pair id) (tr_reqs t))).
    apply (di_frame_same st st2 [] _ tr); [exact HS2|reflexivity|reflexivity|reflexivity|exact HDI]. }
  assert (HI2 : CInv st2).
  { unfold st2. apply (cinv_view (put_tracker (set_r_ready st rq) id (set_tr_reqs t []))); [reflexivity|].
    apply (cinv_put_tracker (set_r_ready st rq)).
    - eapply cinv_view; [|exact HI]. reflexivity.
    - constructor. }
  destruct (slab_get (r_obufs st2) id) as [o|] eqn:Eo.
  2:{ inv_ok. rewrite app_nil_r. eapply di_locals; [|exact HDI2]. intros x []. }
  apply bind_ok in H as (st3 & H3 & H). apply bind_ok in H as (u & Hu & H).
  apply bind_ok in H as ([st4 evs4] & H4 & H). inv_ok.
  destruct (ack_device_data_fields _ _ _ _ H3) as (EC3 & EO3 & ED3 & EL3).
  pose proof (ack_device_data_rview _ _ _ _ H3) as V3.
  pose proof (ack_device_data_cview _ _ _ _ H3) as CV3.
  assert (HI3 : CInv st3) by (eapply cinv_view; eassumption).
  assert (HB3 : Bounded st3) by (eapply bounded_eq; [|exact HB]; rewrite ED3; reflexivity).
  assert (HL3 : LinkInv st3).
  { apply (obs_sub_LinkInv st st3); [apply obs_sub_eq; rewrite EO3; reflexivity|rewrite EL3; unfold st2; rsimpl; lia|exact HL]. }
  assert (HR : Forall (RqOk (r_datalog st3)) (tr_reqs t)).
  { rewrite ED3. change (r_datalog st2) with (r_datalog st). eapply cinv_trk; eassumption. }
  assert (HDI3 : DI st3 (map (pair id) (tr_reqs t ++ [])) tr).
  { rewrite app_nil_r. apply (di_frame st2 st3 (map (pair id) (tr_reqs t)) (map (pair id) (tr_reqs t))); try assumption.
    - apply localsok_pairs. change (r_datalog st2) with (r_datalog st). eapply cinv_trk; eassumption.
    - apply hsub_view. exact V3.
    - apply obs_sub_eq. exact EO3.
    - rewrite ED3. apply dl_le_refl.
    - lia. }
  assert (HU3 : UQl st3 id (tr_reqs t ++ [])).
  { rewrite app_nil_r. eapply uql_view; [exact V3|].
    destruct (slab_get (r_conns st3) id) as [c|] eqn:Ec; [|discriminate].
    rewrite EC3 in Ec. change (r_conns st2) with (r_conns st) in Ec.
    intros f. pose proof (ExactLoc1.de_live _ _ HD _ _ (subs_of_some _ _ _ Ec) f) as Hok. unfold ExactLoc1.okE in Hok.
    assert (Ht2 : treqs st2 id = []).
    { unfold treqs, st2. rsimpl. now rewrite (slab_get_put_occ _ _ _ _ Et). }
    rewrite Ht2, cnt_nil. change (items_of st2) with (items_of st). change (r_notif st2) with (r_notif st).
    unfold CNT, treqs in Hok. rewrite Et, cntw_nil in Hok. destruct (set_mem str_eqb f (c_subs c)); lia. }
  eapply consume_loop_di; [exact HI3|exact HB3|exact HL3|exact HR|constructor|exact HU3|exact HDI3|exact H4].
Qed.
