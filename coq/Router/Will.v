(** C16 (last will, router half): who changes [r_wills], and what [handle_last_will] appends. *)
From Rumqtt Require Export Router.RetainedStore.
From Rumqtt Require Import Router.RetainedReplay.
From Coq Require Import ZifyBool ZifyN ZifyNat.

(* ------------------------------------------------------------------ handle_new_connection *)
(** the takeover step at the head of [handle_new_connection] *)
Definition takeover (st : rstate) (client : str) : R rstate :=
  match al_get str_eqb client (r_cmap st) with
  | Some cid => handle_disconnection st cid None
  | None => Ok st
  end.

(** [handle_new_connection]: an admitted Connect that carries a will registers it under its client
    id; an admitted Connect WITHOUT a will removes an entry an earlier connection of the same
    client id may have left (current code, after the fix of the stale-will finding); a Connect
    that is not admitted leaves [r_wills] alone *)
Lemma hnc_wills st conn link st' :
  handle_new_connection st conn link = Ok st' ->
  let client := c_client conn in
  (validate_clientid client = false /\ st' = st) \/
  (validate_clientid client = true /\
   exists st1, takeover st client = Ok st1 /\ r_wills st1 = r_wills st /\
     (((cf_max_connections (r_cfg st1) <=? slab_len (r_conns st1)) = true /\ st' = st1) \/
      ((cf_max_connections (r_cfg st1) <=? slab_len (r_conns st1)) = false /\
       r_wills st' = match c_will conn with
                     | Some w => al_set str_eqb client w (r_wills st)
                     | None => al_remove str_eqb client (r_wills st)
                     end))).
Proof.
  intros H client. unfold handle_new_connection in H. fold client in H.
  destruct (validate_clientid client); cbn [negb] in H; [right; split; [reflexivity|] | left; okinv; auto].
  match type of H with bind ?x _ = _ => change x with (takeover st client) in H end.
  destruct (takeover st client) as [st1 | |] eqn:Et; cbn [bind] in H; try discriminate.
  exists st1. split; [reflexivity|].
  assert (Hw1 : r_wills st1 = r_wills st).
  { unfold takeover in Et. destruct (al_get str_eqb client (r_cmap st)); [|okinv; reflexivity].
    frames. tauto. }
  split; [exact Hw1|].
  destruct (cf_max_connections (r_cfg st1) <=? slab_len (r_conns st1)); [left; okinv; auto | right; split; [reflexivity|]].
  rewrite <- Hw1. clear Et Hw1.
  assert (Hcw : forall c1, c_will (set_c_subs conn c1) = c_will conn) by reflexivity.
  okinv; frames; unfold Kp in *; rsimpl_all; repeat match goal with H : _ /\ _ |- _ => destruct H end.
  all: repeat match goal with
       | E : (match ?x with _ => _ end) = (_, _, _) |- _ => destruct x
       | E : (_, _, _) = (_, _, _) |- _ => inversion E; subst; clear E
       end.
  all: cbn [c_will set_c_subs] in *.
  all: repeat match goal with E : c_will _ = _ |- _ => rewrite E in * end.
  all: try congruence.
Qed.

(* ------------------------------------------------------------------ packets *)
(** only a DISCONNECT packet touches [r_wills]: it removes the sender's entry *)
Lemma handle_packet_wills st id client pk fl st1 fl1 brk :
  handle_packet st id client pk fl = Ok (st1, fl1, brk) ->
  r_wills st1 = match pk with
                | PDisconnect => al_remove str_eqb client (r_wills st)
                | _ => r_wills st
                end.
Proof.
  intros H. unfold handle_packet in H. destruct pk; okinv; frames.
  all: unfold Kl, Ka, Kp, Kw in *; rsimpl_all; intuition congruence.
Qed.

(** does processing the batch reach a DISCONNECT packet (computed with the model itself) *)
Fixpoint disconnect_processed (st : rstate) (id : N) (client : str) (pks : list packet) (fl : flags) : bool :=
  match pks with
  | [] => false
  | pk :: r =>
      match handle_packet st id client pk fl with
      | Ok (st1, fl1, brk) =>
          match pk with
          | PDisconnect => true
          | _ => if brk then false else disconnect_processed st1 id client r fl1
          end
      | _ => false
      end
  end.

Lemma disconnect_processed_in st id client pks fl :
  disconnect_processed st id client pks fl = true -> In PDisconnect pks.
Proof.
  revert st fl. induction pks as [| pk r IH]; intros st fl H; cbn [disconnect_processed] in H; [discriminate|].
  destruct (handle_packet st id client pk fl) as [[[st1 fl1] brk] | |]; try discriminate.
  destruct pk; try (destruct brk; [discriminate | right; eauto]). now left.
Qed.

Lemma handle_packets_wills pks : forall st id client fl st' fl',
  handle_packets st id client pks fl = Ok (st', fl') ->
  r_wills st' = if disconnect_processed st id client pks fl
                then al_remove str_eqb client (r_wills st) else r_wills st.
Proof.
  induction pks as [| pk r IH]; intros st id client fl st' fl' H; cbn [handle_packets disconnect_processed] in *.
  - okinv. reflexivity.
  - destruct (handle_packet st id client pk fl) as [[[st1 fl1] brk] | |] eqn:E; cbn [bind] in H; try discriminate.
    pose proof (handle_packet_wills _ _ _ _ _ _ _ _ E) as Hw.
    destruct pk.
    all: try (destruct brk; [okinv; exact Hw | rewrite (IH _ _ _ _ _ _ H), Hw; reflexivity]).
    (* PDisconnect always breaks *)
    unfold handle_packet in E. okinv. reflexivity.
Qed.

(** the client whose will entry an [OpData id] removes, if any *)
Definition data_removes_will (st : rstate) (id : N) : option str :=
  match slab_get (r_ibufs st) id with
  | Some inc =>
      match link_get st (i_link inc) with
      | Ok b => if disconnect_processed (link_put st (i_link inc) (set_lk_in b [])) id (i_client inc) (lk_in b) flags0
                then Some (i_client inc) else None
      | _ => None
      end
  | None => None
  end.

Lemma handle_device_payload_wills st id st' :
  handle_device_payload st id = Ok st' ->
  r_wills st' = match data_removes_will st id with
                | Some c => al_remove str_eqb c (r_wills st)
                | None => r_wills st
                end.
Proof.
  intros H. unfold handle_device_payload in H. unfold data_removes_will.
  destruct (slab_get (r_ibufs st) id) as [inc|]; [|okinv; reflexivity].
  destruct (link_get st (i_link inc)) as [b | |]; cbn [bind] in H; try discriminate.
  destruct (handle_packets _ id (i_client inc) (lk_in b) flags0) as [[st1 fl] | |] eqn:E; cbn [bind] in H; try discriminate.
  apply handle_packets_wills in E. rsimpl in E.
  assert (Hw : r_wills st' = r_wills st1).
  { okinv; frames; unfold Kp in *; intuition congruence. }
  rewrite Hw, E. destruct (disconnect_processed _ _ _ _ _); reflexivity.
Qed.

(* ------------------------------------------------------------------ handle_disconnection *)
(** [handle_disconnection] never touches [r_wills], the retained store or any commit log *)
Lemma handle_disconnection_keeps st id reason st' :
  handle_disconnection st id reason = Ok st' ->
  r_wills st' = r_wills st /\ dl_retained (r_datalog st') = dl_retained (r_datalog st) /\
  dl_logs (r_datalog st') = dl_logs (r_datalog st).
Proof. intros H. frames. tauto. Qed.

(* ------------------------------------------------------------------ appends *)
Lemma map_setN {X Y} (f : X -> Y) (l : list X) : forall i v, map f (setN l i v) = setN (map f l) i (f v).
Proof.
  induction l as [| y r IH]; intros i v; cbn [setN map]; [reflexivity|].
  destruct (i =? 0); cbn [map]; [reflexivity | now rewrite IH].
Qed.

Lemma data_append_logs st idx item st' :
  data_append st idx item = Ok st' ->
  exists l l' c, nthN (dl_logs (r_datalog st)) idx = Some (Some l) /\
                 append pubdata_size l item = Ok (l', c) /\
                 dl_logs (r_datalog st') = setN (dl_logs (r_datalog st)) idx (Some l').
Proof.
  unfold data_append, native_get. intros H. okinv.
  match goal with E : slab_get _ _ = Some ?d |- _ => rename E into En; exists (d_log d) end.
  assert (En' : nthN (sl_items (dl_native (r_datalog st))) idx = Some (Some a)).
  { unfold slab_get in En. destruct (nthN _ idx) as [[d0|]|]; congruence. }
  do 2 eexists. split; [|split; [eassumption|]].
  - unfold dl_logs. clear -En'. revert idx En'. induction (sl_items (dl_native (r_datalog st))) as [| y r IH]; intros idx En;
      cbn [nthN map] in *; [discriminate|].
    destruct (idx =? 0); [now injection En as -> | auto].
  - unfold dl_logs, slab_put. rsimpl. cbn [sl_items]. now rewrite map_setN.
Qed.

(** [n] successive appends of the same item *)
Inductive appended_n (item : pubdata) : nat -> log pubdata -> log pubdata -> Prop :=
| app_zero l : appended_n item 0 l l
| app_succ n l l1 c l' : append pubdata_size l item = Ok (l1, c) -> appended_n item n l1 l' ->
                         appended_n item (S n) l l'.

Fixpoint countN (i : N) (l : list N) : nat :=
  match l with [] => O | x :: r => (if x =? i then 1 else 0) + countN i r end.

(** [append_all] appends the item to log [i] once per occurrence of [i] in the index list and
    changes no other log *)
Lemma append_all_logs idxs item : forall st st',
  append_all st idxs item = Ok st' ->
  forall i, match nthN (dl_logs (r_datalog st)) i with
            | Some (Some l) => exists l', nthN (dl_logs (r_datalog st')) i = Some (Some l') /\
                                          appended_n item (countN i idxs) l l'
            | x => nthN (dl_logs (r_datalog st')) i = x
            end.
Proof.
  induction idxs as [| idx r IH]; intros st st' H i; cbn [append_all countN] in *.
  - okinv. destruct (nthN (dl_logs (r_datalog st')) i) as [[l|]|]; eauto using app_zero.
  - destruct (data_append st idx item) as [st1 | |] eqn:E; cbn [bind] in H; try discriminate.
    apply data_append_logs in E as (l0 & l1 & c & Hn & Ha & Hl).
    specialize (IH _ _ H i). rewrite Hl in IH. rewrite nthN_setN in IH.
    destruct (N.eqb_spec idx i) as [<- | Hne].
    + rewrite Hn in *. destruct IH as (l' & Hl' & Hap). exists l'. split; [exact Hl'|].
      cbn [Nat.add]. eapply app_succ; eauto.
    + cbn [Nat.add]. exact IH.
Qed.

Lemma countN_notin i l : ~ In i l -> countN i l = O.
Proof.
  induction l as [| x r IH]; cbn [countN In]; [reflexivity|]. intros H.
  destruct (N.eqb_spec x i); [tauto|]. cbn [Nat.add]. apply IH. tauto.
Qed.
Lemma countN_nodup i l : NoDup l -> In i l -> countN i l = 1%nat.
Proof.
  induction l as [| x r IH]; cbn [countN In]; [tauto|]. intros Hnd [-> | Hin].
  - rewrite N.eqb_refl. inversion Hnd; subst. now rewrite countN_notin.
  - inversion Hnd; subst. destruct (N.eqb_spec x i) as [-> | _]; [tauto|]. cbn [Nat.add]. auto.
Qed.

(* ------------------------------------------------------------------ handle_last_will *)
(** [c16_router], the [OpWill] half.  Without a registered entry nothing at all happens.  With
    one, the entry is removed; if its topic is not valid UTF-8 or is empty nothing else changes; otherwise the
    will (retain flag cleared; the flag only feeds the retained store, see C15) is appended to
    each log in the list [dl_matches] returns for the topic, once per occurrence, and to no other *)
Lemma handle_last_will_spec st client st' :
  handle_last_will st client = Ok st' ->
  match al_get str_eqb client (r_wills st) with
  | None => st' = st
  | Some w =>
      let st1 := set_r_wills st (al_remove str_eqb client (r_wills st)) in
      r_wills st' = al_remove str_eqb client (r_wills st) /\
      if will_deliverable w then
        exists st3 idxs,
          dl_matches (retain_update st1 (w_topic w) (will_publish w) (will_props w)) (w_topic w) = Ok (st3, idxs) /\
          forall i, match nthN (dl_logs (r_datalog st)) i with
                    | Some (Some l) =>
                        exists l', nthN (dl_logs (r_datalog st')) i = Some (Some l') /\
                                   appended_n (set_p_retain (will_publish w) false, will_props w) (countN i idxs) l l'
                    | x => nthN (dl_logs (r_datalog st')) i = x
                    end
      else st' = st1
  end.
Proof.
  intros H. unfold handle_last_will in H.
  destruct (al_get str_eqb client (r_wills st)) as [w|]; [|okinv; reflexivity].
  fold (will_publish w) in H. fold (will_props w) in H. cbn [p_topic will_publish] in H. fold (will_publish w) in H.
  cbn zeta. unfold will_deliverable.
  destruct (utf8_valid (w_topic w)); cbn [negb andb] in H |- *; [|okinv; rsimpl; auto].
  destruct (w_topic w) as [|t0 tr] eqn:Et; [okinv; rsimpl; auto|]. rewrite <- Et in *.
  set (st1 := set_r_wills st (al_remove str_eqb client (r_wills st))) in *.
  pose proof (retain_update_frame st1 (w_topic w) (will_publish w) (will_props w)) as (_ & Hw & _ & Hl & _).
  destruct (dl_matches _ (w_topic w)) as [[st3 idxs] | |] eqn:Em; cbn [bind] in H; try discriminate.
  destruct (append_all st3 idxs _) as [st4 | |] eqn:Ea; cbn [bind] in H; try discriminate.
  pose proof (append_all_logs _ _ _ _ Ea) as Hap. frames. unfold Kp, Kw in *. unfold st1 in *. rsimpl_all.
  split; [intuition congruence|]. exists st3, idxs. split; [reflexivity|].
  intros i. specialize (Hap i).
  replace (dl_logs (r_datalog st')) with (dl_logs (r_datalog st4)) by intuition congruence.
  replace (dl_logs (r_datalog st)) with (dl_logs (r_datalog st3)); [exact Hap|].
  intuition congruence.
Qed.

(** a client without a registered will: [OpWill] is the identity *)
Lemma handle_last_will_none st client :
  al_get str_eqb client (r_wills st) = None -> handle_last_will st client = Ok st.
Proof. intros H. unfold handle_last_will. now rewrite H. Qed.

(* ------------------------------------------------------------------ every op *)
Lemma al_remove_absent {V} k (m : list (str * V)) : al_get str_eqb k m = None -> al_remove str_eqb k m = m.
Proof.
  induction m as [| [k1 v1] r IH]; cbn [al_get al_remove]; [reflexivity|].
  destruct (str_eqb k k1); [discriminate | intros H; now rewrite IH].
Qed.

(** [c16_router]: the only ops that change [r_wills] are an admitted Connect (sets the client's
    entry if it carries a will, removes it otherwise), an [OpData] whose batch reaches a
    DISCONNECT packet (removes the sender's entry) and [OpWill] (removes the entry) *)
Lemma step_wills st o st' out :
  step st o = Ok (st', out) ->
  match o with
  | OpConnect c =>
      r_wills st' = r_wills st \/
      (exists w, cr_will c = Some w /\ r_wills st' = al_set str_eqb (cr_client c) w (r_wills st)) \/
      (cr_will c = None /\ r_wills st' = al_remove str_eqb (cr_client c) (r_wills st))
  | OpData id =>
      r_wills st' = match data_removes_will st id with
                    | Some c => al_remove str_eqb c (r_wills st)
                    | None => r_wills st
                    end
  | OpWill c => r_wills st' = al_remove str_eqb c (r_wills st)
  | _ => r_wills st' = r_wills st
  end.
Proof.
  intros H. unfold step in H. destruct o.
  - (* OpConnect *)
    okinv. match goal with E : handle_new_connection _ _ _ = Ok _ |- _ => apply hnc_wills in E; cbn zeta in E; cbn [c_client c_will] in E end.
    rsimpl_all.
    destruct E as [[_ ->] | (_ & st1 & _ & Hw1 & [[_ ->] | [_ Hw]])]; rsimpl_all; auto.
    destruct (cr_will c) as [w|]; [right; left; eauto | right; right; auto].
  - okinv; reflexivity.
  - okinv. now apply handle_device_payload_wills.
  - okinv. frames. unfold Kp in *. tauto.
  - okinv; reflexivity.
  - okinv; frames; unfold Kp in *; tauto.
  - okinv. frames. tauto.
  - okinv. frames. unfold Kp in *. tauto.
  - okinv. match goal with E : handle_last_will _ _ = Ok _ |- _ => apply handle_last_will_spec in E end.
    destruct (al_get str_eqb client (r_wills st)) eqn:Eg.
    + cbn zeta in E. tauto.
    + subst. now rewrite al_remove_absent.
  - okinv. reflexivity.
Qed.

(** every registered will was put there by a Connect of that client carrying that will *)
Lemma wills_provenance_run ops : forall st st' outs c w,
  run st ops = Ok (st', outs) -> In (c, w) (r_wills st') ->
  In (c, w) (r_wills st) \/
  exists orc cr, In (orc, OpConnect cr) ops /\ cr_client cr = c /\ cr_will cr = Some w.
Proof.
  induction ops as [| [orc o] r IH]; intros st st' outs c w H Hin; cbn [run] in H.
  - okinv. now left.
  - destruct (step_with st orc o) as [[st1 out] | |] eqn:E; cbn [bind] in H; try discriminate.
    destruct (run st1 r) as [[st2 outs2] | |] eqn:Er; cbn [bind] in H; try discriminate. okinv.
    destruct (IH _ _ _ _ _ Er Hin) as [Hin1 | (orc' & cr & Hi & Hc & Hw)].
    2: { right. exists orc', cr. split; [now right | auto]. }
    unfold step_with in E. okinv.
    match goal with E : step _ _ = Ok _ |- _ => apply step_wills in E; rename E into Hs end.
    destruct o; rsimpl_all.
    all: try (left; congruence).
    + destruct Hs as [Hs | [(w0 & Hcw & Hs) | (Hcw & Hs)]]; [left; congruence | |].
      * rewrite Hs in Hin1. apply (al_set_in str_eqb str_eqb_spec) in Hin1 as [Hin1 | [-> ->]]; [now left|].
        right. exists orc, c0. split; [now left | auto].
      * rewrite Hs in Hin1. left. eapply al_remove_incl; eauto.
    + destruct (data_removes_will _ id) as [c1|]; [|left; congruence].
      rewrite Hs in Hin1. left. eapply al_remove_incl; eauto.
    + rewrite Hs in Hin1. left. eapply al_remove_incl; eauto.
Qed.

Lemma init_wills cfg st : init cfg = Ok st -> r_wills st = [].
Proof. unfold init. intros H. okinv. reflexivity. Qed.

Lemma wills_provenance cfg ops st outs c w :
  run_from cfg ops = Ok (st, outs) -> In (c, w) (r_wills st) ->
  exists orc cr, In (orc, OpConnect cr) ops /\ cr_client cr = c /\ cr_will cr = Some w.
Proof.
  unfold run_from. intros H Hin. destruct (init cfg) as [st0 | |] eqn:E0; cbn [bind] in H; try discriminate.
  destruct (wills_provenance_run _ _ _ _ _ _ H Hin) as [Hin0 | Hx]; [|exact Hx].
  rewrite (init_wills _ _ E0) in Hin0. contradiction.
Qed.

(** a client that never connected with a will never causes an append through [OpWill] *)
Lemma no_will_no_append cfg ops st outs c :
  run_from cfg ops = Ok (st, outs) ->
  (forall orc cr, In (orc, OpConnect cr) ops -> cr_client cr = c -> cr_will cr = None) ->
  step st (OpWill c) = Ok (st, OutUnit).
Proof.
  intros H Hno. cbn [step]. rewrite handle_last_will_none; [reflexivity|].
  destruct (al_get str_eqb c (r_wills st)) as [w|] eqn:Eg; [|reflexivity]. exfalso.
  apply al_get_in in Eg; [|apply str_eqb_spec].
  destruct (wills_provenance _ _ _ _ _ _ H Eg) as (orc & cr & Hi & Hc & Hw).
  rewrite (Hno _ _ Hi Hc) in Hw. discriminate.
Qed.

(* ------------------------------------------------------------------ the current connection's will *)
(** [r_wills] has distinct keys in every reachable state (so removing an entry really removes it) *)
Lemma step_wills_nodup st o st' out :
  step st o = Ok (st', out) -> NoDup (map fst (r_wills st)) -> NoDup (map fst (r_wills st')).
Proof.
  intros H Hnd. apply step_wills in H. destruct o.
  all: try (rewrite H; exact Hnd).
  - destruct H as [-> | [(w & _ & ->) | (_ & ->)]]; [exact Hnd | |].
    + now apply al_set_nodup; [apply str_eqb_spec|].
    + now apply al_remove_nodup.
  - rewrite H. destruct (data_removes_will st id); [now apply al_remove_nodup | exact Hnd].
  - rewrite H. now apply al_remove_nodup.
Qed.

Lemma reachable_wills_nodup cfg st : reachable cfg st -> NoDup (map fst (r_wills st)).
Proof.
  apply (reachable_inv (fun s => NoDup (map fst (r_wills s)))).
  - intros st0 H0. rewrite (init_wills _ _ H0). constructor.
  - intros s orc o s' out Hs H. unfold step_with in H. okinv.
    match goal with E : step _ _ = Ok _ |- _ => apply step_wills_nodup in E; [exact E | exact Hs] end.
Qed.

(** after an ADMITTED Connect the entry of its client id is exactly the will this Connect carried *)
Lemma connect_registers st conn link st' st1 :
  handle_new_connection st conn link = Ok st' ->
  NoDup (map fst (r_wills st)) ->
  validate_clientid (c_client conn) = true -> takeover st (c_client conn) = Ok st1 ->
  (cf_max_connections (r_cfg st1) <=? slab_len (r_conns st1)) = false ->
  al_get str_eqb (c_client conn) (r_wills st') = c_will conn /\
  (forall c, c <> c_client conn -> al_get str_eqb c (r_wills st') = al_get str_eqb c (r_wills st)).
Proof.
  intros H Hnd Hv Ht Hcap. apply hnc_wills in H. cbn zeta in H.
  destruct H as [[Hv' _] | (_ & st1' & Ht' & _ & [[Hc _] | [_ Hw]])]; try congruence.
  rewrite Hw. destruct (c_will conn) as [w|].
  - split; [now apply al_get_set_same; apply str_eqb_spec|].
    intros c Hn. now apply al_get_set_other; [apply str_eqb_spec|].
  - split; [now apply al_get_remove_same; [apply str_eqb_spec|]|].
    intros c Hn. now apply al_get_remove_other; [apply str_eqb_spec|].
Qed.

Lemma al_get_remove_none {V} k k' (m : list (str * V)) :
  al_get str_eqb k m = None -> al_get str_eqb k (al_remove str_eqb k' m) = None.
Proof.
  intros H. apply (al_get_none str_eqb str_eqb_spec) in H. apply (al_get_none str_eqb str_eqb_spec).
  intros Hin. apply H. eapply al_remove_keys_incl; eauto.
Qed.

(** an absent entry stays absent as long as no Connect of that client id carries a will *)
Lemma will_absent_stable ops : forall st st' outs c,
  run st ops = Ok (st', outs) -> al_get str_eqb c (r_wills st) = None ->
  (forall orc cr, In (orc, OpConnect cr) ops -> cr_client cr = c -> cr_will cr = None) ->
  al_get str_eqb c (r_wills st') = None.
Proof.
  induction ops as [| [orc o] r IH]; intros st st' outs c H Hn Hno; cbn [run] in H.
  - okinv. exact Hn.
  - destruct (step_with st orc o) as [[st1 out] | |] eqn:E; cbn [bind] in H; try discriminate.
    destruct (run st1 r) as [[st2 outs2] | |] eqn:Er; cbn [bind] in H; try discriminate. okinv.
    eapply IH; [exact Er | | intros orc' cr Hi; apply (Hno orc' cr); now right].
    unfold step_with in E. okinv.
    match goal with E : step _ _ = Ok _ |- _ => apply step_wills in E; rename E into Hs end.
    destruct o; rsimpl_all; try (rewrite Hs; exact Hn).
    + destruct Hs as [-> | [(w & Hcw & ->) | (_ & ->)]]; [exact Hn | | now apply al_get_remove_none].
      destruct (str_eqb_spec c (cr_client c0)) as [-> | Hne].
      * rewrite (Hno orc c0 (or_introl eq_refl) eq_refl) in Hcw. discriminate.
      * rewrite al_get_set_other by (auto using str_eqb_spec). exact Hn.
    + rewrite Hs. destruct (data_removes_will _ id); [now apply al_get_remove_none | exact Hn].
    + rewrite Hs. now apply al_get_remove_none.
Qed.

(** [c16]: a client whose CURRENT connection registered no will never causes an append through
    [OpWill] — after an admitted will-less Connect of client [c], and any further ops among
    which no Connect of [c] carries a will, [OpWill c] is the identity *)
Lemma current_connection_without_will st conn link st' st1 ops st'' outs :
  handle_new_connection st conn link = Ok st' ->
  NoDup (map fst (r_wills st)) ->
  validate_clientid (c_client conn) = true -> takeover st (c_client conn) = Ok st1 ->
  (cf_max_connections (r_cfg st1) <=? slab_len (r_conns st1)) = false ->
  c_will conn = None ->
  run st' ops = Ok (st'', outs) ->
  (forall orc cr, In (orc, OpConnect cr) ops -> cr_client cr = c_client conn -> cr_will cr = None) ->
  step st'' (OpWill (c_client conn)) = Ok (st'', OutUnit).
Proof.
  intros H Hnd Hv Ht Hcap Hw Hrun Hno.
  destruct (connect_registers _ _ _ _ _ H Hnd Hv Ht Hcap) as [Hreg _]. rewrite Hw in Hreg.
  cbn [step]. rewrite handle_last_will_none; [reflexivity|].
  eapply will_absent_stable; eauto.
Qed.

(* ------------------------------------------------------------------ Example *)
Module C16Example.
Import C15Example.
Definition the_will : will := {| w_topic := [119;47;49]; w_message := [103;111;110;101]; w_qos := 1; w_retain := false; w_props := None |}.
(** "s" subscribes to w/#; "d" connects with a will on w/1; the link layer reports the abnormal
    end with PublishWill; the subscriber is forwarded the will exactly once; a second PublishWill
    (entry gone) and one for a client that never had a will append nothing *)
Definition ops : list op_in := map no
  [ OpConnect (creq [115] true None);
    OpPush 0 (PSubscribe 1 [([119;47;35], 1)] None);
    OpData 0; OpConsume; OpConsume;
    OpConnect (creq [100] true (Some the_will));
    OpDisconnect 1;
    OpWill [100];
    OpWill [100];
    OpWill [115];
    OpConsume; OpConsume; OpConsume;
    OpDrain 0 ].

Example will_delivered_once :
  option_map (fun o => last o OutUnit) (outs_of (run_from cfg0 ops)) =
  Some (OutDrain [NAck (AConnAck 0 false); NAck (ASubAck 1 [1]);
                  NForward (Some (0, 0)) (mkpub [119;47;49] [103;111;110;101] 1 1 false) None]).
Proof. vm_compute. reflexivity. Qed.

(** the hypotheses of [handle_last_will_spec] in the reachable state before the first OpWill:
    the entry exists, the topic is valid, [dl_matches] returns the subscriber's log *)
Example will_hypotheses :
  match run_from cfg0 (firstn 7 ops) with
  | Ok (st, _) =>
      al_get str_eqb [100] (r_wills st) = Some the_will /\ utf8_valid (w_topic the_will) = true /\
      match dl_matches (set_r_wills st (al_remove str_eqb [100] (r_wills st))) (w_topic the_will) with
      | Ok (_, idxs) => idxs = [0]
      | _ => False
      end /\
      match handle_last_will st [100] with
      | Ok st' => r_wills st' = [] /\ al_get str_eqb [115] (r_wills st') = None
      | _ => False
      end
  | _ => False
  end.
Proof. vm_compute. repeat split; reflexivity. Qed.

(** the stale-will finding, after its fix: a will-less Connect that takes over a connection which
    had registered a will removes the entry; the PublishWill that follows publishes nothing.
    (Before the fix — [handle_new_connection] left the entry in place — the same ops delivered
    the first connection's will; reproduced on the real router with: CONNECT d with will;
    CONNECT d without will; WILL d.) *)
Definition ops_takeover : list op_in := map no
  [ OpConnect (creq [115] true None);
    OpPush 0 (PSubscribe 1 [([119;47;35], 1)] None);
    OpData 0; OpConsume; OpConsume;
    OpConnect (creq [100] false (Some the_will));
    OpConnect (creq [100] false None);          (* takes over; carries no will *)
    OpWill [100];
    OpConsume; OpConsume; OpConsume;
    OpDrain 0 ].

Example stale_will_removed_by_takeover :
  (match run_from cfg0 (firstn 6 ops_takeover) with
   | Ok (st, _) => al_get str_eqb [100] (r_wills st) = Some the_will
   | _ => False
   end) /\
  (match run_from cfg0 (firstn 7 ops_takeover) with
   | Ok (st, _) => al_get str_eqb [100] (r_wills st) = None
   | _ => False
   end) /\
  option_map (fun o => last o OutUnit) (outs_of (run_from cfg0 ops_takeover)) =
  Some (OutDrain [NAck (AConnAck 0 false); NAck (ASubAck 1 [1])]).
Proof. vm_compute. repeat split; reflexivity. Qed.
End C16Example.
