(** RInv 5 (log part): every entry stored in the commit log of filter f is a publish whose
    topic matches f (MQTT rule, via [matches]) and whose retain flag is false; the filter
    index and the publish-filter cache only point at existing logs with matching filters.
    Proved for every function of Router.Model that touches [r_datalog], then (DataLogStep.v)
    for every step. *)
From Rumqtt Require Import Router.Model Router.LogAll Topic.Proofs.
From Coq Require Import ZifyBool ZifyN ZifyNat.

Ltac dobind H :=
  match type of H with
  | bind ?x _ = _ => let E := fresh "E" in destruct x eqn:E; cbn [bind] in H; try discriminate
  end.

(* ------------------------------------------------------------------ alists / lists *)
Lemma al_get_set_eq {V} k (v : V) m : al_get str_eqb k (al_set str_eqb k v m) = Some v.
Proof.
  induction m as [|[k' v'] r IH]; cbn [al_set al_get].
  - destruct (str_eqb_spec k k); congruence.
  - destruct (str_eqb_spec k k') as [->|Hn]; cbn [al_get].
    + destruct (str_eqb_spec k' k'); congruence.
    + destruct (str_eqb_spec k k'); congruence.
Qed.
Lemma al_get_set_neq {V} k k' (v : V) m : k' <> k -> al_get str_eqb k' (al_set str_eqb k v m) = al_get str_eqb k' m.
Proof.
  intros Hn. induction m as [|[k2 v2] r IH]; cbn [al_set al_get].
  - destruct (str_eqb_spec k' k); congruence.
  - destruct (str_eqb_spec k k2) as [->|Hn2]; cbn [al_get].
    + destruct (str_eqb_spec k' k2); congruence.
    + destruct (str_eqb_spec k' k2); congruence.
Qed.
Lemma al_get_In {V} k (v : V) m : al_get str_eqb k m = Some v -> In (k, v) m.
Proof.
  induction m as [|[k' v'] r IH]; cbn [al_get]; [discriminate|].
  destruct (str_eqb_spec k k') as [->|Hn]; intros H.
  - inversion H; subst. now left.
  - right. now apply IH.
Qed.

Lemma nthN_app_l {X} (l r : list X) : forall i, i < lenN l -> nthN (l ++ r) i = nthN l i.
Proof.
  unfold lenN. induction l as [|x l IH]; intros i Hi; cbn [length] in Hi; [lia|].
  cbn [app nthN]. destruct (N.eqb_spec i 0); [reflexivity|]. apply IH. lia.
Qed.
Lemma nthN_app_r {X} (l r : list X) : forall i, lenN l <= i -> nthN (l ++ r) i = nthN r (i - lenN l).
Proof.
  unfold lenN. induction l as [|x l IH]; intros i Hi; cbn [length app].
  - now rewrite N.sub_0_r.
  - cbn [length] in Hi. cbn [nthN]. destruct (N.eqb_spec i 0); [lia|].
    rewrite IH by lia. f_equal. lia.
Qed.
Lemma nthN_ge {X} (l : list X) : forall i, lenN l <= i -> nthN l i = None.
Proof.
  unfold lenN. induction l as [|x l IH]; intros i Hi; [reflexivity|].
  cbn [length] in Hi. cbn [nthN]. destruct (N.eqb_spec i 0); [lia|]. apply IH. lia.
Qed.
Lemma nthN_setN_eq {X} (l : list X) : forall i v, i < lenN l -> nthN (setN l i v) i = Some v.
Proof.
  unfold lenN. induction l as [|x l IH]; intros i v Hi; cbn [length] in Hi; [lia|].
  cbn [setN]. destruct (N.eqb_spec i 0) as [->|Hn]; cbn [nthN].
  - reflexivity.
  - destruct (N.eqb_spec i 0); [lia|]. apply IH. lia.
Qed.
Lemma nthN_setN_neq {X} (l : list X) : forall i j v, i <> j -> nthN (setN l i v) j = nthN l j.
Proof.
  induction l as [|x l IH]; intros i j v Hn; [reflexivity|].
  cbn [setN]. destruct (N.eqb_spec i 0) as [->|Hi]; cbn [nthN].
  - destruct (N.eqb_spec j 0); [lia|reflexivity].
  - destruct (N.eqb_spec j 0); [reflexivity|]. apply IH. lia.
Qed.
Lemma nthN_Some_lt {X} (l : list X) : forall i x, nthN l i = Some x -> i < lenN l.
Proof.
  intros i x H. destruct (N.ltb_spec i (lenN l)); [assumption|]. rewrite nthN_ge in H by assumption. discriminate.
Qed.

(* ------------------------------------------------------------------ slab facts (append-only slab) *)
Lemma slab_get_put_eq {A} (s : slab A) k a a0 : slab_get s k = Some a0 -> slab_get (slab_put s k a) k = Some a.
Proof.
  unfold slab_get, slab_put; cbn [sl_items]. intros H.
  destruct (nthN (sl_items s) k) as [o|] eqn:E; [|discriminate].
  rewrite nthN_setN_eq by (eapply nthN_Some_lt; eassumption). reflexivity.
Qed.
Lemma slab_get_put_neq {A} (s : slab A) k k' a : k <> k' -> slab_get (slab_put s k a) k' = slab_get s k'.
Proof. unfold slab_get, slab_put; cbn [sl_items]. intros H. now rewrite nthN_setN_neq. Qed.

Lemma slab_insert_nofree {A} (s : slab A) a s' k :
  sl_free s = [] -> slab_insert s a = (s', k) ->
  k = lenN (sl_items s) /\ sl_free s' = [] /\
  (forall j, slab_get s' j = if j =? k then Some a else slab_get s j).
Proof.
  unfold slab_insert. intros Hf H. rewrite Hf in H. inversion H; subst; clear H.
  split; [reflexivity|]. split; [reflexivity|]. intros j. unfold slab_get; cbn [sl_items].
  destruct (N.eqb_spec j (lenN (sl_items s))) as [->|Hn].
  - rewrite nthN_app_r by lia. rewrite N.sub_diag. reflexivity.
  - destruct (N.ltb_spec j (lenN (sl_items s))).
    + now rewrite nthN_app_l.
    + rewrite nthN_app_r by lia. rewrite (nthN_ge (sl_items s)) by lia.
      assert (j - lenN (sl_items s) <> 0) by lia.
      cbn [nthN]. destruct (N.eqb_spec (j - lenN (sl_items s)) 0); [lia|reflexivity].
Qed.

(* ------------------------------------------------------------------ the invariant *)
Definition EntryOk (f : str) (e : pubdata) : Prop :=
  matches (p_topic (fst e)) f = Ok true /\ p_retain (fst e) = false.
Definition DataOk (d : data) : Prop := LogAll (EntryOk (d_filter d)) (d_log d).

Record DLInv (dl : datalog) : Prop := {
  dli_nofree : sl_free (dl_native dl) = [];
  dli_data : forall i d, slab_get (dl_native dl) i = Some d -> DataOk d;
  dli_findex : forall f i, In (f, i) (dl_findex dl) ->
               exists d, slab_get (dl_native dl) i = Some d /\ d_filter d = f;
  dli_pfilters : forall t v, In (t, v) (dl_pfilters dl) -> forall i, In i v ->
               exists d, slab_get (dl_native dl) i = Some d /\ matches t (d_filter d) = Ok true;
}.

Lemma matches_ok t f : exists b, matches t f = Ok b.
Proof. unfold matches. destruct (starts_with_dollar t); eauto. Qed.

(** matching_idxs returns only indices of filters matching the topic *)
Lemma matching_idxs_spec t : forall fi v, matching_idxs t fi = Ok v ->
  forall i, In i v -> exists f, In (f, i) fi /\ matches t f = Ok true.
Proof.
  induction fi as [|[f j] r IH]; cbn [matching_idxs]; intros v H i Hi.
  - inversion H; subst. destruct Hi.
  - unfold topic_matches in H. destruct (matches_ok t f) as [b Eb]. rewrite Eb in H. cbn [bind] in H.
    dobind H. inversion H; subst; clear H.
    destruct b.
    + destruct Hi as [<-|Hi].
      * exists f. split; [now left|assumption].
      * destruct (IH _ eq_refl i Hi) as (f' & Hin & Hm). exists f'. split; [now right|assumption].
    + destruct (IH _ eq_refl i Hi) as (f' & Hin & Hm). exists f'. split; [now right|assumption].
Qed.

Lemma al_set_In {V} k (v : V) m k' v' : In (k', v') (al_set str_eqb k v m) -> (k' = k /\ v' = v) \/ In (k', v') m.
Proof.
  induction m as [|[k2 v2] r IH]; cbn [al_set].
  - intros [H|[]]; inversion H; subst; left; split; reflexivity.
  - destruct (str_eqb_spec k k2) as [->|Hn].
    + intros [H|H]; [inversion H; subst; left; split; reflexivity|right; now right].
    + intros [H|H]; [right; now left|]. destruct (IH H) as [Hl|Hr]; [now left|right; now right].
Qed.

(* ------------------------------------------------------------------ datalog functions *)
Lemma set_mem_In x l : set_mem N.eqb x l = true -> In x l.
Proof.
  induction l as [|y r IH]; cbn [set_mem]; [discriminate|].
  destruct (N.eqb_spec x y) as [->|Hn]; cbn [orb]; intros H; [now left|right; now apply IH].
Qed.
Lemma perm_ofN_incl v base : perm_ofN v base = true -> forall i, In i v -> In i base.
Proof.
  unfold perm_ofN. intros H i Hi. apply andb_true_iff in H as [_ H].
  rewrite forallb_forall in H. apply set_mem_In. now apply H.
Qed.

(** DataLog::matches: the returned indices all denote logs whose filter matches the topic *)
Lemma dl_matches_inv st t st' v :
  DLInv (r_datalog st) -> dl_matches st t = Ok (st', v) ->
  DLInv (r_datalog st') /\
  (forall i, In i v -> exists d, slab_get (dl_native (r_datalog st')) i = Some d /\ matches t (d_filter d) = Ok true) /\
  dl_native (r_datalog st') = dl_native (r_datalog st).
Proof.
  intros HI H. unfold dl_matches in H.
  destruct (al_get str_eqb t (dl_pfilters (r_datalog st))) as [v0|] eqn:Ec.
  - inversion H; subst. split; [assumption|]. split; [|reflexivity].
    intros i Hi. eapply dli_pfilters; eauto using al_get_In.
  - dobind H. rename a into base.
    assert (Hbase : forall i, In i base -> exists d, slab_get (dl_native (r_datalog st)) i = Some d /\ matches t (d_filter d) = Ok true).
    { intros i Hi. destruct (matching_idxs_spec _ _ _ E i Hi) as (f & Hin & Hm).
      destruct (dli_findex _ HI _ _ Hin) as (d & Hd & Hf). exists d. subst f. split; assumption. }
    dobind H. destruct a as [v1 orc]. inversion H; subst; clear H.
    assert (Hv : forall i, In i v -> In i base).
    { destruct base as [|b0 [|b1 br]].
      - inversion E0; subst. tauto.
      - inversion E0; subst. tauto.
      - destruct (r_oracle st) as [|[ov| |] orc']; try discriminate.
        destruct (perm_ofN ov (b0 :: b1 :: br)) eqn:Ep; [|discriminate].
        inversion E0; subst. now apply perm_ofN_incl. }
    assert (Hnat : forall dl', dl_native dl' = dl_native (r_datalog st) ->
              forall i, In i v -> exists d, slab_get (dl_native dl') i = Some d /\ matches t (d_filter d) = Ok true).
    { intros dl' Hd i Hi. rewrite Hd. apply Hbase. now apply Hv. }
    destruct v as [|v0 vr]; cbn [r_datalog set_r_oracle set_r_datalog].
    + split; [assumption|]. split; [intros i []|reflexivity].
    + split; [|split; [apply Hnat; reflexivity|reflexivity]].
      destruct HI as [H1 H2 H3 H4]. constructor; cbn [set_dl_pfilters dl_native dl_findex dl_pfilters]; try assumption.
      intros t' v' Hin i Hi. apply al_set_In in Hin as [[-> ->]|Hin].
      * apply Hbase. now apply Hv.
      * eapply H4; eassumption.
Qed.

Lemma pfilters_add_spec idx f : forall pf pf', pfilters_add idx f pf = Ok pf' ->
  forall t v, In (t, v) pf' ->
  exists v0, In (t, v0) pf /\ (v = v0 \/ (v = v0 ++ [idx] /\ matches t f = Ok true)).
Proof.
  induction pf as [|[t0 v0] r IH]; cbn [pfilters_add]; intros pf' H t v Hin.
  - inversion H; subst. destruct Hin.
  - unfold topic_matches in H. destruct (matches_ok t0 f) as [b Eb]. rewrite Eb in H. cbn [bind] in H.
    dobind H. inversion H; subst; clear H.
    destruct Hin as [Hin|Hin].
    + inversion Hin; subst. exists v0. split; [now left|]. destruct b; [right; split; [reflexivity|assumption]|now left].
    + destruct (IH _ eq_refl _ _ Hin) as (v1 & H1 & H2). exists v1. split; [now right|assumption].
Qed.

Lemma data_new_ok cfg f d : data_new cfg f = Ok d -> d_filter d = f /\ DataOk d.
Proof.
  unfold data_new. intros H. dobind H. inversion H; subst. split; [reflexivity|].
  unfold DataOk; cbn [d_filter d_log]. eapply logall_new; eassumption.
Qed.

Lemma next_native_offset_inv st f st' idx cu :
  DLInv (r_datalog st) -> next_native_offset st f = Ok (st', idx, cu) ->
  DLInv (r_datalog st') /\
  (exists d, slab_get (dl_native (r_datalog st')) idx = Some d /\ d_filter d = f).
Proof.
  intros HI H. unfold next_native_offset in H.
  destruct (al_get str_eqb f (dl_findex (r_datalog st))) as [i|] eqn:Ef.
  - dobind H. dobind H. inversion H; subst. split; [assumption|].
    eapply dli_findex; eauto using al_get_In.
  - dobind H. rename a into d. destruct (data_new_ok _ _ _ E) as [Hdf Hdo].
    destruct (slab_insert (dl_native (r_datalog st)) d) as [native' k] eqn:Ei.
    destruct (slab_insert_nofree _ _ _ _ (dli_nofree _ HI) Ei) as (Hk & Hfree & Hget).
    dobind H. rename a into pf. dobind H. inversion H; subst st' idx cu; clear H.
    cbn [r_datalog set_r_datalog].
    assert (Hold : forall j d0, slab_get (dl_native (r_datalog st)) j = Some d0 -> slab_get native' j = Some d0).
    { intros j d0 Hj. rewrite Hget. destruct (N.eqb_spec j k) as [->|]; [|assumption].
      exfalso. unfold slab_get in Hj. rewrite Hk in Hj. rewrite nthN_ge in Hj by lia. discriminate. }
    split.
    + constructor; cbn [dl_native dl_findex dl_pfilters].
      * assumption.
      * intros j d0 Hj. rewrite Hget in Hj. destruct (j =? k); [inversion Hj; subst; assumption|].
        eapply dli_data; eassumption.
      * intros f' i' Hin. apply al_set_In in Hin as [[-> ->]|Hin].
        -- exists d. split; [|assumption]. rewrite Hget, N.eqb_refl. reflexivity.
        -- destruct (dli_findex _ HI _ _ Hin) as (d0 & H0 & H1). exists d0. split; [now apply Hold|assumption].
      * intros t v Hin i Hi.
        destruct (pfilters_add_spec _ _ _ _ E0 _ _ Hin) as (v0 & Hin0 & [->|[-> Hm]]).
        -- destruct (dli_pfilters _ HI _ _ Hin0 _ Hi) as (d0 & H0 & H1). exists d0. split; [now apply Hold|assumption].
        -- apply in_app_or in Hi as [Hi|[<-|[]]].
           ++ destruct (dli_pfilters _ HI _ _ Hin0 _ Hi) as (d0 & H0 & H1). exists d0. split; [now apply Hold|assumption].
           ++ exists d. split; [rewrite Hget, N.eqb_refl; reflexivity|]. now rewrite Hdf.
    + exists d. split; [rewrite Hget, N.eqb_refl; reflexivity|assumption].
Qed.

Lemma native_get_Some dl i d : native_get dl i = Ok d -> slab_get (dl_native dl) i = Some d.
Proof. unfold native_get. destruct (slab_get (dl_native dl) i); intros H; inversion H; reflexivity. Qed.

(** replacing a log's data by one with the same filter and an [LogAll] log keeps the invariant *)
Lemma dlinv_put dl i d d' :
  DLInv dl -> slab_get (dl_native dl) i = Some d -> d_filter d' = d_filter d -> DataOk d' ->
  DLInv (set_dl_native dl (slab_put (dl_native dl) i d')).
Proof.
  intros [H1 H2 H3 H4] Hg Hf Hok. constructor; cbn [set_dl_native dl_native dl_findex dl_pfilters].
  - assumption.
  - intros j d0 Hj. destruct (N.eq_dec i j) as [<-|Hn].
    + rewrite (slab_get_put_eq _ _ _ _ Hg) in Hj. inversion Hj; subst. assumption.
    + rewrite slab_get_put_neq in Hj by assumption. eapply H2; eassumption.
  - intros f j Hin. destruct (H3 _ _ Hin) as (d0 & Hd0 & Hf0). destruct (N.eq_dec i j) as [<-|Hn].
    + rewrite Hg in Hd0. inversion Hd0; subst d0. exists d'. split; [eapply slab_get_put_eq; eassumption|congruence].
    + exists d0. split; [now rewrite slab_get_put_neq|assumption].
  - intros t v Hin j Hj. destruct (H4 _ _ Hin _ Hj) as (d0 & Hd0 & Hm). destruct (N.eq_dec i j) as [<-|Hn].
    + rewrite Hg in Hd0. inversion Hd0; subst d0. exists d'. split; [eapply slab_get_put_eq; eassumption|congruence].
    + exists d0. split; [now rewrite slab_get_put_neq|assumption].
Qed.

Lemma data_append_inv st idx item st' :
  DLInv (r_datalog st) ->
  (forall d, slab_get (dl_native (r_datalog st)) idx = Some d -> EntryOk (d_filter d) item) ->
  data_append st idx item = Ok st' -> DLInv (r_datalog st').
Proof.
  intros HI Hitem H. unfold data_append in H. dobind H. rename a into d.
  apply native_get_Some in E. dobind H. destruct a as [l' off]. inversion H; subst; clear H.
  cbn [r_datalog set_r_notif set_r_datalog].
  eapply dlinv_put; eauto.
  unfold DataOk; cbn [d_filter d_log]. eapply logall_append; eauto.
  - eapply dli_data; eassumption.
Qed.

Lemma append_all_inv item : forall idxs st st',
  DLInv (r_datalog st) ->
  (forall i, In i idxs -> forall d, slab_get (dl_native (r_datalog st)) i = Some d -> EntryOk (d_filter d) item) ->
  append_all st idxs item = Ok st' -> DLInv (r_datalog st').
Proof.
  induction idxs as [|i r IH]; cbn [append_all]; intros st st' HI Hit H.
  - inversion H; subst; assumption.
  - dobind H. rename a into st1.
    assert (HI1 : DLInv (r_datalog st1)) by (eapply data_append_inv; eauto; intros d Hd; eapply Hit; eauto; now left).
    eapply IH; [exact HI1| |exact H].
    (* filters of the data entries do not change under data_append *)
    intros j Hj d Hd.
    unfold data_append in E. dobind E. rename a into d0. apply native_get_Some in E0.
    dobind E. destruct a as [l' off]. inversion E; subst st1; clear E.
    cbn [r_datalog set_r_notif set_r_datalog set_dl_native dl_native] in Hd.
    destruct (N.eq_dec i j) as [<-|Hn].
    + rewrite (slab_get_put_eq _ _ _ _ E0) in Hd. inversion Hd; subst d. cbn [d_filter].
      eapply (Hit i); [now left|eassumption].
    + rewrite slab_get_put_neq in Hd by assumption. eapply (Hit j); [now right|eassumption].
Qed.
