(** C14 (isolation between clients), part 1: what belongs to one connection, and the frame of
    every router function that serves connection [id] on the part that belongs to another
    connection [w <> id], for the functions that do not append to a filter log.

    [isoq w st st'] ("quiet"): the five slab entries of [w], its requests waiting in
    [notifications], its occurrences in the ready queue and its memberships in
    [subscription_map] are literally unchanged; its requests parked in the waiters of each
    filter log are the same requests, up to the order inside one log's waiter queue
    ([Waiters::remove] of ANOTHER connection uses [swap_remove_back], which moves the last entry
    of the queue into the hole).
    [gfr st st'] is the global part: [connection_map] and the Incoming slab unchanged, every key
    keeps its client id, every Outgoing keeps its client id and link, the slab of filter logs
    still has an empty free list.
    [fq id st st'] = [gfr] and [isoq w] for every [w <> id]: what a function serving [id] does. *)
From Coq Require Import ZifyBool ZifyN ZifyNat Permutation.
From Rumqtt Require Import Router.Model Router.InvLemmasBase Router.DataLogInv Router.WindowFrame Router.Window.

(* ------------------------------------------------------------------ what belongs to a connection *)
(** the requests of connection [w] in a list of (connection id, request), in order *)
Definition wsel (w : N) (l : list (N * drequest)) : list drequest :=
  map snd (filter (fun x : N * drequest => fst x =? w) l).
Definition waiters_at (st : rstate) (idx : N) : list (N * drequest) :=
  match slab_get (dl_native (r_datalog st)) idx with Some d => d_waiters d | None => [] end.
(** the requests of [w] parked on filter log [idx] *)
Definition waiting (st : rstate) (w idx : N) : list drequest := wsel w (waiters_at st idx).
(** the occurrences of [w] in the ready queue *)
Definition rdy (w : N) (st : rstate) : list N := filter (N.eqb w) (r_ready st).
(** is [w] registered in subscription_map under filter [f] *)
Definition smem (m : list (str * list N)) (w : N) (f : str) : bool :=
  match al_get str_eqb f m with Some ids => set_mem N.eqb w ids | None => false end.
Definition sub_mem (st : rstate) (w : N) (f : str) : bool := smem (r_submap st) w f.
Definition client_at (st : rstate) (k : N) : option str := option_map c_client (slab_get (r_conns st) k).
Definition NF (st : rstate) : Prop := sl_free (dl_native (r_datalog st)) = [].

Record isoq (w : N) (st st' : rstate) : Prop := {
  q_conn : slab_get (r_conns st') w = slab_get (r_conns st) w;
  q_ibuf : slab_get (r_ibufs st') w = slab_get (r_ibufs st) w;
  q_obuf : slab_get (r_obufs st') w = slab_get (r_obufs st) w;
  q_acks : slab_get (r_acks st') w = slab_get (r_acks st) w;
  q_trk : slab_get (r_trackers st') w = slab_get (r_trackers st) w;
  q_notif : wsel w (r_notif st') = wsel w (r_notif st);
  q_wait : forall idx, Permutation (waiting st' w idx) (waiting st w idx);
  q_ready : rdy w st' = rdy w st;
  q_sub : forall f, sub_mem st' w f = sub_mem st w f
}.

(** client id and link number recorded in the Outgoing of key [k] *)
Definition okey_at (st : rstate) (k : N) : option (str * N) :=
  option_map (fun o => (o_client o, o_link o)) (slab_get (r_obufs st) k).

Record gfr (st st' : rstate) : Prop := {
  g_cmap : r_cmap st' = r_cmap st;
  g_client : forall k, client_at st' k = client_at st k;
  g_nf : NF st -> NF st';
  g_ibufs : r_ibufs st' = r_ibufs st;
  g_okey : forall k, okey_at st' k = okey_at st k
}.

(** a function serving connection [id] *)
Definition fq (id : N) (st st' : rstate) : Prop := gfr st st' /\ forall w, w <> id -> isoq w st st'.

Lemma isoq_refl w st : isoq w st st.
Proof. constructor; auto. Qed.
Lemma isoq_trans w a b c : isoq w a b -> isoq w b c -> isoq w a c.
Proof.
  intros [] []. constructor; try congruence.
  intros idx. etransitivity; eauto.
Qed.
Lemma gfr_refl st : gfr st st.
Proof. constructor; auto. Qed.
Lemma gfr_trans a b c : gfr a b -> gfr b c -> gfr a c.
Proof.
  intros [A1 A2 A3 A4 A5] [B1 B2 B3 B4 B5]. constructor; [congruence | | auto | congruence |].
  - intros k. now rewrite B2.
  - intros k. now rewrite B5.
Qed.
Lemma fq_refl id st : fq id st st.
Proof. split; [apply gfr_refl | intros; apply isoq_refl]. Qed.
Lemma fq_trans id a b c : fq id a b -> fq id b c -> fq id a c.
Proof.
  intros [G1 H1] [G2 H2]. split; [eapply gfr_trans; eauto |].
  intros w Hw. eapply isoq_trans; eauto.
Qed.

(* ------------------------------------------------------------------ list facts *)
Lemma wsel_app w a b : wsel w (a ++ b) = wsel w a ++ wsel w b.
Proof. unfold wsel. now rewrite filter_app, map_app. Qed.
Lemma wsel_nil w : wsel w [] = [].
Proof. reflexivity. Qed.
Lemma wsel_cons_other w id rq l : id <> w -> wsel w ((id, rq) :: l) = wsel w l.
Proof. intros H. unfold wsel. cbn [filter fst]. destruct (id =? w) eqn:E; [lia | reflexivity]. Qed.
Lemma wsel_cons_same w rq l : wsel w ((w, rq) :: l) = rq :: wsel w l.
Proof. unfold wsel. cbn [filter fst]. rewrite N.eqb_refl. reflexivity. Qed.
Lemma wsel_perm w a b : Permutation a b -> Permutation (wsel w a) (wsel w b).
Proof.
  intros H. unfold wsel. apply Permutation_map.
  induction H as [| x l l' H IH | x y l | l l' l'' H1 IH1 H2 IH2]; cbn [filter].
  - constructor.
  - destruct (fst x =? w); [now constructor | exact IH].
  - destruct (fst x =? w), (fst y =? w); try reflexivity. constructor.
  - etransitivity; eauto.
Qed.
Lemma wsel_none w l : Forall (fun x : N * drequest => fst x <> w) l -> wsel w l = [].
Proof.
  induction 1 as [| [c rq] l H _ IH]; [reflexivity |]. cbn [fst] in H. now rewrite wsel_cons_other.
Qed.

Lemma set_mem_app w a b : set_mem N.eqb w (a ++ b) = set_mem N.eqb w a || set_mem N.eqb w b.
Proof. induction a as [| x a IH]; cbn [app set_mem]; [reflexivity |]. now rewrite IH, orb_assoc. Qed.
Lemma set_mem_add_other w id ids : w <> id -> set_mem N.eqb w (set_add N.eqb id ids) = set_mem N.eqb w ids.
Proof.
  intros H. unfold set_add. destruct (set_mem N.eqb id ids); [reflexivity |].
  rewrite set_mem_app. cbn [set_mem]. replace (w =? id) with false by lia. now rewrite !orb_false_r.
Qed.
Lemma set_mem_del_other w id ids : w <> id -> set_mem N.eqb w (set_del N.eqb id ids) = set_mem N.eqb w ids.
Proof.
  intros H. unfold set_del. induction ids as [| x r IH]; [reflexivity |]. cbn [filter set_mem].
  destruct (N.eqb_spec id x) as [<- | Hx]; cbn [negb set_mem].
  - replace (w =? id) with false by lia. exact IH.
  - now rewrite IH.
Qed.

Lemma smem_set m w path v f :
  smem (al_set str_eqb path v m) w f = if str_eqb f path then set_mem N.eqb w v else smem m w f.
Proof.
  unfold smem. destruct (str_eqb f path) eqn:E.
  - apply str_eqb_eq in E. subst. now rewrite al_get_set_eq.
  - apply str_eqb_neq in E. now rewrite al_get_set_neq.
Qed.
(** registering / unregistering connection [id] under [path] does not change the membership of [w] *)
Lemma smem_add_other m w id path f : w <> id ->
  smem (match al_get str_eqb path m with
        | Some ids => al_set str_eqb path (set_add N.eqb id ids) m
        | None => al_set str_eqb path [id] m
        end) w f = smem m w f.
Proof.
  intros H. destruct (al_get str_eqb path m) as [ids |] eqn:G; rewrite smem_set; destruct (str_eqb f path) eqn:E; try reflexivity.
  - apply str_eqb_eq in E. subst. unfold smem. rewrite G. now apply set_mem_add_other.
  - apply str_eqb_eq in E. subst. unfold smem. rewrite G. cbn [set_mem]. replace (w =? id) with false by lia. reflexivity.
Qed.
Lemma smem_del_other m w id path f : w <> id ->
  smem (match al_get str_eqb path m with
        | Some ids => al_set str_eqb path (set_del N.eqb id ids) m
        | None => m
        end) w f = smem m w f.
Proof.
  intros H. destruct (al_get str_eqb path m) as [ids |] eqn:G; [| reflexivity].
  rewrite smem_set. destruct (str_eqb f path) eqn:E; [| reflexivity].
  apply str_eqb_eq in E. subst. unfold smem. rewrite G. now apply set_mem_del_other.
Qed.
Lemma smem_remove_id m subs w id f : w <> id -> smem (submap_remove_id m subs id) w f = smem m w f.
Proof.
  intros H. unfold smem. induction m as [| [k ids] r IH]; cbn [submap_remove_id al_get]; [reflexivity |].
  destruct (str_eqb f k); [| exact IH].
  destruct (set_mem str_eqb k subs); [now apply set_mem_del_other | reflexivity].
Qed.
Lemma smem_add_all subs w id f : w <> id -> forall m, smem (submap_add_all m subs id) w f = smem m w f.
Proof.
  intros H. induction subs as [| p r IH]; intros m; cbn [submap_add_all]; [reflexivity |].
  rewrite IH. now apply smem_add_other.
Qed.

Lemma rdy_app w st x : rdy w (set_r_ready st (r_ready st ++ [x])) = rdy w st ++ (if w =? x then [x] else []).
Proof. unfold rdy. rsimpl. rewrite filter_app. cbn [filter]. reflexivity. Qed.

Lemma swap_remove_back_perm {X} (l : list X) : forall i x l',
  swap_remove_back l i = Some (x, l') -> Permutation l (x :: l').
Proof.
  induction l as [| a l IH]; intros i x l' H; cbn [swap_remove_back] in H; [discriminate |].
  destruct (i =? 0).
  - destruct (rev l) as [| lst mid] eqn:Er; inversion H; subst; clear H.
    + assert (l = []) by (rewrite <- (rev_involutive l), Er; reflexivity). subst. reflexivity.
    + assert (El : l = rev mid ++ [lst]) by (rewrite <- (rev_involutive l), Er; reflexivity).
      constructor. rewrite El. rewrite Permutation_app_comm. reflexivity.
  - destruct (swap_remove_back l (i - 1)) as [[y r'] |] eqn:E; inversion H; subst; clear H.
    apply IH in E. rewrite E. constructor.
Qed.

Lemma position_id_hit l id : forall off i, position_id l id off = Some i ->
  exists c rq, nthN l (i - off) = Some (c, rq) /\ c = id /\ off <= i.
Proof.
  induction l as [| [c rq] l IH]; intros off i H; cbn [position_id] in H; [discriminate |].
  destruct (c =? id) eqn:E.
  - inversion H; subst. exists c, rq. cbn [nthN]. replace (i - i =? 0) with true by lia.
    split; [reflexivity | split; lia].
  - apply IH in H as (c' & rq' & H1 & H2 & H3). exists c', rq'. cbn [nthN].
    replace (i - off =? 0) with false by lia. replace (i - off - 1) with (i - (off + 1)) by lia.
    split; [exact H1 | split; [exact H2 | lia]].
Qed.

Lemma swap_remove_back_nth {X} (l : list X) : forall i x l',
  swap_remove_back l i = Some (x, l') -> nthN l i = Some x.
Proof.
  induction l as [| a l IH]; intros i x l' H; cbn [swap_remove_back nthN] in *; [discriminate |].
  destruct (i =? 0).
  - destruct (rev l); inversion H; reflexivity.
  - destruct (swap_remove_back l (i - 1)) as [[y r'] |] eqn:E; inversion H; subst; clear H.
    eapply IH; eauto.
Qed.

(** removing the waiters of [id] permutes the waiters of [w <> id] *)
Lemma waiters_remove_other w id : id <> w -> forall fuel l l' q,
  waiters_remove fuel l id = (l', q) -> Permutation (wsel w l') (wsel w l).
Proof.
  intros Hne. induction fuel as [| fuel IH]; intros l l' q H; cbn [waiters_remove] in H.
  - inversion H; subst. reflexivity.
  - destruct (position_id l id 0) as [i |] eqn:Ep; [| inversion H; subst; reflexivity].
    destruct (swap_remove_back l i) as [[[c rq] l1] |] eqn:Es; [| inversion H; subst; reflexivity].
    destruct (waiters_remove fuel l1 id) as [l2 rqs] eqn:Er. inversion H; subst; clear H.
    apply IH in Er. rewrite Er.
    pose proof (swap_remove_back_nth _ _ _ _ Es) as Hn.
    apply position_id_hit in Ep as (c' & rq' & Hp & Hc & _). rewrite N.sub_0_r in Hp.
    rewrite Hn in Hp. assert (c = id) by congruence. subst c. clear Hp Hc.
    apply swap_remove_back_perm in Es. apply (wsel_perm w) in Es.
    rewrite wsel_cons_other in Es by exact Hne. symmetry. exact Es.
Qed.

Lemma position_req_hit l id f : forall off i, position_req l id f off = Some i ->
  exists c rq, nthN l (i - off) = Some (c, rq) /\ c = id /\ off <= i.
Proof.
  induction l as [| [c rq] l IH]; intros off i H; cbn [position_req] in H; [discriminate |].
  destruct ((c =? id) && str_eqb (dr_filter rq) f) eqn:E.
  - inversion H; subst. exists c, rq. cbn [nthN]. replace (i - i =? 0) with true by lia.
    apply andb_prop in E as [E _]. split; [reflexivity | split; lia].
  - apply IH in H as (c' & rq' & H1 & H2 & H3). exists c', rq'. cbn [nthN].
    replace (i - off =? 0) with false by lia. replace (i - off - 1) with (i - (off + 1)) by lia.
    split; [exact H1 | split; [exact H2 | lia]].
Qed.

(* ------------------------------------------------------------------ waiters of the native slab *)
Definition items_waiting (w : N) (items : list (option data)) (idx : N) : list drequest :=
  match nthN items idx with Some (Some d) => wsel w (d_waiters d) | _ => [] end.

Lemma waiting_items st w idx :
  waiting st w idx = items_waiting w (sl_items (dl_native (r_datalog st))) idx.
Proof.
  unfold waiting, waiters_at, items_waiting, slab_get.
  destruct (nthN (sl_items (dl_native (r_datalog st))) idx) as [[d |] |]; reflexivity.
Qed.

Lemma clean_items_other w id : id <> w -> forall items items' q,
  clean_items items id = (items', q) ->
  forall idx, Permutation (items_waiting w items' idx) (items_waiting w items idx).
Proof.
  intros Hne. induction items as [| [d |] items IH]; intros items' q H idx; cbn [clean_items] in H.
  - inversion H; subst. reflexivity.
  - destruct (waiters_remove (S (length (d_waiters d))) (d_waiters d) id) as [w' q1] eqn:Ew.
    destruct (clean_items items id) as [r' q2] eqn:Er. inversion H; subst; clear H.
    unfold items_waiting. cbn [nthN]. destruct (idx =? 0).
    + cbn [d_waiters set_d_waiters]. eapply waiters_remove_other; eauto.
    + apply (IH _ _ eq_refl).
  - destruct (clean_items items id) as [r' q2] eqn:Er. inversion H; subst; clear H.
    unfold items_waiting. cbn [nthN]. destruct (idx =? 0); [reflexivity |]. apply (IH _ _ eq_refl).
Qed.

Lemma remove_waiter_items_other w id f : id <> w -> forall items idx,
  Permutation (items_waiting w (remove_waiter_items items id f) idx) (items_waiting w items idx).
Proof.
  intros Hne. induction items as [| [d |] items IH]; intros idx; cbn [remove_waiter_items].
  - reflexivity.
  - destruct (position_req (d_waiters d) id f 0) as [i |] eqn:Ep.
    + destruct (swap_remove_back (d_waiters d) i) as [[[c rq] l1] |] eqn:Es; [| reflexivity].
      unfold items_waiting. cbn [nthN]. destruct (idx =? 0); [| reflexivity].
      cbn [d_waiters set_d_waiters].
      pose proof (swap_remove_back_nth _ _ _ _ Es) as Hn.
      apply position_req_hit in Ep as (c' & rq' & Hp & Hc & _). rewrite N.sub_0_r in Hp.
      rewrite Hn in Hp. assert (c = id) by congruence. subst c. clear Hp Hc.
      apply swap_remove_back_perm in Es. apply (wsel_perm w) in Es.
      rewrite wsel_cons_other in Es by exact Hne. symmetry. exact Es.
    + unfold items_waiting. cbn [nthN]. destruct (idx =? 0); [reflexivity |]. apply IH.
  - unfold items_waiting. cbn [nthN]. destruct (idx =? 0); [reflexivity |]. apply IH.
Qed.

(* ------------------------------------------------------------------ frame tactics *)
Ltac rs := rsimpl; cbn [set_dl_native dl_native set_dl_findex set_dl_retained set_dl_pfilters dl_findex
                        dl_retained dl_pfilters] in *.

(** prove [isoq w st st'] for an explicit [st'] whose datalog waiters and notifications are
    those of [st] *)
Ltac isoq_tac :=
  constructor; rs;
  try (rewrite ?slab_get_put_other by congruence; reflexivity);
  try reflexivity;
  try (intros ?; reflexivity).

Lemma gfr_same st st' :
  r_cmap st' = r_cmap st -> r_conns st' = r_conns st -> r_datalog st' = r_datalog st ->
  r_ibufs st' = r_ibufs st -> r_obufs st' = r_obufs st -> gfr st st'.
Proof. intros A B C D E. constructor; unfold client_at, NF, okey_at; now rewrite ?A, ?B, ?C, ?D, ?E. Qed.

Lemma isoq_same w st st' :
  r_conns st' = r_conns st -> r_ibufs st' = r_ibufs st -> r_obufs st' = r_obufs st ->
  r_acks st' = r_acks st -> r_trackers st' = r_trackers st -> r_notif st' = r_notif st ->
  r_datalog st' = r_datalog st -> r_ready st' = r_ready st -> r_submap st' = r_submap st -> isoq w st st'.
Proof.
  intros A B C D E F G H J. constructor; unfold waiting, waiters_at, rdy, sub_mem;
    rewrite ?A, ?B, ?C, ?D, ?E, ?F, ?G, ?H, ?J; reflexivity.
Qed.

(** the components [isoq]/[gfr] look at *)
Definition core (st : rstate) :=
  (r_cmap st, r_conns st, r_ibufs st, r_obufs st, r_acks st, r_trackers st, r_notif st, r_datalog st, r_ready st,
   r_submap st).
Lemma fq_core id st st' : core st' = core st -> fq id st st'.
Proof.
  unfold core. intros E. inversion E. split; [now apply gfr_same | intros w _; now apply isoq_same].
Qed.

Lemma client_at_put st id c c' k :
  slab_get (r_conns st) id = Some c -> c_client c' = c_client c ->
  client_at (put_conn st id c') k = client_at st k.
Proof.
  intros G E. unfold client_at. rsimpl. destruct (N.eq_dec id k) as [<- | Hne].
  - rewrite (slab_get_put_occ _ _ _ _ G), G. cbn [option_map]. now rewrite E.
  - now rewrite slab_get_put_other.
Qed.

Lemma fq_put_conn id st c c' :
  slab_get (r_conns st) id = Some c -> c_client c' = c_client c -> fq id st (put_conn st id c').
Proof.
  intros G E. split.
  - constructor; [reflexivity | intros k; eapply client_at_put; eauto | auto | reflexivity | reflexivity].
  - intros w Hw. isoq_tac.
Qed.
Lemma fq_put_tracker id st t : fq id st (put_tracker st id t).
Proof. split; [now apply gfr_same | intros w Hw; isoq_tac]. Qed.
Lemma fq_put_obuf id st o o' :
  slab_get (r_obufs st) id = Some o -> o_client o' = o_client o -> o_link o' = o_link o ->
  fq id st (put_obuf st id o').
Proof.
  intros G E1 E2. split; [| intros w Hw; isoq_tac].
  constructor; try reflexivity; [auto |]. intros k. unfold okey_at. rsimpl.
  destruct (N.eq_dec id k) as [<- | Hne].
  - rewrite (slab_get_put_occ _ _ _ _ G), G. cbn [option_map]. now rewrite E1, E2.
  - now rewrite slab_get_put_other.
Qed.
Lemma fq_put_acks id st a : fq id st (put_acks st id a).
Proof. split; [now apply gfr_same | intros w Hw; isoq_tac]. Qed.
Lemma fq_ready_app id st : fq id st (set_r_ready st (r_ready st ++ [id])).
Proof.
  split; [now apply gfr_same |]. intros w Hw. isoq_tac.
  rewrite (rdy_app w st id). replace (w =? id) with false by lia. apply app_nil_r.
Qed.
Lemma fq_ready_init id st init : r_ready st = init ++ [id] -> fq id st (set_r_ready st init).
Proof.
  intros E. split; [now apply gfr_same |]. intros w Hw. isoq_tac.
  unfold rdy. rsimpl. rewrite E, filter_app. cbn [filter]. replace (w =? id) with false by lia.
  now rewrite app_nil_r.
Qed.
Lemma fq_ready_tail id st rest : r_ready st = id :: rest -> fq id st (set_r_ready st rest).
Proof.
  intros E. split; [now apply gfr_same |]. intros w Hw. isoq_tac.
  unfold rdy. rsimpl. rewrite E. cbn [filter]. replace (w =? id) with false by lia. reflexivity.
Qed.

(* ------------------------------------------------------------------ scheduler *)
Lemma reschedule_fq st id why st' : reschedule st id why = Ok st' -> fq id st st'.
Proof.
  unfold reschedule, get_tracker. intros H. break_all H; inv_ok.
  - eapply fq_trans; [apply (fq_put_tracker id st t) | apply (fq_ready_app id (put_tracker st id t))].
  - apply fq_put_tracker.
Qed.
Lemma track_fq st id rq st' : track st id rq = Ok st' -> fq id st st'.
Proof. unfold track, get_tracker. intros H. break_all H; inv_ok. apply fq_put_tracker. Qed.
Lemma trackv_fq st id rqs st' : trackv st id rqs = Ok st' -> fq id st st'.
Proof. unfold trackv, get_tracker. intros H. break_all H; inv_ok. apply fq_put_tracker. Qed.
Lemma untrack_fq st id f st' : untrack st id f = Ok st' -> fq id st st'.
Proof. unfold untrack, get_tracker. intros H. break_all H; inv_ok. apply fq_put_tracker. Qed.
Lemma pause_fq st id why st' : pause st id why = Ok st' -> fq id st st'.
Proof.
  unfold pause, get_tracker. intros H.
  destruct (split_last_n (r_ready st)) as [[init last] |] eqn:Es; [| discriminate].
  apply split_last_n_spec in Es.
  destruct (last =? id) eqn:El; [| discriminate]. assert (last = id) by lia. subst last.
  break_all H; inv_ok.
  eapply fq_trans; [apply (fq_ready_init id st init Es) | apply fq_put_tracker].
Qed.
Lemma commit_ack_fq st id a st' : commit_ack st id a = Ok st' -> fq id st st'.
Proof. intros H. apply commit_ack_spec in H as (l & _ & ->). apply fq_put_acks. Qed.
Lemma push_out_fq id st k ns st' len : push_out st k ns = Ok (st', len) -> fq id st st'.
Proof. intros H. apply push_out_fields in H. rewrite H. apply fq_core. reflexivity. Qed.

(* ------------------------------------------------------------------ datalog *)
Lemma dl_matches_fq id st t st' v : dl_matches st t = Ok (st', v) -> fq id st st'.
Proof.
  unfold dl_matches. intros H. break_all H; inv_ok; try apply fq_refl.
  all: split; [constructor; unfold client_at, NF, okey_at; rs; auto | intros w Hw; constructor; unfold waiting, waiters_at, rdy; rs; auto].
Qed.

Lemma waiting_insert_nofree st w (d : data) native' k idx :
  NF st -> d_waiters d = [] -> slab_insert (dl_native (r_datalog st)) d = (native', k) ->
  wsel w (match slab_get native' idx with Some d => d_waiters d | None => [] end) = waiting st w idx.
Proof.
  intros Hnf Hd Hi. destruct (slab_insert_nofree _ _ _ _ Hnf Hi) as (Hk & _ & Hget).
  rewrite Hget. unfold waiting, waiters_at. destruct (N.eqb_spec idx k) as [-> | Hne].
  - rewrite Hd. unfold slab_get. rewrite Hk. rewrite nthN_ge by lia. reflexivity.
  - reflexivity.
Qed.

Lemma next_native_offset_fq id st f st' i c :
  next_native_offset st f = Ok (st', i, c) -> NF st -> fq id st st'.
Proof.
  unfold next_native_offset, data_new. intros H Hnf.
  destruct (al_get str_eqb f (dl_findex (r_datalog st))).
  - break_all H; inv_ok. apply fq_refl.
  - apply bind_ok in H as (d & Hd & H). apply bind_ok in Hd as (l & _ & Hd). inv_ok.
    destruct (slab_insert _ _) as [native' idx] eqn:Ei in H.
    apply bind_ok in H as (pf & _ & H). apply bind_ok in H as (cu & _ & H). inv_ok.
    split.
    + constructor; unfold client_at, NF, okey_at; rs; auto. intros _.
      now destruct (slab_insert_nofree _ _ _ _ Hnf Ei) as (_ & Hf & _).
    + intros w Hw. constructor; rs; try reflexivity. intros j. unfold waiting at 1, waiters_at. rs.
      erewrite <- (waiting_insert_nofree st w _ native' i j Hnf); [reflexivity | | exact Ei]. reflexivity.
Qed.

Lemma waiters_at_put st idx d d' j :
  slab_get (dl_native (r_datalog st)) idx = Some d ->
  waiters_at (set_r_datalog st (set_dl_native (r_datalog st) (slab_put (dl_native (r_datalog st)) idx d'))) j =
  if j =? idx then d_waiters d' else waiters_at st j.
Proof.
  intros G. unfold waiters_at. rs. destruct (N.eqb_spec j idx) as [-> | Hne].
  - now rewrite (slab_get_put_occ _ _ _ _ G).
  - rewrite slab_get_put_other by congruence. reflexivity.
Qed.

Lemma park_fq st id rq st' : park st id rq = Ok st' -> fq id st st'.
Proof.
  unfold park, native_get. intros H.
  destruct (slab_get (dl_native (r_datalog st)) (dr_idx rq)) as [d |] eqn:G; [| discriminate].
  cbn [bind] in H. inv_ok. split.
  - constructor; unfold client_at, NF, okey_at; rs; auto.
  - intros w Hw. constructor; rs; try reflexivity. intros j. unfold waiting. rewrite (waiters_at_put _ _ _ _ _ G).
    destruct (N.eqb_spec j (dr_idx rq)) as [-> | Hne]; [| reflexivity].
    cbn [set_d_waiters d_waiters]. rewrite wsel_app, wsel_cons_other, wsel_nil, app_nil_r by congruence.
    unfold waiters_at. now rewrite G.
Qed.

Lemma remove_waiters_for_id_fq st id f st' : remove_waiters_for_id st id f = Ok st' -> fq id st st'.
Proof.
  unfold remove_waiters_for_id. intros H. inv_ok. split.
  - constructor; unfold client_at, NF, okey_at; rs; auto.
  - intros w Hw. constructor; rs; try reflexivity. intros j. rewrite !waiting_items. rs.
    apply remove_waiter_items_other. congruence.
Qed.

Lemma read_retained_fq id st f st' l : read_retained st f = Ok (st', l) -> fq id st st'.
Proof. unfold read_retained. intros H. break_all H; inv_ok; apply fq_core; reflexivity. Qed.
Lemma update_next_client_fq id st g st' g' : update_next_client st g = Ok (st', g') -> fq id st st'.
Proof. unfold update_next_client. intros H. break_all H; inv_ok; apply fq_core; reflexivity. Qed.
Lemma retain_update_fq id st t p pr : fq id st (retain_update st t p pr).
Proof.
  unfold retain_update. destruct (p_retain p); [destruct (p_payload p) |]; try apply fq_refl.
  all: split; [constructor; unfold client_at, NF, okey_at; rs; auto | intros w Hw; constructor; unfold waiting, waiters_at, rdy; rs; auto].
Qed.

(* ------------------------------------------------------------------ subscribe / unsubscribe *)
Lemma fq_set_submap id st m :
  (forall w f, w <> id -> smem m w f = smem (r_submap st) w f) -> fq id st (set_r_submap st m).
Proof.
  intros H. split; [now apply gfr_same |]. intros w Hw. constructor; unfold waiting, waiters_at, rdy, sub_mem; rs; try reflexivity.
  intros f. now apply H.
Qed.

Lemma fq_core_r id a b c : fq id a b -> core c = core b -> fq id a c.
Proof. intros H E. eapply fq_trans; [exact H | now apply fq_core]. Qed.
Lemma fq_core_l id a b c : core b = core a -> fq id b c -> fq id a c.
Proof. intros E H. eapply fq_trans; [apply fq_core; exact E | exact H]. Qed.

Lemma prepare_filter_fq st id cu fidx path qos grp subid st' :
  prepare_filter st id cu fidx path qos grp subid = Ok st' -> fq id st st'.
Proof.
  unfold prepare_filter, get_conn, dbg_no_dups. intros H. cbv zeta in H.
  match type of H with context [slab_get (r_conns ?s) id] => set (st1 := s) in * end.
  assert (T1 : fq id st st1) by (apply fq_set_submap; intros w f Hw; now apply smem_add_other).
  destruct (slab_get (r_conns st1) id) as [conn |] eqn:G; [| discriminate]. cbn [bind] in H.
  match type of H with context [set_mem str_eqb path (c_subs ?c)] => set (conn1 := c) in * end.
  match type of H with context [put_conn ?s id conn1] => set (st2 := s) in * end.
  assert (T2 : core st2 = core st1) by reflexivity.
  assert (G2 : slab_get (r_conns st2) id = Some conn) by exact G.
  assert (C1 : c_client conn1 = c_client conn) by (unfold conn1; destruct subid; reflexivity).
  eapply fq_trans; [exact T1 |]. eapply fq_core_l; [exact T2 |].
  destruct (set_mem str_eqb path (c_subs conn1)).
  - inv_ok. eapply fq_put_conn; eauto.
  - apply bind_ok in H as (st4 & H4 & H). apply bind_ok in H as (st5 & H5 & H). apply bind_ok in H as (_ & _ & H).
    inv_ok. eapply fq_trans; [eapply (fq_put_conn id st2 conn (set_c_subs conn1 (c_subs conn1 ++ [path]))); [exact G2 | exact C1] |].
    eapply fq_trans; [eapply track_fq; exact H4 | eapply reschedule_fq; exact H5].
Qed.

Lemma fq_nf id st st' : fq id st st' -> NF st -> NF st'.
Proof. intros [[_ _ H] _]. exact H. Qed.

Lemma subscribe_filters_fq fs : forall st id subid fl codes st' fl' codes',
  subscribe_filters st id fs subid fl codes = Ok (st', fl', codes') -> NF st -> fq id st st'.
Proof.
  induction fs as [| [path qos] r IH]; intros st id subid fl codes st' fl' codes' H Hnf;
    cbn [subscribe_filters] in H.
  - inv_ok. apply fq_refl.
  - destruct (negb (validate_subscription path)); [inv_ok; apply fq_refl |].
    destruct (match extract_group path with Some (g, p) => (Some g, p) | None => (None, path) end) as [grp filter].
    destruct (match subid with Some 0 => true | _ => false end); [inv_ok; apply fq_refl |].
    apply bind_ok in H as ([[st1 idx] cu] & H1 & H). apply bind_ok in H as (st2 & H2 & H).
    apply (next_native_offset_fq id) in H1; [| exact Hnf]. apply prepare_filter_fq in H2.
    pose proof (fq_trans _ _ _ _ H1 H2) as H12.
    eapply fq_trans; [exact H12 |]. eapply IH; [exact H |]. eapply fq_nf; eauto.
Qed.

Lemma wsel_filter_other w id (g : drequest -> bool) l : w <> id ->
  wsel w (filter (fun x : N * drequest => negb ((fst x =? id) && g (snd x))) l) = wsel w l.
Proof.
  intros Hne. induction l as [| [c rq] l IH]; [reflexivity |]. cbn [filter fst snd].
  destruct (N.eqb_spec c id) as [-> | Hc]; cbn [andb negb].
  - destruct (g rq); cbn [negb]; rewrite ?wsel_cons_other by congruence; exact IH.
  - unfold wsel in *. cbn [filter fst]. destruct (c =? w); cbn [map]; now rewrite IH.
Qed.

Lemma unsubscribe_filters_fq fs : forall st id client reasons st' reasons',
  unsubscribe_filters st id client fs reasons = Ok (st', reasons') -> fq id st st'.
Proof.
  induction fs as [| f r IH]; intros st id client reasons st' reasons' H;
    cbn [unsubscribe_filters] in H.
  - inv_ok. apply fq_refl.
  - cbv zeta in H.
    destruct (negb _) in H; [now apply IH in H |].
    match type of H with context [get_conn ?s id] => remember s as st1 eqn:Est1 end.
    assert (K1 : fq id st st1).
    { subst st1. destruct (al_get str_eqb f (r_submap st)) as [ids |] eqn:Ef; [| apply fq_refl].
      apply fq_set_submap. intros w f' Hw. pose proof (smem_del_other (r_submap st) w id f f' Hw) as X.
      rewrite Ef in X. exact X. }
    clear Est1. unfold get_conn in H.
    destruct (slab_get (r_conns st1) id) as [conn |] eqn:G; [| discriminate]. cbn [bind] in H.
    destruct (negb _) in H; [apply IH in H; eapply fq_trans; eauto |].
    apply bind_ok in H as (st4 & H4 & H). apply bind_ok in H as (st5 & H5 & H).
    apply IH in H. apply untrack_fq in H4. apply remove_waiters_for_id_fq in H5.
    eapply fq_trans; [exact K1 |].
    match type of H4 with fq _ (set_r_groups (put_conn _ _ ?c1) ?g) _ =>
      apply (fq_trans id st1 (put_conn st1 id c1)); [apply (fq_put_conn id st1 conn c1 G); reflexivity |];
      apply (fq_trans id _ (set_r_groups (put_conn st1 id c1) g)); [apply fq_core; reflexivity |]
    end.
    eapply fq_trans; [exact H4 |].
    eapply fq_trans; [exact H5 |]. eapply fq_trans; [| exact H].
    split; [now apply gfr_same |]. intros w Hw. constructor; unfold waiting, waiters_at, rdy; rs; try reflexivity.
    apply (wsel_filter_other w id (fun rq => str_eqb (dr_filter rq) f)). exact Hw.
Qed.

(* ------------------------------------------------------------------ handle_disconnection *)
Lemma dl_clean_other w id dl dl' q : id <> w -> dl_clean dl id = (dl', q) ->
  (forall idx, Permutation (items_waiting w (sl_items (dl_native dl')) idx) (items_waiting w (sl_items (dl_native dl)) idx)) /\
  sl_free (dl_native dl') = sl_free (dl_native dl).
Proof.
  intros Hne H. unfold dl_clean in H. destruct (clean_items (sl_items (dl_native dl)) id) as [items q'] eqn:E.
  inversion H; subst; clear H. cbn [set_dl_native dl_native sl_items sl_free]. split; [| reflexivity].
  eapply clean_items_other; eauto.
Qed.

Lemma handle_disconnection_iso st id reason st' :
  handle_disconnection st id reason = Ok st' ->
  (forall w, w <> id -> isoq w st st') /\ (NF st -> NF st') /\
  (st' = st \/ exists o0, slab_get (r_obufs st) id = Some o0 /\
                          r_cmap st' = al_remove str_eqb (o_client o0) (r_cmap st)).
Proof.
  intros H. destruct (slab_get (r_obufs st) id) as [o0 |] eqn:G.
  2:{ rewrite (handle_disconnection_noop _ _ _ G) in H. inv_ok.
      split; [intros; apply isoq_refl | split; [auto | now left]]. }
  destruct (handle_disconnection_frame _ _ _ _ _ H G) as (F1 & F2 & F3 & F4 & F5 & _).
  unfold handle_disconnection in H. rewrite G in H.
  apply bind_ok in H as (st0 & H0 & H).
  assert (F0 : st0 = set_r_links st (r_links st0)).
  { destruct reason as [rc |].
    - apply bind_ok in H0 as ([s l] & H0 & H1). inv_ok. eapply push_out_fields; eauto.
    - inv_ok. now destruct st0. }
  assert (EQ : r_notif st' = r_notif st /\ r_ready st' = r_ready st /\
               r_cmap st' = al_remove str_eqb (o_client o0) (r_cmap st) /\
               (exists q, dl_clean (r_datalog st) id = (r_datalog st', q)) /\
               (exists subs, r_submap st' = submap_remove_id (r_submap st) subs id)).
  { rewrite F0 in H. clear F0 H0. rs.
    destruct (dl_clean (r_datalog st) id) as [dl q] eqn:Ec.
    break_all H; inv_ok; rs; (split; [reflexivity | split; [reflexivity | split; [reflexivity | split; eauto]]]). }
  destruct EQ as (E1 & E2 & E3 & (q & E4) & (subs & E5)).
  split; [| split; [| right; eauto]].
  - intros w Hw. constructor.
    + rewrite F3. replace (w =? id) with false by lia. reflexivity.
    + rewrite F5. replace (w =? id) with false by lia. reflexivity.
    + rewrite F1. replace (w =? id) with false by lia. reflexivity.
    + rewrite F2. replace (w =? id) with false by lia. reflexivity.
    + rewrite F4. replace (w =? id) with false by lia. reflexivity.
    + now rewrite E1.
    + intros idx. rewrite !waiting_items. eapply dl_clean_other; [| exact E4]. congruence.
    + unfold rdy. now rewrite E2.
    + intros f. unfold sub_mem. rewrite E5. now apply smem_remove_id.
  - unfold NF. intros Hnf. assert (Hx : id <> id + 1) by lia. destruct (dl_clean_other (id + 1) id _ _ _ Hx E4) as [_ Hf]. congruence.
Qed.
