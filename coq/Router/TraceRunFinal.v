(** C01 at the level of whole runs — completeness at quiescence for a PLAIN subscription, with
    everything named: the filter's log, the parked request, the key's history. *)
From Rumqtt Require Import Router.NoPanicLog.
From Rumqtt Require Import Router.Model Router.InvLemmasBase Router.Inv Router.NoPanic.
From Rumqtt Require Import Log.Proofs Router.ExactLog.
From Rumqtt Require Import Router.WindowFrame Router.DataLogInv Router.DataLogStep Router.ExactInv Router.ExactStep3.
From Rumqtt Require Import Router.Wake Router.WakeCor.
From Rumqtt Require Import Router.TraceRun Router.TraceRunHeld Router.TraceRunThm Router.TraceRunShape.
From Rumqtt Require Import Router.Model Router.RunDefs.
From Coq Require Import List ZifyBool ZifyN ZifyNat.
Import ListNotations.

Lemma run_dlinv cfg st0 ops st : init cfg = Ok st0 -> RunDefs.run st0 ops = Ok st -> DLInv (r_datalog st).
Proof.
  intros Hi Hr. eapply (RunDefs.run_inv (fun s => DLInv (r_datalog s))); [|eapply DataLogStep.init_inv; exact Hi|exact Hr].
  intros s orc o s' out I H. eapply DataLogStep.step_with_inv; eassumption.
Qed.

Theorem run_complete_plain cfg st0 ops st tr :
  cfg_ok cfg -> cf_max_outgoing cfg < B62 -> init cfg = Ok st0 -> ops_wf ops ->
  run_d st0 ops = Ok (st, tr) -> Bounded st ->
  1 <= cf_max_outgoing cfg -> quiescent st (owed_run st0 [] ops) ->
  forall id c o, slab_get (r_conns st) id = Some c -> slab_get (r_obufs st) id = Some o ->
  forall f, set_mem str_eqb f (c_subs c) = true -> extract_group f = None ->
  exists i d rq,
    al_get str_eqb f (dl_findex (r_datalog st)) = Some i /\
    nget (r_datalog st) i = Some d /\ d_filter d = f /\
    In (id, rq) (d_waiters d) /\ dr_filter rq = f /\ dr_idx rq = i /\ dr_group rq = None /\
    snd (dr_cursor rq) = end_of (d_log d) /\
    (exists a l, ktrace (o_link o, f, i) tr = a :: l /\ ((exists cl c0, a = KRes cl c0) \/ exists e, a = KSub e)) /\
    forall l1 a l2, ktrace (o_link o, f, i) tr = l1 ++ a :: l2 ->
      forall x, nxt a <= x < end_of (d_log d) -> covered x l2.
Proof.
  intros Hcfg Hlt Hi Hwf Hr HB Hmo Hq id c o Hc Ho f Hf Hplain.
  destruct (c01_run_complete_gen_thm cfg st0 ops st tr Hcfg Hlt Hi Hwf Hr HB Hmo Hq id c o Hc Ho f Hf)
    as (i & d & rq & Hd & Hin & Hfl & Hidx & Hrest).
  assert (Hh : Held st id rq) by (right; left; exists i, d; auto).
  pose proof (run_request_shape cfg st0 ops st tr Hi Hr id rq Hh) as Hs. unfold shp in Hs.
  destruct (dr_group rq) as [g|] eqn:Eg.
  { destruct Hs as [p Hp]. rewrite Hfl, Hplain in Hp. discriminate. }
  destruct Hs as [_ Hfi]. rewrite Hfl, Hidx in Hfi.
  destruct (Hrest eq_refl) as (Hend & Hhead & Hcov).
  pose proof (run_dlinv cfg st0 ops st Hi (run_d_run _ _ _ _ Hr)) as HDL.
  destruct (dli_findex _ HDL _ _ (al_get_In _ _ _ Hfi)) as (d' & Hd' & Hdf).
  unfold nget in Hd. rewrite Hd in Hd'. inversion Hd'; subst d'.
  exists i, d, rq. repeat (split; [first [assumption|reflexivity]|]). exact Hcov.
Qed.
