(** C01/C08 at the level of whole runs — no saved cursor is ahead of its log.

    [CurB dl i c]: if the cursor [c] is stale in log [i] (its segment was evicted), its offset
    lies at or before the log's base.  [BI st]: this holds for the cursor of every non-shared
    request of every saved session (graveyard) and for the cursor of every window entry
    ([o_inflight]).  A window entry gets the cursor of an entry just read (its segment is held:
    [readv_exact]), a saved request gets its own cursor ([DI]: [CurAt]) or a window cursor
    (rewind), and the property survives every append ([dl_le]).  Consequence ([DI] with the
    unconditional [CurAt]): the first sweep of a RESTORED request, if its cursor is stale, jumps
    FORWARD to the log's base. *)
From Rumqtt Require Import Router.NoPanicLog.
From Rumqtt Require Import Router.Model Router.InvLemmasBase Router.Inv Router.InvLemmasPrim Router.InvLemmasSched
  Router.InvLemmasDl Router.InvLemmasRoute Router.InvLemmasConn Router.InvLemmasPkt Router.InvLemmasConsume
  Router.NoPanic Router.NoPanicDevBase Router.NoPanicDevInv Router.NoPanicDev1 Router.NoPanicDev2 Router.NoPanicDev3 Router.NoPanicDev4.
From Rumqtt Require Import Router.ExactLoc1 Router.ExactLoc2 Router.ExactLoc3.
From Rumqtt Require Import Log.Spec Log.Proofs Log.ListFacts Log.WfFacts Router.ExactLog Topic.Proofs.
From Rumqtt Require Import Router.WindowFrame Router.Window Router.WindowStep Router.DataLogInv Router.DataLogStep
                           Router.ExactInv Router.ExactStep1 Router.ExactStep2 Router.ExactStep3 Router.ExactLogs
                           Router.ExactSweep Router.ExactThm.
From Rumqtt Require Router.Session Router.SessionIds Router.IsolationFrame.
From Rumqtt Require Import Router.TraceRun Router.TraceRunHeld Router.TraceRunInv Router.TraceRunPkt Router.TraceRunSweep.
From Rumqtt Require Import Router.Model Router.RunDefs.
From Coq Require Import List ZifyBool ZifyN ZifyNat.
Import ListNotations.

(* ------------------------------------------------------------------ windows only lose their head *)
Definition osuf (o o' : outgoing) : Prop :=
  o_link o' = o_link o /\ exists l, o_inflight o = l ++ o_inflight o'.

Lemma osuf_refl o : osuf o o.
Proof. split; [reflexivity|exists []; reflexivity]. Qed.
Lemma osuf_trans a b c : osuf a b -> osuf b c -> osuf a c.
Proof. intros [A1 (l1 & A2)] [B1 (l2 & B2)]. split; [congruence|]. exists (l1 ++ l2). rewrite A2, B2, app_assoc. reflexivity. Qed.

Definition wsuf (st st' : rstate) : Prop :=
  forall c o', slab_get (r_obufs st') c = Some o' -> exists o, slab_get (r_obufs st) c = Some o /\ osuf o o'.

Lemma wsuf_refl st : wsuf st st.
Proof. intros c o' H. exists o'. split; [exact H|apply osuf_refl]. Qed.
Lemma wsuf_eq st st' : r_obufs st' = r_obufs st -> wsuf st st'.
Proof. intros E c o' H. rewrite E in H. exists o'. split; [exact H|apply osuf_refl]. Qed.
Lemma wsuf_trans a b c : wsuf a b -> wsuf b c -> wsuf a c.
Proof.
  intros A B k o3 H. destruct (B _ _ H) as (o2 & H2 & S2). destruct (A _ _ H2) as (o1 & H1 & S1).
  exists o1. split; [exact H1|eapply osuf_trans; eassumption].
Qed.

Lemma register_ack_osuf o pkid o' ok : register_ack o pkid = (o', ok) -> osuf o o'.
Proof.
  unfold register_ack. intros H. destruct (o_inflight o) as [| [[h x] y] r] eqn:E; [inv_ok; apply osuf_refl|].
  destruct (pkid =? h); inv_ok; [|apply osuf_refl]. split; [reflexivity|]. exists [(h, x, y)]. rewrite E. reflexivity.
Qed.
Lemma register_pubcomp_osuf o pkid o' ok : register_pubcomp o pkid = (o', ok) -> osuf o o'.
Proof.
  unfold register_pubcomp. intros H. destruct (o_pubrels o) as [| h r]; [inv_ok; apply osuf_refl|].
  destruct (pkid =? h); inv_ok; [|apply osuf_refl]. split; [reflexivity|exists []; reflexivity].
Qed.
Lemma osuf_pubrels o v : osuf o (set_o_pubrels o v).
Proof. split; [reflexivity|exists []; reflexivity]. Qed.

Lemma wsuf_put st id o o' : slab_get (r_obufs st) id = Some o -> osuf o o' -> wsuf st (put_obuf st id o').
Proof.
  intros G S c o2 H. revert H. rsimpl. intros H. destruct (N.eq_dec c id) as [-> | Hne].
  - rewrite (slab_get_put_occ _ _ _ _ G) in H. inversion H; subst. eauto.
  - rewrite slab_get_put_other in H by congruence. exists o2. split; [exact H|apply osuf_refl].
Qed.

Lemma wsuf_obufs st st2 st' : r_obufs st' = r_obufs st2 -> wsuf st st2 -> wsuf st st'.
Proof. intros E A c o' H. rewrite E in H. now apply A. Qed.

Lemma handle_packet_wsuf st id client pk fl st' fl' brk :
  handle_packet st id client pk fl = Ok (st', fl', brk) -> wsuf st st'.
Proof.
  unfold handle_packet, get_obuf, get_acks, get_conn, commit_ack, get_acks. intros H.
  destruct pk; break_all H; inv_ok; keeps2; unfold keep in *; rsimpl;
  repeat match goal with E : (_, _, _) = (_, _, _) |- _ => inversion E; clear E end.
  all: try (apply wsuf_eq; rsimpl; congruence).
  all: repeat match goal with
       | E : register_ack _ _ = _ |- _ => apply register_ack_osuf in E
       | E : register_pubcomp _ _ = _ |- _ => apply register_pubcomp_osuf in E
       end.
  all: try (eapply wsuf_put; eassumption).
  all: try (eapply wsuf_obufs; [| eapply wsuf_put; [eassumption |]]; [rsimpl; eassumption | eassumption]).
Qed.

Lemma handle_packets_wsuf pks : forall st id client fl st' fl',
  handle_packets st id client pks fl = Ok (st', fl') -> wsuf st st'.
Proof.
  induction pks as [| pk r IH]; intros st id client fl st' fl' H; cbn [handle_packets] in H.
  - inv_ok. apply wsuf_refl.
  - apply bind_ok in H as ([[st1 fl1] brk] & H1 & H). apply handle_packet_wsuf in H1.
    destruct brk; [inv_ok; exact H1 |]. apply IH in H. eapply wsuf_trans; eassumption.
Qed.

Lemma handle_disconnection_wsuf st id reason st' : handle_disconnection st id reason = Ok st' -> wsuf st st'.
Proof.
  intros H. destruct (slab_get (r_obufs st) id) as [o0 |] eqn:G.
  - destruct (handle_disconnection_frame _ _ _ _ _ H G) as (F1 & _).
    intros c o' Ho. rewrite F1 in Ho. destruct (c =? id); [discriminate|]. exists o'. split; [exact Ho|apply osuf_refl].
  - rewrite (handle_disconnection_noop _ _ _ G) in H. inv_ok. apply wsuf_refl.
Qed.


(** every window descends from the window under the same key by losing a prefix, or is empty *)
Definition wsufn (st st' : rstate) : Prop :=
  forall c o', slab_get (r_obufs st') c = Some o' ->
  o_inflight o' = [] \/ exists o, slab_get (r_obufs st) c = Some o /\ osuf o o'.

Lemma wsuf_wsufn st st' : wsuf st st' -> wsufn st st'.
Proof. intros H c o' Ho. right. now apply H. Qed.
(* ------------------------------------------------------------------ the requests a removal saves *)
Lemma waiters_remove_in id : forall fuel w w' q,
  waiters_remove fuel w id = (w', q) -> forall rq, In rq q -> In (id, rq) w.
Proof.
  induction fuel as [|fuel IH]; intros w w' q H rq Hin; cbn [waiters_remove] in H; [inversion H; subst; destruct Hin|].
  destruct (position_id w id 0) as [k|] eqn:Ep; [|inversion H; subst; destruct Hin].
  destruct (swap_remove_back w k) as [[[c rq1] w1]|] eqn:Es; [|inversion H; subst; destruct Hin].
  destruct (waiters_remove fuel w1 id) as [w2 rqs] eqn:Er. inversion H; subst; clear H.
  destruct (swap_remove_back_in _ _ _ _ Es) as [Hin1 Hsub].
  destruct Hin as [<- | Hin].
  - destruct (position_id_nth _ _ _ _ Ep) as (x & Hx & Hfx). rewrite N.sub_0_r in Hx.
    pose proof (IsolationFrame.swap_remove_back_nth _ _ _ _ Es) as Hn. rewrite Hn in Hx. inversion Hx; subst x. cbn [fst] in Hfx. now subst c.
  - apply Hsub. eapply IH; eassumption.
Qed.

Lemma clean_items_in id : forall items items' q,
  clean_items items id = (items', q) -> forall rq, In rq q -> exists d, In (Some d) items /\ In (id, rq) (d_waiters d).
Proof.
  induction items as [|[d|] r IH]; intros items' q H rq Hin; cbn [clean_items] in H.
  - inversion H; subst. destruct Hin.
  - destruct (waiters_remove (S (length (d_waiters d))) (d_waiters d) id) as [w' q1] eqn:E1.
    destruct (clean_items r id) as [r' q2] eqn:E2. inversion H; subst; clear H. apply in_app_or in Hin as [Hin | Hin].
    + exists d. split; [now left|]. eapply waiters_remove_in; eassumption.
    + destruct (IH _ _ eq_refl _ Hin) as (d0 & H1 & H2). exists d0. split; [now right|exact H2].
  - destruct (clean_items r id) as [r' q2] eqn:E2. inversion H; subst; clear H.
    destruct (IH _ _ eq_refl _ Hin) as (d0 & H1 & H2). exists d0. split; [now right|exact H2].
Qed.

Lemma In_nthN {X} (x : X) : forall l, In x l -> exists k, nthN l k = Some x.
Proof.
  induction l as [|y l IH]; intros H; [destruct H|]. destruct H as [-> | H].
  - exists 0. reflexivity.
  - destruct (IH H) as (k & Hk). exists (k + 1). cbn [nthN]. replace (k + 1 =? 0) with false by lia.
    now replace (k + 1 - 1) with k by lia.
Qed.

Lemma dl_clean_waits dl id rq : In rq (snd (dl_clean dl id)) -> Waits dl id rq.
Proof.
  unfold dl_clean. destruct (clean_items (sl_items (dl_native dl)) id) as [items q] eqn:E. cbn [snd]. intros Hin.
  destruct (clean_items_in _ _ _ _ E _ Hin) as (d & Hd & Hw). destruct (In_nthN _ _ Hd) as (k & Hk).
  exists k, d. split; [|exact Hw]. unfold nget, slab_get. now rewrite Hk.
Qed.

Lemma last_opt_some {X} (l : list X) : l <> [] -> exists a, last_opt l = Some a.
Proof.
  induction l as [|x l IH]; [contradiction|]. intros _. destruct l as [|y l]; [exists x; reflexivity|].
  destruct IH as (a & Ha); [discriminate|]. exists a. exact Ha.
Qed.


(* ------------------------------------------------------------------ the bound *)
Definition CurB (dl : datalog) (i : N) (c : cursor) : Prop :=
  forall d, nget dl i = Some d -> stale (d_log d) c = true -> snd c <= base_of (d_log d).

Lemma curb_mono dl dl' i c : LogsInv dl -> dl_le dl dl' -> CurOk dl i c -> CurB dl i c -> CurB dl' i c.
Proof.
  intros LI [Hle _] (d & Hd & Hiss & _) H d' Hd' Hst. destruct (Hle _ _ Hd) as (d2 & Hd2 & _ & L).
  rewrite Hd' in Hd2. inversion Hd2; subst d2.
  destruct (li_wf _ LI _ _ Hd) as [all W]. destruct (L all W) as (xs & _ & _ & Hb & Hs).
  destruct (stale (d_log d) c) eqn:E.
  - specialize (H _ Hd E). lia.
  - now apply Hs.
Qed.

Definition GB (dl : datalog) (gy : list (str * option session)) : Prop :=
  forall cl ss, In (cl, Some ss) gy -> forall rq, In rq (tr_reqs (ss_tracker ss)) -> dr_group rq = None ->
  CurB dl (dr_idx rq) (dr_cursor rq).
Definition IBo (dl : datalog) (o : outgoing) : Prop :=
  forall pk fi cu, In (pk, fi, Some cu) (o_inflight o) -> CurB dl fi cu.
Definition IB (dl : datalog) (obufs : slab outgoing) : Prop :=
  forall c o, slab_get obufs c = Some o -> IBo dl o.
Definition BI (st : rstate) : Prop := GB (r_datalog st) (r_graveyard st) /\ IB (r_datalog st) (r_obufs st).

Lemma osuf_incl o o' : osuf o o' -> incl (o_inflight o') (o_inflight o).
Proof. intros [_ (l & E)] x Hx. rewrite E. apply in_or_app. now right. Qed.

(** graveyard entries and window entries only vanish, logs only grow *)
Lemma bi_frame st st' :
  CInv st -> dl_le (r_datalog st) (r_datalog st') -> incl (r_graveyard st') (r_graveyard st) -> wsufn st st' ->
  BI st -> BI st'.
Proof.
  intros [LI CI] L Hg Hw [G I]. split.
  - intros cl ss Hin rq Hrq Hgr. apply Hg in Hin. eapply curb_mono; [exact LI|exact L| |eapply G; eassumption].
    pose proof (ci_grave _ _ CI) as F. rewrite Forall_forall in F. specialize (F _ Hin). unfold SessOk in F. cbn [snd] in F.
    rewrite Forall_forall in F. exact (proj1 (F _ Hrq)).
  - intros c o' Ho' pk fi cu Hin. destruct (Hw _ _ Ho') as [E | (o & Ho & Hs)]; [rewrite E in Hin; destruct Hin|].
    apply (osuf_incl _ _ Hs) in Hin. eapply curb_mono; [exact LI|exact L| |eapply I; eassumption].
    pose proof (ci_infl _ _ CI _ _ Ho) as F. rewrite Forall_forall in F. exact (F _ Hin).
Qed.

Lemma bi_same st st' :
  r_datalog st' = r_datalog st -> r_graveyard st' = r_graveyard st -> r_obufs st' = r_obufs st -> BI st -> BI st'.
Proof. unfold BI. intros -> -> ->. auto. Qed.

(* ------------------------------------------------------------------ a removal *)
Lemma al_set_In {V} k (v : V) : forall l k0 v0, In (k0, v0) (al_set str_eqb k v l) -> v0 = v \/ In (k0, v0) l.
Proof.
  induction l as [|[k' v'] l IH]; intros k0 v0 H; cbn [al_set] in H.
  - destruct H as [E | []]. inversion E. now left.
  - destruct (str_eqb k k').
    + destruct H as [E | H]; [inversion E; now left|right; now right].
    + destruct H as [E | H]; [right; now left|]. destruct (IH _ _ H) as [-> | X]; [now left|right; now right].
Qed.
Lemma al_remove_In {V} k : forall (l : list (str * V)) x, In x (al_remove str_eqb k l) -> In x l.
Proof.
  induction l as [|[k' v'] l IH]; intros x H; cbn [al_remove] in H; [destruct H|].
  destruct (str_eqb k k'); [now right|]. destruct H as [<- | H]; [now left|right; now apply IH].
Qed.

Lemma hdisc_grave st id reason st' conn outg trk :
  handle_disconnection st id reason = Ok st' ->
  slab_get (r_conns st) id = Some conn -> slab_get (r_obufs st) id = Some outg ->
  slab_get (r_trackers st) id = Some trk ->
  r_graveyard st' = al_set str_eqb (tr_id trk) (Session.saved_session st id conn outg trk)
                           (al_remove str_eqb (tr_id trk) (r_graveyard st)).
Proof.
  intros H Hc Ho Ht. unfold handle_disconnection in H. rewrite Ho in H. apply bind_ok in H as (st0 & H0 & H).
  assert (E0 : exists l, st0 = set_r_links st l).
  { destruct reason; [|inv_ok; exists (r_links st0); destruct st0; reflexivity].
    apply bind_ok in H0 as ([s l] & H0 & H1). inv_ok. apply WindowFrame.push_out_fields in H0. rewrite H0. eauto. }
  destruct E0 as (l & ->). rsimpl. unfold slab_remove in H. rewrite Hc, Ho, Ht in H.
  destruct (slab_get (r_ibufs st) id); [|discriminate]. destruct (slab_get (r_acks st) id); [|discriminate].
  unfold Session.saved_session. destruct (dl_clean (r_datalog st) id) as [dl q] eqn:Ed. cbn [snd].
  apply bind_ok in H as ([grave groups'] & Hg & H). inv_ok. cbn [r_graveyard].
  destruct (c_clean conn); cbn [negb] in Hg; [now inv_ok|].
  apply bind_ok in Hg as ([rqs' gs] & Hr & Hg). inv_ok. apply Session.rewind_requests_spec in Hr. now subst rqs'.
Qed.

Lemma disc_bi st id reason st' tr :
  CInv st -> DI st [] tr -> BI st -> handle_disconnection st id reason = Ok st' -> BI st'.
Proof.
  intros HC HDI [G I] H. destruct (handle_disconnection_cinv _ _ _ _ HC H) as [HC' L].
  pose proof HC as [LI CI].
  destruct (slab_get (r_obufs st) id) as [o|] eqn:Ho.
  2:{ rewrite (handle_disconnection_noop _ _ reason Ho) in H. inv_ok. now split. }
  assert (HI' : IB (r_datalog st') (r_obufs st')).
  { intros c o' Ho' pk fi cu Hin. destruct (handle_disconnection_wsuf _ _ _ _ H _ _ Ho') as (o0 & Ho0 & Hs).
    apply (osuf_incl _ _ Hs) in Hin. eapply curb_mono; [exact LI|exact L| |eapply I; eassumption].
    pose proof (ci_infl _ _ CI _ _ Ho0) as F. rewrite Forall_forall in F. exact (F _ Hin). }
  split; [|exact HI'].
  unfold handle_disconnection in H. pose proof H as H'. rewrite Ho in H'. apply bind_ok in H' as (st0 & H0 & H').
  assert (E0 : r_trackers st0 = r_trackers st /\ r_conns st0 = r_conns st).
  { destruct reason; [|inv_ok; auto]. apply bind_ok in H0 as ([s l] & H0 & H1). inv_ok. apply WindowFrame.push_out_fields in H0. rewrite H0. auto. }
  destruct E0 as [E1 E2]. rewrite E1, E2 in H'. unfold slab_remove in H'.
  destruct (slab_get (r_conns st) id) as [c|] eqn:Hc; [|discriminate].
  destruct (slab_get (r_ibufs st0) id); [|discriminate]. destruct (slab_get (r_obufs st0) id); [|discriminate].
  destruct (slab_get (r_trackers st) id) as [t|] eqn:Ht; [|discriminate]. clear H'.
  fold (handle_disconnection st id reason) in H.
  rewrite (hdisc_grave _ _ _ _ _ _ _ H Hc Ho Ht).
  intros cl ss Hin rq Hrq Hgr. apply al_set_In in Hin as [Es | Hin].
  - (* the session just saved *)
    unfold Session.saved_session in Es. destruct (c_clean c); [discriminate|]. inversion Es; subst ss. clear Es.
    cbn [ss_tracker tr_reqs] in Hrq. apply in_map_iff in Hrq as (rq0 & <- & Hin0).
    assert (Hh : Held st id rq0).
    { apply in_app_or in Hin0 as [Hin0 | Hin0]; [left; exists t; auto|right; left; now apply dl_clean_waits]. }
    assert (Hg0 : dr_group rq0 = None).
    { revert Hgr. unfold Session.rewind. destruct (al_get N.eqb (dr_idx rq0) _); auto. }
    assert (X : CurOk (r_datalog st) (dr_idx rq0) (dr_cursor (Session.rewind (retransmission_map (o_inflight o) []) rq0)) /\
                CurB (r_datalog st) (dr_idx rq0) (dr_cursor (Session.rewind (retransmission_map (o_inflight o) []) rq0))).
    { unfold Session.rewind. rewrite Session.retransmission_map_spec.
      destruct (Session.first_cursor (o_inflight o) (dr_idx rq0)) as [cu|] eqn:Ef.
      - cbn [set_dr_cursor dr_cursor]. apply Session.first_cursor_some in Ef as (pre & pk & post & Ei & _).
        assert (Hin : In (pk, dr_idx rq0, Some cu) (o_inflight o)) by (rewrite Ei; apply in_or_app; right; now left).
        split; [|eapply I; eassumption].
        pose proof (ci_infl _ _ CI _ _ Ho) as F. rewrite Forall_forall in F. exact (F _ Hin).
      - split; [exact (proj1 (held_rqok _ _ _ HC Hh))|].
        pose proof (di_ne _ _ _ HDI id o rq0 Ho (or_introl Hh) Hg0) as Hne.
        destruct (last_opt_some _ Hne) as (a & Ha).
        exact (proj2 (di_cur _ _ _ HDI id o rq0 a Ho (or_introl Hh) Hg0 Ha)). }
    destruct X as [X1 X2].
    assert (Ei : dr_idx (Session.rewind (retransmission_map (o_inflight o) []) rq0) = dr_idx rq0).
    { unfold Session.rewind. destruct (al_get N.eqb (dr_idx rq0) _); reflexivity. }
    rewrite Ei. eapply curb_mono; eassumption.
  - apply al_remove_In in Hin. eapply curb_mono; [exact LI|exact L| |eapply G; eassumption].
    pose proof (ci_grave _ _ CI) as F. rewrite Forall_forall in F. specialize (F _ Hin). unfold SessOk in F. cbn [snd] in F.
    rewrite Forall_forall in F. exact (proj1 (F _ Hrq)).
Qed.

(* ------------------------------------------------------------------ a sweep: the cursors it puts into the window *)
Definition QP (Q : cursor -> Prop) (x : option cursor * publish * option pprops) : Prop :=
  match fst (fst x) with Some c => Q c | None => True end.

Lemma alias_forwards_qp Q qos subid : forall l bal bal' l',
  Forall (QP Q) l -> alias_forwards bal qos subid l = (bal', l') -> Forall (QP Q) l'.
Proof.
  induction l as [|[[c p] pr] r IH]; cbn [alias_forwards]; intros bal bal' l' HF H.
  - inv_ok. constructor.
  - inversion HF as [|? ? Hx Hr]; subst.
    match type of H with (match ?X with _ => _ end) = _ => destruct X as [[bal1 p2] pr1] eqn:EX end.
    destruct (alias_forwards bal1 qos subid r) as [bal2 r'] eqn:Er. inv_ok.
    constructor; [exact Hx|eapply IH; eassumption].
Qed.

Lemma number_forwards_ib dl fidx : forall fw o o' ns,
  Forall (QP (CurB dl fidx)) fw -> IBo dl o -> number_forwards o fidx fw = (o', ns) -> IBo dl o'.
Proof.
  induction fw as [|[[c p] pr] r IH]; cbn [number_forwards]; intros o o' ns HF Ho H.
  - now inv_ok.
  - inversion HF as [|? ? Hx Hr]; subst.
    match type of H with (match ?X with _ => _ end) = _ => destruct X as [o2 ns2] eqn:EX end. inv_ok.
    eapply IH; [exact Hr| |exact EX]. intros pk fi cu Hin. cbn [o_inflight] in Hin.
    apply in_app_or in Hin as [Hin | [E | []]]; [eapply Ho; exact Hin|]. inversion E; subst. exact Hx.
Qed.

Lemma fdd_push_ibo st1 id o conn sg rq2 publishes caughtup st' rq' cs dl o' :
  fdd_push st1 id o conn sg rq2 publishes caughtup = Ok (st', rq', cs) ->
  slab_get (r_obufs st1) id = Some o ->
  Forall (QP (CurB dl (dr_idx rq2))) publishes -> IBo dl o ->
  slab_get (r_obufs st') id = Some o' -> IBo dl o'.
Proof.
  intros H Ho Hpub HIo Ho'. unfold fdd_push in H. cbv zeta in H.
  destruct (2 <? dr_qos rq2); [discriminate|].
  destruct (alias_forwards (c_baliases conn) (dr_qos rq2) (al_get str_eqb (dr_filter rq2) (c_subids conn)) publishes)
    as [bal forwards] eqn:EA.
  pose proof (alias_forwards_qp _ _ _ _ _ _ _ Hpub EA) as Hfw.
  match type of H with (match ?x with _ => _ end) = _ => destruct x as [o1 notifs] eqn:E1 end.
  assert (Ho1 : IBo dl o1).
  { destruct (dr_qos rq2 =? 0); [inv_ok; exact HIo|]. eapply number_forwards_ib; eassumption. }
  apply bind_ok in H as ([st4 len] & H4 & H). apply bind_ok in H as (st5 & H5 & H).
  pose proof (push_out_cview _ _ _ _ _ H4) as V4.
  assert (O4 : r_obufs st4 = slab_put (r_obufs st1) id o1) by (rewrite (cview_obufs _ _ V4); reflexivity).
  assert (O5 : r_obufs st5 = r_obufs st4).
  { destruct sg as [[name g0]|]; [|now inv_ok].
    destruct (al_get str_eqb name (r_groups st4)) as [g|]; [|now inv_ok].
    apply bind_ok in H5 as ([st6 g'] & H6 & H5). inv_ok.
    destruct (update_next_client_cview _ _ _ _ H6) as [V6 _]. cbn [r_obufs set_r_groups]. exact (cview_obufs _ _ V6). }
  assert (O' : r_obufs st' = r_obufs st5).
  { destruct (MAX_CHANNEL_CAPACITY - 1 <=? len); [|now inv_ok].
    apply bind_ok in H as ([st6 n6] & H6 & H). inv_ok. exact (cview_obufs _ _ (push_out_cview _ _ _ _ _ H6)). }
  rewrite O', O5, O4, (slab_get_put_occ _ _ _ _ Ho) in Ho'. inversion Ho'; subst o'. exact Ho1.
Qed.

Theorem fdd_ib st id rq st' rq' cs :
  CInv st -> Bounded st -> RqOk (r_datalog st) rq -> IB (r_datalog st) (r_obufs st) ->
  forward_device_data st id rq = Ok (st', rq', cs) ->
  IB (r_datalog st') (r_obufs st').
Proof.
  intros HI HB Hrq HIB H0.
  destruct (fdd_cinv _ _ _ _ _ _ HI HB Hrq H0) as (_ & _ & D).
  destruct (forward_device_data_spec _ _ _ _ _ _ H0) as (o & G & o'' & notifs & tail & (_ & _ & _ & D4 & _) & _).
  rewrite D. intros c oc Hc. destruct (N.eq_dec c id) as [-> | Hne].
  2:{ rewrite D4, slab_get_put_other in Hc by congruence. eapply HIB; exact Hc. }
  revert oc Hc. pose proof (HIB _ _ G) as HIo. pose proof H0 as H.
  rewrite fdd_alt_eq in H. unfold fdd_alt, get_obuf in H. rewrite G in H. cbn [bind] in H.
  destruct (slab_get (r_conns st) id) as [conn|]; [|discriminate]. cbn [bind] in H.
  cbv zeta in H.
  set (sg := match dr_group rq with
             | Some name => match al_get str_eqb name (r_groups st) with
                            | Some g => Some (name, g) | None => None end
             | None => None end) in *.
  set (rq0 := match sg with Some (_, g) => set_dr_cursor rq (g_cursor g) | None => rq end) in *.
  assert (Hsg : forall name g, sg = Some (name, g) -> dr_group rq = Some name /\ al_get str_eqb name (r_groups st) = Some g).
  { unfold sg. intros name g. destruct (dr_group rq) as [n0|]; [|discriminate].
    destruct (al_get str_eqb n0 (r_groups st)) as [g0|] eqn:E; [|discriminate]. intros E1; inversion E1; subst. auto. }
  assert (Hrq0 : RqOk (r_datalog st) rq0 /\ dr_idx rq0 = dr_idx rq).
  { unfold rq0. destruct sg as [[name g]|] eqn:Es; [|auto]. destruct (Hsg _ _ eq_refl) as [Hn Hg].
    split; [|auto]. apply rqok_set_cursor; [exact Hrq|]. eapply group_cursor_ok; [exact Hrq|exact Hn|].
    destruct HI as [_ CI]. exact (al_get_Forall _ _ _ _ (ci_groups _ _ CI) Hg). }
  destruct Hrq0 as (Hrq0 & Hidx0). clearbody rq0.
  assert (Hsame : forall s, r_obufs s = r_obufs st -> forall oc, slab_get (r_obufs s) id = Some oc -> IBo (r_datalog st) oc).
  { intros s E oc Hc. rewrite E, G in Hc. inversion Hc; subst oc. exact HIo. }
  apply bind_ok in H as (slots0 & HS & H).
  destruct (negb (dr_qos rq0 =? 0) && (slots0 =? 0)); [inv_ok; now apply Hsame|].
  assert (Hs0 : slots0 < B62).
  { destruct HI as [_ CI]. pose proof (ci_cfg _ _ CI). destruct (negb (dr_qos rq0 =? 0)).
    - apply free_slots_le in HS. rewrite MAX_INFLIGHT_100 in HS. unfold B62. lia.
    - inv_ok. assumption. }
  apply bind_ok in H as ([[[st1 rq1] retained] slots2] & HR & H).
  assert (H1 : cview st1 = cview st /\ RqOk (r_datalog st) rq1 /\ dr_idx rq1 = dr_idx rq0 /\ slots2 < B62).
  { unfold fdd_retained in HR. destruct (dr_fwd_retained rq0).
    - apply bind_ok in HR as ([st2 rs] & HR1 & HR). cbv zeta in HR. inv_ok.
      split; [eapply read_retained_cview; eassumption|]. split; [exact Hrq0|]. split; [reflexivity|].
      destruct sg as [[? g]|]; [destruct (g_strategy g)|]; unfold B62 in *; lia.
    - inv_ok. split; [reflexivity|]. split; [exact Hrq0|]. split; [reflexivity|].
      destruct sg as [[? g]|]; [destruct (g_strategy g)|]; unfold B62 in *; lia. }
  destruct H1 as (V1 & Hrq1 & Hidx1 & Hs2).
  pose proof (cview_dl _ _ V1) as D1. pose proof (cview_obufs _ _ V1) as O1.
  apply bind_ok in H as (d & Hd & H). apply native_get_Some in Hd. rewrite D1 in Hd.
  apply bind_ok in H as ([pos from_log] & HV & H).
  destruct Hrq1 as [(d' & Hd' & Hiss & Hend) _]. unfold nget in Hd'. rewrite Hd in Hd'. inversion Hd'; subst d'. clear Hd'.
  destruct HI as [LI CI]. destruct (li_wf _ LI _ _ Hd) as [all W].
  pose proof (wf_end_of pubdata_size _ _ W) as Hall. pose proof (HB _ _ Hd) as Hb. pose proof B62_U64 as HU.
  assert (Hb1 : 2 * lenN all < U64) by lia.
  assert (Hb2 : snd (dr_cursor rq1) + slots2 < U64) by lia.
  destruct (readv_exact pubdata_size _ all _ _ W Hiss Hb1 Hb2) as (pos0 & out0 & Hr0 & F).
  rewrite HV in Hr0. inversion Hr0; subst pos0 out0. cbn zeta in F. destruct F as (_ & _ & _ & _ & Hcov & _).
  assert (Hlog : Forall (QP (CurB (r_datalog st) (dr_idx rq1)))
                   (map (fun x : pubdata * cursor => (Some (snd x), fst (fst x), snd (fst x))) from_log)).
  { apply Forall_forall. intros x Hx. apply in_map_iff in Hx as (e & <- & He).
    rewrite Forall_forall in Hcov. destruct (Hcov _ He) as (Hhd & _). unfold QP. cbn [fst snd].
    intros d0 Hd0 Hst. unfold nget in Hd0. rewrite Hd in Hd0. inversion Hd0; subst d0.
    unfold stale in Hst. destruct e as [x0 [sg0 off0]]. cbn [fst snd] in *. lia. }
  destruct (match pos with Next s e => (s, e, false) | Done s e => (s, e, true) end) as [[start next] caughtup].
  match type of H with (if ?b then _ else _) = _ => destruct b end; [inv_ok; now apply Hsame|].
  match type of H with match ?l with [] => _ | _ => _ end = _ => remember l as publishes eqn:EP end.
  assert (Hpubs : Forall (QP (CurB (r_datalog st) (dr_idx rq1))) publishes).
  { subst publishes. apply Forall_app. split; [|exact Hlog].
    apply Forall_forall. intros x Hx. apply in_map_iff in Hx as (e & <- & _). exact I. }
  destruct publishes as [|pb pbs] eqn:Epubs; [inv_ok; now apply Hsame|].
  rewrite <- Epubs in *. clear Epubs.
  intros oc Hc. eapply fdd_push_ibo; [exact H|rewrite O1; exact G| |exact HIo|exact Hc].
  cbn [dr_idx]. exact Hpubs.
Qed.

(* ------------------------------------------------------------------ consume *)
Definition IBs (st : rstate) : Prop := IB (r_datalog st) (r_obufs st).
Definition GBs (st : rstate) : Prop := GB (r_datalog st) (r_graveyard st).

Lemma ib_eq st st' : r_datalog st' = r_datalog st -> r_obufs st' = r_obufs st -> IBs st -> IBs st'.
Proof. unfold IBs. intros -> ->. auto. Qed.

Lemma ib_keep st st' : CInv st -> dl_le (r_datalog st) (r_datalog st') -> r_obufs st' = r_obufs st -> IBs st -> IBs st'.
Proof.
  intros [LI CI] L E I c o Ho pk fi cu Hin. rewrite E in Ho.
  eapply curb_mono; [exact LI|exact L| |eapply I; eassumption].
  pose proof (ci_infl _ _ CI _ _ Ho) as F. rewrite Forall_forall in F. exact (F _ Hin).
Qed.

Lemma gb_keep st st' : CInv st -> dl_le (r_datalog st) (r_datalog st') -> r_graveyard st' = r_graveyard st -> GBs st -> GBs st'.
Proof.
  intros [LI CI] L E G cl ss Hin rq Hrq Hg. unfold GBs in *. rewrite E in Hin.
  eapply curb_mono; [exact LI|exact L| |eapply G; eassumption].
  pose proof (ci_grave _ _ CI) as F. rewrite Forall_forall in F. specialize (F _ Hin). unfold SessOk in F. cbn [snd] in F.
  rewrite Forall_forall in F. exact (proj1 (F _ Hrq)).
Qed.

Lemma kid_gy st st' : SessionIds.Kid st st' -> r_graveyard st' = r_graveyard st.
Proof. intros (_ & H & _). exact H. Qed.

Lemma consume_loop_ib id : forall fuel st requests skipped st',
  CInv st -> Bounded st ->
  Forall (RqOk (r_datalog st)) requests -> Forall (RqOk (r_datalog st)) skipped -> IBs st ->
  consume_loop fuel st id requests skipped = Ok st' -> IBs st'.
Proof.
  induction fuel as [|fuel IH]; cbn [consume_loop]; intros st requests skipped st' HI HB Hr Hs HIB H.
  - eapply ib_eq; [eapply trackv_dl; exact H|apply keep_obufs; eapply trackv_keep; exact H|exact HIB].
  - destruct requests as [|rq rest].
    + apply bind_ok in H as (st1 & H1 & H).
      assert (X : IBs st1).
      { destruct skipped; [|inv_ok; exact HIB]. eapply ib_eq; [eapply pause_dl; exact H1|apply keep_obufs; eapply pause_keep; exact H1|exact HIB]. }
      eapply ib_eq; [eapply trackv_dl; exact H|apply keep_obufs; eapply trackv_keep; exact H|exact X].
    + inversion Hr as [|? ? Hrq Hrest]; subst.
      apply bind_ok in H as ([[st1 rq'] status] & H1 & H).
      destruct (fdd_cinv _ _ _ _ _ _ HI HB Hrq H1) as (HI1 & Hrq' & D1).
      pose proof (fdd_ib _ _ _ _ _ _ HI HB Hrq HIB H1) as HIB1. fold (IBs st1) in HIB1.
      assert (HB1 : Bounded st1) by (eapply bounded_eq; eassumption).
      rewrite <- D1 in Hrest, Hs.
      assert (Hfin : forall r st2 s l, pause st1 id r = Ok st2 -> trackv st2 id l = Ok s -> IBs s).
      { intros r st2 s l H2 H3.
        eapply ib_eq; [eapply trackv_dl; exact H3|apply keep_obufs; eapply trackv_keep; exact H3|].
        eapply ib_eq; [eapply pause_dl; exact H2|apply keep_obufs; eapply pause_keep; exact H2|exact HIB1]. }
      destruct status.
      * apply bind_ok in H as (st2 & H2 & H). eapply Hfin; eassumption.
      * apply bind_ok in H as (st2 & H2 & H). eapply Hfin; eassumption.
      * apply bind_ok in H as (st2 & H2 & H). pose proof (park_same _ _ _ _ H2) as S2.
        pose proof (park_cinv _ _ _ _ HI1 Hrq' H2) as HI2.
        assert (Hmono : forall l, Forall (RqOk (r_datalog st1)) l -> Forall (RqOk (r_datalog st2)) l).
        { intros l. apply rqsok_mono; [exact (proj1 HI1)|now apply dl_le_same_logs]. }
        eapply (IH st2); [exact HI2|exact (bounded_same _ _ S2 HB1)|exact (Hmono _ Hrest)|exact (Hmono _ Hs)| |exact H].
        eapply ib_keep; [exact HI1|now apply dl_le_same_logs|apply keep_obufs; eapply park_keep; exact H2|exact HIB1].
      * eapply (IH st1); [exact HI1|exact HB1| |exact Hs|exact HIB1|exact H].
        apply Forall_app. split; [exact Hrest|constructor; [exact Hrq'|constructor]].
      * eapply (IH st1); [exact HI1|exact HB1|exact Hrest| |exact HIB1|exact H].
        apply Forall_app. split; [exact Hs|constructor; [exact Hrq'|constructor]].
Qed.

Lemma consume_bi st st' b : CInv st -> Bounded st -> BI st -> consume st = Ok (st', b) -> BI st'.
Proof.
  intros HI HB [G I] H. destruct (consume_cinv _ _ _ HI HB H) as [_ S].
  split.
  - apply (gb_keep st st' HI (dl_le_same_logs _ _ S)); [|exact G].
    apply kid_gy. exact ((SessionIds.fi_consume st) _ H).
  - unfold consume in H. fold (IBs st) in I. fold (IBs st').
    destruct (r_ready st) as [|id rq]; [inv_ok; exact I|].
    cbn [r_trackers set_r_ready] in H.
    destruct (slab_get (r_trackers st) id) as [t|] eqn:Et; [|inv_ok; exact I].
    match type of H with context [slab_get (r_obufs ?s) id] => set (st2 := s) in * end.
    assert (HI2 : CInv st2).
    { unfold st2. apply (cinv_view (put_tracker (set_r_ready st rq) id (set_tr_reqs t []))); [reflexivity|].
      apply (cinv_put_tracker (set_r_ready st rq)).
      - eapply cinv_view; [|exact HI]. reflexivity.
      - constructor. }
    assert (I2 : IBs st2) by exact I.
    assert (D2 : r_datalog st2 = r_datalog st) by reflexivity.
    destruct (slab_get (r_obufs st2) id) as [o|]; [|inv_ok; exact I2].
    apply bind_ok in H as (st3 & H3 & H). apply bind_ok in H as (u & _ & H). apply bind_ok in H as (st4 & H4 & H). inv_ok.
    pose proof (ack_device_data_cview _ _ _ _ H3) as V3. pose proof (cview_dl _ _ V3) as D3.
    assert (HI3 : CInv st3) by (eapply cinv_view; eassumption).
    eapply consume_loop_ib; [exact HI3| | |constructor| |exact H4].
    + eapply bounded_eq; [|exact HB]. now rewrite D3.
    + rewrite D3, D2. eapply cinv_trk; eassumption.
    + eapply ib_eq; [exact D3|exact (cview_obufs _ _ V3)|exact I2].
Qed.

Lemma bi_cview st st' : cview st' = cview st -> BI st -> BI st'.
Proof. unfold cview. intros E. inversion E. now apply bi_same. Qed.

(* ------------------------------------------------------------------ a DeviceData event, up to the removal *)
Lemma payload_mid0 cfg st id st' evs tr :
  RInvC cfg st -> r_notif st = [] -> DevEI st -> CInv st -> LinkInv st -> DI st [] tr ->
  handle_device_payload_d st id = Ok (st', evs) ->
  exists st3 evs1,
    (evs1 = [] \/ exists st0 cl pks st1 fl, handle_packets_d st0 id cl pks flags0 = Ok (st1, fl, evs1)) /\
    CInv st3 /\ LinkInv st3 /\ DI st3 [] (tr ++ evs1) /\ wsuf st st3 /\
    dl_le (r_datalog st) (r_datalog st3) /\ r_graveyard st3 = r_graveyard st /\
    ((st' = st3 /\ evs = evs1) \/
     exists reason, handle_disconnection st3 id reason = Ok st' /\ evs = evs1 ++ disc_ghost st3 id st').
Proof.
  intros HI Hn HD HC HL HDI H. unfold handle_device_payload_d in H.
  destruct (slab_get (r_ibufs st) id) as [inc|] eqn:Hi.
  2:{ inv_ok. exists st', []. rewrite app_nil_r.
      split; [now left|]. split; [exact HC|]. split; [exact HL|]. split; [exact HDI|]. split; [apply wsuf_refl|].
      split; [apply dl_le_refl|]. split; [reflexivity|now left]. }
  destruct (RInv_ibuf_live _ _ _ _ HI Hi) as [c Hc].
  assert (Ho : occ (lives st) id) by (eapply get_occ; eauto).
  pose proof (ri_ilink _ _ HI _ _ Hi) as Hl. destruct (nthN_lt _ _ Hl) as [b Hb].
  unfold link_get in H. rewrite Hb in H. cbn [bind] in H.
  set (st0 := link_put st (i_link inc) (set_lk_in b [])) in *.
  assert (HI0 : RInvC cfg st0) by (apply RInv_link_put; [exact HI|constructor]).
  assert (HD0 : DevEI st0) by (eapply dfr_DevE; [exact HD|dfr_triv]).
  assert (HC0 : CInv st0) by (eapply cinv_view; [|exact HC]; reflexivity).
  assert (HL0 : LinkInv st0).
  { apply (obs_sub_LinkInv st st0); [apply obs_sub_eq; reflexivity| |exact HL]. unfold st0. rsimpl. rewrite lenN_setN. lia. }
  assert (HDI0 : DI st0 [] tr).
  { destruct HDI as [D1 D2 D3 D4 D5 D6 D7]. constructor; try assumption.
    intros id0 k f j a Hin. specialize (D1 _ _ _ _ _ Hin). unfold st0. rsimpl. now rewrite lenN_setN. }
  assert (Hpk : Forall packet_wf (lk_in b)).
  { exact (Forall_nthN (fun b => Forall packet_wf (lk_in b)) _ _ _ (ri_pkts _ _ HI) Hb). }
  apply bind_ok in H as ([[st1 fl] evs1] & H1 & H).
  apply bind_ok in H as (st2 & H2 & H). apply bind_ok in H as (st3 & H3 & H). apply bind_ok in H as (st4 & H4 & H). inv_ok.
  assert (HS0 : Side cfg st0 id) by (constructor; assumption).
  pose proof (handle_packets_di cfg id _ _ _ _ _ _ _ _ HS0 Hpk HDI0 H1) as HDI1.
  pose proof (handle_packets_d_ok _ _ _ _ _ _ _ _ H1) as H1'.
  destruct (handle_packets_cinv _ _ _ _ _ _ _ HC0 H1') as [HC1 L1].
  assert (X2 : CInv st2 /\ DI st2 [] (tr ++ evs1)).
  { destruct (f_force_ack fl); [|inv_ok; auto].
    split; [eapply reschedule_cinv; eassumption|].
    eapply di_frame_keep; [exact HC1|constructor|eapply reschedule_hsub; exact H2|eapply reschedule_keep; exact H2| |exact HDI1].
    rewrite (reschedule_dl _ _ _ _ H2). apply dl_le_refl. }
  destruct X2 as [HC2 HDI2].
  assert (X3 : CInv st3 /\ DI st3 [] (tr ++ evs1)).
  { destruct (f_new_data fl); [|inv_ok; auto].
    split; [eapply drain_notifications_cinv; eassumption|].
    eapply di_frame_keep; [exact HC2|constructor|eapply drain_notifications_hsub; exact H3
                          |eapply drain_notifications_keep; exact H3| |exact HDI2].
    rewrite (drain_notifications_dl _ _ H3). apply dl_le_refl. }
  destruct X3 as [HC3 HDI3].
  destruct (handle_packets_obs _ _ _ _ _ _ _ H1') as [A1 EL1].
  assert (HL1 : LinkInv st1) by (apply (obs_sub_LinkInv st0 st1); [eapply obs_at_sub; exact A1|rewrite EL1; lia|exact HL0]).
  assert (K2 : keep st2 = keep st1) by (destruct (f_force_ack fl); [eapply reschedule_keep; exact H2|now inv_ok]).
  assert (K3 : keep st3 = keep st2) by (destruct (f_new_data fl); [eapply drain_notifications_keep; exact H3|now inv_ok]).
  assert (HL3 : LinkInv st3) by (eapply keep_LinkInv; [exact K3|eapply keep_LinkInv; [exact K2|exact HL1]]).
  assert (HW3 : wsuf st st3).
  { eapply wsuf_obufs; [|eapply (wsuf_trans st st0 st1); [apply wsuf_eq; reflexivity|eapply handle_packets_wsuf; exact H1']].
    rewrite (keep_obufs _ _ K3). now apply keep_obufs. }
  assert (D2 : r_datalog st2 = r_datalog st1) by (destruct (f_force_ack fl); [eapply reschedule_dl; exact H2|now inv_ok]).
  assert (D3 : r_datalog st3 = r_datalog st2) by (destruct (f_new_data fl); [eapply drain_notifications_dl; exact H3|now inv_ok]).
  assert (G1 : r_graveyard st1 = r_graveyard st).
  { pose proof (kid_gy _ _ ((SessionIds.fi_handle_packets (lk_in b) _ id (i_client inc) flags0) _ H1')) as X. exact X. }
  assert (G2 : r_graveyard st2 = r_graveyard st1).
  { destruct (f_force_ack fl); [|now inv_ok]. apply kid_gy. exact ((SessionIds.fi_reschedule st1 id SFreshData) _ H2). }
  assert (G3 : r_graveyard st3 = r_graveyard st2).
  { destruct (f_new_data fl); [|now inv_ok]. apply kid_gy. exact ((SessionIds.fi_drain_notifications st2) _ H3). }
  exists st3, evs1. split; [right; eauto 8|]. split; [exact HC3|]. split; [exact HL3|]. split; [exact HDI3|]. split; [exact HW3|].
  split; [rewrite D3, D2; exact L1|]. split; [rewrite G3, G2, G1; reflexivity|].
  destruct (f_disconnect fl); [right; eauto|left; inv_ok; now rewrite app_nil_r].
Qed.

Lemma payload_bi cfg st id st' evs tr :
  RInvC cfg st -> r_notif st = [] -> DevEI st -> CInv st -> LinkInv st -> DI st [] tr -> BI st ->
  handle_device_payload_d st id = Ok (st', evs) -> BI st'.
Proof.
  intros HI Hn HD HC HL HDI HB H.
  destruct (payload_mid0 _ _ _ _ _ _ HI Hn HD HC HL HDI H) as (st3 & evs1 & _ & HC3 & _ & HDI3 & HW & L & G & Hcase).
  assert (B3 : BI st3).
  { apply (bi_frame st st3 HC L); [rewrite G; apply incl_refl|now apply wsuf_wsufn|exact HB]. }
  destruct Hcase as [[-> _] | (reason & Hd & _)]; [exact B3|]. eapply disc_bi; eassumption.
Qed.

(* ------------------------------------------------------------------ a Connect *)
Lemma hnc_bi st conn link st' tr :
  CInv st -> DI st [] tr -> BI st -> handle_new_connection st conn link = Ok st' -> BI st'.
Proof.
  intros HC HDI HB H. unfold handle_new_connection in H.
  destruct (validate_clientid (c_client conn)); cbn [negb] in H; [|inv_ok; exact HB].
  apply bind_ok in H as (st1 & H1 & H).
  assert (B1 : BI st1).
  { destruct (al_get str_eqb (c_client conn) (r_cmap st)) as [cid|]; [eapply disc_bi; eassumption|inv_ok; exact HB]. }
  clear H1 HB HDI HC.
  destruct (cf_max_connections (r_cfg st1) <=? slab_len (r_conns st1)); [inv_ok; exact B1|].
  cbv zeta in H.
  match type of H with (match ?X with _ => _ end) = _ => destruct X as [[trk conn1] pubrels] eqn:EX end.
  destruct (slab_insert (r_conns st1) (set_c_will conn1 None)) as [conns id] eqn:Ic.
  destruct (slab_insert (r_ibufs st1) _) as [ibufs id_i] eqn:Ii.
  destruct (slab_insert (r_obufs st1) _) as [obufs id_o] eqn:Io.
  destruct (slab_insert (r_acks st1) _) as [acks id_a] eqn:Ia.
  destruct (slab_insert (r_trackers st1) trk) as [trackers id_t] eqn:It.
  match type of H with (if ?b then _ else _) = _ => destruct b end; [discriminate|].
  apply bind_ok in H as (u & _ & H).
  match type of H with reschedule ?s id SInit = _ => set (st2 := s) in * end.
  assert (B2 : BI st2).
  { destruct B1 as [G I]. split.
    - intros cl ss Hin. cbn [st2 r_graveyard r_datalog] in *. apply al_remove_In in Hin. eapply G; exact Hin.
    - intros c o Ho. cbn [st2 r_obufs r_datalog] in *.
      destruct (slab_insert_inv _ _ _ _ _ _ Io Ho) as [[-> ->] | [_ Ho1]]; [intros pk fi cu []|eapply I; exact Ho1]. }
  eapply bi_same; [eapply reschedule_dl; exact H|apply kid_gy; exact ((SessionIds.fi_reschedule st2 id SInit) _ H)
                  |apply keep_obufs; eapply reschedule_keep; exact H|exact B2].
Qed.

(* ------------------------------------------------------------------ one step *)
Lemma bi_step_d st o st' out evs tr :
  RInvE st -> CInv st -> Bounded st -> LinkInv st -> op_wf o -> DI st [] tr -> BI st ->
  step_d st o = Ok (st', out, evs) -> BI st'.
Proof.
  intros [[HI Hn] HD] HC HB HL Hwf HDI HBI H.
  destruct o as [c | k pk | id | | k | id | id | id f | c |]; unfold step_d in H.
  - apply bind_ok in H as ([st2 out2] & H2 & H). inv_ok. cbn [step] in H2. cbv zeta in H2.
    apply bind_ok in H2 as (st3 & H3 & H2). inv_ok.
    match type of H3 with handle_new_connection ?s _ _ = _ => set (st1 := s) in * end.
    eapply (hnc_bi st1); [| |exact HBI|exact H3].
    + eapply cinv_view; [|exact HC]. reflexivity.
    + eapply (di_frame st st1); [exact HC|constructor|apply hsub_view; reflexivity|apply obs_sub_eq; reflexivity
                               |apply dl_le_refl|unfold st1; rsimpl; rewrite lenN_snoc; lia|exact HDI].
  - apply bind_ok in H as ([st2 out2] & H2 & H). inv_ok. cbn [step] in H2.
    destruct (nthN (r_links st) k); inv_ok; exact HBI.
  - apply bind_ok in H as ([st1 evs1] & H1 & H). inv_ok. eapply payload_bi; eassumption.
  - apply bind_ok in H as ([[st1 b] evs1] & H1 & H). inv_ok.
    eapply consume_bi; [exact HC|exact HB|exact HBI|]. rewrite <- consume_erase, H1. reflexivity.
  - apply bind_ok in H as ([st2 out2] & H2 & H). inv_ok. cbn [step] in H2.
    destruct (nthN (r_links st) k); inv_ok; exact HBI.
  - apply bind_ok in H as ([st2 out2] & H2 & H). inv_ok. cbn [step] in H2.
    destruct (slab_get (r_trackers st) id); [|inv_ok; exact HBI].
    apply bind_ok in H2 as (st1 & H1 & H2). inv_ok.
    eapply bi_same; [eapply reschedule_dl; exact H1|apply kid_gy; exact ((SessionIds.fi_reschedule st id SReady) _ H1)
                    |apply keep_obufs; eapply reschedule_keep; exact H1|exact HBI].
  - apply bind_ok in H as ([st2 out2] & H2 & H). inv_ok. cbn [step] in H2.
    apply bind_ok in H2 as (st1 & H1 & H2). inv_ok. eapply disc_bi; eassumption.
  - apply bind_ok in H as ([st2 out2] & H2 & H). inv_ok. cbn [step] in H2.
    apply bind_ok in H2 as (st1 & H1 & H2). inv_ok. eapply bi_cview; [eapply retrieve_shadow_cview; exact H1|exact HBI].
  - apply bind_ok in H as ([st2 out2] & H2 & H). inv_ok. cbn [step] in H2.
    apply bind_ok in H2 as (st1 & H1 & H2). inv_ok.
    destruct (handle_last_will_cinv _ _ _ HC H1) as [_ L1].
    apply (bi_frame st st' HC L1); [| |exact HBI].
    + rewrite (kid_gy _ _ ((SessionIds.fi_handle_last_will st c) _ H1)). apply incl_refl.
    + apply wsuf_wsufn, wsuf_eq, keep_obufs. eapply handle_last_will_keep; exact H1.
  - apply bind_ok in H as ([st2 out2] & H2 & H). inv_ok. cbn [step] in H2. inv_ok. exact HBI.
Qed.

Lemma bi_init cfg st : init cfg = Ok st -> BI st.
Proof.
  intros Hi. unfold init in Hi. apply bind_ok in Hi as (dl & _ & Hi). inv_ok. split.
  - intros cl ss [].
  - intros c o Ho. discriminate.
Qed.
