(** C08 x C09: an acknowledgement the broker did not solicit closes the connection, and the
    window is NOT touched by it — so the session saved for a persistent client still holds the
    unacknowledged head: its pending releases, and a retransmission map computed from the whole
    window, under which every saved request on the head's filter restarts at the head's cursor.
    (Before the repair of iobufs.rs the head was popped before the mismatch was noticed, and the
    saved session restarted after it: the head publish was never delivered again.) *)
From Coq Require Import ZArith ZifyBool ZifyN ZifyNat.
From Rumqtt Require Import Router.Model Router.RunDefs Router.WindowFrame Router.Window Router.WindowStep Router.WindowThm Router.WindowDisc Router.WindowExamples.
From Rumqtt Require Router.Session.

Lemma retransmission_head pk fidx cu rest :
  al_get N.eqb fidx (retransmission_map ((pk, fidx, Some cu) :: rest) []) = Some cu.
Proof.
  rewrite Session.retransmission_map_spec. cbn [Session.first_cursor]. now rewrite N.eqb_refl.
Qed.

Theorem bad_ack_keeps_window st id inc b s fls p o st' :
  slab_get (r_ibufs st) id = Some inc -> nthN (r_links st) (i_link inc) = Some b ->
  processed id (i_client inc) (link_put st (i_link inc) (set_lk_in b [])) flags0 (lk_in b) s fls p ->
  slab_get (r_obufs s) id = Some o -> unsolicited o p ->
  handle_device_payload st id = Ok st' ->
  exists st3 reason conn trk,
    handle_disconnection st3 id reason = Ok st' /\
    slab_get (r_obufs st3) id = Some o /\
    slab_get (r_conns st3) id = Some conn /\ slab_get (r_trackers st3) id = Some trk /\
    slab_get (r_obufs st') id = None /\
    al_get str_eqb (tr_id trk) (r_graveyard st') = Some (Session.saved_session st3 id conn o trk) /\
    (c_clean conn = false ->
     exists ss,
       al_get str_eqb (tr_id trk) (r_graveyard st') = Some (Some ss) /\
       ss_pubrels ss = o_pubrels o /\
       tr_reqs (ss_tracker ss) =
         map (Session.rewind (retransmission_map (o_inflight o) []))
             (tr_reqs trk ++ snd (dl_clean (r_datalog st3) id)) /\
       forall pk fidx cu rest, o_inflight o = (pk, fidx, Some cu) :: rest ->
         al_get N.eqb fidx (retransmission_map (o_inflight o) []) = Some cu /\
         forall rq, dr_idx rq = fidx ->
           dr_cursor (Session.rewind (retransmission_map (o_inflight o) []) rq) = cu).
Proof.
  intros G Hb P Go U H.
  destruct (c09_unsolicited_thm _ _ _ _ _ _ _ _ _ G Hb P Go U H) as (s1 & fl1 & st3 & H1 & D & HPs & K & HD & Gn & _).
  destruct (handle_packet_unsolicited_keeps _ _ _ _ _ _ _ _ _ H1 Go U) as (_ & Go1 & _).
  assert (Go3 : slab_get (r_obufs st3) id = Some o) by (rewrite (keep_obufs _ _ K); exact Go1).
  assert (exists conn trk, slab_get (r_conns st3) id = Some conn /\ slab_get (r_trackers st3) id = Some trk) as (conn & trk & Gc & Gt).
  { pose proof HD as HD0. unfold handle_disconnection in HD0. rewrite Go3 in HD0.
    apply bind_ok in HD0 as (st0 & H0 & HD0).
    assert (E : r_conns st0 = r_conns st3 /\ r_trackers st0 = r_trackers st3).
    { destruct (f_reason fl1); [| inv_ok; auto].
      apply bind_ok in H0 as ([s2 len] & H0 & H2). inv_ok. apply push_out_spec in H0 as (b0 & _ & -> & _). auto. }
    destruct E as [Ec Et]. unfold slab_remove in HD0. rewrite Ec, Et in HD0.
    destruct (slab_get (r_conns st3) id) as [conn |]; [| discriminate].
    destruct (slab_get (r_ibufs st0) id); [| discriminate].
    destruct (slab_get (r_obufs st0) id); [| discriminate].
    destruct (slab_get (r_trackers st3) id) as [trk |]; [| discriminate]. eauto. }
  exists st3, (f_reason fl1), conn, trk.
  destruct (Session.hdisc_saves _ _ _ _ _ _ _ HD Gc Go3 Gt) as [Sv _].
  repeat (split; [assumption |]).
  intros Hcl. unfold Session.saved_session in Sv. rewrite Hcl in Sv.
  eexists. split; [exact Sv |]. cbn [ss_pubrels ss_tracker tr_reqs]. split; [reflexivity |]. split; [reflexivity |].
  intros pk fidx cu rest E. rewrite E. split; [apply retransmission_head |].
  intros rq <-. unfold Session.rewind. rewrite retransmission_head. reflexivity.
Qed.

(* ------------------------------------------------------------------ witness *)
(** persistent subscriber "s" (QoS 1 on "t"), three forwards [1;2;3] unacknowledged, "s"
    acknowledges 2 first: "s" is closed, the saved request restarts at the cursor of forward 1,
    and after "s" reconnects all three publishes are delivered again (payloads 1, 2, 3) *)
Definition pconn (c : N) : rop :=
  OpConnect {| cr_client := [c]; cr_clean := false; cr_dynamic := false; cr_alias_max := 0; cr_will := None |}.
Definition exb_ops : list (list oracle * rop) :=
  plain [ pconn 115; ex_conn 112;
          OpPush 0 (PSubscribe 1 [([116], 1)] None); OpData 0;
          OpPush 1 (ex_pub 1); OpPush 1 (ex_pub 2); OpPush 1 (ex_pub 3); OpData 1;
          OpConsume; OpConsume; OpConsume;
          OpPush 0 (PPubAck 2) ].
Definition exb_st : rstate := force (from_init exb_ops).
Definition exb_st1 : rstate := force (run exb_st (plain [OpData 0])).
Definition exb_st2 : rstate := force (run exb_st1 (plain [pconn 115; OpConsume; OpConsume])).
Definition fwd_payloads (ns : list notification) : list str :=
  flat_map (fun n => match n with NForward _ p _ => [p_payload p] | _ => [] end) ns.

Example bad_ack_witness :
  from_init exb_ops = Ok exb_st /\ reachable ex_cfg exb_st /\
  (exists inc b o conn,
    slab_get (r_ibufs exb_st) 0 = Some inc /\ nthN (r_links exb_st) (i_link inc) = Some b /\
    lk_in b = [PPubAck 2] /\
    slab_get (r_obufs (link_put exb_st (i_link inc) (set_lk_in b []))) 0 = Some o /\
    o_inflight o = [(1, 0, Some (0, 0)); (2, 0, Some (0, 1)); (3, 0, Some (0, 2))] /\
    unsolicited o (PPubAck 2) /\
    processed 0 (i_client inc) (link_put exb_st (i_link inc) (set_lk_in b [])) flags0 (lk_in b)
              (link_put exb_st (i_link inc) (set_lk_in b [])) flags0 (PPubAck 2) /\
    slab_get (r_conns exb_st) 0 = Some conn /\ c_clean conn = false) /\
  run exb_st (plain [OpData 0]) = Ok exb_st1 /\
  slab_get (r_obufs exb_st1) 0 = None /\
  (exists ss, al_get str_eqb [115] (r_graveyard exb_st1) = Some (Some ss) /\
              map dr_cursor (tr_reqs (ss_tracker ss)) = [(0, 0)]) /\
  run exb_st1 (plain [pconn 115; OpConsume; OpConsume]) = Ok exb_st2 /\
  fwd_payloads (out_of exb_st2 2) = [[1]; [2]; [3]].
Proof.
  assert (E : from_init exb_ops = Ok exb_st) by (vm_compute; reflexivity).
  split; [exact E |]. split; [now apply from_init_reachable in E |].
  split.
  { eexists. eexists. eexists. eexists.
    split; [vm_compute; reflexivity |]. split; [vm_compute; reflexivity |].
    split; [vm_compute; reflexivity |]. split; [vm_compute; reflexivity |].
    split; [vm_compute; reflexivity |].
    split; [vm_compute; discriminate |].
    split; [apply pr_here |].
    split; vm_compute; reflexivity. }
  split; [vm_compute; reflexivity |]. split; [vm_compute; reflexivity |].
  split; [eexists; split; vm_compute; reflexivity |].
  split; vm_compute; reflexivity.
Qed.
