(** C17 (shared subscriptions), lemma level: [forward_device_data] for a request that reads
    through an existing group. *)
From Rumqtt Require Export Router.RetainedReplay.
From Rumqtt Require Import Log.Spec Log.Proofs Log.ReadTop.
From Coq Require Import ZifyBool ZifyN ZifyNat.

Lemma ostr_eqb_some a b : ostr_eqb (Some a) b = true <-> b = Some a.
Proof.
  destruct b as [b|]; cbn [ostr_eqb]; [|split; discriminate].
  destruct (str_eqb_spec a b); split; intros H; try discriminate; try congruence.
Qed.

(** the slots a shared read may use *)
Definition group_slots (st : rstate) (o : outgoing) (rq : drequest) (g : group) : N :=
  match g_strategy g with
  | RoundRobin => 1
  | _ => if dr_qos rq =? 0 then cf_max_outgoing (r_cfg st) else MAX_INFLIGHT - lenN (o_inflight o)
  end.

(** [c17_skip]: the request's cursor is replaced by the group's; a connection whose client id
    is not the group's current client pushes nothing: no link buffer, no inflight buffer, no
    group changes (the state changes at most in the consumed oracle entries).  It reads from
    the group cursor only to decide whether to park: it parks ([FilterCaughtup]) only when that
    read reached the end of the log AND returned nothing (current code, after the fix of the
    parked-member stall); otherwise it is skipped and stays scheduled ([SkipRequest]) *)
Lemma shared_skip st id rq st' rq' status o name g :
  forward_device_data st id rq = Ok (st', rq', status) -> get_obuf st id = Ok o ->
  req_group st rq = Some (name, g) ->
  current_client g <> Some (o_client o) ->
  dr_cursor rq' = g_cursor g /\
  (exists orc, st' = set_r_oracle st orc) /\
  (status = SInflightFull \/
   exists sel d pos from_log,
     native_get (r_datalog st) (dr_idx rq) = Ok d /\
     readv (d_log d) (g_cursor g) (group_slots st o rq g - lenN sel) = Ok (pos, from_log) /\
     status = (if is_done pos && match srcs sel from_log with [] => true | _ => false end
               then FilterCaughtup else SkipRequest)).
Proof.
  intros H Ho Hg Hc. pose proof (forward_cases _ _ _ _ _ _ _ H Ho) as Hx. cbn zeta in Hx. rewrite Hg in Hx.
  assert (Hsk : negb (ostr_eqb (Some (o_client o)) (current_client g)) = true).
  { apply negb_true_iff. destruct (ostr_eqb _ _) eqn:E; [|reflexivity]. apply ostr_eqb_some in E. contradiction. }
  rewrite Hsk in Hx.
  destruct Hx as [(-> & -> & ->) | (sel & d & pos & from_log & _ & Hd & Hr & _ & _ & _ & _ & _ & (Hs & Hcu & _ & Hst))].
  - cbn [dr_cursor set_dr_cursor]. split; [reflexivity|]. split; [|auto].
    exists (r_oracle st). destruct st; reflexivity.
  - cbn [dr_cursor set_dr_cursor] in Hcu, Hr. split; [exact Hcu|]. split; [exact Hs|].
    right. exists sel, d, pos, from_log. auto.
Qed.

(** a member whose turn it is not parks only on an empty read at the end of the log *)
Lemma shared_skip_parks_only_when_empty st id rq st' rq' status o name g :
  forward_device_data st id rq = Ok (st', rq', status) -> get_obuf st id = Ok o ->
  req_group st rq = Some (name, g) -> current_client g <> Some (o_client o) ->
  status = FilterCaughtup ->
  exists (sel : list pubdata) d pos,
    native_get (r_datalog st) (dr_idx rq) = Ok d /\
    readv (d_log d) (g_cursor g) (group_slots st o rq g - lenN sel) = Ok (pos, []) /\
    sel = [] /\ is_done pos = true.
Proof.
  intros H Ho Hg Hc Hst. destruct (shared_skip _ _ _ _ _ _ _ _ _ H Ho Hg Hc) as (_ & _ & [Hs | (sel & d & pos & fl & Hd & Hr & Hs)]);
    [congruence|].
  rewrite Hst in Hs. destruct (is_done pos) eqn:Ed; cbn [andb] in Hs; [|discriminate].
  unfold srcs in Hs. destruct sel as [| x sel]; cbn [map app] in Hs; [|discriminate].
  destruct fl as [| y fl]; cbn [map] in Hs; [|discriminate].
  exists [], d, pos. auto.
Qed.

(** ... in particular *)
Lemma shared_skip_frame st id rq st' rq' status o name g :
  forward_device_data st id rq = Ok (st', rq', status) -> get_obuf st id = Ok o ->
  req_group st rq = Some (name, g) -> current_client g <> Some (o_client o) ->
  r_links st' = r_links st /\ r_groups st' = r_groups st /\ r_obufs st' = r_obufs st /\
  r_datalog st' = r_datalog st /\ r_conns st' = r_conns st /\ r_trackers st' = r_trackers st.
Proof.
  intros H Ho Hg Hc. destruct (shared_skip _ _ _ _ _ _ _ _ _ H Ho Hg Hc) as (_ & (orc & ->) & _).
  repeat split; reflexivity.
Qed.

(** [c17_advance]: the current client.  The read starts at the group cursor; unless nothing at
    all was read and replayed, the group's cursor becomes the read's end cursor and the turn
    is advanced — also when the outcome is [BufferFull] *)
Lemma shared_current st id rq st' rq' status o name g :
  forward_device_data st id rq = Ok (st', rq', status) -> get_obuf st id = Ok o ->
  req_group st rq = Some (name, g) -> current_client g = Some (o_client o) ->
  (status = SInflightFull /\ st' = st /\ rq' = set_dr_cursor rq (g_cursor g)) \/
  exists sel d pos from_log,
    native_get (r_datalog st) (dr_idx rq) = Ok d /\
    readv (d_log d) (g_cursor g) (group_slots st o rq g - lenN sel) = Ok (pos, from_log) /\
    dr_cursor rq' = pos_end pos /\
    match srcs sel from_log with
    | [] => status = FilterCaughtup /\ exists orc, st' = set_r_oracle st orc
    | _ :: _ =>
        status <> SInflightFull /\ status <> SkipRequest /\
        exists sta stb g1,
          update_next_client sta g = Ok (stb, g1) /\
          r_groups st' = al_set str_eqb name (set_g_cursor g1 (dr_cursor rq')) (r_groups st)
    end.
Proof.
  intros H Ho Hg Hc. pose proof (forward_cases _ _ _ _ _ _ _ H Ho) as Hx. cbn zeta in Hx. rewrite Hg in Hx.
  assert (Hsk : negb (ostr_eqb (Some (o_client o)) (current_client g)) = false).
  { apply negb_false_iff. now apply ostr_eqb_some. }
  rewrite Hsk in Hx.
  destruct Hx as [Hx | (sel & d & pos & from_log & _ & Hd & Hr & _ & _ & _ & _ & _ & (Hcu & _ & Hn1 & Hn2 & ns & _ & _ & _ & Hm))];
    [left; exact Hx | right].
  exists sel, d, pos, from_log. cbn [dr_cursor set_dr_cursor] in Hr. split; [exact Hd|].
  split; [exact Hr|]. split; [exact Hcu|].
  destruct (srcs sel from_log); [exact Hm|]. rewrite Hcu. auto.
Qed.

(** the group after an advancing read *)
Lemma shared_advance st id rq st' rq' status o name g :
  forward_device_data st id rq = Ok (st', rq', status) -> get_obuf st id = Ok o ->
  req_group st rq = Some (name, g) -> current_client g = Some (o_client o) ->
  status = BufferFull \/ status = PartialRead ->
  exists g',
    al_get str_eqb name (r_groups st') = Some g' /\
    g_cursor g' = dr_cursor rq' /\ g_clients g' = g_clients g /\ g_strategy g' = g_strategy g /\
    match g_strategy g with
    | RoundRobin => g_idx g' = (g_idx g + 1) mod lenN (g_clients g)
    | Random => g_idx g' < lenN (g_clients g)
    | Sticky => g_idx g' = g_idx g
    end /\
    (forall other, other <> name -> al_get str_eqb other (r_groups st') = al_get str_eqb other (r_groups st)).
Proof.
  intros H Ho Hg Hc Hst.
  destruct (shared_current _ _ _ _ _ _ _ _ _ H Ho Hg Hc) as [(-> & _) | (sel & d & pos & from_log & _ & _ & _ & Hm)];
    [destruct Hst; discriminate|].
  destruct (srcs sel from_log); [destruct Hm as [-> _]; destruct Hst; discriminate|].
  destruct Hm as (_ & _ & sta & stb & g1 & Hu & Hgr).
  apply update_next_client_spec in Hu as (_ & U1 & U2 & U3 & U4).
  exists (set_g_cursor g1 (dr_cursor rq')). rewrite Hgr.
  split; [now apply al_get_set_same; apply str_eqb_spec|].
  cbn [g_cursor g_clients g_strategy g_idx set_g_cursor]. repeat split; auto.
  intros other Hn. now apply al_get_set_other; [apply str_eqb_spec|].
Qed.

(** [c17_monotone] (with C13): along the read the group cursor only moves forward: its new
    offset is the position the read started from plus the number of entries read *)
Lemma shared_monotone st id rq st' rq' status o name g d all :
  forward_device_data st id rq = Ok (st', rq', status) -> get_obuf st id = Ok o ->
  req_group st rq = Some (name, g) -> current_client g = Some (o_client o) ->
  status <> SInflightFull ->
  native_get (r_datalog st) (dr_idx rq) = Ok d ->
  WF pubdata_size (d_log d) all -> Issued (d_log d) (g_cursor g) ->
  2 * lenN all < U64 -> snd (g_cursor g) + group_slots st o rq g < U64 ->
  pos_of (d_log d) (g_cursor g) <= snd (dr_cursor rq') /\
  snd (dr_cursor rq') <= lenN all /\
  (stale (d_log d) (g_cursor g) = false -> snd (g_cursor g) <= snd (dr_cursor rq')).
Proof.
  intros H Ho Hg Hc Hst Hd Hwf Hiss Hb1 Hb2.
  destruct (shared_current _ _ _ _ _ _ _ _ _ H Ho Hg Hc) as [(-> & _) | (sel & d2 & pos & from_log & Hd2 & Hr & Hcu & _)];
    [congruence|].
  rewrite Hd in Hd2. injection Hd2 as <-.
  assert (Hb3 : snd (g_cursor g) + (group_slots st o rq g - lenN sel) < U64) by lia.
  destruct (readv_exact pubdata_size _ _ _ _ Hwf Hiss Hb1 Hb3) as (pos' & out' & Hr' & Hx).
  rewrite Hr in Hr'. injection Hr' as <- <-. cbn zeta in Hx.
  destruct Hx as (_ & Hp & Hmap & _ & _ & _ & _ & _ & Hend & _ & _).
  rewrite Hcu, Hend.
  assert (Hlen : pos_of (d_log d) (g_cursor g) + lenN from_log <= lenN all).
  { assert (Hl : (length (map fst from_log) <= length all - N.to_nat (pos_of (d_log d) (g_cursor g)))%nat).
    { rewrite Hmap. rewrite firstn_length, skipn_length. lia. }
    rewrite map_length in Hl. unfold lenN in *. lia. }
  split; [lia|]. split; [exact Hlen|].
  intros Hs. unfold pos_of. rewrite Hs. lia.
Qed.

(* ------------------------------------------------------------------ Example *)
Module C17Example.
Import C15Example.
Definition shf : str := [36;115;104;97;114;101;47;103;47;116].     (* "$share/g/t" *)
(** "a" and "b" share the subscription $share/g/t (round robin); three publishes on t *)
Definition ops : list op_in := map no
  [ OpConnect (creq [97] true None);
    OpPush 0 (PSubscribe 1 [(shf, 0)] None);
    OpData 0;
    OpConnect (creq [98] true None);
    OpPush 1 (PSubscribe 1 [(shf, 0)] None);
    OpData 1;
    OpConsume; OpConsume; OpConsume; OpConsume;
    OpConnect (creq [112] true None);
    OpPush 2 (PPublish (mkpub [116] [49] 0 0 false) None);
    OpPush 2 (PPublish (mkpub [116] [50] 0 0 false) None);
    OpPush 2 (PPublish (mkpub [116] [51] 0 0 false) None);
    OpData 2;
    OpConsume; OpConsume; OpConsume; OpConsume; OpConsume; OpConsume; OpConsume; OpConsume;
    OpDrain 0; OpDrain 1 ].

(** each message goes to exactly one member, in turn: a gets 1 and 3, b gets 2 *)
Example round_robin_split :
  option_map (fun o => (last (removelast o) OutUnit, last o OutUnit)) (outs_of (run_from cfg0 ops)) =
  Some (OutDrain [NAck (AConnAck 0 false); NAck (ASubAck 1 [0]);
                  NForward (Some (0, 0)) (mkpub [116] [49] 0 0 false) None;
                  NForward (Some (0, 2)) (mkpub [116] [51] 0 0 false) None],
        OutDrain [NAck (AConnAck 1 false); NAck (ASubAck 1 [0]);
                  NForward (Some (0, 1)) (mkpub [116] [50] 0 0 false) None]).
Proof. vm_compute. reflexivity. Qed.

(** the hypotheses of [shared_skip] (member b, not its turn) and [shared_advance] (member a, the
    current client) in the reachable state after the publishes were accepted *)
Example skip_and_advance_hypotheses :
  match run_from cfg0 (firstn 15 ops) with
  | Ok (st, _) =>
      match slab_get (r_trackers st) 0, slab_get (r_trackers st) 1, slab_get (r_obufs st) 0, slab_get (r_obufs st) 1 with
      | Some ta, Some tb, Some oa, Some ob =>
          match tr_reqs ta, tr_reqs tb with
          | rqa :: _, rqb :: _ =>
              match req_group st rqa, req_group st rqb with
              | Some (na, ga), Some (nb, gb) =>
                  na = [103;47;116] /\ nb = na /\ ga = gb /\
                  current_client ga = Some (o_client oa) /\ current_client gb <> Some (o_client ob) /\
                  g_cursor ga = (0, 0) /\
                  match forward_device_data st 1 rqb with
                  | Ok (st', rq', status) => status = SkipRequest /\ r_groups st' = r_groups st /\ r_links st' = r_links st
                  | _ => False
                  end /\
                  match forward_device_data st 0 rqa with
                  | Ok (st', rq', status) =>
                      status = PartialRead /\
                      al_get str_eqb na (r_groups st') =
                        Some {| g_clients := [[97]; [98]]; g_idx := 1; g_cursor := (0, 1); g_strategy := RoundRobin |}
                  | _ => False
                  end
              | _, _ => False
              end
          | _, _ => False
          end
      | _, _, _, _ => False
      end
  | _ => False
  end.
Proof. vm_compute. repeat split; try reflexivity. discriminate. Qed.
End C17Example.
