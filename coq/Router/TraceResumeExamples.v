(** C08 at the level of whole runs — concrete runs (vm_compute on literal op lists).

    [rx_ops]: "r" (clean_session = false; key 0, link 0) subscribes "t" with QoS 1; "p" publishes
    three messages: r gets offsets 0, 1, 2 (packet ids 1, 2, 3) and acknowledges the FIRST only; it
    is disconnected: end marker with resume point 1 and window [1; 2]; p publishes two more
    (offsets 3, 4) while r is away; r connects again (clean_session = false): key 0 again, LINK 2.
    The trace of the new key (2, "t", 0) is  Res@1, Fwd 1, 2, 3, 4 : the two unacknowledged
    messages again, the acknowledged one not, the two accepted while away too.  r acknowledges all
    four; everything is drained: the state is quiescent.

    [cx_ops]: the same, but r comes back with clean_session = TRUE: link 2 has no resume marker;
    after a new SUBSCRIBE its key starts with Sub@5 and gets only what is published afterwards. *)
From Coq Require Import List ZArith ZifyBool ZifyN ZifyNat.
From Rumqtt Require Import Log.Spec Router.Inv Router.NoPanic Router.NoPanicDevBase Router.NoPanicDevInv.
From Rumqtt Require Import Router.WindowFrame Router.Window Router.ExactInv Router.ExactExamples Router.WindowExamples Router.WakeExamples.
From Rumqtt Require Import Router.Wake Router.WakePark Router.WakeThm Router.WakeCor.
From Rumqtt Require Import Router.TraceRun Router.TraceRunThm Router.TraceRunExamples
                           Router.TraceResume Router.TraceResumeWin Router.TraceResumeEnd Router.TraceResumeThm.
From Rumqtt Require Import Router.Model Router.RunDefs.
Import ListNotations.

Definition rx_away : list rop :=
  [tx_pconn 114; wx_conn 112; OpPush 0 (PSubscribe 1 [([116], 1)] None); OpData 0;
   OpConsume; OpConsume; OpConsume; OpDrain 0; OpDrain 1;
   OpPush 1 (wx_pub 0 1); OpPush 1 (wx_pub 0 2); OpPush 1 (wx_pub 0 3); OpData 1;
   OpConsume; OpConsume; OpDrain 0;
   OpPush 0 (PPubAck 1); OpData 0;
   OpDisconnect 0; OpDrain 0;
   OpPush 1 (wx_pub 0 4); OpPush 1 (wx_pub 0 5); OpData 1; OpConsume; OpDrain 1].
Definition rx_ops : list (list oracle * rop) :=
  wx_plain (rx_away ++
            [tx_pconn 114; OpConsume; OpConsume; OpConsume; OpDrain 2;
             OpPush 2 (PPubAck 1); OpPush 2 (PPubAck 2); OpPush 2 (PPubAck 3); OpPush 2 (PPubAck 4); OpData 0;
             OpConsume; OpConsume; OpDrain 2; OpDrain 1; OpDrain 0]).
Definition cx_ops : list (list oracle * rop) :=
  wx_plain (rx_away ++
            [wx_conn 114; OpPush 2 (PSubscribe 1 [([116], 1)] None); OpData 0;
             OpConsume; OpConsume; OpConsume; OpDrain 2;
             OpPush 1 (wx_pub 0 6); OpData 1; OpConsume; OpConsume; OpDrain 2; OpDrain 1]).

(** an event in short: (connection key, link, [kshort]) *)
Definition evshort (e : dev) : N * N * (N * N * N) := (fst (fst e), fst (fst (snd (fst e))), kshort (snd e)).
(** the end markers of a trace, in full *)
Definition ends_of (tr : list dev) : list (N * N * list N) :=
  flat_map (fun e : dev => match snd e with KEnd _ r w => [(fst (fst (snd (fst e))), r, w)] | _ => [] end) tr.

Example resume_run_example :
  let st := tx_st rx_ops in let tr := tx_tr rx_ops in
  tx_run rx_ops = Ok (st, tr) /\
  exists st0,
    (* the hypotheses of the theorems of TraceResumeThm.v *)
    run_hyps tx_cfg st0 rx_ops st tr /\ 1 <= cf_max_outgoing tx_cfg /\ quiescent st (owed_run st0 [] rx_ops) /\
    always_b (noshare_b 0 0) st0 rx_ops = true /\
    (* the trace *)
    map evshort tr = [(0, 0, (2, 0, 0)); (0, 0, (0, 0, 0)); (0, 0, (0, 1, 0)); (0, 0, (0, 2, 0));
                      (0, 0, (4, 1, 2));
                      (0, 2, (3, 1, 0)); (0, 2, (0, 1, 0)); (0, 2, (0, 2, 0)); (0, 2, (0, 3, 0)); (0, 2, (0, 4, 0))] /\
    ends_of tr = [(0, 1, [1; 2])] /\
    map kshort (ktrace (0, [116], 0) tr) = (2, 0, 0) :: fwds 0 3 /\
    map kshort (ktrace (2, [116], 0) tr) = (3, 1, 0) :: fwds 1 4 /\
    qfo (ktrace (0, [116], 0) tr) = [0] ++ [1; 2] /\
    (* the final state: r alive on link 2, subscribed, parked at the end of the log *)
    exists c o d,
      slab_get (r_conns st) 0 = Some c /\ c_subs c = [[116]] /\ slab_get (r_obufs st) 0 = Some o /\ o_link o = 2 /\
      o_inflight o = [] /\ nget (r_datalog st) 0 = Some d /\ end_of (d_log d) = 5 /\
      map (fun w : N * drequest => (fst w, dr_cursor (snd w), dr_group (snd w))) (d_waiters d) = [(0, (0, 5), None)].
Proof.
  cbv zeta. assert (E : tx_run rx_ops = Ok (tx_st rx_ops, tx_tr rx_ops)) by (vm_compute; reflexivity).
  split; [exact E|].
  destruct (tx_hyps _ _ _ E) as (st0 & H & Hmo); [vm_compute; reflexivity|vm_compute; reflexivity|].
  exists st0. split; [exact H|]. split; [exact Hmo|].
  assert (Hi : init tx_cfg = Ok st0) by (destruct H as (_ & _ & Hi & _); exact Hi).
  assert (E0 : st0 = force (init tx_cfg)) by (now rewrite Hi).
  split; [apply quiescent_b_ok; rewrite E0; vm_compute; reflexivity|].
  split; [rewrite E0; vm_compute; reflexivity|].
  split; [vm_compute; reflexivity|]. split; [vm_compute; reflexivity|]. split; [vm_compute; reflexivity|].
  split; [vm_compute; reflexivity|]. split; [vm_compute; reflexivity|].
  eexists. eexists. eexists. split; [vm_compute; reflexivity|]. split; [reflexivity|].
  split; [vm_compute; reflexivity|]. split; [reflexivity|]. split; [reflexivity|].
  split; [vm_compute; reflexivity|]. split; vm_compute; reflexivity.
Qed.

Example clean_run_example :
  let st := tx_st cx_ops in let tr := tx_tr cx_ops in
  tx_run cx_ops = Ok (st, tr) /\
  (exists st0, run_hyps tx_cfg st0 cx_ops st tr) /\
  map evshort tr = [(0, 0, (2, 0, 0)); (0, 0, (0, 0, 0)); (0, 0, (0, 1, 0)); (0, 0, (0, 2, 0));
                    (0, 0, (4, 1, 2));
                    (0, 2, (2, 5, 0)); (0, 2, (0, 5, 0))] /\
  nth_error cx_ops (length rx_away) = Some ([], wx_conn 114) /\
  lenN (r_links (tx_st (wx_plain rx_away))) = 2.
Proof.
  cbv zeta. assert (E : tx_run cx_ops = Ok (tx_st cx_ops, tx_tr cx_ops)) by (vm_compute; reflexivity).
  split; [exact E|]. split.
  { destruct (tx_hyps _ _ _ E) as (st0 & H & _); [vm_compute; reflexivity|vm_compute; reflexivity|]. eauto. }
  split; [vm_compute; reflexivity|]. split; vm_compute; reflexivity.
Qed.

(** WHY (b), (c) NEED [noshare_b].  "r" (clean_session = false) holds the plain subscription "t"
    AND the shared subscription "$share/g/t", both QoS 1: both read log 0, and the window and the
    retransmission map are keyed by the log alone.  Three publishes: the plain request forwards
    offsets 0, 1, 2 with packet ids 1, 2, 3; the shared one forwards 0, 1, 2 with packet ids 4, 5, 6.
    r acknowledges 1, 2, 3 — every forward of the plain subscription — and is disconnected: the
    window holds the three SHARED forwards, the retransmission cursor of log 0 is offset 0, and the
    PLAIN request is rewound to it (end marker: resume point 0).  After the reconnect the plain
    key gets 0, 1, 2 AGAIN, although all three were acknowledged. *)
Definition SH_T : str := [36; 115; 104; 97; 114; 101; 47; 103; 47; 116].    (* "$share/g/t" *)
Definition sx_pre : list rop :=
  [tx_pconn 114; wx_conn 112; OpPush 0 (PSubscribe 1 [([116], 1); (SH_T, 1)] None); OpData 0;
   OpConsume; OpConsume; OpConsume; OpDrain 0; OpDrain 1;
   OpPush 1 (wx_pub 0 1); OpPush 1 (wx_pub 0 2); OpPush 1 (wx_pub 0 3); OpData 1;
   OpConsume; OpConsume; OpConsume; OpConsume; OpConsume; OpDrain 0;
   OpPush 0 (PPubAck 1); OpPush 0 (PPubAck 2); OpPush 0 (PPubAck 3); OpData 0].
Definition sx_ops : list (list oracle * rop) :=
  wx_plain (sx_pre ++ [OpDisconnect 0; OpDrain 0; tx_pconn 114; OpConsume; OpConsume; OpConsume; OpDrain 2]).
(** the window of connection [id]: (packet id, log, offset) *)
Definition window_of (st : rstate) (id : N) : list (N * N * option N) :=
  match slab_get (r_obufs st) id with
  | Some o => map (fun e : N * N * option cursor => (fst (fst e), snd (fst e), option_map snd (snd e))) (o_inflight o)
  | None => []
  end.
Definition fwd_pk (a : kev) : option (N * N) := match a with KFwd off p => Some (off, p_pkid p) | _ => None end.

Example share_rewind_witness :
  let st := tx_st sx_ops in let tr := tx_tr sx_ops in
  tx_run sx_ops = Ok (st, tr) /\
  (exists st0, run_hyps tx_cfg st0 sx_ops st tr /\ always_b (noshare_b 0 0) st0 sx_ops = false) /\
  (* the plain key's forwards and their packet ids *)
  map fwd_pk (ktrace (0, [116], 0) tr) = [None; Some (0, 1); Some (1, 2); Some (2, 3)] /\
  (* just before the Disconnect: they are all acknowledged; the window holds the shared forwards *)
  window_of (tx_st (wx_plain sx_pre)) 0 = [(4, 0, Some 0); (5, 0, Some 1); (6, 0, Some 2)] /\
  ends_of tr = [(0, 0, [0; 1; 2])] /\
  map evshort tr = [(0, 0, (2, 0, 0)); (0, 0, (0, 0, 0)); (0, 0, (0, 1, 0)); (0, 0, (0, 2, 0));
                    (0, 0, (4, 0, 3));
                    (0, 2, (3, 0, 0)); (0, 2, (0, 0, 0)); (0, 2, (0, 1, 0)); (0, 2, (0, 2, 0))].
Proof.
  cbv zeta. assert (E : tx_run sx_ops = Ok (tx_st sx_ops, tx_tr sx_ops)) by (vm_compute; reflexivity).
  split; [exact E|]. split.
  { destruct (tx_hyps _ _ _ E) as (st0 & H & _); [vm_compute; reflexivity|vm_compute; reflexivity|].
    exists st0. split; [exact H|].
    assert (Hi : init tx_cfg = Ok st0) by (destruct H as (_ & _ & Hi & _); exact Hi).
    assert (E0 : st0 = force (init tx_cfg)) by (now rewrite Hi). rewrite E0. vm_compute. reflexivity. }
  split; [vm_compute; reflexivity|]. split; [vm_compute; reflexivity|]. split; vm_compute; reflexivity.
Qed.

(** A resume over a rollover: r gets offsets 0, 1, 2, acknowledges nothing and is disconnected
    (resume point 0); while it is away twelve publishes of 300 bytes roll the log over: its base
    moves to offset 7, the saved cursor is stale.  After the reconnect the new key's trace is
    Res@0, Jump 0 -> 7 (FORWARD: offsets 0..6 were evicted), Fwd 7 .. 14. *)
Definition jx_ops : list (list oracle * rop) :=
  wx_plain ([tx_pconn 114; wx_conn 112; OpPush 0 (PSubscribe 1 [([116], 1)] None); OpData 0;
             OpConsume; OpConsume; OpConsume; OpDrain 0; OpDrain 1;
             OpPush 1 (wx_pub 0 1); OpPush 1 (wx_pub 0 2); OpPush 1 (wx_pub 0 3); OpData 1;
             OpConsume; OpConsume; OpDrain 0;
             OpDisconnect 0; OpDrain 0]
            ++ map (fun i => OpPush 1 (tx_big (N.of_nat i))) (seq 1 12) ++ [OpData 1; OpConsume; OpDrain 1;
             tx_pconn 114; OpConsume; OpConsume; OpConsume; OpDrain 2]).

Example resume_jump_example :
  let st := tx_st jx_ops in let tr := tx_tr jx_ops in
  tx_run jx_ops = Ok (st, tr) /\
  (exists st0, run_hyps tx_cfg st0 jx_ops st tr) /\
  ends_of tr = [(0, 0, [0; 1; 2])] /\
  map kshort (ktrace (2, [116], 0) tr) = (3, 0, 0) :: (1, 0, 7) :: fwds 7 8.
Proof.
  cbv zeta. assert (E : tx_run jx_ops = Ok (tx_st jx_ops, tx_tr jx_ops)) by (vm_compute; reflexivity).
  split; [exact E|]. split.
  { destruct (tx_hyps _ _ _ E) as (st0 & H & _); [vm_compute; reflexivity|vm_compute; reflexivity|]. eauto. }
  split; vm_compute; reflexivity.
Qed.

(** clean_session at the old end, and the ConnAck flag: in [cx_ops] the connection that came back
    with clean_session = TRUE (link 2) is removed at the end: no end marker under link 2 — the only
    end marker of the run is the one of link 0.  The ConnAck committed by the reconnect carries
    session_present = true in [rx_ops] (persistent, a request restored) and false in [cx_ops]. *)
Definition committed_of (st : rstate) (id : N) : list ack :=
  match slab_get (r_acks st) id with Some l => a_committed l | None => [] end.

Example clean_end_example :
  (exists st0, run_hyps tx_cfg st0 (cx_ops ++ wx_plain [OpDisconnect 0; OpDrain 2])
                 (tx_st (cx_ops ++ wx_plain [OpDisconnect 0; OpDrain 2])) (tx_tr (cx_ops ++ wx_plain [OpDisconnect 0; OpDrain 2]))) /\
  ends_of (tx_tr (cx_ops ++ wx_plain [OpDisconnect 0; OpDrain 2])) = [(0, 1, [1; 2])] /\
  slab_get (r_obufs (tx_st (cx_ops ++ wx_plain [OpDisconnect 0; OpDrain 2]))) 0 = None /\
  committed_of (tx_st (wx_plain (rx_away ++ [tx_pconn 114]))) 0 = [AConnAck 0 true] /\
  committed_of (tx_st (wx_plain (rx_away ++ [wx_conn 114]))) 0 = [AConnAck 0 false].
Proof.
  split.
  { assert (E : tx_run (cx_ops ++ wx_plain [OpDisconnect 0; OpDrain 2]) =
                Ok (tx_st (cx_ops ++ wx_plain [OpDisconnect 0; OpDrain 2]), tx_tr (cx_ops ++ wx_plain [OpDisconnect 0; OpDrain 2])))
      by (vm_compute; reflexivity).
    destruct (tx_hyps _ _ _ E) as (st0 & H & _); [vm_compute; reflexivity|vm_compute; reflexivity|]. eauto. }
  split; [vm_compute; reflexivity|]. split; [vm_compute; reflexivity|]. split; vm_compute; reflexivity.
Qed.
