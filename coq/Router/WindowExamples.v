(** Non-trivial reachable witnesses for the hypotheses of the C09 / C06 theorems (vm_compute on
    literal op lists run through [step_with] from [init]). *)
From Coq Require Import ZArith ZifyBool ZifyN ZifyNat.
From Rumqtt Require Import Router.Model Router.RunDefs Router.WindowFrame Router.Window Router.WindowStep Router.WindowThm Router.WindowDisc Router.Acks Router.AcksRun Router.WindowResume.

(* ------------------------------------------------------------------ non-trivial reachable witnesses *)
Definition dummy_state : rstate :=
  {| r_cfg := ex_cfg; r_graveyard := []; r_conns := slab_empty; r_cmap := []; r_submap := [];
     r_ibufs := slab_empty; r_obufs := slab_empty;
     r_datalog := {| dl_native := slab_empty; dl_findex := []; dl_retained := []; dl_pfilters := [] |};
     r_acks := slab_empty; r_trackers := slab_empty; r_ready := []; r_notif := []; r_groups := [];
     r_wills := []; r_links := []; r_oracle := [] |}.
Definition force (r : R rstate) : rstate := match r with Ok s => s | _ => dummy_state end.
Definition plain (l : list rop) : list (list oracle * rop) := map (fun o => ([], o)) l.
Definition from_init (ops : list (list oracle * rop)) : R rstate := do st0 <- init ex_cfg; run st0 ops.

Lemma from_init_reachable ops st : from_init ops = Ok st -> reachable ex_cfg st.
Proof. unfold from_init. intros H. apply bind_ok in H as (st0 & H0 & H). exists st0, ops. auto. Qed.

(** (c): three forwards [1;2;3] unacknowledged, the subscriber acknowledges 2 first *)
Definition exc_ops : list (list oracle * rop) :=
  plain [ ex_conn 115; ex_conn 112;
          OpPush 0 (PSubscribe 1 [([116], 1)] None); OpData 0;
          OpPush 1 (ex_pub 1); OpPush 1 (ex_pub 2); OpPush 1 (ex_pub 3); OpData 1;
          OpConsume; OpConsume; OpConsume;
          OpPush 0 (PPubAck 2) ].
Definition exc_st : rstate := force (from_init exc_ops).

Example unsolicited_witness :
  from_init exc_ops = Ok exc_st /\ reachable ex_cfg exc_st /\
  exists inc b o st',
    slab_get (r_ibufs exc_st) 0 = Some inc /\ nthN (r_links exc_st) (i_link inc) = Some b /\
    lk_in b = [PPubAck 2] /\
    slab_get (r_obufs (link_put exc_st (i_link inc) (set_lk_in b []))) 0 = Some o /\
    pkids o = [1; 2; 3] /\ unsolicited o (PPubAck 2) /\
    processed 0 (i_client inc) (link_put exc_st (i_link inc) (set_lk_in b [])) flags0 (lk_in b)
              (link_put exc_st (i_link inc) (set_lk_in b [])) flags0 (PPubAck 2) /\
    handle_device_payload exc_st 0 = Ok st' /\
    slab_get (r_obufs st') 0 = None /\ slab_get (r_obufs st') 1 = slab_get (r_obufs exc_st) 1 /\
    slab_get (r_obufs exc_st) 1 <> None.
Proof.
  assert (E : from_init exc_ops = Ok exc_st) by (vm_compute; reflexivity).
  split; [exact E |]. split; [now apply from_init_reachable in E |].
  eexists. eexists. eexists. eexists.
  split; [vm_compute; reflexivity |]. split; [vm_compute; reflexivity |].
  split; [vm_compute; reflexivity |]. split; [vm_compute; reflexivity |].
  split; [vm_compute; reflexivity |].
  split; [vm_compute; discriminate |].
  split; [apply pr_here |].
  split; [vm_compute; reflexivity |].
  split; [vm_compute; reflexivity |]. split; [vm_compute; reflexivity |]. vm_compute; discriminate.
Qed.

(** (d): the window is full (100 unacknowledged forwards, the 101st waits in the log), the
    tracker is paused InflightFull; PUBACK 1 arrives *)
Definition ex_many (n : nat) : list rop := map (fun i => OpPush 1 (ex_pub (N.of_nat i))) (seq 1 n).
Definition exd_ops : list (list oracle * rop) :=
  plain ([ ex_conn 115; ex_conn 112; OpPush 0 (PSubscribe 1 [([116], 1)] None); OpData 0;
           OpConsume; OpConsume; OpDrain 0 ]
         ++ ex_many 101 ++ [ OpData 1; OpConsume; OpConsume; OpConsume; OpConsume; OpPush 0 (PPubAck 1) ]).
Definition exd_st : rstate := force (from_init exd_ops).
Definition exd_st1 : rstate := force (run exd_st (plain [OpData 0])).
Definition exd_st2 : rstate := force (run exd_st1 (plain [OpConsume])).

Example resume_witness :
  from_init exd_ops = Ok exd_st /\ reachable ex_cfg exd_st /\
  (exists o t, slab_get (r_obufs exd_st) 0 = Some o /\ lenN (o_inflight o) = 100 /\ o_last o = 0 /\
               hd_error (pkids o) = Some 1 /\
               slab_get (r_trackers exd_st) 0 = Some t /\ tr_status t = Paused InflightFull /\
               r_ready exd_st = [] /\ in_of exd_st 0 = [PPubAck 1]) /\
  run exd_st (plain [OpData 0]) = Ok exd_st1 /\ ready_in 0 exd_st1 /\
  run exd_st1 (plain [OpConsume]) = Ok exd_st2 /\
  (exists o, slab_get (r_obufs exd_st2) 0 = Some o /\
             pkids o = map N.of_nat (seq 2 99) ++ [1] /\ o_last o = 1 /\ win_check o = true) /\
  fwd_ids (skipn 100 (out_of exd_st2 0)) = [1].
Proof.
  assert (E : from_init exd_ops = Ok exd_st) by (vm_compute; reflexivity).
  split; [exact E |]. split; [now apply from_init_reachable in E |].
  split.
  { eexists. eexists. split; [vm_compute; reflexivity |]. split; [vm_compute; reflexivity |].
    split; [vm_compute; reflexivity |]. split; [vm_compute; reflexivity |].
    split; [vm_compute; reflexivity |]. repeat split; vm_compute; reflexivity. }
  split; [vm_compute; reflexivity |].
  split.
  { eexists. split; [vm_compute; reflexivity |]. split; [vm_compute; reflexivity |]. vm_compute. now left. }
  split; [vm_compute; reflexivity |].
  split.
  { eexists. split; [vm_compute; reflexivity |]. repeat split; vm_compute; reflexivity. }
  vm_compute; reflexivity.
Qed.

(** (e),(f): the publisher's four QoS 1 publishes are acknowledged on ITS link, in order, each
    once; draining the link hands them over and leaves nothing behind *)
Definition exf_st : rstate := force (from_init ex_ops).
Example acks_witness :
  from_init ex_ops = Ok exf_st /\ alive exf_st 1 1 /\
  ackseq exf_st 1 1 = [AConnAck 1 false; APubAck 1; APubAck 2; APubAck 3; APubAck 4] /\
  acks_of (out_of exf_st 0) = [AConnAck 0 false; ASubAck 1 [1]] /\
  exists st' d, run_drained 1 exf_st (plain [OpDrain 1; OpPush 1 (ex_pub 5); OpData 1]) = Ok (st', d) /\
                alive st' 1 1 /\
                acks_of d = [AConnAck 1 false; APubAck 1; APubAck 2; APubAck 3; APubAck 4] /\
                ackseq st' 1 1 = [APubAck 5].
Proof.
  split; [vm_compute; reflexivity |].
  split; [eexists; split; vm_compute; reflexivity |].
  split; [vm_compute; reflexivity |]. split; [vm_compute; reflexivity |].
  eexists. eexists. split; [vm_compute; reflexivity |].
  split; [eexists; split; vm_compute; reflexivity |].
  split; vm_compute; reflexivity.
Qed.
