(** C17, completeness clause — part 1: the invariant [GroupParkInv] and the serving side.

    [GroupParkInv st]: for every shared-subscription group registered in [r_groups st] and every
    data request parked in the waiter list of a filter log that is served through that group
    ([dr_group rq = Some key]): NOTHING IS LEFT TO READ FROM THE GROUP CURSOR — the position a
    read of that log from the group's cursor starts at ([pos_of], Log.Spec: the cursor's offset,
    or the oldest retained entry when the cursor's segment has been evicted) is the END of the
    log (number of entries ever appended).  A shared request is parked only when the read from
    the group cursor came back empty — the non-current member of the F33 repair
    ([c17_skip_parks_only_when_empty]) as well as the current one — and an append to a log takes
    ALL waiters of that log out of the waiter list, which restores the invariant.

    This is the complement of [ParkInv] (WakePark.v), which excludes exactly these requests
    ("their cursor lives in the group").

    The statement uses [pos_of] rather than the raw offset [snd (g_cursor g)]: [Issued] puts no
    constraint on the offset of a cursor whose segment has been evicted, a read from such a
    cursor starts at the oldest retained entry.  For a cursor that is not [stale] the two
    coincide ([gpark_not_stale]).

    This file: definitions, frames, [forward_device_data], [park], [consume]. *)
From Rumqtt Require Import Log.Spec Log.Proofs Log.WfFacts Router.ExactLog.
From Rumqtt Require Import Topic.Proofs Router.WindowFrame Router.Window Router.DataLogInv Router.DataLogStep
                           Router.ExactInv Router.ExactStep1 Router.ExactStep2 Router.ExactStep3 Router.ExactLogs Router.ExactSweep.
From Rumqtt Require Import Router.RetainedBase Router.RetainedReplay Router.Shared Router.SharedRun Router.SharedRunInv Router.SharedRunStep.
From Rumqtt Require Import Router.Wake Router.WakePark.
From Rumqtt Require Import Router.Model Router.RunDefs.
From Coq Require Import List Arith ZifyBool ZifyN ZifyNat.
Import ListNotations.

(* ------------------------------------------------------------------ the invariant *)
Definition gparked_ok (gs : list (str * group)) (d : data) (w : N * drequest) : Prop :=
  forall name g, dr_group (snd w) = Some name -> al_get str_eqb name gs = Some g ->
    pos_of (d_log d) (g_cursor g) = end_of (d_log d).
Definition GParkD (gs : list (str * group)) (dl : datalog) : Prop :=
  forall i d, nget dl i = Some d -> Forall (gparked_ok gs d) (d_waiters d).
Definition GroupParkInv (st : rstate) : Prop := GParkD (r_groups st) (r_datalog st).

Lemma gpark_not_stale (l : log pubdata) c : stale l c = false -> pos_of l c = snd c.
Proof. unfold pos_of. now intros ->. Qed.

(** fewer waiters / logs without waiters, groups that keep their cursors *)
Lemma GParkD_frame gs gs' dl dl' : GParkD gs dl -> psub dl dl' -> gcur_sub gs gs' -> GParkD gs' dl'.
Proof.
  intros P S G i d' G'. destruct (S _ _ G') as [E | (d & Gd & L & I)]; [rewrite E; constructor |].
  specialize (P _ _ Gd). rewrite Forall_forall in *. intros w Hw name g' Hn Hg'.
  destruct (G _ _ Hg') as (g & Hg & Ec). rewrite L, Ec. exact (P w (I w Hw) name g Hn Hg).
Qed.

Lemma GPI_frame st st' : GroupParkInv st -> PS st st' -> gcur_sub (r_groups st) (r_groups st') -> GroupParkInv st'.
Proof. apply GParkD_frame. Qed.

Lemma GPI_eq st st' : r_datalog st' = r_datalog st -> r_groups st' = r_groups st -> GroupParkInv st -> GroupParkInv st'.
Proof. unfold GroupParkInv. now intros -> ->. Qed.

(* ------------------------------------------------------------------ reads at the end of a log *)
Section Reads.
Variables (l : log pubdata) (all : list pubdata) (c : cursor) (n : N) (pos : position) (out : list (pubdata * cursor)).
Hypotheses (W : WFp l all) (Hi : Issued l c) (B1 : 2 * lenN all < U64) (B2 : snd c + n < U64)
           (HV : readv l c n = Ok (pos, out)).

Lemma read_from_end : pos_of l c = lenN all -> out = [] /\ pos_of l (pos_end pos) = lenN all.
Proof.
  intros E. destruct (readv_ok_facts pubdata_size _ _ _ _ _ _ W Hi B1 B2 HV) as (_ & _ & _ & _ & _ & _ & Hst & Hsnd & Hle & _).
  cbv zeta in *. rewrite E in *.
  assert (lenN out = 0) by lia. destruct out as [| x r]; [| rewrite lenN_cons in *; lia].
  split; [reflexivity |]. unfold pos_of. rewrite Hst, Hsnd. rewrite lenN_nil. lia.
Qed.

Lemma read_done_end : is_done pos = true -> pos_of l (pos_end pos) = lenN all.
Proof.
  intros E. destruct (readv_ok_facts pubdata_size _ _ _ _ _ _ W Hi B1 B2 HV) as (_ & _ & _ & _ & _ & _ & Hst & Hsnd & _ & Hd).
  cbv zeta in *. unfold pos_of. rewrite Hst, Hsnd. now apply Hd.
Qed.

Lemma read_done_empty : is_done pos = true -> out = [] -> pos_of l c = lenN all.
Proof.
  intros E ->. destruct (readv_ok_facts pubdata_size _ _ _ _ _ _ W Hi B1 B2 HV) as (_ & _ & _ & _ & _ & _ & _ & _ & _ & Hd).
  cbv zeta in *. apply Hd in E. rewrite lenN_nil in E. lia.
Qed.

Lemma read_nothing_end : 1 <= n -> out = [] -> pos_of l c = lenN all.
Proof.
  intros Hn ->. destruct (readv_ok_facts pubdata_size _ _ _ _ _ _ W Hi B1 B2 HV) as (_ & Hp & Hm & _).
  cbv zeta in *. cbn [map] in Hm.
  destruct (N.to_nat n) as [| k] eqn:En; [lia |].
  destruct (skipn (N.to_nat (pos_of l c)) all) as [| x r] eqn:Es; [| discriminate].
  assert (length all <= N.to_nat (pos_of l c))%nat.
  { destruct (Nat.le_gt_cases (length all) (N.to_nat (pos_of l c))) as [A | A]; [exact A |].
    exfalso. pose proof (skipn_length (N.to_nat (pos_of l c)) all) as SL. rewrite Es in SL. cbn [length] in SL. lia. }
  unfold lenN in *. lia.
Qed.
End Reads.

(* ------------------------------------------------------------------ forward_device_data *)
(** what phase 3 does to the groups and which status it returns *)
Lemma fdd_push_groups st1 id o conn sg rq2 publishes caughtup st' rq' cs :
  fdd_push st1 id o conn sg rq2 publishes caughtup = Ok (st', rq', cs) ->
  rq' = rq2 /\ r_datalog st' = r_datalog st1 /\
  (cs = BufferFull \/ cs = (if caughtup then FilterCaughtup else PartialRead)) /\
  match sg with
  | Some (name, _) =>
      match al_get str_eqb name (r_groups st1) with
      | Some g => exists g1, r_groups st' = al_set str_eqb name (set_g_cursor g1 (dr_cursor rq2)) (r_groups st1)
      | None => r_groups st' = r_groups st1
      end
  | None => r_groups st' = r_groups st1
  end.
Proof.
  unfold fdd_push. intros H. cbv zeta in H.
  destruct (2 <? dr_qos rq2); [discriminate |].
  destruct (alias_forwards (c_baliases conn) (dr_qos rq2) (al_get str_eqb (dr_filter rq2) (c_subids conn)) publishes)
    as [bal forwards].
  match type of H with (match ?x with _ => _ end) = _ => destruct x as [o1 notifs] end.
  apply bind_ok in H as ([st4 len] & H4 & H). apply bind_ok in H as (st5 & H5 & H).
  pose proof (push_out_cview _ _ _ _ _ H4) as V4.
  assert (G4 : r_groups st4 = r_groups st1) by (rewrite (cview_groups _ _ V4); reflexivity).
  assert (D4 : r_datalog st4 = r_datalog st1) by (rewrite (cview_dl _ _ V4); reflexivity).
  assert (A5 : r_datalog st5 = r_datalog st1 /\
               match sg with
               | Some (name, _) =>
                   match al_get str_eqb name (r_groups st1) with
                   | Some g => exists g1, r_groups st5 = al_set str_eqb name (set_g_cursor g1 (dr_cursor rq2)) (r_groups st1)
                   | None => r_groups st5 = r_groups st1
                   end
               | None => r_groups st5 = r_groups st1
               end).
  { destruct sg as [[name g0] |]; [| inv_ok; auto].
    rewrite G4 in H5. destruct (al_get str_eqb name (r_groups st1)) as [g |]; [| inv_ok; auto].
    apply bind_ok in H5 as ([s g'] & H5 & H6). inv_ok.
    destruct (update_next_client_cview _ _ _ _ H5) as [V5 _]. rsimpl.
    split; [rewrite (cview_dl _ _ V5); exact D4 |]. exists g'. now rewrite (cview_groups _ _ V5), G4. }
  destruct A5 as [D5 G5].
  destruct (MAX_CHANNEL_CAPACITY - 1 <=? len).
  - apply bind_ok in H as ([st6 l6] & H6 & H). inv_ok. pose proof (push_out_cview _ _ _ _ _ H6) as V6.
    split; [reflexivity |]. split; [rewrite (cview_dl _ _ V6); exact D5 |]. split; [now left |].
    rewrite (cview_groups _ _ V6). exact G5.
  - inv_ok. split; [reflexivity |]. split; [exact D5 |]. split; [now right | exact G5].
Qed.

(** any waiter served through the group of the request being read reads the same log *)
Lemma same_group_same_log st rq name i d w :
  CInv st -> ParkInv st -> RqOk (r_datalog st) rq -> dr_group rq = Some name ->
  nget (r_datalog st) i = Some d -> In w (d_waiters d) -> dr_group (snd w) = Some name ->
  i = dr_idx rq.
Proof.
  intros [_ CI] HP [_ Hg] Hn Hd Hw Hwn.
  pose proof (HP _ _ Hd) as P. rewrite Forall_forall in P. destruct (P _ Hw) as [Ei _].
  pose proof (ci_wait _ _ CI _ _ Hd) as Q. rewrite Forall_forall in Q. destruct (Q _ Hw) as [_ Hgw].
  destruct (Hg _ Hn) as (nm & p & Hs & Hf). destruct (Hgw _ Hwn) as (nm' & p' & Hs' & Hf').
  rewrite Hs in Hs'. inversion Hs'; subst nm' p'. rewrite Hf in Hf'. inversion Hf'. congruence.
Qed.

Theorem fdd_gpark st id rq st' rq' cs :
  CInv st -> Bounded st -> 1 <= cf_max_outgoing (r_cfg st) -> ParkInv st -> GroupParkInv st ->
  RqOk (r_datalog st) rq ->
  forward_device_data st id rq = Ok (st', rq', cs) ->
  GroupParkInv st' /\
  (cs = FilterCaughtup ->
   forall name g d, dr_group rq' = Some name -> al_get str_eqb name (r_groups st') = Some g ->
     nget (r_datalog st') (dr_idx rq') = Some d -> pos_of (d_log d) (g_cursor g) = end_of (d_log d)).
Proof.
  intros HI HB HM HP HG Hrq. rewrite fdd_alt_eq. unfold fdd_alt, get_obuf. intros H.
  destruct (slab_get (r_obufs st) id) as [o |] eqn:G; [| discriminate]. cbn [bind] in H.
  destruct (slab_get (r_conns st) id) as [conn |]; [| discriminate]. cbn [bind] in H.
  cbv zeta in H.
  set (sg := match dr_group rq with
             | Some name => match al_get str_eqb name (r_groups st) with
                            | Some g => Some (name, g) | None => None end
             | None => None end) in *.
  set (rq0 := match sg with Some (_, g) => set_dr_cursor rq (g_cursor g) | None => rq end) in *.
  assert (Hsg : forall name g, sg = Some (name, g) -> dr_group rq = Some name /\ al_get str_eqb name (r_groups st) = Some g).
  { unfold sg. intros name g. destruct (dr_group rq) as [n0 |]; [| discriminate].
    destruct (al_get str_eqb n0 (r_groups st)) as [g0 |] eqn:E; [| discriminate]. intros E1; inversion E1; subst. auto. }
  assert (Hsg' : forall name g, dr_group rq = Some name -> al_get str_eqb name (r_groups st) = Some g -> sg = Some (name, g)).
  { intros name g E1 E2. unfold sg. now rewrite E1, E2. }
  assert (Hrq0 : RqOk (r_datalog st) rq0 /\ dr_idx rq0 = dr_idx rq /\ dr_group rq0 = dr_group rq /\
                 (forall name g, sg = Some (name, g) -> dr_cursor rq0 = g_cursor g)).
  { unfold rq0. destruct sg as [[name g] |] eqn:Es.
    - destruct (Hsg _ _ eq_refl) as [Hn Hg].
      split; [| split; [reflexivity | split; [reflexivity | intros ? ? E; now inversion E]]].
      apply rqok_set_cursor; [exact Hrq |]. eapply group_cursor_ok; [exact Hrq | exact Hn |].
      destruct HI as [_ CI]. exact (al_get_Forall _ _ _ _ (ci_groups _ _ CI) Hg).
    - split; [exact Hrq | split; [reflexivity | split; [reflexivity | discriminate]]]. }
  destruct Hrq0 as (Hrq0 & Hidx0 & Hgrp0 & Hcur0). clearbody rq0.
  apply bind_ok in H as (slots0 & HS & H).
  destruct (negb (dr_qos rq0 =? 0) && (slots0 =? 0)) eqn:EF; [inv_ok; split; [exact HG | discriminate] |].
  assert (Hs0 : 1 <= slots0 < B62).
  { destruct HI as [_ CI]. pose proof (ci_cfg _ _ CI). destruct (negb (dr_qos rq0 =? 0)); cbn [andb] in EF.
    - apply free_slots_le in HS. rewrite MAX_INFLIGHT_100 in HS. unfold B62. lia.
    - inv_ok. lia. }
  match type of H with context [fdd_retained st rq0 ?s] => set (slots1 := s) in * end.
  assert (Hs1 : 1 <= slots1 < B62).
  { unfold slots1. destruct sg as [[? g] |]; [destruct (g_strategy g) |]; unfold B62 in *; lia. }
  apply bind_ok in H as ([[[st1 rq1] retained] slots2] & HR & H).
  assert (H1 : cview st1 = cview st /\ dr_idx rq1 = dr_idx rq0 /\ dr_group rq1 = dr_group rq0 /\
               dr_cursor rq1 = dr_cursor rq0 /\ slots2 < B62 /\ (retained = [] -> slots2 = slots1)).
  { unfold fdd_retained in HR. destruct (dr_fwd_retained rq0).
    - apply bind_ok in HR as ([st2 rs] & HR1 & HR). cbv zeta in HR. inv_ok.
      split; [eapply read_retained_cview; eassumption |]. repeat (split; [reflexivity |]).
      split; [lia |]. intros ->. rewrite lenN_nil. lia.
    - inv_ok. repeat (split; [reflexivity |]). split; [lia | reflexivity]. }
  destruct H1 as (V1 & Hidx1 & Hgrp1 & Hcur1 & Hs2 & Hret).
  pose proof (cview_dl _ _ V1) as D1. pose proof (cview_groups _ _ V1) as G1.
  apply bind_ok in H as (d & Hd & H). apply native_get_Some in Hd. rewrite D1, Hidx1, Hidx0 in Hd.
  apply bind_ok in H as ([pos from_log] & HV & H).
  destruct Hrq0 as [(d' & Hd' & Hiss & Hend) _]. unfold nget in Hd'. rewrite Hidx0, Hd in Hd'. inversion Hd'; subst d'. clear Hd'.
  rewrite <- Hcur1 in Hiss, Hend.
  pose proof HI as [LI CI]. destruct (li_wf _ LI _ _ Hd) as [all W].
  pose proof (wf_end_of pubdata_size _ _ W) as Hall. pose proof (HB _ _ Hd) as Hb. pose proof B62_U64 as HU.
  assert (Hb1 : 2 * lenN all < U64) by lia.
  assert (Hb2 : snd (dr_cursor rq1) + slots2 < U64) by lia.
  (* a waiter served through the group of [rq] forces the group cursor to the end of [d] *)
  assert (K : forall name g i di w, sg = Some (name, g) -> nget (r_datalog st) i = Some di -> In w (d_waiters di) ->
              dr_group (snd w) = Some name -> di = d /\ pos_of (d_log d) (dr_cursor rq1) = lenN all).
  { intros name g i di w Es Hdi Hw Hwn. destruct (Hsg _ _ Es) as [Hn Hg].
    assert (i = dr_idx rq) by (eapply same_group_same_log; eauto). subst i.
    unfold nget in Hdi. rewrite Hd in Hdi. inversion Hdi; subst di. split; [reflexivity |].
    pose proof (HG _ _ Hd) as P. rewrite Forall_forall in P. specialize (P _ Hw _ _ Hwn Hg).
    rewrite Hcur1, (Hcur0 _ _ Es), P. exact Hall. }
  set (publishes := map (fun x : pubdata => (None, fst x, snd x)) retained ++
                    map (fun x : pubdata * cursor => (Some (snd x), fst (fst x), snd (fst x))) from_log) in *.
  assert (Epub : publishes = [] -> retained = [] /\ from_log = []).
  { unfold publishes. intros E. apply app_eq_nil in E as [E1 E2]. split; [destruct retained | destruct from_log]; auto; discriminate. }
  assert (Epos : (let '(start, next, caughtup) := match pos with Next s e => (s, e, false) | Done s e => (s, e, true) end in (next, caughtup)) = (pos_end pos, is_done pos))
    by (destruct pos; reflexivity).
  destruct (match pos with Next s e => (s, e, false) | Done s e => (s, e, true) end) as [[start next] caughtup].
  cbv beta iota in Epos. inversion Epos; subst next caughtup. clear Epos.
  assert (GP1 : GroupParkInv st1) by (eapply GPI_eq; eauto).
  match type of H with (if ?b then _ else _) = _ => destruct b eqn:Eskip end.
  { (* not this member's turn *)
    inv_ok. split; [exact GP1 |]. intros Ecs name g d0 Hn Hg Hd0.
    rewrite D1, Hidx1, Hidx0 in Hd0. unfold nget in Hd0. rewrite Hd in Hd0. inversion Hd0; subst d0.
    rewrite G1 in Hg. rewrite Hgrp1, Hgrp0 in Hn. pose proof (Hsg' _ _ Hn Hg) as Es.
    destruct (is_done pos) eqn:Edone; cbn [andb] in Ecs; [| discriminate].
    destruct publishes eqn:Ep; [| discriminate]. destruct (Epub eq_refl) as [_ ->].
    rewrite Hall, <- (Hcur0 _ _ Es), <- Hcur1. eapply read_done_empty; eauto. }
  set (rq2 := {| dr_filter := dr_filter rq1; dr_idx := dr_idx rq1; dr_qos := dr_qos rq1;
                 dr_cursor := pos_end pos; dr_read := dr_read rq1 + lenN publishes;
                 dr_fwd_retained := dr_fwd_retained rq1; dr_group := dr_group rq1 |}) in *.
  destruct publishes as [| pb pbs] eqn:Ep.
  { (* nothing read: caught up *)
    inv_ok. split; [exact GP1 |]. intros _ name g d0 Hn Hg Hd0. cbn [rq2 dr_idx dr_group] in Hn, Hd0.
    rewrite D1, Hidx1, Hidx0 in Hd0. unfold nget in Hd0. rewrite Hd in Hd0. inversion Hd0; subst d0.
    rewrite G1 in Hg. rewrite Hgrp1, Hgrp0 in Hn. pose proof (Hsg' _ _ Hn Hg) as Es.
    destruct (Epub eq_refl) as [Er ->]. rewrite (Hret Er) in *.
    rewrite Hall, <- (Hcur0 _ _ Es), <- Hcur1. eapply read_nothing_end; eauto. lia. }
  (* something is forwarded *)
  rewrite <- Ep in H. destruct (fdd_push_groups _ _ _ _ _ _ _ _ _ _ _ H) as (-> & D2 & Hcs & Hgs).
  assert (GA : forall name g' g1, sg = Some (name, g') ->
                 r_groups st' = al_set str_eqb name (set_g_cursor g1 (pos_end pos)) (r_groups st) ->
                 forall i di w gx, nget (r_datalog st) i = Some di -> In w (d_waiters di) ->
                   forall nm, dr_group (snd w) = Some nm -> al_get str_eqb nm (r_groups st') = Some gx ->
                   pos_of (d_log di) (g_cursor gx) = end_of (d_log di)).
  { intros name g' g1 Es Eg i di w gx Hdi Hw nm Hwn Hgx. rewrite Eg in Hgx.
    destruct (str_eqb_spec nm name) as [-> | Hne].
    - rewrite (al_get_set_same str_eqb str_eqb_spec) in Hgx. inversion Hgx; subst gx. cbn [set_g_cursor g_cursor].
      destruct (K _ _ _ _ _ Es Hdi Hw Hwn) as [-> E]. rewrite Hall.
      exact (proj2 (read_from_end _ _ _ _ _ _ W Hiss Hb1 Hb2 HV E)).
    - rewrite (RetainedBase.al_get_set_other str_eqb str_eqb_spec) in Hgx by exact Hne.
      pose proof (HG _ _ Hdi) as P. rewrite Forall_forall in P. exact (P _ Hw _ _ Hwn Hgx). }
  split.
  - intros i di Hdi. rewrite D2, D1 in Hdi. apply Forall_forall. intros w Hw nm gx Hwn Hgx.
    destruct sg as [[name g0] |] eqn:Es.
    + rewrite G1 in Hgs. destruct (Hsg _ _ eq_refl) as [_ Hg0]. rewrite Hg0 in Hgs. destruct Hgs as [g1 Eg].
      cbn [rq2 dr_cursor] in Eg. eapply (GA name g0 g1 eq_refl Eg); eauto.
    + rewrite G1 in Hgs. rewrite Hgs in Hgx. pose proof (HG _ _ Hdi) as P. rewrite Forall_forall in P. exact (P _ Hw _ _ Hwn Hgx).
  - intros Ecs name g d0 Hn Hg Hd0. cbn [rq2 dr_idx dr_group] in Hn, Hd0.
    rewrite D2, D1, Hidx1, Hidx0 in Hd0. unfold nget in Hd0. rewrite Hd in Hd0. inversion Hd0; subst d0.
    rewrite Hgrp1, Hgrp0 in Hn.
    assert (Edone : is_done pos = true).
    { destruct Hcs as [E | E]; [congruence |]. rewrite Ecs in E. destruct (is_done pos); [reflexivity | discriminate]. }
    destruct sg as [[name0 g0] |] eqn:Es.
    + destruct (Hsg _ _ eq_refl) as [Hn0 Hg0]. rewrite Hn0 in Hn. inversion Hn; subst name0.
      rewrite G1, Hg0 in Hgs. destruct Hgs as [g1 Eg]. cbn [rq2 dr_cursor] in Eg. rewrite Eg in Hg.
      rewrite (al_get_set_same str_eqb str_eqb_spec) in Hg. inversion Hg; subst g. cbn [set_g_cursor g_cursor].
      rewrite Hall. eapply read_done_end; eauto.
    + exfalso. rewrite G1 in Hgs. rewrite Hgs in Hg. unfold sg in Es. rewrite Hn, Hg in Es. discriminate.
Qed.

(* ------------------------------------------------------------------ park *)
Lemma park_gpark st id rq st' d :
  GroupParkInv st -> nget (r_datalog st) (dr_idx rq) = Some d ->
  (forall name g, dr_group rq = Some name -> al_get str_eqb name (r_groups st) = Some g ->
     pos_of (d_log d) (g_cursor g) = end_of (d_log d)) ->
  park st id rq = Ok st' -> GroupParkInv st'.
Proof.
  intros P Hd Hend H. pose proof (park_groups _ _ _ _ H) as EG. unfold GroupParkInv. rewrite EG.
  unfold park in H. apply bind_ok in H as (d0 & Hd0 & H). apply native_get_Some in Hd0.
  unfold nget in Hd. rewrite Hd0 in Hd. inversion Hd; subst d0. inv_ok.
  intros i d2 H2. unfold nget in H2. cbn [r_datalog set_r_datalog set_dl_native dl_native] in H2.
  apply slab_get_put_inv in H2. destruct H2 as [[-> ->] | [_ H2]].
  - cbn [set_d_waiters d_waiters d_log]. apply Forall_app. split; [exact (P _ _ Hd0) |].
    constructor; [| constructor]. intros name g Hn Hg. cbn [snd] in Hn. exact (Hend _ _ Hn Hg).
  - exact (P _ _ H2).
Qed.

(* ------------------------------------------------------------------ consume *)
Lemma cview_cfg st st' : cview st' = cview st -> r_cfg st' = r_cfg st.
Proof. unfold cview. congruence. Qed.

Lemma fdd_push_cfg st1 id o conn sg rq2 publishes caughtup st' rq' cs :
  fdd_push st1 id o conn sg rq2 publishes caughtup = Ok (st', rq', cs) -> r_cfg st' = r_cfg st1.
Proof.
  unfold fdd_push. intros H. cbv zeta in H.
  destruct (2 <? dr_qos rq2); [discriminate |].
  destruct (alias_forwards (c_baliases conn) (dr_qos rq2) (al_get str_eqb (dr_filter rq2) (c_subids conn)) publishes)
    as [bal forwards].
  match type of H with (match ?x with _ => _ end) = _ => destruct x as [o1 notifs] end.
  apply bind_ok in H as ([st4 len] & H4 & H). apply bind_ok in H as (st5 & H5 & H).
  pose proof (cview_cfg _ _ (push_out_cview _ _ _ _ _ H4)) as C4. rsimpl.
  assert (C5 : r_cfg st5 = r_cfg st1).
  { destruct sg as [[name g0] |]; [| inv_ok; exact C4].
    destruct (al_get str_eqb name (r_groups st4)) as [g |]; [| inv_ok; exact C4].
    apply bind_ok in H5 as ([s g'] & H5 & H6). inv_ok.
    destruct (update_next_client_cview _ _ _ _ H5) as [V5 _]. rsimpl. rewrite (cview_cfg _ _ V5). exact C4. }
  destruct (MAX_CHANNEL_CAPACITY - 1 <=? len).
  - apply bind_ok in H as ([st6 l6] & H6 & H). inv_ok. rewrite (cview_cfg _ _ (push_out_cview _ _ _ _ _ H6)). exact C5.
  - inv_ok. exact C5.
Qed.

Lemma fdd_cfg st id rq st' rq' cs : forward_device_data st id rq = Ok (st', rq', cs) -> r_cfg st' = r_cfg st.
Proof.
  rewrite fdd_alt_eq. unfold fdd_alt, get_obuf. intros H.
  destruct (slab_get (r_obufs st) id) as [o |]; [| discriminate]. cbn [bind] in H.
  destruct (slab_get (r_conns st) id) as [conn |]; [| discriminate]. cbn [bind] in H.
  cbv zeta in H.
  apply bind_ok in H as (slots0 & HS & H).
  match type of H with (if ?b then _ else _) = _ => destruct b end; [now inv_ok |].
  apply bind_ok in H as ([[[st1 rq1] retained] slots2] & HR & H).
  assert (C1 : r_cfg st1 = r_cfg st).
  { unfold fdd_retained in HR. match type of HR with (if ?b then _ else _) = _ => destruct b end.
    - apply bind_ok in HR as ([st2 rs] & HR1 & HR). cbv zeta in HR. inv_ok.
      exact (cview_cfg _ _ (read_retained_cview _ _ _ _ HR1)).
    - now inv_ok. }
  apply bind_ok in H as (d & _ & H). apply bind_ok in H as ([pos from_log] & HV & H).
  destruct (match pos with Next s e => (s, e, false) | Done s e => (s, e, true) end) as [[start next] caughtup].
  match type of H with (if ?b then _ else _) = _ => destruct b end; [inv_ok; exact C1 |].
  match type of H with match ?l with [] => _ | _ => _ end = _ => destruct l eqn:Ep end; [inv_ok; exact C1 |].
  rewrite <- Ep in H. rewrite (fdd_push_cfg _ _ _ _ _ _ _ _ _ _ _ H). exact C1.
Qed.

Lemma consume_loop_gpark id : forall fuel st requests skipped st',
  CInv st -> Bounded st -> 1 <= cf_max_outgoing (r_cfg st) -> ParkInv st -> GroupParkInv st ->
  Forall (RqOk (r_datalog st)) requests -> Forall (RqOk (r_datalog st)) skipped ->
  consume_loop fuel st id requests skipped = Ok st' -> GroupParkInv st'.
Proof.
  induction fuel as [| fuel IH]; cbn [consume_loop]; intros st requests skipped st' HI HB HM HP HG Hr Hs H.
  - eapply GPI_eq; [eapply trackv_dl; eauto | eapply trackv_groups; eauto | exact HG].
  - destruct requests as [| rq rest].
    + apply bind_ok in H as (st1 & H1 & H).
      eapply GPI_eq; [eapply trackv_dl; eauto | eapply trackv_groups; eauto |].
      destruct skipped; [| inv_ok; exact HG].
      eapply GPI_eq; [eapply pause_dl; eauto | eapply pause_groups; eauto | exact HG].
    + inversion Hr as [| ? ? Hrq Hrest]; subst.
      apply bind_ok in H as ([[st1 rq'] status] & H1 & H).
      destruct (fdd_cinv _ _ _ _ _ _ HI HB Hrq H1) as (HI1 & Hrq' & D1).
      destruct (fdd_gpark _ _ _ _ _ _ HI HB HM HP HG Hrq H1) as [HG1 Hend].
      assert (HB1 : Bounded st1) by (eapply bounded_eq; eassumption).
      assert (HP1 : ParkInv st1) by (unfold ParkInv; now rewrite D1).
      assert (HM1 : 1 <= cf_max_outgoing (r_cfg st1)) by (now rewrite (fdd_cfg _ _ _ _ _ _ H1)).
      rewrite <- D1 in Hrest, Hs.
      destruct status.
      * apply bind_ok in H as (st2 & H2 & H).
        eapply GPI_eq; [rewrite (trackv_dl _ _ _ _ H); eapply pause_dl; eauto
                       | rewrite (trackv_groups _ _ _ _ H); eapply pause_groups; eauto | exact HG1].
      * apply bind_ok in H as (st2 & H2 & H).
        eapply GPI_eq; [rewrite (trackv_dl _ _ _ _ H); eapply pause_dl; eauto
                       | rewrite (trackv_groups _ _ _ _ H); eapply pause_groups; eauto | exact HG1].
      * apply bind_ok in H as (st2 & H2 & H). pose proof (park_same _ _ _ _ H2) as S2.
        pose proof (park_cinv _ _ _ _ HI1 Hrq' H2) as HI2.
        destruct (fdd_caughtup_end _ _ _ _ _ HI HB HM Hrq H1) as (EI & d & Hd & Hend').
        assert (Hd1 : nget (r_datalog st1) (dr_idx rq') = Some d) by (rewrite EI, D1; exact Hd).
        assert (HP2 : ParkInv st2) by (apply (park_parkinv st1 id rq' st2 d HP1); assumption).
        assert (HG2 : GroupParkInv st2).
        { apply (park_gpark st1 id rq' st2 d HG1 Hd1); [| exact H2]. intros name g Hn Hg. eapply Hend; eauto. }
        assert (Hmono : forall l, Forall (RqOk (r_datalog st1)) l -> Forall (RqOk (r_datalog st2)) l).
        { intros l. apply rqsok_mono; [exact (proj1 HI1) | now apply dl_le_same_logs]. }
        assert (HM2 : 1 <= cf_max_outgoing (r_cfg st2)).
        { replace (r_cfg st2) with (r_cfg st1); [exact HM1 |]. unfold park in H2. break_all H2; inv_ok; reflexivity. }
        exact (IH _ _ _ _ HI2 (bounded_same _ _ S2 HB1) HM2 HP2 HG2 (Hmono _ Hrest) (Hmono _ Hs) H).
      * exact (IH _ _ _ _ HI1 HB1 HM1 HP1 HG1 (proj2 (Forall_app _ _ _) (conj Hrest (Forall_cons _ Hrq' (Forall_nil _)))) Hs H).
      * exact (IH _ _ _ _ HI1 HB1 HM1 HP1 HG1 Hrest (proj2 (Forall_app _ _ _) (conj Hs (Forall_cons _ Hrq' (Forall_nil _)))) H).
Qed.

Lemma consume_gpark st st' b :
  CInv st -> Bounded st -> 1 <= cf_max_outgoing (r_cfg st) -> ParkInv st -> GroupParkInv st ->
  consume st = Ok (st', b) -> GroupParkInv st'.
Proof.
  unfold consume. intros HI HB HM HP HG H.
  destruct (r_ready st) as [| id rq]; [now inv_ok |].
  cbn [r_trackers set_r_ready] in H.
  destruct (slab_get (r_trackers st) id) as [t |] eqn:Et; [| now inv_ok].
  match type of H with context [slab_get (r_obufs ?s) id] => set (st2 := s) in * end.
  assert (HI2 : CInv st2).
  { unfold st2. apply (cinv_view (put_tracker (set_r_ready st rq) id (set_tr_reqs t []))); [reflexivity |].
    apply (cinv_put_tracker (set_r_ready st rq)).
    - eapply cinv_view; [| exact HI]. reflexivity.
    - constructor. }
  assert (D2 : r_datalog st2 = r_datalog st) by reflexivity.
  assert (G2 : r_groups st2 = r_groups st) by reflexivity.
  destruct (slab_get (r_obufs st2) id) as [o |]; [| inv_ok; exact HG].
  apply bind_ok in H as (st3 & H3 & H). apply bind_ok in H as (u & _ & H). apply bind_ok in H as (st4 & H4 & H). inv_ok.
  pose proof (ack_device_data_cview _ _ _ _ H3) as V3. pose proof (cview_dl _ _ V3) as D3. pose proof (cview_groups _ _ V3) as G3.
  assert (HI3 : CInv st3) by (eapply cinv_view; eassumption).
  eapply consume_loop_gpark; [exact HI3 | | | | | | constructor | exact H4].
  - eapply bounded_eq; [| exact HB]. now rewrite D3.
  - replace (r_cfg st3) with (r_cfg st); [exact HM |]. unfold cview in V3. inversion V3. congruence.
  - unfold ParkInv. now rewrite D3, D2.
  - eapply GPI_eq; [| | exact HG]; [now rewrite D3 | now rewrite G3].
  - rewrite D3, D2. eapply cinv_trk; eassumption.
Qed.
