(** Frame lemmas: which model functions leave config / wills / graveyard / retained store /
    commit logs alone ([Kp]), and which only extend logs by unflagged entries ([Kl]). *)
From Rumqtt Require Export Router.RetainedBase.
From Rumqtt Require Import Log.ListFacts.
From Coq Require Import ZifyBool ZifyN ZifyNat.


(* ------------------------------------------------------------------ scheduler *)
Global Instance fr_reschedule st id why : Frame (reschedule st id why) (fun st' => Kp st st').
Proof. frame_by reschedule. Qed.
Global Instance fr_track st id rq : Frame (track st id rq) (fun st' => Kp st st').
Proof. frame_by track. Qed.
Global Instance fr_trackv st id rqs : Frame (trackv st id rqs) (fun st' => Kp st st').
Proof. frame_by trackv. Qed.
Global Instance fr_untrack st id f : Frame (untrack st id f) (fun st' => Kp st st').
Proof. frame_by untrack. Qed.
Global Instance fr_pause st id why : Frame (pause st id why) (fun st' => Kp st st').
Proof. frame_by pause. Qed.
Global Instance fr_commit_ack st id a : Frame (commit_ack st id a) (fun st' => Kp st st').
Proof. frame_by commit_ack. Qed.

Global Instance fr_wake_all ns : forall st, Frame (wake_all st ns) (fun st' => Kp st st').
Proof.
  induction ns as [| [id rq] r IH]; intros st a H; cbn [wake_all] in H.
  - okinv. apply Kp_refl.
  - okinv. frames. kp.
Qed.
Global Instance fr_drain_notifications st : Frame (drain_notifications st) (fun st' => Kp st st').
Proof. frame_by drain_notifications. Qed.

Global Instance fr_dl_matches st t : Frame (dl_matches st t) (fun r => Kp st (fst r)).
Proof. frame_by dl_matches. Qed.
Global Instance fr_read_retained st f : Frame (read_retained st f) (fun r => Kp st (fst r)).
Proof. frame_by read_retained. Qed.
Global Instance fr_update_next_client st g : Frame (update_next_client st g) (fun r => Kp st (fst r)).
Proof. frame_by update_next_client. Qed.

(* ------------------------------------------------------------------ waiters only *)
Lemma dl_logs_put dl idx d d' :
  slab_get (dl_native dl) idx = Some d -> d_log d' = d_log d ->
  dl_logs (set_dl_native dl (slab_put (dl_native dl) idx d')) = dl_logs dl.
Proof.
  unfold dl_logs, slab_get, slab_put. cbn [dl_native set_dl_native sl_items]. intros H Hl.
  destruct (nthN (sl_items (dl_native dl)) idx) as [[d0|]|] eqn:E; try discriminate.
  injection H as ->. eapply map_setN_same; [exact E|]. cbn [opt_log]. now rewrite Hl.
Qed.

Global Instance fr_park st id rq : Frame (park st id rq) (fun st' => Kp st st').
Proof.
  intros a H. unfold park, native_get in H. okinv. unfold Kp. rsimpl.
  erewrite dl_logs_put; eauto.
Qed.

Lemma clean_items_logs items id : map opt_log (fst (clean_items items id)) = map opt_log items.
Proof.
  induction items as [| [d|] r IH]; cbn [clean_items]; [reflexivity | |].
  - destruct (waiters_remove _ _ _) as [w' q1]. destruct (clean_items r id) as [r' q2].
    cbn [fst map opt_log set_d_waiters d_log] in *. now rewrite IH.
  - destruct (clean_items r id) as [r' q2]. cbn [fst map opt_log] in *. now rewrite IH.
Qed.

Lemma dl_clean_frame dl id dl' q : dl_clean dl id = (dl', q) ->
  dl_logs dl' = dl_logs dl /\ dl_retained dl' = dl_retained dl /\ dl_findex dl' = dl_findex dl /\
  dl_pfilters dl' = dl_pfilters dl.
Proof.
  unfold dl_clean. pose proof (clean_items_logs (sl_items (dl_native dl)) id) as H.
  destruct (clean_items _ _) as [items q0]. intros [= <- <-]. unfold dl_logs. rsimpl.
  cbn [sl_items fst] in *. auto.
Qed.

Lemma remove_waiter_items_logs items id f : map opt_log (remove_waiter_items items id f) = map opt_log items.
Proof.
  induction items as [| [d|] r IH]; cbn [remove_waiter_items]; [reflexivity | |].
  - destruct (position_req _ _ _ _); [destruct (swap_remove_back _ _) as [[? w']|]|]; cbn [map opt_log set_d_waiters d_log];
      try reflexivity. now rewrite IH.
  - cbn [map opt_log]. now rewrite IH.
Qed.

Global Instance fr_remove_waiters_for_id st id f : Frame (remove_waiters_for_id st id f) (fun st' => Kp st st').
Proof.
  intros a H. unfold remove_waiters_for_id in H. okinv. unfold Kp, dl_logs. rsimpl. cbn [sl_items].
  rewrite remove_waiter_items_logs. auto.
Qed.

(* ------------------------------------------------------------------ functions that write logs *)
(** keeps everything but the logs, which stay unflagged *)
Definition Kl (st st' : rstate) : Prop := Kw st st' /\ (LU st -> LU st').

Lemma Kp_Kl a b : Kp a b -> Kl a b.
Proof. unfold Kl, Kp, Kw, LU. intuition congruence. Qed.
Lemma Kl_trans a b c : Kl a b -> Kl b c -> Kl a c.
Proof. unfold Kl, Kw. intuition congruence. Qed.

Lemma LU_put st idx d d' :
  slab_get (dl_native (r_datalog st)) idx = Some d -> unflagged (d_log d') -> LU st ->
  Forall unflagged_opt (dl_logs (set_dl_native (r_datalog st) (slab_put (dl_native (r_datalog st)) idx d'))).
Proof.
  unfold LU, dl_logs, slab_put. rsimpl. cbn [sl_items]. intros _ Hu H.
  rewrite Forall_map in *. apply Forall_setN; auto.
Qed.

Global Instance fr_data_append st idx item :
  Frame (data_append st idx item) (fun st' => Kw st st' /\ (p_retain (fst item) = false -> LU st -> LU st')).
Proof.
  intros a H. unfold data_append, native_get in H. okinv. split; [kp|].
  intros Hi Hl. unfold LU. rsimpl. eapply LU_put; eauto. cbn [d_log].
  eapply append_unflagged; eauto.
  unfold LU, dl_logs in Hl. rewrite Forall_map in Hl.
  match goal with E : slab_get _ _ = Some _ |- _ => unfold slab_get in E end.
  destruct (nthN _ idx) as [[d0|]|] eqn:En; try discriminate. okinv.
  match goal with E : Some _ = Some _ |- _ => injection E as -> end.
  exact (Forall_nthN _ _ _ _ Hl En).
Qed.

Global Instance fr_append_all idxs item : forall st,
  Frame (append_all st idxs item) (fun st' => Kw st st' /\ (p_retain (fst item) = false -> LU st -> LU st')).
Proof.
  induction idxs as [| i r IH]; intros st a H; cbn [append_all] in H.
  - okinv. split; [apply Kw_refl | auto].
  - okinv. frames. unfold Kw, LU in *. intuition congruence.
Qed.

Lemma dl_logs_insert dl d native' idx :
  slab_insert (dl_native dl) d = (native', idx) ->
  Forall unflagged_opt (dl_logs dl) -> unflagged (d_log d) ->
  Forall unflagged_opt (map opt_log (sl_items native')).
Proof.
  unfold slab_insert, dl_logs. intros E Hl Hd. rewrite Forall_map in *.
  destruct (sl_free (dl_native dl)); injection E as <- <-; cbn [sl_items].
  - apply Forall_app. split; [exact Hl | repeat constructor; exact Hd].
  - apply Forall_setN; auto.
Qed.

Global Instance fr_next_native_offset st f :
  Frame (next_native_offset st f) (fun r => Kl st (fst (fst r))).
Proof.
  intros a H. unfold next_native_offset in H. okinv.
  - apply Kp_Kl, Kp_refl.
  - split; [kp|]. unfold LU. rsimpl. intros Hl. unfold dl_logs at 1. rsimpl.
    eapply dl_logs_insert; eauto.
    match goal with E : data_new _ _ = Ok _ |- _ => unfold data_new in E; okinv end.
    cbn [d_log]. eapply new_unflagged; eauto.
Qed.

Lemma retain_update_frame st t p props :
  r_cfg (retain_update st t p props) = r_cfg st /\
  r_wills (retain_update st t p props) = r_wills st /\
  r_graveyard (retain_update st t p props) = r_graveyard st /\
  dl_logs (r_datalog (retain_update st t p props)) = dl_logs (r_datalog st) /\
  r_groups (retain_update st t p props) = r_groups st /\
  r_links (retain_update st t p props) = r_links st.
Proof. unfold retain_update. destruct (p_retain p); [destruct (p_payload p)|]; rsimpl; auto 10. Qed.

(** keeps config, wills, graveyard; logs stay unflagged (the retained store may change) *)
Definition Ka (st st' : rstate) : Prop :=
  r_cfg st' = r_cfg st /\ r_wills st' = r_wills st /\ r_graveyard st' = r_graveyard st /\ (LU st -> LU st').

Ltac kl := split_hyps; unfold Kl, Ka, Kp, Kw, LU in *; split_goal; rsimpl_all; cbn [p_retain set_p_retain fst] in *;
  repeat match goal with
  | H : _ /\ _ |- _ => destruct H
  end;
  repeat split; intros;
  repeat match goal with
  | H : ?P -> ?Q |- _ => let T := fresh in assert (T : P) by congruence; specialize (H T); clear T
  end; congruence.

Global Instance fr_append_to_commitlog st id p props :
  Frame (append_to_commitlog st id p props) (fun r => Ka st (fst r)).
Proof.
  intros a H. unfold append_to_commitlog in H. okinv; frames.
  all: try match goal with F : context [retain_update ?s ?t ?q ?pr] |- _ => pose proof (retain_update_frame s t q pr) end.
  all: kl.
Qed.


(* ------------------------------------------------------------------ connections *)
Global Instance fr_handle_disconnection st id reason :
  Frame (handle_disconnection st id reason)
        (fun st' => r_cfg st' = r_cfg st /\ r_wills st' = r_wills st /\
                    dl_retained (r_datalog st') = dl_retained (r_datalog st) /\
                    dl_logs (r_datalog st') = dl_logs (r_datalog st)).
Proof.
  intros a H. unfold handle_disconnection in H. okinv.
  all: frames.
  all: try match goal with E : dl_clean _ _ = _ |- _ => apply dl_clean_frame in E end.
  all: kl.
Qed.

Global Instance fr_handle_new_connection st conn link :
  Frame (handle_new_connection st conn link)
        (fun st' => r_cfg st' = r_cfg st /\
                    dl_retained (r_datalog st') = dl_retained (r_datalog st) /\
                    dl_logs (r_datalog st') = dl_logs (r_datalog st)).
Proof. intros a H. unfold handle_new_connection in H. okinv. all: frames. all: kl. Qed.

(* ------------------------------------------------------------------ subscribe / unsubscribe *)
Global Instance fr_prepare_filter st id cu fidx path qos grp subid :
  Frame (prepare_filter st id cu fidx path qos grp subid) (fun st' => Kp st st').
Proof. intros a H. unfold prepare_filter in H. okinv. all: frames. all: kl. Qed.

Global Instance fr_subscribe_filters fs : forall st id subid fl codes,
  Frame (subscribe_filters st id fs subid fl codes) (fun r => Kl st (fst (fst r))).
Proof.
  induction fs as [| [path qos] r IH]; intros st id subid fl codes a H; cbn [subscribe_filters] in H.
  - okinv. apply Kp_Kl, Kp_refl.
  - okinv. all: frames. all: kl.
Qed.

Global Instance fr_unsubscribe_filters fs : forall st id client reasons,
  Frame (unsubscribe_filters st id client fs reasons) (fun r => Kp st (fst r)).
Proof.
  induction fs as [| f r IH]; intros st id client reasons a H; cbn [unsubscribe_filters] in H.
  - okinv. apply Kp_refl.
  - okinv. all: frames. all: kl.
Qed.

(* ------------------------------------------------------------------ consume side *)
Global Instance fr_forward_device_data st id rq :
  Frame (forward_device_data st id rq) (fun r => Kp st (fst (fst r))).
Proof. intros a H. unfold forward_device_data in H. okinv. all: frames. all: kl. Qed.

Global Instance fr_ack_device_data st id o : Frame (ack_device_data st id o) (fun st' => Kp st st').
Proof. intros a H. unfold ack_device_data in H. okinv. all: frames. all: kl. Qed.

Global Instance fr_consume_loop fuel : forall st id requests skipped,
  Frame (consume_loop fuel st id requests skipped) (fun st' => Kp st st').
Proof.
  induction fuel as [| fuel IH]; intros st id requests skipped a H; cbn [consume_loop] in H.
  - frames. kl.
  - okinv. all: frames. all: kl.
Qed.

Global Instance fr_consume st : Frame (consume st) (fun r => Kp st (fst r)).
Proof. intros a H. unfold consume in H. okinv. all: frames. all: kl. Qed.

Global Instance fr_retrieve_shadow st id f : Frame (retrieve_shadow st id f) (fun st' => Kp st st').
Proof. intros a H. unfold retrieve_shadow in H. okinv. all: frames. all: kl. Qed.

(* ------------------------------------------------------------------ packets *)
(** config and graveyard kept, logs stay unflagged (wills and retained store: see C16 / C15) *)
Definition Kh (st st' : rstate) : Prop :=
  r_cfg st' = r_cfg st /\ r_graveyard st' = r_graveyard st /\ (LU st -> LU st').

Ltac kh := unfold Kh in *; kl.

Global Instance fr_handle_packet st id client pk fl :
  Frame (handle_packet st id client pk fl) (fun r => Kh st (fst (fst r))).
Proof. intros a H. unfold handle_packet in H. okinv. all: frames. all: kh. Qed.

Global Instance fr_handle_packets pks : forall st id client fl,
  Frame (handle_packets st id client pks fl) (fun r => Kh st (fst r)).
Proof.
  induction pks as [| pk r IH]; intros st id client fl a H; cbn [handle_packets] in H.
  - okinv. unfold Kh. tauto.
  - okinv. all: frames. all: kh.
Qed.

Global Instance fr_handle_device_payload st id :
  Frame (handle_device_payload st id) (fun st' => r_cfg st' = r_cfg st /\ (LU st -> LU st')).
Proof. intros a H. unfold handle_device_payload, link_get in H. okinv. all: frames. all: kh. Qed.

Global Instance fr_handle_last_will st client :
  Frame (handle_last_will st client) (fun st' => r_cfg st' = r_cfg st /\ r_graveyard st' = r_graveyard st /\ (LU st -> LU st')).
Proof.
  intros a H. unfold handle_last_will in H. okinv. all: frames.
  all: try match goal with F : context [retain_update ?s ?t ?q ?pr] |- _ => pose proof (retain_update_frame s t q pr) end.
  all: kl.
Qed.

Global Instance fr_step st o : Frame (step st o) (fun r => r_cfg (fst r) = r_cfg st /\ (LU st -> LU (fst r))).
Proof. intros a H. unfold step in H. okinv. all: frames. all: kl. Qed.

Global Instance fr_step_with st orc o :
  Frame (step_with st orc o) (fun r => r_cfg (fst r) = r_cfg st /\ (LU st -> LU (fst r))).
Proof. intros a H. unfold step_with in H. okinv. all: frames. all: kl. Qed.


(* ------------------------------------------------------------------ the LU invariant *)
Lemma init_datalog_inv cfg dl : init_datalog cfg = Ok dl -> Forall unflagged_opt (dl_logs dl) /\ dl_retained dl = [].
Proof.
  unfold init_datalog.
  set (dl0 := {| dl_native := slab_empty; dl_findex := []; dl_retained := []; dl_pfilters := [] |}).
  assert (H0 : Forall unflagged_opt (dl_logs dl0) /\ dl_retained dl0 = []) by (split; [constructor | reflexivity]).
  clearbody dl0. revert dl0 H0.
  remember (cf_init_filters cfg) as fs eqn:Hfs. clear Hfs.
  induction fs as [| f r IH]; intros dl0 [H0 H1] Hg.
  - okinv. auto.
  - okinv. eapply IH; [| eassumption]. rsimpl. split; [|reflexivity].
    unfold dl_logs at 1. rsimpl. eapply dl_logs_insert; eauto.
    match goal with E : data_new _ _ = Ok _ |- _ => unfold data_new in E; okinv end.
    cbn [d_log]. eapply new_unflagged; eauto.
Qed.

Lemma init_LU cfg st : init cfg = Ok st -> LU st.
Proof.
  unfold init. intros H. okinv. unfold LU. rsimpl.
  match goal with E : init_datalog _ = Ok _ |- _ => apply init_datalog_inv in E; tauto end.
Qed.

Lemma reachable_LU cfg st : reachable cfg st -> LU st.
Proof.
  apply reachable_inv.
  - apply init_LU.
  - intros s orc o s' out Hs H. frames. cbn [fst] in *. tauto.
Qed.
