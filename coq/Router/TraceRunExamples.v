(** C01 at the level of whole runs — a concrete run that meets the hypotheses of every theorem
    of TraceRunThm.v (vm_compute on a literal op list), and what its delivery trace looks like.

    Configuration: segments of 1024 bytes, TWO segments retained, max_outgoing 200.
    Clients: "a" (key 0, link 0) subscribes "t" with QoS 1, "b" (key 1, link 1) subscribes "t" with
    QoS 0, "p" (key 2, link 2) publishes to "t".
    1. p sends 103 small publishes.  One sweep gives b all 103; a gets 100 and is paused by its
       FULL WINDOW ([Paused InflightFull], 100 unacknowledged forwards, cursor at offset 100).
    2. p sends 12 publishes of 300 bytes in one batch: the log ROLLS OVER twice, its base moves to
       offset 109; the cursors of a (100) and of b (103) are stale.
    3. b is swept: a jump 103 -> 109, then 109..114.  a acknowledges its 100 forwards and is swept:
       a jump 100 -> 109, then 109..114; it acknowledges those too.  Everything is drained: the
       state is quiescent.
    The trace of key (link 0, "t", log 0) is  Sub 0, Fwd 0..99, Jump 100->109, Fwd 109..114;
    that of (link 1, "t", log 0) is  Sub 0, Fwd 0..102, Jump 103->109, Fwd 109..114. *)
From Coq Require Import List ZArith ZifyBool ZifyN ZifyNat.
From Rumqtt Require Import Log.Spec Router.Inv Router.NoPanic Router.NoPanicDevBase Router.NoPanicDevInv.
From Rumqtt Require Import Router.WindowFrame Router.Window Router.ExactInv Router.ExactExamples Router.WindowExamples Router.WakeExamples.
From Rumqtt Require Import Router.Wake Router.WakePark Router.WakeThm Router.WakeCor.
From Rumqtt Require Import Router.TraceRun Router.TraceRunThm.
From Rumqtt Require Import Router.Model Router.RunDefs.
Import ListNotations.

Definition tx_cfg : config :=
  {| cf_max_connections := 10; cf_max_outgoing := 200; cf_seg_size := 1024; cf_seg_count := 2;
     cf_init_filters := []; cf_strategy := RoundRobin; cf_debug_assertions := true |}.
Definition tx_big (pk : N) : packet :=
  PPublish {| p_dup := false; p_qos := 0; p_retain := false; p_topic := [116]; p_pkid := 0; p_payload := repeat pk 300 |} None.
Definition tx_small (n : nat) : list rop := map (fun i => OpPush 2 (wx_pub 0 (N.of_nat i))) (seq 1 n).
Definition tx_bigs (n : nat) : list rop := map (fun i => OpPush 2 (tx_big (N.of_nat i))) (seq 1 n).
Definition tx_acks (from n : nat) : list rop := map (fun i => OpPush 0 (PPubAck (N.of_nat i))) (seq from n).

Definition tx_run (ops : list (list oracle * rop)) : R (rstate * list dev) :=
  do st0 <- init tx_cfg; run_d st0 ops.
Definition tx_st (ops : list (list oracle * rop)) : rstate :=
  match tx_run ops with Ok (s, _) => s | _ => dummy_state end.
Definition tx_tr (ops : list (list oracle * rop)) : list dev :=
  match tx_run ops with Ok (_, tr) => tr | _ => [] end.

(** an event without the publish: (0, offset, 0) forward, (1, from, to) jump, (2, end, 0) subscribe,
    (3, c0, 0) resume marker, (4, r, |window|) end marker *)
Definition kshort (a : kev) : N * N * N :=
  match a with KFwd off _ => (0, off, 0) | KJump f t => (1, f, t) | KSub e => (2, e, 0) | KRes _ c0 => (3, c0, 0)
             | KEnd _ r w => (4, r, lenN w) end.
Definition fwds (from n : nat) : list (N * N * N) := map (fun i => (0, N.of_nat i, 0)) (seq from n).

(** up to the rollover: a paused by its full window *)
Definition tx_ops_mid : list (list oracle * rop) :=
  wx_plain ([wx_conn 97; wx_conn 98; wx_conn 112;
             OpPush 0 (PSubscribe 1 [([116], 1)] None); OpData 0;
             OpPush 1 (PSubscribe 1 [([116], 0)] None); OpData 1;
             OpConsume; OpConsume; OpConsume; OpConsume; OpConsume; OpDrain 0; OpDrain 1; OpDrain 2]
            ++ tx_small 103 ++ [OpData 2; OpConsume; OpConsume; OpConsume; OpDrain 0; OpDrain 1]
            ++ tx_bigs 12 ++ [OpData 2]).
(** ... and on to quiescence *)
Definition tx_ops : list (list oracle * rop) :=
  tx_ops_mid ++
  wx_plain ([OpConsume; OpConsume; OpDrain 1]
            ++ tx_acks 1 100 ++ [OpData 0; OpConsume; OpConsume; OpDrain 0]
            ++ tx_acks 1 6 ++ [OpData 0; OpConsume; OpConsume; OpDrain 0; OpDrain 1; OpDrain 2]).

Lemma tx_hyps ops st tr :
  tx_run ops = Ok (st, tr) -> forallb (fun x : list oracle * rop => op_wf_b (snd x)) ops = true -> bounded_b st = true ->
  exists st0, run_hyps tx_cfg st0 ops st tr /\ 1 <= cf_max_outgoing tx_cfg.
Proof.
  unfold tx_run. intros H Hw Hb. apply bind_ok in H as (st0 & H0 & H).
  exists st0. split; [|vm_compute; congruence].
  split; [split; vm_compute; congruence|]. split; [vm_compute; reflexivity|]. split; [exact H0|].
  split; [now apply ops_wf_b|]. split; [exact H|now apply bounded_b_ok].
Qed.

Example trace_run_mid :
  let st := tx_st tx_ops_mid in let tr := tx_tr tx_ops_mid in
  tx_run tx_ops_mid = Ok (st, tr) /\
  (exists st0, run_hyps tx_cfg st0 tx_ops_mid st tr) /\
  exists t o d,
    slab_get (r_trackers st) 0 = Some t /\ slab_get (r_obufs st) 0 = Some o /\ nget (r_datalog st) 0 = Some d /\
    tr_status t = Paused InflightFull /\ lenN (o_inflight o) = 100 /\ map dr_cursor (tr_reqs t) = [(0, 100)] /\
    base_of (d_log d) = 109 /\ end_of (d_log d) = 115 /\ stale (d_log d) (0, 100) = true /\
    map kshort (ktrace (0, [116], 0) tr) = (2, 0, 0) :: fwds 0 100 /\
    map kshort (ktrace (1, [116], 0) tr) = (2, 0, 0) :: fwds 0 103.
Proof.
  cbv zeta. assert (E : tx_run tx_ops_mid = Ok (tx_st tx_ops_mid, tx_tr tx_ops_mid)) by (vm_compute; reflexivity).
  split; [exact E|]. split.
  { destruct (tx_hyps _ _ _ E) as (st0 & H & _); [vm_compute; reflexivity|vm_compute; reflexivity|]. eauto. }
  eexists. eexists. eexists. split; [vm_compute; reflexivity|]. split; [vm_compute; reflexivity|].
  split; [vm_compute; reflexivity|]. repeat split; vm_compute; reflexivity.
Qed.

Example trace_run_quiescent :
  let st := tx_st tx_ops in let tr := tx_tr tx_ops in
  tx_run tx_ops = Ok (st, tr) /\
  exists st0,
    run_hyps tx_cfg st0 tx_ops st tr /\ 1 <= cf_max_outgoing tx_cfg /\ quiescent st (owed_run st0 [] tx_ops) /\
    map kshort (ktrace (0, [116], 0) tr) = (2, 0, 0) :: fwds 0 100 ++ (1, 100, 109) :: fwds 109 6 /\
    map kshort (ktrace (1, [116], 0) tr) = (2, 0, 0) :: fwds 0 103 ++ (1, 103, 109) :: fwds 109 6 /\
    lenN tr = 219 /\
    exists ca cb d,
      slab_get (r_conns st) 0 = Some ca /\ c_subs ca = [[116]] /\
      slab_get (r_conns st) 1 = Some cb /\ c_subs cb = [[116]] /\
      nget (r_datalog st) 0 = Some d /\ base_of (d_log d) = 109 /\ end_of (d_log d) = 115 /\
      map (fun w : N * drequest => (fst w, dr_cursor (snd w), dr_group (snd w))) (d_waiters d)
        = [(1, (3, 115), None); (0, (3, 115), None)].
Proof.
  cbv zeta. assert (E : tx_run tx_ops = Ok (tx_st tx_ops, tx_tr tx_ops)) by (vm_compute; reflexivity).
  split; [exact E|].
  destruct (tx_hyps _ _ _ E) as (st0 & H & Hmo); [vm_compute; reflexivity|vm_compute; reflexivity|].
  exists st0. split; [exact H|]. split; [exact Hmo|].
  assert (Hi : init tx_cfg = Ok st0) by (destruct H as (_ & _ & Hi & _); exact Hi).
  assert (E0 : st0 = force (init tx_cfg)) by (now rewrite Hi). 
  split.
  { apply quiescent_b_ok. rewrite E0. vm_compute. reflexivity. }
  split; [vm_compute; reflexivity|]. split; [vm_compute; reflexivity|]. split; [vm_compute; reflexivity|].
  eexists. eexists. eexists. split; [vm_compute; reflexivity|]. split; [reflexivity|].
  split; [vm_compute; reflexivity|]. split; [reflexivity|].
  split; [vm_compute; reflexivity|]. repeat split; vm_compute; reflexivity.
Qed.

(** A persistent session resumed: "r" (clean_session = false; key 0, link 0) subscribes "t" with
    QoS 1 and gets offsets 0, 1, 2, which it never acknowledges; it disconnects (the saved request
    is rewound to offset 0) and connects again: key 0 once more, but LINK 2.  The trace of the old
    key (0, "t", 0) is  Sub 0, Fwd 0, 1, 2 ; the new key (2, "t", 0) starts with the resume marker
    and gets 0, 1, 2 again — re-delivery across connection epochs, which the theorems do not (and
    must not) exclude; within each key the offsets increase. *)
Definition tx_pconn (c : N) : rop :=
  OpConnect {| cr_client := [c]; cr_clean := false; cr_dynamic := false; cr_alias_max := 0; cr_will := None |}.
Definition tx_ops_resume : list (list oracle * rop) :=
  wx_plain ([tx_pconn 114; wx_conn 112; OpPush 0 (PSubscribe 1 [([116], 1)] None); OpData 0;
             OpConsume; OpConsume; OpConsume; OpDrain 0; OpDrain 1;
             OpPush 1 (wx_pub 0 1); OpPush 1 (wx_pub 0 2); OpPush 1 (wx_pub 0 3); OpData 1;
             OpConsume; OpConsume; OpDrain 0;
             OpDisconnect 0; tx_pconn 114; OpConsume; OpConsume; OpConsume; OpDrain 2]).

Example trace_run_resume :
  let st := tx_st tx_ops_resume in let tr := tx_tr tx_ops_resume in
  tx_run tx_ops_resume = Ok (st, tr) /\
  (exists st0, run_hyps tx_cfg st0 tx_ops_resume st tr) /\
  map kshort (ktrace (0, [116], 0) tr) = (2, 0, 0) :: fwds 0 3 /\
  map kshort (ktrace (2, [116], 0) tr) = (3, 0, 0) :: fwds 0 3 /\
  exists o, slab_get (r_obufs st) 0 = Some o /\ o_link o = 2 /\ lenN (o_inflight o) = 3.
Proof.
  cbv zeta. assert (E : tx_run tx_ops_resume = Ok (tx_st tx_ops_resume, tx_tr tx_ops_resume)) by (vm_compute; reflexivity).
  split; [exact E|]. split.
  { destruct (tx_hyps _ _ _ E) as (st0 & H & _); [vm_compute; reflexivity|vm_compute; reflexivity|]. eauto. }
  split; [vm_compute; reflexivity|]. split; [vm_compute; reflexivity|].
  eexists. split; [vm_compute; reflexivity|]. split; vm_compute; reflexivity.
Qed.

(** An accepted publish reaches every matching filter log ([accept_reaches_all_reachable],
    TraceRunAccept.v): a subscribes "t", b subscribes "+", c subscribes "x"; in the reachable
    state after that, publisher key 3 publishes on "t": the logs of "t" (0) and "+" (1) get the
    entry, the log of "x" (2) does not. *)
Definition ax_ops : list (list oracle * rop) :=
  wx_plain [wx_conn 97; wx_conn 98; wx_conn 99; wx_conn 112;
            OpPush 0 (PSubscribe 1 [([116], 0)] None); OpData 0;
            OpPush 1 (PSubscribe 1 [([43], 0)] None); OpData 1;
            OpPush 2 (PSubscribe 1 [([120], 0)] None); OpData 2].
Definition ax_pub : publish :=
  {| p_dup := false; p_qos := 0; p_retain := false; p_topic := [116]; p_pkid := 0; p_payload := [7] |}.
Definition ax_st' : rstate :=
  match append_to_commitlog (set_r_oracle (tx_st ax_ops) [OMatches [1; 0]]) 3 ax_pub None with Ok (s, _) => s | _ => dummy_state end.
Definition ends (st : rstate) : list (option N) :=
  map (fun i => option_map (fun d => end_of (d_log d)) (nget (r_datalog st) i)) [0; 1; 2].

Example accept_example :
  exists st0, init tx_cfg = Ok st0 /\ run st0 ax_ops = Ok (tx_st ax_ops) /\
  append_to_commitlog (set_r_oracle (tx_st ax_ops) [OMatches [1; 0]]) 3 ax_pub None = Ok (ax_st', AppOk) /\
  dl_findex (r_datalog (tx_st ax_ops)) = [([116], 0); ([43], 1); ([120], 2)] /\
  ends (tx_st ax_ops) = [Some 0; Some 0; Some 0] /\ ends ax_st' = [Some 1; Some 1; Some 0].
Proof.
  assert (E : tx_run ax_ops = Ok (tx_st ax_ops, tx_tr ax_ops)) by (vm_compute; reflexivity).
  destruct (tx_hyps _ _ _ E) as (st0 & (_ & _ & Hi & _ & Hr & _) & _); [vm_compute; reflexivity|vm_compute; reflexivity|].
  exists st0. split; [exact Hi|]. split; [eapply run_d_run; exact Hr|].
  split; [vm_compute; reflexivity|]. split; [vm_compute; reflexivity|]. split; vm_compute; reflexivity.
Qed.
