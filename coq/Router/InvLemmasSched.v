(** wp-specifications (RInv preservation + no unexpected panic) of the scheduler, link-buffer and
    ack-log helpers of the router model. *)
From Rumqtt Require Import Router.Inv Router.InvLemmasPrim.
From Coq Require Import Arith ZifyBool ZifyN ZifyNat.

(* ------------------------------------------------------------------ frames *)
Definition ext (st st' : rstate) : Prop := lives st' = lives st /\ nlen st <= nlen st'.
Definition fr (st st' : rstate) : Prop :=
  ext st st' /\ r_ready st' = r_ready st /\ r_notif st' = r_notif st.

Lemma ext_refl st : ext st st. Proof. split; [reflexivity|lia]. Qed.
Lemma fr_refl st : fr st st. Proof. split; [apply ext_refl|auto]. Qed.
Lemma ext_trans a b c : ext a b -> ext b c -> ext a c.
Proof. intros [H1 H2] [H3 H4]. split; [congruence|lia]. Qed.
Lemma fr_trans a b c : fr a b -> fr b c -> fr a c.
Proof. intros (H1 & H2 & H3) (H4 & H5 & H6). split; [eapply ext_trans; eauto|]. split; congruence. Qed.
Lemma fr_ext a b : fr a b -> ext a b. Proof. intros [H _]; exact H. Qed.
Lemma ext_occ a b k : ext a b -> occ (lives a) k -> occ (lives b) k.
Proof. intros [H _] Ho. now rewrite H. Qed.
Lemma ext_req a b rq : ext a b -> req_ok (nlen a) rq -> req_ok (nlen b) rq.
Proof. intros [_ H]. now apply req_ok_mono. Qed.
Lemma ext_reqs a b l : ext a b -> Forall (req_ok (nlen a)) l -> Forall (req_ok (nlen b)) l.
Proof. intros [_ H]. now apply Forall_req_ok_mono. Qed.
Lemma ext_wts a b l : ext a b -> Forall (wt_ok (lives a) (nlen a)) l -> Forall (wt_ok (lives b) (nlen b)) l.
Proof. intros [H1 H2] H. rewrite H1. eapply Forall_wt_ok_mono; eauto. Qed.

#[export] Hint Resolve ext_refl fr_refl fr_ext : rinv.

(* tactics *)
Ltac frame_tac :=
  unfold fr, ext; rsimp; try (erewrite shape_put by eassumption);
  repeat split; try reflexivity; try lia.
Ltac wp_use L := eapply wp_mono; [eapply L | cbn beta].
Ltac wp_step :=
  lazymatch goal with
  | |- wp _ (bind _ _) _ => apply wp_bind
  | |- wp _ (Ok _) _ => apply wp_ok
  | |- wp _ (Err tt) _ => exact I
  | |- wp _ (match ?e with _ => _ end) _ => destruct e eqn:?
  end.

Lemma live_gets cfg st id :
  RInvC cfg st -> occ (lives st) id ->
  exists c i o a t, slab_get (r_conns st) id = Some c /\ slab_get (r_ibufs st) id = Some i /\
                    slab_get (r_obufs st) id = Some o /\ slab_get (r_acks st) id = Some a /\
                    slab_get (r_trackers st) id = Some t.
Proof.
  intros HI Ho. apply occ_get in Ho. destruct Ho as [c Hc].
  destruct (RInv_live_all _ _ _ _ HI Hc) as (i & o & a & t & H1 & H2 & H3 & H4). eauto 10.
Qed.

Lemma get_live cfg st id c : RInvC cfg st -> slab_get (r_conns st) id = Some c -> occ (lives st) id.
Proof. intros _ H. eapply get_occ; eauto. Qed.

(* ------------------------------------------------------------------ links *)
Lemma push_out_spec cfg st k ns :
  RInvC cfg st -> k < lenN (r_links st) ->
  wp cfg (push_out st k ns) (fun r => RInvC cfg (fst r) /\ fr st (fst r) /\
                                      r_cfg (fst r) = r_cfg st).
Proof.
  intros HI Hk. unfold push_out, link_get. destruct (nthN_lt _ _ Hk) as [b Hb]. rewrite Hb. cbn [bind wp fst].
  split; [|split; [frame_tac|reflexivity]].
  apply RInv_link_put; [exact HI|]. cbn [set_lk_out lk_in].
  exact (Forall_nthN (fun b => Forall packet_wf (lk_in b)) _ _ _ (ri_pkts _ _ HI) Hb).
Qed.

(* ------------------------------------------------------------------ scheduler *)
Lemma try_ready_spec cfg t why :
  why <> SInit \/ tr_status t = Paused Busy ->
  wp cfg (try_ready (cf_debug_assertions cfg) t why)
     (fun r => tr_id (fst r) = tr_id t /\ tr_reqs (fst r) = tr_reqs t).
Proof.
  intros Hw. unfold try_ready. destruct (tr_status t) as [|p] eqn:Es; [cbn; auto|].
  destruct why; try (destruct p; cbn; auto; fail).
  destruct Hw as [Hw | Hw]; [congruence|]. inversion Hw; subst. cbn [negb]. rewrite andb_false_r. cbn; auto.
Qed.

Lemma reschedule_gen cfg st id why :
  RInvC cfg st -> occ (lives st) id ->
  (why <> SInit \/ forall t, slab_get (r_trackers st) id = Some t -> tr_status t = Paused Busy) ->
  wp cfg (reschedule st id why)
     (fun st' => RInvC cfg st' /\ ext st st' /\ r_notif st' = r_notif st).
Proof.
  intros HI Ho Hw. destruct (live_gets _ _ _ HI Ho) as (c & i & o & a & t & Hc & Hi & Hob & Ha & Ht).
  unfold reschedule, get_tracker. rewrite Ht. cbn [bind]. rewrite (ri_cfg _ _ HI).
  apply wp_bind. wp_use try_ready_spec; [destruct Hw as [Hw | Hw]; [left; exact Hw|right; apply Hw; exact Ht]|].
  intros [t' woke] [Hid Hrq]. cbn [fst] in *.
  assert (HI' : RInvC cfg (put_tracker st id t')).
  { eapply RInv_put_tracker; eauto. rewrite Hrq. apply (ri_trk _ _ HI _ _ Ht). }
  destruct woke; cbn [wp].
  - split; [now apply RInv_set_ready|]. frame_tac.
  - split; [exact HI'|]. frame_tac.
Qed.

Lemma reschedule_spec cfg st id why :
  RInvC cfg st -> occ (lives st) id -> why <> SInit ->
  wp cfg (reschedule st id why)
     (fun st' => RInvC cfg st' /\ ext st st' /\ r_notif st' = r_notif st).
Proof. intros HI Ho Hw. apply reschedule_gen; auto. Qed.

Lemma trackv_spec cfg st id rqs :
  RInvC cfg st -> occ (lives st) id -> Forall (req_ok (nlen st)) rqs ->
  wp cfg (trackv st id rqs) (fun st' => RInvC cfg st' /\ fr st st').
Proof.
  intros HI Ho Hr. destruct (live_gets _ _ _ HI Ho) as (c & i & o & a & t & Hc & Hi & Hob & Ha & Ht).
  unfold trackv, get_tracker. rewrite Ht. cbn [bind wp]. split; [|frame_tac].
  eapply RInv_put_tracker; eauto. cbn [set_tr_reqs tr_reqs]. apply Forall_app. split; [|exact Hr].
  apply (ri_trk _ _ HI _ _ Ht).
Qed.

Lemma track_spec cfg st id rq :
  RInvC cfg st -> occ (lives st) id -> req_ok (nlen st) rq ->
  wp cfg (track st id rq) (fun st' => RInvC cfg st' /\ fr st st').
Proof.
  intros HI Ho Hr. apply (trackv_spec cfg st id [rq]); auto.
Qed.

Lemma untrack_spec cfg st id f :
  RInvC cfg st -> occ (lives st) id ->
  wp cfg (untrack st id f) (fun st' => RInvC cfg st' /\ fr st st').
Proof.
  intros HI Ho. destruct (live_gets _ _ _ HI Ho) as (c & i & o & a & t & Hc & Hi & Hob & Ha & Ht).
  unfold untrack, get_tracker. rewrite Ht. cbn [bind wp]. split; [|frame_tac].
  eapply RInv_put_tracker; eauto. cbn [set_tr_reqs tr_reqs]. apply Forall_filter.
  apply (ri_trk _ _ HI _ _ Ht).
Qed.

Lemma pause_spec cfg st id why init :
  RInvC cfg st -> occ (lives st) id -> r_ready st = init ++ [id] ->
  wp cfg (pause st id why) (fun st' => RInvC cfg st' /\ ext st st' /\ r_notif st' = r_notif st).
Proof.
  intros HI Ho Hr. destruct (live_gets _ _ _ HI Ho) as (c & i & o & a & t & Hc & Hi & Hob & Ha & Ht).
  unfold pause. rewrite Hr, split_last_n_app, N.eqb_refl. unfold get_tracker.
  cbn [r_trackers set_r_ready]. rewrite Ht. cbn [bind wp].
  split; [|frame_tac].
  apply (RInv_put_tracker cfg (set_r_ready st init) id t); auto.
  - now apply RInv_set_ready.
  - cbn [set_tr_status tr_reqs]. apply (ri_trk _ _ HI _ _ Ht).
Qed.

Lemma dbg_no_dups_spec cfg st id :
  RInvC cfg st -> occ (lives st) id -> wp cfg (dbg_no_dups st id) (fun _ => True).
Proof.
  intros HI Ho. destruct (live_gets _ _ _ HI Ho) as (c & i & o & a & t & Hc & Hi & Hob & Ha & Ht).
  unfold dbg_no_dups, get_tracker. rewrite (ri_cfg _ _ HI), Ht.
  destruct (cf_debug_assertions cfg) eqn:E; cbn [bind wp]; [|exact I].
  destruct (has_dup_idx [] (tr_reqs t)); cbn [wp]; [|exact I]. right. auto.
Qed.

(* ------------------------------------------------------------------ connection / obuf / acks getters *)
Lemma get_conn_ok st id c : slab_get (r_conns st) id = Some c -> get_conn st id = Ok c.
Proof. intros H. unfold get_conn. now rewrite H. Qed.
Lemma get_obuf_ok st id o : slab_get (r_obufs st) id = Some o -> get_obuf st id = Ok o.
Proof. intros H. unfold get_obuf. now rewrite H. Qed.
Lemma get_acks_ok st id a : slab_get (r_acks st) id = Some a -> get_acks st id = Ok a.
Proof. intros H. unfold get_acks. now rewrite H. Qed.

Lemma commit_ack_spec cfg st id a :
  RInvC cfg st -> occ (lives st) id ->
  wp cfg (commit_ack st id a) (fun st' => RInvC cfg st' /\ fr st st').
Proof.
  intros HI Ho. destruct (live_gets _ _ _ HI Ho) as (c & i & o & al & t & Hc & Hi & Hob & Ha & Ht).
  unfold commit_ack. rewrite (get_acks_ok _ _ _ Ha). cbn [bind wp]. split; [|frame_tac].
  eapply RInv_put_acks; eauto.
Qed.

(* ------------------------------------------------------------------ notifications *)
Lemma wake_all_spec cfg ns : forall st,
  RInvC cfg st -> Forall (wt_ok (lives st) (nlen st)) ns ->
  wp cfg (wake_all st ns) (fun st' => RInvC cfg st' /\ ext st st' /\ r_notif st' = r_notif st).
Proof.
  induction ns as [|[id rq] ns IH]; intros st HI Hns; cbn [wake_all].
  - cbn [wp]. split; [exact HI|]. split; [apply ext_refl|reflexivity].
  - inversion Hns as [|? ? [Ho Hrq] Hns']; subst. cbn [fst snd] in *.
    apply wp_bind. wp_use track_spec; eauto. intros st1 [HI1 F1].
    apply wp_bind. wp_use reschedule_spec; [exact HI1|eapply ext_occ; [apply fr_ext; exact F1|exact Ho]|discriminate|].
    intros st2 (HI2 & E2 & N2).
    wp_use IH; eauto.
    + eapply ext_wts; [|exact Hns']. eapply ext_trans; [apply fr_ext; exact F1|exact E2].
    + intros st3 (HI3 & E3 & N3). split; [exact HI3|]. split.
      * eapply ext_trans; [|exact E3]. eapply ext_trans; [apply fr_ext; exact F1|exact E2].
      * destruct F1 as (_ & _ & N1). congruence.
Qed.

Lemma drain_notifications_spec cfg st :
  RInvC cfg st ->
  wp cfg (drain_notifications st) (fun st' => RInvC cfg st' /\ ext st st' /\ r_notif st' = []).
Proof.
  intros HI. unfold drain_notifications.
  wp_use (wake_all_spec cfg (r_notif st) (set_r_notif st [])).
  - apply RInv_set_notif; [exact HI|constructor].
  - apply (ri_notif _ _ HI).
  - intros st' (HI' & E & N). split; [exact HI'|]. split; [exact E|exact N].
Qed.
