(** C17 (shared subscriptions) at the level of whole runs — definitions.

    GHOST.  [gfwd st0 ops : list (group key * client id * offset)] is the list, in order, of the
    log-sourced forwards made through a shared request during the run of [ops] from [st0].  It is
    computed with the model's own functions: [consume_loop_g] / [consume_g] / [step_g] are the
    model's [consume_loop] / [consume] / [step] with one more result component (proved equal to
    the original on the state and output components: [consume_loop_g_state], [consume_g_state],
    [step_g_state]).  What a single call [forward_device_data st id rq = Ok (st', _, _)]
    contributes is read off its EFFECT ([fdd_ghost]): when the request is shared and its group is
    found in [r_groups st], every [NForward (Some cursor) ..] notification the call appended to
    the link buffer of connection [id] is one event
         (group key, the group record at that moment, client id of connection [id], cursor offset).
    Retained replays carry no cursor and are not events.  That the connection was the group's
    current client is NOT part of the definition: it is theorem [c17_member_only].

    HYPOTHESES, as predicates over the same ghost trace ([ghosts st0 ops], one record per op):
    - [no_rewind]: no call of [handle_disconnection] (Disconnect event, disconnecting DeviceData
      batch, take-over by a new connection with the same client id) hits a clean_session=false
      connection that holds a shared request (in its tracker or parked in a waiter list) while its
      inflight buffer contains an entry with a log cursor for that request's filter index
      ([hd_rewinds], evaluated on the very state [handle_disconnection] is called with).  This is
      the known finding K-C17-rewind.
    - [rejoin_fresh]: whenever a resumed session re-creates a group that had been dropped
      ([rejoin_groups] finds no group under the key of a restored shared request and creates one
      whose cursor is that request's OLD cursor), the position a read from that cursor starts at
      lies above every offset already forwarded through that group key.  Second duplicate class
      (no unacknowledged window involved), see [c17_stale_rejoin_witness]. *)
From Rumqtt Require Import Router.Shared Log.Spec Router.WindowFrame.
From Rumqtt Require Import Router.Model Router.RunDefs.
From Coq Require Import ZifyBool ZifyN ZifyNat Sorted.

(* ------------------------------------------------------------------ events *)
Definition gev : Type := (str * str * N)%type.              (* group key, client id, offset *)
Definition gsnap : Type := (str * group * str * N)%type.    (* ... with the group at that moment *)
Definition forget (e : gsnap) : gev := let '(n, _, c, o) := e in (n, c, o).

(** offsets of the log-sourced forwards among notifications *)
Fixpoint log_offsets (ns : list notification) : list N :=
  match ns with
  | [] => []
  | NForward (Some c) _ _ :: r => snd c :: log_offsets r
  | _ :: r => log_offsets r
  end.

Definition link_out (st : rstate) (k : N) : list notification :=
  match nthN (r_links st) k with Some b => lk_out b | None => [] end.

(** the events of one [forward_device_data st id rq = Ok (st', _, _)] *)
Definition fdd_ghost (st : rstate) (id : N) (rq : drequest) (st' : rstate) : list gsnap :=
  match slab_get (r_obufs st) id, dr_group rq with
  | Some o, Some name =>
      match al_get str_eqb name (r_groups st) with
      | Some g =>
          map (fun off => (name, g, o_client o, off))
              (log_offsets (skipn (length (link_out st (o_link o))) (link_out st' (o_link o))))
      | None => []
      end
  | _, _ => []
  end.

(* ------------------------------------------------------------------ consume, instrumented *)
Fixpoint consume_loop_g (fuel : nat) (st : rstate) (id : N) (requests skipped : list drequest)
  : R (rstate * list gsnap) :=
  match fuel with
  | O => do s <- trackv st id (requests ++ skipped); Ok (s, [])
  | S fuel' =>
      match requests with
      | [] =>
          do st1 <- (match skipped with [] => pause st id Caughtup | _ => Ok st end);
          do s <- trackv st1 id skipped; Ok (s, [])
      | rq :: rest =>
          do (st1, rq', status) <- forward_device_data st id rq;
          let ev := fdd_ghost st id rq st1 in
          match status with
          | BufferFull =>
              do st2 <- pause st1 id Busy; do s <- trackv st2 id ((rest ++ [rq']) ++ skipped); Ok (s, ev)
          | SInflightFull =>
              do st2 <- pause st1 id InflightFull; do s <- trackv st2 id ((rest ++ [rq']) ++ skipped); Ok (s, ev)
          | FilterCaughtup =>
              do st2 <- park st1 id rq';
              do (s, evs) <- consume_loop_g fuel' st2 id rest skipped; Ok (s, ev ++ evs)
          | PartialRead =>
              do (s, evs) <- consume_loop_g fuel' st1 id (rest ++ [rq']) skipped; Ok (s, ev ++ evs)
          | SkipRequest =>
              do (s, evs) <- consume_loop_g fuel' st1 id rest (skipped ++ [rq']); Ok (s, ev ++ evs)
          end
      end
  end.

Definition consume_g (st : rstate) : R (rstate * bool * list gsnap) :=
  match r_ready st with
  | [] => Ok (st, false, [])
  | id :: rq =>
      let st0 := set_r_ready st rq in
      match slab_get (r_trackers st0) id with
      | None => Ok (st0, false, [])
      | Some t =>
          let requests := tr_reqs t in
          let st1 := put_tracker st0 id (set_tr_reqs t []) in
          let st2 := set_r_ready st1 (r_ready st1 ++ [id]) in
          match slab_get (r_obufs st2) id with
          | None => Ok (st2, true, [])
          | Some o =>
              do st3 <- ack_device_data st2 id o;
              do _ <- (match slab_get (r_conns st3) id with Some _ => Ok tt | None => Panic P_OBUF_INDEX end);
              do (st4, evs) <- consume_loop_g (N.to_nat MAX_SCHEDULE_ITERATIONS) st3 id requests [];
              Ok (st4, true, evs)
          end
      end
  end.

(* ------------------------------------------------------------------ the two excluded shapes *)
(** an inflight entry with a log cursor for filter index [fidx] (what [retransmission_map] keys) *)
Definition has_log_entry (infl : list (N * N * option cursor)) (fidx : N) : bool :=
  existsb (fun e : N * N * option cursor =>
             match e with (_, fi, Some _) => fi =? fidx | _ => false end) infl.

(** [handle_disconnection st id _] would rewind a shared request (and its group's cursor) *)
Definition hd_rewinds (st : rstate) (id : N) : bool :=
  match slab_get (r_conns st) id, slab_get (r_obufs st) id, slab_get (r_trackers st) id with
  | Some conn, Some o, Some trk =>
      negb (c_clean conn) &&
      existsb (fun rq => match dr_group rq with
                         | Some _ => has_log_entry (o_inflight o) (dr_idx rq)
                         | None => false
                         end)
              (tr_reqs trk ++ snd (dl_clean (r_datalog st) id))
  | _, _, _ => false
  end.

(** the state in which [handle_device_payload st id] calls [handle_disconnection], if it does *)
Definition data_disc_state (st : rstate) (id : N) : option rstate :=
  match slab_get (r_ibufs st) id with
  | None => None
  | Some inc =>
      match link_get st (i_link inc) with
      | Ok b =>
          match handle_packets (link_put st (i_link inc) (set_lk_in b [])) id (i_client inc) (lk_in b) flags0 with
          | Ok (st1, fl) =>
              match (if f_force_ack fl then reschedule st1 id SFreshData else Ok st1) with
              | Ok st2 =>
                  match (if f_new_data fl then drain_notifications st2 else Ok st2) with
                  | Ok st3 => if f_disconnect fl then Some st3 else None
                  | _ => None
                  end
              | _ => None
              end
          | _ => None
          end
      | _ => None
      end
  end.

(** the log a group key "name/filter" reads: the log of [filter] *)
Definition glog (dl : datalog) (name : str) : option data :=
  match split_once_slash name with
  | Some (_, p) => match al_get str_eqb p (dl_findex dl) with
                   | Some i => slab_get (dl_native dl) i
                   | None => None
                   end
  | None => None
  end.

(** absolute position a read of group [name] from cursor [cu] starts at (0 if it has no log) *)
Definition read_pos (dl : datalog) (name : str) (cu : cursor) : N :=
  match glog dl name with Some d => pos_of (d_log d) cu | None => 0 end.

(** the groups [rejoin_groups gs strat client rqs] creates (key, cursor), in order *)
Fixpoint rejoin_created (gs : list (str * group)) (strat : strategy) (client : str) (rqs : list drequest)
  : list (str * cursor) :=
  match rqs with
  | [] => []
  | rq :: r =>
      (match dr_group rq with
       | Some name => match al_get str_eqb name gs with
                      | None => [(name, dr_cursor rq)]
                      | Some _ => []
                      end
       | None => []
       end) ++ rejoin_created (rejoin_groups gs strat client [rq]) strat client r
  end.

(** the take-over part of [handle_new_connection] *)
Definition connect_pre (st : rstate) (client : str) : R rstate :=
  match al_get str_eqb client (r_cmap st) with
  | Some cid => handle_disconnection st cid None
  | None => Ok st
  end.
Definition connect_rewinds (st : rstate) (client : str) : bool :=
  validate_clientid client &&
  match al_get str_eqb client (r_cmap st) with
  | Some cid => hd_rewinds st cid
  | None => false
  end.
(** groups re-created by the resumed session of [client], with their read positions *)
Definition connect_rejoin (st : rstate) (client : str) (clean : bool) : list (str * N) :=
  if negb (validate_clientid client) then []
  else match connect_pre st client with
       | Ok st1 =>
           if cf_max_connections (r_cfg st1) <=? slab_len (r_conns st1) then []
           else if clean then []
           else match al_get str_eqb client (r_graveyard st1) with
                | Some (Some ss) =>
                    map (fun nc : str * cursor => (fst nc, read_pos (r_datalog st1) (fst nc) (snd nc)))
                        (rejoin_created (r_groups st1) (cf_strategy (r_cfg st1)) client
                                        (tr_reqs (ss_tracker ss)))
                | _ => []
                end
       | _ => []
       end.

(* ------------------------------------------------------------------ step, instrumented *)
Record ghost := { gh_fwd : list gsnap; gh_rewind : bool; gh_rejoin : list (str * N) }.
Definition gh_none : ghost := {| gh_fwd := []; gh_rewind := false; gh_rejoin := [] |}.

Definition step_g (st : rstate) (o : rop) : R (rstate * rout * ghost) :=
  match o with
  | OpConsume =>
      do (st1, b, evs) <- consume_g st;
      Ok (st1, OutConsume b, {| gh_fwd := evs; gh_rewind := false; gh_rejoin := [] |})
  | OpConnect c =>
      let st1 := set_r_links st (r_links st ++ [{| lk_in := []; lk_out := [] |}]) in
      do (st2, out) <- step st o;
      Ok (st2, out, {| gh_fwd := []; gh_rewind := connect_rewinds st1 (cr_client c);
                       gh_rejoin := connect_rejoin st1 (cr_client c) (cr_clean c) |})
  | OpData id =>
      do (st2, out) <- step st o;
      Ok (st2, out, {| gh_fwd := [];
                       gh_rewind := match data_disc_state st id with
                                    | Some st3 => hd_rewinds st3 id
                                    | None => false
                                    end;
                       gh_rejoin := [] |})
  | OpDisconnect id =>
      do (st2, out) <- step st o;
      Ok (st2, out, {| gh_fwd := []; gh_rewind := hd_rewinds st id; gh_rejoin := [] |})
  | _ => do (st2, out) <- step st o; Ok (st2, out, gh_none)
  end.

Definition step_with_g (st : rstate) (orc : list oracle) (o : rop) : R (rstate * rout * ghost) :=
  do (st1, out, gh) <- step_g (set_r_oracle st orc) o;
  match r_oracle st1 with
  | [] => Ok (st1, out, gh)
  | _ => Err tt
  end.

(** drop the ghost component *)
Definition drop3 {A B C} (x : R (A * B * C)) : R (A * B) :=
  match x with Ok (a, b, _) => Ok (a, b) | Err e => Err e | Panic t => Panic t end.
Definition drop2 {A B} (x : R (A * B)) : R A :=
  match x with Ok (a, _) => Ok a | Err e => Err e | Panic t => Panic t end.

Lemma consume_loop_g_state id : forall fuel st requests skipped,
  drop2 (consume_loop_g fuel st id requests skipped) = consume_loop fuel st id requests skipped.
Proof.
  induction fuel as [|fuel IH]; intros st requests skipped; cbn [consume_loop_g consume_loop].
  - destruct (trackv st id (requests ++ skipped)); reflexivity.
  - destruct requests as [|rq rest].
    + destruct skipped as [|sk skipped].
      * destruct (pause st id Caughtup) as [st1| |]; cbn [bind drop2]; try reflexivity.
        destruct (trackv st1 id []); reflexivity.
      * cbn [bind]. destruct (trackv st id (sk :: skipped)); reflexivity.
    + destruct (forward_device_data st id rq) as [[[st1 rq'] status]| |]; cbn [bind drop2]; try reflexivity.
      destruct status.
      * destruct (pause st1 id Busy) as [st2| |]; cbn [bind drop2]; try reflexivity.
        destruct (trackv st2 id ((rest ++ [rq']) ++ skipped)); reflexivity.
      * destruct (pause st1 id InflightFull) as [st2| |]; cbn [bind drop2]; try reflexivity.
        destruct (trackv st2 id ((rest ++ [rq']) ++ skipped)); reflexivity.
      * destruct (park st1 id rq') as [st2| |]; cbn [bind drop2]; try reflexivity.
        rewrite <- IH. destruct (consume_loop_g fuel st2 id rest skipped) as [[s evs]| |]; reflexivity.
      * rewrite <- IH. destruct (consume_loop_g fuel st1 id (rest ++ [rq']) skipped) as [[s evs]| |]; reflexivity.
      * rewrite <- IH. destruct (consume_loop_g fuel st1 id rest (skipped ++ [rq'])) as [[s evs]| |]; reflexivity.
Qed.

Lemma consume_g_state st : drop3 (consume_g st) = consume st.
Proof.
  unfold consume_g, consume.
  destruct (r_ready st) as [|id rq]; [reflexivity|]. cbv zeta.
  destruct (slab_get (r_trackers (set_r_ready st rq)) id) as [t|]; [|reflexivity].
  match goal with |- context [slab_get (r_obufs ?s) id] => destruct (slab_get (r_obufs s) id) as [o|] end; [|reflexivity].
  match goal with |- context [ack_device_data ?s id o] => destruct (ack_device_data s id o) as [st3| |] end;
    cbn [bind drop3]; try reflexivity.
  destruct (slab_get (r_conns st3) id); cbn [bind drop3]; [|reflexivity].
  rewrite <- consume_loop_g_state.
  destruct (consume_loop_g (N.to_nat MAX_SCHEDULE_ITERATIONS) st3 id (tr_reqs t) []) as [[s evs]| |]; reflexivity.
Qed.

(** the instrumented step IS the model's step, with one more component *)
Lemma step_g_state st o : drop3 (step_g st o) = step st o.
Proof.
  destruct o; unfold step_g; try (destruct (step st _) as [[st2 out]| |]; reflexivity).
  cbn [step]. rewrite <- consume_g_state. destruct (consume_g st) as [[[st1 b] evs]| |]; reflexivity.
Qed.

Lemma step_with_g_state st orc o : drop3 (step_with_g st orc o) = step_with st orc o.
Proof.
  unfold step_with_g, step_with. rewrite <- step_g_state.
  destruct (step_g (set_r_oracle st orc) o) as [[[st1 out] gh]| |]; cbn [bind drop3]; try reflexivity.
  destruct (r_oracle st1); reflexivity.
Qed.

(* ------------------------------------------------------------------ runs *)
Definition step_ghost (st : rstate) (o : rop) : ghost :=
  match step_g st o with Ok (_, _, gh) => gh | _ => gh_none end.

(** one ghost record per op of the run (the run stops where the model's run stops) *)
Fixpoint ghosts (st : rstate) (ops : list (list oracle * rop)) : list ghost :=
  match ops with
  | [] => []
  | (orc, o) :: r =>
      step_ghost (set_r_oracle st orc) o ::
      match step_with st orc o with Ok (st1, _) => ghosts st1 r | _ => [] end
  end.

Definition gfwd_full (st : rstate) (ops : list (list oracle * rop)) : list gsnap :=
  concat (map gh_fwd (ghosts st ops)).
Definition gfwd (st : rstate) (ops : list (list oracle * rop)) : list gev :=
  map forget (gfwd_full st ops).

Definition no_rewind (st : rstate) (ops : list (list oracle * rop)) : Prop :=
  Forall (fun gh => gh_rewind gh = false) (ghosts st ops).

(** every re-creation of a group by a resumed session starts above what went through the
    group key before ([acc] = the events before the first record) *)
Fixpoint fresh_from (acc : list gev) (ghs : list ghost) : Prop :=
  match ghs with
  | [] => True
  | gh :: r =>
      (forall name pos c off, In (name, pos) (gh_rejoin gh) -> In (name, c, off) acc -> off < pos) /\
      fresh_from (acc ++ map forget (gh_fwd gh)) r
  end.
Definition rejoin_fresh (st : rstate) (ops : list (list oracle * rop)) : Prop :=
  fresh_from [] (ghosts st ops).

(** stronger, purely structural: no resumed session ever re-creates a group *)
Definition no_rejoin_create (st : rstate) (ops : list (list oracle * rop)) : Prop :=
  Forall (fun gh => gh_rejoin gh = []) (ghosts st ops).

(* ------------------------------------------------------------------ what the theorems say *)
Definition offs_of (name : str) (l : list gev) : list N :=
  map snd (filter (fun e : gev => str_eqb name (fst (fst e))) l).
Definition offs_of_member (name client : str) (l : list gev) : list N :=
  map snd (filter (fun e : gev => str_eqb name (fst (fst e)) && str_eqb client (snd (fst e))) l).
Definition increasing (l : list N) : Prop := StronglySorted N.lt l.

(* ------------------------------------------------------------------ the hypotheses, executable *)
Definition no_rewind_b (st : rstate) (ops : list (list oracle * rop)) : bool :=
  forallb (fun gh => negb (gh_rewind gh)) (ghosts st ops).

Fixpoint fresh_from_b (acc : list gev) (ghs : list ghost) : bool :=
  match ghs with
  | [] => true
  | gh :: r =>
      forallb (fun np : str * N =>
                 forallb (fun e : gev => negb (str_eqb (fst np) (fst (fst e))) || (snd e <? snd np)) acc)
              (gh_rejoin gh)
      && fresh_from_b (acc ++ map forget (gh_fwd gh)) r
  end.
Definition rejoin_fresh_b (st : rstate) (ops : list (list oracle * rop)) : bool :=
  fresh_from_b [] (ghosts st ops).
Definition no_rejoin_create_b (st : rstate) (ops : list (list oracle * rop)) : bool :=
  forallb (fun gh => match gh_rejoin gh with [] => true | _ => false end) (ghosts st ops).

Lemma no_rewind_b_spec st ops : no_rewind_b st ops = true <-> no_rewind st ops.
Proof.
  unfold no_rewind_b, no_rewind. rewrite forallb_forall, Forall_forall.
  split; intros H gh Hin; specialize (H gh Hin); destruct (gh_rewind gh); cbn in *; congruence.
Qed.

Lemma fresh_from_b_spec : forall ghs acc, fresh_from_b acc ghs = true <-> fresh_from acc ghs.
Proof.
  induction ghs as [|gh r IH]; intros acc; cbn [fresh_from_b fresh_from]; [tauto|].
  rewrite andb_true_iff, IH, forallb_forall. split; intros [H1 H2]; (split; [|exact H2]).
  - intros name pos c off Hin He. specialize (H1 _ Hin). rewrite forallb_forall in H1. specialize (H1 _ He).
    cbn [fst snd] in H1. apply orb_true_iff in H1 as [H1 | H1].
    + apply negb_true_iff in H1. assert (name = name) by reflexivity.
      assert (Hx : str_eqb name name = true).
      { clear. induction name as [|x n IHn]; cbn [str_eqb]; [reflexivity|]. now rewrite N.eqb_refl, IHn. }
      congruence.
    + apply N.ltb_lt in H1. exact H1.
  - intros [name pos] Hin. rewrite forallb_forall. intros [[n c] off] He. cbn [fst snd].
    destruct (str_eqb name n) eqn:E; cbn [negb orb]; [|reflexivity].
    assert (Hn : name = n).
    { clear -E. revert n E. induction name as [|x a IHa]; intros [|y b]; cbn [str_eqb]; try discriminate; [reflexivity|].
      intros E. apply andb_true_iff in E as [E1 E2]. apply N.eqb_eq in E1. subst y. f_equal. now apply IHa. }
    subst n. apply N.ltb_lt. eapply H1; eassumption.
Qed.

Lemma rejoin_fresh_b_spec st ops : rejoin_fresh_b st ops = true <-> rejoin_fresh st ops.
Proof. apply fresh_from_b_spec. Qed.

Lemma no_rejoin_create_b_spec st ops : no_rejoin_create_b st ops = true <-> no_rejoin_create st ops.
Proof.
  unfold no_rejoin_create_b, no_rejoin_create. rewrite forallb_forall, Forall_forall.
  split; intros H gh Hin; specialize (H gh Hin); destruct (gh_rejoin gh); congruence.
Qed.

(** the structural hypothesis implies the semantic one *)
Lemma no_rejoin_create_fresh st ops : no_rejoin_create st ops -> rejoin_fresh st ops.
Proof.
  unfold no_rejoin_create, rejoin_fresh. generalize (@nil gev) as acc. generalize (ghosts st ops) as ghs.
  induction ghs as [|gh r IH]; intros acc H; cbn [fresh_from]; [exact I|].
  inversion H as [|? ? Hg Hr]; subst. split; [|now apply IH].
  intros name pos c off Hin. rewrite Hg in Hin. destruct Hin.
Qed.
