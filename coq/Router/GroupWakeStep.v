(** C17, completeness clause — part 2: [GroupParkInv] through the events.

    Where the registered groups change:
    - SUBSCRIBE ([prepare_filter]): a group is created with the cursor [next_native_offset] has
      just returned — the end of the log the group key reads; joining an existing group leaves
      its cursor alone;
    - UNSUBSCRIBE, [handle_disconnection]: groups lose a member or are dropped; a surviving
      group keeps its cursor — EXCEPT for the rewind of a persistent member's unacknowledged
      window (K-C17-rewind), excluded by [hd_rewinds .. = false] on the very state
      [handle_disconnection] is called with (the hypothesis of the run-level theorems of
      SharedRun*.v);
    - a resumed session ([rejoin_groups]) joins existing groups, or re-creates a dropped group
      from its saved cursor: harmless as long as no request served through that key is parked
      at that moment ([NoOrphanW], proved for all reachable states in GroupWakeMem*.v: a parked
      shared request belongs to a live member of a registered group). *)
From Rumqtt Require Import Log.Spec Log.Proofs Log.WfFacts Router.ExactLog.
From Rumqtt Require Import Topic.Proofs Router.WindowFrame Router.Window Router.DataLogInv Router.DataLogStep
                           Router.ExactInv Router.ExactStep1 Router.ExactStep2 Router.ExactStep3 Router.ExactLogs Router.ExactSweep Router.ExactThm.
From Rumqtt Require Import Router.RetainedBase Router.RetainedReplay Router.Shared Router.SharedRun Router.SharedRunInv
                           Router.SharedRunStep Router.SharedRunStep2 Router.SharedRunStep3.
From Rumqtt Require Import Router.Wake Router.WakePark Router.GroupWake.
From Rumqtt Require Import Router.Model Router.RunDefs.
From Coq Require Import List Arith ZifyBool ZifyN ZifyNat Sorted.
Import ListNotations.

(** every parked shared request finds its group registered *)
Definition NoOrphanW (st : rstate) : Prop :=
  forall i d w name, nget (r_datalog st) i = Some d -> In w (d_waiters d) ->
    dr_group (snd w) = Some name -> al_get str_eqb name (r_groups st) <> None.

Lemma gsub_cur st st' : GK st -> gsub (r_groups st) (r_groups st') -> gcur_sub (r_groups st) (r_groups st').
Proof. intros HK S. exact (proj2 (S HK)). Qed.

Lemma GK_nil_gi st : GI st []. Proof. constructor. Qed.

(* ------------------------------------------------------------------ SUBSCRIBE *)
Lemma prepare_filter_gpark st id cu fidx path qos grp subid st' :
  CInv st -> ParkInv st -> GroupParkInv st ->
  (forall name, grp = Some name ->
     exists nm p d, split_once_slash name = Some (nm, p) /\ al_get str_eqb p (dl_findex (r_datalog st)) = Some fidx /\
                    nget (r_datalog st) fidx = Some d /\ pos_of (d_log d) cu = end_of (d_log d)) ->
  prepare_filter st id cu fidx path qos grp subid = Ok st' -> GroupParkInv st'.
Proof.
  intros [_ CI] HP HG Hcu H. pose proof (prepare_filter_dl _ _ _ _ _ _ _ _ _ H) as D.
  pose proof (prepare_filter_groups _ _ _ _ _ _ _ _ _ H) as G. unfold GroupParkInv. rewrite D, G. clear D G H.
  destruct grp as [name |]; [| exact HG]. cbv zeta.
  intros i d Hd. apply Forall_forall. intros w Hw nm gx Hwn Hgx.
  pose proof (HG _ _ Hd) as P. rewrite Forall_forall in P.
  destruct (str_eqb_spec nm name) as [-> | Hne].
  - rewrite (al_get_set_same str_eqb str_eqb_spec) in Hgx. inversion Hgx; subst gx. clear Hgx.
    cbn [g_cursor set_g_clients]. destruct (al_get str_eqb name (r_groups st)) as [g |] eqn:Eg; [exact (P _ Hw _ _ Hwn Eg) |].
    cbn [g_cursor]. destruct (Hcu _ eq_refl) as (nm & p & d0 & Hs & Hf & Hd0 & Hend).
    pose proof (HP _ _ Hd) as Q. rewrite Forall_forall in Q. destruct (Q _ Hw) as [Ei _].
    pose proof (ci_wait _ _ CI _ _ Hd) as R. rewrite Forall_forall in R. destruct (R _ Hw) as [_ Hgw].
    destruct (Hgw _ Hwn) as (nm' & p' & Hs' & Hf'). rewrite Hs in Hs'. inversion Hs'; subst nm' p'.
    rewrite Hf in Hf'. inversion Hf' as [Ef]. assert (Ex : i = fidx) by congruence. rewrite Ex in Hd. rewrite Hd in Hd0. inversion Hd0; subst d0. exact Hend.
  - rewrite (RetainedBase.al_get_set_other str_eqb str_eqb_spec) in Hgx by exact Hne. exact (P _ Hw _ _ Hwn Hgx).
Qed.

Lemma subscribe_filters_gpark id subid : forall fs st fl codes st' fl' codes',
  CInv st -> ParkInv st -> GroupParkInv st ->
  subscribe_filters st id fs subid fl codes = Ok (st', fl', codes') -> GroupParkInv st'.
Proof.
  induction fs as [| [path qos] r IH]; intros st fl codes st' fl' codes' HI HP HG H; cbn [subscribe_filters] in H.
  - now inv_ok.
  - destruct (negb (validate_subscription path)); [now inv_ok |].
    destruct (extract_group path) as [[g p] |] eqn:Eg.
    + destruct (match subid with Some 0 => true | _ => false end); [now inv_ok |].
      apply bind_ok in H as ([[st1 idx] cu] & H1 & H). apply bind_ok in H as (st2 & H2 & H).
      destruct (next_native_offset_cinv _ _ _ _ _ HI H1) as (HI1 & L1 & Hcu & Hf).
      destruct (extract_group_split _ _ _ Eg) as [nm Hs].
      assert (HI2 : CInv st2).
      { eapply prepare_filter_cinv; [exact HI1 | exact Hcu | | exact H2].
        intros g0 E0. inversion E0; subst g0. eauto. }
      pose proof (next_native_offset_PS _ _ _ _ _ H1) as PS1.
      assert (HP1 : ParkInv st1) by (eapply ParkInv_PS; eauto).
      assert (HG1 : GroupParkInv st1).
      { eapply GPI_frame; [exact HG | exact PS1 |]. apply gcur_sub_eq. eapply next_native_offset_groups; eauto. }
      destruct (next_native_offset_end _ _ _ _ _ HI H1) as (d0 & all & Hd0 & W0 & Ecu & _ & Hst0).
      assert (HG2 : GroupParkInv st2).
      { eapply prepare_filter_gpark; [exact HI1 | exact HP1 | exact HG1 | | exact H2].
        intros name E. inversion E; subst name. exists nm, p, d0. repeat (split; [assumption |]).
        unfold pos_of. rewrite Hst0, Ecu. cbn [snd]. now rewrite (wf_end_of pubdata_size _ _ W0). }
      assert (HP2 : ParkInv st2) by (unfold ParkInv; rewrite (prepare_filter_dl _ _ _ _ _ _ _ _ _ H2); exact HP1).
      eapply IH; eassumption.
    + destruct (match subid with Some 0 => true | _ => false end); [now inv_ok |].
      apply bind_ok in H as ([[st1 idx] cu] & H1 & H). apply bind_ok in H as (st2 & H2 & H).
      destruct (next_native_offset_cinv _ _ _ _ _ HI H1) as (HI1 & L1 & Hcu & Hf).
      assert (HI2 : CInv st2).
      { eapply prepare_filter_cinv; [exact HI1 | exact Hcu | | exact H2]. intros g0 E0. discriminate. }
      pose proof (next_native_offset_PS _ _ _ _ _ H1) as PS1.
      assert (HP1 : ParkInv st1) by (eapply ParkInv_PS; eauto).
      assert (HG1 : GroupParkInv st1).
      { eapply GPI_frame; [exact HG | exact PS1 |]. apply gcur_sub_eq. eapply next_native_offset_groups; eauto. }
      assert (HG2 : GroupParkInv st2).
      { eapply prepare_filter_gpark; [exact HI1 | exact HP1 | exact HG1 | | exact H2]. intros name E. discriminate. }
      assert (HP2 : ParkInv st2) by (unfold ParkInv; rewrite (prepare_filter_dl _ _ _ _ _ _ _ _ _ H2); exact HP1).
      eapply IH; eassumption.
Qed.

(* ------------------------------------------------------------------ the packet handlers *)
Lemma handle_packet_gpark st id client pk fl st' fl' brk :
  CInv st -> ParkInv st -> GK st -> GroupParkInv st ->
  handle_packet st id client pk fl = Ok (st', fl', brk) -> GroupParkInv st'.
Proof.
  intros HI HP HK HG H. destruct (is_subscribe pk) eqn:Es.
  - destruct pk; try discriminate. cbn [handle_packet] in H.
    apply bind_ok in H as ([[st1 fl1] codes] & H1 & H). apply bind_ok in H as (st2 & H2 & H). inv_ok.
    eapply GPI_eq; [eapply commit_ack_dl; eassumption | eapply commit_ack_groups; eassumption |].
    eapply subscribe_filters_gpark; eassumption.
  - eapply GPI_frame; [exact HG | eapply handle_packet_PS; eassumption |].
    apply gsub_cur; [exact HK |]. eapply handle_packet_groups; eassumption.
Qed.

Lemma handle_packets_gpark id client : forall pks st fl st' fl',
  CInv st -> ParkInv st -> GK st -> GroupParkInv st ->
  handle_packets st id client pks fl = Ok (st', fl') -> GK st' /\ GroupParkInv st'.
Proof.
  induction pks as [| pk r IH]; intros st fl st' fl' HI HP HK HG H; cbn [handle_packets] in H.
  - inv_ok. auto.
  - apply bind_ok in H as ([[st1 fl1] brk] & H1 & H).
    destruct (handle_packet_cinv _ _ _ _ _ _ _ _ HI H1) as [HI1 _].
    destruct (handle_packet_gi _ _ _ _ _ _ _ _ [] HI HK (GK_nil_gi _) H1) as [HK1 _].
    pose proof (handle_packet_gpark _ _ _ _ _ _ _ _ HI HP HK HG H1) as HG1.
    assert (HP1 : ParkInv st1) by (eapply ParkInv_PS; [exact HP | eapply handle_packet_PS; eauto]).
    destruct brk; [inv_ok; auto |]. eapply IH; eassumption.
Qed.

(* ------------------------------------------------------------------ handle_disconnection *)
Lemma handle_disconnection_gpark st id reason st' :
  GK st -> GroupParkInv st -> hd_rewinds st id = false ->
  handle_disconnection st id reason = Ok st' -> GK st' /\ GroupParkInv st'.
Proof.
  intros HK HG Hnr H. pose proof (handle_disconnection_groups _ _ _ _ H Hnr) as S.
  split; [exact (proj1 (S HK)) |].
  eapply GPI_frame; [exact HG | eapply handle_disconnection_PS; eassumption | exact (proj2 (S HK))].
Qed.

(* ------------------------------------------------------------------ DeviceData *)
Lemma handle_device_payload_gpark st id st' :
  CInv st -> ParkInv st -> GK st -> GroupParkInv st ->
  match data_disc_state st id with Some st3 => hd_rewinds st3 id | None => false end = false ->
  handle_device_payload st id = Ok st' -> GK st' /\ GroupParkInv st'.
Proof.
  unfold handle_device_payload, data_disc_state. intros HI HP HK HG Hnr H.
  destruct (slab_get (r_ibufs st) id) as [inc |]; [| inv_ok; auto].
  apply bind_ok in H as (b & Hb & H). rewrite Hb in Hnr. apply bind_ok in H as ([st1 fl] & H1 & H). rewrite H1 in Hnr. cbv beta iota in Hnr.
  match type of H1 with handle_packets ?s _ _ _ _ = _ =>
    assert (HI0 : CInv s) by (eapply cinv_view; [| exact HI]; reflexivity);
    assert (HP0 : ParkInv s) by exact HP;
    assert (HK0 : GK s) by exact HK; assert (HG0 : GroupParkInv s) by exact HG end.
  destruct (handle_packets_gpark _ _ _ _ _ _ _ HI0 HP0 HK0 HG0 H1) as [HK1 HG1].
  apply bind_ok in H as (st2 & H2 & H).
  assert (X2 : GK st2 /\ GroupParkInv st2 /\
               match match (if f_new_data fl then drain_notifications st2 else Ok st2) with
                     | Ok st3 => if f_disconnect fl then Some st3 else None
                     | _ => None
                     end with Some st3 => hd_rewinds st3 id | None => false end = false).
  { destruct (f_force_ack fl).
    - rewrite H2 in Hnr. unfold GK. rewrite (reschedule_groups _ _ _ _ H2). split; [exact HK1 |]. split; [| exact Hnr].
      eapply GPI_eq; [eapply reschedule_dl; eassumption | eapply reschedule_groups; eassumption | exact HG1].
    - inv_ok. auto. }
  destruct X2 as (HK2 & HG2 & Hnr2). clear Hnr.
  apply bind_ok in H as (st3 & H3 & H).
  assert (X3 : GK st3 /\ GroupParkInv st3 /\
               match (if f_disconnect fl then Some st3 else None) with Some st3 => hd_rewinds st3 id | None => false end = false).
  { destruct (f_new_data fl).
    - rewrite H3 in Hnr2. unfold GK. rewrite (drain_notifications_groups _ _ H3). split; [exact HK2 |]. split; [| exact Hnr2].
      eapply GPI_eq; [eapply drain_notifications_dl; eassumption | eapply drain_notifications_groups; eassumption | exact HG2].
    - inv_ok. auto. }
  destruct X3 as (HK3 & HG3 & Hnr).
  destruct (f_disconnect fl); [| inv_ok; auto].
  eapply handle_disconnection_gpark; eassumption.
Qed.

(* ------------------------------------------------------------------ handle_new_connection *)
Lemma rejoin_groups_gpark dl strat client : forall rqs gs,
  GParkD gs dl ->
  (forall name cu, In (name, cu) (rejoin_created gs strat client rqs) ->
     forall i d w, nget dl i = Some d -> In w (d_waiters d) -> dr_group (snd w) <> Some name) ->
  GParkD (rejoin_groups gs strat client rqs) dl.
Proof.
  induction rqs as [| rq r IH]; intros gs HG Hf; [exact HG |].
  rewrite rejoin_groups_cons. cbn [rejoin_created] in Hf. apply IH.
  - rewrite rejoin_groups_one. destruct (dr_group rq) as [name |] eqn:En; [| exact HG]. cbv zeta.
    intros i d Hd. apply Forall_forall. intros w Hw nm gx Hwn Hgx.
    pose proof (HG _ _ Hd) as P. rewrite Forall_forall in P.
    destruct (str_eqb_spec nm name) as [-> | Hne].
    + rewrite (al_get_set_same str_eqb str_eqb_spec) in Hgx. inversion Hgx; subst gx. clear Hgx.
      cbn [g_cursor set_g_clients]. destruct (al_get str_eqb name gs) as [g |] eqn:Eg; [exact (P _ Hw _ _ Hwn Eg) |].
      exfalso. apply (Hf name (dr_cursor rq)) with (i := i) (d := d) (w := w); auto.
      apply in_or_app. left. now left.
    + rewrite (RetainedBase.al_get_set_other str_eqb str_eqb_spec) in Hgx by exact Hne. exact (P _ Hw _ _ Hwn Hgx).
  - intros name cu Hin. apply (Hf name cu). apply in_or_app. now right.
Qed.

(** a group that [rejoin_groups] creates was not registered before *)
Lemma rejoin_created_fresh strat client : forall rqs gs name cu,
  In (name, cu) (rejoin_created gs strat client rqs) -> al_get str_eqb name gs = None.
Proof.
  induction rqs as [| rq r IH]; intros gs name cu Hin; cbn [rejoin_created] in Hin; [destruct Hin |].
  apply in_app_or in Hin as [Hin | Hin].
  - destruct (dr_group rq) as [n |]; [| destruct Hin]. destruct (al_get str_eqb n gs) eqn:E; [destruct Hin |].
    destruct Hin as [Hin | []]. inversion Hin; subst. exact E.
  - apply IH in Hin. rewrite rejoin_groups_one in Hin. destruct (dr_group rq) as [n |]; [| exact Hin]. cbv zeta in Hin.
    destruct (str_eqb_spec name n) as [-> | Hne].
    + rewrite (al_get_set_same str_eqb str_eqb_spec) in Hin. discriminate.
    + now rewrite (RetainedBase.al_get_set_other str_eqb str_eqb_spec) in Hin by exact Hne.
Qed.

Lemma handle_new_connection_gpark st conn link st' :
  GK st -> GroupParkInv st ->
  connect_rewinds st (c_client conn) = false ->
  (forall st1, connect_pre st (c_client conn) = Ok st1 ->
     NoOrphanW st1 \/ connect_rejoin st (c_client conn) (c_clean conn) = []) ->
  handle_new_connection st conn link = Ok st' -> GK st' /\ GroupParkInv st'.
Proof.
  intros HK HG Hnr Hor H. unfold handle_new_connection in H. unfold connect_rewinds in Hnr.
  unfold connect_rejoin in Hor.
  destruct (negb (validate_clientid (c_client conn))) eqn:Ev; [inv_ok; auto |].
  apply negb_false_iff in Ev. rewrite Ev in Hnr. cbn [andb] in Hnr.
  apply bind_ok in H as (st1 & H1 & H). unfold connect_pre in Hor.
  assert (X1 : GK st1 /\ GroupParkInv st1 /\
    (NoOrphanW st1 \/
     (if cf_max_connections (r_cfg st1) <=? slab_len (r_conns st1) then []
      else if c_clean conn then []
      else match al_get str_eqb (c_client conn) (r_graveyard st1) with
           | Some (Some ss) =>
               map (fun nc : str * cursor => (fst nc, read_pos (r_datalog st1) (fst nc) (snd nc)))
                   (rejoin_created (r_groups st1) (cf_strategy (r_cfg st1)) (c_client conn)
                                   (tr_reqs (ss_tracker ss)))
           | _ => []
           end) = [])).
  { destruct (al_get str_eqb (c_client conn) (r_cmap st)) as [cid |].
    - specialize (Hor st1 H1). rewrite H1 in Hor.
      destruct (handle_disconnection_gpark _ _ _ _ HK HG Hnr H1) as [A B]. auto.
    - inv_ok. specialize (Hor st1 eq_refl). auto. }
  destruct X1 as (HK1 & HG1 & Hor1). clear Hor. rename Hor1 into Hor.
  clear H1 HK HG Hnr.
  destruct (cf_max_connections (r_cfg st1) <=? slab_len (r_conns st1)); [inv_ok; auto |].
  match type of H with (match ?X with _ => _ end) = _ => destruct X as [[trk conn1] pubrels] eqn:EX end.
  destruct (slab_insert (r_conns st1) (set_c_will conn1 None)) as [conns id] eqn:Ic.
  destruct (slab_insert (r_ibufs st1) _) as [ibufs id_i] eqn:Ii.
  destruct (slab_insert (r_obufs st1) _) as [obufs id_o] eqn:Io.
  destruct (slab_insert (r_acks st1) _) as [acks id_a] eqn:Ia.
  destruct (slab_insert (r_trackers st1) trk) as [trackers id_t] eqn:It.
  match type of H with (if ?b then _ else _) = _ => destruct b end; [discriminate |].
  apply bind_ok in H as (u & _ & H).
  pose proof (reschedule_groups _ _ _ _ H) as G. pose proof (reschedule_dl _ _ _ _ H) as D.
  unfold GK, GroupParkInv. rewrite G, D. cbn [r_groups r_datalog]. clear G D H.
  split.
  { destruct (rejoin_groups_gi (r_datalog st1) (cf_strategy (r_cfg st1)) (c_client conn) [] (tr_reqs trk) (r_groups st1) HK1)
      as [X _]; [constructor | intros ? ? ? ? _ [] | exact X]. }
  apply rejoin_groups_gpark; [exact HG1 |].
  intros name cu Hin i d w Hd Hw Hwn.
  pose proof (rejoin_created_fresh _ _ _ _ _ _ Hin) as Efresh.
  destruct Hor as [Hor | Hor]; [exact (Hor _ _ _ _ Hd Hw Hwn Efresh) |].
  destruct (negb (c_clean conn)) eqn:Ecl.
  - apply negb_true_iff in Ecl. rewrite Ecl in Hor.
    destruct (al_get str_eqb (c_client conn) (r_graveyard st1)) as [[ss |] |]; inv_ok; cbn [tr_reqs rejoin_created] in Hin;
      try contradiction.
    apply map_eq_nil in Hor. rewrite Hor in Hin. destruct Hin.
  - inv_ok. cbn [tr_reqs rejoin_created] in Hin. contradiction.
Qed.

(* ------------------------------------------------------------------ last will *)
Lemma handle_last_will_gpark st client st' :
  GroupParkInv st -> handle_last_will st client = Ok st' -> GroupParkInv st'.
Proof.
  intros HG H. eapply GPI_frame; [exact HG | eapply handle_last_will_PS; eassumption |].
  apply gcur_sub_eq. eapply handle_last_will_groups; eassumption.
Qed.

(* ------------------------------------------------------------------ one step *)
(** the orphan side condition of a Connect event: after the take-over part, no parked shared
    request is without its group — or the resumed session re-creates no group at all *)
Definition connect_ok (st : rstate) (o : rop) : Prop :=
  match o with
  | OpConnect c =>
      let st0 := set_r_links st (r_links st ++ [{| lk_in := []; lk_out := [] |}]) in
      forall st1, connect_pre st0 (cr_client c) = Ok st1 ->
        NoOrphanW st1 \/ connect_rejoin st0 (cr_client c) (cr_clean c) = []
  | _ => True
  end.

Theorem step_gpark st o st' out gh :
  CInv st -> Bounded st -> 1 <= cf_max_outgoing (r_cfg st) -> ParkInv st -> GK st -> GroupParkInv st ->
  step_g st o = Ok (st', out, gh) -> gh_rewind gh = false -> connect_ok st o ->
  GK st' /\ GroupParkInv st'.
Proof.
  intros HI HB HM HP HK HG H Hnr Hco. destruct o; unfold step_g in H.
  - (* connect *)
    apply bind_ok in H as ([st2 out2] & H2 & H). inv_ok. cbn [gh_rewind] in Hnr. cbn [step] in H2.
    apply bind_ok in H2 as (st3 & H3 & H2). inv_ok. cbn [connect_ok] in Hco.
    match type of H3 with handle_new_connection ?s ?cn ?lk = _ =>
      apply (handle_new_connection_gpark s cn lk st') end; try assumption.
  - (* push *)
    apply bind_ok in H as ([st2 out2] & H2 & H). inv_ok. cbn [step] in H2.
    destruct (nthN (r_links st) link); inv_ok; auto.
  - (* data *)
    apply bind_ok in H as ([st2 out2] & H2 & H). inv_ok. cbn [gh_rewind] in Hnr. cbn [step] in H2.
    apply bind_ok in H2 as (st3 & H3 & H2). inv_ok. eapply handle_device_payload_gpark; eassumption.
  - (* consume *)
    apply bind_ok in H as ([[st1 b] evs] & H1 & H). inv_ok.
    pose proof (consume_g_state st) as E. rewrite H1 in E. cbn [drop3] in E. symmetry in E.
    split; [| eapply consume_gpark; eassumption].
    destruct (consume_gi _ _ _ _ [] HI HB HK (GK_nil_gi _) (fun _ => SSorted_nil _) H1) as (X & _). exact X.
  - (* drain *)
    apply bind_ok in H as ([st2 out2] & H2 & H). inv_ok. cbn [step] in H2.
    destruct (nthN (r_links st) link); inv_ok; auto.
  - (* ready *)
    apply bind_ok in H as ([st2 out2] & H2 & H). inv_ok. cbn [step] in H2.
    destruct (slab_get (r_trackers st) id); [| inv_ok; auto].
    apply bind_ok in H2 as (st1 & H1 & H2). inv_ok. unfold GK. rewrite (reschedule_groups _ _ _ _ H1). split; [exact HK |].
    eapply GPI_eq; [eapply reschedule_dl; eassumption | eapply reschedule_groups; eassumption | exact HG].
  - (* disconnect *)
    apply bind_ok in H as ([st2 out2] & H2 & H). inv_ok. cbn [gh_rewind] in Hnr. cbn [step] in H2.
    apply bind_ok in H2 as (st1 & H1 & H2). inv_ok. eapply handle_disconnection_gpark; eassumption.
  - (* shadow *)
    apply bind_ok in H as ([st2 out2] & H2 & H). inv_ok. cbn [step] in H2.
    apply bind_ok in H2 as (st1 & H1 & H2). inv_ok. pose proof (retrieve_shadow_cview _ _ _ _ H1) as V.
    unfold GK. rewrite (cview_groups _ _ V). split; [exact HK |].
    apply (GPI_eq st st'); [now apply cview_dl | now apply cview_groups | exact HG].
  - (* will *)
    apply bind_ok in H as ([st2 out2] & H2 & H). inv_ok. cbn [step] in H2.
    apply bind_ok in H2 as (st1 & H1 & H2). inv_ok. unfold GK. rewrite (handle_last_will_groups _ _ _ H1).
    split; [exact HK | eapply handle_last_will_gpark; eassumption].
  - (* meters *)
    apply bind_ok in H as ([st2 out2] & H2 & H). inv_ok. cbn [step] in H2. inv_ok. auto.
Qed.
