(** C08 (persistent sessions), lemma level: what [handle_disconnection] saves, what
    [handle_new_connection] restores, the retransmission map. *)
From Rumqtt Require Export Router.RetainedStore Router.Will.
From Coq Require Import ZifyBool ZifyN ZifyNat.

(* ------------------------------------------------------------------ retransmission_map *)
(** the cursor of the OLDEST (first) inflight entry of filter index [fidx] that carries one *)
Fixpoint first_cursor (infl : list (N * N * option cursor)) (fidx : N) : option cursor :=
  match infl with
  | [] => None
  | (_, f, c) :: r =>
      if f =? fidx then match c with Some cu => Some cu | None => first_cursor r fidx end
      else first_cursor r fidx
  end.

Lemma retransmission_map_acc infl : forall acc fidx,
  al_get N.eqb fidx (retransmission_map infl acc) =
  match al_get N.eqb fidx acc with Some c => Some c | None => first_cursor infl fidx end.
Proof.
  induction infl as [| [[pk f] c] r IH]; intros acc fidx; cbn [retransmission_map first_cursor].
  - destruct (al_get N.eqb fidx acc); reflexivity.
  - destruct (al_get N.eqb f acc) as [c0|] eqn:Ef; [|destruct c as [cu|]]; rewrite IH.
    + destruct (N.eqb_spec f fidx) as [-> | Hn]; [now rewrite Ef | reflexivity].
    + rewrite al_get_app. cbn [al_get]. destruct (N.eqb_spec f fidx) as [-> | Hn].
      * rewrite Ef, N.eqb_refl. reflexivity.
      * destruct (al_get N.eqb fidx acc); [reflexivity|].
        destruct (N.eqb_spec fidx f); [congruence | reflexivity].
    + destruct (N.eqb_spec f fidx) as [-> | Hn]; [now rewrite Ef | reflexivity].
Qed.

(** [retransmission_map_spec] *)
Lemma retransmission_map_spec infl fidx :
  al_get N.eqb fidx (retransmission_map infl []) = first_cursor infl fidx.
Proof. now rewrite retransmission_map_acc. Qed.

(** [first_cursor], declaratively: the entry is in the buffer, carries that cursor, and no
    earlier entry of the same filter index carries a cursor *)
Lemma first_cursor_some infl fidx cu :
  first_cursor infl fidx = Some cu <->
  exists pre pk post, infl = pre ++ (pk, fidx, Some cu) :: post /\
                      Forall (fun e => ~ (snd (fst e) = fidx /\ snd e <> None)) pre.
Proof.
  induction infl as [| [[pk f] c] r IH]; cbn [first_cursor].
  - split; [discriminate|]. intros (pre & pk & post & H & _). destruct pre; discriminate.
  - split.
    + destruct (N.eqb_spec f fidx) as [-> | Hn]; [destruct c as [c0|]|].
      * intros [= ->]. exists [], pk, r. split; [reflexivity | constructor].
      * intros H. apply IH in H as (pre & pk' & post & -> & Hf).
        exists ((pk, fidx, None) :: pre), pk', post. split; [reflexivity|]. constructor; [|exact Hf].
        cbn. intros [_ Hx]. now apply Hx.
      * intros H. apply IH in H as (pre & pk' & post & -> & Hf).
        exists ((pk, f, c) :: pre), pk', post. split; [reflexivity|]. constructor; [|exact Hf].
        cbn. intros [Hx _]. now apply Hn.
    + intros (pre & pk' & post & H & Hf). destruct pre as [| e pre].
      * cbn [app] in H. injection H as -> -> -> ->. now rewrite N.eqb_refl.
      * cbn [app] in H. injection H as <- ->. inversion Hf as [| ? ? He Hf']; subst. cbn [fst snd] in He.
        assert (Hr : first_cursor (pre ++ (pk', fidx, Some cu) :: post) fidx = Some cu) by (apply IH; eauto).
        destruct (N.eqb_spec f fidx) as [-> | Hn]; [|exact Hr].
        destruct c as [c0|]; [|exact Hr]. exfalso. apply He. split; [reflexivity | discriminate].
Qed.

Lemma first_cursor_none infl fidx :
  first_cursor infl fidx = None <-> Forall (fun e => ~ (snd (fst e) = fidx /\ snd e <> None)) infl.
Proof.
  induction infl as [| [[pk f] c] r IH]; cbn [first_cursor]; [split; [constructor | reflexivity]|].
  destruct (N.eqb_spec f fidx) as [-> | Hn]; [destruct c as [c0|]|].
  - split; [discriminate|]. intros H. inversion H as [| ? ? He _]; subst. exfalso. apply He. cbn. split; [reflexivity | discriminate].
  - rewrite IH. split; [intros H; constructor; [cbn; intros [_ Hx]; now apply Hx | exact H] | intros H; now inversion H].
  - rewrite IH. split; [intros H; constructor; [cbn; intros [Hx _]; now apply Hn | exact H] | intros H; now inversion H].
Qed.

(* ------------------------------------------------------------------ rewind_requests *)
(** a saved request restarts at the retransmission cursor of its filter index, if there is one *)
Definition rewind (retr : list (N * cursor)) (rq : drequest) : drequest :=
  match al_get N.eqb (dr_idx rq) retr with
  | Some cu => set_dr_cursor rq cu
  | None => rq
  end.

Lemma rewind_requests_spec rqs : forall retr gs rqs' gs',
  rewind_requests rqs retr gs = Ok (rqs', gs') -> rqs' = map (rewind retr) rqs.
Proof.
  induction rqs as [| rq r IH]; intros retr gs rqs' gs' H; cbn [rewind_requests map] in *.
  - okinv. reflexivity.
  - unfold rewind at 1. destruct (al_get N.eqb (dr_idx rq) retr) as [cu|].
    + okinv. all: f_equal; eapply IH; eauto.
    + okinv. f_equal; eapply IH; eauto.
Qed.

(* ------------------------------------------------------------------ handle_disconnection saves, handle_new_connection restores *)
Lemma push_out_links st k ns st' n : push_out st k ns = Ok (st', n) -> exists l, st' = set_r_links st l.
Proof. unfold push_out, link_get. intros H. okinv. eexists. reflexivity. Qed.

(** the session [handle_disconnection] leaves in the graveyard *)
Definition saved_session (st : rstate) (id : N) (conn : connection) (outg : outgoing) (trk : tracker) : option session :=
  if c_clean conn then None
  else Some {| ss_tracker := {| tr_id := tr_id trk;
                                tr_reqs := map (rewind (retransmission_map (o_inflight outg) []))
                                               (tr_reqs trk ++ snd (dl_clean (r_datalog st) id));
                                tr_status := Paused Busy |};
               ss_subs := c_subs conn;
               ss_pubrels := o_pubrels outg |}.

Lemma hdisc_saves st id reason st' conn outg trk :
  handle_disconnection st id reason = Ok st' ->
  slab_get (r_conns st) id = Some conn -> slab_get (r_obufs st) id = Some outg ->
  slab_get (r_trackers st) id = Some trk ->
  al_get str_eqb (tr_id trk) (r_graveyard st') = Some (saved_session st id conn outg trk) /\
  (forall c, c <> tr_id trk -> al_get str_eqb c (r_graveyard st') = al_get str_eqb c (r_graveyard st)).
Proof.
  intros H Hc Ho Ht. unfold handle_disconnection in H. rewrite Ho in H.
  match type of H with bind ?x _ = _ => destruct x as [st0 | |] eqn:E0 end; cbn [bind] in H; try discriminate.
  assert (Hl : exists l, st0 = set_r_links st l).
  { clear H. destruct reason as [rc|].
    - okinv. eapply push_out_links; eauto.
    - okinv. match goal with |- exists l, ?s = set_r_links ?s l => exists (r_links s); destruct s; reflexivity end. }
  destruct Hl as (l & ->). clear E0. rsimpl in H.
  unfold slab_remove in H. rewrite Hc, Ho, Ht in H.
  destruct (slab_get (r_ibufs st) id); [|discriminate].
  destruct (slab_get (r_acks st) id); [|discriminate].
  destruct (dl_clean (r_datalog st) id) as [dl q] eqn:Ed.
  unfold saved_session. rewrite Ed. cbn [snd].
  destruct (c_clean conn); cbn [negb] in H.
  - okinv. rsimpl. split.
    + now rewrite al_get_set_same by apply str_eqb_spec.
    + intros c Hn. rewrite al_get_set_other, al_get_remove_other by (auto using str_eqb_spec). reflexivity.
  - destruct (rewind_requests _ _ _) as [[rqs' gs] | |] eqn:Er; cbn [bind] in H; try discriminate.
    apply rewind_requests_spec in Er. subst rqs'. okinv. rsimpl. split.
    + now rewrite al_get_set_same by apply str_eqb_spec.
    + intros c Hn. rewrite al_get_set_other, al_get_remove_other by (auto using str_eqb_spec). reflexivity.
Qed.

Lemma commit_pubrels_spec pks : forall l,
  commit_pubrels l pks = {| a_committed := a_committed l ++ map APubRel pks; a_recorded := a_recorded l |}.
Proof.
  induction pks as [| k r IH]; intros l; cbn [commit_pubrels map].
  - rewrite app_nil_r. destruct l; reflexivity.
  - rewrite IH. cbn [a_committed a_recorded set_a_committed]. now rewrite <- app_assoc.
Qed.

Lemma try_ready_id dbg t why t' b : try_ready dbg t why = Ok (t', b) -> tr_reqs t' = tr_reqs t /\ tr_id t' = tr_id t.
Proof. unfold try_ready. intros H. okinv; auto. Qed.

(** the session a Connect resumes: only with clean = false and a saved one *)
Definition resumed_session (st1 : rstate) (conn : connection) : option session :=
  if c_clean conn then None
  else match al_get str_eqb (c_client conn) (r_graveyard st1) with
       | Some (Some ss) => Some ss
       | _ => None
       end.
Definition session_present (st1 : rstate) (conn : connection) : bool :=
  negb (c_clean conn) &&
  match al_get str_eqb (c_client conn) (r_graveyard st1) with Some (Some _) => true | _ => false end.

(** [c08_clean] / [c08_resume_state]: an admitted Connect ([st1] = state after the takeover step) *)
Lemma hnc_session st conn link st' st1 :
  handle_new_connection st conn link = Ok st' ->
  validate_clientid (c_client conn) = true -> takeover st (c_client conn) = Ok st1 ->
  (cf_max_connections (r_cfg st1) <=? slab_len (r_conns st1)) = false ->
  slab_ok (r_conns st1) -> slab_ok (r_obufs st1) -> slab_ok (r_acks st1) ->
  NoDup (map fst (r_graveyard st1)) ->
  let rs := resumed_session st1 conn in
  exists id conn' o' t',
    slab_get (r_conns st') id = Some conn' /\ slab_get (r_obufs st') id = Some o' /\
    get_tracker st' id = Ok t' /\
    slab_get (r_acks st') id =
      Some {| a_committed := AConnAck id (session_present st1 conn) :: map APubRel (o_pubrels o'); a_recorded := [] |} /\
    al_get str_eqb (c_client conn) (r_cmap st') = Some id /\
    c_client conn' = c_client conn /\ c_clean conn' = c_clean conn /\ o_client o' = c_client conn /\
    o_inflight o' = [] /\
    c_subs conn' = match rs with Some ss => ss_subs ss | None => c_subs conn end /\
    tr_reqs t' = match rs with Some ss => tr_reqs (ss_tracker ss) | None => [] end /\
    tr_id t' = match rs with Some ss => tr_id (ss_tracker ss) | None => c_client conn end /\
    o_pubrels o' = match rs with Some ss => ss_pubrels ss | None => [] end /\
    al_get str_eqb (c_client conn) (r_graveyard st') = None /\
    (forall c, c <> c_client conn -> al_get str_eqb c (r_graveyard st') = al_get str_eqb c (r_graveyard st1)).
Proof.
  intros H Hv Ht Hcap Hok1 Hok2 Hok3 Hnd rs. unfold handle_new_connection in H.
  rewrite Hv in H. cbn [negb] in H.
  match type of H with bind ?x _ = _ => change x with (takeover st (c_client conn)) in H end.
  rewrite Ht in H. cbn [bind] in H. rewrite Hcap in H.
  set (client := c_client conn) in *.
  set (saved := al_get str_eqb client (r_graveyard st1)) in *.
  set (fresh_t := {| tr_id := client; tr_reqs := []; tr_status := Paused Busy |}) in *.
  set (triple := if negb (c_clean conn)
                 then match saved with
                      | Some (Some ss) => (ss_tracker ss, set_c_subs conn (ss_subs ss), ss_pubrels ss)
                      | _ => (fresh_t, conn, [])
                      end
                 else (fresh_t, conn, [])) in H.
  assert (Htr : exists trk conn1 pubrels, triple = (trk, conn1, pubrels) /\
            c_client conn1 = client /\ c_clean conn1 = c_clean conn /\ c_will conn1 = c_will conn /\
            c_subs conn1 = match rs with Some ss => ss_subs ss | None => c_subs conn end /\
            tr_reqs trk = match rs with Some ss => tr_reqs (ss_tracker ss) | None => [] end /\
            tr_id trk = match rs with Some ss => tr_id (ss_tracker ss) | None => client end /\
            pubrels = match rs with Some ss => ss_pubrels ss | None => [] end).
  { unfold triple, rs, resumed_session. fold client. fold saved.
    destruct (c_clean conn) eqn:Ecl; cbn [negb].
    - do 3 eexists. split; [reflexivity|]. repeat split; auto.
    - destruct saved as [[ss|]|]; do 3 eexists; (split; [reflexivity|]); repeat split; auto. }
  destruct Htr as (trk & conn1 & pubrels & -> & Hc1 & Hc2 & Hc3 & Hc4 & Hr1 & Hr2 & Hr3).
  cbn beta iota in H.
  destruct (slab_insert (r_conns st1) (set_c_will conn1 None)) as [conns id] eqn:Ei1.
  destruct (slab_insert (r_ibufs st1) _) as [ibufs id_i] eqn:Ei2.
  destruct (slab_insert (r_obufs st1) _) as [obufs id_o] eqn:Ei3.
  destruct (slab_insert (r_acks st1) _) as [acks id_a] eqn:Ei4.
  destruct (slab_insert (r_trackers st1) trk) as [trackers id_t] eqn:Ei5.
  destruct ((id_i =? id) && (id_o =? id) && (id_a =? id) && (id_t =? id)) eqn:Eal; cbn [negb] in H; [|discriminate].
  apply andb_prop in Eal as [Eal E4]. apply andb_prop in Eal as [Eal E3]. apply andb_prop in Eal as [E1 E2].
  apply N.eqb_eq in E1, E2, E3, E4. subst id_i id_o id_a id_t.
  match type of H with bind (dbg_no_dups ?s id) _ = _ => set (st2 := s) in * end.
  destruct (dbg_no_dups st2 id) as [[] | |]; cbn [bind] in H; try discriminate.
  pose proof (slab_insert_get _ _ _ _ Hok1 Ei1) as G1.
  pose proof (slab_insert_get _ _ _ _ Hok2 Ei3) as G3.
  pose proof (slab_insert_get _ _ _ _ Hok3 Ei4) as G4.
  (* the reschedule: only the tracker's status and the ready queue change *)
  unfold reschedule in H.
  destruct (get_tracker st2 id) as [t2 | |] eqn:Eg; cbn [bind] in H; try discriminate.
  destruct (try_ready _ t2 SInit) as [[t3 woke] | |] eqn:Etr; cbn [bind] in H; try discriminate.
  apply try_ready_id in Etr as [Etr1 Etr2].
  assert (Ht2 : t2 = trk).
  { unfold get_tracker, st2 in Eg. rsimpl in Eg. destruct (slab_get trackers id) as [t|] eqn:Es; [|discriminate].
    injection Eg as ->. unfold slab_insert in Ei5. unfold slab_get in Es.
    destruct (sl_free (r_trackers st1)) as [| k fr]; injection Ei5 as <- <-; cbn [sl_items] in Es.
    - rewrite nthN_app_len in Es. now injection Es.
    - rewrite nthN_setN, N.eqb_refl in Es. destruct (nthN (sl_items (r_trackers st1)) k); [now injection Es | discriminate]. }
  subst t2.
  exists id, (set_c_will conn1 None), {| o_client := client; o_link := link; o_inflight := []; o_pubrels := pubrels; o_last := 0 |}, t3.
  assert (Hst' : r_conns st' = conns /\ r_obufs st' = obufs /\ r_acks st' = acks /\
                 r_cmap st' = al_set str_eqb client id (r_cmap st1) /\
                 r_graveyard st' = al_remove str_eqb client (r_graveyard st1) /\
                 get_tracker st' id = Ok t3).
  { destruct woke; okinv; unfold st2; rsimpl; repeat split; try reflexivity.
    all: unfold get_tracker; rsimpl; unfold get_tracker, st2 in Eg; rsimpl in Eg;
      destruct (slab_get trackers id) eqn:Es; try discriminate; now rewrite (slab_get_put_same _ _ _ _ Es). }
  destruct Hst' as (-> & -> & -> & -> & -> & Hgt).
  cbn [o_pubrels o_client o_inflight c_client c_clean c_subs set_c_will].
  rewrite commit_pubrels_spec in G4. cbn [a_committed a_recorded app] in G4.
  repeat split; auto; try congruence.
  - now rewrite al_get_set_same by apply str_eqb_spec.
  - now apply al_get_remove_same; [apply str_eqb_spec|].
  - intros c Hn. now apply al_get_remove_other; [apply str_eqb_spec|].
Qed.
