(** C08 (persistent sessions), lemma level: what [handle_disconnection] saves, what
    [handle_new_connection] restores, the retransmission map. *)
From Rumqtt Require Export Router.RetainedStore Router.Will.
From Coq Require Import ZifyBool ZifyN ZifyNat.

(* ------------------------------------------------------------------ retransmission_map *)
(** the cursor of the OLDEST (first) inflight entry of filter index [fidx] that carries one *)
Fixpoint first_cursor (infl : list (N * N * option cursor)) (fidx : N) : option cursor :=
  match infl with
  | [] => None
  | (_, f, c) :: r =>
      if f =? fidx then match c with Some cu => Some cu | None => first_cursor r fidx end
      else first_cursor r fidx
  end.

Lemma retransmission_map_acc infl : forall acc fidx,
  al_get N.eqb fidx (retransmission_map infl acc) =
  match al_get N.eqb fidx acc with Some c => Some c | None => first_cursor infl fidx end.
Proof.
  induction infl as [| [[pk f] c] r IH]; intros acc fidx; cbn [retransmission_map first_cursor].
  - destruct (al_get N.eqb fidx acc); reflexivity.
  - destruct (al_get N.eqb f acc) as [c0|] eqn:Ef; [|destruct c as [cu|]]; rewrite IH.
    + destruct (N.eqb_spec f fidx) as [-> | Hn]; [now rewrite Ef | reflexivity].
    + rewrite al_get_app. cbn [al_get]. destruct (N.eqb_spec f fidx) as [-> | Hn].
      * rewrite Ef, N.eqb_refl. reflexivity.
      * destruct (al_get N.eqb fidx acc); [reflexivity|].
        destruct (N.eqb_spec fidx f); [congruence | reflexivity].
    + destruct (N.eqb_spec f fidx) as [-> | Hn]; [now rewrite Ef | reflexivity].
Qed.

(** [retransmission_map_spec] *)
Lemma retransmission_map_spec infl fidx :
  al_get N.eqb fidx (retransmission_map infl []) = first_cursor infl fidx.
Proof. now rewrite retransmission_map_acc. Qed.

(** [first_cursor], declaratively: the entry is in the buffer, carries that cursor, and no
    earlier entry of the same filter index carries a cursor *)
Lemma first_cursor_some infl fidx cu :
  first_cursor infl fidx = Some cu <->
  exists pre pk post, infl = pre ++ (pk, fidx, Some cu) :: post /\
                      Forall (fun e => ~ (snd (fst e) = fidx /\ snd e <> None)) pre.
Proof.
  induction infl as [| [[pk f] c] r IH]; cbn [first_cursor].
  - split; [discriminate|]. intros (pre & pk & post & H & _). destruct pre; discriminate.
  - split.
    + destruct (N.eqb_spec f fidx) as [-> | Hn]; [destruct c as [c0|]|].
      * intros [= ->]. exists [], pk, r. split; [reflexivity | constructor].
      * intros H. apply IH in H as (pre & pk' & post & -> & Hf).
        exists ((pk, fidx, None) :: pre), pk', post. split; [reflexivity|]. constructor; [|exact Hf].
        cbn. intros [_ Hx]. now apply Hx.
      * intros H. apply IH in H as (pre & pk' & post & -> & Hf).
        exists ((pk, f, c) :: pre), pk', post. split; [reflexivity|]. constructor; [|exact Hf].
        cbn. intros [Hx _]. now apply Hn.
    + intros (pre & pk' & post & H & Hf). destruct pre as [| e pre].
      * cbn [app] in H. injection H as -> -> -> ->. now rewrite N.eqb_refl.
      * cbn [app] in H. injection H as <- ->. inversion Hf as [| ? ? He Hf']; subst. cbn [fst snd] in He.
        assert (Hr : first_cursor (pre ++ (pk', fidx, Some cu) :: post) fidx = Some cu) by (apply IH; eauto).
        destruct (N.eqb_spec f fidx) as [-> | Hn]; [|exact Hr].
        destruct c as [c0|]; [|exact Hr]. exfalso. apply He. split; [reflexivity | discriminate].
Qed.

Lemma first_cursor_none infl fidx :
  first_cursor infl fidx = None <-> Forall (fun e => ~ (snd (fst e) = fidx /\ snd e <> None)) infl.
Proof.
  induction infl as [| [[pk f] c] r IH]; cbn [first_cursor]; [split; [constructor | reflexivity]|].
  destruct (N.eqb_spec f fidx) as [-> | Hn]; [destruct c as [c0|]|].
  - split; [discriminate|]. intros H. inversion H as [| ? ? He _]; subst. exfalso. apply He. cbn. split; [reflexivity | discriminate].
  - rewrite IH. split; [intros H; constructor; [cbn; intros [_ Hx]; now apply Hx | exact H] | intros H; now inversion H].
  - rewrite IH. split; [intros H; constructor; [cbn; intros [Hx _]; now apply Hn | exact H] | intros H; now inversion H].
Qed.

(* ------------------------------------------------------------------ rewind_requests *)
(** a saved request restarts at the retransmission cursor of its filter index, if there is one *)
Definition rewind (retr : list (N * cursor)) (rq : drequest) : drequest :=
  match al_get N.eqb (dr_idx rq) retr with
  | Some cu => set_dr_cursor rq cu
  | None => rq
  end.

Lemma rewind_requests_spec rqs : forall retr gs rqs' gs',
  rewind_requests rqs retr gs = Ok (rqs', gs') -> rqs' = map (rewind retr) rqs.
Proof.
  induction rqs as [| rq r IH]; intros retr gs rqs' gs' H; cbn [rewind_requests map] in *.
  - okinv. reflexivity.
  - unfold rewind at 1. destruct (al_get N.eqb (dr_idx rq) retr) as [cu|].
    + okinv. all: f_equal; eapply IH; eauto.
    + okinv. f_equal; eapply IH; eauto.
Qed.
