(** C06 (f): [ack_device_data] flushes the committed acks in order to the connection's own
    link; over runs, for a live connection, drained ++ queued ++ pending only grows at the back
    (nothing dropped, duplicated, reordered, and nothing of another connection gets in). *)
From Coq Require Import ZArith ZifyBool ZifyN ZifyNat.
From Rumqtt Require Import Router.Model Router.RunDefs Router.WindowFrame Router.Window Router.WindowStep Router.WindowDisc Router.Acks.

(* ------------------------------------------------------------------ C06 (f): acks are flushed in order, each once *)
Definition pending (st : rstate) (id : N) : list ack :=
  match slab_get (r_acks st) id with Some l => a_committed l | None => [] end.
(** connection [id] is alive and owns link [k] *)
Definition alive (st : rstate) (id k : N) : Prop :=
  exists o, slab_get (r_obufs st) id = Some o /\ o_link o = k.
(** acks queued on the connection's link, followed by those committed and not yet flushed *)
Definition ackseq (st : rstate) (id k : N) : list ack := acks_of (out_of st k) ++ pending st id.

(** [ack_device_data] moves the whole committed list, in order, to the back of the connection's
    own link buffer and leaves it empty *)
Theorem ack_device_data_flush st id o st' l :
  ack_device_data st id o = Ok st' -> slab_get (r_acks st) id = Some l ->
  slab_get (r_acks st') id = Some (set_a_committed l []) /\
  (forall id', id' <> id -> slab_get (r_acks st') id' = slab_get (r_acks st) id') /\
  out_of st' (o_link o) = out_of st (o_link o) ++ map NAck (a_committed l) /\
  (forall k, k <> o_link o -> out_of st' k = out_of st k) /\
  r_obufs st' = r_obufs st.
Proof.
  intros H G. apply ack_device_data_spec in H as (l0 & G0 & A & _ & _ & B & C).
  rewrite G in G0. inversion G0; subst l0. rewrite B. repeat split.
  - eapply slab_get_put_occ; eauto.
  - intros id' Hne. apply slab_get_put_other. congruence.
  - rewrite C. now replace (o_link o =? o_link o) with true by lia.
  - intros k Hne. rewrite C. replace (k =? o_link o) with false by lia. apply app_nil_r.
  - exact A.
Qed.

Lemma pending_acks_at id st st' added : acks_at id st st' added -> pending st' id = pending st id ++ added.
Proof.
  intros [_ A]. unfold pending. destruct (slab_get (r_acks st) id) as [l |].
  - destruct A as (l' & -> & E). exact E.
  - destruct A as [-> ->]. reflexivity.
Qed.

Lemma step_links_mono st op st' out : step st op = Ok (st', out) -> lenN (r_links st) <= lenN (r_links st').
Proof.
  unfold step. intros H. destruct op.
  - apply bind_ok in H as (st2 & H2 & H). inv_ok. apply handle_new_connection_inv in H2 as (L & _).
    rewrite L. rsimpl. rewrite lenN_snoc. lia.
  - destruct (nthN (r_links st) link); inv_ok; rsimpl; rewrite ?lenN_setN; lia.
  - apply bind_ok in H as (st1 & H1 & H). inv_ok. apply handle_device_payload_obs in H1 as (_ & _ & C). lia.
  - apply bind_ok in H as ([st1 b] & H1 & H). inv_ok. apply consume_obs in H1 as [_ C]. lia.
  - destruct (nthN (r_links st) link); inv_ok; rsimpl; rewrite ?lenN_setN; lia.
  - destruct (slab_get (r_trackers st) id); [| inv_ok; lia].
    apply bind_ok in H as (st1 & H1 & H). inv_ok. apply reschedule_keep in H1. rewrite (keep_links _ _ H1). lia.
  - apply bind_ok in H as (st1 & H1 & H). inv_ok. apply handle_disconnection_obs in H1 as (_ & _ & C & _). lia.
  - apply bind_ok in H as (st1 & H1 & H). inv_ok. apply retrieve_shadow_obs in H1 as (_ & _ & _ & C). lia.
  - apply bind_ok in H as (st1 & H1 & H). inv_ok. apply handle_last_will_keep in H1. rewrite (keep_links _ _ H1). lia.
  - inv_ok. lia.
Qed.

(** a connection alive after a step on an already existing link was alive on it before *)
Lemma step_alive_back st op st' out id k :
  step st op = Ok (st', out) -> alive st' id k -> k < lenN (r_links st) -> alive st id k.
Proof.
  intros H (o' & G' & <-) Hk.
  assert (SUB : obs_sub st st' -> alive st id (o_link o')).
  { intros S. apply S in G' as (o & G & OS). apply ostep_link in OS as [OS _]. exists o. split; [exact G | congruence]. }
  unfold step in H. destruct op.
  - apply bind_ok in H as (st2 & H2 & H). inv_ok.
    apply handle_new_connection_frame in H2 as (st1 & H1 & H2).
    assert (S1 : obs_sub st st1).
    { destruct H1 as [-> | (cid & H1)]; [now apply obs_sub_eq |].
      apply handle_disconnection_obs in H1 as (A & _). apply obs_at_sub in A. exact A. }
    destruct H2 as [-> | (id1 & pubrels & sp & E1 & _ & _)]; [now apply SUB |].
    destruct (slab_insert_inv _ _ _ _ _ _ E1 G') as [[-> ->] | [Hne G1]].
    + cbn [o_link] in Hk. lia.
    + apply S1 in G1 as (o & G & OS). apply ostep_link in OS as [OS _]. exists o. split; [exact G | congruence].
  - apply SUB. destruct (nthN (r_links st) link); inv_ok; now apply obs_sub_eq.
  - apply SUB. apply bind_ok in H as (st1 & H1 & H). inv_ok. apply handle_device_payload_obs in H1 as (A & _).
    eapply obs_at_sub; eauto.
  - apply SUB. apply bind_ok in H as ([st1 b] & H1 & H). inv_ok. now apply consume_obs in H1.
  - apply SUB. destruct (nthN (r_links st) link); inv_ok; now apply obs_sub_eq.
  - apply SUB. destruct (slab_get (r_trackers st) id0); [| inv_ok; now apply obs_sub_eq].
    apply bind_ok in H as (st1 & H1 & H). inv_ok. apply reschedule_keep in H1. apply obs_sub_eq. now apply keep_obufs.
  - apply SUB. apply bind_ok in H as (st1 & H1 & H). inv_ok. apply handle_disconnection_obs in H1 as (A & _).
    eapply obs_at_sub; eauto.
  - apply SUB. apply bind_ok in H as (st1 & H1 & H). inv_ok. apply retrieve_shadow_obs in H1 as (A & _).
    now apply obs_sub_eq.
  - apply SUB. apply bind_ok in H as (st1 & H1 & H). inv_ok. apply handle_last_will_keep in H1.
    apply obs_sub_eq. now apply keep_obufs.
  - apply SUB. inv_ok. now apply obs_sub_eq.
Qed.

(** what an [OpDrain] of link [k] hands to the network *)
Definition drained_of (k : N) (op : rop) (out : rout) : list notification :=
  match op, out with
  | OpDrain k', OutDrain d => if k' =? k then d else []
  | _, _ => []
  end.

Lemma ackseq_quiet st st' id k new :
  out_quiet st st' -> pending st' id = pending st id ++ new -> ackseq st' id k = ackseq st id k ++ new.
Proof.
  intros Q P. unfold ackseq. destruct (Q k) as (added & -> & C). apply ctl_quiet in C as [_ C].
  rewrite acks_of_app, C, app_nil_r, P, app_assoc. reflexivity.
Qed.

Lemma pending_eq st st' id : slab_get (r_acks st') id = slab_get (r_acks st) id -> pending st' id = pending st id ++ [].
Proof. intros E. unfold pending. rewrite E. now rewrite app_nil_r. Qed.

(** one step extends [drained ++ queued ++ pending] of a live connection at the back only; only
    a [DeviceData] event of the connection itself adds anything *)
Lemma step_ackseq st op st' out id k :
  LinkInv st -> step st op = Ok (st', out) -> alive st id k -> alive st' id k ->
  exists new,
    acks_of (drained_of k op out) ++ ackseq st' id k = ackseq st id k ++ new /\
    (new = [] \/ op = OpData id).
Proof.
  intros LI H (o & G & <-) (o' & G' & L'). set (k := o_link o) in *.
  assert (QUIET : forall new, drained_of k op out = [] -> out_quiet st st' -> pending st' id = pending st id ++ new ->
            (new = [] \/ op = OpData id) ->
            exists new, acks_of (drained_of k op out) ++ ackseq st' id k = ackseq st id k ++ new /\ (new = [] \/ op = OpData id)).
  { intros new D Q P C. exists new. rewrite D. cbn [acks_of app]. split; [now apply ackseq_quiet | exact C]. }
  unfold step in H. destruct op.
  - (* connect *)
    apply bind_ok in H as (st2 & H2 & H). inv_ok.
    pose proof (handle_new_connection_inv _ _ _ _ H2) as (LK & _).
    apply handle_new_connection_frame in H2 as (st1 & H1 & H2).
    apply (QUIET []); [reflexivity | | | now left].
    + apply out_quiet_out. intros k'. unfold out_of at 1. rewrite LK. apply out_of_snoc_empty.
    + apply pending_eq.
      assert (A1 : slab_get (r_obufs st1) id <> None -> slab_get (r_acks st1) id = slab_get (r_acks st) id).
      { destruct H1 as [-> | (cid & H1)]; [reflexivity |]. intros NN.
        apply handle_disconnection_others in H1 as [D1 D2]. destruct (N.eq_dec id cid) as [-> | Hne]; [contradiction |].
        destruct (D2 id Hne) as (_ & _ & _ & E & _). exact E. }
      destruct H2 as [-> | (id1 & pubrels & sp & E1 & E2 & _)].
      * apply A1. rewrite G'. discriminate.
      * destruct (slab_insert_inv _ _ _ _ _ _ E1 G') as [[-> ->] | [Hne G1]].
        -- exfalso. destruct LI as [LI1 _]. specialize (LI1 _ _ G). cbn [o_link] in *. lia.
        -- rewrite (slab_insert_get _ _ _ _ id E2). replace (id =? id1) with false by lia.
           apply A1. rewrite G1. discriminate.
  - (* push *)
    destruct (nthN (r_links st) link) as [b |] eqn:Hb; inv_ok.
    + apply (QUIET []); [reflexivity | | now apply pending_eq | now left].
      apply out_quiet_out. intros k'. now apply link_put_in_out.
    + apply (QUIET []); [reflexivity | now apply out_quiet_eq | now apply pending_eq | now left].
  - (* device data *)
    apply bind_ok in H as (st1 & H1 & H). inv_ok.
    pose proof (handle_device_payload_obs _ _ _ H1) as (_ & Q & _).
    apply handle_device_payload_acks in H1 as [A1 A2].
    destruct (N.eq_dec id0 id) as [-> | Hne].
    + destruct A2 as (added & A2); [rewrite G'; discriminate |].
      apply (QUIET added); [reflexivity | exact Q | now apply pending_acks_at | now right].
    + apply (QUIET []); [reflexivity | exact Q | apply pending_eq; apply A1; congruence | now left].
  - (* consume *)
    apply bind_ok in H as ([st1 b] & H1 & H). inv_ok. exists []. split; [| now left]. cbn [drained_of acks_of app].
    rewrite app_nil_r.
    apply consume_delta in H1 as [K | (id0 & rest & o0 & l0 & st3 & _ & G0 & GA & A & _ & _ & B & O3 & C)].
    + unfold ackseq, pending. now rewrite (keep_out_of _ _ k K), (keep_acks _ _ K).
    + destruct C as (_ & CA & _ & _ & C). assert (G3 : slab_get (r_obufs st3) id0 = Some o0) by (now rewrite A).
      destruct (C o0 G3) as (o1 & added & _ & _ & O' & QA & _).
      unfold ackseq, pending. rewrite O', O3, CA, B, !acks_of_app.
      destruct (N.eq_dec id0 id) as [-> | Hne].
      * rewrite G in G0. inversion G0; subst o0. replace (k =? o_link o) with true by (subst k; lia).
        rewrite (slab_get_put_occ _ _ _ _ GA), GA, QA, acks_of_map_NAck. cbn [a_committed set_a_committed].
        now rewrite !app_nil_r.
      * assert (o_link o0 <> k) by (intros E; destruct LI as [_ LI2]; apply Hne; eapply LI2; eauto).
        replace (k =? o_link o0) with false by lia. cbn [acks_of]. rewrite !app_nil_r.
        rewrite slab_get_put_other by exact Hne. reflexivity.
  - (* drain *)
    destruct (nthN (r_links st) link) as [b |] eqn:Hb; inv_ok.
    + exists []. split; [| now left]. cbn [drained_of]. rewrite app_nil_r. unfold ackseq, pending, out_of. rsimpl.
      destruct (link =? k) eqn:E.
      * assert (link = k) by lia. subst link. rewrite nthN_setN_same, Hb. cbn [lk_out set_lk_out acks_of app]. reflexivity.
      * rewrite nthN_setN_other by lia. reflexivity.
    + exists []. split; [| now left]. cbn [drained_of acks_of app]. now rewrite app_nil_r.
  - (* ready *)
    destruct (slab_get (r_trackers st) id0); [| inv_ok; apply (QUIET []); [reflexivity | now apply out_quiet_eq | now apply pending_eq | now left]].
    apply bind_ok in H as (st1 & H1 & H). inv_ok. apply reschedule_keep in H1.
    apply (QUIET []); [reflexivity | apply out_quiet_eq; now apply keep_links | apply pending_eq; now rewrite (keep_acks _ _ H1) | now left].
  - (* disconnect *)
    apply bind_ok in H as (st1 & H1 & H). inv_ok. pose proof (handle_disconnection_obs _ _ _ _ H1) as (_ & Q & _).
    apply handle_disconnection_others in H1 as [D1 D2].
    destruct (N.eq_dec id id0) as [-> | Hne]; [congruence |].
    destruct (D2 id Hne) as (_ & _ & _ & E & _).
    apply (QUIET []); [reflexivity | exact Q | now apply pending_eq | now left].
  - (* shadow *)
    apply bind_ok in H as (st1 & H1 & H). inv_ok. apply retrieve_shadow_obs in H1 as (_ & A & Q & _).
    apply (QUIET []); [reflexivity | exact Q | apply pending_eq; now rewrite A | now left].
  - (* will *)
    apply bind_ok in H as (st1 & H1 & H). inv_ok. apply handle_last_will_keep in H1.
    apply (QUIET []); [reflexivity | apply out_quiet_eq; now apply keep_links | apply pending_eq; now rewrite (keep_acks _ _ H1) | now left].
  - inv_ok. apply (QUIET []); [reflexivity | now apply out_quiet_eq | now apply pending_eq | now left].
Qed.

Lemma step_with_step st orc op st' out :
  step_with st orc op = Ok (st', out) -> step (set_r_oracle st orc) op = Ok (st', out).
Proof.
  unfold step_with. intros H. apply bind_ok in H as ([st1 out1] & H1 & H).
  destruct (r_oracle st1); [| discriminate]. now inv_ok.
Qed.

Lemma step_with_ackseq st orc op st' out id k :
  LinkInv st -> step_with st orc op = Ok (st', out) -> alive st id k -> alive st' id k ->
  exists new,
    acks_of (drained_of k op out) ++ ackseq st' id k = ackseq st id k ++ new /\
    (new = [] \/ op = OpData id).
Proof.
  intros LI H A A'. apply step_with_step in H.
  exact (step_ackseq (set_r_oracle st orc) op st' out id k LI H A A').
Qed.

(** [run], also collecting what the [OpDrain]s of link [k] hand to the network *)
Fixpoint run_drained (k : N) (st : rstate) (ops : list (list oracle * rop)) : R (rstate * list notification) :=
  match ops with
  | [] => Ok (st, [])
  | (orc, o) :: r =>
      match step_with st orc o with
      | Ok (st1, out) =>
          match run_drained k st1 r with
          | Ok (st2, d) => Ok (st2, drained_of k o out ++ d)
          | Err e => Err e
          | Panic t => Panic t
          end
      | Err e => Err e
      | Panic t => Panic t
      end
  end.

Lemma run_drained_run k ops : forall st st' d, run_drained k st ops = Ok (st', d) -> run st ops = Ok st'.
Proof.
  induction ops as [| [orc o] r IH]; intros st st' d H; cbn [run_drained run] in *; [now inv_ok |].
  destruct (step_with st orc o) as [[st1 out] | |]; try discriminate.
  destruct (run_drained k st1 r) as [[st2 d2] | |] eqn:E; try discriminate. inv_ok. eapply IH; eauto.
Qed.
Lemma run_run_drained k ops : forall st st', run st ops = Ok st' -> exists d, run_drained k st ops = Ok (st', d).
Proof.
  induction ops as [| [orc o] r IH]; intros st st' H; cbn [run_drained run] in *; [inv_ok; eauto |].
  destruct (step_with st orc o) as [[st1 out] | |]; try discriminate.
  apply IH in H as (d & ->). eauto.
Qed.

Lemma step_with_links_mono st orc op st' out :
  step_with st orc op = Ok (st', out) -> lenN (r_links st) <= lenN (r_links st').
Proof. intros H. apply step_with_step in H. apply step_links_mono in H. exact H. Qed.

Lemma step_with_alive_back st orc op st' out id k :
  step_with st orc op = Ok (st', out) -> alive st' id k -> k < lenN (r_links st) -> alive st id k.
Proof. intros H A Hk. apply step_with_step in H. exact (step_alive_back _ _ _ _ _ _ H A Hk). Qed.

Lemma run_alive_back k0 ops : forall st st' d id k,
  run_drained k0 st ops = Ok (st', d) -> alive st' id k -> k < lenN (r_links st) -> alive st id k.
Proof.
  induction ops as [| [orc o] r IH]; intros st st' d id k H A Hk; cbn [run_drained] in H; [now inv_ok |].
  destruct (step_with st orc o) as [[st1 out] | |] eqn:E; try discriminate.
  destruct (run_drained k0 st1 r) as [[st2 d2] | |] eqn:E2; try discriminate. inv_ok.
  pose proof (step_with_links_mono _ _ _ _ _ E).
  eapply step_with_alive_back; [exact E | | exact Hk]. eapply IH; [exact E2 | exact A | lia].
Qed.

(** C06 (f) over runs.  For a connection [id] alive on link [k] at both ends of a run: the acks
    handed to the network on [k] during the run, followed by those still queued on the link and
    those committed but not yet flushed, are what was queued + pending at the start followed by
    the acks registered since -- nothing is dropped, duplicated or reordered. *)
Theorem ackseq_run ops : forall st st' d id k,
  LinkInv st -> run_drained k st ops = Ok (st', d) -> alive st id k -> alive st' id k ->
  exists new, acks_of d ++ ackseq st' id k = ackseq st id k ++ new.
Proof.
  induction ops as [| [orc o] r IH]; intros st st' d id k LI H A A'; cbn [run_drained] in H.
  - inv_ok. exists []. now rewrite app_nil_r.
  - destruct (step_with st orc o) as [[st1 out] | |] eqn:E; try discriminate.
    destruct (run_drained k st1 r) as [[st2 d2] | |] eqn:E2; try discriminate. inv_ok.
    assert (Hk : k < lenN (r_links st)) by (destruct A as (ob & G & <-); destruct LI as [LI1 _]; eauto).
    pose proof (step_with_links_mono _ _ _ _ _ E) as M.
    assert (A1 : alive st1 id k) by (eapply run_alive_back; [exact E2 | exact A' | lia]).
    assert (LI1 : LinkInv st1) by (apply step_with_inv in E; tauto).
    destruct (step_with_ackseq _ _ _ _ _ _ _ LI E A A1) as (n1 & S1 & _).
    destruct (IH _ _ _ _ _ LI1 E2 A1 A') as (n2 & S2).
    exists (n1 ++ n2). rewrite acks_of_app, <- app_assoc, S2, !app_assoc, S1. reflexivity.
Qed.

Theorem c06_flush_in_order_thm cfg st ops st' d id k :
  reachable cfg st -> run_drained k st ops = Ok (st', d) -> alive st id k -> alive st' id k ->
  exists new, acks_of d ++ ackseq st' id k = ackseq st id k ++ new.
Proof. intros R. apply ackseq_run. eapply reachable_LinkInv; eauto. Qed.

(** the acks a [DeviceData] event adds to the pending list are those registered for the
    packets of the batch, in the order received *)
Lemma handle_device_payload_batch st id st' inc b :
  handle_device_payload st id = Ok st' ->
  slab_get (r_ibufs st) id = Some inc -> nthN (r_links st) (i_link inc) = Some b ->
  exists added,
    batch_acks id (i_client inc) (link_put st (i_link inc) (set_lk_in b [])) flags0 (lk_in b) added /\
    (slab_get (r_obufs st') id <> None -> acks_at id st st' added).
Proof.
  unfold handle_device_payload, link_get. intros H G Hb. rewrite G, Hb in H. cbn [bind] in H.
  apply bind_ok in H as ([st1 fl] & H1 & H). apply bind_ok in H as (st2 & H2 & H).
  apply bind_ok in H as (st3 & H3 & H).
  apply handle_packets_registered in H1 as (added & A & B). exists added. split; [exact B |].
  assert (K2 : keep st2 = keep st1) by (destruct (f_force_ack fl); [now apply reschedule_keep in H2 | now inv_ok]).
  assert (K3 : keep st3 = keep st2) by (destruct (f_new_data fl); [now apply drain_notifications_keep in H3 | now inv_ok]).
  assert (A3 : acks_at id st st3 added).
  { eapply acks_at_acks; [| exact A]. rewrite (keep_acks _ _ K3), (keep_acks _ _ K2). reflexivity. }
  destruct (f_disconnect fl).
  - apply handle_disconnection_others in H as [D1 _]. intros C. contradiction.
  - inv_ok. intros _. exact A3.
Qed.
