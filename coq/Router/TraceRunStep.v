(** C01 at the level of whole runs — [DI] through every op and along every run from [init]. *)
From Rumqtt Require Import Router.NoPanicLog.
From Rumqtt Require Import Router.Model Router.InvLemmasBase Router.Inv Router.InvLemmasPrim Router.InvLemmasSched
  Router.InvLemmasDl Router.InvLemmasRoute Router.InvLemmasConn Router.InvLemmasPkt Router.InvLemmasConsume
  Router.NoPanic Router.NoPanicDevBase Router.NoPanicDevInv Router.NoPanicDev1 Router.NoPanicDev2 Router.NoPanicDev3 Router.NoPanicDev4.
From Rumqtt Require Import Router.ExactLoc1 Router.ExactLoc2 Router.ExactLoc3.
From Rumqtt Require Import Log.Proofs Router.ExactLog.
From Rumqtt Require Import Router.WindowFrame Router.Window Router.WindowStep Router.DataLogInv Router.DataLogStep
                           Router.ExactInv Router.ExactStep1 Router.ExactStep2 Router.ExactStep3 Router.ExactLogs
                           Router.ExactSweep Router.ExactThm.
From Rumqtt Require Import Router.TraceRun Router.TraceRunHeld Router.TraceRunInv Router.TraceRunPkt Router.TraceRunSweep Router.TraceRunBound.
From Rumqtt Require Import Router.Model Router.RunDefs.
From Coq Require Import List ZifyBool ZifyN ZifyNat.
Import ListNotations.

(* ------------------------------------------------------------------ a new connection *)
Lemma conn_ghost_none st client link :
  (forall id o, slab_get (r_obufs st) id = Some o -> o_link o < link) -> conn_ghost st client link = [].
Proof.
  intros H. unfold conn_ghost. destruct (al_get str_eqb client (r_cmap st)) as [id|]; [|reflexivity].
  destruct (slab_get (r_obufs st) id) as [o|] eqn:E; [|reflexivity].
  destruct (slab_get (r_trackers st) id); [|reflexivity]. specialize (H _ _ E).
  destruct (N.eqb_spec (o_link o) link); [lia|reflexivity].
Qed.

Lemma aligned_wf {A B} (s1 : slab A) (s2 : slab B) : aligned s1 s2 -> slab_wf s1 -> slab_wf s2.
Proof. intros [Hs Hf] [H1 H2]. unfold slab_wf. rewrite <- Hs, <- Hf. auto. Qed.

Definition mkres (id link : N) (client : str) (rq : drequest) : dev :=
  (id, (link, dr_filter rq, dr_idx rq), KRes client (snd (dr_cursor rq))).

Lemma ktrace_res_events K id link client (l : list drequest) :
  Forall (fun a => is_res a = true) (ktrace K (map (mkres id link client) l)).
Proof.
  induction l as [|rq l IH]; cbn [map]; [constructor|]. unfold mkres at 1.
  destruct (dkey_dec K (link, dr_filter rq, dr_idx rq)) as [-> | Hne].
  - rewrite ktrace_cons_same by reflexivity. constructor; [reflexivity|exact IH].
  - rewrite ktrace_cons_other by exact Hne. exact IH.
Qed.

Lemma ktrace_res_other K id link client (l : list drequest) :
  fst (fst K) <> link -> ktrace K (map (mkres id link client) l) = [].
Proof.
  intros Hne. induction l as [|rq l IH]; cbn [map]; [reflexivity|]. unfold mkres at 1. rewrite ktrace_cons_other; [exact IH|].
  intros ->. apply Hne. reflexivity.
Qed.

(** at most one marker per key when the restored requests have pairwise different filters *)
Lemma ktrace_res_len id link client f i (l : list drequest) :
  (length (ktrace (link, f, i) (map (mkres id link client) l)) <= cnt f l)%nat.
Proof.
  induction l as [|rq l IH]; cbn [map]; [cbn; lia|]. unfold mkres at 1. rewrite cnt_cons. unfold fmatch.
  destruct (dkey_dec (link, f, i) (link, dr_filter rq, dr_idx rq)) as [E | Hne].
  - inversion E as [[Ef Ei]]. subst f i. rewrite ktrace_cons_same by reflexivity. rewrite str_eqb_refl. cbn [length]. lia.
  - rewrite ktrace_cons_other by exact Hne. lia.
Qed.

Lemma cnt_filter_le f (g : drequest -> bool) l : (cnt f (filter g l) <= cnt f l)%nat.
Proof.
  induction l as [|x l IH]; [cbn; lia|]. cbn [filter]. destruct (g x); rewrite ?cnt_cons; lia.
Qed.

Lemma cnt_le1_eq f l r1 r2 :
  (cnt f l <= 1)%nat -> In r1 l -> In r2 l -> dr_filter r1 = f -> dr_filter r2 = f -> r1 = r2.
Proof.
  induction l as [|x l IH]; intros Hc H1 H2 F1 F2; [destruct H1|]. rewrite cnt_cons in Hc. unfold fmatch in Hc.
  destruct H1 as [<- | H1], H2 as [<- | H2]; [reflexivity| | |].
  - rewrite F1, str_eqb_refl in Hc. pose proof (TraceRunInv.cnt_in _ _ H2) as X. rewrite F2 in X. lia.
  - rewrite F2, str_eqb_refl in Hc. pose proof (TraceRunInv.cnt_in _ _ H1) as X. rewrite F1 in X. lia.
  - apply IH; auto. destruct (str_eqb (dr_filter x) f); lia.
Qed.

Lemma ktrace_fresh tr link f i :
  (forall id k f i a, In (id, (k, f, i), a) tr -> k < link) -> ktrace (link, f, i) tr = [].
Proof.
  intros Hfresh. destruct (ktrace (link, f, i) tr) as [|x l] eqn:E; [reflexivity|].
  assert (Hin : In x (ktrace (link, f, i) tr)) by (rewrite E; now left).
  apply ktrace_In in Hin as (_ & id0 & Hin). specialize (Hfresh _ _ _ _ _ Hin). lia.
Qed.

Lemma disc_ghost_link st id st' id0 k f i a :
  In (id0, (k, f, i), a) (disc_ghost st id st') -> exists o, slab_get (r_obufs st) id = Some o /\ k = o_link o.
Proof.
  unfold disc_ghost. destruct (slab_get (r_obufs st) id) as [o|]; [|intros []].
  destruct (slab_get (r_trackers st) id) as [t|]; [|intros []]. destruct (slab_get (r_conns st) id) as [c|]; [|intros []].
  destruct (c_clean c); [intros []|]. destruct (al_get str_eqb (tr_id t) (r_graveyard st')) as [[ss|]|]; try (intros []).
  intros Hin. apply in_map_iff in Hin as (rq & E & _). inversion E; subst. eauto.
Qed.

(** the new connection gets a link number no event carries yet; each non-shared request its
    restored session brings gets the resume marker under the new key; a live connection of the
    same client is closed first (its end markers come first) *)
Lemma handle_new_connection_di cfg st conn link st' tr :
  RInvC cfg st -> r_notif st = [] -> DevEI st -> CInv st -> LinkInv st -> link < lenN (r_links st) ->
  (forall id k f i a, In (id, (k, f, i), a) tr -> k < link) ->
  (forall id o, slab_get (r_obufs st) id = Some o -> o_link o < link) ->
  DI st [] tr -> BI st ->
  handle_new_connection st conn link = Ok st' ->
  DI st' [] (tr ++ take_ghost st (c_client conn) ++ conn_ghost st' (c_client conn) link).
Proof.
  intros HR Hn HD HI HL Hlk Hfresh0 Hlinks HDI0 HBI0 H.
  destruct (handle_new_connection_cinv _ _ _ _ HI H) as [HI' _].
  unfold handle_new_connection in H. unfold take_ghost.
  destruct (validate_clientid (c_client conn)); cbn [negb] in H.
  2:{ inv_ok. rewrite conn_ghost_none by exact Hlinks. now rewrite !app_nil_r. }
  apply bind_ok in H as (st1 & H1 & H).
  set (tg := match al_get str_eqb (c_client conn) (r_cmap st) with
             | Some cid => match handle_disconnection st cid None with Ok s => disc_ghost st cid s | _ => [] end
             | None => [] end).
  assert (X1 : RInvC cfg st1 /\ r_notif st1 = [] /\ DevEI st1 /\ CInv st1 /\ DI st1 [] (tr ++ tg) /\ BI st1 /\
               lenN (r_links st1) = lenN (r_links st) /\
               (forall id o, slab_get (r_obufs st1) id = Some o -> o_link o < link) /\
               (forall id k f i a, In (id, (k, f, i), a) (tr ++ tg) -> k < link)).
  { unfold tg. destruct (al_get str_eqb (c_client conn) (r_cmap st)) as [cid|].
    2:{ inv_ok. rewrite app_nil_r. auto 10. }
    rewrite H1.
    destruct (wp_ok_inv _ _ _ _ (handle_disconnection_spec cfg st cid None HR Hn) H1) as (A & B & _ & _).
    pose proof (wpd_ok_inv _ _ _ (handle_disconnection_loc cfg st cid None HR Hn HD) H1) as HD1.
    destruct (handle_disconnection_cinv _ _ _ _ HI H1) as [HI1 L1].
    destruct (handle_disconnection_obs _ _ _ _ H1) as (Ob & _ & EL & _).
    split; [exact A|]. split; [exact B|]. split; [exact HD1|]. split; [exact HI1|].
    split; [eapply handle_disconnection_di; eassumption|]. split; [exact (disc_bi _ _ _ _ _ HI HDI0 HBI0 H1)|]. split; [exact EL|]. split.
    - intros id o Ho. destruct (obs_at_sub _ _ _ Ob _ _ Ho) as (o0 & Ho0 & Hs). apply ostep_link in Hs as [Hs _].
      rewrite Hs. eapply Hlinks; exact Ho0.
    - intros id k f i a Hin. apply in_app_or in Hin as [Hin | Hin]; [eapply Hfresh0; exact Hin|].
      destruct (disc_ghost_link _ _ _ _ _ _ _ _ Hin) as (o & Ho & ->). eapply Hlinks; exact Ho. }
  destruct X1 as (HR1 & Hn1 & HD1 & HI1 & HDI1 & HBI1 & EL1 & Hlinks1 & Hfresh). clear H1 HI HDI0 HBI0 HR Hn Hlinks HD Hfresh0 HL.
  rewrite app_assoc. remember (tr ++ tg) as trx eqn:Etrx.
  enough (X : DI st' [] (trx ++ conn_ghost st' (c_client conn) link)) by (rewrite Etrx in X; exact X). clear Etrx.
  destruct (cf_max_connections (r_cfg st1) <=? slab_len (r_conns st1)).
  { inv_ok. rewrite conn_ghost_none by exact Hlinks1. now rewrite app_nil_r. }
  match type of H with (match ?X with _ => _ end) = _ => destruct X as [[trk conn1] pubrels] eqn:EX end.
  (* the restored requests have pairwise different filters *)
  assert (Huq : forall f, (cnt f (tr_reqs trk) <= 1)%nat).
  { intros f. destruct (negb (c_clean conn)).
    - destruct (al_get str_eqb (c_client conn) (r_graveyard st1)) as [[ss|]|] eqn:Es; inv_ok; cbn [tr_reqs]; try (cbn; lia).
      apply al_get_In in Es. pose proof (de_grave _ _ HD1) as G. rewrite Forall_forall in G. specialize (G _ Es f).
      unfold okE in G. cbn [snd] in G. destruct (set_mem str_eqb f (ss_subs ss)); lia.
    - inv_ok. cbn. lia. }
  (* ... and cursors that are not ahead of their logs *)
  assert (HGB : forall rq, In rq (tr_reqs trk) -> dr_group rq = None -> CurB (r_datalog st1) (dr_idx rq) (dr_cursor rq)).
  { intros rq Hrq Hg. destruct (negb (c_clean conn)).
    - destruct (al_get str_eqb (c_client conn) (r_graveyard st1)) as [[ss|]|] eqn:Es; inv_ok; cbn [tr_reqs] in Hrq; try destruct Hrq.
      apply al_get_In in Es. exact (proj1 HBI1 _ _ Es _ Hrq Hg).
    - inv_ok. destruct Hrq. }
  destruct (slab_insert (r_conns st1) (set_c_will conn1 None)) as [conns id] eqn:Ic.
  destruct (slab_insert (r_ibufs st1) _) as [ibufs id_i] eqn:Ii.
  destruct (slab_insert (r_obufs st1) _) as [obufs id_o] eqn:Io.
  destruct (slab_insert (r_acks st1) _) as [acks id_a] eqn:Ia.
  destruct (slab_insert (r_trackers st1) trk) as [trackers id_t] eqn:It.
  match type of H with (if ?b then _ else _) = _ => destruct b eqn:Eal end; [discriminate|].
  apply negb_false_iff in Eal. repeat (apply andb_true_iff in Eal as [Eal ?]).
  repeat match goal with E : (_ =? _) = true |- _ => apply N.eqb_eq in E end. subst id_i id_o id_a id_t.
  apply bind_ok in H as (u & _ & H).
  match type of H with reschedule ?s id SInit = _ => set (st2 := s) in * end.
  (* the slot was vacant; the new Outgoing and tracker are in place *)
  destruct (insert_spec _ _ _ _ (ri_wf _ _ HR1) Ic) as (Hvac & _).
  destruct (insert_spec _ _ _ _ (aligned_wf _ _ (ri_al_o _ _ HR1) (ri_wf _ _ HR1)) Io) as (_ & Ho2 & _).
  destruct (insert_spec _ _ _ _ (aligned_wf _ _ (ri_al_t _ _ HR1) (ri_wf _ _ HR1)) It) as (_ & Ht2 & _).
  (* the state after the final reschedule *)
  assert (F : r_cmap st' = r_cmap st2 /\ r_obufs st' = r_obufs st2 /\ r_datalog st' = r_datalog st2 /\
              r_links st' = r_links st2 /\
              exists t', slab_get (r_trackers st') id = Some t' /\ tr_reqs t' = tr_reqs trk).
  { unfold reschedule, get_tracker in H. change (r_trackers st2) with trackers in H. rewrite Ht2 in H. cbn [bind] in H.
    apply bind_ok in H as ([t' woke] & HT & H). apply try_ready_reqs in HT. cbn [fst snd] in *.
    assert (G : slab_get (slab_put trackers id t') id = Some t') by (eapply slab_get_put_occ; exact Ht2).
    destruct woke; inv_ok; rsimpl; (repeat split; try reflexivity); exists t'; auto. }
  destruct F as (Fc & Fo & Fd & Fl & t' & Ft' & Fr).
  set (client := c_client conn) in *.
  set (ureqs := filter unshared_b (tr_reqs trk)).
  set (evs := map (mkres id link client) ureqs).
  assert (Eg : conn_ghost st' client link = evs).
  { unfold conn_ghost. rewrite Fc. cbn [st2 r_cmap]. rewrite DataLogInv.al_get_set_eq, Fo. cbn [st2 r_obufs].
    rewrite Ho2, Ft'. cbn [o_link]. rewrite N.eqb_refl, Fr. reflexivity. }
  rewrite Eg.
  assert (Hlen : forall f i, (length (ktrace (link, f, i) evs) <= 1)%nat).
  { intros f i. unfold evs. pose proof (ktrace_res_len id link client f i ureqs). pose proof (cnt_filter_le f unshared_b (tr_reqs trk)).
    specialize (Huq f). unfold ureqs in *. lia. }
  assert (HDI2 : DI st2 [] (trx ++ evs)).
  { destruct HDI1 as [D1 D2 D3 D4 D5 D6 D7].
    assert (Hev : forall id0 k f i a, In (id0, (k, f, i), a) evs ->
              id0 = id /\ k = link /\ exists rq, In rq (tr_reqs trk) /\ dr_group rq = None /\ f = dr_filter rq /\ i = dr_idx rq /\
                                                   a = KRes client (snd (dr_cursor rq))).
    { intros id0 k f i a Hin. unfold evs in Hin. apply in_map_iff in Hin as (rq & E & Hrq). inversion E; subst.
      apply filter_In in Hrq as [Hrq Hu]. repeat (split; [reflexivity|]). exists rq. split; [exact Hrq|].
      split; [|auto]. unfold unshared_b in Hu. destruct (dr_group rq); [discriminate|reflexivity]. }
    assert (Hold : forall c o, slab_get (r_obufs st2) c = Some o -> c <> id -> slab_get (r_obufs st1) c = Some o /\ o_link o <> link).
    { intros c o Ho Hne. cbn [st2 r_obufs] in Ho. destruct (slab_insert_inv _ _ _ _ _ _ Io Ho) as [[-> _] | [_ Ho1]]; [congruence|].
      split; [exact Ho1|]. specialize (Hlinks1 _ _ Ho1). lia. }
    assert (Hheld : forall c rq, c <> id -> Held st2 c rq -> Held st1 c rq).
    { intros c rq Hne [(t & Ht & Hin) | [Hw | Hnn]].
      - cbn [st2 r_trackers] in Ht. destruct (slab_insert_inv _ _ _ _ _ _ It Ht) as [[-> _] | [_ Ht1]]; [congruence|].
        left. exists t. auto.
      - right. left. exact Hw.
      - right. right. exact Hnn. }
    assert (Hnew : forall rq, Held st2 id rq -> In rq (tr_reqs trk)).
    { intros rq [(t & Ht & Hin) | [(i & d & Hd & Hin) | Hnn]].
      - cbn [st2 r_trackers] in Ht. rewrite Ht2 in Ht. inversion Ht; subst t. exact Hin.
      - exfalso. change (r_datalog st2) with (r_datalog st1) in Hd. unfold nget, slab_get in Hd.
        destruct (nthN (sl_items (dl_native (r_datalog st1))) i) as [[d0|]|] eqn:En; try discriminate. inversion Hd; subst d0.
        pose proof (Forall_nthN _ _ _ _ (dk_items _ _ (ri_dl _ _ HR1)) En) as Hok. cbn [odata_ok] in Hok.
        destruct Hok as [_ Hw]. rewrite Forall_forall in Hw. destruct (Hw _ Hin) as [Hocc _]. cbn [fst] in Hocc.
        apply occ_get in Hocc as [c0 Hc0]. unfold lives in Hc0. congruence.
      - exfalso. change (r_notif st2) with (r_notif st1) in Hnn. rewrite Hn1 in Hnn. destruct Hnn. }
    assert (Hin_ev : forall rq, In rq (tr_reqs trk) -> dr_group rq = None ->
              ktrace (link, dr_filter rq, dr_idx rq) evs = [KRes client (snd (dr_cursor rq))]).
    { intros rq Hrq Hg.
      assert (Hin : In (KRes client (snd (dr_cursor rq))) (ktrace (link, dr_filter rq, dr_idx rq) evs)).
      { apply ktrace_In. split; [reflexivity|]. exists id. unfold evs. apply in_map_iff. exists rq. split; [reflexivity|].
        apply filter_In. split; [exact Hrq|]. unfold unshared_b. now rewrite Hg. }
      specialize (Hlen (dr_filter rq) (dr_idx rq)).
      destruct (ktrace (link, dr_filter rq, dr_idx rq) evs) as [|x [|y l]]; [destruct Hin| |cbn [length] in Hlen; lia].
      destruct Hin as [<- | []]. reflexivity. }
    constructor.
    - intros id0 k f i a Hin. change (r_links st2) with (r_links st1). rewrite EL1.
      apply in_app_or in Hin as [Hin | Hin]; [specialize (Hfresh _ _ _ _ _ Hin); lia|].
      destruct (Hev _ _ _ _ _ Hin) as (_ & -> & _). exact Hlk.
    - intros id0 k f i a Hin. apply in_app_or in Hin as [Hin | Hin]; [eapply D2; eassumption|].
      destruct (Hev _ _ _ _ _ Hin) as (_ & _ & rq & Hrq & _ & _ & -> & ->).
      assert (Hok : RqOk (r_datalog st') rq).
      { destruct HI' as [_ CI']. pose proof (ci_trk _ _ CI' _ _ Ft') as F. rewrite Fr in F. rewrite Forall_forall in F. now apply F. }
      destruct Hok as [(d & Hd & _ & He) _]. rewrite Fd in Hd. exists d. split; [exact Hd|]. cbn [nxt]. exact He.
    - intros [[k f] i]. rewrite ktrace_app. destruct (N.eq_dec k link) as [-> | Hne].
      + rewrite (ktrace_fresh trx link f i Hfresh). cbn [app]. specialize (Hlen f i).
        destruct (ktrace (link, f, i) evs) as [|x [|y l]]; [exact I|exact I|cbn [length] in Hlen; lia].
      + unfold evs. rewrite ktrace_res_other by exact Hne. rewrite app_nil_r. apply D3.
    - intros c o rq a Ho Hh Hg Hl. rewrite ktrace_app in Hl. change (r_datalog st2) with (r_datalog st1).
      destruct (N.eq_dec c id) as [-> | Hne].
      + cbn [st2 r_obufs] in Ho. rewrite Ho2 in Ho. inversion Ho; subst o. unfold key_of in Hl. cbn [o_link] in Hl.
        rewrite (ktrace_fresh trx link _ _ Hfresh) in Hl. cbn [app] in Hl.
        destruct Hh as [Hh | []]. apply Hnew in Hh. rewrite (Hin_ev _ Hh Hg) in Hl. inversion Hl; subst a.
        split; [reflexivity|]. exact (HGB _ Hh Hg).
      + destruct (Hold _ _ Ho Hne) as [Ho1 Hl1]. unfold evs in Hl. rewrite ktrace_res_other, app_nil_r in Hl by exact Hl1.
        eapply D4; [exact Ho1| |exact Hg|exact Hl]. destruct Hh as [Hh | []]. left. now apply Hheld.
    - intros id0 k f i a c o Hin Ho Hk. apply in_app_or in Hin as [Hin | Hin].
      + destruct (N.eq_dec c id) as [-> | Hne].
        * cbn [st2 r_obufs] in Ho. rewrite Ho2 in Ho. inversion Ho; subst o. cbn [o_link] in Hk. subst k.
          specialize (Hfresh _ _ _ _ _ Hin). lia.
        * destruct (Hold _ _ Ho Hne) as [Ho1 _]. eapply D5; eassumption.
      + destruct (Hev _ _ _ _ _ Hin) as (-> & -> & _). destruct (N.eq_dec c id) as [-> | Hne]; [reflexivity|].
        destruct (Hold _ _ Ho Hne) as [_ Hl1]. congruence.
    - intros c o rq Ho Hh Hg. destruct Hh as [Hh | []]. destruct (N.eq_dec c id) as [-> | Hne].
      + cbn [st2 r_obufs] in Ho. rewrite Ho2 in Ho. inversion Ho; subst o. unfold key_of. cbn [o_link].
        apply Hnew in Hh. rewrite ktrace_app, (Hin_ev _ Hh Hg). intros X. apply app_eq_nil in X as [_ X]. discriminate.
      + destruct (Hold _ _ Ho Hne) as [Ho1 _]. apply ktrace_app_ne. eapply D6; [exact Ho1| |exact Hg]. left. now apply Hheld.
    - intros [[k f] i] a l E. rewrite ktrace_app in E. destruct (N.eq_dec k link) as [-> | Hne].
      + rewrite (ktrace_fresh trx link f i Hfresh) in E. cbn [app] in E. left.
        pose proof (ktrace_res_events (link, f, i) id link client ureqs) as Fa. fold evs in Fa.
        rewrite E in Fa. inversion Fa; subst. assumption.
      + unfold evs in E. rewrite ktrace_res_other, app_nil_r in E by exact Hne. eapply D7; exact E. }
  pose proof (reschedule_keep _ _ _ _ H) as K.
  eapply (di_frame_same st2); [eapply reschedule_hsub; exact H|now apply keep_obufs|eapply reschedule_dl; exact H
                               |now apply keep_links|exact HDI2].
Qed.

(* ------------------------------------------------------------------ one op *)
Lemma di_oracle st orc e tr : DI st e tr -> DI (set_r_oracle st orc) e tr.
Proof. apply di_frame_same; try reflexivity. apply hsub_view. reflexivity. Qed.

Lemma step_di st o st' out evs tr :
  RInvE st -> CInv st -> Bounded st -> LinkInv st -> op_wf o -> DI st [] tr -> BI st ->
  step_d st o = Ok (st', out, evs) -> DI st' [] (tr ++ evs).
Proof.
  intros [[HI Hn] HD] HC HB HL Hwf HDI HBI H.
  destruct o as [c | k pk | id | | k | id | id | id f | c |]; unfold step_d in H.
  - (* Connect *)
    apply bind_ok in H as ([st2 out2] & H2 & H). inv_ok. cbn [step] in H2. cbv zeta in H2.
    apply bind_ok in H2 as (st3 & H3 & H2). inv_ok.
    match type of H3 with handle_new_connection ?s _ _ = _ => set (st1 := s) in * end.
    assert (HC1 : CInv st1) by (eapply cinv_view; [|exact HC]; reflexivity).
    assert (El : lenN (r_links st1) = lenN (r_links st) + 1) by (unfold st1; rsimpl; now rewrite lenN_snoc).
    assert (HDI1 : DI st1 [] tr).
    { destruct HDI as [D1 D2 D3 D4 D5 D6 D7]. constructor; try assumption.
      intros id0 k f i a Hin. specialize (D1 _ _ _ _ _ Hin). lia. }
    match type of H3 with handle_new_connection _ ?cn _ = _ =>
      apply (handle_new_connection_di (r_cfg st) st1 cn (lenN (r_links st)) st' tr); [| | |exact HC1| | | | |exact HDI1|exact HBI|exact H3] end.
    + apply RInv_links_app; [exact HI|constructor].
    + exact Hn.
    + eapply dfr_DevE; [exact HD|dfr_triv].
    + split; [|exact (proj2 HL)]. intros id0 o Ho. pose proof (proj1 HL _ _ Ho). lia.
    + lia.
    + intros id0 k f i a Hin. apply (di_link _ _ _ HDI _ _ _ _ _ Hin).
    + intros id0 o Ho. apply (proj1 HL _ _ Ho).
  - (* Push *)
    apply bind_ok in H as ([st2 out2] & H2 & H). inv_ok. rewrite app_nil_r. cbn [step] in H2.
    destruct (nthN (r_links st) k) as [b|]; inv_ok; [|exact HDI].
    destruct HDI as [D1 D2 D3 D4 D5 D6 D7]. constructor; try assumption.
    intros id0 k0 f i a Hin. specialize (D1 _ _ _ _ _ Hin). rsimpl. now rewrite lenN_setN.
  - (* DeviceData *)
    apply bind_ok in H as ([st1 evs1] & H1 & H). inv_ok.
    eapply handle_device_payload_di; eassumption.
  - (* Consume *)
    apply bind_ok in H as ([[st1 b] evs1] & H1 & H). inv_ok.
    eapply consume_di; eassumption.
  - (* Drain *)
    apply bind_ok in H as ([st2 out2] & H2 & H). inv_ok. rewrite app_nil_r. cbn [step] in H2.
    destruct (nthN (r_links st) k) as [b|]; inv_ok; [|exact HDI].
    destruct HDI as [D1 D2 D3 D4 D5 D6 D7]. constructor; try assumption.
    intros id0 k0 f i a Hin. specialize (D1 _ _ _ _ _ Hin). rsimpl. now rewrite lenN_setN.
  - (* Ready *)
    apply bind_ok in H as ([st2 out2] & H2 & H). inv_ok. rewrite app_nil_r. cbn [step] in H2.
    destruct (slab_get (r_trackers st) id); [|inv_ok; exact HDI].
    apply bind_ok in H2 as (st1 & H1 & H2). inv_ok. pose proof (reschedule_keep _ _ _ _ H1) as K.
    eapply di_frame_same; [eapply reschedule_hsub; exact H1|now apply keep_obufs|eapply reschedule_dl; exact H1
                          |now apply keep_links|exact HDI].
  - (* Disconnect *)
    apply bind_ok in H as ([st2 out2] & H2 & H). inv_ok. cbn [step] in H2.
    apply bind_ok in H2 as (st1 & H1 & H2). inv_ok. eapply handle_disconnection_di; eassumption.
  - (* Shadow *)
    apply bind_ok in H as ([st2 out2] & H2 & H). inv_ok. rewrite app_nil_r. cbn [step] in H2.
    apply bind_ok in H2 as (st1 & H1 & H2). inv_ok.
    pose proof (retrieve_shadow_cview _ _ _ _ H1) as V. destruct (retrieve_shadow_obs _ _ _ _ H1) as (EO & _ & _ & EL).
    eapply di_frame; [exact HC|constructor|apply hsub_view; eapply retrieve_shadow_rview; exact H1
                     |apply obs_sub_eq; exact EO|rewrite (cview_dl _ _ V); apply dl_le_refl|lia|exact HDI].
  - (* Will *)
    apply bind_ok in H as ([st2 out2] & H2 & H). inv_ok. rewrite app_nil_r. cbn [step] in H2.
    apply bind_ok in H2 as (st1 & H1 & H2). inv_ok.
    destruct (handle_last_will_cinv _ _ _ HC H1) as [_ L1]. pose proof (handle_last_will_keep _ _ _ H1) as K.
    eapply di_frame_keep; [exact HC|constructor|eapply handle_last_will_hsub; exact H1|exact K|exact L1|exact HDI].
  - apply bind_ok in H as ([st2 out2] & H2 & H). inv_ok. rewrite app_nil_r. cbn [step] in H2. inv_ok. exact HDI.
Qed.

Lemma step_with_di st orc o st' out evs tr :
  RInvE st -> CInv st -> Bounded st -> LinkInv st -> op_wf o -> DI st [] tr -> BI st ->
  step_with_d st orc o = Ok (st', out, evs) -> DI st' [] (tr ++ evs) /\ BI st'.
Proof.
  intros [[HI Hn] HD] HC HB HL Hwf HDI HBI H. unfold step_with_d in H.
  apply bind_ok in H as ([[st1 out1] evs1] & H1 & H). destruct (r_oracle st1); [|discriminate]. inv_ok.
  assert (HE0 : RInvE (set_r_oracle st orc)).
  { split; [split; [apply RInv_set_oracle; exact HI|exact Hn]|]. eapply dfr_DevE; [exact HD|dfr_triv]. }
  assert (HC0 : CInv (set_r_oracle st orc)) by (eapply cinv_view; [|exact HC]; reflexivity).
  split.
  - eapply (step_di (set_r_oracle st orc)); [exact HE0|exact HC0|exact HB|exact HL|exact Hwf|apply di_oracle; exact HDI|exact HBI|exact H1].
  - eapply (bi_step_d (set_r_oracle st orc)); [exact HE0|exact HC0|exact HB|exact HL|exact Hwf|apply di_oracle; exact HDI|exact HBI|exact H1].
Qed.

(* ------------------------------------------------------------------ runs *)
Lemma di_init cfg st : init cfg = Ok st -> DI st [] [].
Proof.
  intros Hi. unfold init in Hi. apply bind_ok in Hi as (dl & _ & Hi). inv_ok. constructor.
  - intros id k f i a [].
  - intros id k f i a [].
  - intros K. exact I.
  - intros c o rq a _ _ _ Hl. discriminate.
  - intros id k f i a c o [].
  - intros c o rq Ho. discriminate.
  - intros K a l E. discriminate.
Qed.

(** everything that is carried along a run *)
Record RunInv (st : rstate) (tr : list dev) : Prop := {
  rn_rinv : RInvE st;
  rn_cinv : CInv st;
  rn_link : LinkInv st;
  rn_di : DI st [] tr;
  rn_bi : BI st
}.

Lemma runinv_step st tr orc o st1 out evs :
  RunInv st tr -> Bounded st -> op_wf o -> step_with_d st orc o = Ok (st1, out, evs) -> RunInv st1 (tr ++ evs).
Proof.
  intros [HE HC HL HDI HBI] HB0 Hw1 H1. pose proof (step_with_d_step _ _ _ _ _ _ H1) as H1'.
  destruct (step_with_cinv _ _ _ _ _ HC HB0 H1') as [HC1 _].
  destruct (step_with_di _ _ _ _ _ _ _ HE HC HB0 HL Hw1 HDI HBI H1) as [HDI1 HBI1].
  constructor.
  - eapply rinve_step; eassumption.
  - exact HC1.
  - apply (WindowStep.step_with_inv _ _ _ _ _ H1'). exact HL.
  - exact HDI1.
  - exact HBI1.
Qed.

(** the state before a step of a run that ends bounded is bounded *)
Lemma run_bounded_head st orc o ops st' tr :
  CInv st -> run_d st ((orc, o) :: ops) = Ok (st', tr) -> Bounded st' -> Bounded st.
Proof.
  intros HC H HB. pose proof (run_d_run _ _ _ _ H) as Hrun.
  destruct (run_cinv _ _ _ HC Hrun HB) as (_ & _ & X). exact X.
Qed.

Lemma run_di : forall ops st st' tr0 tr,
  RunInv st tr0 -> ops_wf ops -> run_d st ops = Ok (st', tr) -> Bounded st' -> RunInv st' (tr0 ++ tr).
Proof.
  induction ops as [|[orc o] ops IH]; intros st st' tr0 tr HR Hwf H HB.
  - cbn [run_d] in H. inv_ok. now rewrite app_nil_r.
  - inversion Hwf as [|? ? Hw1 Hw']; subst. cbn [snd] in Hw1.
    pose proof (run_bounded_head _ _ _ _ _ _ (rn_cinv _ _ HR) H HB) as HB0. cbn [run_d] in H.
    apply bind_ok in H as ([[st1 out] evs] & H1 & H). apply bind_ok in H as ([st2 evs2] & H2 & H). inv_ok.
    rewrite app_assoc. eapply IH; [|exact Hw'|exact H2|exact HB].
    eapply runinv_step; eassumption.
Qed.

Theorem run_from_init cfg st0 ops st tr :
  cfg_ok cfg -> cf_max_outgoing cfg < B62 -> init cfg = Ok st0 -> ops_wf ops ->
  run_d st0 ops = Ok (st, tr) -> Bounded st -> RunInv st tr.
Proof.
  intros Hcfg Hmo Hi Hwf Hr HB. apply (run_di ops st0 st [] tr); try assumption.
  constructor.
  - eapply rinve_init; eassumption.
  - eapply init_cinv; eassumption.
  - apply (WindowStep.init_inv _ _ Hi).
  - eapply di_init; eassumption.
  - eapply bi_init; eassumption.
Qed.
