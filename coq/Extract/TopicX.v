From Coq Require Import Extraction ExtrOcamlBasic.
From Rumqtt Require Import Topic.Model.
Extraction Language OCaml.
Extraction "topic_model.ml" matches matches_unfixed valid_filter valid_topic has_wildcards.
