From Coq Require Import Extraction ExtrOcamlBasic.
From Rumqtt Require Import Stack.Model.
Extraction Language OCaml.
Extraction "stack_model.ml" admission handle_auth classify epilogue to_packet okind ohas_props
  has_arm has_arm_unfixed write_view write_view_unfixed drain writev_view batch_len remote_ids registered_id will_event_id.
