From Coq Require Import Extraction ExtrOcamlBasic.
From Rumqtt Require Import Router.Model.
Extraction Language OCaml.
Extraction "router_model.ml" init step_with.
