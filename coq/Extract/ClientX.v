From Coq Require Import Extraction ExtrOcamlBasic.
From Rumqtt Require Import Client.State4 Client.State4Orig Client.Run4 Client.State5 Client.State5Orig Client.Loop Client.KeepAlive.
Extraction Language OCaml.
Definition v4_init := State4.init.
Definition v4_step := State4.step.
Definition v4_step_orig := State4Orig.step_orig.
Definition v4_k29 := Run4.k29.
Definition v4_k30 := Run4.k30.
Definition v4_contract := Run4.contract.
Definition v4_drain := State4.drain.
Definition v4_inflight := State4.inflight.
Definition v4_collision := State4.collision.
Definition v5_init := State5.init5.
Definition v5_step := State5.step5.
Definition v5_step_orig := State5Orig.Orig.step5.
Definition v5_drain := State5.drain5.
Definition v5_inflight := State5.s5_inflight.
Definition v5_collision := State5.s5_collision.
Definition l_init := Loop.linit.
Definition l_step := Loop.lstep.
Definition l_step_orig := Loop.lstep_orig.
Definition l_take_enabled := Loop.take_enabled.
Definition l_take_enabled_orig := Loop.take_enabled_orig.
Definition l_clean := Loop.loop_clean.
Definition l_clean_orig := Loop.loop_clean_orig.
Definition l_readb_take := Loop.readb_take.
Definition l_st := Loop.st.
Definition l_pending := Loop.pending.
Definition l_connected := Loop.connected.
Definition l_wire := Loop.wire.
Definition l_yielded := Loop.yielded.
Definition v4_events := State4.events.
Definition k_init := KeepAlive.kinit.
Definition k_step := KeepAlive.kstep.
Definition k_step_v5_orig := KeepAlive.kstep_v5_orig.
Definition k_deadline := KeepAlive.deadline.
Definition k_poll_connect := KeepAlive.poll_connect.
Extraction "client_model.ml" v4_init v4_step v4_step_orig v4_k29 v4_k30 v4_contract v4_drain v4_inflight v4_collision v5_init v5_step v5_step_orig v5_drain v5_inflight v5_collision l_init l_step l_step_orig l_take_enabled l_take_enabled_orig l_clean l_clean_orig l_readb_take l_st l_pending l_connected l_wire l_yielded v4_events k_init k_step k_step_v5_orig k_deadline k_poll_connect.
