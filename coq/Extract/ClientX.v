From Coq Require Import Extraction ExtrOcamlBasic.
From Rumqtt Require Import Client.State4 Client.State4Orig Client.Run4 Client.State5 Client.State5Orig.
Extraction Language OCaml.
Definition v4_init := State4.init.
Definition v4_step := State4.step.
Definition v4_step_orig := State4Orig.step_orig.
Definition v4_k18 := Run4.k18.
Definition v4_k19 := Run4.k19.
Definition v4_contract := Run4.contract.
Definition v4_drain := State4.drain.
Definition v4_inflight := State4.inflight.
Definition v4_collision := State4.collision.
Definition v5_init := State5.init5.
Definition v5_step := State5.step5.
Definition v5_step_orig := State5Orig.Orig.step5.
Definition v5_drain := State5.drain5.
Definition v5_inflight := State5.s5_inflight.
Definition v5_collision := State5.s5_collision.
Extraction "client_model.ml" v4_init v4_step v4_step_orig v4_k18 v4_k19 v4_contract v4_drain v4_inflight v4_collision v5_init v5_step v5_step_orig v5_drain v5_inflight v5_collision.
