From Coq Require Import Extraction ExtrOcamlBasic.
From Rumqtt Require Import Log.Model.
Extraction Language OCaml.
Extraction "log_model.ml" init_item step_item pos_start pos_end is_done.
