From Coq Require Import Extraction ExtrOcamlBasic.
From Rumqtt Require Import Codec.V4 Codec.V5.
Extraction Language OCaml.
Extraction "codec_model.ml" read write size run_stream4 wf_v4 norm repr utf8_valid
  read5 read5_gen unfixed fixed write5 size5 run_stream5 wf5 norm5 kind_of_id.
