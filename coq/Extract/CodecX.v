From Coq Require Import Extraction ExtrOcamlBasic.
From Rumqtt Require Import Codec.V4.
Extraction Language OCaml.
Extraction "codec_model.ml" read write size run_stream4 wf_v4 norm repr utf8_valid.
