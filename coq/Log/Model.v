(** M-LOG: executable model of the broker commit log, written line by line after
    /repo/rumqttd/src/segments/segment.rs (Segment<T>: new, with_offset, next_offset, push,
    readv, len, size) and /repo/rumqttd/src/segments/mod.rs (CommitLog<T>: new, next_offset,
    append, apply_retention, readv).  No proofs in this file.

    Profile: dev (overflow checks on) on a 64-bit target: [u64]/[usize] are [N] below [U64];
    every [+]/[-] of the Rust source that can overflow returns [Panic] here.  [Vec]/[VecDeque]
    are [list] (front = head of the list).  [out: &mut Vec<(T, Offset)>] is modelled as the
    list of entries the call pushes (the drivers pass an empty vector).
    Not modelled: allocation ([VecDeque::with_capacity(max_mem_segments)] aborts for absurd
    capacities), the [warn!] tracing lines, [io::Result] (never [Err] in this code). *)
From Rumqtt Require Export Base.Outcome.

Definition U64 : N := 18446744073709551616.   (* 2^64 *)

(** panic sites *)
Definition P_NEW_SEG : N := 1.    (* panic!("given max_segment_size .. < 1KB")            mod.rs:67 *)
Definition P_NEW_MEM : N := 2.    (* panic!("at least 1 segment needs to exist ..")       mod.rs:71 *)
Definition P_BACK : N := 3.       (* segments.back().unwrap() / back_mut().unwrap()       mod.rs:128,133 *)
Definition P_FRONT : N := 4.      (* segments.front().unwrap()                            mod.rs:187 *)
Definition P_INDEX : N := 5.      (* self.segments[idx]                                   mod.rs:197,241 *)
Definition P_SUB_ABS : N := 6.    (* cursor.1 - self.absolute_offset                      segment.rs:68 *)
Definition P_SUB_LEN : N := 7.    (* len -= next_offset - cursor.1                        mod.rs:229 *)
Definition P_ADD : N := 8.        (* any u64/usize addition overflowing                   *)
Definition P_SLICE : N := 9.      (* self.data[idx..limit]                                segment.rs:84 *)
Definition P_SUB_HEAD : N := 10.  (* cursor.0 - self.head                                 mod.rs:196 *)

Definition add64 (a b : N) : Outcome unit N :=
  if a + b <? U64 then Ok (a + b) else Panic P_ADD.
Definition sub64 (tag : N) (a b : N) : Outcome unit N :=
  if b <=? a then Ok (a - b) else Panic tag.

Definition cursor : Type := (N * N)%type.       (* (segment index, absolute offset) *)

(** list helpers indexed by [N] (structural on the list: no [N.to_nat] at run time) *)
Fixpoint skipN {A} (n : N) (l : list A) {struct l} : list A :=
  match l with
  | [] => []
  | x :: r => if n =? 0 then l else skipN (n - 1) r
  end.
Fixpoint firstN {A} (n : N) (l : list A) {struct l} : list A :=
  match l with
  | [] => []
  | x :: r => if n =? 0 then [] else x :: firstN (n - 1) r
  end.
(** [l[i]] together with the elements after it *)
Fixpoint nth_rest {A} (l : list A) (i : N) {struct l} : option (A * list A) :=
  match l with
  | [] => None
  | x :: r => if i =? 0 then Some (x, r) else nth_rest r (i - 1)
  end.
(** [(init, last)] *)
Fixpoint split_back {A} (l : list A) : option (list A * A) :=
  match l with
  | [] => None
  | x :: r => match split_back r with
              | None => Some ([], x)
              | Some (i, a) => Some (x :: i, a)
              end
  end.

Inductive segpos := SNext (o : N) | SDone (o : N).
Inductive position := Next (st en : cursor) | Done (st en : cursor).

Section Log.
Context {T : Type} (size : T -> N).          (* Storage::size *)

(* ------------------------------------------------------------------ segment.rs *)
Record segment := { s_data : list T; s_total : N; s_abs : N }.

Definition seg_new : segment := {| s_data := []; s_total := 0; s_abs := 0 |}.
Definition seg_with_offset (a : N) : segment := {| s_data := []; s_total := 0; s_abs := a |}.
Definition seg_len (s : segment) : N := lenN (s_data s).
Definition seg_size (s : segment) : N := s_total s.
(** self.absolute_offset + self.len() *)
Definition seg_next_offset (s : segment) : Outcome unit N := add64 (s_abs s) (seg_len s).
(** self.total_size += inner_type.size() as u64; self.data.push(inner_type) *)
Definition seg_push (s : segment) (x : T) : Outcome unit segment :=
  do t <- add64 (s_total s) (size x);
  Ok {| s_data := s_data s ++ [x]; s_total := t; s_abs := s_abs s |}.

(** [.zip(repeat(cursor.0).zip(cursor.1..))]: the k-th cloned element is paired with
    (cursor.0, cursor.1 + k).  (The Rust range is [cursor.1 .. cursor.1 + limit]; it has
    [limit] elements, the slice has [limit - idx <= limit], and [zip] stops at the shorter,
    so only the upper-bound computation [cursor.1 + limit] matters: it is a checked add.) *)
Fixpoint tag_from (sg off : N) (l : list T) : list (T * cursor) :=
  match l with
  | [] => []
  | x :: r => (x, (sg, off)) :: tag_from sg (off + 1) r
  end.

Definition seg_readv (s : segment) (c : cursor) (len : N) : Outcome unit (segpos * list (T * cursor)) :=
  do idx <- sub64 P_SUB_ABS (snd c) (s_abs s);
  if seg_len s <=? idx then
    do no <- seg_next_offset s; Ok (SDone no, [])
  else
    do limit0 <- add64 idx len;
    let '(ret, limit) :=
      if seg_len s <=? limit0 then (None, seg_len s) else (Some limit0, limit0) in
    do _hi <- add64 (snd c) limit;                                   (* cursor.1 + limit *)
    do sl <- (if (idx <=? limit) && (limit <=? seg_len s)            (* data[idx..limit] *)
              then Ok (firstN (limit - idx) (skipN idx (s_data s))) else Panic P_SLICE);
    let o := tag_from (fst c) (snd c) sl in
    match ret with
    | Some rel => do a <- add64 (s_abs s) rel; Ok (SNext a, o)
    | None => do no <- seg_next_offset s; Ok (SDone no, o)
    end.

(* ------------------------------------------------------------------ mod.rs *)
Record log := { head : N; tail : N; max_seg : N; max_mem : N; segs : list segment }.

Definition new (max_segment_size max_mem_segments : N) : Outcome unit log :=
  if max_segment_size <? 1024 then Panic P_NEW_SEG
  else if max_mem_segments <? 1 then Panic P_NEW_MEM
  else Ok {| head := 0; tail := 0; max_seg := max_segment_size;
             max_mem := max_mem_segments; segs := [seg_new] |}.

Definition active (l : log) : Outcome unit segment :=
  match split_back (segs l) with
  | Some (_, a) => Ok a
  | None => Panic P_BACK
  end.

Definition next_offset (l : log) : Outcome unit cursor :=
  do a <- active l; do o <- seg_next_offset a; Ok (tail l, o).

Definition apply_retention (l : log) : Outcome unit log :=
  do a <- active l;
  if max_seg l <=? seg_size a then
    do absolute_offset <- seg_next_offset a;
    do (segs1, head1) <-
      (if max_mem l <=? lenN (segs l)
       then do h <- add64 (head l) 1; Ok (tl (segs l), h)      (* pop_front(); head += 1 *)
       else Ok (segs l, head l));
    do tail1 <- add64 (tail l) 1;
    Ok {| head := head1; tail := tail1; max_seg := max_seg l; max_mem := max_mem l;
          segs := segs1 ++ [seg_with_offset absolute_offset] |}
  else Ok l.

Definition append (l : log) (x : T) : Outcome unit (log * cursor) :=
  do l1 <- apply_retention l;
  match split_back (segs l1) with
  | None => Panic P_BACK
  | Some (init, a) =>
      do a' <- seg_push a x;
      let l2 := {| head := head l1; tail := tail l1; max_seg := max_seg l1;
                   max_mem := max_mem l1; segs := init ++ [a'] |} in
      do a2 <- active l2;
      do absolute_offset <- seg_next_offset a2;
      Ok (l2, (tail l2, absolute_offset))
  end.

(** the part of [readv] after the [while] loop (mod.rs:244-267) *)
Definition readv_active (start cur : cursor) (len : N) (curr : segment)
  : Outcome unit (position * list (T * cursor)) :=
  do no <- seg_next_offset curr;
  if no <=? snd cur then Ok (Done start cur, [])
  else
    do (sp, o) <- seg_readv curr cur len;
    match sp with
    | SNext v => Ok (Next start (fst cur, v), o)
    | SDone a => Ok (Done start (fst cur, a), o)
    end.

(** the [while cursor.0 < self.tail] loop; [curr] = segments[idx], [more] = segments[idx+1..] *)
Fixpoint readv_walk (tl : N) (start cur : cursor) (len : N) (curr : segment)
         (more : list segment) {struct more} : Outcome unit (position * list (T * cursor)) :=
  if fst cur <? tl then
    do (sp, o) <- seg_readv curr cur len;
    match sp with
    | SNext offset => Ok (Next start (fst cur, offset), o)
    | SDone next_off =>
        do len' <- (if snd cur <=? next_off then sub64 P_SUB_LEN len (next_off - snd cur)
                    else Ok len);
        do c0 <- add64 (fst cur) 1;
        let cur' := (c0, next_off) in
        if len' =? 0 then Ok (Next start cur', o)
        else match more with
             | [] => Panic P_INDEX                              (* idx += 1; segments[idx] *)
             | nxt :: more' =>
                 do (pos, o2) <- readv_walk tl start cur' len' nxt more';
                 Ok (pos, o ++ o2)
             end
    end
  else readv_active start cur len curr.

Definition readv (l : log) (start : cursor) (len : N)
  : Outcome unit (position * list (T * cursor)) :=
  let cur := start in
  if tail l <? fst cur then Ok (Done start start, [])
  else
    do (cur, start) <-
      (if fst cur <? head l then
         match segs l with
         | [] => Panic P_FRONT
         | s :: _ => let c := (head l, s_abs s) in Ok (c, c)
         end
       else Ok (cur, start));
    do idx <- sub64 P_SUB_HEAD (fst cur) (head l);
    match nth_rest (segs l) idx with
    | None => Panic P_INDEX
    | Some (curr, more) =>
        let '(cur, start) :=
          if snd cur <? s_abs curr
          then ((fst cur, s_abs curr), (fst start, s_abs curr))
          else (cur, start) in
        readv_walk (tail l) start cur len curr more
    end.

(* ------------------------------------------------------------------ op language of the drivers *)
(** The pool holds every cursor the log has issued so far, in order of issue: append return
    values, next_offset results and, for reads from pool cursors, start, end and each
    returned entry's offset.  Reads from literal (possibly fabricated) cursors do not feed
    the pool. *)
Record state := { lg : log; pool : list cursor }.

Inductive op :=
| OpA (x : T)
| OpR (c : cursor) (n : N)
| OpRP (from_end : bool) (k : N) (n : N)     (* k-th oldest / k-th newest, modulo pool size *)
| OpNO.

Inductive ans :=
| AnsCursor (c : cursor)
| AnsRead (p : position) (o : list (T * cursor))
| AnsNoPool.

Definition pos_start (p : position) : cursor := match p with Next s _ => s | Done s _ => s end.
Definition pos_end (p : position) : cursor := match p with Next _ e => e | Done _ e => e end.
Definition is_done (p : position) : bool := match p with Next _ _ => false | Done _ _ => true end.

Definition pool_pick (pl : list cursor) (from_end : bool) (k : N) : option cursor :=
  match pl with
  | [] => None
  | _ =>
      let n := lenN pl in
      let i := k mod n in
      match nth_rest pl (if from_end then n - 1 - i else i) with
      | Some (c, _) => Some c
      | None => None
      end
  end.

Definition step (st : state) (o : op) : Outcome unit (state * ans) :=
  match o with
  | OpA x =>
      do (l', c) <- append (lg st) x;
      Ok ({| lg := l'; pool := pool st ++ [c] |}, AnsCursor c)
  | OpNO =>
      do c <- next_offset (lg st);
      Ok ({| lg := lg st; pool := pool st ++ [c] |}, AnsCursor c)
  | OpR c n =>
      do (p, out) <- readv (lg st) c n;
      Ok (st, AnsRead p out)
  | OpRP fe k n =>
      match pool_pick (pool st) fe k with
      | None => Ok (st, AnsNoPool)
      | Some c =>
          do (p, out) <- readv (lg st) c n;
          Ok ({| lg := lg st;
                 pool := pool st ++ pos_start p :: pos_end p :: map snd out |},
              AnsRead p out)
      end
  end.

Fixpoint run (st : state) (ops : list op) : Outcome unit (state * list ans) :=
  match ops with
  | [] => Ok (st, [])
  | o :: r =>
      do (st1, a) <- step st o;
      do (st2, az) <- run st1 r;
      Ok (st2, a :: az)
  end.

Definition init (max_segment_size max_mem_segments : N) : Outcome unit state :=
  do l <- new max_segment_size max_mem_segments; Ok {| lg := l; pool := [] |}.

End Log.

Arguments segment T : clear implicits.
Arguments log T : clear implicits.
Arguments state T : clear implicits.
Arguments op T : clear implicits.
Arguments ans T : clear implicits.

(** instance run by the drivers: Item = (id, size), Storage::size = the second component *)
Definition item : Type := (N * N)%type.
Definition item_size (x : item) : N := snd x.
Definition init_item : N -> N -> Outcome unit (state item) := init.
Definition step_item : state item -> op item -> Outcome unit (state item * ans item) := step item_size.
