(** List helper facts for M-LOG proofs. *)
From Rumqtt Require Import Log.Spec.
From Coq Require Import Arith ZifyBool ZifyN ZifyNat.

Lemma lenN_app {A} (a b : list A) : lenN (a ++ b) = lenN a + lenN b.
Proof. unfold lenN. rewrite app_length. lia. Qed.

Lemma lenN_cons {A} (x : A) (a : list A) : lenN (x :: a) = lenN a + 1.
Proof. unfold lenN. cbn [length]. lia. Qed.

Lemma lenN_nil {A} : lenN (@nil A) = 0.
Proof. reflexivity. Qed.

Lemma skipN_skipn {A} (l : list A) : forall n, skipN n l = skipn (N.to_nat n) l.
Proof.
  induction l as [|x r IH]; intros n; cbn [skipN].
  - now rewrite skipn_nil.
  - destruct (N.eqb_spec n 0) as [-> | Hn]; [reflexivity|].
    replace (N.to_nat n) with (S (N.to_nat (n - 1))) by lia. cbn [skipn]. apply IH.
Qed.

Lemma firstN_firstn {A} (l : list A) : forall n, firstN n l = firstn (N.to_nat n) l.
Proof.
  induction l as [|x r IH]; intros n; cbn [firstN].
  - now rewrite firstn_nil.
  - destruct (N.eqb_spec n 0) as [-> | Hn]; [reflexivity|].
    replace (N.to_nat n) with (S (N.to_nat (n - 1))) by lia. cbn [firstn]. now rewrite IH.
Qed.

Lemma nth_rest_split {A} (l : list A) : forall i x r,
  nth_rest l i = Some (x, r) ->
  exists pre, l = pre ++ x :: r /\ lenN pre = i.
Proof.
  induction l as [|y l IH]; intros i x r H; cbn [nth_rest] in H; [discriminate|].
  destruct (N.eqb_spec i 0) as [-> | Hn].
  - injection H as -> ->. exists []. split; reflexivity.
  - destruct (IH _ _ _ H) as (pre & -> & Hl). exists (y :: pre). split; [reflexivity|].
    rewrite lenN_cons. lia.
Qed.

Lemma nth_rest_app {A} (pre : list A) x r : nth_rest (pre ++ x :: r) (lenN pre) = Some (x, r).
Proof.
  induction pre as [|y pre IH]; cbn [app nth_rest].
  - reflexivity.
  - rewrite lenN_cons. destruct (N.eqb_spec (lenN pre + 1) 0) as [E | _]; [lia|].
    replace (lenN pre + 1 - 1) with (lenN pre) by lia. exact IH.
Qed.

Lemma nth_rest_none {A} (l : list A) : forall i, nth_rest l i = None -> lenN l <= i.
Proof.
  induction l as [|y l IH]; intros i H; cbn [nth_rest] in H.
  - rewrite lenN_nil. lia.
  - destruct (N.eqb_spec i 0) as [E | Hn]; [discriminate|].
    apply IH in H. rewrite lenN_cons. lia.
Qed.

Lemma split_back_spec {A} (l : list A) :
  match split_back l with
  | None => l = []
  | Some (i, a) => l = i ++ [a]
  end.
Proof.
  induction l as [|x r IH]; cbn [split_back]; [reflexivity|].
  destruct (split_back r) as [[i a]|]; subst r; reflexivity.
Qed.

Lemma split_back_app {A} (i : list A) a : split_back (i ++ [a]) = Some (i, a).
Proof.
  induction i as [|x i IH]; cbn [app split_back]; [reflexivity|]. now rewrite IH.
Qed.

Lemma last_app1 {A} (i : list A) a d : last (i ++ [a]) d = a.
Proof. apply last_last. Qed.

Lemma nth_error_to_app {A} (l : list A) n x :
  nth_error l n = Some x -> exists pre r, l = pre ++ x :: r /\ length pre = n.
Proof. apply nth_error_split. Qed.

Lemma nth_error_mid {A} (pre : list A) x r : nth_error (pre ++ x :: r) (length pre) = Some x.
Proof. rewrite nth_error_app2 by lia. replace (length pre - length pre)%nat with O by lia. reflexivity. Qed.

Lemma Nseq_length p k : length (Nseq p k) = k.
Proof. revert p; induction k as [|k IH]; intros p; cbn [Nseq length]; [reflexivity|]. now rewrite IH. Qed.

Lemma Nseq_app p a b : Nseq p (a + b) = Nseq p a ++ Nseq (p + N.of_nat a) b.
Proof.
  revert p; induction a as [|a IH]; intros p; cbn [Nseq Nat.add app].
  - f_equal. lia.
  - rewrite IH. do 3 f_equal. lia.
Qed.
