(** CommitLog::append / apply_retention / next_offset: invariant preservation, retention
    bound, effect on the abstract log, and stability of issued cursors. *)
From Rumqtt Require Import Log.Spec Log.ListFacts Log.SegProofs Log.ReadProofs Log.WfFacts.
From Coq Require Import Arith ZifyBool ZifyN ZifyNat.

Section AppendProofs.
Context {T : Type} (size : T -> N).

Definition with_segs (l : log T) (h t : N) (ss : list (segment T)) : log T :=
  {| head := h; tail := t; max_seg := max_seg l; max_mem := max_mem l; segs := ss |}.

Definition pushed (a : segment T) (x : T) : segment T :=
  {| s_data := s_data a ++ [x]; s_total := s_total a + size x; s_abs := s_abs a |}.

Lemma active_last (l : log T) i a : segs l = i ++ [a] -> active l = Ok a.
Proof. intros E. unfold active. now rewrite E, split_back_app. Qed.

Lemma base_of_with (l : log T) h t ss : base_of (with_segs l h t ss) = match ss with s :: _ => s_abs s | [] => 0 end.
Proof. reflexivity. Qed.

Lemma retained_app_one (ss : list (segment T)) s :
  concat (map (@s_data T) (ss ++ [s])) = concat (map (@s_data T) ss) ++ s_data s.
Proof. rewrite map_app, concat_app. cbn [map concat]. now rewrite app_nil_r. Qed.

Lemma chain_last (i : list (segment T)) a : forall b, chain b (i ++ [a]) <-> chain b i /\ s_abs a = b + lenD i.
Proof.
  intros b. rewrite chain_app. cbn [chain]. tauto.
Qed.

(** the three ways [apply_retention] can go *)
Inductive retention_case (l l1 : log T) (e : N) : Prop :=
| RC_same i a :
    segs l = i ++ [a] -> s_total a < max_seg l -> l1 = l -> retention_case l l1 e
| RC_roll i a :
    segs l = i ++ [a] -> max_seg l <= s_total a -> lenN (segs l) < max_mem l ->
    l1 = with_segs l (head l) (tail l + 1) (segs l ++ [seg_with_offset e]) ->
    retention_case l l1 e
| RC_evict s0 rest i a :
    segs l = s0 :: rest -> segs l = i ++ [a] -> max_seg l <= s_total a ->
    max_mem l <= lenN (segs l) ->
    l1 = with_segs l (head l + 1) (tail l + 1) (rest ++ [seg_with_offset e]) ->
    retention_case l l1 e.

Lemma apply_retention_cases (l : log T) all :
  WFs size l all -> lenN all < U64 ->
  exists l1, apply_retention l = Ok l1 /\ retention_case l l1 (lenN all).
Proof.
  intros W Hov. destruct (exists_last (wf_ne size l all W)) as (i & a & E).
  assert (E' : segs l = i ++ a :: []) by exact E.
  destruct (wfs_split size l all i a [] W E') as (_ & _ & Hend & Htail).
  rewrite lenD_cons, lenD_nil in Hend. rewrite lenN_nil in Htail.
  pose proof (wfs_tail_le size l all W) as Htl.
  unfold apply_retention. rewrite (active_last l i a E). cbn [bind]. unfold seg_size.
  destruct (N.leb_spec (max_seg l) (s_total a)) as [Hfull | Hroom].
  - rewrite seg_next_offset_ok by lia. cbn [bind].
    replace (s_abs a + seg_len a) with (lenN all) by lia.
    assert (Hpos : 0 < seg_len a).
    { apply seg_len_pos. pose proof (wf_total size l all W) as Ht. rewrite E in Ht.
      apply Forall_app in Ht. destruct Ht as [_ Hta].
      apply (sum_size_nil_data size); [exact (Forall_inv Hta)|].
      pose proof (wf_cfg_seg size l all W). lia. }
    pose proof (wf_tail size l all W) as Hta. rewrite E, last_last in Hta.
    destruct (N.leb_spec (max_mem l) (lenN (segs l))) as [Hev | Hno].
    + rewrite add64_ok by lia. cbn [bind]. rewrite add64_ok by lia. cbn [bind].
      destruct (segs l) as [|s0 rest] eqn:Es; [now destruct (wf_ne size l all W)|].
      cbn [tl]. eexists. split; [reflexivity|].
      eapply (RC_evict l _ _ s0 rest i a); try rewrite Es; try eassumption; try reflexivity.
    + cbn [bind]. rewrite add64_ok by lia. cbn [bind]. eexists. split; [reflexivity|].
      eapply (RC_roll l _ _ i a); try eassumption. reflexivity.
  - exists l. split; [reflexivity|]. eapply (RC_same l l _ i a); try eassumption. reflexivity.
Qed.

(** [apply_retention] keeps the structural invariant, and leaves an active segment with room *)
Lemma retention_wfs (l l1 : log T) all :
  WFs size l all -> retention_case l l1 (lenN all) ->
  WFs size l1 all /\
  exists i1 a1, segs l1 = i1 ++ [a1] /\ s_total a1 < max_seg l /\
                s_abs a1 + seg_len a1 = lenN all /\
                (head l1 < tail l1 -> NEs i1).
Proof.
  intros W RC. pose proof (wf_cfg_seg size l all W) as Hcfg.
  pose proof (wf_count size l all W) as Hcnt.
  destruct RC as [i a E Hroom -> | i a E Hfull Hmem -> | s0 rest i a Es E Hfull Hmem ->].
  - (* unchanged *)
    split; [exact W|]. exists i, a. split; [exact E|]. split; [exact Hroom|].
    assert (E' : segs l = i ++ a :: []) by exact E.
    destruct (wfs_split size l all i a [] W E') as (_ & _ & Hend & _).
    rewrite lenD_cons, lenD_nil in Hend. split; [lia|].
    intros _. pose proof (wf_full size l all W) as Hf. pose proof (wf_total size l all W) as Ht.
    rewrite E in Hf, Ht. rewrite removelast_last in Hf. apply Forall_app in Ht. destruct Ht as [Hti _].
    unfold NEs. rewrite Forall_forall in *. intros s Hs.
    apply (sum_size_nil_data size); [now apply Hti|]. specialize (Hf s Hs). cbn beta in Hf. lia.
  - (* a new active segment, nothing evicted *)
    assert (E' : segs l = i ++ a :: []) by exact E.
    destruct (wfs_split size l all i a [] W E') as (_ & Habs & Hend & Htail).
    rewrite lenD_cons, lenD_nil in Hend. rewrite lenN_nil in Htail.
    assert (HNE : NEs (segs l)).
    { pose proof (wf_full size l all W) as Hf. pose proof (wf_total size l all W) as Ht.
      rewrite E in Hf, Ht |- *. rewrite removelast_last in Hf.
      unfold NEs. rewrite Forall_forall in *. intros s Hs.
      apply (sum_size_nil_data size); [now apply Ht|].
      apply in_app_or in Hs. destruct Hs as [Hs | [<- | []]]; [specialize (Hf s Hs); cbn beta in Hf|]; lia. }
    split.
    + constructor; cbn [with_segs head tail max_seg max_mem segs].
      * exact Hcfg.
      * apply (wf_cfg_mem size l all W).
      * destruct (segs l); discriminate.
      * rewrite lenN_app, lenN_cons, lenN_nil. lia.
      * assert (Hb : base_of (with_segs l (head l) (tail l + 1) (segs l ++ [seg_with_offset (lenN all)])) = base_of l).
        { unfold base_of. cbn [with_segs segs]. destruct (segs l) eqn:Es; [now destruct (wf_ne size l all W)|reflexivity]. }
        rewrite Hb. apply chain_last. split; [apply (wf_chain size l all W)|].
        cbn [seg_with_offset s_abs]. symmetry. apply (wfs_end size l all W).
      * apply Forall_app. split; [apply (wf_total size l all W)|]. constructor; [reflexivity | constructor].
      * rewrite removelast_last. pose proof (wf_full size l all W) as Hf.
        rewrite E in Hf |- *. rewrite removelast_last in Hf.
        apply Forall_app. split; [exact Hf|]. constructor; [exact Hfull | constructor].
      * rewrite lenN_app, lenN_cons, lenN_nil. lia.
      * destruct (wf_all size l all W) as (d & Hd & Hl). exists d. split.
        -- rewrite Hd. f_equal. unfold retained. cbn [with_segs segs]. rewrite retained_app_one.
           cbn [seg_with_offset s_data]. now rewrite app_nil_r.
        -- unfold base_of in *. cbn [with_segs segs]. destruct (segs l) eqn:Es; [now destruct (wf_ne size l all W)|exact Hl].
      * rewrite last_last. cbn [seg_with_offset s_abs].
        pose proof (wf_tail size l all W) as Ht. rewrite E, last_last in Ht.
        assert (0 < seg_len a).
        { apply seg_len_pos. unfold NEs in HNE. rewrite Forall_forall in HNE. apply HNE. rewrite E. apply in_or_app. right. now left. }
        lia.
    + exists (segs l), (seg_with_offset (lenN all)). cbn [with_segs segs head tail seg_with_offset s_total s_abs seg_len s_data].
      split; [reflexivity|]. split; [lia|]. split; [change (seg_len (seg_with_offset (lenN all))) with 0; lia|]. intros _. exact HNE.
  - (* the oldest segment is dropped whole *)
    assert (E' : segs l = i ++ a :: []) by exact E.
    destruct (wfs_split size l all i a [] W E') as (_ & Habs & Hend & Htail).
    rewrite lenD_cons, lenD_nil in Hend. rewrite lenN_nil in Htail.
    assert (HNE : NEs (segs l)).
    { pose proof (wf_full size l all W) as Hf. pose proof (wf_total size l all W) as Ht.
      rewrite E in Hf, Ht |- *. rewrite removelast_last in Hf.
      unfold NEs. rewrite Forall_forall in *. intros s Hs.
      apply (sum_size_nil_data size); [now apply Ht|].
      apply in_app_or in Hs. destruct Hs as [Hs | [<- | []]]; [specialize (Hf s Hs); cbn beta in Hf|]; lia. }
    assert (Hall_full : Forall (fun s => max_seg l <= s_total s) (segs l)).
    { pose proof (wf_full size l all W) as Hf. rewrite E in Hf |- *. rewrite removelast_last in Hf.
      apply Forall_app. split; [exact Hf|]. constructor; [exact Hfull | constructor]. }
    pose proof (wf_chain size l all W) as Hch. unfold base_of in Hch. rewrite Es in Hch.
    destruct Hch as [_ Hch]. cbn beta in Hch.
    assert (Hbase : base_of l = s_abs s0) by (unfold base_of; now rewrite Es).
    pose proof (wfs_end size l all W) as He. rewrite Es, lenD_cons in He.
    assert (Hb1 : base_of (with_segs l (head l + 1) (tail l + 1) (rest ++ [seg_with_offset (lenN all)])) = s_abs s0 + seg_len s0).
    { unfold base_of. cbn [with_segs segs]. destruct rest as [|s1 rest'].
      - cbn [app seg_with_offset s_abs]. rewrite lenD_nil in He. lia.
      - cbn [app]. destruct Hch as [H1 _]. exact H1. }
    rewrite Es in Hcnt, Hmem, HNE, Hall_full. rewrite lenN_cons in Hcnt, Hmem.
    split.
    + constructor; cbn [with_segs head tail max_seg max_mem segs].
      * exact Hcfg.
      * apply (wf_cfg_mem size l all W).
      * destruct rest; discriminate.
      * rewrite lenN_app, lenN_cons, lenN_nil. lia.
      * rewrite Hb1. apply chain_last. split; [exact Hch|].
        cbn [seg_with_offset s_abs]. lia.
      * apply Forall_app. split.
        -- pose proof (wf_total size l all W) as Ht. rewrite Es in Ht. exact (Forall_inv_tail Ht).
        -- constructor; [reflexivity | constructor].
      * rewrite removelast_last. exact (Forall_inv_tail Hall_full).
      * rewrite lenN_app, lenN_cons, lenN_nil. pose proof (wf_mem size l all W) as Hm.
        rewrite Es, lenN_cons in Hm. lia.
      * destruct (wf_all size l all W) as (d & Hd & Hl). exists (d ++ s_data s0). split.
        -- rewrite Hd. unfold retained. cbn [with_segs segs]. rewrite Es, retained_app_one.
           cbn [map concat seg_with_offset s_data]. now rewrite app_nil_r, app_assoc.
        -- rewrite lenN_app, Hb1. fold (seg_len s0). lia.
      * rewrite last_last. cbn [seg_with_offset s_abs].
        pose proof (wf_tail size l all W) as Ht. rewrite E, last_last in Ht.
        assert (0 < seg_len a).
        { apply seg_len_pos. pose proof HNE as HNE'. rewrite <- Es, E in HNE'.
          unfold NEs in HNE'. rewrite Forall_forall in HNE'. apply HNE'. apply in_or_app. right. now left. }
        lia.
    + exists rest, (seg_with_offset (lenN all)). cbn [with_segs segs head tail seg_with_offset s_total s_abs seg_len s_data].
      split; [reflexivity|]. split; [lia|]. split; [change (seg_len (seg_with_offset (lenN all))) with 0; lia|]. intros _. exact (Forall_inv_tail HNE).
Qed.

(** pushing onto an active segment that has room *)
Lemma push_wf (l1 : log T) all i a x :
  WFs size l1 all -> segs l1 = i ++ [a] -> (head l1 < tail l1 -> NEs i) ->
  WF size (with_segs l1 (head l1) (tail l1) (i ++ [pushed a x])) (all ++ [x]).
Proof.
  intros W E Hne.
  assert (E' : segs l1 = i ++ a :: []) by exact E.
  destruct (wfs_split size l1 all i a [] W E') as (_ & Habs & Hend & Htail).
  assert (Hb : base_of (with_segs l1 (head l1) (tail l1) (i ++ [pushed a x])) = base_of l1).
  { unfold base_of. cbn [with_segs segs]. rewrite E. destruct i; reflexivity. }
  split.
  - constructor; cbn [with_segs head tail max_seg max_mem segs].
    + apply (wf_cfg_seg size l1 all W).
    + apply (wf_cfg_mem size l1 all W).
    + destruct i; discriminate.
    + pose proof (wf_count size l1 all W) as Hc. rewrite E in Hc.
      rewrite lenN_app, lenN_cons, lenN_nil in *. exact Hc.
    + rewrite Hb. pose proof (wf_chain size l1 all W) as Hc. rewrite E in Hc.
      apply chain_last in Hc. apply chain_last. exact Hc.
    + pose proof (wf_total size l1 all W) as Ht. rewrite E in Ht. apply Forall_app in Ht.
      destruct Ht as [Hti Hta]. apply Forall_app. split; [exact Hti|].
      constructor; [|constructor]. cbn [pushed s_total s_data].
      rewrite sum_size_app. rewrite (Forall_inv Hta). cbn. lia.
    + rewrite removelast_last. pose proof (wf_full size l1 all W) as Hf.
      rewrite E, removelast_last in Hf. exact Hf.
    + pose proof (wf_mem size l1 all W) as Hm. rewrite E in Hm.
      rewrite lenN_app, lenN_cons, lenN_nil in *. exact Hm.
    + destruct (wf_all size l1 all W) as (d & Hd & Hl). exists d. split.
      * rewrite Hd. unfold retained. cbn [with_segs segs]. rewrite E, !retained_app_one.
        cbn [pushed s_data]. now rewrite !app_assoc.
      * now rewrite Hb.
    + rewrite last_last. pose proof (wf_tail size l1 all W) as Ht. rewrite E, last_last in Ht.
      exact Ht.
  - cbn [with_segs head tail segs]. intros _. rewrite last_last. cbn [pushed s_data].
    destruct (s_data a); discriminate.
Qed.

(** the shape of the log after an append, relative to the log before *)
Inductive append_shape (l l' : log T) (x : T) : Prop :=
| AS_same i a :
    segs l = i ++ [a] -> segs l' = i ++ [pushed a x] ->
    head l' = head l -> tail l' = tail l -> append_shape l l' x
| AS_roll f :
    segs l' = segs l ++ [pushed f x] -> s_data f = [] ->
    head l' = head l -> tail l' = tail l + 1 -> append_shape l l' x
| AS_evict s0 rest f :
    segs l = s0 :: rest -> segs l' = rest ++ [pushed f x] -> s_data f = [] ->
    head l' = head l + 1 -> tail l' = tail l + 1 -> append_shape l l' x.

Theorem append_spec (l : log T) all x :
  WF size l all -> size x + max_seg l <= U64 -> lenN all + 1 < U64 ->
  exists l',
    append size l x = Ok (l', (tail l', lenN all + 1)) /\
    WF size l' (all ++ [x]) /\
    append_shape l l' x /\
    max_seg l' = max_seg l /\ max_mem l' = max_mem l /\
    lenN (segs l') <= max_mem l' /\
    (base_of l' = base_of l \/
     exists s0 rest, segs l = s0 :: rest /\ base_of l' = base_of l + seg_len s0) /\
    Covers l' (tail l') (lenN all).
Proof.
  intros [W _] Hsz Hov.
  destruct (apply_retention_cases l all W) as (l1 & Hret & RC); [lia|].
  destruct (retention_wfs l l1 all W RC) as (W1 & i1 & a1 & E1 & Hroom & Hend1 & Hne1).
  set (l2 := with_segs l1 (head l1) (tail l1) (i1 ++ [pushed a1 x])).
  pose proof (push_wf l1 all i1 a1 x W1 E1 Hne1) as W2. fold l2 in W2.
  assert (Hcfg : max_seg l1 = max_seg l /\ max_mem l1 = max_mem l) by (destruct RC; subst; split; reflexivity).
  destruct Hcfg as [Hms Hmm].
  exists l2.
  assert (Happ : append size l x = Ok (l2, (tail l2, lenN all + 1))).
  { unfold append. rewrite Hret. cbn [bind]. rewrite E1, split_back_app.
    unfold seg_push. rewrite add64_ok by lia. cbn [bind].
    unfold active. cbn [segs]. rewrite split_back_app. cbn [bind].
    unfold seg_next_offset, seg_len. cbn [s_abs s_data]. rewrite lenN_app, lenN_cons, lenN_nil.
    fold (seg_len a1). rewrite add64_ok by lia. cbn [bind tail].
    unfold l2, with_segs, pushed. do 3 f_equal. lia. }
  split; [exact Happ|]. split; [exact W2|].
  assert (Hshape : append_shape l l2 x).
  { destruct RC as [i a E _ -> | i a E _ _ -> | s0 rest i a Es E _ _ ->].
    - rewrite E in E1. apply app_inj_tail in E1. destruct E1 as [-> ->].
      eapply (AS_same l l2 x i1 a1); try reflexivity. exact E.
    - cbn [with_segs segs] in E1. apply app_inj_tail in E1. destruct E1 as [<- <-].
      eapply (AS_roll l l2 x); reflexivity.
    - cbn [with_segs segs] in E1. apply app_inj_tail in E1. destruct E1 as [<- <-].
      eapply (AS_evict l l2 x s0 rest); try reflexivity. exact Es. }
  split; [exact Hshape|].
  split; [exact Hms|]. split; [exact Hmm|].
  split; [apply (wf_mem size l2 _ (proj1 W2))|].
  split.
  - destruct RC as [i a E _ -> | i a E _ _ -> | s0 rest i a Es E _ _ ->].
    + left. unfold base_of. cbn [l2 with_segs segs]. rewrite E in E1 |- *.
      apply app_inj_tail in E1. destruct E1 as [-> ->]. destruct i1; reflexivity.
    + left. cbn [with_segs segs] in E1. apply app_inj_tail in E1. destruct E1 as [<- <-].
      unfold base_of. cbn [l2 with_segs segs]. destruct (segs l) eqn:Es; [now destruct (wf_ne size l all W)|reflexivity].
    + right. exists s0, rest. split; [exact Es|].
      cbn [with_segs segs] in E1. apply app_inj_tail in E1. destruct E1 as [<- <-].
      pose proof (wf_chain size l all W) as Hch. unfold base_of in Hch |- *. rewrite Es in Hch |- *.
      destruct Hch as [_ Hch]. cbn [l2 with_segs segs head tail].
      destruct rest as [|s1 rest'].
      * cbn [app pushed s_abs seg_with_offset].
        pose proof (wfs_end size l all W) as He. unfold base_of in He. rewrite Es, lenD_cons, lenD_nil in He. lia.
      * cbn [app]. destruct Hch as [H1 _]. exact H1.
  - (* the new entry lives in the active segment at offset |all| *)
    destruct W2 as [W2 _]. pose proof (wf_count size l2 _ W2) as Hc.
    cbn [l2 with_segs segs head tail] in Hc |- *. rewrite lenN_app, lenN_cons, lenN_nil in Hc.
    unfold Covers. cbn [l2 with_segs segs head tail]. split; [lia|]. split; [lia|].
    exists (pushed a1 x). split.
    + replace (N.to_nat (tail l1 - head l1)) with (length i1) by (unfold lenN in Hc; lia).
      apply nth_error_mid.
    + unfold seg_len. cbn [pushed s_abs s_data]. rewrite lenN_app, lenN_cons, lenN_nil.
      fold (seg_len a1). lia.
Qed.

(** issued cursors stay issued across an append (they may only become stale) *)
Lemma issued_append (l l' : log T) x c :
  append_shape l l' x -> Issued l c -> Issued l' c.
Proof.
  intros S Hi. destruct Hi as [Hs | (Hh & Ht & s & Hn & Hlo & Hhi)].
  - left. destruct S as [i a _ _ -> _ | f _ _ -> _ | s0 rest f _ _ _ -> _]; lia.
  - destruct S as [i a E E' Hh' Ht' | f E' Hf Hh' Ht' | s0 rest f E E' Hf Hh' Ht'].
    + right. rewrite Hh', Ht'. split; [exact Hh|]. split; [exact Ht|].
      rewrite E in Hn. rewrite E'.
      destruct (Nat.lt_ge_cases (N.to_nat (fst c - head l)) (length i)) as [Hlt | Hge].
      * rewrite nth_error_app1 in Hn |- * by assumption. exists s. repeat split; assumption.
      * rewrite nth_error_app2 in Hn |- * by assumption.
        destruct (N.to_nat (fst c - head l) - length i)%nat as [|k]; [|destruct k; discriminate].
        cbn [nth_error] in Hn |- *. injection Hn as <-. exists (pushed a x).
        split; [reflexivity|]. unfold seg_len in *. cbn [pushed s_abs s_data]. rewrite lenN_app. lia.
    + right. rewrite Hh', Ht'. split; [exact Hh|]. split; [lia|].
      rewrite E'. exists s. split; [|split; assumption].
      rewrite nth_error_app1; [exact Hn|]. apply nth_error_Some. congruence.
    + destruct (N.eqb_spec (fst c) (head l)) as [Heq | Hne].
      * left. lia.
      * right. rewrite Hh', Ht'. split; [lia|]. split; [lia|].
        rewrite E in Hn. rewrite E'.
        replace (N.to_nat (fst c - head l)) with (S (N.to_nat (fst c - (head l + 1)))) in Hn by lia.
        cbn [nth_error] in Hn. exists s. split; [|split; assumption].
        rewrite nth_error_app1; [exact Hn|]. apply nth_error_Some. congruence.
Qed.

Lemma next_offset_spec (l : log T) all :
  WFs size l all -> lenN all < U64 ->
  next_offset l = Ok (tail l, lenN all) /\ Issued l (tail l, lenN all).
Proof.
  intros W Hov. destruct (exists_last (wf_ne size l all W)) as (i & a & E).
  assert (E' : segs l = i ++ a :: []) by exact E.
  destruct (wfs_split size l all i a [] W E') as (_ & Habs & Hend & Htail).
  rewrite lenD_cons, lenD_nil in Hend. rewrite lenN_nil in Htail.
  split.
  - unfold next_offset. rewrite (active_last l i a E). cbn [bind].
    rewrite seg_next_offset_ok by lia. cbn [bind]. do 2 f_equal. lia.
  - right. cbn [fst snd]. split; [lia|]. split; [lia|]. exists a. split.
    + rewrite E. replace (N.to_nat (tail l - head l)) with (length i) by (unfold lenN in Htail; lia).
      apply nth_error_mid.
    + lia.
Qed.

End AppendProofs.
