(** CommitLog::readv: the segment walk returns exactly the requested window of the tagged
    retained entries, for every issued cursor; and never panics for any cursor. *)
From Rumqtt Require Import Log.Spec Log.ListFacts Log.SegProofs.
From Coq Require Import Arith ZifyBool ZifyN ZifyNat.

Section ReadProofs.
Context {T : Type}.

Definition lenD (ss : list (segment T)) : N := lenN (concat (map (@s_data T) ss)).
Definition NEs (ss : list (segment T)) : Prop := Forall (fun s => s_data s <> []) ss.

Lemma lenD_nil : lenD [] = 0.
Proof. reflexivity. Qed.
Lemma lenD_cons s ss : lenD (s :: ss) = seg_len s + lenD ss.
Proof. unfold lenD. cbn [map concat]. now rewrite lenN_app. Qed.
Lemma lenD_app a b : lenD (a ++ b) = lenD a + lenD b.
Proof. unfold lenD. now rewrite map_app, concat_app, lenN_app. Qed.

Lemma chain_app (x y : list (segment T)) : forall a,
  chain a (x ++ y) <-> chain a x /\ chain (a + lenD x) y.
Proof.
  induction x as [|s x IH]; intros a; cbn [app chain].
  - rewrite lenD_nil. replace (a + 0) with a by lia. tauto.
  - rewrite IH, lenD_cons. replace (a + seg_len s + lenD x) with (a + (seg_len s + lenD x)) by lia. tauto.
Qed.

Lemma tagged_app (x y : list (segment T)) : forall k,
  tagged k (x ++ y) = tagged k x ++ tagged (k + lenN x) y.
Proof.
  induction x as [|s x IH]; intros k; cbn [app tagged].
  - rewrite lenN_nil. f_equal. lia.
  - rewrite IH, lenN_cons, <- app_assoc. do 3 f_equal. lia.
Qed.

Lemma tagged_length (ss : list (segment T)) : forall k,
  length (tagged k ss) = length (concat (map (@s_data T) ss)).
Proof.
  induction ss as [|s ss IH]; intros k; cbn [tagged map concat]; [reflexivity|].
  now rewrite !app_length, tag_from_length, IH.
Qed.

Lemma lenN_tagged k ss : lenN (tagged k ss) = lenD ss.
Proof. unfold lenN, lenD, lenN. now rewrite tagged_length. Qed.

Lemma tagged_map_fst (ss : list (segment T)) : forall k,
  map fst (tagged k ss) = concat (map (@s_data T) ss).
Proof.
  induction ss as [|s ss IH]; intros k; cbn [tagged map concat]; [reflexivity|].
  now rewrite map_app, tag_from_map_fst, IH.
Qed.

Lemma tagged_offsets (ss : list (segment T)) : forall k a, chain a ss ->
  map (fun e => snd (snd e)) (tagged k ss) = Nseq a (length (tagged k ss)).
Proof.
  induction ss as [|s ss IH]; intros k a Hc; cbn [tagged]; [reflexivity|].
  destruct Hc as [Ha Hc]. rewrite map_app, app_length, Nseq_app.
  rewrite tag_from_offsets, tag_from_length, Ha. f_equal.
  exact (IH (k + 1) _ Hc).
Qed.

(** window helpers *)
Lemma skipn_tag_app sg a (d : list T) (R : list (T * cursor)) (i : nat) :
  (i <= length d)%nat ->
  skipn i (tag_from sg a d ++ R) = tag_from sg (a + N.of_nat i) (skipn i d) ++ R.
Proof.
  intros Hi. rewrite skipn_app, tag_from_length, tag_from_skipn.
  replace (i - length d)%nat with O by lia. cbn [skipn].
  replace (Nat.min i (length d)) with i by lia. reflexivity.
Qed.

Lemma firstn_app_le {A} (n : nat) (X R : list A) :
  (n <= length X)%nat -> firstn n (X ++ R) = firstn n X.
Proof.
  intros H. rewrite firstn_app. replace (n - length X)%nat with O by lia.
  cbn [firstn]. now rewrite app_nil_r.
Qed.

Lemma firstn_app_ge {A} (n : nat) (X R : list A) :
  (length X <= n)%nat -> firstn n (X ++ R) = X ++ firstn (n - length X) R.
Proof. intros H. rewrite firstn_app. now rewrite firstn_all2 by lia. Qed.

Lemma readv_walk_eq tl start cur len (curr : segment T) more :
  readv_walk tl start cur len curr more =
  if fst cur <? tl then
    do (sp, o) <- seg_readv curr cur len;
    match sp with
    | SNext offset => Ok (Next start (fst cur, offset), o)
    | SDone next_off =>
        do len' <- (if snd cur <=? next_off then sub64 P_SUB_LEN len (next_off - snd cur)
                    else Ok len);
        do c0 <- add64 (fst cur) 1;
        let cur' := (c0, next_off) in
        if len' =? 0 then Ok (Next start cur', o)
        else match more with
             | [] => Panic P_INDEX
             | nxt :: more' =>
                 do (pos, o2) <- readv_walk tl start cur' len' nxt more';
                 Ok (pos, o ++ o2)
             end
    end
  else readv_active start cur len curr.
Proof. destruct more; reflexivity. Qed.

(** canonical cursor of the first offset of a non-empty-or-last segment *)
Lemma canon_start k (s : segment T) r o :
  o = s_abs s -> (r <> [] -> s_data s <> []) -> canon k (s :: r) o = (k, o).
Proof.
  intros -> Hne. cbn [canon]. destruct r as [|s' r']; [reflexivity|].
  assert (H : s_data s <> []) by (apply Hne; discriminate).
  assert (0 < seg_len s) by (unfold seg_len, lenN; destruct (s_data s); [congruence | cbn [length]; lia]).
  destruct (N.ltb_spec (s_abs s) (s_abs s + seg_len s)); [reflexivity | lia].
Qed.

Lemma canon_descend k (s s' : segment T) r o :
  s_abs s + seg_len s <= o -> canon k (s :: s' :: r) o = canon (k + 1) (s' :: r) o.
Proof.
  intros H. cbn [canon].
  destruct (N.ltb_spec o (s_abs s + seg_len s)); [lia | reflexivity].
Qed.

Lemma canon_here k (s : segment T) r o :
  o < s_abs s + seg_len s -> canon k (s :: r) o = (k, o).
Proof.
  intros H. cbn [canon]. destruct r; [reflexivity|].
  destruct (N.ltb_spec o (s_abs s + seg_len s)); [reflexivity | lia].
Qed.

Lemma seg_len_pos (s : segment T) : s_data s <> [] -> 0 < seg_len s.
Proof. unfold seg_len, lenN. destruct (s_data s); [congruence | cbn [length]; lia]. Qed.

Ltac deqb := match goal with |- context [N.eqb ?a ?b] => destruct (N.eqb_spec a b) end.

Definition mkpos (done : bool) : cursor -> cursor -> position := if done then Done else Next.

(** the walk, for a cursor inside (or at the end of) its segment *)
Lemma walk_exact : forall (more : list (segment T)) curr sgi off n start tl,
  chain (s_abs curr) (curr :: more) ->
  (more <> [] -> NEs (curr :: more)) ->
  tl = sgi + lenN more -> tl < U64 ->
  s_abs curr <= off -> off <= s_abs curr + seg_len curr ->
  2 * (s_abs curr + lenD (curr :: more)) < U64 ->
  off - s_abs curr + n < U64 ->
  let out := firstn (N.to_nat n)
               (skipn (N.to_nat (off - s_abs curr)) (tagged sgi (curr :: more))) in
  let e := off + lenN out in
  readv_walk tl start (sgi, off) n curr more =
    Ok (mkpos (e =? s_abs curr + lenD (curr :: more)) start (canon sgi (curr :: more) e), out).
Proof.
  induction more as [|nxt more' IH]; intros curr sgi off n start tl Hch Hne Htl Htl64 Hlo Hhi Hov Hn out e.
  - (* the active segment *)
    rewrite readv_walk_eq. cbn [fst snd]. rewrite lenN_nil in Htl.
    destruct (N.ltb_spec sgi tl) as [? | _]; [lia|].
    unfold readv_active. rewrite lenD_cons, lenD_nil in Hov.
    rewrite seg_next_offset_ok by lia. cbn [bind snd fst].
    assert (Hlen : seg_len curr = N.of_nat (length (s_data curr))) by reflexivity.
    cbn [tagged] in out. rewrite lenD_cons, lenD_nil.
    destruct (N.leb_spec (s_abs curr + seg_len curr) off) as [Hge | Hlt].
    + assert (Hout : out = []).
      { unfold out. rewrite skipn_all2; [now rewrite firstn_nil|].
        rewrite app_length, tag_from_length. cbn [length]. lia. }
      unfold e. rewrite Hout, lenN_nil.
      replace (off + 0) with off by lia.
      deqb; [|lia]. reflexivity.
    + pose proof (seg_readv_cases curr (sgi, off) n) as Hc. cbn [fst snd] in Hc.
      rewrite Hc by lia. clear Hc.
      destruct (N.leb_spec (seg_len curr) (off - s_abs curr)) as [? | _]; [lia|].
      assert (Hsk : skipn (N.to_nat (off - s_abs curr)) (tag_from sgi (s_abs curr) (s_data curr) ++ [])
                    = tag_from sgi off (skipn (N.to_nat (off - s_abs curr)) (s_data curr))).
      { rewrite skipn_tag_app by lia. rewrite app_nil_r. f_equal. lia. }
      destruct (N.leb_spec (seg_len curr) (off - s_abs curr + n)) as [Hge2 | Hlt2]; cbn [bind fst].
      * assert (Hout : out = tag_from sgi off (skipn (N.to_nat (off - s_abs curr)) (s_data curr))).
        { unfold out. rewrite Hsk. apply firstn_all2. rewrite tag_from_length, skipn_length. lia. }
        assert (He : e = s_abs curr + seg_len curr).
        { unfold e. rewrite Hout. unfold lenN. rewrite tag_from_length, skipn_length. lia. }
        rewrite He, <- Hout.
        deqb; [|lia]. reflexivity.
      * assert (Hout : out = tag_from sgi off (firstn (N.to_nat n) (skipn (N.to_nat (off - s_abs curr)) (s_data curr)))).
        { unfold out. rewrite Hsk. apply tag_from_firstn. }
        assert (He : e = off + n).
        { unfold e. rewrite Hout. unfold lenN. rewrite tag_from_length, firstn_length, skipn_length. lia. }
        rewrite He, <- Hout.
        deqb; [lia|]. reflexivity.
  - (* an older segment *)
    rewrite readv_walk_eq. cbn [fst snd]. rewrite lenN_cons in Htl.
    destruct (N.ltb_spec sgi tl) as [_ | ?]; [|lia].
    assert (HNE : NEs (curr :: nxt :: more')) by (apply Hne; discriminate).
    pose proof (Forall_inv HNE) as Hcne. cbn beta in Hcne.
    pose proof (Forall_inv (Forall_inv_tail HNE)) as Hnne. cbn beta in Hnne.
    apply seg_len_pos in Hcne, Hnne.
    destruct Hch as [_ Hch]. pose proof Hch as [Hnabs _].
    assert (Hch' : chain (s_abs nxt) (nxt :: more')) by (rewrite Hnabs; exact Hch).
    rewrite lenD_cons in Hov |- *. pose proof Hov as Hov'. rewrite lenD_cons in Hov'.
    assert (Hlen : seg_len curr = N.of_nat (length (s_data curr))) by reflexivity.
    pose proof (seg_readv_cases curr (sgi, off) n) as Hc. cbn [fst snd] in Hc.
    rewrite Hc by lia. clear Hc.
    set (R := tagged (sgi + 1) (nxt :: more')).
    assert (Htg : tagged sgi (curr :: nxt :: more') = tag_from sgi (s_abs curr) (s_data curr) ++ R) by reflexivity.
    assert (Hsk : skipn (N.to_nat (off - s_abs curr)) (tagged sgi (curr :: nxt :: more'))
                  = tag_from sgi off (skipn (N.to_nat (off - s_abs curr)) (s_data curr)) ++ R).
    { rewrite Htg, skipn_tag_app by lia. do 2 f_equal. lia. }
    assert (HR : lenN R = lenD (nxt :: more')) by apply lenN_tagged.
    (* facts for the recursive call *)
    assert (Hne' : more' <> [] -> NEs (nxt :: more')) by (intros _; exact (Forall_inv_tail HNE)).
    destruct (N.leb_spec (seg_len curr) (off - s_abs curr)) as [Hge | Hlt]; cbn [bind].
    + (* cursor at the end of this segment: nothing read here *)
      assert (Hoff : off = s_abs curr + seg_len curr) by lia.
      destruct (N.leb_spec off (s_abs curr + seg_len curr)) as [_ | ?]; [|lia].
      rewrite sub64_ok by lia. cbn [bind]. rewrite add64_ok by lia. cbn [bind].
      replace (n - (s_abs curr + seg_len curr - off)) with n by lia.
      assert (Hsk0 : skipn (N.to_nat (off - s_abs curr)) (tagged sgi (curr :: nxt :: more')) = R).
      { rewrite Hsk. rewrite skipn_all2 by lia. reflexivity. }
      destruct (N.eqb_spec n 0) as [Hn0 | Hn0].
      * assert (Hout : out = []) by (unfold out; subst n; reflexivity).
        unfold e. rewrite Hout, lenN_nil. replace (off + 0) with off by lia.
        deqb; [rewrite lenD_cons in *; lia|].
        rewrite canon_descend by lia.
        rewrite canon_start; [rewrite Hoff; reflexivity | lia | intros _; apply (Forall_inv (Forall_inv_tail HNE))].
      * specialize (IH nxt (sgi + 1) (s_abs curr + seg_len curr) n start tl).
        rewrite IH; try assumption; try lia.
        cbn [bind app]. fold R.
        replace (s_abs curr + seg_len curr - s_abs nxt) with 0 by lia. cbn [N.to_nat skipn].
        assert (Hout : out = firstn (N.to_nat n) R) by (unfold out; now rewrite Hsk0).
        unfold e. rewrite Hout, <- Hoff.
        replace (s_abs nxt + lenD (nxt :: more')) with (s_abs curr + (seg_len curr + lenD (nxt :: more'))) by lia.
        rewrite (canon_descend sgi curr nxt more') by lia. reflexivity.
    + destruct (N.leb_spec (seg_len curr) (off - s_abs curr + n)) as [Hge2 | Hlt2]; cbn [bind fst].
      * (* reads to the end of this segment and goes on *)
        set (o := tag_from sgi off (skipn (N.to_nat (off - s_abs curr)) (s_data curr))) in *.
        assert (Ho : length o = N.to_nat (seg_len curr - (off - s_abs curr))).
        { unfold o. rewrite tag_from_length, skipn_length. lia. }
        destruct (N.leb_spec off (s_abs curr + seg_len curr)) as [_ | ?]; [|lia].
        rewrite sub64_ok by lia. cbn [bind]. rewrite add64_ok by lia. cbn [bind].
        assert (Hout : out = o ++ firstn (N.to_nat n - length o) R).
        { unfold out. rewrite Hsk. apply firstn_app_ge. lia. }
        destruct (N.eqb_spec (n - (s_abs curr + seg_len curr - off)) 0) as [Hn0 | Hn0].
        -- assert (Hout' : out = o).
           { rewrite Hout. replace (N.to_nat n - length o)%nat with O by lia. cbn [firstn]. apply app_nil_r. }
           unfold e. rewrite Hout'. unfold lenN. rewrite Ho.
           replace (off + N.of_nat (N.to_nat (seg_len curr - (off - s_abs curr)))) with (s_abs curr + seg_len curr) by lia.
           deqb; [rewrite lenD_cons in *; lia|].
           rewrite canon_descend by lia.
           rewrite canon_start; [reflexivity | lia | intros _; apply (Forall_inv (Forall_inv_tail HNE))].
        -- specialize (IH nxt (sgi + 1) (s_abs curr + seg_len curr) (n - (s_abs curr + seg_len curr - off)) start tl).
           rewrite IH; try assumption; try lia.
           cbn [bind]. fold R.
           replace (s_abs curr + seg_len curr - s_abs nxt) with 0 by lia. cbn [N.to_nat skipn].
           replace (N.to_nat (n - (s_abs curr + seg_len curr - off))) with (N.to_nat n - length o)%nat by lia.
           rewrite <- Hout.
           assert (He : e = s_abs curr + seg_len curr + lenN (firstn (N.to_nat n - length o) R)).
           { unfold e. rewrite Hout, lenN_app. unfold lenN at 1. rewrite Ho. lia. }
           rewrite <- He.
           replace (s_abs nxt + lenD (nxt :: more')) with (s_abs curr + (seg_len curr + lenD (nxt :: more'))) by lia.
           rewrite (canon_descend sgi curr nxt more') by lia. reflexivity.
      * (* the window ends inside this segment *)
        set (o := tag_from sgi off (firstn (N.to_nat n) (skipn (N.to_nat (off - s_abs curr)) (s_data curr)))).
        assert (Hout : out = o).
        { unfold out. rewrite Hsk. rewrite firstn_app_le.
          - apply tag_from_firstn.
          - rewrite tag_from_length, skipn_length. lia. }
        assert (He : e = off + n).
        { unfold e. rewrite Hout. unfold o, lenN. rewrite tag_from_length, firstn_length, skipn_length. lia. }
        rewrite He, <- Hout.
        deqb; [lia|].
        rewrite canon_here by lia. reflexivity.
Qed.

(** the walk never panics, for a cursor anywhere at or after the start of its segment *)
Lemma walk_total : forall (more : list (segment T)) curr sgi off n start tl,
  chain (s_abs curr) (curr :: more) ->
  tl = sgi + lenN more -> tl < U64 ->
  s_abs curr <= off ->
  2 * (s_abs curr + lenD (curr :: more)) < U64 ->
  off - s_abs curr + n < U64 ->
  exists r, readv_walk tl start (sgi, off) n curr more = Ok r.
Proof.
  induction more as [|nxt more' IH]; intros curr sgi off n start tl Hch Htl Htl64 Hlo Hov Hn.
  - rewrite readv_walk_eq. cbn [fst snd]. rewrite lenN_nil in Htl.
    destruct (N.ltb_spec sgi tl) as [? | _]; [lia|].
    unfold readv_active. rewrite lenD_cons, lenD_nil in Hov.
    rewrite seg_next_offset_ok by lia. cbn [bind snd fst].
    destruct (N.leb_spec (s_abs curr + seg_len curr) off) as [Hge | Hlt]; [eexists; reflexivity|].
    pose proof (seg_readv_cases curr (sgi, off) n) as Hc. cbn [fst snd] in Hc.
    rewrite Hc by lia. clear Hc.
    destruct (seg_len curr <=? off - s_abs curr); [eexists; reflexivity|].
    destruct (seg_len curr <=? off - s_abs curr + n); eexists; reflexivity.
  - rewrite readv_walk_eq. cbn [fst snd]. rewrite lenN_cons in Htl.
    destruct (N.ltb_spec sgi tl) as [_ | ?]; [|lia].
    destruct Hch as [_ Hch]. pose proof Hch as [Hnabs _].
    assert (Hch' : chain (s_abs nxt) (nxt :: more')) by (rewrite Hnabs; exact Hch).
    rewrite lenD_cons in Hov.
    pose proof (seg_readv_cases curr (sgi, off) n) as Hc. cbn [fst snd] in Hc.
    rewrite Hc by lia. clear Hc.
    assert (Hrec : forall n' o, n' <= n -> (off <= s_abs curr + seg_len curr -> n' + (s_abs curr + seg_len curr - off) <= n) ->
      exists r,
      (do c0 <- add64 sgi 1;
       let cur' := (c0, s_abs curr + seg_len curr) in
       if n' =? 0 then Ok (Next start cur', o)
       else do (pos, o2) <- readv_walk tl start cur' n' nxt more'; Ok (pos, o ++ o2)) = Ok r).
    { intros n' o Hle Hle2. rewrite add64_ok by lia. cbn [bind].
      destruct (n' =? 0); [eexists; reflexivity|].
      destruct (IH nxt (sgi + 1) (s_abs curr + seg_len curr) n' start tl) as [[pos o2] Hr]; try assumption; try lia.
      rewrite Hr. cbn [bind]. eexists; reflexivity. }
    destruct (N.leb_spec (seg_len curr) (off - s_abs curr)) as [Hge | Hlt]; cbn [bind].
    + destruct (N.leb_spec off (s_abs curr + seg_len curr)) as [Hle | Hgt].
      * rewrite sub64_ok by lia. cbn [bind]. apply Hrec; lia.
      * cbn [bind]. apply Hrec; lia.
    + destruct (N.leb_spec (seg_len curr) (off - s_abs curr + n)) as [Hge2 | Hlt2]; cbn [bind]; [|eexists; reflexivity].
      destruct (N.leb_spec off (s_abs curr + seg_len curr)) as [_ | ?]; [|lia].
      rewrite sub64_ok by lia. cbn [bind]. apply Hrec; lia.
Qed.

(* ---------- spec-function lemmas ---------- *)

Lemma canon_skip (pre : list (segment T)) s more : forall k a e,
  chain a (pre ++ s :: more) -> a + lenD pre <= e ->
  canon k (pre ++ s :: more) e = canon (k + lenN pre) (s :: more) e.
Proof.
  induction pre as [|x pre IH]; intros k a e Hc He.
  - rewrite lenN_nil. cbn [app]. f_equal. lia.
  - cbn [app] in *. destruct Hc as [Hx Hc]. rewrite lenD_cons in He.
    destruct (pre ++ s :: more) as [|y r] eqn:E; [destruct pre; discriminate|].
    rewrite canon_descend by lia. rewrite <- E in *.
    rewrite (IH (k + 1) (a + seg_len x) e Hc) by lia. rewrite lenN_cons. f_equal. lia.
Qed.

(** where the canonical cursor of an offset inside [a, a + lenD ss] points *)
Lemma canon_spec (ss : list (segment T)) : forall k a e,
  ss <> [] -> chain a ss -> a <= e -> e <= a + lenD ss ->
  exists i s, nth_error ss i = Some s /\ canon k ss e = (k + N.of_nat i, e) /\
              s_abs s <= e /\ e <= s_abs s + seg_len s /\
              (e < s_abs s + seg_len s \/ S i = length ss).
Proof.
  induction ss as [|s r IH]; intros k a e Hne Hc Hlo Hhi; [congruence|].
  destruct Hc as [Ha Hc]. rewrite lenD_cons in Hhi.
  destruct r as [|s' r'].
  - exists O, s. cbn [nth_error canon length]. rewrite lenD_nil in Hhi.
    repeat split; try lia. f_equal. lia.
  - destruct (N.ltb_spec e (s_abs s + seg_len s)) as [Hlt | Hge].
    + exists O, s. cbn [nth_error]. rewrite canon_here by lia.
      repeat split; try lia. f_equal. lia.
    + rewrite canon_descend by lia.
      destruct (IH (k + 1) (a + seg_len s) e) as (i & s0 & Hn & Hcn & H1 & H2 & H3); try assumption; try lia; [discriminate|].
      exists (S i), s0. cbn [nth_error length]. rewrite Hcn.
      repeat split; try lia; try assumption; [f_equal; lia|].
      cbn [length] in H3. destruct H3 as [H3 | H3]; [left; exact H3 | right; lia].
Qed.

Lemma tagged_In (ss : list (segment T)) : forall k x sg o,
  In (x, (sg, o)) (tagged k ss) ->
  exists i s, nth_error ss i = Some s /\ sg = k + N.of_nat i /\
              s_abs s <= o /\ o < s_abs s + seg_len s.
Proof.
  induction ss as [|s r IH]; intros k x sg o H; cbn [tagged] in H; [contradiction|].
  apply in_app_or in H. destruct H as [H | H].
  - apply tag_from_In in H. exists O, s. cbn [nth_error]. unfold seg_len. repeat split; lia.
  - apply IH in H. destruct H as (i & s0 & Hn & -> & H1 & H2).
    exists (S i), s0. cbn [nth_error]. repeat split; try assumption; lia.
Qed.

Lemma Nseq_skipn k : forall a m, skipn k (Nseq a m) = Nseq (a + N.of_nat k) (m - k).
Proof.
  induction k as [|k IH]; intros a m.
  - cbn [skipn]. rewrite Nat.sub_0_r. f_equal. lia.
  - destruct m as [|m]; cbn [Nseq skipn Nat.sub]; [reflexivity|]. rewrite IH. f_equal. lia.
Qed.

Lemma Nseq_firstn k : forall a m, firstn k (Nseq a m) = Nseq a (Nat.min k m).
Proof.
  induction k as [|k IH]; intros a m; [reflexivity|].
  destruct m as [|m]; cbn [Nseq firstn Nat.min]; [reflexivity|]. now rewrite IH.
Qed.

Lemma firstn_add_skip {A} (W : list A) : forall a b,
  firstn (a + b) W = firstn a W ++ firstn b (skipn (length (firstn a W)) W).
Proof.
  induction W as [|x W IH]; intros a b.
  - destruct a; destruct b; reflexivity.
  - destruct a as [|a]; cbn [Nat.add firstn length skipn app]; [reflexivity|]. now rewrite IH.
Qed.

Lemma skipn_app_exact {A} (X Y : list A) n : (length X <= n)%nat ->
  skipn n (X ++ Y) = skipn (n - length X) Y.
Proof. intros H. rewrite skipn_app. rewrite skipn_all2 by lia. reflexivity. Qed.

End ReadProofs.
