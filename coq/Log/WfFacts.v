(** Consequences of the invariant [WFs]/[WF] used by the read and append proofs. *)
From Rumqtt Require Import Log.Spec Log.ListFacts Log.SegProofs Log.ReadProofs.
From Coq Require Import Arith ZifyBool ZifyN ZifyNat.

Section WfFacts.
Context {T : Type} (size : T -> N).

Lemma retained_lenD (l : log T) : lenN (retained l) = lenD (segs l).
Proof. reflexivity. Qed.

Lemma base_of_app (l : log T) pre curr more :
  segs l = pre ++ curr :: more -> chain (base_of l) (segs l) ->
  s_abs curr = base_of l + lenD pre /\ chain (s_abs curr) (curr :: more).
Proof.
  intros E Hc. rewrite E in Hc. apply chain_app in Hc. destruct Hc as [_ Hc].
  pose proof Hc as [Ha _]. split; [exact Ha | now rewrite Ha].
Qed.

Lemma wfs_end (l : log T) all : WFs size l all -> base_of l + lenD (segs l) = lenN all.
Proof.
  intros W. destruct (wf_all size l all W) as (d & -> & Hd).
  rewrite lenN_app, retained_lenD. lia.
Qed.

Lemma wfs_split (l : log T) all pre curr more :
  WFs size l all -> segs l = pre ++ curr :: more ->
  chain (s_abs curr) (curr :: more) /\
  s_abs curr = base_of l + lenD pre /\
  s_abs curr + lenD (curr :: more) = lenN all /\
  tail l = head l + lenN pre + lenN more.
Proof.
  intros W E. destruct (base_of_app l pre curr more E (wf_chain size l all W)) as [Ha Hc].
  pose proof (wfs_end l all W) as He. pose proof (wf_count size l all W) as Hn.
  rewrite E in He, Hn. rewrite lenD_app in He. rewrite lenN_app, lenN_cons in Hn.
  split; [exact Hc | split; [exact Ha | split; lia]].
Qed.

Lemma wfs_last_abs (l : log T) all :
  WFs size l all -> s_abs (last (segs l) seg_new) <= lenN all.
Proof.
  intros W. destruct (exists_last (wf_ne size l all W)) as (i & a & E).
  rewrite E, last_last.
  assert (E' : segs l = i ++ a :: []) by exact E.
  destruct (wfs_split l all i a [] W E') as (_ & _ & H & _). lia.
Qed.

Lemma wfs_tail_le (l : log T) all : WFs size l all -> tail l <= lenN all.
Proof. intros W. pose proof (wf_tail size l all W). pose proof (wfs_last_abs l all W). lia. Qed.

Lemma sum_size_nil_data (s : segment T) :
  s_total s = sum_size size (s_data s) -> 0 < s_total s -> s_data s <> [].
Proof. intros E H D. rewrite D in E. cbn in E. lia. Qed.

(** with two or more segments, every segment is non-empty *)
Lemma wf_NEs (l : log T) all : WF size l all -> 2 <= lenN (segs l) -> NEs (segs l).
Proof.
  intros [W Hact] H2.
  destruct (exists_last (wf_ne size l all W)) as (i & a & E).
  pose proof (wf_full size l all W) as Hf. pose proof (wf_total size l all W) as Ht.
  pose proof (wf_cfg_seg size l all W) as Hcfg. pose proof (wf_count size l all W) as Hn.
  rewrite E in Hf, Ht, Hact |- *. rewrite removelast_last in Hf. rewrite last_last in Hact.
  apply Forall_app in Ht. destruct Ht as [Hti Hta].
  apply Forall_app. split.
  - rewrite Forall_forall in *. intros s Hs. apply sum_size_nil_data; [now apply Hti|].
    specialize (Hf s Hs). cbn beta in Hf. lia.
  - constructor; [|constructor]. apply Hact. lia.
Qed.

Lemma issued_pos (l : log T) all c :
  WFs size l all -> Issued l c -> base_of l <= pos_of l c /\ pos_of l c <= lenN all.
Proof.
  intros W Hi. unfold pos_of, stale. pose proof (wfs_end l all W) as He.
  destruct Hi as [Hs | (Hh & Ht & s & Hn & Hlo & Hhi)].
  - destruct (N.ltb_spec (fst c) (head l)); lia.
  - destruct (N.ltb_spec (fst c) (head l)); [lia|].
    apply nth_error_split in Hn. destruct Hn as (pre & more & E & Hl).
    destruct (wfs_split l all pre s more W E) as (_ & Ha & Hd & _).
    rewrite lenD_cons in Hd. lia.
Qed.

End WfFacts.
