(** C13 — the theorems pinned in Props/C13.v, assembled from SegProofs / ReadProofs /
    ReadTop / AppendProofs, plus the history-level invariant and non-vacuity examples. *)
From Rumqtt Require Export Log.Spec.
From Rumqtt Require Import Log.ListFacts Log.SegProofs Log.ReadProofs Log.WfFacts Log.ReadTop Log.AppendProofs.
From Coq Require Import Arith ZifyBool ZifyN ZifyNat.

Section Proofs.
Context {T : Type} (size : T -> N).

(* ---------- small list facts ---------- *)
Lemma In_firstn {A} (x : A) n : forall l, In x (firstn n l) -> In x l.
Proof.
  induction n as [|n IH]; intros [|y l] H; cbn [firstn] in H; try contradiction.
  destruct H as [-> | H]; [now left | right; now apply IH].
Qed.
Lemma In_skipn {A} (x : A) n : forall l, In x (skipn n l) -> In x l.
Proof.
  induction n as [|n IH]; intros [|y l] H; cbn [skipn] in H; try contradiction; try assumption.
  right. now apply IH.
Qed.

Lemma skipn_twice {A} a : forall b (l : list A), skipn a (skipn b l) = skipn (b + a) l.
Proof.
  intros b. induction b as [|b IH]; intros l; [reflexivity|].
  destruct l as [|x l]; cbn [skipn Nat.add]; [now rewrite skipn_nil | apply IH].
Qed.

(* ---------- Covers / Issued ---------- *)
Lemma covers_of_tagged (l : log T) all x sg o :
  WFs size l all -> In (x, (sg, o)) (tagged (head l) (segs l)) -> Covers l sg o.
Proof.
  intros W H. apply tagged_In in H. destruct H as (i & s & Hn & -> & Hlo & Hhi).
  pose proof (wf_count size l all W) as Hc.
  assert (Hi : (i < length (segs l))%nat) by (apply nth_error_Some; congruence).
  unfold Covers. split; [lia|]. split; [unfold lenN in Hc; lia|].
  exists s. replace (N.to_nat (head l + N.of_nat i - head l)) with i by lia. auto.
Qed.

Lemma covers_issued (l : log T) sg o : Covers l sg o -> Issued l (sg, o).
Proof.
  intros (Hh & Ht & s & Hn & Hlo & Hhi). right. cbn [fst snd].
  split; [exact Hh|]. split; [exact Ht|]. exists s. split; [exact Hn|]. lia.
Qed.

Lemma covers_range (l : log T) all sg o :
  WFs size l all -> Covers l sg o -> base_of l <= o /\ o < lenN all.
Proof.
  intros W (Hh & Ht & s & Hn & Hlo & Hhi).
  apply nth_error_split in Hn. destruct Hn as (pre & more & E & _).
  destruct (wfs_split size l all pre s more W E) as (_ & Ha & Hd & _).
  rewrite lenD_cons in Hd. lia.
Qed.

(** a tag names one segment only: segments holding an offset are unique *)
Lemma chain_nth_ge (ss : list (segment T)) : forall a j sj,
  chain a ss -> nth_error ss j = Some sj -> a <= s_abs sj.
Proof.
  induction ss as [|s r IH]; intros a j sj Hc Hj; [destruct j; discriminate|].
  destruct Hc as [Ha Hc]. destruct j as [|j]; cbn [nth_error] in Hj.
  - injection Hj as <-. lia.
  - specialize (IH _ _ _ Hc Hj). lia.
Qed.

Lemma chain_nth_le (ss : list (segment T)) : forall a i j si sj,
  chain a ss -> nth_error ss i = Some si -> nth_error ss j = Some sj -> (i < j)%nat ->
  s_abs si + seg_len si <= s_abs sj.
Proof.
  induction ss as [|s r IH]; intros a i j si sj Hc Hi Hj Hlt; [destruct i; discriminate|].
  destruct Hc as [Ha Hc]. destruct j as [|j]; [lia|]. cbn [nth_error] in Hj.
  destruct i as [|i]; cbn [nth_error] in Hi.
  - injection Hi as <-. pose proof (chain_nth_ge r _ _ _ Hc Hj). lia.
  - apply (IH (a + seg_len s) i j si sj Hc Hi Hj). lia.
Qed.

Lemma covers_unique (l : log T) all sg sg' o :
  WFs size l all -> Covers l sg o -> Covers l sg' o -> sg = sg'.
Proof.
  intros W (Hh & Ht & s & Hn & Hlo & Hhi) (Hh' & Ht' & s' & Hn' & Hlo' & Hhi').
  pose proof (wf_chain size l all W) as Hc.
  destruct (N.lt_trichotomy sg sg') as [Hlt | [Heq | Hgt]]; [|exact Heq|].
  - pose proof (chain_nth_le _ _ _ _ _ _ Hc Hn Hn'). lia.
  - pose proof (chain_nth_le _ _ _ _ _ _ Hc Hn' Hn). lia.
Qed.

(* ---------- readv from an issued cursor ---------- *)

Lemma mkpos_start b s e : pos_start (mkpos b s e) = s.
Proof. destruct b; reflexivity. Qed.
Lemma mkpos_end b s e : pos_end (mkpos b s e) = e.
Proof. destruct b; reflexivity. Qed.
Lemma mkpos_done b s e : is_done (mkpos b s e) = b.
Proof. destruct b; reflexivity. Qed.

Lemma window_length (l : log T) p n :
  length (window l p n) = Nat.min (N.to_nat n) (N.to_nat (lenD (segs l)) - N.to_nat (p - base_of l)).
Proof.
  unfold window. rewrite firstn_length, skipn_length, tagged_length. unfold lenD, lenN. lia.
Qed.

Lemma end_cursor_facts (l : log T) all e :
  WFs size l all -> base_of l <= e -> e <= lenN all ->
  let c := canon (head l) (segs l) e in
  Issued l c /\ stale l c = false /\ snd c = e /\
  (Covers l (fst c) (snd c) \/ (fst c = tail l /\ snd c = lenN all)).
Proof.
  intros W Hlo Hhi c. pose proof (wfs_end size l all W) as He.
  pose proof (wf_count size l all W) as Hcnt.
  destruct (canon_spec (segs l) (head l) (base_of l) e) as (i & s & Hn & Hc & H1 & H2 & H3);
    [apply (wf_ne size l all W) | apply (wf_chain size l all W) | lia | lia |].
  unfold c. rewrite Hc. cbn [fst snd].
  assert (Hi : (i < length (segs l))%nat) by (apply nth_error_Some; congruence).
  assert (Hidx : N.to_nat (head l + N.of_nat i - head l) = i) by lia.
  assert (Hrange : head l <= head l + N.of_nat i /\ head l + N.of_nat i <= tail l) by (unfold lenN in Hcnt; lia).
  split.
  - right. cbn [fst snd]. split; [lia|]. split; [lia|]. exists s. rewrite Hidx. auto.
  - split; [unfold stale; cbn [fst]; destruct (N.ltb_spec (head l + N.of_nat i) (head l)); [lia | reflexivity]|].
    split; [reflexivity|].
    destruct (N.ltb_spec e (s_abs s + seg_len s)) as [Hlt | Hge].
    + left. unfold Covers. split; [lia|]. split; [lia|]. exists s. rewrite Hidx. auto.
    + right. destruct H3 as [H3 | H3]; [lia|]. split; [unfold lenN in Hcnt; lia|].
      apply nth_error_split in Hn. destruct Hn as (pre & more & E & Hpre).
      destruct (wfs_split size l all pre s more W E) as (_ & _ & Hd & _).
      assert (more = []).
      { rewrite E, app_length in H3. cbn [length] in H3. destruct more; [reflexivity | cbn [length] in H3; lia]. }
      subst more. rewrite lenD_cons, lenD_nil in Hd. lia.
Qed.

Theorem readv_exact (l : log T) all c n :
  WF size l all -> Issued l c -> 2 * lenN all < U64 -> snd c + n < U64 ->
  exists pos out,
    readv l c n = Ok (pos, out) /\
    let p := pos_of l c in
    base_of l <= p /\ p <= lenN all /\
    map fst out = firstn (N.to_nat n) (skipn (N.to_nat p) all) /\
    map (fun e => snd (snd e)) out = Nseq p (length out) /\
    Forall (fun e => Covers l (fst (snd e)) (snd (snd e))) out /\
    pos_start pos = (if stale l c then (head l, base_of l) else c) /\
    Issued l (pos_end pos) /\ stale l (pos_end pos) = false /\
    snd (pos_end pos) = p + lenN out /\
    (Covers l (fst (pos_end pos)) (snd (pos_end pos)) \/
     (fst (pos_end pos) = tail l /\ snd (pos_end pos) = lenN all)) /\
    (is_done pos = true <-> p + lenN out = lenN all).
Proof.
  intros WFl Hi Hov Hn. pose proof WFl as [W _].
  pose proof (readv_exact_l size l all c n WFl Hi Hov Hn) as Hr. cbn zeta in Hr.
  destruct (issued_pos size l all c W Hi) as [Hplo Hphi].
  pose proof (wfs_end size l all W) as Hend.
  set (p := pos_of l c) in *. set (out := window l p n) in *.
  eexists. exists out. split; [exact Hr|]. cbn zeta.
  assert (Hlen : length out = Nat.min (N.to_nat n) (N.to_nat (lenD (segs l)) - N.to_nat (p - base_of l)))
    by apply window_length.
  assert (He : p + lenN out <= lenN all) by (unfold lenN at 1; lia).
  rewrite mkpos_start, mkpos_end, mkpos_done.
  destruct (end_cursor_facts l all (p + lenN out) W) as (HI & HS & Hsnd & Hcan); [lia | lia |].
  split; [exact Hplo|]. split; [exact Hphi|].
  split.
  { unfold out, window. rewrite <- firstn_map, <- skipn_map, tagged_map_fst. f_equal.
    destruct (wf_all size l all W) as (d & Hd & Hl). rewrite Hd.
    rewrite skipn_app_exact by (unfold lenN in Hl; lia). f_equal. unfold lenN in Hl. lia. }
  split.
  { unfold out at 1. unfold window. rewrite <- firstn_map, <- skipn_map.
    rewrite (tagged_offsets _ _ _ (wf_chain size l all W)).
    rewrite Nseq_skipn, Nseq_firstn, tagged_length. fold (lenN (concat (map (@s_data T) (segs l)))).
    f_equal; [lia|]. rewrite Hlen. unfold lenD, lenN. lia. }
  split.
  { rewrite Forall_forall. intros [x [sg o]] Hin. cbn [fst snd].
    apply (covers_of_tagged l all x sg o W).
    unfold out, window in Hin. apply In_firstn in Hin. now apply In_skipn in Hin. }
  split; [reflexivity|]. split; [exact HI|]. split; [exact HS|]. split; [exact Hsnd|].
  split; [exact Hcan|].
  destruct (N.eqb_spec (p + lenN out) (lenN all)); split; congruence.
Qed.

(** reading n1 and then n2 from the continuation is reading n1 + n2 *)
Theorem readv_resume (l : log T) all c n1 n2 pos1 out1 pos2 out2 :
  WF size l all -> Issued l c -> 2 * lenN all < U64 ->
  snd c + (n1 + n2) < U64 -> snd (pos_end pos1) + n2 < U64 ->
  readv l c n1 = Ok (pos1, out1) ->
  readv l (pos_end pos1) n2 = Ok (pos2, out2) ->
  readv l c (n1 + n2) =
    Ok ((if is_done pos2 then Done else Next) (pos_start pos1) (pos_end pos2), out1 ++ out2).
Proof.
  intros WFl Hi Hov Hn Hn2 R1 R2. pose proof WFl as [W _].
  destruct (issued_pos size l all c W Hi) as [Hplo Hphi].
  pose proof (wfs_end size l all W) as Hend.
  pose proof (readv_exact_l size l all c n1 WFl Hi Hov) as E1. cbn zeta in E1.
  rewrite E1 in R1 by lia. injection R1 as <- <-. clear E1.
  set (p := pos_of l c) in *. set (o1 := window l p n1) in *.
  assert (Hlen1 : length o1 = Nat.min (N.to_nat n1) (N.to_nat (lenD (segs l)) - N.to_nat (p - base_of l)))
    by apply window_length.
  rewrite mkpos_end in R2, Hn2. rewrite mkpos_start.
  destruct (end_cursor_facts l all (p + lenN o1) W) as (HI & HS & Hsnd & _); [lia | unfold lenN at 1; lia |].
  pose proof (readv_exact_l size l all _ n2 WFl HI Hov Hn2) as E2. cbn zeta in E2.
  rewrite E2 in R2. injection R2 as <- <-. clear E2.
  unfold pos_of. rewrite HS, Hsnd. rewrite mkpos_end, mkpos_done.
  pose proof (readv_exact_l size l all c (n1 + n2) WFl Hi Hov Hn) as E12. cbn zeta in E12.
  rewrite E12. clear E12. fold p.
  assert (Hout : window l p (n1 + n2) = o1 ++ window l (p + lenN o1) n2).
  { unfold o1, window. replace (N.to_nat (n1 + n2)) with (N.to_nat n1 + N.to_nat n2)%nat by lia.
    rewrite firstn_add_skip. f_equal. f_equal. rewrite skipn_twice. f_equal.
    fold (window l p n1). fold o1. unfold lenN. lia. }
  rewrite Hout, lenN_app.
  replace (p + (lenN o1 + lenN (window l (p + lenN o1) n2))) with (p + lenN o1 + lenN (window l (p + lenN o1) n2)) by lia.
  unfold mkpos. destruct (p + lenN o1 + lenN (window l (p + lenN o1) n2) =? lenN all); reflexivity.
Qed.

(* ---------- new / next_offset ---------- *)

Theorem new_spec (ms mm : N) :
  (1024 <= ms -> 1 <= mm ->
   exists l : log T, new ms mm = Ok l /\ WF size l [] /\ max_seg l = ms /\ max_mem l = mm /\
                     head l = 0 /\ tail l = 0 /\ segs l = [seg_new]) /\
  (ms < 1024 \/ mm < 1 -> is_panic (@new T ms mm) = true).
Proof.
  unfold new. split.
  - intros Hs Hm. destruct (N.ltb_spec ms 1024); [lia|]. destruct (N.ltb_spec mm 1); [lia|].
    eexists. split; [reflexivity|]. cbn [max_seg max_mem head tail segs].
    split; [|repeat split; reflexivity].
    split; [|cbn [head tail]; lia].
    constructor; cbn [max_seg max_mem head tail segs]; try lia; try discriminate;
      try (cbn; lia); try (repeat constructor; fail); try (exists []; split; reflexivity).
  - intros [H | H].
    + destruct (N.ltb_spec ms 1024); [reflexivity | lia].
    + destruct (N.ltb_spec ms 1024); [reflexivity|]. destruct (N.ltb_spec mm 1); [reflexivity | lia].
Qed.

Lemma issued_head (l : log T) all : WFs size l all -> Issued l (head l, base_of l).
Proof.
  intros W. right. cbn [fst snd]. pose proof (wf_count size l all W) as Hc.
  destruct (segs l) as [|s r] eqn:E; [now destruct (wf_ne size l all W)|].
  rewrite lenN_cons in Hc. split; [lia|]. split; [lia|]. exists s.
  replace (N.to_nat (head l - head l)) with O by lia. unfold base_of. rewrite E.
  split; [reflexivity|]. lia.
Qed.

(* ---------- histories ---------- *)

Record Inv (ms mm : N) (st : state T) (all : list T) : Prop := {
  inv_wf : WF size (lg st) all;
  inv_ms : max_seg (lg st) = ms;
  inv_mm : max_mem (lg st) = mm;
  inv_pool : Forall (fun c => Issued (lg st) c /\ snd c <= lenN all) (pool st);
}.

Lemma pool_pick_In (pl : list cursor) fe k c : pool_pick pl fe k = Some c -> In c pl.
Proof.
  unfold pool_pick. destruct pl as [|c0 pl']; [discriminate|].
  destruct (nth_rest (c0 :: pl') _) as [[c' r]|] eqn:E; [|discriminate].
  intros H. injection H as <-. apply nth_rest_split in E. destruct E as (pre & E & _).
  rewrite E. apply in_or_app. right. now left.
Qed.

Lemma step_inv ms mm b (st : state T) all (o : op T) :
  Inv ms mm st all -> op_ok size ms b o ->
  lenN all + lenN (appended [o]) <= b -> 2 * b < U64 ->
  exists st' a, step size st o = Ok (st', a) /\ Inv ms mm st' (all ++ appended [o]).
Proof.
  intros [WFl Hms Hmm Hpool] Hok Hb Hov. pose proof WFl as [W _].
  destruct o as [x | c n | fe k n |]; cbn [appended] in *; cbn [op_ok] in Hok; cbn [step].
  - (* append *)
    rewrite lenN_cons, lenN_nil in Hb.
    destruct (append_spec size (lg st) all x WFl) as (l' & Happ & W' & Hsh & Hms' & Hmm' & _ & _ & Hcov);
      [rewrite Hms; lia | lia |].
    rewrite Happ. cbn [bind]. eexists. eexists. split; [reflexivity|].
    constructor; cbn [lg pool]; try assumption; try congruence.
    apply Forall_app. split.
    + rewrite Forall_forall in *. intros c Hc. destruct (Hpool c Hc) as [Hi Hle].
      split; [eapply issued_append; eassumption|]. rewrite lenN_app, lenN_cons, lenN_nil. lia.
    + constructor; [|constructor]. cbn [snd]. rewrite lenN_app, lenN_cons, lenN_nil. split; [|lia].
      destruct W' as [W' _].
      destruct (next_offset_spec size l' (all ++ [x]) W') as [_ Hi].
      * rewrite lenN_app, lenN_cons, lenN_nil. lia.
      * rewrite lenN_app, lenN_cons, lenN_nil in Hi. exact Hi.
  - (* read from a literal cursor: no panic, state unchanged *)
    rewrite app_nil_r. rewrite lenN_nil in Hb.
    destruct (readv_total size (lg st) all c n W) as [[p out] Hr]; [lia | lia |].
    rewrite Hr. cbn [bind]. eexists. eexists. split; [reflexivity|].
    constructor; assumption.
  - (* read from a pool cursor *)
    rewrite app_nil_r. rewrite lenN_nil in Hb.
    destruct (pool_pick (pool st) fe k) as [c|] eqn:Epick.
    2:{ eexists. eexists. split; [reflexivity|]. constructor; assumption. }
    apply pool_pick_In in Epick. rewrite Forall_forall in Hpool.
    destruct (Hpool c Epick) as [Hi Hle].
    destruct (readv_exact (lg st) all c n WFl Hi) as (pos & out & Hr & Hfacts); [lia | lia |].
    cbn zeta in Hfacts.
    destruct Hfacts as (Hplo & Hphi & _ & _ & Hcov & Hstart & Hiend & Hsend & _ & _ & _).
    rewrite Hr. cbn [bind]. eexists. eexists. split; [reflexivity|].
    constructor; cbn [lg pool]; try assumption.
    apply Forall_app. split; [rewrite Forall_forall; exact Hpool|].
    constructor; [|constructor].
    + rewrite Hstart. destruct (stale (lg st) c).
      * split; [apply (issued_head (lg st) all W)|]. cbn [snd].
        pose proof (wfs_end size (lg st) all W). lia.
      * split; assumption.
    + split; [exact Hiend|].
      destruct (issued_pos size (lg st) all _ W Hiend) as [_ H]. unfold pos_of in H.
      rewrite Hsend in H. exact H.
    + rewrite Forall_forall in *. intros c' Hc'. apply in_map_iff in Hc'.
      destruct Hc' as ([x [sg o]] & <- & Hin). specialize (Hcov _ Hin). cbn [fst snd] in *.
      split; [now apply covers_issued|]. destruct (covers_range (lg st) all sg o W Hcov). lia.
  - (* next_offset *)
    rewrite app_nil_r. rewrite lenN_nil in Hb.
    destruct (next_offset_spec size (lg st) all W) as [Hno Hi]; [lia|].
    rewrite Hno. cbn [bind]. eexists. eexists. split; [reflexivity|].
    constructor; cbn [lg pool]; try assumption.
    apply Forall_app. split; [assumption|]. constructor; [|constructor]. cbn [snd]. split; [exact Hi | lia].
Qed.

Lemma appended_cons (o : op T) r : appended (o :: r) = appended [o] ++ appended r.
Proof. destruct o; reflexivity. Qed.

Lemma run_inv ms mm b : forall (ops : list (op T)) (st : state T) all,
  Inv ms mm st all -> Forall (op_ok size ms b) ops ->
  lenN all + lenN (appended ops) <= b -> 2 * b < U64 ->
  exists st' az, run size st ops = Ok (st', az) /\ Inv ms mm st' (all ++ appended ops) /\
                 length az = length ops.
Proof.
  induction ops as [|o r IH]; intros st all HI Hok Hb Hov.
  - exists st, []. cbn [run appended]. rewrite app_nil_r. auto.
  - rewrite appended_cons in Hb |- *. rewrite lenN_app in Hb.
    destruct (step_inv ms mm b st all o HI (Forall_inv Hok)) as (st1 & a & Hs & HI1); [lia | lia |].
    destruct (IH st1 (all ++ appended [o]) HI1 (Forall_inv_tail Hok)) as (st2 & az & Hr & HI2 & Hl);
      [rewrite lenN_app; lia | lia |].
    cbn [run]. rewrite Hs. cbn [bind]. rewrite Hr. cbn [bind].
    eexists. eexists. split; [reflexivity|]. rewrite <- app_assoc in HI2. split; [exact HI2|].
    cbn [length]. now rewrite Hl.
Qed.

(** Every history from [new]: no op panics, the invariant holds at the end (hence after every
    prefix), every pool cursor is issued, at most max_mem segments are held. *)
Theorem history_inv (ms mm : N) (ops : list (op T)) :
  1024 <= ms -> 1 <= mm ->
  2 * lenN (appended ops) < U64 ->
  Forall (op_ok size ms (lenN (appended ops))) ops ->
  exists st az,
    (do s0 <- init ms mm; run size s0 ops) = Ok (st, az) /\
    length az = length ops /\
    WF size (lg st) (appended ops) /\
    Forall (Issued (lg st)) (pool st) /\
    lenN (segs (lg st)) <= mm /\ max_seg (lg st) = ms /\ max_mem (lg st) = mm.
Proof.
  intros Hs Hm Hov Hok.
  destruct (new_spec ms mm) as [Hnew _].
  destruct (Hnew Hs Hm) as (l0 & Hn & W0 & Hms & Hmm & _).
  unfold init. rewrite Hn. cbn [bind].
  assert (HI0 : Inv ms mm {| lg := l0; pool := [] |} []) by (constructor; cbn [lg pool]; auto).
  destruct (run_inv ms mm (lenN (appended ops)) ops _ [] HI0 Hok) as (st & az & Hr & [WFl Hms' Hmm' Hp] & Hl);
    [rewrite lenN_nil; lia | lia |].
  cbn [app] in *. exists st, az. split; [exact Hr|]. split; [exact Hl|]. split; [exact WFl|].
  split; [|split; [|split; assumption]].
  - rewrite Forall_forall in *. intros c Hc. apply (Hp c Hc).
  - rewrite <- Hmm'. apply (wf_mem size _ _ (proj1 WFl)).
Qed.

(** retention bound for every history (projection of [history_inv]) *)
Theorem retention_bound (ms mm : N) (ops : list (op T)) :
  1024 <= ms -> 1 <= mm ->
  2 * lenN (appended ops) < U64 ->
  Forall (op_ok size ms (lenN (appended ops))) ops ->
  exists st az,
    (do s0 <- init ms mm; run size s0 ops) = Ok (st, az) /\
    1 <= lenN (segs (lg st)) /\ lenN (segs (lg st)) <= mm /\
    tail (lg st) + 1 = head (lg st) + lenN (segs (lg st)).
Proof.
  intros Hs Hm Hov Hok.
  destruct (history_inv ms mm ops Hs Hm Hov Hok) as (st & az & Hr & _ & [W _] & _ & Hle & _).
  exists st, az. split; [exact Hr|]. pose proof (wf_count size _ _ W). pose proof (wf_ne size _ _ W) as Hne.
  split; [|split; [exact Hle | lia]].
  destruct (segs (lg st)); [congruence | rewrite lenN_cons; lia].
Qed.

(** a cursor issued before an append is still an issued cursor after it *)
Theorem issued_preserved (l l' : log T) all x r c :
  WF size l all -> size x + max_seg l <= U64 -> lenN all + 1 < U64 ->
  append size l x = Ok (l', r) -> Issued l c -> Issued l' c.
Proof.
  intros WFl Hsz Hov Happ Hi.
  destruct (append_spec size l all x WFl Hsz Hov) as (l2 & Happ2 & _ & Hsh & _).
  rewrite Happ2 in Happ. injection Happ as <- _. eapply issued_append; eassumption.
Qed.

(** resuming across an append: the continuation of a read, used after a later append, yields
    the entries from where the first read stopped (or from the new base if that position was
    evicted by the append, which is then at or after it), including the appended entry *)
Theorem readv_resume_append (l l' : log T) all c n1 n2 pos1 out1 x r :
  WF size l all -> Issued l c -> 2 * (lenN all + 1) < U64 -> snd c + n1 < U64 ->
  size x + max_seg l <= U64 ->
  readv l c n1 = Ok (pos1, out1) -> append size l x = Ok (l', r) ->
  snd (pos_end pos1) + n2 < U64 ->
  exists pos2 out2,
    readv l' (pos_end pos1) n2 = Ok (pos2, out2) /\
    let q := if stale l' (pos_end pos1) then base_of l' else pos_of l c + lenN out1 in
    pos_of l c + lenN out1 <= q /\
    map fst out2 = firstn (N.to_nat n2) (skipn (N.to_nat q) (all ++ [x])) /\
    (is_done pos2 = true <-> q + lenN out2 = lenN all + 1).
Proof.
  intros WFl Hi Hov Hn1 Hsz R1 Happ Hn2. pose proof WFl as [W _].
  destruct (readv_exact l all c n1 WFl Hi) as (pos & out & Hr & F); [lia | lia |].
  rewrite Hr in R1. injection R1 as -> ->. cbn zeta in F.
  destruct F as (_ & _ & _ & _ & _ & _ & Hiend & Hst & Hsnd & _ & _).
  destruct (append_spec size l all x WFl Hsz) as (l2 & Happ2 & W' & Hsh & _); [lia|].
  rewrite Happ2 in Happ. injection Happ as <- _.
  pose proof (issued_append size l l2 x _ Hsh Hiend) as HI'.
  destruct (readv_exact l2 (all ++ [x]) (pos_end pos1) n2 W' HI') as (pos2 & out2 & Hr2 & F2);
    [rewrite lenN_app, lenN_cons, lenN_nil; lia | lia |].
  cbn zeta in F2. destruct F2 as (_ & _ & Hmap & _ & _ & _ & _ & _ & _ & _ & Hdone).
  exists pos2, out2. split; [exact Hr2|]. cbn zeta.
  unfold pos_of in Hmap, Hdone. rewrite Hsnd in Hmap, Hdone.
  rewrite lenN_app, lenN_cons, lenN_nil in Hdone. fold (pos_of l c) in *.
  replace (lenN all + (0 + 1)) with (lenN all + 1) in Hdone by lia.
  split; [|split; assumption].
  destruct (stale l2 (pos_end pos1)) eqn:Est; [|lia].
  unfold stale in Hst, Est. apply N.ltb_lt in Est. apply N.ltb_ge in Hst.
  destruct Hsh as [i a _ _ Hh _ | f _ _ Hh _ | s0 rest f Es Es' Hf Hh _]; [lia | lia |].
  destruct Hiend as [? | (_ & _ & s & Hn & _ & Hhi)]; [lia|].
  replace (N.to_nat (fst (pos_end pos1) - head l)) with O in Hn by lia.
  rewrite Es in Hn. cbn [nth_error] in Hn. injection Hn as <-.
  destruct W' as [W' _].
  pose proof (wfs_end size l all W) as He. pose proof (wfs_end size l2 _ W') as He'.
  rewrite Es, lenD_cons in He. rewrite Es', lenD_app, lenD_cons, lenD_nil in He'.
  unfold seg_len at 1 in He'. cbn [pushed s_data] in He'. rewrite Hf in He'.
  rewrite lenN_app, lenN_cons, !lenN_nil in He'.
  assert (Hb : base_of l = s_abs s0) by (unfold base_of; now rewrite Es).
  assert (HL : lenN (all ++ [x]) = lenN all + 1) by (unfold lenN; rewrite app_length; cbn [length]; lia).
  rewrite HL in He'. fold (pos_of l c) in Hsnd. lia.
Qed.

Theorem next_offset_issued (l : log T) all :
  WF size l all -> lenN all < U64 ->
  next_offset l = Ok (tail l, lenN all) /\ Issued l (tail l, lenN all) /\ stale l (tail l, lenN all) = false.
Proof.
  intros [W _] Hov. destruct (next_offset_spec size l all W Hov) as [H1 H2].
  split; [exact H1|]. split; [exact H2|]. unfold stale. cbn [fst].
  pose proof (wf_count size l all W). pose proof (wf_ne size l all W) as Hne.
  destruct (N.ltb_spec (tail l) (head l)); [|reflexivity].
  destruct (segs l); [congruence | rewrite lenN_cons in *; lia].
Qed.

End Proofs.

(* ---------- non-vacuity: the hypotheses hold of a reachable log that has evicted a segment ---------- *)

Definition ex_ops : list (op item) :=
  [OpA (1, 600); OpA (2, 600); OpA (3, 1); OpA (4, 2000); OpA (5, 1)].

(** after [ex_ops] on (1024, 2): segment 0 = entries 0,1 was evicted; segment 1 = entries 2,3;
    segment 2 (active) = entry 4.  The theorems' hypotheses hold of this log, for a stale
    cursor (0,1), a mid-segment cursor (1,3) and the tail cursor (2,5); the stale read crosses
    a segment boundary and resumes at the oldest retained entry. *)
Example ex_reachable :
  exists st az,
    (do s0 <- init 1024 2; run item_size s0 ex_ops) = Ok (st, az) /\
    WF item_size (lg st) (appended ex_ops) /\
    head (lg st) = 1 /\ tail (lg st) = 2 /\ base_of (lg st) = 2 /\
    2 * lenN (appended ex_ops) < U64 /\
    Issued (lg st) (0, 1) /\ stale (lg st) (0, 1) = true /\
    Issued (lg st) (1, 3) /\ Issued (lg st) (2, 5) /\
    readv (lg st) (0, 1) 100 =
      Ok (Done (1, 2) (2, 5), [((3, 1), (1, 2)); ((4, 2000), (1, 3)); ((5, 1), (2, 4))]) /\
    readv (lg st) (1, 3) 1 = Ok (Next (1, 3) (2, 4), [((4, 2000), (1, 3))]) /\
    (forall x : item, snd x < 1000 -> item_size x + max_seg (lg st) <= U64).
Proof.
  assert (Hok : Forall (op_ok item_size 1024 (lenN (appended ex_ops))) ex_ops).
  { unfold ex_ops. repeat (apply Forall_cons; [cbn; unfold U64; lia|]). apply Forall_nil. }
  assert (Hov : 2 * lenN (appended ex_ops) < U64) by (vm_compute; reflexivity).
  destruct (history_inv item_size 1024 2 ex_ops) as (st & az & Hr & _ & W & _); try lia; try assumption.
  exists st, az. split; [exact Hr|]. split; [exact W|].
  vm_compute in Hr. injection Hr as <- <-. cbn [lg head tail].
  split; [reflexivity|]. split; [reflexivity|]. split; [reflexivity|]. split; [exact Hov|].
  split; [left; cbn; lia|]. split; [reflexivity|].
  split.
  { right. cbn [fst snd head tail]. split; [lia|]. split; [lia|]. eexists. split; [reflexivity|]. cbn. lia. }
  split.
  { right. cbn [fst snd head tail]. split; [lia|]. split; [lia|]. eexists. split; [reflexivity|]. cbn. lia. }
  split; [vm_compute; reflexivity|]. split; [vm_compute; reflexivity|].
  intros x Hx. unfold item_size. cbn [max_seg]. unfold U64. lia.
Qed.

(** the configuration precondition is needed: [new] panics below 1 KiB / without a segment *)
Example ex_new_panics : is_panic (@new item 1023 1) = true /\ is_panic (@new item 1024 0) = true.
Proof. split; reflexivity. Qed.

(** the [off + n < 2^64] hypothesis of [readv_total] is needed: [idx + len] overflows *)
Example ex_len_overflow :
  is_panic (do s0 <- init 1024 1;
            run item_size s0 [OpA (1, 1); OpA (2, 1); OpR (0, 1) (U64 - 1)]) = true.
Proof. vm_compute. reflexivity. Qed.
