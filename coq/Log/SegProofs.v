(** Segment::readv / push / next_offset: closed forms under the no-overflow hypotheses. *)
From Rumqtt Require Import Log.Spec Log.ListFacts.
From Coq Require Import Arith ZifyBool ZifyN ZifyNat.

Section SegProofs.
Context {T : Type}.

Lemma add64_ok a b : a + b < U64 -> add64 a b = Ok (a + b).
Proof. intros H. unfold add64. destruct (N.ltb_spec (a + b) U64); [reflexivity | lia]. Qed.

Lemma sub64_ok tag a b : b <= a -> sub64 tag a b = Ok (a - b).
Proof. intros H. unfold sub64. destruct (N.leb_spec b a); [reflexivity | lia]. Qed.

Lemma tag_from_app sg (a b : list T) : forall off,
  tag_from sg off (a ++ b) = tag_from sg off a ++ tag_from sg (off + lenN a) b.
Proof.
  induction a as [|x a IH]; intros off; cbn [app tag_from].
  - rewrite lenN_nil. f_equal. lia.
  - rewrite IH, lenN_cons. do 3 f_equal. lia.
Qed.

Lemma tag_from_length sg (a : list T) : forall off, length (tag_from sg off a) = length a.
Proof. induction a as [|x a IH]; intros off; cbn [tag_from length]; [reflexivity|]. now rewrite IH. Qed.

Lemma tag_from_skipn sg (a : list T) : forall k off,
  skipn k (tag_from sg off a) = tag_from sg (off + N.of_nat (Nat.min k (length a))) (skipn k a).
Proof.
  induction a as [|x a IH]; intros k off.
  - rewrite !skipn_nil. reflexivity.
  - destruct k as [|k].
    + cbn [skipn Nat.min]. replace (off + N.of_nat 0) with off by lia. reflexivity.
    + cbn [skipn tag_from length]. rewrite IH. f_equal. lia.
Qed.

Lemma tag_from_firstn sg (a : list T) : forall k off,
  firstn k (tag_from sg off a) = tag_from sg off (firstn k a).
Proof.
  induction a as [|x a IH]; intros k off.
  - rewrite !firstn_nil. reflexivity.
  - destruct k as [|k]; cbn [firstn tag_from]; [reflexivity|]. now rewrite IH.
Qed.

Lemma tag_from_map_fst sg (a : list T) : forall off, map fst (tag_from sg off a) = a.
Proof. induction a as [|x a IH]; intros off; cbn [tag_from map fst]; [reflexivity|]. now rewrite IH. Qed.

Lemma tag_from_offsets sg (a : list T) : forall off,
  map (fun e => snd (snd e)) (tag_from sg off a) = Nseq off (length a).
Proof.
  induction a as [|x a IH]; intros off; cbn [tag_from map length Nseq snd]; [reflexivity|].
  now rewrite IH.
Qed.

Lemma tag_from_In sg (a : list T) : forall off x s o,
  In (x, (s, o)) (tag_from sg off a) -> s = sg /\ off <= o /\ o < off + lenN a.
Proof.
  induction a as [|y a IH]; intros off x s o H; cbn [tag_from In] in H; [contradiction|].
  rewrite lenN_cons. destruct H as [H | H].
  - injection H as _ <- <-. repeat split; lia.
  - apply IH in H. destruct H as (-> & H1 & H2). repeat split; lia.
Qed.

Lemma seg_next_offset_ok (s : segment T) :
  s_abs s + seg_len s < U64 -> seg_next_offset s = Ok (s_abs s + seg_len s).
Proof. intros H. unfold seg_next_offset. now apply add64_ok. Qed.

(** closed form of Segment::readv for any cursor offset at or after the segment's start *)
Lemma seg_readv_cases (s : segment T) (c : cursor) (n : N) :
  s_abs s <= snd c ->
  2 * (s_abs s + seg_len s) < U64 ->
  snd c - s_abs s + n < U64 ->
  let idx := snd c - s_abs s in
  seg_readv s c n =
    if seg_len s <=? idx then Ok (SDone (s_abs s + seg_len s), [])
    else if seg_len s <=? idx + n
         then Ok (SDone (s_abs s + seg_len s),
                  tag_from (fst c) (snd c) (skipn (N.to_nat idx) (s_data s)))
         else Ok (SNext (snd c + n),
                  tag_from (fst c) (snd c) (firstn (N.to_nat n) (skipn (N.to_nat idx) (s_data s)))).
Proof.
  intros Habs Hov Hn idx. unfold seg_readv.
  rewrite sub64_ok by assumption. cbn [bind].
  assert (Hidx : idx = snd c - s_abs s) by reflexivity. rewrite <- Hidx. clearbody idx.
  assert (Hlen : seg_len s = N.of_nat (length (s_data s))) by reflexivity.
  destruct (N.leb_spec (seg_len s) idx) as [Hge | Hlt].
  - rewrite seg_next_offset_ok by lia. reflexivity.
  - rewrite add64_ok by lia. cbn [bind].
    destruct (N.leb_spec (seg_len s) (idx + n)) as [Hge2 | Hlt2].
    + rewrite add64_ok by lia. cbn [bind].
      destruct (N.leb_spec idx (seg_len s)) as [_ | ?]; [|lia].
      destruct (N.leb_spec (seg_len s) (seg_len s)) as [_ | ?]; [|lia].
      cbn [andb bind]. rewrite seg_next_offset_ok by lia. cbn [bind].
      rewrite firstN_firstn, skipN_skipn. rewrite firstn_all2; [reflexivity|].
      rewrite skipn_length. lia.
    + rewrite add64_ok by lia. cbn [bind].
      destruct (N.leb_spec idx (idx + n)) as [_ | ?]; [|lia].
      destruct (N.leb_spec (idx + n) (seg_len s)) as [_ | ?]; [|lia].
      cbn [andb bind]. rewrite add64_ok by lia. cbn [bind].
      rewrite firstN_firstn, skipN_skipn.
      replace (idx + n - idx) with n by lia.
      replace (s_abs s + (idx + n)) with (snd c + n) by lia. reflexivity.
Qed.

Lemma sum_size_app (size : T -> N) (a b : list T) : sum_size size (a ++ b) = sum_size size a + sum_size size b.
Proof.
  unfold sum_size. induction a as [|x a IH]; cbn [app fold_right]; [reflexivity|].
  rewrite IH. lia.
Qed.

End SegProofs.
