(** CommitLog::readv, top level: totality for every cursor; exact result for issued cursors. *)
From Rumqtt Require Import Log.Spec Log.ListFacts Log.SegProofs Log.ReadProofs Log.WfFacts.
From Coq Require Import Arith ZifyBool ZifyN ZifyNat.

Section ReadTop.
Context {T : Type} (size : T -> N).

(* ---------- readv: never panics, for ANY cursor ---------- *)

Theorem readv_total (l : log T) all c n :
  WFs size l all -> 2 * lenN all < U64 -> snd c + n < U64 ->
  exists r, readv l c n = Ok r.
Proof.
  intros W Hov Hn. unfold readv.
  destruct (N.ltb_spec (tail l) (fst c)) as [Hbeyond | Hin]; [eexists; reflexivity|].
  pose proof (wf_count size l all W) as Hcnt. pose proof (wfs_tail_le size l all W) as Htl.
  assert (Hgo : forall cur start, head l <= fst cur -> fst cur <= tail l ->
    (forall pre curr more, segs l = pre ++ curr :: more -> lenN pre = fst cur - head l ->
       snd cur - s_abs curr + n < U64) ->
    exists r,
      (do idx <- sub64 P_SUB_HEAD (fst cur) (head l);
       match nth_rest (segs l) idx with
       | None => Panic P_INDEX
       | Some (curr, more) =>
           let '(cur, start) :=
             if snd cur <? s_abs curr
             then ((fst cur, s_abs curr), (fst start, s_abs curr))
             else (cur, start) in
           readv_walk (tail l) start cur n curr more
       end) = Ok r).
  { intros cur start Hh Ht Hn'. rewrite sub64_ok by lia. cbn [bind].
    destruct (nth_rest (segs l) (fst cur - head l)) as [[curr more]|] eqn:E.
    2:{ apply nth_rest_none in E. lia. }
    apply nth_rest_split in E. destruct E as (pre & E & Hpre).
    destruct (wfs_split size l all pre curr more W E) as (Hc & Ha & Hd & Htail).
    specialize (Hn' pre curr more E Hpre).
    destruct cur as [sg off]. cbn [fst snd] in *.
    destruct (N.ltb_spec off (s_abs curr)) as [Hjump | Hno].
    - apply walk_total; try assumption; try lia.
    - apply walk_total; try assumption; try lia. }
  destruct (N.ltb_spec (fst c) (head l)) as [Hstale | Hlive].
  - destruct (segs l) as [|s r] eqn:E; [now destruct (wf_ne size l all W)|].
    cbn [bind]. rewrite <- E in Hgo. rewrite <- E. rewrite lenN_cons in Hcnt.
    apply Hgo; cbn [fst snd]; try lia.
    intros pre curr more E2 Hpre. replace (head l - head l) with 0 in Hpre by lia.
    destruct pre; [|rewrite lenN_cons in Hpre; lia].
    rewrite E in E2. injection E2 as <- <-. lia.
  - cbn [bind]. apply Hgo; lia.
Qed.

(* ---------- readv from an issued cursor: exact window ---------- *)

Definition window (l : log T) (p n : N) : list (T * cursor) :=
  firstn (N.to_nat n) (skipn (N.to_nat (p - base_of l)) (tagged (head l) (segs l))).

Lemma readv_exact_l (l : log T) all c n :
  WF size l all -> Issued l c -> 2 * lenN all < U64 -> snd c + n < U64 ->
  let p := pos_of l c in
  let out := window l p n in
  let e := p + lenN out in
  readv l c n =
    Ok (mkpos (e =? lenN all) (if stale l c then (head l, base_of l) else c)
              (canon (head l) (segs l) e), out).
Proof.
  intros WFl Hi Hov Hn p out e. pose proof WFl as [W _].
  pose proof (wf_count size l all W) as Hcnt. pose proof (wfs_tail_le size l all W) as Htl.
  unfold readv. unfold p, pos_of, stale in *. clear p.
  destruct Hi as [Hs | (Hh & Ht & s & Hnth & Hlo & Hhi)].
  - (* stale: resume at the oldest retained entry *)
    destruct (N.ltb_spec (tail l) (fst c)) as [? | _]; [lia|].
    destruct (N.ltb_spec (fst c) (head l)) as [_ | ?]; [|lia].
    destruct (segs l) as [|s r] eqn:E; [now destruct (wf_ne size l all W)|].
    cbn [bind fst snd]. rewrite sub64_ok by lia. cbn [bind].
    replace (head l - head l) with 0 by lia. cbn [nth_rest N.eqb].
    destruct (N.ltb_spec (s_abs s) (s_abs s)) as [? | _]; [lia|].
    assert (E' : segs l = [] ++ s :: r) by exact E.
    destruct (wfs_split size l all [] s r W E') as (Hc & Ha & Hd & Htail).
    rewrite lenN_nil in Htail.
    assert (Hb : base_of l = s_abs s) by (unfold base_of; now rewrite E).
    pose proof (walk_exact r s (head l) (s_abs s) n (head l, s_abs s) (tail l)) as Hw.
    cbn zeta in Hw. rewrite Hw; try assumption; try lia.
    + unfold e, out, window. rewrite E, Hb, Hd. reflexivity.
    + intros Hr. rewrite <- E. apply (wf_NEs size l all WFl). rewrite E, lenN_cons.
      destruct r; [congruence | rewrite lenN_cons; lia].
  - (* live: no jump *)
    destruct (N.ltb_spec (tail l) (fst c)) as [? | _]; [lia|].
    destruct (N.ltb_spec (fst c) (head l)) as [? | _]; [lia|].
    cbn [bind]. rewrite sub64_ok by lia. cbn [bind].
    apply nth_error_split in Hnth. destruct Hnth as (pre & more & E & Hpre).
    assert (HpreN : lenN pre = fst c - head l) by (unfold lenN; lia).
    rewrite E at 1. rewrite <- HpreN, nth_rest_app.
    destruct (N.ltb_spec (snd c) (s_abs s)) as [? | _]; [lia|].
    destruct (wfs_split size l all pre s more W E) as (Hc & Ha & Hd & Htail).
    destruct c as [sg off]. cbn [fst snd] in *.
    pose proof (walk_exact more s sg off n (sg, off) (tail l)) as Hw.
    cbn zeta in Hw. rewrite Hw; try assumption; try lia.
    + assert (Hwin : out = firstn (N.to_nat n) (skipn (N.to_nat (off - s_abs s)) (tagged sg (s :: more)))).
      { unfold out, window. rewrite E, tagged_app.
        rewrite skipn_app_exact by (rewrite tagged_length; fold (lenN (concat (map (@s_data T) pre))); fold (lenD pre); unfold lenD, lenN in *; lia).
        rewrite tagged_length. do 2 f_equal.
        - unfold lenD, lenN in *. lia.
        - f_equal. lia. }
      unfold e. rewrite <- Hwin, Hd.
      rewrite E. rewrite (canon_skip pre s more (head l) (base_of l)).
      * replace (head l + lenN pre) with sg by lia. reflexivity.
      * rewrite <- E. apply (wf_chain size l all W).
      * lia.
    + intros Hr. assert (HN : NEs (segs l)).
      { apply (wf_NEs size l all WFl). rewrite E, lenN_app, lenN_cons.
        destruct more; [congruence | rewrite lenN_cons; lia]. }
      rewrite E in HN. apply Forall_app in HN. apply HN.
Qed.

End ReadTop.
