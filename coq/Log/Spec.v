(** M-LOG specification vocabulary (C13), independent of how [readv] walks the segments.

    The abstract log is the list [all] of every entry ever appended (the absolute offset of an
    entry is its index in [all]) together with the base offset of the oldest retained entry.
    [all] is ghost state: it is not stored by the log (evicted entries are gone), it is carried
    by the invariant [WF l all]; for a log reached by a history it is the list of appended
    items of that history ([appended ops]). *)
From Rumqtt Require Export Log.Model.

Section Spec.
Context {T : Type} (size : T -> N).

Definition sum_size (d : list T) : N := fold_right (fun x acc => size x + acc) 0 d.

(** entries still held, oldest first; absolute offset of the oldest retained entry *)
Definition retained (l : log T) : list T := concat (map (@s_data T) (segs l)).
Definition base_of (l : log T) : N :=
  match segs l with s :: _ => s_abs s | [] => 0 end.
(** absolute offset one past the newest entry *)
Definition end_of (l : log T) : N := base_of l + lenN (retained l).

(** consecutive segments are contiguous, the first one starts at [a] *)
Fixpoint chain (a : N) (ss : list (segment T)) : Prop :=
  match ss with
  | [] => True
  | s :: r => s_abs s = a /\ chain (a + seg_len s) r
  end.

(** Structural invariant (holds also between [apply_retention] and [push]). *)
Record WFs (l : log T) (all : list T) : Prop := {
  wf_cfg_seg : 1024 <= max_seg l;
  wf_cfg_mem : 1 <= max_mem l;
  wf_ne : segs l <> [];
  wf_count : head l + lenN (segs l) = tail l + 1;
  wf_chain : chain (base_of l) (segs l);
  wf_total : Forall (fun s => s_total s = sum_size (s_data s)) (segs l);
  (* every non-active segment reached max_segment_size (hence is non-empty) *)
  wf_full : Forall (fun s => max_seg l <= s_total s) (removelast (segs l));
  wf_mem : lenN (segs l) <= max_mem l;
  (* all = discarded prefix ++ retained entries *)
  wf_all : exists dropped, all = dropped ++ retained l /\ lenN dropped = base_of l;
  (* segments 0..tail-1 were non-empty and disjoint: fewer segments than entries *)
  wf_tail : tail l <= s_abs (last (segs l) seg_new);
}.

(** Invariant of every log reachable through the public API: additionally, unless the log
    still consists of its first segment only, the active segment is non-empty (a segment is
    created by [append] just before it pushes). *)
Definition WF (l : log T) (all : list T) : Prop :=
  WFs l all /\ (head l < tail l -> s_data (last (segs l) seg_new) <> []).

(** segment number [sg] is held by the log and covers absolute offset [o] *)
Definition Covers (l : log T) (sg o : N) : Prop :=
  head l <= sg /\ sg <= tail l /\
  exists s, nth_error (segs l) (N.to_nat (sg - head l)) = Some s /\
            s_abs s <= o /\ o < s_abs s + seg_len s.

(** Cursors the log itself may have issued, seen from the current state: either the segment
    has been evicted since (stale), or the segment is held and the offset lies in it or at its
    end. *)
Definition Issued (l : log T) (c : cursor) : Prop :=
  fst c < head l \/
  (head l <= fst c /\ fst c <= tail l /\
   exists s, nth_error (segs l) (N.to_nat (fst c - head l)) = Some s /\
             s_abs s <= snd c /\ snd c <= s_abs s + seg_len s).

Definition stale (l : log T) (c : cursor) : bool := fst c <? head l.

(** absolute position a read from [c] starts at *)
Definition pos_of (l : log T) (c : cursor) : N :=
  if stale l c then base_of l else snd c.

(** offsets p, p+1, ..., p+k-1 *)
Fixpoint Nseq (p : N) (k : nat) : list N :=
  match k with O => [] | S k' => p :: Nseq (p + 1) k' end.

(** every retained entry with the tag [readv] must give it; [k] = number of the first segment *)
Fixpoint tagged (k : N) (ss : list (segment T)) : list (T * cursor) :=
  match ss with
  | [] => []
  | s :: r => tag_from k (s_abs s) (s_data s) ++ tagged (k + 1) r
  end.

(** the canonical cursor of absolute offset [o]: the segment holding entry [o], or the active
    segment when [o] is the end of the log *)
Fixpoint canon (k : N) (ss : list (segment T)) (o : N) : cursor :=
  match ss with
  | [] => (k, o)
  | s :: r =>
      match r with
      | [] => (k, o)
      | _ :: _ => if o <? s_abs s + seg_len s then (k, o) else canon (k + 1) r o
      end
  end.

(** items appended by a history, in order *)
Fixpoint appended (ops : list (op T)) : list T :=
  match ops with
  | [] => []
  | OpA x :: r => x :: appended r
  | _ :: r => appended r
  end.

(** no-overflow side conditions of a history (see DESIGN §3 "Numbers"):
    [ms] = max_segment_size, [b] = bound on the final number of entries *)
Definition op_ok (ms b : N) (o : op T) : Prop :=
  match o with
  | OpA x => size x + ms <= U64
  | OpR c n => snd c + n < U64
  | OpRP _ _ n => b + n < U64
  | OpNO => True
  end.

End Spec.
