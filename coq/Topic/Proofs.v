From Rumqtt Require Import Topic.Spec.
From Coq Require Import ZifyBool ZifyN.

Lemma str_eqb_spec a b : reflect (a = b) (str_eqb a b).
Proof.
  revert b; induction a as [|x a IH]; intros [|y b]; cbn [str_eqb]; try (constructor; congruence).
  destruct (N.eqb_spec x y) as [-> | Hn]; cbn [andb].
  - destruct (IH b) as [-> | Hn]; constructor; congruence.
  - constructor; congruence.
Qed.

Lemma contains_In c s : contains c s = true <-> In c s.
Proof.
  unfold contains. rewrite existsb_exists. split.
  - intros (x & Hin & He). apply N.eqb_eq in He. now subst.
  - intros H. exists c. split; [assumption | apply N.eqb_refl].
Qed.

Lemma contains_false c s : contains c s = false <-> ~ In c s.
Proof.
  rewrite <- contains_In. destruct (contains c s); split; intros; congruence.
Qed.

Lemma split_nonempty s : split s <> [].
Proof.
  destruct s as [|c r]; cbn [split]; [discriminate|].
  destruct (c =? SLASH); [discriminate|]. destruct (split r); discriminate.
Qed.

(** every byte of a level of [split s] is a byte of [s] *)
Lemma split_In s : forall l c, In l (split s) -> In c l -> In c s.
Proof.
  induction s as [|x r IH]; cbn [split]; intros l c Hl Hc.
  - destruct Hl as [<-|[]]. destruct Hc.
  - destruct (x =? SLASH).
    + destruct Hl as [<-|Hl]; [destruct Hc|]. right. eapply IH; eassumption.
    + destruct (split r) as [|l0 ls] eqn:E.
      * destruct Hl as [<-|[]]. destruct Hc as [<-|[]]. now left.
      * destruct Hl as [<-|Hl].
        -- destruct Hc as [<-|Hc]; [now left|]. right. apply (IH l0 c); [now left|assumption].
        -- right. apply (IH l c); [now right|assumption].
Qed.

(** ---------- has_wildcards / valid_topic ---------- *)

Lemma has_wildcards_spec s : has_wildcards s = true <-> (In PLUS s \/ In HASH s).
Proof. unfold has_wildcards. rewrite orb_true_iff, !contains_In. tauto. Qed.

Lemma valid_topic_spec t : valid_topic t = true <-> topic_ok t.
Proof.
  unfold valid_topic, topic_ok, no_wild.
  destruct (contains PLUS t) eqn:EP; [apply contains_In in EP; split; [discriminate|tauto]|].
  destruct (contains HASH t) eqn:EH; [apply contains_In in EH; split; [discriminate|tauto]|].
  apply contains_false in EP, EH. tauto.
Qed.

(** ---------- valid_filter ---------- *)

Lemma split_last_spec {A} (l : list A) :
  match split_last l with
  | None => l = []
  | Some (last, rem) => l = rem ++ [last]
  end.
Proof.
  induction l as [|x r IH]; cbn [split_last]; [reflexivity|].
  destruct r as [|y r']; [reflexivity|].
  destruct (split_last (y :: r')) as [[last rem]|]; [|discriminate].
  rewrite IH. reflexivity.
Qed.

Lemma lenN_1 (e : str) : lenN e =? 1 = true <-> exists c, e = [c].
Proof.
  unfold lenN. destruct e as [|c [|d e']]; cbn [length]; split; intros H; try lia.
  - destruct H as (c & H); discriminate.
  - now exists c.
  - destruct H as (c' & H); discriminate.
Qed.

Lemma bad_last_false l :
  bad_last l = false <-> (In HASH l \/ In PLUS l -> l = [HASH] \/ l = [PLUS]).
Proof.
  unfold bad_last. split.
  - intros H Hw.
    destruct (lenN l =? 1) eqn:E1.
    + apply lenN_1 in E1 as (c & ->).
      destruct Hw as [[<-|[]]|[<-|[]]]; auto.
    + cbn [negb andb] in H. apply orb_false_iff in H as [H1 H2].
      apply contains_false in H1, H2. tauto.
  - intros H.
    destruct (contains HASH l || contains PLUS l) eqn:E.
    + apply orb_true_iff in E. rewrite !contains_In in E.
      destruct (H E) as [-> | ->]; reflexivity.
    + now rewrite andb_false_r.
Qed.

Lemma bad_inner_false l :
  bad_inner l = false <-> (~ In HASH l /\ (In PLUS l -> l = [PLUS])).
Proof.
  unfold bad_inner. rewrite orb_false_iff, contains_false. split.
  - intros [H1 H2]. split; [assumption|]. intros HP.
    apply andb_false_iff in H2 as [H2|H2].
    + assert (lenN l =? 1 = true \/ l = []) as [E | ->].
      { unfold lenN in *. destruct l as [|? [|? ?]]; cbn [length] in *; auto; lia. }
      * apply lenN_1 in E as (c & ->). destruct HP as [<-|[]]. reflexivity.
      * destruct HP.
    + apply contains_false in H2. tauto.
  - intros [H1 H2]. split; [assumption|].
    destruct (contains PLUS l) eqn:E; [|now rewrite andb_false_r].
    apply contains_In in E. rewrite (H2 E). reflexivity.
Qed.

Lemma levels_ok_snoc rem last :
  levels_ok (rem ++ [last]) <->
  (Forall (fun l => ~ In HASH l /\ (In PLUS l -> l = [PLUS])) rem /\
   (In HASH last \/ In PLUS last -> last = [HASH] \/ last = [PLUS])).
Proof.
  induction rem as [|x rem IH]; cbn [app].
  - split.
    + intros H. inversion H; subst; [split; [constructor|assumption]|congruence].
    + intros [_ H]. now constructor.
  - split.
    + intros H. inversion H as [l Hl E|l ls H1 H2 H3 H4 E]; subst.
      * destruct rem; discriminate.
      * apply IH in H3 as [Hf Hl]. split; [constructor; auto|assumption].
    + intros [Hf Hl]. inversion Hf as [|? ? [Hx1 Hx2] Hf']; subst.
      constructor; auto.
      * apply IH. split; assumption.
      * destruct rem; discriminate.
Qed.

Lemma valid_filter_spec f : valid_filter f = true <-> filter_ok f.
Proof.
  unfold valid_filter, filter_ok.
  destruct f as [|c r]; [split; [discriminate|intros [H _]; congruence]|].
  pose proof (split_last_spec (split (c :: r))) as HS.
  destruct (split_last (split (c :: r))) as [[last rem]|].
  2:{ exfalso. now apply (split_nonempty (c :: r)). }
  rewrite HS, levels_ok_snoc.
  split.
  - intros H. split; [discriminate|].
    destruct (existsb bad_inner rem) eqn:EB; [discriminate|].
    destruct (bad_last last) eqn:EL; [discriminate|].
    split.
    + apply Forall_forall. intros l Hl. apply bad_inner_false.
      destruct (bad_inner l) eqn:E; [|reflexivity].
      assert (existsb bad_inner rem = true) by (apply existsb_exists; eauto). congruence.
    + now apply bad_last_false.
  - intros [_ [Hf Hl]].
    destruct (existsb bad_inner rem) eqn:EB.
    + apply existsb_exists in EB as (l & Hin & Hb).
      rewrite Forall_forall in Hf. apply Hf, bad_inner_false in Hin. congruence.
    + apply bad_last_false in Hl. now rewrite Hl.
Qed.

(** ---------- matches ---------- *)

Lemma levels_ok_tail l ls : levels_ok (l :: ls) -> ls <> [] -> levels_ok ls.
Proof. intros H Hn. inversion H; subst; [exfalso; now apply Hn|assumption]. Qed.

Lemma levels_ok_hash_last ls : levels_ok ([HASH] :: ls) -> ls = [].
Proof.
  intros H. inversion H as [|l ls' H1]; subst; [reflexivity|]. exfalso. apply H1. now left.
Qed.

Lemma mlev_spec fs : forall ts,
  Forall no_wild ts -> levels_ok fs ->
  (mlev ts fs = true <-> lmatch ts fs).
Proof.
  induction fs as [|f fs IH]; intros ts Hts Hfs; [inversion Hfs|].
  cbn [mlev].
  destruct (str_eqb_spec f [HASH]) as [-> | HnH].
  - apply levels_ok_hash_last in Hfs as ->. split; [intros _; apply lm_hash|reflexivity].
  - assert (Hsub : fs <> [] -> levels_ok fs) by (intros; eapply levels_ok_tail; eauto).
    assert (Hend : fs = [] -> forall ts', mlev ts' fs = true <-> lmatch ts' fs).
    { intros -> ts'. cbn [mlev]. destruct ts'; split; intros H; try constructor; try discriminate.
      inversion H. }
    assert (IH' : forall ts', Forall no_wild ts' -> mlev ts' fs = true <-> lmatch ts' fs).
    { intros ts' Ht'. destruct fs as [|f' fs']; [now apply Hend|]. apply IH; [assumption|].
      apply Hsub; discriminate. }
    destruct ts as [|t ts'].
    + split; [discriminate|]. intros H. inversion H; subst; congruence.
    + inversion Hts as [|? ? Ht Hts']; subst.
      destruct (str_eqb_spec t [HASH]) as [-> | HtH].
      { exfalso. destruct Ht as [_ Ht]. apply Ht. now left. }
      destruct (str_eqb_spec f [PLUS]) as [-> | HnP].
      * rewrite IH' by assumption. split; [intros; now constructor|].
        intros H. inversion H; subst; [assumption|congruence].
      * destruct (str_eqb_spec f t) as [-> | Hne].
        -- rewrite IH' by assumption. split; [intros; now constructor|].
           intros H. inversion H; subst; congruence || assumption.
        -- split; [discriminate|]. intros H. inversion H; subst; congruence.
Qed.

Lemma topic_levels_no_wild t : topic_ok t -> Forall no_wild (split t).
Proof.
  intros [HP HH]. apply Forall_forall. intros l Hl. split; intros Hc.
  - apply HP. eapply split_In; eassumption.
  - apply HH. eapply split_In; eassumption.
Qed.

Lemma matches_total t f : is_panic (matches t f) = false.
Proof. unfold matches. destruct (starts_with_dollar t); reflexivity. Qed.

Lemma matches_spec t f :
  topic_ok t -> filter_ok f ->
  (matches t f = Ok true <-> (starts_with_dollar t = false /\ lmatch (split t) (split f))).
Proof.
  intros Ht [_ Hf]. unfold matches.
  destruct (starts_with_dollar t).
  - split; [discriminate|intros [H _]; discriminate].
  - pose proof (mlev_spec (split f) (split t) (topic_levels_no_wild t Ht) Hf) as H.
    split.
    + intros E. split; [reflexivity|]. apply H. now inversion E.
    + intros [_ E]. apply H in E. now rewrite E.
Qed.

(** a topic whose first character is '$' is matched by no filter, valid or not *)
Lemma dollar_never_matched t f : starts_with_dollar t = true -> matches t f = Ok false.
Proof. intros H. unfold matches. now rewrite H. Qed.

(** split of a '/'-joined list of '/'-free levels gives the levels back: lets the
    corollaries be stated on strings *)
Fixpoint join (ls : list str) : str :=
  match ls with
  | [] => []
  | [l] => l
  | l :: r => l ++ SLASH :: join r
  end.

Lemma split_app_slash l r : ~ In SLASH l -> split (l ++ SLASH :: r) = l :: split r.
Proof.
  induction l as [|c l IH]; intros Hn; cbn [app split].
  - now rewrite N.eqb_refl.
  - destruct (N.eqb_spec c SLASH) as [-> | Hc]; [exfalso; apply Hn; now left|].
    rewrite IH by (intros H; apply Hn; now right). reflexivity.
Qed.

Lemma split_noslash l : ~ In SLASH l -> split l = [l].
Proof.
  induction l as [|c l IH]; intros Hn; cbn [split]; [reflexivity|].
  destruct (N.eqb_spec c SLASH) as [-> | Hc]; [exfalso; apply Hn; now left|].
  rewrite IH by (intros H; apply Hn; now right). reflexivity.
Qed.

Lemma split_join ls : ls <> [] -> Forall (fun l => ~ In SLASH l) ls -> split (join ls) = ls.
Proof.
  induction ls as [|l r IH]; intros Hn Hf; [congruence|].
  inversion Hf as [|? ? Hl Hr]; subst.
  destruct r as [|l' r']; cbn [join].
  - now apply split_noslash.
  - rewrite split_app_slash by assumption. f_equal. apply IH; [discriminate|assumption].
Qed.

(** the unfixed code panicked on a multi-byte first character: record of finding F1 *)
Lemma matches_unfixed_refuted :
  exists t f, matches_unfixed t f = Panic 1.
Proof. exists [195; 169; 47; 98], [35]. vm_compute. reflexivity. Qed.
