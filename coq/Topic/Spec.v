(** The MQTT rules, stated independently of the code, on level lists. *)
From Rumqtt Require Export Topic.Model.

(** levels of a topic match levels of a filter *)
Inductive lmatch : list str -> list str -> Prop :=
| lm_nil : lmatch [] []
| lm_hash : forall ts, lmatch ts [[HASH]]                 (* trailing '#': parent and any number of levels *)
| lm_plus : forall t ts fs, lmatch ts fs -> lmatch (t :: ts) ([PLUS] :: fs)   (* '+': exactly one level *)
| lm_lit : forall l ts fs, l <> [PLUS] -> l <> [HASH] ->
                           lmatch ts fs -> lmatch (l :: ts) (l :: fs).      (* literal, case-sensitive *)

Definition no_wild (l : str) : Prop := ~ In PLUS l /\ ~ In HASH l.

(** topic names contain no wildcards *)
Definition topic_ok (t : str) : Prop := no_wild t.

(** wildcards are valid in filters only as whole levels, '#' last *)
Inductive levels_ok : list str -> Prop :=
| lo_last : forall l, (In HASH l \/ In PLUS l -> l = [HASH] \/ l = [PLUS]) -> levels_ok [l]
| lo_cons : forall l ls, ~ In HASH l -> (In PLUS l -> l = [PLUS]) -> levels_ok ls -> ls <> [] ->
                         levels_ok (l :: ls).

Definition filter_ok (f : str) : Prop := f <> [] /\ levels_ok (split f).
