(** M-TOPIC: executable model of matches / valid_filter / valid_topic / has_wildcards
    (rumqttd/src/protocol/mod.rs:599-690; the two rumqttc copies are the same algorithm;
    that all three agree with this model is what the correspondence check establishes).
    Strings are their UTF-8 bytes.  All separators are ASCII, so [split('/')],
    [contains('+')], [starts_with('$')] and byte [len()] coincide on bytes and chars. *)
From Rumqtt Require Export Base.Outcome.

Definition SLASH : N := 47.
Definition PLUS : N := 43.
Definition HASH : N := 35.
Definition DOLLAR : N := 36.

(** [s.split('/')] : never empty; "" splits to [""] *)
Fixpoint split (s : str) : list str :=
  match s with
  | [] => [[]]
  | c :: r =>
      if c =? SLASH then [] :: split r
      else match split r with
           | [] => [[c]]
           | l :: ls => (c :: l) :: ls
           end
  end.

Definition contains (c : N) (s : str) : bool := existsb (N.eqb c) s.

Definition has_wildcards (s : str) : bool := contains PLUS s || contains HASH s.

Definition valid_topic (t : str) : bool :=
  if contains PLUS t then false else if contains HASH t then false else true.

Fixpoint split_last {A} (l : list A) : option (A * list A) :=
  match l with
  | [] => None
  | [x] => Some (x, [])
  | x :: r => match split_last r with
              | Some (last, rem) => Some (last, x :: rem)
              | None => None
              end
  end.

Definition bad_inner (e : str) : bool :=
  contains HASH e || ((1 <? lenN e) && contains PLUS e).
Definition bad_last (e : str) : bool :=
  negb (lenN e =? 1) && (contains HASH e || contains PLUS e).

Definition valid_filter (f : str) : bool :=
  match f with
  | [] => false
  | _ =>
      match split_last (split f) with
      | Some (last, remaining) =>
          if existsb bad_inner remaining then false
          else if bad_last last then false else true
      | None => true
      end
  end.

(** the loop of [matches] over the two level iterators *)
Fixpoint mlev (ts fs : list str) {struct fs} : bool :=
  match fs with
  | [] => match ts with [] => true | _ => false end
  | f :: fs' =>
      if str_eqb f [HASH] then true
      else match ts with
           | [] => false
           | t :: ts' =>
               if str_eqb t [HASH] then false
               else if str_eqb f [PLUS] then mlev ts' fs'
               else if str_eqb f t then mlev ts' fs'
               else false
           end
  end.

Definition starts_with_dollar (t : str) : bool :=
  match t with c :: _ => c =? DOLLAR | [] => false end.

(** Current code (after the fix: commit for finding F1): [topic.starts_with('$')]. *)
Definition matches (t f : str) : Outcome unit bool :=
  if starts_with_dollar t then Ok false else Ok (mlev (split t) (split f)).

(** The code as it was before the fix: [!topic.is_empty() && topic[..1].contains('$')].
    [topic[..1]] panics iff byte index 1 is inside the string and is not a char boundary,
    i.e. byte 1 is a UTF-8 continuation byte (0x80..0xBF). Kept as the record of F1. *)
Definition matches_unfixed (t f : str) : Outcome unit bool :=
  match t with
  | _ :: b1 :: _ =>
      if (128 <=? b1) && (b1 <? 192) then Panic 1
      else if starts_with_dollar t then Ok false else Ok (mlev (split t) (split f))
  | _ => if starts_with_dollar t then Ok false else Ok (mlev (split t) (split f))
  end.
