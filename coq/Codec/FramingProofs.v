(** C05, generic part: properties of [vlen], [parse_fixed_header], [check], [read_framed] and of the
    buffered decoder loop [drain]/[feed], for an arbitrary body decoder.  Reusable for MQTT 5. *)
From Rumqtt Require Import Codec.Wire Codec.WireProofs.
From Coq Require Import ZArith ZifyBool ZifyN ZifyNat Lia.

Ltac Zify.zify_post_hook ::= Z.div_mod_to_equations.

(* ------------------------------------------------------------------ vlen *)

Lemma vlen_go_no_panic : forall s acc ll sh t, vlen_go s acc ll sh <> Panic t.
Proof.
  induction s as [| b s IH]; intros acc ll sh t; cbn [vlen_go]; [discriminate |].
  destruct (N.land b 128 =? 0); [discriminate |].
  destruct (21 <? sh + 7); [discriminate | apply IH].
Qed.

Lemma vlen_go_ok_prefix : forall s acc ll sh r more,
  vlen_go s acc ll sh = Ok r -> vlen_go (s ++ more) acc ll sh = Ok r.
Proof.
  induction s as [| b s IH]; intros acc ll sh r more H; cbn [vlen_go app] in *; [discriminate |].
  destruct (N.land b 128 =? 0); [exact H |].
  destruct (21 <? sh + 7); [discriminate | apply IH; exact H].
Qed.

Lemma vlen_go_malformed_prefix : forall s acc ll sh more,
  vlen_go s acc ll sh = Err MalformedRemainingLength ->
  vlen_go (s ++ more) acc ll sh = Err MalformedRemainingLength.
Proof.
  induction s as [| b s IH]; intros acc ll sh more H; cbn [vlen_go app] in *; [discriminate |].
  destruct (N.land b 128 =? 0); [discriminate |].
  destruct (21 <? sh + 7); [reflexivity | apply IH; exact H].
Qed.

Lemma vlen_go_ok_bound : forall s acc ll sh ll' v, sh <= 21 ->
  vlen_go s acc ll sh = Ok (ll', v) -> ll < ll' /\ ll' <= ll + len s /\ 7 * (ll' - ll) + sh <= 28.
Proof.
  induction s as [| b s IH]; intros acc ll sh ll' v Hsh H; cbn [vlen_go] in H; [discriminate |].
  rewrite len_cons.
  destruct (N.land b 128 =? 0).
  - inversion H; subst. lia.
  - destruct (21 <? sh + 7) eqn:E; [discriminate |]. apply IH in H; lia.
Qed.

Lemma vlen_go_err : forall s acc ll sh e, sh <= 21 ->
  vlen_go s acc ll sh = Err e ->
  e = MalformedRemainingLength \/ (e = InsufficientBytes 1 /\ 7 * len s + sh <= 21).
Proof.
  induction s as [| b s IH]; intros acc ll sh e Hsh H; cbn [vlen_go] in H.
  - inversion H; subst. right. split; [reflexivity | rewrite len_nil; lia].
  - rewrite len_cons. destruct (N.land b 128 =? 0); [discriminate |].
    destruct (21 <? sh + 7) eqn:E.
    + inversion H; subst. left. reflexivity.
    + apply IH in H; [| lia]. destruct H as [H | [H1 H2]]; [left; exact H | right; split; [exact H1 | lia]].
Qed.

(* ------------------------------------------------------------------ parse_fixed_header *)

Lemma pfh_no_panic : forall s t, parse_fixed_header s <> Panic t.
Proof.
  intros s t. unfold parse_fixed_header. destruct (len s <? 2) eqn:E; [discriminate |].
  destruct s as [| b1 r]; [rewrite len_nil in E; lia |].
  unfold vlen. destruct (vlen_go r 0 0 0) as [[ll l] | e | t'] eqn:Ev; cbn [bind]; try discriminate.
  exfalso. exact (vlen_go_no_panic _ _ _ _ _ Ev).
Qed.

Lemma pfh_ok_inv : forall s h, parse_fixed_header s = Ok h ->
  exists b1 r ll, s = b1 :: r /\ vlen r = Ok (ll, remaining_len h) /\ byte1 h = b1 /\
                  fixed_header_len h = ll + 1 /\ 1 <= ll <= 4 /\ ll <= len r.
Proof.
  intros s h H. unfold parse_fixed_header in H. destruct (len s <? 2) eqn:E; [discriminate |].
  destruct s as [| b1 r]; [discriminate |].
  destruct (vlen r) as [[ll l] | e | t'] eqn:Ev; cbn [bind] in H; try discriminate.
  inversion H; subst. cbn [remaining_len byte1 fixed_header_len].
  exists b1, r, ll. unfold vlen in *. pose proof (vlen_go_ok_bound r 0 0 0 ll l ltac:(lia) Ev) as Hb.
  repeat split; try reflexivity; try lia. exact Ev.
Qed.

Lemma pfh_ok_bounds : forall s h, parse_fixed_header s = Ok h ->
  2 <= fixed_header_len h <= 5 /\ fixed_header_len h <= len s.
Proof.
  intros s h H. destruct (pfh_ok_inv s h H) as (b1 & r & ll & -> & _ & _ & Hf & Hll & Hr).
  rewrite len_cons. lia.
Qed.

Lemma pfh_ok_prefix : forall s h more, parse_fixed_header s = Ok h ->
  parse_fixed_header (s ++ more) = Ok h.
Proof.
  intros s h more H. destruct (pfh_ok_inv s h H) as (b1 & r & ll & -> & Hv & Hb & Hf & Hll & Hr).
  unfold parse_fixed_header. cbn [app]. rewrite len_cons, len_app.
  replace (1 + (len r + len more) <? 2) with false by lia.
  unfold vlen in *. rewrite (vlen_go_ok_prefix _ _ _ _ _ more Hv). cbn [bind].
  destruct h as [hb hf hr]. cbn [byte1 fixed_header_len remaining_len] in *. subst. reflexivity.
Qed.

Lemma pfh_err : forall s e, parse_fixed_header s = Err e ->
  e = MalformedRemainingLength \/ exists k, e = InsufficientBytes k /\ 1 <= k /\ len s <= 4.
Proof.
  intros s e H. unfold parse_fixed_header in H. destruct (len s <? 2) eqn:E.
  - inversion H; subst. right. exists (2 - len s). repeat split; lia.
  - destruct s as [| b1 r]; [discriminate |]. rewrite len_cons in *.
    unfold vlen in H. destruct (vlen_go r 0 0 0) as [[ll l] | e' | t'] eqn:Ev; cbn [bind] in H; try discriminate.
    inversion H; subst. apply vlen_go_err in Ev; [| lia].
    destruct Ev as [-> | [-> Hl]]; [left; reflexivity |]. right. exists 1. repeat split; lia.
Qed.

Lemma pfh_malformed_prefix : forall s more, parse_fixed_header s = Err MalformedRemainingLength ->
  parse_fixed_header (s ++ more) = Err MalformedRemainingLength.
Proof.
  intros s more H. unfold parse_fixed_header in *. destruct (len s <? 2) eqn:E; [discriminate |].
  destruct s as [| b1 r]; [discriminate |]. cbn [app]. rewrite len_cons in *. rewrite len_app.
  replace (1 + (len r + len more) <? 2) with false by lia.
  unfold vlen in *. destruct (vlen_go r 0 0 0) as [[ll l] | e' | t'] eqn:Ev; cbn [bind] in H; try discriminate.
  inversion H; subst. rewrite (vlen_go_malformed_prefix _ _ _ _ more Ev). reflexivity.
Qed.

(* ------------------------------------------------------------------ read_framed *)

Section Framed.
  Context {P : Type} (body : fixed_header -> list N -> R P).

  (** what the body decoders must satisfy (proved for MQTT 3.1.1 in V4TotalProofs.v) *)
  Hypothesis body_no_panic : forall h frame t,
    len frame = frame_length h -> 2 <= fixed_header_len h -> body h frame <> Panic t.
  Hypothesis body_no_insufficient : forall h frame k,
    len frame = frame_length h -> body h frame <> Err (InsufficientBytes k).

  (** every result of [read_framed], classified *)
  Inductive framed_spec (bs : list N) (max : N) : read_result P -> Prop :=
  | FS_header_short : forall k, parse_fixed_header bs = Err (InsufficientBytes k) -> 1 <= k -> len bs <= 4 ->
      framed_spec bs max (NeedMore k)
  | FS_header_bad : parse_fixed_header bs = Err MalformedRemainingLength ->
      framed_spec bs max (Malformed MalformedRemainingLength bs)
  | FS_too_large : forall h, parse_fixed_header bs = Ok h -> max < remaining_len h ->
      framed_spec bs max (Malformed PayloadSizeLimitExceeded bs)
  | FS_frame_short : forall h, parse_fixed_header bs = Ok h -> remaining_len h <= max ->
      len bs < frame_length h ->
      framed_spec bs max (NeedMore (frame_length h - len bs))
  | FS_packet : forall h frame rest p, parse_fixed_header bs = Ok h -> remaining_len h <= max ->
      bs = frame ++ rest -> len frame = frame_length h -> body h frame = Ok p ->
      framed_spec bs max (Packet p rest)
  | FS_malformed : forall h frame rest e, parse_fixed_header bs = Ok h -> remaining_len h <= max ->
      bs = frame ++ rest -> len frame = frame_length h -> body h frame = Err e ->
      framed_spec bs max (Malformed e rest).

  Lemma read_framed_spec : forall bs max, framed_spec bs max (read_framed body bs max).
  Proof.
    intros bs max. unfold read_framed, check.
    destruct (parse_fixed_header bs) as [h | e | t] eqn:Hp; cbn [bind].
    - destruct (max <? remaining_len h) eqn:Em.
      + eapply FS_too_large; [exact Hp | lia].
      + destruct (len bs <? frame_length h) eqn:Ef.
        * eapply FS_frame_short; [exact Hp | lia | lia].
        * rewrite split_to_ok by lia.
          pose proof (firstn_skipn (N.to_nat (frame_length h)) bs) as Hsplit.
          assert (Hlf : len (firstn (N.to_nat (frame_length h)) bs) = frame_length h) by (apply len_firstn; lia).
          destruct (body h (firstn (N.to_nat (frame_length h)) bs)) as [p | e | t] eqn:Hb.
          -- eapply FS_packet; [exact Hp | lia | symmetry; exact Hsplit | exact Hlf | exact Hb].
          -- destruct e; try (eapply FS_malformed; [exact Hp | lia | symmetry; exact Hsplit | exact Hlf | exact Hb]).
             exfalso. exact (body_no_insufficient _ _ _ Hlf Hb).
          -- exfalso. apply (body_no_panic h _ t Hlf); [| exact Hb].
             pose proof (pfh_ok_bounds _ _ Hp). lia.
    - destruct (pfh_err _ _ Hp) as [-> | (k & -> & Hk & Hl)].
      + apply FS_header_bad. exact Hp.
      + apply FS_header_short; assumption.
    - exfalso. exact (pfh_no_panic _ _ Hp).
  Qed.

  (** C05 read_total *)
  Theorem read_framed_total : forall bs max t, read_framed body bs max <> RPanic t.
  Proof. intros bs max t H. pose proof (read_framed_spec bs max) as S. rewrite H in S. inversion S. Qed.

  (** C05 read_frame (a): a packet consumes exactly the declared frame *)
  Theorem read_framed_packet : forall bs max p rest, read_framed body bs max = Packet p rest ->
    exists h frame, parse_fixed_header bs = Ok h /\ bs = frame ++ rest /\
                    len frame = frame_length h /\ remaining_len h <= max /\ 2 <= len frame.
  Proof.
    intros bs max p rest H. pose proof (read_framed_spec bs max) as S. rewrite H in S.
    inversion S as [| | | | h frame rest' p' Hp Hmax Hbs Hlf Hbody |]; subst.
    exists h, frame. pose proof (pfh_ok_bounds _ _ Hp). unfold frame_length in *. repeat split; try assumption; lia.
  Qed.

  (** (b): an error consumes nothing (header-level errors) or exactly the declared frame *)
  Theorem read_framed_malformed : forall bs max e rest, read_framed body bs max = Malformed e rest ->
    (rest = bs /\ (e = MalformedRemainingLength \/ e = PayloadSizeLimitExceeded)) \/
    exists h frame, parse_fixed_header bs = Ok h /\ bs = frame ++ rest /\
                    len frame = frame_length h /\ remaining_len h <= max.
  Proof.
    intros bs max e rest H. pose proof (read_framed_spec bs max) as S. rewrite H in S. inversion S; subst.
    - left. split; [reflexivity | left; reflexivity].
    - left. split; [reflexivity | right; reflexivity].
    - right. exists h, frame. repeat split; assumption.
  Qed.

  (** the error kinds: two header-level ones, otherwise whatever the body decoder said *)
  Theorem read_framed_malformed_cause : forall bs max e rest, read_framed body bs max = Malformed e rest ->
    e = MalformedRemainingLength \/ e = PayloadSizeLimitExceeded \/
    exists h frame, len frame = frame_length h /\ body h frame = Err e.
  Proof.
    intros bs max e rest H. pose proof (read_framed_spec bs max) as S. rewrite H in S.
    inversion S as [| Hp | h Hp Hmax | | | h frame rest' e' Hp Hmax Hbs Hlf Hbody]; subst.
    - left. reflexivity.
    - right. left. reflexivity.
    - right. right. exists h, frame. split; assumption.
  Qed.

  (** (c): a declared length above the maximum is rejected at once, whatever follows the header *)
  Theorem read_framed_over_max : forall bs max h, parse_fixed_header bs = Ok h -> max < remaining_len h ->
    read_framed body bs max = Malformed PayloadSizeLimitExceeded bs.
  Proof.
    intros bs max h Hp Hm. unfold read_framed, check. rewrite Hp. cbn [bind].
    replace (max <? remaining_len h) with true by lia. reflexivity.
  Qed.

  (** (d): more bytes are requested only while the header or the declared frame is incomplete,
      and never more than what is missing *)
  Theorem read_framed_need_more : forall bs max k, read_framed body bs max = NeedMore k ->
    (parse_fixed_header bs = Err (InsufficientBytes k) /\ 1 <= k /\ len bs <= 4) \/
    exists h, parse_fixed_header bs = Ok h /\ remaining_len h <= max /\ len bs < frame_length h /\
              1 <= k /\ k <= frame_length h - len bs.
  Proof.
    intros bs max k H. pose proof (read_framed_spec bs max) as S. rewrite H in S. inversion S; subst.
    - left. repeat split; assumption.
    - right. exists h. repeat split; try assumption; lia.
  Qed.

  Lemma firstn_app_exact : forall (a b c : list N) n, len a = n ->
    firstn (N.to_nat n) ((a ++ b) ++ c) = a /\ skipn (N.to_nat n) ((a ++ b) ++ c) = b ++ c.
  Proof.
    intros a b c n <-. rewrite <- app_assoc. split; [apply firstn_len_app | apply skipn_len_app].
  Qed.

  (** C05 prefix_stable *)
  Theorem read_framed_prefix_packet : forall bs max p rest more,
    read_framed body bs max = Packet p rest -> read_framed body (bs ++ more) max = Packet p (rest ++ more).
  Proof.
    intros bs max p rest more H. pose proof (read_framed_spec bs max) as S. rewrite H in S.
    inversion S as [| | | | h frame rest' p' Hp Hmax Hbs Hlf Hbody |]; subst.
    unfold read_framed, check. rewrite (pfh_ok_prefix _ _ more Hp). cbn [bind].
    replace (max <? remaining_len h) with false by lia.
    rewrite !len_app. replace (len frame + len rest + len more <? frame_length h) with false by lia.
    rewrite split_to_ok by (rewrite !len_app; lia).
    destruct (firstn_app_exact frame rest more (frame_length h) Hlf) as [-> ->].
    rewrite Hbody. reflexivity.
  Qed.

  Theorem read_framed_prefix_malformed : forall bs max e rest more,
    read_framed body bs max = Malformed e rest -> read_framed body (bs ++ more) max = Malformed e (rest ++ more).
  Proof.
    intros bs max e rest more H. pose proof (read_framed_spec bs max) as S. rewrite H in S.
    inversion S as [| Hp | h Hp Hmax | | | h frame rest' e' Hp Hmax Hbs Hlf Hbody]; subst.
    - unfold read_framed, check. rewrite (pfh_malformed_prefix _ more Hp). reflexivity.
    - unfold read_framed, check. rewrite (pfh_ok_prefix _ _ more Hp). cbn [bind].
      replace (max <? remaining_len h) with true by lia. reflexivity.
    - unfold read_framed, check. rewrite (pfh_ok_prefix _ _ more Hp). cbn [bind].
      replace (max <? remaining_len h) with false by lia.
      rewrite !len_app. replace (len frame + len rest + len more <? frame_length h) with false by lia.
      rewrite split_to_ok by (rewrite !len_app; lia).
      destruct (firstn_app_exact frame rest more (frame_length h) Hlf) as [-> ->].
      rewrite Hbody. destruct e; try reflexivity. exfalso. exact (body_no_insufficient _ _ _ Hlf Hbody).
  Qed.
End Framed.

(* ------------------------------------------------------------------ the buffered decoder loop *)

Section Drain.
  Context {P : Type} (rd : list N -> read_result P).
  Hypothesis rd_total : forall b t, rd b <> RPanic t.
  Hypothesis rd_packet : forall b p rest, rd b = Packet p rest ->
    exists frame, b = frame ++ rest /\ (2 <= length frame)%nat.
  Hypothesis rd_prefix_packet : forall b p rest more, rd b = Packet p rest -> rd (b ++ more) = Packet p (rest ++ more).
  Hypothesis rd_prefix_malformed : forall b e rest more, rd b = Malformed e rest -> rd (b ++ more) = Malformed e (rest ++ more).

  Lemma rd_packet_shorter : forall b p rest, rd b = Packet p rest -> (length rest < length b)%nat.
  Proof.
    intros b p rest H. destruct (rd_packet _ _ _ H) as (frame & -> & Hf). rewrite app_length. lia.
  Qed.

  Lemma drain_fuel : forall f1 f2 b, (length b < f1)%nat -> (length b < f2)%nat ->
    drain rd f1 b = drain rd f2 b.
  Proof.
    induction f1 as [| f1 IH]; intros f2 b H1 H2; [lia |].
    destruct f2 as [| f2]; [lia |]. cbn [drain].
    destruct (rd b) as [p rest | e rest | k | t] eqn:E; try reflexivity.
    pose proof (rd_packet_shorter _ _ _ E) as Hs.
    rewrite (IH f2 rest) by lia. reflexivity.
  Qed.

  Definition drainL (b : list N) := drain rd (S (length b)) b.

  Lemma drain_never_out_of_fuel : forall f b, (length b < f)%nat -> ~ In (EvError OutOfFuel) (fst (drain rd f b)) \/ True.
  Proof. intros. right. exact I. Qed.

  (** a live result extends: what was decoded stays, decoding resumes on the leftover *)
  Lemma drain_app_live : forall n b c evs b',
    (length b < n)%nat -> drain rd n b = (evs, DState b' false) ->
    drainL (b ++ c) = let '(evs2, st) := drainL (b' ++ c) in (evs ++ evs2, st).
  Proof.
    induction n as [| n IH]; intros b c evs b' Hn H; [lia |].
    cbn [drain] in H. unfold drainL at 1. cbn [drain].
    destruct (rd b) as [p rest | e rest | k | t] eqn:E.
    - rewrite (rd_prefix_packet _ _ _ c E).
      pose proof (rd_packet_shorter _ _ _ E) as Hs.
      destruct (drain rd n rest) as [evs' st'] eqn:Ed. inversion H; subst.
      rewrite (drain_fuel (length (b ++ c)) (S (length (rest ++ c))) (rest ++ c)) by (rewrite !app_length in *; lia).
      fold (drainL (rest ++ c)). rewrite (IH rest c evs' b') by (try lia; exact Ed).
      destruct (drainL (b' ++ c)) as [evs2 st2]. reflexivity.
    - inversion H.
    - inversion H; subst. fold (drainL (b' ++ c)). cbn [app].
      change (drain rd (S (length (b' ++ c))) (b' ++ c)) with (drainL (b' ++ c)).
      destruct (drainL (b' ++ c)) as [evs2 st2] eqn:E2. unfold drainL in E2. cbn [drain] in E2. rewrite E2. reflexivity.
    - inversion H.
  Qed.

  (** a dead result stays: same events, still dead *)
  Lemma drain_app_dead : forall n b c evs b',
    (length b < n)%nat -> drain rd n b = (evs, DState b' true) ->
    exists b'', drainL (b ++ c) = (evs, DState b'' true).
  Proof.
    induction n as [| n IH]; intros b c evs b' Hn H; [lia |].
    cbn [drain] in H. unfold drainL. cbn [drain].
    destruct (rd b) as [p rest | e rest | k | t] eqn:E.
    - rewrite (rd_prefix_packet _ _ _ c E).
      pose proof (rd_packet_shorter _ _ _ E) as Hs.
      destruct (drain rd n rest) as [evs' st'] eqn:Ed. inversion H; subst.
      rewrite (drain_fuel (length (b ++ c)) (S (length (rest ++ c))) (rest ++ c)) by (rewrite !app_length in *; lia).
      destruct (IH rest c evs' b') as (b'' & Hb''); [lia | exact Ed |].
      unfold drainL in Hb''. rewrite Hb''. exists b''. reflexivity.
    - rewrite (rd_prefix_malformed _ _ _ c E). inversion H; subst. eexists. reflexivity.
    - inversion H.
    - exfalso. exact (rd_total _ _ E).
  Qed.

  Definition obs (x : list (event P) * dstate) : list (event P) * ending := (fst x, ending_of (snd x)).

  (** state invariant between feeds: dead, or the decoder is waiting on the buffered bytes *)
  Definition waiting (st : dstate) : Prop := dead st = true \/ exists k, rd (buf st) = NeedMore k.

  Lemma drain_waiting : forall n b, (length b < n)%nat -> waiting (snd (drain rd n b)).
  Proof.
    induction n as [| n IH]; intros b Hn; [lia |]. cbn [drain].
    destruct (rd b) as [p rest | e rest | k | t] eqn:E.
    - pose proof (rd_packet_shorter _ _ _ E) as Hs. specialize (IH rest ltac:(lia)).
      destruct (drain rd n rest) as [evs st]. exact IH.
    - left. reflexivity.
    - right. exists k. exact E.
    - left. reflexivity.
  Qed.

  Lemma feed_waiting : forall st c, waiting st -> waiting (snd (feed rd st c)).
  Proof.
    intros st c Hw. unfold feed. destruct (dead st) eqn:Ed.
    - left. exact Ed.
    - apply drain_waiting. lia.
  Qed.

  Lemma feed_all_dead : forall cs st, dead st = true -> feed_all rd st cs = ([], st).
  Proof.
    induction cs as [| c cs IH]; intros st Hd; [reflexivity |].
    cbn [feed_all]. unfold feed. rewrite Hd. rewrite IH by exact Hd. reflexivity.
  Qed.

  Lemma feed_all_concat : forall cs st, dead st = false -> waiting st ->
    obs (feed_all rd st cs) = obs (feed rd st (concat cs)).
  Proof.
    induction cs as [| c cs IH]; intros st Hd Hw.
    - cbn [feed_all concat]. unfold feed. rewrite Hd, app_nil_r.
      destruct Hw as [Hw | (k & Hk)]; [congruence |]. cbn [drain]. rewrite Hk.
      unfold obs. cbn [fst snd]. unfold ending_of. cbn [dead buf]. rewrite Hd. reflexivity.
    - cbn [feed_all concat].
      destruct (feed rd st c) as [e1 st1] eqn:E1.
      pose proof (feed_waiting st c Hw) as Hw1. rewrite E1 in Hw1. cbn [snd] in Hw1.
      unfold feed in E1 |- *. rewrite Hd in *.
      destruct st1 as [b1 d1]. destruct d1.
      + rewrite feed_all_dead by reflexivity.
        destruct (drain_app_dead (S (length (buf st ++ c))) (buf st ++ c) (concat cs) e1 b1 ltac:(lia) E1) as (b'' & Hb'').
        rewrite app_assoc. unfold drainL in Hb''. rewrite Hb''.
        unfold obs. cbn [fst snd]. rewrite app_nil_r. reflexivity.
      + specialize (IH (DState b1 false) eq_refl Hw1).
        pose proof (drain_app_live (S (length (buf st ++ c))) (buf st ++ c) (concat cs) e1 b1 ltac:(lia) E1) as Hl.
        rewrite app_assoc. unfold drainL in Hl. rewrite Hl.
        destruct (feed_all rd (DState b1 false) cs) as [e2 st2].
        unfold feed in IH. cbn [dead buf] in IH.
        destruct (drain rd (S (length (b1 ++ concat cs))) (b1 ++ concat cs)) as [evs2 st3].
        unfold obs in *. cbn [fst snd] in *. inversion IH; subst. reflexivity.
  Qed.

  (** C05 chunking_independent: the packets (and the terminal error / ending) obtained by feeding
      the chunks one by one are those obtained by feeding their concatenation at once *)
  Theorem chunking_independent : forall chunks, (exists k, rd [] = NeedMore k) ->
    run_stream rd chunks = run_stream rd [concat chunks].
  Proof.
    intros chunks H0. unfold run_stream.
    assert (Hw : waiting dinit) by (right; exact H0).
    pose proof (feed_all_concat chunks dinit eq_refl Hw) as H.
    cbn [feed_all]. destruct (feed_all rd dinit chunks) as [e1 s1].
    destruct (feed rd dinit (concat chunks)) as [e2 s2].
    unfold obs in H. cbn [fst snd] in H. inversion H; subst. rewrite app_nil_r. reflexivity.
  Qed.
End Drain.
