(** C05 for MQTT 5: the body decoders never panic (for every variant [Q] of the model), and — once
    an InsufficientBytes raised inside a complete frame is reported as MalformedPacket
    ([q_inner_insufficient Q = false], the code after fix 6436c3f) — never ask for more bytes; with
    FramingProofs this gives read_total / read_frame / prefix_stable / chunking_independent for
    [V5.read5], both flavours.  The unrepaired decoder refutes read_frame: [read_frame_v5_refuted]. *)
From Rumqtt Require Import Codec.Wire Codec.V4 Codec.V5Props Codec.V5 Codec.WireProofs Codec.FramingProofs Codec.V4TotalProofs.
From Coq Require Import ZArith ZifyBool ZifyN ZifyNat Lia.

Ltac Zify.zify_post_hook ::= Z.div_mod_to_equations.

(** [np o]: neither a panic nor the model's OutOfFuel (InsufficientBytes is allowed here) *)
Definition np {A} (o : R A) : Prop :=
  match o with
  | Panic _ => False
  | Err OutOfFuel => False
  | _ => True
  end.

Lemma np_bind : forall {A B} (x : R A) (f : A -> R B),
  np x -> (forall a, x = Ok a -> np (f a)) -> np (bind x f).
Proof.
  intros A B x f Hx Hf. destruct x as [a | e | t]; cbn [bind]; [apply Hf; reflexivity | exact Hx | exact Hx].
Qed.

Lemma clean_np : forall {A} (o : R A), clean o -> np o.
Proof. intros A [a | e | t] H; cbn in *; try exact I; try exact H. destruct e; try exact I; exact H. Qed.

(* ------------------------------------------------------------------ vlen inside a frame *)

Lemma vlen_np : forall s, np (vlen s).
Proof.
  intros s. unfold vlen. destruct (vlen_go s 0 0 0) as [r | e | t] eqn:E; cbn.
  - exact I.
  - apply vlen_go_err in E; [| lia]. destruct E as [-> | [-> _]]; exact I.
  - exact (vlen_go_no_panic _ _ _ _ _ E).
Qed.

Lemma vlen_ok_len : forall s ll v, vlen s = Ok (ll, v) -> 1 <= ll <= len s.
Proof.
  intros s ll v H. unfold vlen in H. pose proof (vlen_go_ok_bound s 0 0 0 ll v ltac:(lia) H). lia.
Qed.

(* ------------------------------------------------------------------ property layer *)

Lemma read_u32_clean : forall s, clean (read_u32 s).
Proof.
  intros s. unfold read_u32. destruct (len s <? 4) eqn:E; [exact I |].
  destruct s as [| a [| b [| c [| d r]]]]; rewrite ?len_cons, ?len_nil in E; try lia. exact I.
Qed.

Lemma read_u32_ok : forall s n r, read_u32 s = Ok (n, r) -> exists a b c d, s = a :: b :: c :: d :: r.
Proof.
  intros s n r H. unfold read_u32 in H. destruct (len s <? 4); [discriminate |].
  destruct s as [| a [| b [| c [| d r']]]]; try discriminate. inversion H; subst. exists a, b, c, d. reflexivity.
Qed.

Lemma read_value_np : forall vx k s, np (read_value vx k s).
Proof.
  intros vx k s. destruct k; cbn [read_value].
  - apply np_bind; [apply clean_np, read_u8_clean |]. intros [v s1] _. exact I.
  - apply np_bind; [apply clean_np, read_u16_clean |]. intros [v s1] _. exact I.
  - apply np_bind; [apply clean_np, read_u32_clean |]. intros [v s1] _. exact I.
  - apply np_bind; [apply vlen_np |]. intros [ll v] Hv. apply vlen_ok_len in Hv.
    apply np_bind; [apply clean_np, advance_clean; lia |]. intros s1 _. exact I.
  - apply np_bind; [apply clean_np, read_mqtt_string_clean |]. intros [v s1] _. exact I.
  - apply np_bind; [apply clean_np, read_mqtt_bytes_clean |]. intros [v s1] _. exact I.
  - apply np_bind; [apply clean_np, read_mqtt_string_clean |]. intros [v s1] _.
    apply np_bind; [apply clean_np, read_mqtt_string_clean |]. intros [v' s2] _. exact I.
Qed.

(** every value takes at most the bytes that are there *)
Lemma read_value_shorter : forall vx k s v inc s', read_value vx k s = Ok (v, inc, s') ->
  (length s' <= length s)%nat.
Proof.
  intros vx k s v inc s' H. destruct k; cbn [read_value] in H.
  - destruct (read_u8 s) as [[x s1] | e | t] eqn:E; cbn [bind] in H; try discriminate.
    apply read_u8_ok in E. inversion H; subst. cbn [length]. lia.
  - destruct (read_u16 s) as [[x s1] | e | t] eqn:E; cbn [bind] in H; try discriminate.
    destruct (read_u16_ok _ _ _ E) as (a & b & ->). inversion H; subst. cbn [length]. lia.
  - destruct (read_u32 s) as [[x s1] | e | t] eqn:E; cbn [bind] in H; try discriminate.
    destruct (read_u32_ok _ _ _ E) as (a & b & c & d & ->). inversion H; subst. cbn [length]. lia.
  - destruct (vlen s) as [[ll x] | e | t] eqn:E; cbn [bind] in H; try discriminate.
    destruct (advance ll s) as [s1 | e | t] eqn:Ea; cbn [bind] in H; try discriminate.
    inversion H; subst. apply advance_len in Ea. rewrite !len_spec in Ea. lia.
  - destruct (read_mqtt_string s) as [[x s1] | e | t] eqn:E; cbn [bind] in H; try discriminate.
    apply read_mqtt_string_ok in E. inversion H; subst. rewrite !len_spec in E. lia.
  - destruct (read_mqtt_bytes s) as [[x s1] | e | t] eqn:E; cbn [bind] in H; try discriminate.
    apply read_mqtt_bytes_ok in E. inversion H; subst. rewrite !len_spec in E. lia.
  - destruct (read_mqtt_string s) as [[x s1] | e | t] eqn:E; cbn [bind] in H; try discriminate.
    destruct (read_mqtt_string s1) as [[y s2] | e | t] eqn:E2; cbn [bind] in H; try discriminate.
    apply read_mqtt_string_ok in E. apply read_mqtt_string_ok in E2. inversion H; subst.
    rewrite !len_spec in *. lia.
Qed.

Lemma props_loop_np : forall vx tab fuel cursor plen s, (length s < fuel)%nat ->
  np (props_loop vx tab fuel cursor plen s).
Proof.
  intros vx tab. induction fuel as [| fuel IH]; intros cursor plen s Hf; [lia |].
  cbn [props_loop]. destruct (cursor <? plen); [| exact I].
  apply np_bind; [apply clean_np, read_u8_clean |]. intros [id s1] Hid. apply read_u8_ok in Hid. subst s.
  destruct (kind_of_id id) as [k |]; [| exact I].
  destruct (negb (in_table tab id)); [exact I |].
  apply np_bind; [apply read_value_np |]. intros [[v inc] s2] Hv. apply read_value_shorter in Hv.
  apply np_bind; [apply IH; cbn [length] in Hf; lia |]. intros [rest s3] _. exact I.
Qed.

Lemma read_props_np : forall vx tab s, np (read_props vx tab s).
Proof.
  intros vx tab s. unfold read_props.
  apply np_bind; [apply vlen_np |]. intros [ll plen] Hv. apply vlen_ok_len in Hv.
  apply np_bind; [apply clean_np, advance_clean; lia |]. intros s1 _.
  destruct (plen =? 0); [exact I |].
  apply np_bind; [apply props_loop_np; lia |]. intros [raw s2] _. exact I.
Qed.

(* ------------------------------------------------------------------ packet bodies *)

Section Bodies5.
  Variables (Q : quirks) (fl : flavour) (h : fixed_header) (frame : list N).
  Hypothesis Hlen : len frame = frame_length h.

  Let adv_np : np (advance (fixed_header_len h) frame).
  Proof. apply clean_np, advance_clean. unfold frame_length in Hlen. lia. Qed.

  Lemma will5_read_np : forall flags s, np (will5_read Q flags s).
  Proof.
    intros flags s. unfold will5_read. destruct (N.land flags 4 =? 0).
    - destruct (negb (N.land flags 56 =? 0)); exact I.
    - apply np_bind; [apply read_props_np |]. intros [ps s0] _.
      apply np_bind; [apply clean_np, read_mqtt_bytes_clean |]. intros [tp s1] _.
      apply np_bind; [apply clean_np, read_mqtt_bytes_clean |]. intros [ms s2] _.
      apply np_bind; [apply clean_np, qos_of_clean |]. intros q _. exact I.
  Qed.

  Lemma connect5_read_np : np (connect5_read Q h frame).
  Proof.
    unfold connect5_read. apply np_bind; [apply adv_np |]. intros s _.
    apply np_bind; [apply clean_np, read_mqtt_string_clean |]. intros [name s1] _.
    apply np_bind; [apply clean_np, read_u8_clean |]. intros [level s2] _.
    destruct (negb (str_eqb name MQTT)); [exact I |]. destruct (negb (level =? 5)); [exact I |].
    apply np_bind; [apply clean_np, read_u8_clean |]. intros [flags s3] _.
    apply np_bind; [apply clean_np, read_u16_clean |]. intros [ka s4] _.
    apply np_bind; [apply read_props_np |]. intros [ps s5] _.
    apply np_bind; [apply clean_np, read_mqtt_string_clean |]. intros [cid s6] _.
    apply np_bind; [apply will5_read_np |]. intros [w s7] _.
    apply np_bind; [apply clean_np, (login_read_clean Client) |]. intros [lg s8] _. exact I.
  Qed.

  Lemma connack5_read_np : np (connack5_read Q h frame).
  Proof.
    unfold connack5_read. apply np_bind; [apply adv_np |]. intros s _.
    apply np_bind; [apply clean_np, read_u8_clean |]. intros [flags s1] _.
    apply np_bind; [apply clean_np, read_u8_clean |]. intros [rc s2] _.
    apply np_bind; [apply read_props_np |]. intros [ps s3] _.
    destruct (mem rc connack_codes); exact I.
  Qed.

  Lemma publish5_read_np : np (publish5_read Q h frame).
  Proof.
    unfold publish5_read. apply np_bind; [apply clean_np, qos_of_clean |]. intros q _.
    apply np_bind; [apply adv_np |]. intros s _.
    apply np_bind; [apply clean_np, read_mqtt_bytes_clean |]. intros [topic s1] _.
    apply np_bind; [destruct (is_qos0 q); [exact I | apply clean_np, read_u16_clean] |]. intros [pkid s2] _.
    destruct (negb (is_qos0 q) && (pkid =? 0)); [exact I |].
    apply np_bind; [apply read_props_np |]. intros [ps s3] _. exact I.
  Qed.

  Lemma ack5_read_np : forall mk reasons, np (ack5_read Q fl mk reasons h frame).
  Proof.
    intros mk reasons. unfold ack5_read. apply np_bind; [apply adv_np |]. intros s _.
    apply np_bind; [apply clean_np, read_u16_clean |]. intros [pkid s1] _.
    destruct (remaining_len h =? 2); [exact I |].
    apply np_bind; [apply clean_np, read_u8_clean |]. intros [r s2] _.
    assert (Hc : np (if mem r reasons then Ok r else Err InvalidConnectReturnCode)) by (destruct (mem r reasons); exact I).
    destruct (remaining_len h <? 4).
    - apply np_bind; [exact Hc |]. intros r' _. exact I.
    - destruct fl.
      + apply np_bind; [apply read_props_np |]. intros [ps s3] _.
        apply np_bind; [exact Hc |]. intros r' _. exact I.
      + apply np_bind; [exact Hc |]. intros r' _.
        apply np_bind; [apply read_props_np |]. intros [ps s3] _. exact I.
  Qed.

  Lemma filters5_read_np : forall fuel s, (length s <= fuel)%nat -> np (filters5_read fuel s).
  Proof.
    induction fuel as [| fuel IH]; intros s Hf; cbn [filters5_read]; destruct (is_empty s) eqn:Es; try exact I.
    { destruct s; [discriminate | cbn [length] in Hf; lia]. }
    apply np_bind; [apply clean_np, read_mqtt_string_clean |]. intros [path s1] Hp. apply read_mqtt_string_ok in Hp.
    apply np_bind; [apply clean_np, read_u8_clean |]. intros [options s2] Ho. apply read_u8_ok in Ho. subst s1.
    destruct (2 <? N.land (N.shiftr options 4) 3); [exact I |].
    apply np_bind; [apply clean_np, qos_of_clean |]. intros q _.
    apply np_bind; [apply IH |]. 2:{ intros r _. exact I. }
    rewrite len_cons, !len_spec in Hp. lia.
  Qed.

  Lemma subscribe5_read_np : np (subscribe5_read Q h frame).
  Proof.
    unfold subscribe5_read. apply np_bind; [apply adv_np |]. intros s _.
    apply np_bind; [apply clean_np, read_u16_clean |]. intros [pkid s1] _.
    apply np_bind; [apply read_props_np |]. intros [ps s2] _.
    apply np_bind; [apply filters5_read_np; lia |]. intros fs _. destruct (nil_b fs); exact I.
  Qed.

  Lemma codes5_read_np : forall s, np (codes5_read fl s).
  Proof.
    induction s as [| c s IH]; cbn [codes5_read]; [exact I |].
    apply np_bind.
    { unfold rc5_reason.
      repeat match goal with |- context [match ?x with _ => _ end] => destruct x end; exact I. }
    intros x _. apply np_bind; [apply IH |]. intros xs _. exact I.
  Qed.

  Lemma suback5_read_np : np (suback5_read Q fl h frame).
  Proof.
    unfold suback5_read. apply np_bind; [apply adv_np |]. intros s _.
    apply np_bind; [apply clean_np, read_u16_clean |]. intros [pkid s1] _.
    apply np_bind; [apply read_props_np |]. intros [ps s2] _.
    destruct (is_empty s2); [exact I |].
    apply np_bind; [apply codes5_read_np |]. intros cs _. exact I.
  Qed.

  Lemma strings_read_np : forall fuel s, (length s <= fuel)%nat -> np (strings_read fuel s).
  Proof.
    induction fuel as [| fuel IH]; intros s Hf; cbn [strings_read]; destruct (is_empty s) eqn:Es; try exact I.
    { destruct s; [discriminate | cbn [length] in Hf; lia]. }
    apply np_bind; [apply clean_np, read_mqtt_string_clean |]. intros [x s1] Hp. apply read_mqtt_string_ok in Hp.
    apply np_bind; [apply IH; rewrite !len_spec in Hp; lia |]. intros r _. exact I.
  Qed.

  Lemma unsubscribe5_read_np : np (unsubscribe5_read Q h frame).
  Proof.
    unfold unsubscribe5_read. apply np_bind; [apply adv_np |]. intros s _.
    apply np_bind; [apply clean_np, read_u16_clean |]. intros [pkid s1] _.
    apply np_bind; [apply read_props_np |]. intros [ps s2] _.
    apply np_bind; [apply strings_read_np; lia |]. intros fs _. exact I.
  Qed.

  Lemma reasons_read_np : forall s, np (reasons_read s).
  Proof.
    induction s as [| c s IH]; cbn [reasons_read]; [exact I |].
    destruct (mem c unsuback_reasons); [| exact I].
    apply np_bind; [apply IH |]. intros xs _. exact I.
  Qed.

  Lemma unsuback5_read_np : np (unsuback5_read Q h frame).
  Proof.
    unfold unsuback5_read. apply np_bind; [apply adv_np |]. intros s _.
    apply np_bind; [apply clean_np, read_u16_clean |]. intros [pkid s1] _.
    apply np_bind; [apply read_props_np |]. intros [ps s2] _.
    destruct (is_empty s2); [exact I |].
    apply np_bind; [apply reasons_read_np |]. intros rs _. exact I.
  Qed.

  Lemma disconnect5_read_np : np (disconnect5_read Q h frame).
  Proof.
    unfold disconnect5_read. apply np_bind; [apply adv_np |]. intros s _.
    destruct (negb (N.shiftr (byte1 h) 4 =? 14)); [exact I |].
    destruct (negb (N.land (byte1 h) 15 =? 0)); [exact I |].
    destruct (remaining_len h =? 0); [exact I |].
    apply np_bind; [apply clean_np, read_u8_clean |]. intros [r s1] _.
    destruct (negb (mem r disconnect_reasons)); [exact I |].
    apply np_bind; [apply read_props_np |]. intros [ps s2] _. exact I.
  Qed.

  Lemma read_body5_raw_np : np (read_body5_raw Q fl h frame).
  Proof.
    unfold read_body5_raw. apply np_bind.
    { unfold packet_type. destruct ((1 <=? byte1 h / 16) && (byte1 h / 16 <=? 14)); exact I. }
    intros ty Hty. unfold packet_type in Hty.
    destruct ((1 <=? byte1 h / 16) && (byte1 h / 16 <=? 14)) eqn:E; [| discriminate].
    inversion Hty; subst ty. set (ty := byte1 h / 16) in *.
    assert (Hcases : ty = 1 \/ ty = 2 \/ ty = 3 \/ ty = 4 \/ ty = 5 \/ ty = 6 \/ ty = 7 \/ ty = 8 \/ ty = 9 \/
                     ty = 10 \/ ty = 11 \/ ty = 12 \/ ty = 13 \/ ty = 14) by lia.
    clearbody ty.
    destruct (remaining_len h =? 0).
    - repeat (destruct Hcases as [-> | Hcases]; [exact I |]). subst ty.
      destruct fl; [destruct (q_client_disconnect0 Q) |]; exact I.
    - destruct Hcases as [-> | Hcases]; [apply connect5_read_np |].
      destruct Hcases as [-> | Hcases]; [apply connack5_read_np |].
      destruct Hcases as [-> | Hcases]; [apply publish5_read_np |].
      destruct Hcases as [-> | Hcases]; [apply ack5_read_np |].
      destruct Hcases as [-> | Hcases]; [apply ack5_read_np |].
      destruct Hcases as [-> | Hcases]; [apply ack5_read_np |].
      destruct Hcases as [-> | Hcases]; [apply ack5_read_np |].
      destruct Hcases as [-> | Hcases]; [apply subscribe5_read_np |].
      destruct Hcases as [-> | Hcases]; [apply suback5_read_np |].
      destruct Hcases as [-> | Hcases]; [apply unsubscribe5_read_np |].
      destruct Hcases as [-> | Hcases]; [apply unsuback5_read_np |].
      destruct Hcases as [-> | Hcases]; [exact I |].
      destruct Hcases as [-> | ->]; [exact I |].
      apply disconnect5_read_np.
  Qed.

  Lemma read_body5_np : np (read_body5 Q fl h frame).
  Proof.
    unfold read_body5. pose proof read_body5_raw_np as H.
    destruct (read_body5_raw Q fl h frame) as [p | e | t]; [exact I | | exact H].
    destruct e; try exact I; try exact H. destruct (q_inner_insufficient Q); exact I.
  Qed.
End Bodies5.

Lemma body5_no_panic : forall Q fl h frame t,
  len frame = frame_length h -> 2 <= fixed_header_len h -> read_body5 Q fl h frame <> Panic t.
Proof.
  intros Q fl h frame t Hl _ H. pose proof (read_body5_np Q fl h frame Hl) as C. rewrite H in C. exact C.
Qed.

Lemma body5_no_insufficient : forall Q fl h frame k, q_inner_insufficient Q = false ->
  len frame = frame_length h -> read_body5 Q fl h frame <> Err (InsufficientBytes k).
Proof.
  intros Q fl h frame k HQ _ H. unfold read_body5 in H. rewrite HQ in H.
  destruct (read_body5_raw Q fl h frame) as [p | e | t]; try discriminate. destruct e; discriminate.
Qed.

(* ------------------------------------------------------------------ C05 for V5.read5 *)

Definition eff_max (max : option N) : N := match max with Some mx => mx | None => MAX_REMAINING end.

Lemma current_fixed : q_inner_insufficient CURRENT = false.
Proof. reflexivity. Qed.

Theorem read_total_v5 : forall fl bs max t, read5 fl bs max <> RPanic t.
Proof.
  intros fl bs max t. unfold read5, read5_gen.
  apply read_framed_total; [apply body5_no_panic | intros h frame k; apply body5_no_insufficient, current_fixed].
Qed.

Theorem read_frame_packet_v5 : forall fl bs max p rest, read5 fl bs max = Packet p rest ->
  exists h frame, parse_fixed_header bs = Ok h /\ bs = frame ++ rest /\
                  len frame = frame_length h /\ remaining_len h <= eff_max max /\ 2 <= len frame.
Proof.
  intros fl bs max p rest H. unfold read5, read5_gen in H.
  eapply read_framed_packet; [apply body5_no_panic | intros h frame k; apply body5_no_insufficient, current_fixed | exact H].
Qed.

Theorem read_frame_malformed_v5 : forall fl bs max e rest, read5 fl bs max = Malformed e rest ->
  (rest = bs /\ (e = MalformedRemainingLength \/ e = PayloadSizeLimitExceeded)) \/
  exists h frame, parse_fixed_header bs = Ok h /\ bs = frame ++ rest /\
                  len frame = frame_length h /\ remaining_len h <= eff_max max.
Proof.
  intros fl bs max e rest H. unfold read5, read5_gen in H.
  eapply read_framed_malformed; [apply body5_no_panic | intros h frame k; apply body5_no_insufficient, current_fixed | exact H].
Qed.

Theorem read_frame_over_max_v5 : forall fl bs mx h, parse_fixed_header bs = Ok h -> mx < remaining_len h ->
  read5 fl bs (Some mx) = Malformed PayloadSizeLimitExceeded bs.
Proof.
  intros fl bs mx h Hp Hm. unfold read5, read5_gen.
  eapply read_framed_over_max;
    first [apply body5_no_panic | (intros h0 frame k; apply body5_no_insufficient, current_fixed) | exact Hp | exact Hm].
Qed.

(** the fixed header never declares more than 268435455: `max_size = None` (client) rejects nothing *)
Lemma vlen_go_value_bound : forall s acc ll sh ll' v, sh <= 21 -> acc < 2 ^ sh ->
  vlen_go s acc ll sh = Ok (ll', v) -> v < 2 ^ 28.
Proof.
  induction s as [| b s IH]; intros acc ll sh ll' v Hsh Hacc H; cbn [vlen_go] in H; [discriminate |].
  assert (Hb : N.land b 127 < 128).
  { change 127 with (N.ones 7). rewrite N.land_ones. change (2 ^ 7) with 128. apply N.mod_lt. lia. }
  rewrite N.shiftl_mul_pow2 in H.
  assert (Hnew : acc + N.land b 127 * 2 ^ sh < 2 ^ (sh + 7)).
  { rewrite N.pow_add_r. change (2 ^ 7) with 128. nia. }
  destruct (N.land b 128 =? 0).
  - inversion H; subst. eapply N.lt_le_trans; [exact Hnew |]. apply N.pow_le_mono_r; lia.
  - destruct (21 <? sh + 7) eqn:E; [discriminate |]. eapply IH; [| exact Hnew | exact H]. lia.
Qed.

Lemma pfh_remaining_bound : forall s h, parse_fixed_header s = Ok h -> remaining_len h <= MAX_REMAINING.
Proof.
  intros s h H. destruct (pfh_ok_inv s h H) as (b1 & r & ll & -> & Hv & _).
  unfold vlen in Hv. apply vlen_go_value_bound in Hv; [| lia | change (2 ^ 0) with 1; lia].
  unfold MAX_REMAINING. change (2 ^ 28) with 268435456 in Hv. lia.
Qed.

Theorem read_frame_need_more_v5 : forall fl bs max k, read5 fl bs max = NeedMore k ->
  (parse_fixed_header bs = Err (InsufficientBytes k) /\ 1 <= k /\ len bs <= 4) \/
  exists h, parse_fixed_header bs = Ok h /\ remaining_len h <= eff_max max /\ len bs < frame_length h /\
            1 <= k /\ k <= frame_length h - len bs.
Proof.
  intros fl bs max k H. unfold read5, read5_gen in H.
  eapply read_framed_need_more; [apply body5_no_panic | intros h frame k'; apply body5_no_insufficient, current_fixed | exact H].
Qed.

Theorem prefix_stable_packet_v5 : forall fl bs max p rest more,
  read5 fl bs max = Packet p rest -> read5 fl (bs ++ more) max = Packet p (rest ++ more).
Proof.
  intros fl bs max p rest more H. unfold read5, read5_gen in *.
  apply read_framed_prefix_packet; [apply body5_no_panic | intros h frame k; apply body5_no_insufficient, current_fixed | exact H].
Qed.

Theorem prefix_stable_malformed_v5 : forall fl bs max e rest more,
  read5 fl bs max = Malformed e rest -> read5 fl (bs ++ more) max = Malformed e (rest ++ more).
Proof.
  intros fl bs max e rest more H. unfold read5, read5_gen in *.
  apply read_framed_prefix_malformed; [apply body5_no_panic | intros h frame k; apply body5_no_insufficient, current_fixed | exact H].
Qed.

Theorem chunking_independent_v5 : forall fl max chunks,
  run_stream5 fl max chunks = run_stream5 fl max [concat chunks].
Proof.
  intros fl max chunks. unfold run_stream5.
  apply chunking_independent.
  - intros b t. apply read_total_v5.
  - intros b p rest H. destruct (read_frame_packet_v5 _ _ _ _ _ H) as (h & frame & _ & Hb & _ & _ & Hl).
    exists frame. split; [exact Hb |]. rewrite len_spec in Hl. lia.
  - intros b p rest more H. apply prefix_stable_packet_v5. exact H.
  - intros b e rest more H. apply prefix_stable_malformed_v5. exact H.
  - exists 2. reflexivity.
Qed.

Theorem read_no_out_of_fuel_v5 : forall fl bs max rest, read5 fl bs max <> Malformed OutOfFuel rest.
Proof.
  intros fl bs max rest H. unfold read5, read5_gen in H.
  apply read_framed_malformed_cause in H;
    [| apply body5_no_panic | intros h frame k; apply body5_no_insufficient, current_fixed].
  destruct H as [H | [H | (h & frame & Hl & Hb)]]; try discriminate.
  pose proof (read_body5_np CURRENT fl h frame Hl) as C. rewrite Hb in C. exact C.
Qed.

(* ------------------------------------------------------------------ the decoders as they were (F3) *)

(** `30 03 00 00 80`: a complete frame (PUBLISH, remaining length 3) whose property length is a
    truncated variable byte integer: both unrepaired decoders asked for one more byte. *)
Theorem read_frame_v5_refuted : exists bs h,
  parse_fixed_header bs = Ok h /\ frame_length h <= len bs /\
  read5_gen unfixed Client bs None = NeedMore 1 /\ read5_gen unfixed Broker bs (Some 100) = NeedMore 1 /\
  read5 Client bs None = Malformed MalformedPacket [] /\ read5 Broker bs (Some 100) = Malformed MalformedPacket [].
Proof. exists [48; 3; 0; 0; 128]. eexists. vm_compute. repeat split; discriminate. Qed.
