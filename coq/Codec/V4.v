(** M-CODEC, MQTT 3.1.1: executable model of
      Client : rumqttc/src/mqttbytes/v4/*.rs   (Packet::read / Packet::write / Packet::size)
      Broker : rumqttd/src/protocol/v4/*.rs    (V4::read_mut / V4::write)
    over ONE canonical packet type.  The two copies are the same code except at the places
    marked [fl] below.  No proofs in this file.

    Canonical packet <-> Rust struct (the harness does this field by field):
    fields that exist in only one crate's struct (broker: v5 reason codes, filter options,
    UnsubAck reasons, the extra ConnectReturnCode / SubscribeReasonCode constructors; client:
    Protocol::V5 in Connect) are part of the canonical packet; a canonical packet that the
    chosen crate's type cannot hold is [Unrepresentable] (checked first, in [write]). *)
From Rumqtt Require Export Codec.Wire.

Inductive flavour : Type := Client | Broker.

Inductive qos : Type := AtMostOnce | AtLeastOnce | ExactlyOnce.

Definition qos_num (q : qos) : N :=
  match q with AtMostOnce => 0 | AtLeastOnce => 1 | ExactlyOnce => 2 end.

Definition qos_of (n : N) : R qos :=
  match n with
  | 0 => Ok AtMostOnce
  | 1 => Ok AtLeastOnce
  | 2 => Ok ExactlyOnce
  | _ => Err InvalidQoS
  end.

Definition is_qos0 (q : qos) : bool := match q with AtMostOnce => true | _ => false end.

Record lastwill : Type := LastWill
  { w_topic : list N; w_message : list N; w_qos : qos; w_retain : bool }.

Record login : Type := Login { l_username : list N; l_password : list N }.

Record connect : Type := MkConnect
  { c_protocol : N;            (* 4 | 5 (client: Protocol::V4 | V5; broker: always 4) *)
    c_keep_alive : N;
    c_client_id : list N;
    c_clean_session : bool;
    c_last_will : option lastwill;
    c_login : option login }.

(** [f_opts]: broker-only fields of [Filter], packed: nolocal + 2*preserve_retain +
    4*retain_forward_rule (0 OnEverySubscribe, 1 OnNewSubscribe, 2 Never); 0 for the client *)
Record filter : Type := Filter { f_path : list N; f_qos : qos; f_opts : N }.

(** SubscribeReasonCode.  Client: [Success q | Failure].  Broker additionally has
    [QoS0/1/2] ([RcQoS]), [Unspecified] and the v5 codes ([RcOther byte]). *)
Inductive subrc : Type :=
| RcSuccess (q : qos)
| RcFailure
| RcQoS (q : qos)
| RcUnspecified
| RcOther (b : N).

Inductive packet : Type :=
| Connect (c : connect)
| ConnAck (session_present : bool) (code : N)     (* index in the broker's ConnectReturnCode, v4 table first: 0..5 *)
| Publish (dup : bool) (q : qos) (retain : bool) (topic : list N) (pkid : N) (payload : list N)
| PubAck (pkid : N) (reason : N)                  (* reason: broker-only field (index of the v5 reason enum), 0 = Success *)
| PubRec (pkid : N) (reason : N)
| PubRel (pkid : N) (reason : N)
| PubComp (pkid : N) (reason : N)
| Subscribe (pkid : N) (filters : list filter)
| SubAck (pkid : N) (codes : list subrc)
| Unsubscribe (pkid : N) (topics : list (list N))
| UnsubAck (pkid : N) (reasons : list N)          (* reasons: broker-only field *)
| PingReq
| PingResp
| Disconnect (reason : N).                        (* reason: broker-only field, 0 = NormalDisconnection *)

(* ------------------------------------------------------------------ representability *)

Definition other_rc_known (b : N) : bool :=
  existsb (N.eqb b) [131; 135; 143; 145; 151; 158; 161; 162].

Definition repr_rc (fl : flavour) (c : subrc) : bool :=
  match fl, c with
  | _, RcSuccess _ | _, RcFailure => true
  | Client, _ => false
  | Broker, RcOther b => other_rc_known b
  | Broker, _ => true
  end.

Definition repr_filter (fl : flavour) (f : filter) : bool :=
  utf8_valid (f_path f) &&
  match fl with Client => f_opts f =? 0 | Broker => f_opts f <? 12 end.

Definition repr_reason (fl : flavour) (bound r : N) : bool :=
  match fl with Client => r =? 0 | Broker => r <? bound end.

Definition repr_will (fl : flavour) (w : option lastwill) : bool :=
  match fl, w with
  | Client, Some w => utf8_valid (w_topic w)      (* String in the client, Bytes in the broker *)
  | _, _ => true
  end.

Definition repr_login (l : option login) : bool :=
  match l with
  | Some l => utf8_valid (l_username l) && utf8_valid (l_password l)
  | None => true
  end.

Definition repr (fl : flavour) (p : packet) : bool :=
  match p with
  | Connect c =>
      (match fl with
       | Client => (c_protocol c =? 4) || (c_protocol c =? 5)
       | Broker => c_protocol c =? 4
       end)
      && utf8_valid (c_client_id c) && repr_will fl (c_last_will c) && repr_login (c_login c)
  | ConnAck _ code => match fl with Client => code <? 6 | Broker => code <? 24 end
  | Publish _ _ _ topic _ _ => match fl with Client => utf8_valid topic | Broker => true end
  | PubAck _ r => repr_reason fl 9 r
  | PubRec _ r => repr_reason fl 9 r
  | PubRel _ r => repr_reason fl 2 r
  | PubComp _ r => repr_reason fl 2 r
  | Subscribe _ fs => forallb (repr_filter fl) fs
  | SubAck _ cs => forallb (repr_rc fl) cs
  | Unsubscribe _ ts => forallb utf8_valid ts
  | UnsubAck _ rs => match fl with Client => is_empty rs | Broker => forallb (fun r => r <? 7) rs end
  | PingReq | PingResp => true
  | Disconnect r => repr_reason fl 29 r
  end.

(* ------------------------------------------------------------------ len() / size() *)

Definition MQTT : list N := [77; 81; 84; 84].

Definition will_len (w : lastwill) : N := 2 + len (w_topic w) + 2 + len (w_message w).

Definition login_len (l : login) : N :=
  (if is_empty (l_username l) then 0 else 2 + len (l_username l)) +
  (if is_empty (l_password l) then 0 else 2 + len (l_password l)).

Definition connect_len (c : connect) : N :=
  2 + 4 + 1 + 1 + 2
  + (2 + len (c_client_id c))
  + match c_last_will c with Some w => will_len w | None => 0 end
  + match c_login c with Some l => login_len l | None => 0 end.

(** Publish::len.  Client (and the broker's unused v4/publish.rs::len): +2 iff qos != 0 && pkid != 0;
    the broker's write uses protocol::Publish::len: +2 iff qos != 0. *)
Definition publish_len (fl : flavour) (q : qos) (topic : list N) (pkid : N) (payload : list N) : N :=
  let l := 2 + len topic + len payload in
  match fl with
  | Client => if negb (is_qos0 q) && negb (pkid =? 0) then l + 2 else l
  | Broker => if is_qos0 q then l else l + 2
  end.

Definition filter_len (f : filter) : N := 2 + len (f_path f) + 1.

Fixpoint sum_map {A} (f : A -> N) (l : list A) : N :=
  match l with [] => 0 | x :: r => f x + sum_map f r end.

Definition rc_code (c : subrc) : N :=
  match c with
  | RcSuccess q => qos_num q
  | RcFailure => 128
  | RcQoS q => qos_num q
  | RcUnspecified => 128
  | RcOther b => b
  end.

(** remaining length as computed by the encoder *)
Definition plen (fl : flavour) (p : packet) : N :=
  match p with
  | Connect c => connect_len c
  | ConnAck _ _ => 2
  | Publish _ q _ topic pkid payload => publish_len fl q topic pkid payload
  | PubAck _ _ | PubRec _ _ | PubRel _ _ | PubComp _ _ => 2
  | Subscribe _ fs => 2 + sum_map filter_len fs
  | SubAck _ cs => 2 + len (map rc_code cs)
  | Unsubscribe _ ts => 2 + sum_map (fun t => len t + 2) ts
  | UnsubAck _ _ => 2
  | PingReq | PingResp | Disconnect _ => 0
  end.

(** Packet::size() (client); for the broker: the count [V4::write] returns *)
Definition size (fl : flavour) (p : packet) : N :=
  match p with
  | UnsubAck _ _ => 4
  | PingReq | PingResp | Disconnect _ => 2
  | _ => 1 + len_len (plen fl p) + plen fl p
  end.

(* ------------------------------------------------------------------ write *)

Definition b2n (b : bool) : N := if b then 1 else 0.

(** buffer[i] = v *)
Fixpoint set_index (i : nat) (v : N) (l : list N) : R (list N) :=
  match l, i with
  | [], _ => Panic P_INDEX
  | _ :: r, O => Ok (v :: r)
  | x :: r, S i' => do r' <- set_index i' v r; Ok (x :: r')
  end.

Definition will_flags (w : lastwill) : N :=
  let f := N.lor 4 (N.shiftl (qos_num (w_qos w)) 3) in
  if w_retain w then N.lor f 32 else f.

Definition login_flags (l : login) : N :=
  N.lor (if is_empty (l_username l) then 0 else 128) (if is_empty (l_password l) then 0 else 64).

Definition login_bytes (l : login) : list N :=
  (if is_empty (l_username l) then [] else write_mqtt_string (l_username l)) ++
  (if is_empty (l_password l) then [] else write_mqtt_string (l_password l)).

(** header byte, remaining length, body; returns (buffer, 1 + count + len) *)
Definition with_header (b1 : N) (l : N) (body : list N) : R (list N * N) :=
  do rl <- write_remaining_length l;
  Ok (b1 :: rl ++ body, 1 + len rl + l).

Definition connect_write (fl : flavour) (c : connect) : R (list N * N) :=
  let l := connect_len c in
  do rl <- write_remaining_length l;
  let count := len rl in
  let level := match fl with Client => if c_protocol c =? 4 then 4 else 5 | Broker => 4 end in
  let flags_index := 1 + count + 2 + 4 + 1 in
  let f0 := if c_clean_session c then 2 else 0 in
  let b0 := 16 :: rl ++ write_mqtt_string MQTT ++ [level] ++ [f0]
               ++ u16_be (c_keep_alive c) ++ write_mqtt_string (c_client_id c) in
  let '(f1, b1) := match c_last_will c with
                   | Some w => (N.lor f0 (will_flags w),
                                b0 ++ write_mqtt_bytes (w_topic w) ++ write_mqtt_bytes (w_message w))
                   | None => (f0, b0)
                   end in
  let '(f2, b2) := match c_login c with
                   | Some lg => (N.lor f1 (login_flags lg), b1 ++ login_bytes lg)
                   | None => (f1, b1)
                   end in
  do b3 <- set_index (N.to_nat flags_index) f2 b2;      (* buffer[flags_index] = connect_flags *)
  Ok (b3, 1 + count + l).

Definition publish_write (fl : flavour) (dup : bool) (q : qos) (retain : bool)
           (topic : list N) (pkid : N) (payload : list N) : R (list N * N) :=
  let l := publish_len fl q topic pkid payload in
  let b1 := N.lor (N.lor (N.lor 48 (b2n retain)) (N.shiftl (qos_num q) 1)) (N.shiftl (b2n dup) 3) in
  do rl <- write_remaining_length l;
  do tail <- (if is_qos0 q then Ok payload
              else if pkid =? 0 then Err PacketIdZero
              else Ok (u16_be pkid ++ payload));
  Ok (b1 :: rl ++ write_mqtt_bytes topic ++ tail, 1 + len rl + l).

Definition filter_bytes (f : filter) : list N :=
  write_mqtt_string (f_path f) ++ [N.lor 0 (qos_num (f_qos f))].

Definition write_body (fl : flavour) (p : packet) : R (list N * N) :=
  match p with
  | Connect c => connect_write fl c
  | ConnAck sp code =>
      do rl <- write_remaining_length 2;
      (* broker: connect_code(): `_ => unreachable!()` for the v5-only codes *)
      if 5 <? code then Panic P_UNREACHABLE
      else Ok (32 :: rl ++ [b2n sp; code], 1 + len rl + 2)
  | Publish dup q retain topic pkid payload => publish_write fl dup q retain topic pkid payload
  | PubAck pkid _ => with_header 64 2 (u16_be pkid)
  | PubRec pkid _ => with_header 80 2 (u16_be pkid)
  | PubRel pkid _ => with_header 98 2 (u16_be pkid)
  | PubComp pkid _ => with_header 112 2 (u16_be pkid)
  | Subscribe pkid fs =>
      with_header 130 (plen fl p) (u16_be pkid ++ flat_map filter_bytes fs)
  | SubAck pkid cs =>
      with_header 144 (plen fl p) (u16_be pkid ++ map rc_code cs)
  | Unsubscribe pkid ts =>
      with_header 162 (plen fl p) (u16_be pkid ++ flat_map write_mqtt_string ts)
  | UnsubAck pkid _ => Ok ([176; 2] ++ u16_be pkid, 4)
  | PingReq => Ok ([192; 0], 2)
  | PingResp => Ok ([208; 0], 2)
  | Disconnect _ => Ok ([224; 0], 2)
  end.

(** [write fl max p]: bytes appended to an EMPTY buffer, and the count returned.
    Client: Packet::write(&self, stream, max_size) checks size() > max_size first.
    Broker: V4::write has no size check ([max] unused). *)
Definition write (fl : flavour) (max : N) (p : packet) : R (list N * N) :=
  if negb (repr fl p) then Err Unrepresentable
  else
    match fl with
    | Client => if max <? size Client p then Err OutgoingPacketTooLarge else write_body Client p
    | Broker => write_body Broker p
    end.

(* ------------------------------------------------------------------ read *)

Definition bit (flags mask : N) : bool := negb (N.land flags mask =? 0).

(** a String field: client read_mqtt_string (TopicNotUtf8); broker read_mqtt_bytes +
    std::str::from_utf8(..)? (PayloadNotUtf8) *)
Definition read_str (fl : flavour) (s : list N) : R (list N * list N) :=
  match fl with
  | Client => read_mqtt_string s
  | Broker => do x <- read_mqtt_bytes s; utf8_check PayloadNotUtf8 x
  end.

(** a field that is String in the client and Bytes in the broker (publish topic, will topic) *)
Definition read_topic (fl : flavour) (s : list N) : R (list N * list N) :=
  match fl with
  | Client => read_mqtt_string s
  | Broker => read_mqtt_bytes s
  end.

Definition will_read (fl : flavour) (flags : N) (s : list N) : R (option lastwill * list N) :=
  if N.land flags 4 =? 0 then
    if negb (N.land flags 56 =? 0) then Err IncorrectPacketFormat else Ok (None, s)
  else
    do (t, s1) <- read_topic fl s;
    do (m, s2) <- read_mqtt_bytes s1;
    do q <- qos_of (N.shiftr (N.land flags 24) 3);
    Ok (Some (LastWill t m q (bit flags 32)), s2).

Definition login_read (fl : flavour) (flags : N) (s : list N) : R (option login * list N) :=
  do (u, s1) <- (if N.land flags 128 =? 0 then Ok ([], s) else read_str fl s);
  do (p, s2) <- (if N.land flags 64 =? 0 then Ok ([], s1) else read_str fl s1);
  if is_empty u && is_empty p then Ok (None, s2) else Ok (Some (Login u p), s2).

Definition connect_read (fl : flavour) (h : fixed_header) (frame : list N) : R packet :=
  do s <- advance (fixed_header_len h) frame;
  do (name, s) <- read_str fl s;
  do (level, s) <- read_u8 s;
  if negb (str_eqb name MQTT) then Err InvalidProtocol
  else
    do proto <- (match fl with
                 | Client => if level =? 4 then Ok 4 else if level =? 5 then Ok 5
                             else Err InvalidProtocolLevel
                 | Broker => if level =? 4 then Ok 4 else Err InvalidProtocolLevel
                 end);
    do (flags, s) <- read_u8 s;
    let clean := bit flags 2 in
    do (ka, s) <- read_u16 s;
    do (cid, s) <- read_str fl s;
    do (w, s) <- will_read fl flags s;
    do (lg, s) <- login_read fl flags s;
    Ok (Connect (MkConnect proto ka cid clean w lg)).

Definition connack_read (h : fixed_header) (frame : list N) : R packet :=
  do s <- advance (fixed_header_len h) frame;
  do (flags, s) <- read_u8 s;
  do (rc, s) <- read_u8 s;
  let sp := N.land flags 1 =? 1 in
  if rc <? 6 then Ok (ConnAck sp rc) else Err InvalidConnectReturnCode.

Definition publish_read (fl : flavour) (h : fixed_header) (frame : list N) : R packet :=
  do q <- qos_of (N.shiftr (N.land (byte1 h) 6) 1);
  let dup := bit (byte1 h) 8 in
  let retain := bit (byte1 h) 1 in
  do s <- advance (fixed_header_len h) frame;
  do (topic, s) <- read_topic fl s;
  do (pkid, s) <- (if is_qos0 q then Ok (0, s) else read_u16 s);
  if negb (is_qos0 q) && (pkid =? 0) then Err PacketIdZero
  else Ok (Publish dup q retain topic pkid s).

(** PubRec / PubRel / PubComp (both crates) and the client's PubAck: pkid, rest ignored *)
Definition ack_read (mk : N -> N -> packet) (h : fixed_header) (frame : list N) : R packet :=
  do s <- advance (fixed_header_len h) frame;
  do (pkid, s) <- read_u16 s;
  Ok (mk pkid 0).

(** broker PubAck: remaining_len must be exactly 2 (checked before the pkid is read) *)
Definition puback_read (fl : flavour) (h : fixed_header) (frame : list N) : R packet :=
  match fl with
  | Client => ack_read PubAck h frame
  | Broker =>
      do s <- advance (fixed_header_len h) frame;
      if negb (remaining_len h =? 2) then Err InvalidRemainingLength
      else do (pkid, s) <- read_u16 s; Ok (PubAck pkid 0)
  end.

(** `while bytes.has_remaining()` of Subscribe::read; every iteration consumes >= 3 bytes *)
Fixpoint filters_read (fl : flavour) (fuel : nat) (s : list N) : R (list filter) :=
  if is_empty s then Ok []
  else
    match fuel with
    | O => Err OutOfFuel
    | S f =>
        do (path, s1) <- read_str fl s;
        do (options, s2) <- read_u8 s1;
        do q <- qos_of (N.land options 3);
        do r <- filters_read fl f s2;
        Ok (Filter path q 0 :: r)
    end.

Definition nil_b {A} (l : list A) : bool := match l with [] => true | _ => false end.

Definition subscribe_read (fl : flavour) (h : fixed_header) (frame : list N) : R packet :=
  do s <- advance (fixed_header_len h) frame;
  do (pkid, s) <- read_u16 s;
  do fs <- filters_read fl (length s) s;
  if nil_b fs then Err EmptySubscription else Ok (Subscribe pkid fs).

Definition rc_reason (c : N) : R subrc :=
  match c with
  | 0 => Ok (RcSuccess AtMostOnce)
  | 1 => Ok (RcSuccess AtLeastOnce)
  | 2 => Ok (RcSuccess ExactlyOnce)
  | 128 => Ok RcFailure
  | _ => Err InvalidSubscribeReasonCode
  end.

(** `while bytes.has_remaining() { read_u8; push(reason?) }` — exactly one byte per iteration
    (read_u8 cannot fail while has_remaining) *)
Fixpoint codes_read (s : list N) : R (list subrc) :=
  match s with
  | [] => Ok []
  | c :: r => do x <- rc_reason c; do xs <- codes_read r; Ok (x :: xs)
  end.

Definition suback_read (h : fixed_header) (frame : list N) : R packet :=
  do s <- advance (fixed_header_len h) frame;
  do (pkid, s) <- read_u16 s;
  if is_empty s then Err MalformedPacket
  else do cs <- codes_read s; Ok (SubAck pkid cs).

(** `while payload_bytes > 0 { read_mqtt_string; payload_bytes -= len + 2 }` *)
Fixpoint topics_read (fuel : nat) (payload_bytes : N) (s : list N) : R (list (list N)) :=
  if payload_bytes =? 0 then Ok []
  else
    match fuel with
    | O => Err OutOfFuel
    | S f =>
        do (t, s1) <- read_mqtt_string s;
        do pb <- sub payload_bytes (len t + 2);
        do r <- topics_read f pb s1;
        Ok (t :: r)
    end.

Definition unsubscribe_read (h : fixed_header) (frame : list N) : R packet :=
  do s <- advance (fixed_header_len h) frame;
  do (pkid, s) <- read_u16 s;
  do pb <- sub (remaining_len h) 2;
  do ts <- topics_read (S (length s)) pb s;
  Ok (Unsubscribe pkid ts).

Definition unsuback_read (h : fixed_header) (frame : list N) : R packet :=
  if negb (remaining_len h =? 2) then Err PayloadSizeIncorrect
  else
    do s <- advance (fixed_header_len h) frame;
    do (pkid, s) <- read_u16 s;
    Ok (UnsubAck pkid []).

(** body of Packet::read / V4::read_mut after the frame has been split off *)
Definition read_body (fl : flavour) (h : fixed_header) (frame : list N) : R packet :=
  do ty <- packet_type h;
  if remaining_len h =? 0 then
    match ty with
    | 12 => Ok PingReq
    | 13 => Ok PingResp
    | 14 => Ok (Disconnect 0)
    | _ => Err PayloadRequired
    end
  else
    match ty with
    | 1 => connect_read fl h frame
    | 2 => connack_read h frame
    | 3 => publish_read fl h frame
    | 4 => puback_read fl h frame
    | 5 => ack_read PubRec h frame
    | 6 => ack_read PubRel h frame
    | 7 => ack_read PubComp h frame
    | 8 => subscribe_read fl h frame
    | 9 => suback_read h frame
    | 10 => unsubscribe_read h frame
    | 11 => unsuback_read h frame
    | 12 => Ok PingReq
    | 13 => Ok PingResp
    | 14 => match fl with
            | Client => Ok (Disconnect 0)
            | Broker => Err InvalidProtocol      (* "Disconnect packet has properties which is only valid for v5" *)
            end
    | _ => Panic P_UNREACHABLE                   (* broker: `_ => unreachable!()`; client: no such arm *)
    end.

Definition read (fl : flavour) (bs : list N) (max : N) : read_result packet :=
  read_framed (read_body fl) bs max.

(** streaming *)
Definition feed4 (fl : flavour) (max : N) := feed (fun b => read fl b max).
Definition run_stream4 (fl : flavour) (max : N) (chunks : list (list N)) :=
  run_stream (fun b => read fl b max) chunks.

(* ------------------------------------------------------------------ content / well-formedness *)

(** what a decoder returns for the bytes of [p]: broker-only fields reset *)
Definition norm_rc (c : subrc) : subrc :=
  match c with
  | RcQoS q => RcSuccess q
  | RcUnspecified => RcFailure
  | c => c
  end.

Definition norm (p : packet) : packet :=
  match p with
  | PubAck pkid _ => PubAck pkid 0
  | PubRec pkid _ => PubRec pkid 0
  | PubRel pkid _ => PubRel pkid 0
  | PubComp pkid _ => PubComp pkid 0
  | Subscribe pkid fs => Subscribe pkid (map (fun f => Filter (f_path f) (f_qos f) 0) fs)
  | SubAck pkid cs => SubAck pkid (map norm_rc cs)
  | UnsubAck pkid _ => UnsubAck pkid []
  | Disconnect _ => Disconnect 0
  | p => p
  end.

Definition bytes_ok (l : list N) : bool := forallb (fun b => b <? 256) l.
Definition str_ok (l : list N) : bool := bytes_ok l && (len l <=? 65535).
Definition u16_ok (n : N) : bool := n <? 65536.

Definition wf_will (w : option lastwill) : bool :=
  match w with
  | Some w => str_ok (w_topic w) && str_ok (w_message w)
  | None => true
  end.

Definition wf_login (l : option login) : bool :=
  match l with
  | Some l => str_ok (l_username l) && str_ok (l_password l)
              && negb (is_empty (l_username l) && is_empty (l_password l))
  | None => true
  end.

Definition rc_decodable (c : subrc) : bool :=
  match c with RcOther _ => false | _ => true end.

(** [wf_v4 fl p]: [p] is a value of crate [fl]'s packet type ([repr], field widths) and satisfies
    what the encoder + the decoders need for a faithful round trip. *)
Definition wf_v4 (fl : flavour) (p : packet) : bool :=
  repr fl p && (plen fl p <=? MAX_REMAINING) &&
  match p with
  | Connect c =>
      u16_ok (c_keep_alive c) && str_ok (c_client_id c) && wf_will (c_last_will c)
      && wf_login (c_login c)
  | ConnAck _ code => code <? 6
  | Publish _ q _ topic pkid payload =>
      str_ok topic && bytes_ok payload && u16_ok pkid
      && (if is_qos0 q then pkid =? 0 else negb (pkid =? 0))
  | PubAck pkid _ | PubRec pkid _ | PubRel pkid _ | PubComp pkid _ => u16_ok pkid
  | Subscribe pkid fs => u16_ok pkid && negb (nil_b fs) && forallb (fun f => str_ok (f_path f)) fs
  | SubAck pkid cs => u16_ok pkid && negb (nil_b cs) && forallb rc_decodable cs
  | Unsubscribe pkid ts => u16_ok pkid && forallb str_ok ts
  | UnsubAck pkid _ => u16_ok pkid
  | PingReq | PingResp | Disconnect _ => true
  end.
