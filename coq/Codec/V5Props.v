(** M-CODEC, MQTT 5 property layer: one generic TLV codec for the ~30 hand-written property
    readers / writers of the two crates (rumqttc/src/v5/mqttbytes/v5/*.rs `*Properties::read/write/len`,
    rumqttd/src/protocol/v5/*.rs `mod properties`).  Every one of them is the same loop

        let (properties_len_len, properties_len) = length(bytes.iter())?;
        bytes.advance(properties_len_len);
        if properties_len == 0 { return Ok(None); }
        let mut cursor = 0;
        while cursor < properties_len {
            let prop = read_u8(bytes)?;  cursor += 1;
            match property(prop)? { <the ids this packet accepts> => { read value; cursor += size }
                                    _ => return Err(InvalidPropertyType(prop)) } }

    instantiated with a table of accepted ids; the value kind is a function of the id alone.
    A property set is the list of (id, value) in the order the encoder writes the struct's
    fields ([canon]).  No proofs in this file. *)
From Rumqtt Require Export Codec.Wire Codec.V4.   (* V4: qos, login, subrc, bytes_ok, str_ok, u16_ok *)

Inductive pkind : Type := KByte | KU16 | KU32 | KVarInt | KStr | KBin | KPair.

Inductive pval : Type :=
| VByte (n : N)
| VU16 (n : N)
| VU32 (n : N)
| VVarInt (n : N)
| VStr (s : list N)
| VBin (s : list N)
| VPair (k v : list N).

Definition prop : Type := (N * pval)%type.
Definition props : Type := option (list prop).

(** PropertyType discriminants and the Rust type of the field each one fills *)
Definition kind_of_id (id : N) : option pkind :=
  match id with
  | 1 => Some KByte        (* PayloadFormatIndicator *)
  | 2 => Some KU32         (* MessageExpiryInterval *)
  | 3 => Some KStr         (* ContentType *)
  | 8 => Some KStr         (* ResponseTopic *)
  | 9 => Some KBin         (* CorrelationData *)
  | 11 => Some KVarInt     (* SubscriptionIdentifier *)
  | 17 => Some KU32        (* SessionExpiryInterval *)
  | 18 => Some KStr        (* AssignedClientIdentifier *)
  | 19 => Some KU16        (* ServerKeepAlive *)
  | 21 => Some KStr        (* AuthenticationMethod *)
  | 22 => Some KBin        (* AuthenticationData *)
  | 23 => Some KByte       (* RequestProblemInformation *)
  | 24 => Some KU32        (* WillDelayInterval *)
  | 25 => Some KByte       (* RequestResponseInformation *)
  | 26 => Some KStr        (* ResponseInformation *)
  | 28 => Some KStr        (* ServerReference *)
  | 31 => Some KStr        (* ReasonString *)
  | 33 => Some KU16        (* ReceiveMaximum *)
  | 34 => Some KU16        (* TopicAliasMaximum *)
  | 35 => Some KU16        (* TopicAlias *)
  | 36 => Some KByte       (* MaximumQos *)
  | 37 => Some KByte       (* RetainAvailable *)
  | 38 => Some KPair       (* UserProperty *)
  | 39 => Some KU32        (* MaximumPacketSize *)
  | 40 => Some KByte       (* WildcardSubscriptionAvailable *)
  | 41 => Some KByte       (* SubscriptionIdentifierAvailable *)
  | 42 => Some KByte       (* SharedSubscriptionAvailable *)
  | _ => None
  end.

(** a packet's property table: (id, multi) in the order the encoder writes them;
    multi = a Vec field (every occurrence is kept), otherwise an Option field (last one wins) *)
Definition ptable : Type := list (N * bool).

Definition in_table (tab : ptable) (id : N) : bool := existsb (fun e => fst e =? id) tab.

Definition kind_matches (k : pkind) (v : pval) : bool :=
  match k, v with
  | KByte, VByte _ | KU16, VU16 _ | KU32, VU32 _ | KVarInt, VVarInt _
  | KStr, VStr _ | KBin, VBin _ | KPair, VPair _ _ => true
  | _, _ => false
  end.

(* ------------------------------------------------------------------ struct <-> list *)

Fixpoint last_with (id : N) (l : list prop) (acc : option prop) : option prop :=
  match l with
  | [] => acc
  | p :: r => last_with id r (if fst p =? id then Some p else acc)
  end.

(** the struct the decoder fills, read back in the encoder's field order *)
Fixpoint canon (tab : ptable) (raw : list prop) : list prop :=
  match tab with
  | [] => []
  | (id, multi) :: t =>
      (if multi then List.filter (fun p => fst p =? id) raw
       else match last_with id raw None with Some p => [p] | None => [] end)
      ++ canon t raw
  end.

(* ------------------------------------------------------------------ read *)

(** [cursor_bug]: `cursor += 1 + id_len` for a SubscriptionIdentifier counts the id byte twice
    (kept as a parameter so that the model can follow a repaired decoder) *)
Definition read_value (varint_extra : N) (k : pkind) (s : list N) : R (pval * N * list N) :=
  match k with
  | KByte => do (v, s1) <- read_u8 s; Ok (VByte v, 1, s1)
  | KU16 => do (v, s1) <- read_u16 s; Ok (VU16 v, 2, s1)
  | KU32 => do (v, s1) <- read_u32 s; Ok (VU32 v, 4, s1)
  | KVarInt =>
      do (id_len, id) <- vlen s;
      do s1 <- advance id_len s;
      Ok (VVarInt id, varint_extra + id_len, s1)
  | KStr => do (v, s1) <- read_mqtt_string s; Ok (VStr v, 2 + len v, s1)
  | KBin => do (v, s1) <- read_mqtt_bytes s; Ok (VBin v, 2 + len v, s1)
  | KPair =>
      do (k, s1) <- read_mqtt_string s;
      do (v, s2) <- read_mqtt_string s1;
      Ok (VPair k v, 2 + len k + 2 + len v, s2)
  end.

Fixpoint props_loop (vx : N) (tab : ptable) (fuel : nat) (cursor plen : N) (s : list N)
  : R (list prop * list N) :=
  if cursor <? plen then
    match fuel with
    | O => Err OutOfFuel
    | S f =>
        do (id, s1) <- read_u8 s;
        match kind_of_id id with
        | None => Err InvalidPropertyType                 (* property(prop)? *)
        | Some k =>
            if negb (in_table tab id) then Err InvalidPropertyType   (* _ => Err(InvalidPropertyType(prop)) *)
            else
              do (v, inc, s2) <- read_value vx k s1;
              do (rest, s3) <- props_loop vx tab f (cursor + 1 + inc) plen s2;
              Ok ((id, v) :: rest, s3)
        end
    end
  else Ok ([], s).

Definition read_props (vx : N) (tab : ptable) (s : list N) : R (props * list N) :=
  do (ll, plen) <- vlen s;
  do s1 <- advance ll s;
  if plen =? 0 then Ok (None, s1)
  else
    do (raw, s2) <- props_loop vx tab (S (length s1)) 0 plen s1;
    Ok (Some (canon tab raw), s2).

(* ------------------------------------------------------------------ write / len *)

Definition value_len (v : pval) : N :=
  match v with
  | VByte _ => 1
  | VU16 _ => 2
  | VU32 _ => 4
  | VVarInt n => len_len n
  | VStr s | VBin s => 2 + len s
  | VPair k v => 2 + len k + 2 + len v
  end.

Definition prop_len (p : prop) : N := 1 + value_len (snd p).

Fixpoint plist_len (l : list prop) : N :=
  match l with [] => 0 | p :: r => prop_len p + plist_len r end.

Definition value_bytes (v : pval) : R (list N) :=
  match v with
  | VByte n => Ok [n]
  | VU16 n => Ok (u16_be n)
  | VU32 n => Ok (u32_be n)
  | VVarInt n => write_remaining_length n
  | VStr s | VBin s => Ok (write_mqtt_bytes s)
  | VPair k v => Ok (write_mqtt_bytes k ++ write_mqtt_bytes v)
  end.

Fixpoint plist_bytes (l : list prop) : R (list N) :=
  match l with
  | [] => Ok []
  | p :: r => do b <- value_bytes (snd p); do bs <- plist_bytes r; Ok (fst p :: b ++ bs)
  end.

(** `if let Some(p) = properties { p.write(buffer)? } else { write_remaining_length(buffer, 0)? }` *)
Definition write_props (tab : ptable) (ps : props) : R (list N) :=
  match ps with
  | None => write_remaining_length 0
  | Some l =>
      let l := canon tab l in
      do h <- write_remaining_length (plist_len l);
      do b <- plist_bytes l;
      Ok (h ++ b)
  end.

(** contribution of the property section to len() *)
Definition props_len (tab : ptable) (ps : props) : N :=
  match ps with
  | None => 1
  | Some l => let n := plist_len (canon tab l) in len_len n + n
  end.

(* ------------------------------------------------------------------ representability / wf *)

Definition repr_prop (tab : ptable) (p : prop) : bool :=
  in_table tab (fst p) &&
  match kind_of_id (fst p) with
  | Some k =>
      kind_matches k (snd p) &&
      match snd p with
      | VStr s => utf8_valid s
      | VPair k v => utf8_valid k && utf8_valid v
      | _ => true
      end
  | None => false
  end.

Definition repr_props (tab : ptable) (ps : props) : bool :=
  match ps with None => true | Some l => forallb (repr_prop tab) l end.

Definition wf_value (v : pval) : bool :=
  match v with
  | VByte n => n <? 256
  | VU16 n => n <? 65536
  | VU32 n => n <? 4294967296
  | VVarInt n => n <=? 268435455
  | VStr s | VBin s => str_ok s
  | VPair k v => str_ok k && str_ok v
  end.

Definition pval_eqb (a b : pval) : bool :=
  match a, b with
  | VByte x, VByte y | VU16 x, VU16 y | VU32 x, VU32 y | VVarInt x, VVarInt y => x =? y
  | VStr x, VStr y | VBin x, VBin y => str_eqb x y
  | VPair k v, VPair k' v' => str_eqb k k' && str_eqb v v'
  | _, _ => false
  end.

Fixpoint plist_eqb (a b : list prop) : bool :=
  match a, b with
  | [], [] => true
  | (i, x) :: a', (j, y) :: b' => (i =? j) && pval_eqb x y && plist_eqb a' b'
  | _, _ => false
  end.

(** the list is already in struct form: each single-valued id at most once, encoder order *)
Definition is_canon (tab : ptable) (l : list prop) : bool := plist_eqb (canon tab l) l.

(** [Some []] is encoded as a zero length and comes back as [None] *)
Definition wf_props (tab : ptable) (ps : props) : bool :=
  match ps with
  | None => true
  | Some l => negb (match l with [] => true | _ => false end) && is_canon tab l
              && forallb (fun p => wf_value (snd p)) l
              && (plist_len l <=? MAX_REMAINING)
  end.
