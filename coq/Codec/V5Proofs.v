(** C04 for MQTT 5: round trip of every packet type (decoders as repaired: [CURRENT = fixed]),
    both flavours; interoperability.  The property sections go through [read_props_write]. *)
From Rumqtt Require Import Codec.Wire Codec.V4 Codec.V5Props Codec.V5 Codec.WireProofs Codec.V4Proofs
  Codec.V5PropsProofs Codec.V5TotalProofs.
From Coq Require Import ZArith ZifyBool ZifyN ZifyNat Lia.

Ltac Zify.zify_post_hook ::= Z.div_mod_to_equations.

Definition rt5_ok (fl : flavour) (p : packet5) : Prop :=
  exists bs, write_body5 p = Ok (bs, size5 p) /\ len bs = size5 p /\
    forall max rest, plen5 p <= eff_max max -> read5 fl (bs ++ rest) max = Packet (norm5 fl p) rest.

Lemma write5_reduce : forall fl max p, repr5 fl p = true ->
  (fl = Client -> forall mx, max = Some mx -> size5 p <= mx) ->
  write5 fl max p = write_body5 p.
Proof.
  intros fl max p Hr Hm. unfold write5. rewrite Hr. cbn [negb].
  destruct fl; [| reflexivity]. destruct max as [mx |]; [| reflexivity].
  specialize (Hm eq_refl mx eq_refl). replace (mx <? size5 p) with false by lia. reflexivity.
Qed.

(** framing of an encoded v5 packet *)
Lemma framed5_rt : forall fl b1 n body q rl,
  write_remaining_length n = Ok rl -> len body = n ->
  read_body5_raw CURRENT fl (FixedHeader b1 (len rl + 1) n) (b1 :: rl ++ body) = Ok q ->
  forall max rest, n <= eff_max max -> read5 fl ((b1 :: rl ++ body) ++ rest) max = Packet q rest.
Proof.
  intros fl b1 n body q rl Hw Hb Hraw max rest Hm. unfold read5, read5_gen. fold (eff_max max).
  cbn [app]. rewrite <- app_assoc.
  rewrite (read_framed_encoded (read_body5 CURRENT fl) b1 n body rest (eff_max max) rl Hw Hb Hm).
  assert (Hn : n <= 268435455).
  { destruct (N.le_gt_cases n 268435455) as [Hn | Hn]; [exact Hn |].
    rewrite write_remaining_length_too_long in Hw by lia. discriminate. }
  destruct (length_write_remaining n [] Hn) as (rl' & Hw' & Hl & _).
  rewrite Hw in Hw'. inversion Hw'; subst rl'. rewrite <- Hl.
  unfold read_body5. rewrite Hraw. reflexivity.
Qed.

Lemma wrl_len : forall n rl, write_remaining_length n = Ok rl -> len rl = len_len n /\ n <= 268435455.
Proof.
  intros n rl Hw.
  assert (Hn : n <= 268435455).
  { destruct (N.le_gt_cases n 268435455) as [Hn | Hn]; [exact Hn |].
    rewrite write_remaining_length_too_long in Hw by lia. discriminate. }
  destruct (length_write_remaining n [] Hn) as (rl' & Hw' & Hl & _).
  rewrite Hw in Hw'. inversion Hw'; subst rl'. split; assumption.
Qed.

Lemma wrl_ok : forall n, n <= 268435455 -> exists rl, write_remaining_length n = Ok rl /\ len rl = len_len n.
Proof.
  intros n Hn. destruct (length_write_remaining n [] Hn) as (rl & Hw & Hl & _). exists rl. split; assumption.
Qed.

(** the property section of a well-formed packet: what [read_props_write] needs *)
Lemma wf_props'_ok : forall tab ps rest, repr_props tab ps = true -> wf_props' tab ps = true ->
  exists pb, write_props tab ps = Ok pb /\ len pb = props_len tab ps /\
             read_props 0 tab (pb ++ rest) = Ok (norm_props ps, rest).
Proof.
  intros tab ps rest Hr Hw.
  destruct (read_props_write tab ps rest Hr) as (pb & H1 & H2 & H3).
  { unfold wf_props' in Hw. destruct ps as [[| p l] |]; exact Hw. }
  exists pb. split; [exact H1 |]. split; [exact H2 |].
  rewrite H3. unfold norm_props. destruct ps as [[| p l] |]; reflexivity.
Qed.

(** the bytes of a property section do not depend on what follows *)
Lemma wf_props'_ok_all : forall tab ps, repr_props tab ps = true -> wf_props' tab ps = true ->
  exists pb, write_props tab ps = Ok pb /\ len pb = props_len tab ps /\
             forall rest, read_props 0 tab (pb ++ rest) = Ok (norm_props ps, rest).
Proof.
  intros tab ps Hr Hw. destruct (wf_props'_ok tab ps [] Hr Hw) as (pb & H1 & H2 & _).
  exists pb. split; [exact H1 |]. split; [exact H2 |]. intros rest.
  destruct (wf_props'_ok tab ps rest Hr Hw) as (pb' & H1' & _ & H3'). congruence.
Qed.

(* ------------------------------------------------------------------ pings *)

Lemma rt5_empty : forall fl b1 q,
  read_body5_raw CURRENT fl (FixedHeader b1 (len_len 0 + 1) 0) [b1; 0] = Ok q ->
  forall max rest, read5 fl ([b1; 0] ++ rest) max = Packet q rest.
Proof.
  intros fl b1 q H max rest.
  change ([b1; 0] ++ rest) with ((b1 :: [0] ++ []) ++ rest).
  apply (framed5_rt fl b1 0 [] q [0] wrl_0 eq_refl); [exact H | lia].
Qed.

Lemma rt5_pingreq : forall fl, rt5_ok fl PingReq5.
Proof.
  intros fl. exists [192; 0]. split; [reflexivity |]. split; [reflexivity |].
  intros max rest _. apply rt5_empty. reflexivity.
Qed.

Lemma rt5_pingresp : forall fl, rt5_ok fl PingResp5.
Proof.
  intros fl. exists [208; 0]. split; [reflexivity |]. split; [reflexivity |].
  intros max rest _. apply rt5_empty. reflexivity.
Qed.

(* ------------------------------------------------------------------ publish *)

Lemma rt5_publish : forall fl dup q retain topic pkid payload ps,
  wf5 fl (Publish5 dup q retain topic pkid payload ps) = true ->
  rt5_ok fl (Publish5 dup q retain topic pkid payload ps).
Proof.
  intros fl dup q retain topic pkid payload ps Hwf. unfold wf5 in Hwf. split_andb.
  match goal with H : (plen5 _ <=? MAX_REMAINING) = true |- _ => rename H into Hlen end.
  match goal with H : str_ok topic = true |- _ => rename H into Htopic end.
  match goal with H : repr5 _ _ = true |- _ => rename H into Hrepr end.
  match goal with H : u16_ok pkid = true |- _ => rename H into Hpk end.
  match goal with H : (if is_qos0 q then _ else _) = true |- _ => rename H into Hq end.
  match goal with H : wf_props' publish_tab ps = true |- _ => rename H into Hps end.
  cbn [repr5] in Hrepr. cbn [plen5] in Hlen. unfold MAX_REMAINING in Hlen.
  pose proof (str_ok_len _ Htopic) as Htl. apply u16_ok_lt in Hpk.
  destruct (wf_props'_ok_all publish_tab ps Hrepr Hps) as (pb & Hpb & Hpbl & Hrp).
  assert (Hpk' : exists pk,
            (if is_qos0 q then Ok [] else if pkid =? 0 then Err PacketIdZero else Ok (u16_be pkid)) = @Ok err _ pk /\
            len pk = (if negb (is_qos0 q) && negb (pkid =? 0) then 2 else 0) /\
            (forall r, (if is_qos0 q then Ok (0, pk ++ r) else read_u16 (pk ++ r)) = Ok (pkid, r)) /\
            negb (is_qos0 q) && (pkid =? 0) = false).
  { destruct (is_qos0 q) eqn:Eq.
    - exists []. replace pkid with 0 by lia. repeat split; reflexivity.
    - exists (u16_be pkid). replace (pkid =? 0) with false by lia. repeat split; try reflexivity.
      intros r. apply read_u16_u16_be. exact Hpk. }
  destruct Hpk' as (pk & Hpkw & Hpkl & Hpkr & Hz).
  set (n := publish5_len q topic pkid payload ps) in *.
  set (body := write_mqtt_bytes topic ++ pk ++ pb ++ payload).
  assert (Hn : len body = n).
  { subst body n. unfold publish5_len. rewrite !len_app, len_write_mqtt_bytes, Hpbl, Hpkl. lia. }
  destruct (wrl_ok n ltac:(lia)) as (rl & Hrl & Hrll).
  set (b1 := N.lor (N.lor (N.lor 48 (b2n retain)) (N.shiftl (qos_num q) 1)) (N.shiftl (b2n dup) 3)).
  destruct (publish_flags dup q retain) as (Hty & Hqos & Hdup & Hret). fold b1 in Hty, Hqos, Hdup, Hret.
  exists (b1 :: rl ++ body). split; [| split].
  - cbn [write_body5]. unfold publish5_write. fold n. fold b1. rewrite Hrl. cbn [bind].
    rewrite Hpkw. cbn [bind]. rewrite Hpb. cbn [bind]. subst body. cbn [size5 plen5]. fold n.
    rewrite Hrll. reflexivity.
  - rewrite len_cons, len_app, Hn, Hrll. cbn [size5 plen5]. fold n. lia.
  - intros max rest Hm. cbn [plen5] in Hm. fold n in Hm.
    apply (framed5_rt fl b1 n body _ rl Hrl Hn); [| exact Hm].
    unfold read_body5_raw. rewrite Hty. cbn [bind remaining_len].
    replace (n =? 0) with false by (rewrite <- Hn; subst body; rewrite len_app, len_write_mqtt_bytes; lia). cbv iota.
    unfold publish5_read. cbn [byte1 fixed_header_len]. rewrite Hqos, Hdup, Hret. cbn [bind].
    rewrite advance_encoded. cbn [bind]. subst body.
    rewrite read_mqtt_bytes_write by exact Htl. cbn [bind].
    rewrite Hpkr. cbn [bind]. rewrite Hz.
    change (q_varint_extra CURRENT) with 0. rewrite Hrp. cbn [bind norm5]. reflexivity.
Qed.

(* ------------------------------------------------------------------ PUBACK / PUBREC / PUBREL / PUBCOMP *)

Lemma props_len_pos : forall tab ps, 1 <= props_len tab ps.
Proof.
  intros tab [l |]; cbn [props_len]; [| lia]. pose proof (len_len_range (plist_len (canon tab l))). lia.
Qed.

Lemma ack5_rt : forall fl b1 (mk : N -> N -> props -> packet5) reasons pkid r ps,
  pkid < 65536 -> mem r reasons = true -> repr_props ack_tab ps = true -> wf_props' ack_tab ps = true ->
  ack5_len r ps <= 268435455 ->
  exists rl body,
    write_remaining_length (ack5_len r ps) = Ok rl /\ len rl = len_len (ack5_len r ps) /\
    ack5_write b1 pkid r ps = Ok (b1 :: rl ++ body, 1 + len_len (ack5_len r ps) + ack5_len r ps) /\
    len body = ack5_len r ps /\
    ack5_read CURRENT fl mk reasons (FixedHeader b1 (len rl + 1) (ack5_len r ps)) (b1 :: rl ++ body)
    = Ok (mk pkid r (norm_props ps)).
Proof.
  intros fl b1 mk reasons pkid r ps Hpk Hr Hrepr Hwf Hlen.
  destruct (wrl_ok _ Hlen) as (rl & Hrl & Hrll). exists rl.
  unfold ack5_write, ack5_read. cbn [fixed_header_len remaining_len]. rewrite Hrl. cbn [bind].
  unfold ack5_len in *. destruct (short_ack r ps) eqn:Es.
  - (* short form *)
    unfold short_ack in Es. apply andb_prop in Es. destruct Es as [Er Ens].
    destruct ps; [discriminate |]. replace r with 0 by lia.
    exists (u16_be pkid). split; [reflexivity |]. split; [exact Hrll |]. split; [reflexivity |].
    split; [reflexivity |]. rewrite advance_encoded. cbn [bind].
    rewrite <- (app_nil_r (u16_be pkid)). rewrite read_u16_u16_be by exact Hpk. reflexivity.
  - (* long form *)
    destruct (wf_props'_ok_all ack_tab ps Hrepr Hwf) as (pb & Hpb & Hpbl & Hrp).
    pose proof (props_len_pos ack_tab ps) as Hpos.
    exists (u16_be pkid ++ [r] ++ pb). split; [reflexivity |]. split; [exact Hrll |]. rewrite Hpb. cbn [bind].
    split; [rewrite Hrll; reflexivity |].
    split; [rewrite !len_app, len_u16_be, Hpbl; change (len [r]) with 1; lia |].
    rewrite advance_encoded. cbn [bind]. rewrite <- app_assoc. rewrite read_u16_u16_be by exact Hpk. cbn [bind].
    replace (2 + 1 + props_len ack_tab ps =? 2) with false by lia.
    cbn [app]. rewrite read_u8_cons. cbn [bind].
    replace (2 + 1 + props_len ack_tab ps <? 4) with false by lia. rewrite Hr.
    change (q_varint_extra CURRENT) with 0.
    rewrite <- (app_nil_r pb). destruct fl; rewrite Hrp; reflexivity.
Qed.

Ltac rt5_ack b1 tyv mk reasons :=
  let fl := fresh "fl" in let pkid := fresh "pkid" in let r := fresh "r" in let ps := fresh "ps" in
  let Hwf := fresh "Hwf" in
  intros fl pkid r ps Hwf; unfold wf5 in Hwf; split_andb;
  match goal with H : (plen5 _ <=? MAX_REMAINING) = true |- _ => cbn [plen5] in H; unfold MAX_REMAINING in H end;
  match goal with H : repr5 _ _ = true |- _ => cbn [repr5] in H; apply andb_prop in H; destruct H end;
  match goal with H : u16_ok pkid = true |- _ => apply u16_ok_lt in H end;
  let rl := fresh "rl" in let body := fresh "body" in
  let H1 := fresh "H" in let H2 := fresh "H" in let H3 := fresh "H" in let H4 := fresh "H" in let H5 := fresh "H" in
  destruct (ack5_rt fl b1 mk reasons pkid r ps) as (rl & body & H1 & H2 & H3 & H4 & H5); try assumption; try lia;
  exists (b1 :: rl ++ body); split; [| split];
  [ cbn [write_body5 size5 plen5]; exact H3
  | rewrite len_cons, len_app, H4, H2; cbn [size5 plen5]; lia
  | intros max rest Hm; cbn [plen5] in Hm;
    apply (framed5_rt fl b1 (ack5_len r ps) body _ rl H1 H4); [| exact Hm];
    unfold read_body5_raw; change (packet_type _) with (@Ok err N tyv); cbn [bind remaining_len];
    replace (ack5_len r ps =? 0) with false by (unfold ack5_len; destruct (short_ack r ps); lia); cbv iota;
    exact H5 ].

Lemma rt5_puback : forall fl pkid r ps, wf5 fl (PubAck5 pkid r ps) = true -> rt5_ok fl (PubAck5 pkid r ps).
Proof. rt5_ack 64 4 PubAck5 puback_reasons. Qed.
Lemma rt5_pubrec : forall fl pkid r ps, wf5 fl (PubRec5 pkid r ps) = true -> rt5_ok fl (PubRec5 pkid r ps).
Proof. rt5_ack 80 5 PubRec5 puback_reasons. Qed.
Lemma rt5_pubrel : forall fl pkid r ps, wf5 fl (PubRel5 pkid r ps) = true -> rt5_ok fl (PubRel5 pkid r ps).
Proof. rt5_ack 98 6 PubRel5 pubrel_reasons. Qed.
Lemma rt5_pubcomp : forall fl pkid r ps, wf5 fl (PubComp5 pkid r ps) = true -> rt5_ok fl (PubComp5 pkid r ps).
Proof. rt5_ack 112 7 PubComp5 pubrel_reasons. Qed.
