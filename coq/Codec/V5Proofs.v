(** C04 for MQTT 5: round trip of every packet type (decoders as repaired: [CURRENT = fixed]),
    both flavours; interoperability.  The property sections go through [read_props_write]. *)
From Rumqtt Require Import Codec.Wire Codec.V4 Codec.V5Props Codec.V5 Codec.WireProofs Codec.V4Proofs
  Codec.V5PropsProofs Codec.V5TotalProofs.
From Coq Require Import ZArith ZifyBool ZifyN ZifyNat Lia.

Ltac Zify.zify_post_hook ::= Z.div_mod_to_equations.

Definition rt5_ok (fl : flavour) (p : packet5) : Prop :=
  exists bs, write_body5 p = Ok (bs, size5 p) /\ len bs = size5 p /\
    forall max rest, plen5 p <= eff_max max -> read5 fl (bs ++ rest) max = Packet (norm5 fl p) rest.

Lemma write5_reduce : forall fl max p, repr5 fl p = true ->
  (fl = Client -> forall mx, max = Some mx -> size5 p <= mx) ->
  write5 fl max p = write_body5 p.
Proof.
  intros fl max p Hr Hm. unfold write5. rewrite Hr. cbn [negb].
  destruct fl; [| reflexivity]. destruct max as [mx |]; [| reflexivity].
  specialize (Hm eq_refl mx eq_refl). replace (mx <? size5 p) with false by lia. reflexivity.
Qed.

(** framing of an encoded v5 packet *)
Lemma framed5_rt : forall fl b1 n body q rl,
  write_remaining_length n = Ok rl -> len body = n ->
  read_body5_raw CURRENT fl (FixedHeader b1 (len rl + 1) n) (b1 :: rl ++ body) = Ok q ->
  forall max rest, n <= eff_max max -> read5 fl ((b1 :: rl ++ body) ++ rest) max = Packet q rest.
Proof.
  intros fl b1 n body q rl Hw Hb Hraw max rest Hm. unfold read5, read5_gen. fold (eff_max max).
  cbn [app]. rewrite <- app_assoc.
  rewrite (read_framed_encoded (read_body5 CURRENT fl) b1 n body rest (eff_max max) rl Hw Hb Hm).
  assert (Hn : n <= 268435455).
  { destruct (N.le_gt_cases n 268435455) as [Hn | Hn]; [exact Hn |].
    rewrite write_remaining_length_too_long in Hw by lia. discriminate. }
  destruct (length_write_remaining n [] Hn) as (rl' & Hw' & Hl & _).
  rewrite Hw in Hw'. inversion Hw'; subst rl'. rewrite <- Hl.
  unfold read_body5. rewrite Hraw. reflexivity.
Qed.

Lemma wrl_len : forall n rl, write_remaining_length n = Ok rl -> len rl = len_len n /\ n <= 268435455.
Proof.
  intros n rl Hw.
  assert (Hn : n <= 268435455).
  { destruct (N.le_gt_cases n 268435455) as [Hn | Hn]; [exact Hn |].
    rewrite write_remaining_length_too_long in Hw by lia. discriminate. }
  destruct (length_write_remaining n [] Hn) as (rl' & Hw' & Hl & _).
  rewrite Hw in Hw'. inversion Hw'; subst rl'. split; assumption.
Qed.

Lemma wrl_ok : forall n, n <= 268435455 -> exists rl, write_remaining_length n = Ok rl /\ len rl = len_len n.
Proof.
  intros n Hn. destruct (length_write_remaining n [] Hn) as (rl & Hw & Hl & _). exists rl. split; assumption.
Qed.

(** the property section of a well-formed packet: what [read_props_write] needs *)
Lemma wf_props'_ok : forall tab ps rest, repr_props tab ps = true -> wf_props' tab ps = true ->
  exists pb, write_props tab ps = Ok pb /\ len pb = props_len tab ps /\
             read_props 0 tab (pb ++ rest) = Ok (norm_props ps, rest).
Proof.
  intros tab ps rest Hr Hw.
  destruct (read_props_write tab ps rest Hr) as (pb & H1 & H2 & H3).
  { unfold wf_props' in Hw. destruct ps as [[| p l] |]; exact Hw. }
  exists pb. split; [exact H1 |]. split; [exact H2 |].
  rewrite H3. unfold norm_props. destruct ps as [[| p l] |]; reflexivity.
Qed.

(** the bytes of a property section do not depend on what follows *)
Lemma wf_props'_ok_all : forall tab ps, repr_props tab ps = true -> wf_props' tab ps = true ->
  exists pb, write_props tab ps = Ok pb /\ len pb = props_len tab ps /\
             forall rest, read_props 0 tab (pb ++ rest) = Ok (norm_props ps, rest).
Proof.
  intros tab ps Hr Hw. destruct (wf_props'_ok tab ps [] Hr Hw) as (pb & H1 & H2 & _).
  exists pb. split; [exact H1 |]. split; [exact H2 |]. intros rest.
  destruct (wf_props'_ok tab ps rest Hr Hw) as (pb' & H1' & _ & H3'). congruence.
Qed.

(* ------------------------------------------------------------------ pings *)

Lemma rt5_empty : forall fl b1 q,
  read_body5_raw CURRENT fl (FixedHeader b1 (len_len 0 + 1) 0) [b1; 0] = Ok q ->
  forall max rest, read5 fl ([b1; 0] ++ rest) max = Packet q rest.
Proof.
  intros fl b1 q H max rest.
  change ([b1; 0] ++ rest) with ((b1 :: [0] ++ []) ++ rest).
  apply (framed5_rt fl b1 0 [] q [0] wrl_0 eq_refl); [exact H | lia].
Qed.

Lemma rt5_pingreq : forall fl, rt5_ok fl PingReq5.
Proof.
  intros fl. exists [192; 0]. split; [reflexivity |]. split; [reflexivity |].
  intros max rest _. apply rt5_empty. reflexivity.
Qed.

Lemma rt5_pingresp : forall fl, rt5_ok fl PingResp5.
Proof.
  intros fl. exists [208; 0]. split; [reflexivity |]. split; [reflexivity |].
  intros max rest _. apply rt5_empty. reflexivity.
Qed.

(* ------------------------------------------------------------------ publish *)

Lemma rt5_publish : forall fl dup q retain topic pkid payload ps,
  wf5 fl (Publish5 dup q retain topic pkid payload ps) = true ->
  rt5_ok fl (Publish5 dup q retain topic pkid payload ps).
Proof.
  intros fl dup q retain topic pkid payload ps Hwf. unfold wf5 in Hwf. split_andb.
  match goal with H : (plen5 _ <=? MAX_REMAINING) = true |- _ => rename H into Hlen end.
  match goal with H : str_ok topic = true |- _ => rename H into Htopic end.
  match goal with H : repr5 _ _ = true |- _ => rename H into Hrepr end.
  match goal with H : u16_ok pkid = true |- _ => rename H into Hpk end.
  match goal with H : (if is_qos0 q then _ else _) = true |- _ => rename H into Hq end.
  match goal with H : wf_props' publish_tab ps = true |- _ => rename H into Hps end.
  cbn [repr5] in Hrepr. cbn [plen5] in Hlen. unfold MAX_REMAINING in Hlen.
  pose proof (str_ok_len _ Htopic) as Htl. apply u16_ok_lt in Hpk.
  destruct (wf_props'_ok_all publish_tab ps Hrepr Hps) as (pb & Hpb & Hpbl & Hrp).
  assert (Hpk' : exists pk,
            (if is_qos0 q then Ok [] else if pkid =? 0 then Err PacketIdZero else Ok (u16_be pkid)) = @Ok err _ pk /\
            len pk = (if negb (is_qos0 q) && negb (pkid =? 0) then 2 else 0) /\
            (forall r, (if is_qos0 q then Ok (0, pk ++ r) else read_u16 (pk ++ r)) = Ok (pkid, r)) /\
            negb (is_qos0 q) && (pkid =? 0) = false).
  { destruct (is_qos0 q) eqn:Eq.
    - exists []. replace pkid with 0 by lia. repeat split; reflexivity.
    - exists (u16_be pkid). replace (pkid =? 0) with false by lia. repeat split; try reflexivity.
      intros r. apply read_u16_u16_be. exact Hpk. }
  destruct Hpk' as (pk & Hpkw & Hpkl & Hpkr & Hz).
  set (n := publish5_len q topic pkid payload ps) in *.
  set (body := write_mqtt_bytes topic ++ pk ++ pb ++ payload).
  assert (Hn : len body = n).
  { subst body n. unfold publish5_len. rewrite !len_app, len_write_mqtt_bytes, Hpbl, Hpkl. lia. }
  destruct (wrl_ok n ltac:(lia)) as (rl & Hrl & Hrll).
  set (b1 := N.lor (N.lor (N.lor 48 (b2n retain)) (N.shiftl (qos_num q) 1)) (N.shiftl (b2n dup) 3)).
  destruct (publish_flags dup q retain) as (Hty & Hqos & Hdup & Hret). fold b1 in Hty, Hqos, Hdup, Hret.
  exists (b1 :: rl ++ body). split; [| split].
  - cbn [write_body5]. unfold publish5_write. fold n. fold b1. rewrite Hrl. cbn [bind].
    rewrite Hpkw. cbn [bind]. rewrite Hpb. cbn [bind]. subst body. cbn [size5 plen5]. fold n.
    rewrite Hrll. reflexivity.
  - rewrite len_cons, len_app, Hn, Hrll. cbn [size5 plen5]. fold n. lia.
  - intros max rest Hm. cbn [plen5] in Hm. fold n in Hm.
    apply (framed5_rt fl b1 n body _ rl Hrl Hn); [| exact Hm].
    unfold read_body5_raw. rewrite Hty. cbn [bind remaining_len].
    replace (n =? 0) with false by (rewrite <- Hn; subst body; rewrite len_app, len_write_mqtt_bytes; lia). cbv iota.
    unfold publish5_read. cbn [byte1 fixed_header_len]. rewrite Hqos, Hdup, Hret. cbn [bind].
    rewrite advance_encoded. cbn [bind]. subst body.
    rewrite read_mqtt_bytes_write by exact Htl. cbn [bind].
    rewrite Hpkr. cbn [bind]. rewrite Hz.
    change (q_varint_extra CURRENT) with 0. rewrite Hrp. cbn [bind norm5]. reflexivity.
Qed.

(* ------------------------------------------------------------------ PUBACK / PUBREC / PUBREL / PUBCOMP *)

Lemma props_len_pos : forall tab ps, 1 <= props_len tab ps.
Proof.
  intros tab [l |]; cbn [props_len]; [| lia]. pose proof (len_len_range (plist_len (canon tab l))). lia.
Qed.

Lemma ack5_rt : forall fl b1 (mk : N -> N -> props -> packet5) reasons pkid r ps,
  pkid < 65536 -> mem r reasons = true -> repr_props ack_tab ps = true -> wf_props' ack_tab ps = true ->
  ack5_len r ps <= 268435455 ->
  exists rl body,
    write_remaining_length (ack5_len r ps) = Ok rl /\ len rl = len_len (ack5_len r ps) /\
    ack5_write b1 pkid r ps = Ok (b1 :: rl ++ body, 1 + len_len (ack5_len r ps) + ack5_len r ps) /\
    len body = ack5_len r ps /\
    ack5_read CURRENT fl mk reasons (FixedHeader b1 (len rl + 1) (ack5_len r ps)) (b1 :: rl ++ body)
    = Ok (mk pkid r (norm_props ps)).
Proof.
  intros fl b1 mk reasons pkid r ps Hpk Hr Hrepr Hwf Hlen.
  destruct (wrl_ok _ Hlen) as (rl & Hrl & Hrll). exists rl.
  unfold ack5_write, ack5_read. cbn [fixed_header_len remaining_len]. rewrite Hrl. cbn [bind].
  unfold ack5_len in *. destruct (short_ack r ps) eqn:Es.
  - (* short form *)
    unfold short_ack in Es. apply andb_prop in Es. destruct Es as [Er Ens].
    destruct ps; [discriminate |]. replace r with 0 by lia.
    exists (u16_be pkid). split; [reflexivity |]. split; [exact Hrll |]. split; [reflexivity |].
    split; [reflexivity |]. rewrite advance_encoded. cbn [bind].
    rewrite <- (app_nil_r (u16_be pkid)). rewrite read_u16_u16_be by exact Hpk. reflexivity.
  - (* long form *)
    destruct (wf_props'_ok_all ack_tab ps Hrepr Hwf) as (pb & Hpb & Hpbl & Hrp).
    pose proof (props_len_pos ack_tab ps) as Hpos.
    exists (u16_be pkid ++ [r] ++ pb). split; [reflexivity |]. split; [exact Hrll |]. rewrite Hpb. cbn [bind].
    split; [rewrite Hrll; reflexivity |].
    split; [rewrite !len_app, len_u16_be, Hpbl; change (len [r]) with 1; lia |].
    rewrite advance_encoded. cbn [bind]. rewrite read_u16_u16_be by exact Hpk. cbn [bind].
    replace (2 + 1 + props_len ack_tab ps =? 2) with false by lia.
    cbn [app]. rewrite read_u8_cons. cbn [bind].
    replace (2 + 1 + props_len ack_tab ps <? 4) with false by lia. rewrite Hr.
    change (q_varint_extra CURRENT) with 0.
    rewrite <- (app_nil_r pb). destruct fl; rewrite Hrp; reflexivity.
Qed.

Ltac rt5_ack b1 tyv mk reasons :=
  let fl := fresh "fl" in let pkid := fresh "pkid" in let r := fresh "r" in let ps := fresh "ps" in
  let Hwf := fresh "Hwf" in
  intros fl pkid r ps Hwf; unfold wf5 in Hwf; split_andb;
  match goal with H : (plen5 _ <=? MAX_REMAINING) = true |- _ => cbn [plen5] in H; unfold MAX_REMAINING in H end;
  match goal with H : repr5 _ _ = true |- _ => cbn [repr5] in H; apply andb_prop in H; destruct H end;
  match goal with H : u16_ok pkid = true |- _ => apply u16_ok_lt in H end;
  let rl := fresh "rl" in let body := fresh "body" in
  let H1 := fresh "H" in let H2 := fresh "H" in let H3 := fresh "H" in let H4 := fresh "H" in let H5 := fresh "H" in
  destruct (ack5_rt fl b1 mk reasons pkid r ps) as (rl & body & H1 & H2 & H3 & H4 & H5); try assumption; try lia;
  exists (b1 :: rl ++ body); split; [| split];
  [ cbn [write_body5 size5 plen5]; exact H3
  | rewrite len_cons, len_app, H4, H2; cbn [size5 plen5]; lia
  | intros max rest Hm; cbn [plen5] in Hm;
    apply (framed5_rt fl b1 (ack5_len r ps) body _ rl H1 H4); [| exact Hm];
    unfold read_body5_raw; change (packet_type _) with (@Ok err N tyv); cbn [bind remaining_len];
    replace (ack5_len r ps =? 0) with false by (unfold ack5_len; destruct (short_ack r ps); lia); cbv iota;
    exact H5 ].

Lemma rt5_puback : forall fl pkid r ps, wf5 fl (PubAck5 pkid r ps) = true -> rt5_ok fl (PubAck5 pkid r ps).
Proof. rt5_ack 64 4 PubAck5 puback_reasons. Qed.
Lemma rt5_pubrec : forall fl pkid r ps, wf5 fl (PubRec5 pkid r ps) = true -> rt5_ok fl (PubRec5 pkid r ps).
Proof. rt5_ack 80 5 PubRec5 puback_reasons. Qed.
Lemma rt5_pubrel : forall fl pkid r ps, wf5 fl (PubRel5 pkid r ps) = true -> rt5_ok fl (PubRel5 pkid r ps).
Proof. rt5_ack 98 6 PubRel5 pubrel_reasons. Qed.
Lemma rt5_pubcomp : forall fl pkid r ps, wf5 fl (PubComp5 pkid r ps) = true -> rt5_ok fl (PubComp5 pkid r ps).
Proof. rt5_ack 112 7 PubComp5 pubrel_reasons. Qed.

(* ------------------------------------------------------------------ subscribe *)

Lemma filter5_options : forall (q : qos) (nl pr : bool) (rule : N), rule < 3 ->
  let o := N.lor (N.lor (N.lor (N.lor 0 (qos_num q)) (if nl then 4 else 0)) (if pr then 8 else 0)) (N.shiftl rule 4) in
  N.land (N.shiftr o 4) 3 = rule /\ qos_of (N.land o 3) = @Ok err qos q /\ bit o 4 = nl /\ bit o 8 = pr.
Proof.
  intros q nl pr rule Hr. cbv zeta.
  assert (Hc : rule = 0 \/ rule = 1 \/ rule = 2) by lia. clear Hr.
  destruct Hc as [Hc | [Hc | Hc]]; subst rule; destruct q, nl, pr; vm_compute; repeat split.
Qed.

Lemma filters5_read_S : forall fuel s, is_empty s = false ->
  filters5_read (S fuel) s =
  (do (path, s1) <- read_mqtt_string s;
   do (options, s2) <- read_u8 s1;
   let rule := N.land (N.shiftr options 4) 3 in
   if 2 <? rule then Err InvalidRetainForwardRule
   else do q <- qos_of (N.land options 3);
        do r <- filters5_read fuel s2;
        Ok (Filter5 path q (bit options 4) (bit options 8) rule :: r)).
Proof. intros fuel s H. cbn [filters5_read]. rewrite H. reflexivity. Qed.

Lemma filter5_bytes_length : forall f, (3 <= length (filter5_bytes f))%nat.
Proof.
  intros f. unfold filter5_bytes, write_mqtt_string, write_mqtt_bytes, u16_be.
  rewrite !app_length. cbn [length]. lia.
Qed.

Lemma filters5_read_ok : forall fs fuel,
  forallb repr_filter5 fs = true -> forallb (fun f => str_ok (f5_path f)) fs = true ->
  (length (flat_map filter5_bytes fs) <= fuel)%nat ->
  filters5_read fuel (flat_map filter5_bytes fs) = Ok fs.
Proof.
  induction fs as [| f fs IH]; intros fuel Hr Hs Hf.
  - destruct fuel; reflexivity.
  - cbn [forallb] in Hr, Hs. split_andb. cbn [flat_map] in Hf |- *.
    rewrite app_length in Hf. pose proof (filter5_bytes_length f) as H3.
    destruct fuel as [| fuel]; [lia |].
    rewrite filters5_read_S.
    2:{ unfold filter5_bytes, write_mqtt_string, write_mqtt_bytes, u16_be. reflexivity. }
    destruct f as [path q nl pr rule]. unfold filter5_bytes at 1. cbn [f5_path f5_qos f5_nolocal f5_preserve_retain f5_rule] in *.
    rewrite <- app_assoc.
    match goal with H : repr_filter5 _ = true |- _ => unfold repr_filter5 in H; cbn [f5_path f5_rule] in H; apply andb_prop in H; destruct H as [Hu Hrule] end.
    rewrite read_mqtt_string_write; [| apply str_ok_len; assumption | exact Hu].
    cbn [bind app]. rewrite read_u8_cons. cbn [bind].
    destruct (filter5_options q nl pr rule ltac:(lia)) as (Ho1 & Ho2 & Ho4 & Ho5).
    cbv zeta. rewrite Ho1, Ho2, Ho4, Ho5. replace (2 <? rule) with false by lia. cbn [bind].
    rewrite IH; [reflexivity | assumption | assumption | lia].
Qed.

Lemma len_flat_map_filters5 : forall fs, len (flat_map filter5_bytes fs) = sum_map filter5_len fs.
Proof.
  induction fs as [| f fs IH]; [reflexivity |].
  cbn [flat_map sum_map]. rewrite len_app, IH. unfold filter5_bytes, filter5_len, write_mqtt_string.
  rewrite len_app, len_write_mqtt_bytes. change (len [_]) with 1. lia.
Qed.

Lemma header5_ok : forall b1 n body rl, write_remaining_length n = Ok rl -> len rl = len_len n ->
  header5 b1 n (Ok body) = Ok (b1 :: rl ++ body, 1 + len_len n + n).
Proof. intros b1 n body rl Hw Hl. unfold header5. rewrite Hw. cbn [bind]. rewrite Hl. reflexivity. Qed.

Lemma rt5_subscribe : forall fl pkid fs ps, wf5 fl (Subscribe5 pkid fs ps) = true -> rt5_ok fl (Subscribe5 pkid fs ps).
Proof.
  intros fl pkid fs ps Hwf. unfold wf5 in Hwf. split_andb.
  match goal with H : (plen5 _ <=? MAX_REMAINING) = true |- _ => rename H into Hlen end.
  match goal with H : repr5 _ _ = true |- _ => rename H into Hrepr end.
  match goal with H : u16_ok pkid = true |- _ => apply u16_ok_lt in H; rename H into Hpk end.
  match goal with H : negb (nil_b fs) = true |- _ => rename H into Hne end.
  match goal with H : wf_props' subscribe_tab ps = true |- _ => rename H into Hps end.
  cbn [repr5] in Hrepr. apply andb_prop in Hrepr. destruct Hrepr as [Hrf Hrp]. unfold MAX_REMAINING in Hlen.
  destruct (wf_props'_ok_all subscribe_tab ps Hrp Hps) as (pb & Hpb & Hpbl & Hrd).
  set (n := plen5 (Subscribe5 pkid fs ps)) in *.
  set (body := u16_be pkid ++ pb ++ flat_map filter5_bytes fs).
  assert (Hn : len body = n).
  { subst body n. cbn [plen5]. rewrite !len_app, len_u16_be, Hpbl, len_flat_map_filters5. lia. }
  destruct (wrl_ok n ltac:(lia)) as (rl & Hrl & Hrll).
  exists (130 :: rl ++ body). split; [| split].
  - cbn [write_body5]. fold n. rewrite Hpb. cbn [bind]. apply header5_ok; assumption.
  - rewrite len_cons, len_app, Hn, Hrll. cbn [size5]. fold n. lia.
  - intros max rest Hm. fold n in Hm.
    apply (framed5_rt fl 130 n body _ rl Hrl Hn); [| exact Hm].
    unfold read_body5_raw. change (packet_type _) with (@Ok err N 8). cbn [bind remaining_len].
    replace (n =? 0) with false by (rewrite <- Hn; subst body; rewrite len_app, len_u16_be; lia). cbv iota.
    unfold subscribe5_read. cbn [fixed_header_len]. rewrite advance_encoded. cbn [bind]. subst body.
    rewrite read_u16_u16_be by exact Hpk. cbn [bind].
    change (q_varint_extra CURRENT) with 0. rewrite Hrd. cbn [bind].
    rewrite filters5_read_ok; [| assumption | assumption | lia].
    cbn [bind norm5]. destruct fs; [discriminate | reflexivity].
Qed.

(* ------------------------------------------------------------------ suback *)

Lemma other_rc_cases : forall b, other_rc_known b = true ->
  b = 131 \/ b = 135 \/ b = 143 \/ b = 145 \/ b = 151 \/ b = 158 \/ b = 161 \/ b = 162.
Proof. intros b H. unfold other_rc_known in H. cbn [existsb] in H. lia. Qed.

Lemma rc5_reason_ok : forall fl c, repr_rc5 fl c = true -> rc5_reason fl (rc_code c) = Ok (norm_rc5 fl c).
Proof.
  intros fl c H. destruct c as [q | | q | | b]; cbn [rc_code norm_rc5 repr_rc5] in *.
  - destruct fl, q; reflexivity.
  - reflexivity.
  - destruct fl; [discriminate |]. destruct q; reflexivity.
  - reflexivity.
  - destruct (other_rc_cases b H) as [-> | [-> | [-> | [-> | [-> | [-> | [-> | ->]]]]]]]; reflexivity.
Qed.

Lemma codes5_read_ok : forall fl cs, forallb (repr_rc5 fl) cs = true ->
  codes5_read fl (map rc_code cs) = Ok (map (norm_rc5 fl) cs).
Proof.
  intros fl. induction cs as [| c cs IH]; intros H; [reflexivity |].
  cbn [forallb] in H. split_andb. cbn [map codes5_read].
  rewrite rc5_reason_ok by assumption. cbn [bind]. rewrite IH by assumption. reflexivity.
Qed.

Lemma rt5_suback : forall fl pkid cs ps, wf5 fl (SubAck5 pkid cs ps) = true -> rt5_ok fl (SubAck5 pkid cs ps).
Proof.
  intros fl pkid cs ps Hwf. unfold wf5 in Hwf. split_andb.
  match goal with H : (plen5 _ <=? MAX_REMAINING) = true |- _ => rename H into Hlen end.
  match goal with H : repr5 _ _ = true |- _ => rename H into Hrepr end.
  match goal with H : u16_ok pkid = true |- _ => apply u16_ok_lt in H; rename H into Hpk end.
  match goal with H : negb (nil_b cs) = true |- _ => rename H into Hne end.
  match goal with H : wf_props' ack_tab ps = true |- _ => rename H into Hps end.
  cbn [repr5] in Hrepr. apply andb_prop in Hrepr. destruct Hrepr as [Hrc Hrp]. unfold MAX_REMAINING in Hlen.
  destruct (wf_props'_ok_all ack_tab ps Hrp Hps) as (pb & Hpb & Hpbl & Hrd).
  set (n := plen5 (SubAck5 pkid cs ps)) in *.
  set (body := u16_be pkid ++ pb ++ map rc_code cs).
  assert (Hn : len body = n).
  { subst body n. cbn [plen5]. rewrite !len_app, len_u16_be, Hpbl. lia. }
  destruct (wrl_ok n ltac:(lia)) as (rl & Hrl & Hrll).
  exists (144 :: rl ++ body). split; [| split].
  - cbn [write_body5]. fold n. rewrite Hpb. cbn [bind]. apply header5_ok; assumption.
  - rewrite len_cons, len_app, Hn, Hrll. cbn [size5]. fold n. lia.
  - intros max rest Hm. fold n in Hm.
    apply (framed5_rt fl 144 n body _ rl Hrl Hn); [| exact Hm].
    unfold read_body5_raw. change (packet_type _) with (@Ok err N 9). cbn [bind remaining_len].
    replace (n =? 0) with false by (rewrite <- Hn; subst body; rewrite len_app, len_u16_be; lia). cbv iota.
    unfold suback5_read. cbn [fixed_header_len]. rewrite advance_encoded. cbn [bind]. subst body.
    rewrite read_u16_u16_be by exact Hpk. cbn [bind].
    change (q_varint_extra CURRENT) with 0. rewrite Hrd. cbn [bind].
    destruct cs as [| c cs]; [discriminate |]. cbn [map is_empty].
    change (rc_code c :: map rc_code cs) with (map rc_code (c :: cs)).
    rewrite codes5_read_ok by assumption. reflexivity.
Qed.

(* ------------------------------------------------------------------ unsubscribe / unsuback *)

Lemma strings_read_ok : forall fs fuel,
  forallb utf8_valid fs = true -> forallb str_ok fs = true ->
  (length (flat_map write_mqtt_string fs) <= fuel)%nat ->
  strings_read fuel (flat_map write_mqtt_string fs) = Ok fs.
Proof.
  induction fs as [| f fs IH]; intros fuel Hu Hs Hf.
  - destruct fuel; reflexivity.
  - cbn [forallb] in Hu, Hs. split_andb. cbn [flat_map] in Hf |- *. rewrite app_length in Hf.
    assert (Hw2 : (2 <= length (write_mqtt_string f))%nat).
    { unfold write_mqtt_string, write_mqtt_bytes, u16_be. rewrite app_length. cbn [length]. lia. }
    destruct fuel as [| fuel]; [lia |]. cbn [strings_read].
    replace (is_empty (write_mqtt_string f ++ flat_map write_mqtt_string fs)) with false
      by (unfold write_mqtt_string, write_mqtt_bytes, u16_be; reflexivity).
    rewrite read_mqtt_string_write; [| apply str_ok_len; assumption | assumption]. cbn [bind].
    rewrite IH; [reflexivity | assumption | assumption | lia].
Qed.

Lemma len_flat_map_strings : forall fs, len (flat_map write_mqtt_string fs) = sum_map (fun f => 2 + len f) fs.
Proof.
  induction fs as [| f fs IH]; [reflexivity |].
  cbn [flat_map sum_map]. rewrite len_app, IH. unfold write_mqtt_string. rewrite len_write_mqtt_bytes. lia.
Qed.

Lemma rt5_unsubscribe : forall fl pkid fs ps, wf5 fl (Unsubscribe5 pkid fs ps) = true -> rt5_ok fl (Unsubscribe5 pkid fs ps).
Proof.
  intros fl pkid fs ps Hwf. unfold wf5 in Hwf. split_andb.
  match goal with H : (plen5 _ <=? MAX_REMAINING) = true |- _ => rename H into Hlen end.
  match goal with H : repr5 _ _ = true |- _ => rename H into Hrepr end.
  match goal with H : u16_ok pkid = true |- _ => apply u16_ok_lt in H; rename H into Hpk end.
  match goal with H : wf_props' unsubscribe_tab ps = true |- _ => rename H into Hps end.
  cbn [repr5] in Hrepr. apply andb_prop in Hrepr. destruct Hrepr as [Hrf Hrp]. unfold MAX_REMAINING in Hlen.
  destruct (wf_props'_ok_all unsubscribe_tab ps Hrp Hps) as (pb & Hpb & Hpbl & Hrd).
  set (n := plen5 (Unsubscribe5 pkid fs ps)) in *.
  set (body := u16_be pkid ++ pb ++ flat_map write_mqtt_string fs).
  assert (Hn : len body = n).
  { subst body n. cbn [plen5]. rewrite !len_app, len_u16_be, Hpbl, len_flat_map_strings. lia. }
  destruct (wrl_ok n ltac:(lia)) as (rl & Hrl & Hrll).
  exists (162 :: rl ++ body). split; [| split].
  - cbn [write_body5]. fold n. rewrite Hpb. cbn [bind]. apply header5_ok; assumption.
  - rewrite len_cons, len_app, Hn, Hrll. cbn [size5]. fold n. lia.
  - intros max rest Hm. fold n in Hm.
    apply (framed5_rt fl 162 n body _ rl Hrl Hn); [| exact Hm].
    unfold read_body5_raw. change (packet_type _) with (@Ok err N 10). cbn [bind remaining_len].
    replace (n =? 0) with false by (rewrite <- Hn; subst body; rewrite len_app, len_u16_be; lia). cbv iota.
    unfold unsubscribe5_read. cbn [fixed_header_len]. rewrite advance_encoded. cbn [bind]. subst body.
    rewrite read_u16_u16_be by exact Hpk. cbn [bind].
    change (q_varint_extra CURRENT) with 0. rewrite Hrd. cbn [bind].
    rewrite strings_read_ok; [reflexivity | assumption | assumption | lia].
Qed.

Lemma reasons_read_ok : forall rs, forallb (fun r => mem r unsuback_reasons) rs = true -> reasons_read rs = Ok rs.
Proof.
  induction rs as [| r rs IH]; intros H; [reflexivity |].
  cbn [forallb] in H. split_andb. cbn [reasons_read].
  match goal with Hm : mem r unsuback_reasons = true |- _ => rewrite Hm end.
  rewrite IH by assumption. reflexivity.
Qed.

Lemma rt5_unsuback : forall fl pkid rs ps, wf5 fl (UnsubAck5 pkid rs ps) = true -> rt5_ok fl (UnsubAck5 pkid rs ps).
Proof.
  intros fl pkid rs ps Hwf. unfold wf5 in Hwf. split_andb.
  match goal with H : (plen5 _ <=? MAX_REMAINING) = true |- _ => rename H into Hlen end.
  match goal with H : repr5 _ _ = true |- _ => rename H into Hrepr end.
  match goal with H : u16_ok pkid = true |- _ => apply u16_ok_lt in H; rename H into Hpk end.
  match goal with H : negb (nil_b rs) = true |- _ => rename H into Hne end.
  match goal with H : wf_props' ack_tab ps = true |- _ => rename H into Hps end.
  cbn [repr5] in Hrepr. apply andb_prop in Hrepr. destruct Hrepr as [Hrr Hrp]. unfold MAX_REMAINING in Hlen.
  destruct (wf_props'_ok_all ack_tab ps Hrp Hps) as (pb & Hpb & Hpbl & Hrd).
  set (n := plen5 (UnsubAck5 pkid rs ps)) in *.
  set (body := u16_be pkid ++ pb ++ rs).
  assert (Hn : len body = n).
  { subst body n. cbn [plen5]. rewrite !len_app, len_u16_be, Hpbl. lia. }
  destruct (wrl_ok n ltac:(lia)) as (rl & Hrl & Hrll).
  exists (176 :: rl ++ body). split; [| split].
  - cbn [write_body5]. fold n. rewrite Hpb. cbn [bind]. apply header5_ok; assumption.
  - rewrite len_cons, len_app, Hn, Hrll. cbn [size5]. fold n. lia.
  - intros max rest Hm. fold n in Hm.
    apply (framed5_rt fl 176 n body _ rl Hrl Hn); [| exact Hm].
    unfold read_body5_raw. change (packet_type _) with (@Ok err N 11). cbn [bind remaining_len].
    replace (n =? 0) with false by (rewrite <- Hn; subst body; rewrite len_app, len_u16_be; lia). cbv iota.
    unfold unsuback5_read. cbn [fixed_header_len]. rewrite advance_encoded. cbn [bind]. subst body.
    rewrite read_u16_u16_be by exact Hpk. cbn [bind].
    change (q_varint_extra CURRENT) with 0. rewrite Hrd. cbn [bind].
    destruct rs as [| r rs]; [discriminate |]. cbn [is_empty].
    rewrite reasons_read_ok by assumption. reflexivity.
Qed.

(* ------------------------------------------------------------------ disconnect *)

Lemma rt5_disconnect : forall fl r ps, wf5 fl (Disconnect5 r ps) = true -> rt5_ok fl (Disconnect5 r ps).
Proof.
  intros fl r ps Hwf. unfold wf5 in Hwf. split_andb.
  match goal with H : (plen5 _ <=? MAX_REMAINING) = true |- _ => rename H into Hlen end.
  match goal with H : repr5 _ _ = true |- _ => rename H into Hrepr end.
  match goal with H : wf_props' disconnect_tab ps = true |- _ => rename H into Hps end.
  cbn [repr5] in Hrepr. apply andb_prop in Hrepr. destruct Hrepr as [Hrr Hrp]. unfold MAX_REMAINING in Hlen.
  destruct (short_ack r ps) eqn:Es.
  - (* e0 00 *)
    unfold short_ack in Es. apply andb_prop in Es. destruct Es as [Er Ens]. destruct ps; [discriminate |].
    replace r with 0 by lia.
    exists [224; 0]. split; [reflexivity |]. split; [reflexivity |].
    intros max rest _. apply rt5_empty. destruct fl; reflexivity.
  - destruct (wf_props'_ok_all disconnect_tab ps Hrp Hps) as (pb & Hpb & Hpbl & Hrd).
    pose proof (props_len_pos disconnect_tab ps) as Hpos.
    set (n := plen5 (Disconnect5 r ps)) in *.
    assert (Hnv : n = 1 + props_len disconnect_tab ps) by (subst n; cbn [plen5]; rewrite Es; reflexivity).
    set (body := [r] ++ pb).
    assert (Hn : len body = n).
    { subst body. rewrite len_app, Hpbl, Hnv. reflexivity. }
    destruct (wrl_ok n ltac:(lia)) as (rl & Hrl & Hrll).
    exists (224 :: rl ++ body). split; [| split].
    + cbn [write_body5]. rewrite Es. fold n. rewrite Hpb. cbn [bind]. apply header5_ok; assumption.
    + rewrite len_cons, len_app, Hn, Hrll. cbn [size5]. fold n. lia.
    + intros max rest Hm. fold n in Hm.
      apply (framed5_rt fl 224 n body _ rl Hrl Hn); [| exact Hm].
      unfold read_body5_raw. change (packet_type _) with (@Ok err N 14). cbn [bind remaining_len].
      replace (n =? 0) with false by lia. cbv iota.
      unfold disconnect5_read. cbn [fixed_header_len byte1 remaining_len]. rewrite advance_encoded. cbn [bind].
      change (negb (N.shiftr 224 4 =? 14)) with false. change (negb (N.land 224 15 =? 0)) with false. cbv iota.
      replace (n =? 0) with false by lia. subst body. cbn [app]. rewrite read_u8_cons. cbn [bind].
      rewrite Hrr. cbn [negb]. change (q_varint_extra CURRENT) with 0.
      rewrite <- (app_nil_r pb). rewrite Hrd. reflexivity.
Qed.

(* ------------------------------------------------------------------ connack *)

Lemma rt5_connack : forall fl sp code ps, wf5 fl (ConnAck5 sp code ps) = true -> rt5_ok fl (ConnAck5 sp code ps).
Proof.
  intros fl sp code ps Hwf. unfold wf5 in Hwf. split_andb.
  match goal with H : (plen5 _ <=? MAX_REMAINING) = true |- _ => rename H into Hlen end.
  match goal with H : repr5 _ _ = true |- _ => rename H into Hrepr end.
  match goal with H : mem code connack_codes = true |- _ => rename H into Hcode end.
  match goal with H : wf_props' connack_tab ps = true |- _ => rename H into Hps end.
  cbn [repr5] in Hrepr. apply andb_prop in Hrepr. destruct Hrepr as [_ Hrp]. unfold MAX_REMAINING in Hlen.
  destruct (wf_props'_ok_all connack_tab ps Hrp Hps) as (pb & Hpb & Hpbl & Hrd).
  set (n := plen5 (ConnAck5 sp code ps)) in *.
  set (body := [b2n sp; code] ++ pb).
  assert (Hn : len body = n).
  { subst body n. cbn [plen5]. rewrite len_app, Hpbl. change (len [b2n sp; code]) with 2. lia. }
  destruct (wrl_ok n ltac:(lia)) as (rl & Hrl & Hrll).
  exists (32 :: rl ++ body). split; [| split].
  - cbn [write_body5]. fold n. rewrite Hrl. cbn [bind]. rewrite Hcode. cbn [negb]. rewrite Hpb. cbn [bind].
    rewrite Hrll. cbn [size5]. fold n. reflexivity.
  - rewrite len_cons, len_app, Hn, Hrll. cbn [size5]. fold n. lia.
  - intros max rest Hm. fold n in Hm.
    apply (framed5_rt fl 32 n body _ rl Hrl Hn); [| exact Hm].
    unfold read_body5_raw. change (packet_type _) with (@Ok err N 2). cbn [bind remaining_len].
    replace (n =? 0) with false by (rewrite <- Hn; subst body; rewrite len_app; change (len [b2n sp; code]) with 2; lia). cbv iota.
    unfold connack5_read. cbn [fixed_header_len]. rewrite advance_encoded. cbn [bind]. subst body.
    cbn [app]. rewrite read_u8_cons. cbn [bind]. rewrite read_u8_cons. cbn [bind].
    change (q_varint_extra CURRENT) with 0. rewrite <- (app_nil_r pb). rewrite Hrd. cbn [bind].
    rewrite Hcode. cbn [norm5]. destruct sp; reflexivity.
Qed.

(* ------------------------------------------------------------------ connect *)

Definition will5_key (w : option will5) := option_map (fun w => (w5_qos w, w5_retain w)) w.

Definition connect5_body (f ka : N) (cid pb wb lb : list N) : list N :=
  write_mqtt_string MQTT ++ [5] ++ [f] ++ u16_be ka ++ pb ++ write_mqtt_string cid ++ wb ++ lb.

Lemma connect5_write_eq : forall ka cid clean ps w l rl pb wb,
  write_remaining_length (connect5_len (MkConnect5 ka cid clean ps w l)) = Ok rl ->
  write_props connect_tab ps = Ok pb ->
  match w with Some w0 => will5_bytes w0 = Ok wb | None => wb = [] end ->
  connect5_write (MkConnect5 ka cid clean ps w l) =
  Ok (16 :: rl ++ connect5_body (cflags clean (will5_key w) (login_key l)) ka cid pb wb (login_bytes_o l),
      1 + len rl + connect5_len (MkConnect5 ka cid clean ps w l)).
Proof.
  intros ka cid clean ps w l rl pb wb Hw Hpb Hwb. unfold connect5_write. rewrite Hw. cbn [bind].
  cbn [c5_keep_alive c5_client_id c5_clean_start c5_props c5_will c5_login]. rewrite Hpb. cbn [bind].
  set (f0 := if clean then 2 else 0).
  assert (Hflags : (match l with Some lg => N.lor (match w with Some w0 => N.lor f0 (will5_flags w0) | None => f0 end) (login_flags lg)
                             | None => match w with Some w0 => N.lor f0 (will5_flags w0) | None => f0 end end)
                   = cflags clean (will5_key w) (login_key l)).
  { destruct w as [[tp m q r wps] |], l as [[u p] |]; reflexivity. }
  unfold connect5_body.
  destruct w as [w0 |], l as [lg |]; cbn [login_bytes_o] in *; try rewrite Hwb; try subst wb; cbn [bind]; rewrite <- Hflags;
    cbn [app]; repeat rewrite <- app_assoc; cbn [app]; rewrite set_index_connect; cbn [bind];
    repeat rewrite <- app_assoc; cbn [app]; try rewrite app_nil_r; reflexivity.
Qed.

Lemma will5_read_ok : forall f w wb r,
  (N.land f 4 =? 0) = (match will5_key w with None => true | Some _ => false end) ->
  (will5_key w = None -> (N.land f 56 =? 0) = true) ->
  (forall q b, will5_key w = Some (q, b) -> qos_of (N.shiftr (N.land f 24) 3) = Ok q /\ bit f 32 = b) ->
  wf_will5 w = true ->
  match w with
  | Some w0 => repr_props will_tab (w5_props w0) = true /\
               exists wpb, write_props will_tab (w5_props w0) = Ok wpb /\
                           wb = wpb ++ write_mqtt_bytes (w5_topic w0) ++ write_mqtt_bytes (w5_message w0)
  | None => wb = []
  end ->
  will5_read CURRENT f (wb ++ r) =
  Ok (match w with
      | Some w0 => Some (Will5 (w5_topic w0) (w5_message w0) (w5_qos w0) (w5_retain w0) (norm_props (w5_props w0)))
      | None => None
      end, r).
Proof.
  intros f w wb r H4 H56 Hq Hwf Hwb. unfold will5_read. rewrite H4.
  destruct w as [[tp ms q b wps] |]; cbn [will5_key option_map w5_topic w5_message w5_qos w5_retain w5_props] in *.
  - unfold wf_will5 in Hwf. cbn [w5_topic w5_message w5_props] in Hwf. split_andb. destruct Hwb as (Hrp & wpb & Hwpb & ->).
    destruct (wf_props'_ok_all will_tab wps Hrp ltac:(assumption)) as (pb & Hpb & _ & Hrd).
    assert (wpb = pb) by congruence. subst wpb. change (q_varint_extra CURRENT) with 0.
    repeat rewrite <- app_assoc. rewrite Hrd. cbn [bind].
    rewrite read_mqtt_bytes_write by (apply str_ok_len; assumption). cbn [bind].
    rewrite read_mqtt_bytes_write by (apply str_ok_len; assumption). cbn [bind].
    destruct (Hq q b eq_refl) as [Hq1 Hq2]. rewrite Hq1, Hq2. reflexivity.
  - subst wb. rewrite (H56 eq_refl). reflexivity.
Qed.

Lemma rt5_connect : forall fl c, wf5 fl (Connect5 c) = true -> rt5_ok fl (Connect5 c).
Proof.
  intros fl [ka cid clean ps w l] Hwf. unfold wf5 in Hwf. split_andb.
  match goal with H : (plen5 _ <=? MAX_REMAINING) = true |- _ => rename H into Hlen end.
  match goal with H : repr5 _ _ = true |- _ => rename H into Hrepr end.
  cbn [c5_keep_alive c5_client_id c5_clean_start c5_props c5_will c5_login] in *.
  match goal with H : u16_ok ka = true |- _ => apply u16_ok_lt in H; rename H into Hka end.
  match goal with H : str_ok cid = true |- _ => rename H into Hcid end.
  match goal with H : wf_will5 w = true |- _ => rename H into Hww end.
  match goal with H : wf_login l = true |- _ => rename H into Hwl end.
  match goal with H : wf_props' connect_tab ps = true |- _ => rename H into Hps end.
  cbn [repr5 c5_client_id c5_props c5_will c5_login] in Hrepr. split_andb.
  match goal with H : utf8_valid cid = true |- _ => rename H into Hucid end.
  match goal with H : repr_props connect_tab ps = true |- _ => rename H into Hrp end.
  match goal with H : repr_login l = true |- _ => rename H into Hrl end.
  match goal with H : match w with Some _ => _ | None => true end = true |- _ => rename H into Hrw end.
  set (c := MkConnect5 ka cid clean ps w l) in *.
  cbn [plen5] in Hlen. unfold MAX_REMAINING in Hlen. set (n := connect5_len c) in *.
  destruct (wf_props'_ok_all connect_tab ps Hrp Hps) as (pb & Hpb & Hpbl & Hrd).
  (* the will section *)
  assert (Hwill : exists wb,
            match w with
            | Some w0 => repr_props will_tab (w5_props w0) = true /\
                         exists wpb, write_props will_tab (w5_props w0) = Ok wpb /\
                                     wb = wpb ++ write_mqtt_bytes (w5_topic w0) ++ write_mqtt_bytes (w5_message w0)
            | None => wb = []
            end /\
            len wb = match w with Some w0 => will5_len w0 | None => 0 end).
  { destruct w as [w0 |].
    - unfold wf_will5 in Hww. split_andb.
      destruct (wf_props'_ok_all will_tab (w5_props w0) Hrw ltac:(assumption)) as (wpb & Hwpb & Hwpbl & _).
      exists (wpb ++ write_mqtt_bytes (w5_topic w0) ++ write_mqtt_bytes (w5_message w0)).
      split; [split; [exact Hrw | exists wpb; split; [exact Hwpb | reflexivity]] |].
      unfold will5_len. rewrite !len_app, !len_write_mqtt_bytes, Hwpbl. lia.
    - exists []. split; reflexivity. }
  destruct Hwill as (wb & Hwb & Hwbl).
  set (f := cflags clean (will5_key w) (login_key l)).
  destruct (cflags_facts clean (will5_key w) (login_key l)) as (Hf2 & Hf4 & Hf56 & Hfq & Hf128 & Hf64).
  fold f in Hf2, Hf4, Hf56, Hfq, Hf128, Hf64.
  destruct (login_read_ok Client f l Hf128 Hf64 Hwl Hrl) as (lr & Hlogin).
  set (body := connect5_body f ka cid pb wb (login_bytes_o l)).
  assert (Hn : len body = n).
  { subst body n c. unfold connect5_body, connect5_len.
    cbn [c5_keep_alive c5_client_id c5_clean_start c5_props c5_will c5_login].
    rewrite !len_app. unfold write_mqtt_string. rewrite !len_write_mqtt_bytes, len_u16_be, Hpbl, Hwbl.
    change (len MQTT) with 4. change (len [5]) with 1. change (len [f]) with 1.
    destruct l as [lg |]; cbn [login_bytes_o]; unfold login_len, login_bytes;
      rewrite ?len_app, ?len_nil;
      try (destruct (is_empty (l_username lg)), (is_empty (l_password lg)); unfold write_mqtt_string;
           rewrite ?len_write_mqtt_bytes, ?len_nil); lia. }
  destruct (wrl_ok n ltac:(lia)) as (rl & Hrl' & Hrll).
  exists (16 :: rl ++ body). split; [| split].
  - cbn [write_body5]. subst c.
    rewrite (connect5_write_eq ka cid clean ps w l rl pb wb Hrl' Hpb).
    2:{ destruct w as [w0 |]; [| exact Hwb]. destruct Hwb as (_ & wpb & Hwpb & ->).
        unfold will5_bytes. rewrite Hwpb. reflexivity. }
    fold f. fold body. cbn [size5 plen5]. fold n. rewrite Hrll. reflexivity.
  - rewrite len_cons, len_app, Hn, Hrll. cbn [size5 plen5]. fold c. fold n. lia.
  - intros max rest Hm. cbn [plen5] in Hm. fold n in Hm.
    apply (framed5_rt fl 16 n body _ rl Hrl' Hn); [| exact Hm].
    unfold read_body5_raw. change (packet_type _) with (@Ok err N 1). cbn [bind remaining_len].
    replace (n =? 0) with false by (subst n; unfold connect5_len; lia). cbv iota.
    unfold connect5_read. cbn [fixed_header_len]. rewrite advance_encoded. cbn [bind].
    subst body. unfold connect5_body.
    rewrite read_mqtt_string_write; [| vm_compute; discriminate | exact utf8_MQTT].
    cbn [bind app]. rewrite read_u8_cons. cbn [bind]. change (str_eqb MQTT MQTT) with true. cbn [negb].
    change (negb (5 =? 5)) with false. cbv iota.
    rewrite read_u8_cons. cbn [bind]. rewrite Hf2.
    rewrite read_u16_u16_be by exact Hka. cbn [bind].
    change (q_varint_extra CURRENT) with 0. rewrite Hrd. cbn [bind].
    rewrite read_mqtt_string_write; [| apply str_ok_len; exact Hcid | exact Hucid]. cbn [bind].
    rewrite (will5_read_ok f w wb (login_bytes_o l)); try assumption. cbn [bind].
    rewrite Hlogin. cbn [bind]. subst c. reflexivity.
Qed.

(* ------------------------------------------------------------------ assembly *)

Theorem rt5_body : forall fl p, wf5 fl p = true -> rt5_ok fl p.
Proof.
  intros fl p Hwf. destruct p.
  - apply rt5_connect; exact Hwf.
  - apply rt5_connack; exact Hwf.
  - apply rt5_publish; exact Hwf.
  - apply rt5_puback; exact Hwf.
  - apply rt5_pubrec; exact Hwf.
  - apply rt5_pubrel; exact Hwf.
  - apply rt5_pubcomp; exact Hwf.
  - apply rt5_subscribe; exact Hwf.
  - apply rt5_suback; exact Hwf.
  - apply rt5_unsubscribe; exact Hwf.
  - apply rt5_unsuback; exact Hwf.
  - apply rt5_pingreq.
  - apply rt5_pingresp.
  - apply rt5_disconnect; exact Hwf.
Qed.

Lemma wf5_repr : forall fl p, wf5 fl p = true -> repr5 fl p = true.
Proof. intros fl p H. unfold wf5 in H. split_andb. assumption. Qed.

(** C04 round trip, MQTT 5 (all 14 packet types both crates implement, every property present or
    absent): a well-formed packet is encoded successfully (client: when size() <= max_size, if one
    is set), the count returned = size = bytes written, and decoding [bytes ++ rest] with any
    max >= the remaining length (or none) gives back the packet's content and exactly [rest]. *)
Theorem rt_v5 : forall fl p maxo, wf5 fl p = true ->
  (fl = Client -> forall mx, maxo = Some mx -> size5 p <= mx) ->
  exists bs, write5 fl maxo p = Ok (bs, size5 p) /\ len bs = size5 p /\
    forall max rest, plen5 p <= eff_max max -> read5 fl (bs ++ rest) max = Packet (norm5 fl p) rest.
Proof.
  intros fl p maxo Hwf Hm. rewrite write5_reduce by (try apply wf5_repr; assumption).
  apply rt5_body. exact Hwf.
Qed.

Lemma write5_client_too_large : forall p mx, repr5 Client p = true -> mx < size5 p ->
  write5 Client (Some mx) p = Err OutgoingPacketTooLarge.
Proof.
  intros p mx Hr Hm. unfold write5. rewrite Hr. cbn [negb].
  replace (mx <? size5 p) with true by lia. reflexivity.
Qed.

(* ------------------------------------------------------------------ interoperability *)

(** the same SUBACK codes, written with the constructors decoder [fl] produces *)
Definition recode (fl : flavour) (p : packet5) : packet5 :=
  match p with
  | SubAck5 pk cs ps => SubAck5 pk (map (norm_rc5 fl) cs) ps
  | p => p
  end.

Lemma rc_code_norm5 : forall fl cs, map rc_code (map (norm_rc5 fl) cs) = map rc_code cs.
Proof. intros fl cs. rewrite map_map. apply map_ext. intros c. destruct fl, c; reflexivity. Qed.

Lemma write_body5_recode : forall fl p, write_body5 (recode fl p) = write_body5 p.
Proof.
  intros fl p. destruct p; try reflexivity. cbn [recode write_body5 plen5]. rewrite rc_code_norm5. reflexivity.
Qed.

Lemma norm5_recode : forall fl p, norm5 fl (recode fl p) = norm5 fl p.
Proof.
  intros fl p. destruct p; try reflexivity. cbn [recode norm5]. f_equal. rewrite map_map. apply map_ext.
  intros c. destruct fl, c; reflexivity.
Qed.

Lemma repr_rc5_norm : forall fl1 fl2 cs, forallb (repr_rc5 fl1) cs = true ->
  forallb (repr_rc5 fl2) (map (norm_rc5 fl2) cs) = true.
Proof.
  intros fl1 fl2. induction cs as [| c cs IH]; intros H; [reflexivity |].
  cbn [forallb map] in *. apply andb_prop in H. destruct H as [Hc Hcs]. rewrite (IH Hcs), andb_true_r.
  destruct c as [q | | q | | b]; cbn [norm_rc5 repr_rc5] in *; destruct fl2; try reflexivity;
    destruct fl1; try exact Hc; try discriminate.
Qed.

Lemma wf5_recode : forall fl1 fl2 p, wf5 fl1 p = true -> wf5 fl2 (recode fl2 p) = true.
Proof.
  intros fl1 fl2 p Hwf. destruct p; try exact Hwf.
  - (* connack: the v4-only codes are excluded by wf *)
    unfold wf5 in *. cbn [recode repr5 plen5] in *. split_andb.
    match goal with H : mem code connack_codes = true |- _ => rewrite H end. cbn [orb andb].
    repeat (apply andb_true_intro; split); assumption.
  - (* suback *)
    unfold wf5 in *. cbn [recode repr5 plen5] in *. split_andb.
    match goal with H : forallb (repr_rc5 fl1) codes = true |- _ => rename H into Hc end.
    rewrite (repr_rc5_norm fl1 fl2 codes Hc). rewrite rc_code_norm5.
    repeat (apply andb_true_intro; split); try assumption; try reflexivity.
    destruct codes; [discriminate | reflexivity].
Qed.

(** C04 interop, MQTT 5: the bytes either crate's encoder produces for a well-formed packet are
    decoded by the other crate's decoder (any [fl2]) to the same content, as written with [fl2]'s
    constructors ([norm5 fl2]: SUBACK 0/1/2 are Success(qos) in the client and QoS0/1/2 in the broker). *)
Theorem interop_v5 : forall fl1 fl2 p maxo, wf5 fl1 p = true ->
  (fl1 = Client -> forall mx, maxo = Some mx -> size5 p <= mx) ->
  exists bs, write5 fl1 maxo p = Ok (bs, size5 p) /\
    forall max rest, plen5 p <= eff_max max -> read5 fl2 (bs ++ rest) max = Packet (norm5 fl2 p) rest.
Proof.
  intros fl1 fl2 p maxo Hwf Hm.
  rewrite write5_reduce by (try apply wf5_repr; assumption).
  destruct (rt5_body fl2 (recode fl2 p) (wf5_recode fl1 fl2 p Hwf)) as (bs & Hw & _ & Hr).
  rewrite write_body5_recode in Hw. exists bs. split.
  - rewrite Hw. destruct p; reflexivity || (cbn [recode size5 plen5]; rewrite rc_code_norm5; reflexivity).
  - intros max rest Hmax. rewrite <- norm5_recode. apply Hr.
    destruct p; try exact Hmax. cbn [recode plen5] in *. rewrite rc_code_norm5. exact Hmax.
Qed.

(* ------------------------------------------------------------------ examples *)

Definition ex5_props_pub : props :=
  Some [(1, VByte 1); (2, VU32 3600); (35, VU16 7); (8, VStr [114; 47; 116]); (9, VBin [0; 255]);
        (38, VPair [107] [118]); (38, VPair [195; 169] []); (11, VVarInt 1); (11, VVarInt 268435455); (11, VVarInt 300);
        (3, VStr [])].
Definition ex5_publish : packet5 := Publish5 true ExactlyOnce true [97; 47; 255] 65535 [0; 255; 1] ex5_props_pub.
Definition ex5_will : will5 := Will5 [119] [98; 121; 101] AtLeastOnce true (Some [(24, VU32 5); (3, VStr [116])]).
Definition ex5_connect : packet5 :=
  Connect5 (MkConnect5 60 [99] true (Some [(17, VU32 30); (33, VU16 10); (38, VPair [107] [118]); (21, VStr [109]); (22, VBin [1])])
              (Some ex5_will) (Some (Login [117] [112]))).
Definition ex5_connack : packet5 :=
  ConnAck5 true 0 (Some [(17, VU32 0); (33, VU16 20); (36, VByte 1); (37, VByte 1); (39, VU32 1024); (18, VStr [105; 100]);
                        (34, VU16 4); (31, VStr [111; 107]); (38, VPair [97] [98]); (40, VByte 1); (41, VByte 0); (42, VByte 1);
                        (19, VU16 30); (26, VStr [105]); (28, VStr [115]); (21, VStr [109]); (22, VBin [2; 3])]).
Definition ex5_subscribe : packet5 :=
  Subscribe5 256 [Filter5 [97; 47; 43] AtLeastOnce true false 2; Filter5 [35] ExactlyOnce false true 0]
             (Some [(11, VVarInt 16384); (38, VPair [107] [118])]).
Definition ex5_suback_router : packet5 := SubAck5 7 [RcQoS AtLeastOnce; RcUnspecified; RcOther 143] (Some [(31, VStr [114])]).

Example wf5_examples :
  forallb (fun p => wf5 Client p && wf5 Broker p)
    [ex5_connect; ex5_connack; ex5_publish; PubAck5 1 0 None; PubAck5 1 0 (Some []); PubRec5 255 145 None;
     PubRel5 256 146 (Some [(31, VStr [120])]); PubComp5 65535 0 (Some [(38, VPair [107] [118])]);
     ex5_subscribe; SubAck5 9 [RcSuccess ExactlyOnce; RcFailure; RcOther 162] None; Unsubscribe5 2 [[97; 47; 43]; []] (Some [(38, VPair [] [])]);
     UnsubAck5 9 [0; 17; 145] None; PingReq5; PingResp5; Disconnect5 0 None;
     Disconnect5 142 (Some [(17, VU32 9); (31, VStr [98; 121; 101]); (28, VStr [111])])] = true
  /\ wf5 Broker ex5_suback_router = true /\ wf5 Client ex5_suback_router = false
  /\ wf5 Client (recode Client ex5_suback_router) = true.
Proof. vm_compute. repeat split. Qed.

(* ------------------------------------------------------------------ the encoders / decoders as they were *)

(** before 4a43eae: three subscription identifiers followed by an empty content type — the content
    type is lost and its three bytes turn up in front of the payload (both crates) *)
Definition ex5_subids : packet5 :=
  Publish5 false AtMostOnce false [116] 0 [120] (Some [(11, VVarInt 1); (11, VVarInt 2); (11, VVarInt 3); (3, VStr [])]).

Theorem rt_v5_subscription_ids_refuted :
  wf5 Client ex5_subids = true /\ wf5 Broker ex5_subids = true /\
  exists bs, write5 Client None ex5_subids = Ok (bs, 16) /\
    read5_gen unfixed Client bs None =
      Packet (Publish5 false AtMostOnce false [116] 0 [3; 0; 0; 120] (Some [(11, VVarInt 1); (11, VVarInt 2); (11, VVarInt 3)])) [] /\
    read5_gen unfixed Broker bs (Some 100) = read5_gen unfixed Client bs None /\
    read5 Client bs None = Packet ex5_subids [] /\ read5 Broker bs (Some 100) = Packet ex5_subids [].
Proof. split; [reflexivity |]. split; [reflexivity |]. eexists. vm_compute. repeat split. Qed.

(** before 3dc6acc: the client could not decode the DISCONNECT it (and the broker) writes for a
    normal disconnection *)
Theorem rt_v5_disconnect_refuted :
  wf5 Client (Disconnect5 0 None) = true /\ write5 Client None (Disconnect5 0 None) = Ok ([224; 0], 2) /\
  read5_gen unfixed Client [224; 0] None = Malformed PayloadRequired [] /\
  read5_gen unfixed Broker [224; 0] (Some 100) = Packet (Disconnect5 0 None) [] /\
  read5 Client [224; 0] None = Packet (Disconnect5 0 None) [].
Proof. vm_compute. repeat split. Qed.

(** asymmetries that remain (modelled, reproduced by the correspondence run) *)
Example asym5_suback_constructors :   (* 0/1/2 decode to Success(qos) in the client, QoS0/1/2 in the broker; Failure = Unspecified = 0x80 *)
  exists bs, write5 Broker None (SubAck5 7 [RcSuccess AtLeastOnce; RcFailure] None) = Ok (bs, 7) /\
    read5 Client bs None = Packet (SubAck5 7 [RcSuccess AtLeastOnce; RcUnspecified] None) [] /\
    read5 Broker bs (Some 100) = Packet (SubAck5 7 [RcQoS AtLeastOnce; RcUnspecified] None) [].
Proof. eexists. vm_compute. repeat split. Qed.

Example asym5_empty_properties :      (* Some(empty properties) is written as a zero length and read back as None; for an ack that also changes the form *)
  write5 Client None (PubAck5 5 0 (Some [])) = Ok ([64; 4; 0; 5; 0; 0], 6) /\
  write5 Client None (PubAck5 5 0 None) = Ok ([64; 2; 0; 5], 4) /\
  read5 Client [64; 4; 0; 5; 0; 0] None = Packet (PubAck5 5 0 None) [].
Proof. vm_compute. repeat split. Qed.

Example asym5_ack_error_order :       (* invalid reason code AND invalid property: the client reports the property, the broker the reason *)
  read5 Client [64; 6; 0; 5; 1; 2; 255; 0] None = Malformed InvalidPropertyType [] /\
  read5 Broker [64; 6; 0; 5; 1; 2; 255; 0] (Some 100) = Malformed InvalidConnectReturnCode [].
Proof. vm_compute. repeat split. Qed.

Example asym5_connack_v4_codes :      (* the v4-only ConnectReturnCode variants hit unreachable!() in both v5 encoders *)
  write5 Client None (ConnAck5 false 2 None) = Panic P_UNREACHABLE /\ write5 Broker None (ConnAck5 false 1 None) = Panic P_UNREACHABLE
  /\ write5 Broker None (ConnAck5 false 2 None) = Err Unrepresentable /\ wf5 Client (ConnAck5 false 2 None) = false.
Proof. vm_compute. repeat split. Qed.

Example disconnect5_reason_only :     (* DISCONNECT with a reason code and no property length (valid MQTT 5) is rejected by both decoders *)
  read5 Client [224; 1; 4] None = Malformed MalformedPacket [] /\ read5 Broker [224; 1; 4] (Some 100) = Malformed MalformedPacket [].
Proof. vm_compute. repeat split. Qed.
