(** The generic TLV round trip of the MQTT 5 property layer (V5Props.v): one lemma for all property
    sections of all packets. *)
From Rumqtt Require Import Codec.Wire Codec.V4 Codec.V5Props Codec.WireProofs Codec.V4Proofs.
From Coq Require Import ZArith ZifyBool ZifyN ZifyNat Lia.

Ltac Zify.zify_post_hook ::= Z.div_mod_to_equations.

Lemma str_eqb_eq : forall a b, str_eqb a b = true -> a = b.
Proof.
  induction a as [| x a IH]; intros [| y b] H; cbn [str_eqb] in H; try discriminate; [reflexivity |].
  apply andb_prop in H. destruct H as [H1 H2]. f_equal; [lia | apply IH; exact H2].
Qed.

Lemma pval_eqb_eq : forall a b, pval_eqb a b = true -> a = b.
Proof.
  intros a b H. destruct a, b; cbn [pval_eqb] in H; try discriminate;
    try (f_equal; lia); try (f_equal; apply str_eqb_eq; exact H).
  apply andb_prop in H. destruct H as [H1 H2]. f_equal; apply str_eqb_eq; assumption.
Qed.

Lemma plist_eqb_eq : forall a b, plist_eqb a b = true -> a = b.
Proof.
  induction a as [| [i x] a IH]; intros [| [j y] b] H; cbn [plist_eqb] in H; try discriminate; [reflexivity |].
  apply andb_prop in H. destruct H as [H H3]. apply andb_prop in H. destruct H as [H1 H2].
  f_equal; [f_equal; [lia | apply pval_eqb_eq; exact H2] | apply IH; exact H3].
Qed.

Lemma canon_nil : forall tab, canon tab [] = [].
Proof. induction tab as [| [id mu] tab IH]; [reflexivity |]. cbn [canon]. destruct mu; cbn; exact IH. Qed.

(* ------------------------------------------------------------------ one value *)

Lemma u32_be_val : forall n, n < 4294967296 ->
  (((n / 16777216) mod 256 * 256 + (n / 65536) mod 256) * 256 + (n / 256) mod 256) * 256 + n mod 256 = n.
Proof. intros n H. lia. Qed.

Lemma read_u32_u32_be : forall n r, n < 4294967296 -> read_u32 (u32_be n ++ r) = Ok (n, r).
Proof.
  intros n r H. unfold u32_be. cbn [app]. unfold read_u32. rewrite !len_cons.
  replace (1 + (1 + (1 + (1 + len r))) <? 4) with false by lia. cbn [get_u32].
  rewrite u32_be_val by exact H. reflexivity.
Qed.

Lemma read_mqtt_string_write_bytes : forall b r, len b <= 65535 -> utf8_valid b = true ->
  read_mqtt_string (write_mqtt_bytes b ++ r) = Ok (b, r).
Proof. exact read_mqtt_string_write. Qed.

Definition value_ok (k : pkind) (v : pval) : Prop :=
  kind_matches k v = true /\ wf_value v = true /\
  match v with
  | VStr s => utf8_valid s = true
  | VPair a b => utf8_valid a = true /\ utf8_valid b = true
  | _ => True
  end.

Definition rv_spec (k : pkind) (v : pval) : Prop :=
  exists bs, value_bytes v = Ok bs /\ len bs = value_len v /\
             forall rest, read_value 0 k (bs ++ rest) = Ok (v, value_len v, rest).

Lemma rv_byte : forall n, rv_spec KByte (VByte n).
Proof.
  intros n. exists [n]. split; [reflexivity |]. split; [reflexivity |]. intros rest.
  cbn [read_value app]. rewrite read_u8_cons. reflexivity.
Qed.

Lemma rv_u16 : forall n, n < 65536 -> rv_spec KU16 (VU16 n).
Proof.
  intros n H. exists (u16_be n). split; [reflexivity |]. split; [reflexivity |]. intros rest.
  cbn [read_value]. rewrite read_u16_u16_be by exact H. reflexivity.
Qed.

Lemma rv_u32 : forall n, n < 4294967296 -> rv_spec KU32 (VU32 n).
Proof.
  intros n H. exists (u32_be n). split; [reflexivity |]. split; [reflexivity |]. intros rest.
  cbn [read_value]. rewrite read_u32_u32_be by exact H. reflexivity.
Qed.

Lemma rv_varint : forall n, n <= 268435455 -> rv_spec KVarInt (VVarInt n).
Proof.
  intros n H. unfold rv_spec. cbn [value_bytes value_len read_value].
  destruct (length_write_remaining n [] H) as (bs & Hw & Hl & _).
  exists bs. split; [exact Hw |]. split; [exact Hl |]. intros rest.
  destruct (length_write_remaining n rest H) as (bs' & Hw' & _ & Hv).
  assert (bs' = bs) by congruence. subst bs'.
  rewrite Hv. cbn [bind]. rewrite <- Hl, advance_app. cbn [bind]. rewrite Hl. reflexivity.
Qed.

Lemma rv_str : forall s, len s <= 65535 -> utf8_valid s = true -> rv_spec KStr (VStr s).
Proof.
  intros s Hl Hu. exists (write_mqtt_bytes s). split; [reflexivity |]. split; [apply len_write_mqtt_bytes |].
  intros rest. cbn [read_value value_len]. rewrite read_mqtt_string_write_bytes by assumption. reflexivity.
Qed.

Lemma rv_bin : forall s, len s <= 65535 -> rv_spec KBin (VBin s).
Proof.
  intros s Hl. exists (write_mqtt_bytes s). split; [reflexivity |]. split; [apply len_write_mqtt_bytes |].
  intros rest. cbn [read_value value_len]. rewrite read_mqtt_bytes_write by assumption. reflexivity.
Qed.

Lemma rv_pair : forall a b, len a <= 65535 -> len b <= 65535 -> utf8_valid a = true -> utf8_valid b = true ->
  rv_spec KPair (VPair a b).
Proof.
  intros a b Ha Hb Hua Hub. exists (write_mqtt_bytes a ++ write_mqtt_bytes b). split; [reflexivity |].
  split; [cbn [value_len]; rewrite len_app, !len_write_mqtt_bytes; lia |]. intros rest.
  cbn [read_value value_len]. rewrite <- app_assoc.
  rewrite read_mqtt_string_write_bytes by assumption. cbn [bind].
  rewrite read_mqtt_string_write_bytes by assumption. reflexivity.
Qed.

Lemma read_value_write : forall k v, value_ok k v -> rv_spec k v.
Proof.
  intros k v (Hk & Hwf & Hu). destruct v as [n | n | n | n | s | s | a b]; cbn [wf_value] in Hwf.
  - destruct k; try discriminate Hk. apply rv_byte.
  - destruct k; try discriminate Hk. clear Hk Hu. apply rv_u16. apply N.ltb_lt in Hwf. exact Hwf.
  - destruct k; try discriminate Hk. clear Hk Hu. apply rv_u32. apply N.ltb_lt in Hwf. exact Hwf.
  - destruct k; try discriminate Hk. clear Hk Hu. apply rv_varint. apply N.leb_le in Hwf. exact Hwf.
  - destruct k; try discriminate Hk. apply rv_str; [apply str_ok_len; exact Hwf | exact Hu].
  - destruct k; try discriminate Hk. apply rv_bin. apply str_ok_len; exact Hwf.
  - destruct k; try discriminate Hk. apply andb_prop in Hwf. destruct Hwf, Hu.
    apply rv_pair; try (apply str_ok_len); assumption.
Qed.

(* ------------------------------------------------------------------ the loop *)

Definition prop_ok (tab : ptable) (p : prop) : Prop :=
  in_table tab (fst p) = true /\ exists k, kind_of_id (fst p) = Some k /\ value_ok k (snd p).

Lemma repr_wf_prop_ok : forall tab p, repr_prop tab p = true -> wf_value (snd p) = true -> prop_ok tab p.
Proof.
  intros tab [id v] Hr Hw. unfold repr_prop in Hr. cbn [fst snd] in *.
  apply andb_prop in Hr. destruct Hr as [Hin Hr]. split; [exact Hin |].
  destruct (kind_of_id id) as [k |] eqn:Ek; [| discriminate]. exists k. split; [exact Ek |].
  apply andb_prop in Hr. destruct Hr as [Hk Hu]. split; [exact Hk |]. split; [exact Hw |].
  destruct v; try exact I; [exact Hu |]. apply andb_prop in Hu. exact Hu.
Qed.

Lemma prop_len_pos : forall p, 2 <= prop_len p.
Proof.
  intros [id v]. unfold prop_len. cbn [snd]. destruct v; cbn [value_len]; try lia.
  pose proof (len_len_range n). lia.
Qed.

Lemma plist_bytes_ok : forall tab l, Forall (prop_ok tab) l ->
  exists bs, plist_bytes l = Ok bs /\ len bs = plist_len l.
Proof.
  intros tab l. induction l as [| [id v] l IH]; intros Hok.
  - exists []. split; reflexivity.
  - inversion Hok as [| p l' Hp Hl']; subst. destruct Hp as (_ & k & _ & Hv). cbn [snd] in Hv.
    destruct (read_value_write k v Hv) as (vb & Hvb & Hvl & _).
    destruct (IH Hl') as (bs & Hbs & Hbl).
    exists (id :: vb ++ bs). cbn [plist_bytes fst snd]. rewrite Hvb. cbn [bind]. rewrite Hbs.
    split; [reflexivity |]. rewrite len_cons, len_app, Hvl, Hbl. cbn [plist_len]. unfold prop_len. cbn [snd]. lia.
Qed.

Lemma props_loop_read : forall tab l bs, Forall (prop_ok tab) l -> plist_bytes l = Ok bs ->
  forall fuel cursor plen rest, cursor + plist_len l = plen -> (length (bs ++ rest) < fuel)%nat ->
  props_loop 0 tab fuel cursor plen (bs ++ rest) = Ok (l, rest).
Proof.
  intros tab l. induction l as [| [id v] l IH]; intros bs Hok Hbs fuel cursor plen rest Hsum Hfuel.
  - cbn [plist_bytes] in Hbs. inversion Hbs; subst bs. cbn [plist_len] in Hsum.
    destruct fuel; cbn [props_loop app]; replace (cursor <? plen) with false by lia; reflexivity.
  - inversion Hok as [| p l' Hp Hl']; subst p l'. destruct Hp as (Hin & k & Hk & Hv). cbn [fst snd] in *.
    destruct (read_value_write k v Hv) as (vb & Hvb & Hvl & Hrv).
    cbn [plist_bytes fst snd] in Hbs. rewrite Hvb in Hbs. cbn [bind] in Hbs.
    destruct (plist_bytes l) as [tl | e | t] eqn:Htl; cbn [bind] in Hbs; try discriminate.
    inversion Hbs; subst bs.
    cbn [plist_len] in Hsum. unfold prop_len in Hsum. cbn [snd] in Hsum.
    pose proof (prop_len_pos (id, v)) as Hpos. unfold prop_len in Hpos. cbn [snd] in Hpos.
    destruct fuel as [| fuel]; [lia |]. cbn [props_loop].
    replace (cursor <? plen) with true by lia.
    cbn [app]. rewrite read_u8_cons. cbn [bind]. rewrite Hk, Hin. cbn [negb].
    rewrite <- app_assoc, Hrv. cbn [bind].
    rewrite (IH tl Hl' eq_refl fuel (cursor + 1 + value_len v) plen rest); [reflexivity | lia |].
    cbn [length app] in Hfuel. rewrite !app_length in *. lia.
Qed.

(* ------------------------------------------------------------------ a whole property section *)

Lemma wrl_0' : write_remaining_length 0 = Ok [0].
Proof. apply wrl_1. lia. Qed.

Lemma read_props_zero : forall tab rest, read_props 0 tab (0 :: rest) = Ok (None, rest).
Proof.
  intros tab rest. unfold read_props.
  replace (vlen (0 :: rest)) with (@Ok err (N * N) (1, 0)) by reflexivity. cbn [bind].
  change (advance 1 (0 :: rest)) with (advance (len [0]) ([0] ++ rest)). rewrite advance_app. reflexivity.
Qed.

Lemma forall_prop_ok : forall tab l, forallb (repr_prop tab) l = true ->
  forallb (fun p => wf_value (snd p)) l = true -> Forall (prop_ok tab) l.
Proof.
  intros tab l. induction l as [| p l IH]; intros Hr Hw; [constructor |].
  cbn [forallb] in Hr, Hw. apply andb_prop in Hr. apply andb_prop in Hw. destruct Hr, Hw.
  constructor; [apply repr_wf_prop_ok; assumption | apply IH; assumption].
Qed.

(** C04, property layer: what [write_props] emits is read back (by the repaired loop, cursor
    extra = 0) as the same property set, [Some []] coming back as [None]; exactly the bytes
    written are consumed; their number is what len() accounts for. *)
Theorem read_props_write : forall tab ps rest,
  repr_props tab ps = true ->
  (match ps with Some [] => true | _ => wf_props tab ps end) = true ->
  exists bs, write_props tab ps = Ok bs /\ len bs = props_len tab ps /\
             read_props 0 tab (bs ++ rest) = Ok (match ps with Some [] => None | _ => ps end, rest).
Proof.
  intros tab ps rest Hrepr Hwf. destruct ps as [[| p l] |].
  - (* Some [] *)
    exists [0]. cbn [write_props props_len]. rewrite canon_nil. cbn [plist_len plist_bytes].
    rewrite wrl_0'. split; [reflexivity |]. split; [reflexivity |]. apply read_props_zero.
  - (* Some (p :: l) *)
    set (l0 := p :: l) in *. unfold wf_props in Hwf.
    apply andb_prop in Hwf. destruct Hwf as [Hwf Hlen]. apply andb_prop in Hwf. destruct Hwf as [Hwf Hvals].
    apply andb_prop in Hwf. destruct Hwf as [_ Hcanon]. unfold is_canon in Hcanon. apply plist_eqb_eq in Hcanon.
    cbn [repr_props] in Hrepr. unfold MAX_REMAINING in Hlen.
    pose proof (forall_prop_ok tab l0 Hrepr Hvals) as Hok.
    destruct (plist_bytes_ok tab l0 Hok) as (bs & Hbs & Hbl).
    destruct (length_write_remaining (plist_len l0) (bs ++ rest) ltac:(lia)) as (hb & Hhb & Hhl & Hhv).
    exists (hb ++ bs). cbn [write_props props_len]. rewrite Hcanon, Hhb. cbn [bind]. rewrite Hbs.
    split; [reflexivity |]. split; [rewrite len_app, Hhl, Hbl; reflexivity |].
    unfold read_props. rewrite <- app_assoc, Hhv. cbn [bind].
    rewrite <- Hhl, advance_app. cbn [bind].
    pose proof (prop_len_pos p) as Hpos.
    replace (plist_len l0 =? 0) with false by (subst l0; cbn [plist_len]; lia).
    rewrite (props_loop_read tab l0 bs Hok Hbs) by lia. cbn [bind]. rewrite Hcanon. reflexivity.
  - (* None *)
    exists [0]. cbn [write_props props_len]. rewrite wrl_0'. split; [reflexivity |]. split; [reflexivity |].
    apply read_props_zero.
Qed.
