(** C05 for MQTT 3.1.1: the body decoders never panic and never ask for more bytes; with
    FramingProofs this gives read_total / read_frame / prefix_stable / chunking_independent
    for [V4.read], both flavours. *)
From Rumqtt Require Import Codec.Wire Codec.V4 Codec.WireProofs Codec.FramingProofs.
From Coq Require Import ZArith ZifyBool ZifyN ZifyNat Lia.

Ltac Zify.zify_post_hook ::= Z.div_mod_to_equations.

(** [clean o]: neither a panic, nor an [InsufficientBytes] error, nor the model's [OutOfFuel] *)
Definition clean {A} (o : R A) : Prop :=
  match o with
  | Panic _ => False
  | Err (InsufficientBytes _) => False
  | Err OutOfFuel => False
  | _ => True
  end.

Lemma clean_bind : forall {A B} (x : R A) (f : A -> R B),
  clean x -> (forall a, x = Ok a -> clean (f a)) -> clean (bind x f).
Proof.
  intros A B x f Hx Hf. destruct x as [a | e | t]; cbn [bind].
  - apply Hf. reflexivity.
  - exact Hx.
  - exact Hx.
Qed.

Lemma clean_ok : forall {A} (a : A), clean (@Ok err A a).
Proof. intros. exact I. Qed.

Ltac clean_err := solve [exact I].

(* ------------------------------------------------------------------ primitives *)

Lemma read_u8_clean : forall s, clean (read_u8 s).
Proof. intros [| b r]; exact I. Qed.

Lemma read_u8_ok : forall s b r, read_u8 s = Ok (b, r) -> s = b :: r.
Proof. intros [| b' r'] b r H; [discriminate |]. inversion H; subst. reflexivity. Qed.

Lemma read_u16_clean : forall s, clean (read_u16 s).
Proof.
  intros s. unfold read_u16. destruct (len s <? 2) eqn:E; [exact I |].
  destruct s as [| a [| b r]]; [rewrite len_nil in E; lia | rewrite len_cons, len_nil in E; lia | exact I].
Qed.

Lemma read_u16_ok : forall s n r, read_u16 s = Ok (n, r) -> exists a b, s = a :: b :: r.
Proof.
  intros s n r H. unfold read_u16 in H. destruct (len s <? 2); [discriminate |].
  destruct s as [| a [| b r']]; try discriminate. inversion H; subst. exists a, b. reflexivity.
Qed.

Lemma read_mqtt_bytes_clean : forall s, clean (read_mqtt_bytes s).
Proof.
  intros s. unfold read_mqtt_bytes. apply clean_bind; [apply read_u16_clean |].
  intros [n s1] _. destruct (len s1 <? n) eqn:E; [exact I |].
  rewrite split_to_ok by lia. exact I.
Qed.

Lemma read_mqtt_bytes_ok : forall s t r, read_mqtt_bytes s = Ok (t, r) -> len s = 2 + len t + len r.
Proof.
  intros s t r H. unfold read_mqtt_bytes in H.
  destruct (read_u16 s) as [[n s1] | e | p] eqn:E; cbn [bind] in H; try discriminate.
  destruct (read_u16_ok _ _ _ E) as (a & b & ->).
  destruct (len s1 <? n); [discriminate |].
  apply split_to_inv in H. destruct H as [-> Hl]. rewrite !len_cons, len_app. lia.
Qed.

Lemma utf8_check_clean : forall e x, e <> OutOfFuel -> (forall k, e <> InsufficientBytes k) -> clean (utf8_check e x).
Proof.
  intros e x Ho He. unfold utf8_check. destruct (utf8_valid (fst x)); [exact I |].
  destruct e; try exact I; exfalso; [exact (He k eq_refl) | exact (Ho eq_refl)].
Qed.

Lemma utf8_check_ok : forall e x y, utf8_check e x = Ok y -> y = x.
Proof. intros e x y H. unfold utf8_check in H. destruct (utf8_valid (fst x)); inversion H; reflexivity. Qed.

Lemma read_mqtt_string_clean : forall s, clean (read_mqtt_string s).
Proof.
  intros s. unfold read_mqtt_string. apply clean_bind; [apply read_mqtt_bytes_clean |].
  intros x _. apply utf8_check_clean; intros; discriminate.
Qed.

Lemma read_mqtt_string_ok : forall s t r, read_mqtt_string s = Ok (t, r) -> len s = 2 + len t + len r.
Proof.
  intros s t r H. unfold read_mqtt_string in H.
  destruct (read_mqtt_bytes s) as [x | e | p] eqn:E; cbn [bind] in H; try discriminate.
  apply utf8_check_ok in H. subst x. apply read_mqtt_bytes_ok. exact E.
Qed.

Lemma read_str_clean : forall fl s, clean (read_str fl s).
Proof.
  intros [] s; cbn [read_str]; [apply read_mqtt_string_clean |].
  apply clean_bind; [apply read_mqtt_bytes_clean |].
  intros x _. apply utf8_check_clean; intros; discriminate.
Qed.

Lemma read_str_ok : forall fl s t r, read_str fl s = Ok (t, r) -> len s = 2 + len t + len r.
Proof.
  intros [] s t r H; cbn [read_str] in H; [apply read_mqtt_string_ok; exact H |].
  destruct (read_mqtt_bytes s) as [x | e | p] eqn:E; cbn [bind] in H; try discriminate.
  apply utf8_check_ok in H. subst x. apply read_mqtt_bytes_ok. exact E.
Qed.

Lemma read_topic_clean : forall fl s, clean (read_topic fl s).
Proof. intros [] s; cbn [read_topic]; [apply read_mqtt_string_clean | apply read_mqtt_bytes_clean]. Qed.

Lemma qos_of_clean : forall n, clean (qos_of n).
Proof.
  intros n. unfold qos_of.
  repeat match goal with |- context [match ?x with _ => _ end] => destruct x end; exact I.
Qed.

Lemma advance_clean : forall n s, n <= len s -> clean (advance n s).
Proof. intros n s H. rewrite advance_ok by exact H. exact I. Qed.

Lemma advance_len : forall n s r, advance n s = Ok r -> len r = len s - n /\ n <= len s.
Proof.
  intros n s r H. unfold advance in H. destruct (n <=? len s) eqn:E; [| discriminate].
  inversion H; subst. rewrite len_skipn. lia.
Qed.

(* ------------------------------------------------------------------ packet bodies *)

Section Bodies.
  Variables (fl : flavour) (h : fixed_header) (frame : list N).
  Hypothesis Hlen : len frame = frame_length h.

  Lemma adv_clean : clean (advance (fixed_header_len h) frame).
  Proof. apply advance_clean. unfold frame_length in Hlen. lia. Qed.

  Lemma adv_len : forall s, advance (fixed_header_len h) frame = Ok s -> len s = remaining_len h.
  Proof. intros s H. apply advance_len in H. unfold frame_length in Hlen. lia. Qed.

  Lemma will_read_clean : forall flags s, clean (will_read fl flags s).
  Proof.
    intros flags s. unfold will_read. destruct (N.land flags 4 =? 0).
    - destruct (negb (N.land flags 56 =? 0)); exact I.
    - apply clean_bind; [apply read_topic_clean |]. intros [t s1] _.
      apply clean_bind; [apply read_mqtt_bytes_clean |]. intros [m s2] _.
      apply clean_bind; [apply qos_of_clean |]. intros q _. exact I.
  Qed.

  Lemma login_read_clean : forall flags s, clean (login_read fl flags s).
  Proof.
    intros flags s. unfold login_read.
    apply clean_bind; [destruct (N.land flags 128 =? 0); [exact I | apply read_str_clean] |].
    intros [u s1] _.
    apply clean_bind; [destruct (N.land flags 64 =? 0); [exact I | apply read_str_clean] |].
    intros [p s2] _. destruct (is_empty u && is_empty p); exact I.
  Qed.

  Lemma connect_read_clean : clean (connect_read fl h frame).
  Proof.
    unfold connect_read. apply clean_bind; [apply adv_clean |]. intros s _.
    apply clean_bind; [apply read_str_clean |]. intros [name s1] _.
    apply clean_bind; [apply read_u8_clean |]. intros [level s2] _.
    destruct (negb (str_eqb name MQTT)); [exact I |].
    apply clean_bind.
    { destruct fl; [destruct (level =? 4); [exact I | destruct (level =? 5); exact I] | destruct (level =? 4); exact I]. }
    intros proto _.
    apply clean_bind; [apply read_u8_clean |]. intros [flags s3] _.
    apply clean_bind; [apply read_u16_clean |]. intros [ka s4] _.
    apply clean_bind; [apply read_str_clean |]. intros [cid s5] _.
    apply clean_bind; [apply will_read_clean |]. intros [w s6] _.
    apply clean_bind; [apply login_read_clean |]. intros [lg s7] _. exact I.
  Qed.

  Lemma connack_read_clean : clean (connack_read h frame).
  Proof.
    unfold connack_read. apply clean_bind; [apply adv_clean |]. intros s _.
    apply clean_bind; [apply read_u8_clean |]. intros [flags s1] _.
    apply clean_bind; [apply read_u8_clean |]. intros [rc s2] _.
    destruct (rc <? 6); exact I.
  Qed.

  Lemma publish_read_clean : clean (publish_read fl h frame).
  Proof.
    unfold publish_read. apply clean_bind; [apply qos_of_clean |]. intros q _.
    apply clean_bind; [apply adv_clean |]. intros s _.
    apply clean_bind; [apply read_topic_clean |]. intros [topic s1] _.
    apply clean_bind; [destruct (is_qos0 q); [exact I | apply read_u16_clean] |]. intros [pkid s2] _.
    destruct (negb (is_qos0 q) && (pkid =? 0)); exact I.
  Qed.

  Lemma ack_read_clean : forall mk, clean (ack_read mk h frame).
  Proof.
    intros mk. unfold ack_read. apply clean_bind; [apply adv_clean |]. intros s _.
    apply clean_bind; [apply read_u16_clean |]. intros [pkid s1] _. exact I.
  Qed.

  Lemma puback_read_clean : clean (puback_read fl h frame).
  Proof.
    unfold puback_read. destruct fl; [apply ack_read_clean |].
    apply clean_bind; [apply adv_clean |]. intros s _.
    destruct (negb (remaining_len h =? 2)); [exact I |].
    apply clean_bind; [apply read_u16_clean |]. intros [pkid s1] _. exact I.
  Qed.

  (** fuel = number of bytes is enough: every iteration consumes at least 3 *)
  Lemma filters_read_clean : forall fuel s, (length s <= fuel)%nat -> clean (filters_read fl fuel s).
  Proof.
    induction fuel as [| fuel IH]; intros s Hf; cbn [filters_read]; destruct (is_empty s) eqn:Es; try exact I.
    { destruct s; [discriminate | cbn [length] in Hf; lia]. }
    apply clean_bind; [apply read_str_clean |]. intros [path s1] Hp. apply read_str_ok in Hp.
    apply clean_bind; [apply read_u8_clean |]. intros [options s2] Ho. apply read_u8_ok in Ho. subst s1.
    apply clean_bind; [apply qos_of_clean |]. intros q _.
    apply clean_bind; [apply IH |]. 2:{ intros r _. exact I. }
    rewrite len_cons, !len_spec in Hp. lia.
  Qed.

  Lemma subscribe_read_clean : clean (subscribe_read fl h frame).
  Proof.
    unfold subscribe_read. apply clean_bind; [apply adv_clean |]. intros s _.
    apply clean_bind; [apply read_u16_clean |]. intros [pkid s1] _.
    apply clean_bind; [apply filters_read_clean; lia |]. intros fs _. destruct (nil_b fs); exact I.
  Qed.

  Lemma rc_reason_clean : forall c, clean (rc_reason c).
  Proof.
    intros c. unfold rc_reason.
    repeat match goal with |- context [match ?x with _ => _ end] => destruct x end; exact I.
  Qed.

  Lemma codes_read_clean : forall s, clean (codes_read s).
  Proof.
    induction s as [| c s IH]; cbn [codes_read]; [exact I |].
    apply clean_bind; [apply rc_reason_clean |]. intros x _.
    apply clean_bind; [apply IH |]. intros xs _. exact I.
  Qed.

  Lemma suback_read_clean : clean (suback_read h frame).
  Proof.
    unfold suback_read. apply clean_bind; [apply adv_clean |]. intros s _.
    apply clean_bind; [apply read_u16_clean |]. intros [pkid s1] _.
    destruct (is_empty s1); [exact I |].
    apply clean_bind; [apply codes_read_clean |]. intros cs _. exact I.
  Qed.

  (** the loop invariant of Unsubscribe::read: payload_bytes = bytes.len(), so the subtraction
      `payload_bytes -= topic_filter.len() + 2` cannot overflow *)
  Lemma topics_read_clean : forall fuel pb s, pb = len s -> (length s < fuel)%nat -> clean (topics_read fuel pb s).
  Proof.
    induction fuel as [| fuel IH]; intros pb s Hpb Hf; [lia |].
    cbn [topics_read]; destruct (pb =? 0); try exact I.
    apply clean_bind; [apply read_mqtt_string_clean |]. intros [t s1] Ht.
    apply read_mqtt_string_ok in Ht.
    apply clean_bind.
    { unfold sub. replace (len t + 2 <=? pb) with true by lia. exact I. }
    intros pb' Hpb'. unfold sub in Hpb'. destruct (len t + 2 <=? pb); [| discriminate]. inversion Hpb'; subst pb'.
    apply clean_bind; [apply IH; [lia | rewrite !len_spec in Ht; lia] |]. intros r _. exact I.
  Qed.

  Lemma unsubscribe_read_clean : clean (unsubscribe_read h frame).
  Proof.
    unfold unsubscribe_read. apply clean_bind; [apply adv_clean |]. intros s Hs.
    apply adv_len in Hs.
    apply clean_bind; [apply read_u16_clean |]. intros [pkid s1] Hp.
    destruct (read_u16_ok _ _ _ Hp) as (a & b & ->). rewrite !len_cons in Hs.
    apply clean_bind.
    { unfold sub. replace (2 <=? remaining_len h) with true by lia. exact I. }
    intros pb Hpb. unfold sub in Hpb. destruct (2 <=? remaining_len h); [| discriminate]. inversion Hpb; subst pb.
    apply clean_bind; [apply topics_read_clean; [lia | cbn [length]; lia] |]. intros ts _. exact I.
  Qed.

  Lemma unsuback_read_clean : clean (unsuback_read h frame).
  Proof.
    unfold unsuback_read. destruct (negb (remaining_len h =? 2)); [exact I |].
    apply clean_bind; [apply adv_clean |]. intros s _.
    apply clean_bind; [apply read_u16_clean |]. intros [pkid s1] _. exact I.
  Qed.

  (** the dispatch: every type number that [packet_type] lets through has an arm — the
      catch-all `_ => unreachable!()` of the broker is dead *)
  Lemma read_body_clean : clean (read_body fl h frame).
  Proof.
    unfold read_body. apply clean_bind.
    { unfold packet_type. destruct ((1 <=? byte1 h / 16) && (byte1 h / 16 <=? 14)); exact I. }
    intros ty Hty. unfold packet_type in Hty.
    destruct ((1 <=? byte1 h / 16) && (byte1 h / 16 <=? 14)) eqn:E; [| discriminate].
    inversion Hty; subst ty. set (ty := byte1 h / 16) in *.
    assert (Hcases : ty = 1 \/ ty = 2 \/ ty = 3 \/ ty = 4 \/ ty = 5 \/ ty = 6 \/ ty = 7 \/ ty = 8 \/ ty = 9 \/
                     ty = 10 \/ ty = 11 \/ ty = 12 \/ ty = 13 \/ ty = 14) by lia.
    clearbody ty.
    destruct (remaining_len h =? 0).
    - repeat (destruct Hcases as [-> | Hcases]; [exact I |]). subst ty. exact I.
    - destruct Hcases as [-> | Hcases]; [apply connect_read_clean |].
      destruct Hcases as [-> | Hcases]; [apply connack_read_clean |].
      destruct Hcases as [-> | Hcases]; [apply publish_read_clean |].
      destruct Hcases as [-> | Hcases]; [apply puback_read_clean |].
      destruct Hcases as [-> | Hcases]; [apply ack_read_clean |].
      destruct Hcases as [-> | Hcases]; [apply ack_read_clean |].
      destruct Hcases as [-> | Hcases]; [apply ack_read_clean |].
      destruct Hcases as [-> | Hcases]; [apply subscribe_read_clean |].
      destruct Hcases as [-> | Hcases]; [apply suback_read_clean |].
      destruct Hcases as [-> | Hcases]; [apply unsubscribe_read_clean |].
      destruct Hcases as [-> | Hcases]; [apply unsuback_read_clean |].
      destruct Hcases as [-> | Hcases]; [exact I |].
      destruct Hcases as [-> | ->]; [exact I |].
      destruct fl; exact I.
  Qed.
End Bodies.

Lemma body_no_panic : forall fl h frame t,
  len frame = frame_length h -> 2 <= fixed_header_len h -> read_body fl h frame <> Panic t.
Proof.
  intros fl h frame t Hl _ H. pose proof (read_body_clean fl h frame Hl) as C. rewrite H in C. exact C.
Qed.

Lemma body_no_insufficient : forall fl h frame k,
  len frame = frame_length h -> read_body fl h frame <> Err (InsufficientBytes k).
Proof.
  intros fl h frame k Hl H. pose proof (read_body_clean fl h frame Hl) as C. rewrite H in C. exact C.
Qed.

(* ------------------------------------------------------------------ C05 for V4.read *)

Theorem read_total : forall fl bs max t, read fl bs max <> RPanic t.
Proof.
  intros fl bs max t. unfold read.
  apply read_framed_total; [apply body_no_panic | apply body_no_insufficient].
Qed.

Theorem read_frame_packet : forall fl bs max p rest, read fl bs max = Packet p rest ->
  exists h frame, parse_fixed_header bs = Ok h /\ bs = frame ++ rest /\
                  len frame = frame_length h /\ remaining_len h <= max /\ 2 <= len frame.
Proof.
  intros fl bs max p rest H. unfold read in H.
  eapply read_framed_packet; [apply body_no_panic | apply body_no_insufficient | exact H].
Qed.

Theorem read_frame_malformed : forall fl bs max e rest, read fl bs max = Malformed e rest ->
  (rest = bs /\ (e = MalformedRemainingLength \/ e = PayloadSizeLimitExceeded)) \/
  exists h frame, parse_fixed_header bs = Ok h /\ bs = frame ++ rest /\
                  len frame = frame_length h /\ remaining_len h <= max.
Proof.
  intros fl bs max e rest H. unfold read in H.
  eapply read_framed_malformed; [apply body_no_panic | apply body_no_insufficient | exact H].
Qed.

Theorem read_frame_over_max : forall fl bs max h, parse_fixed_header bs = Ok h -> max < remaining_len h ->
  read fl bs max = Malformed PayloadSizeLimitExceeded bs.
Proof.
  intros fl bs max h Hp Hm. unfold read.
  eapply read_framed_over_max; first [apply body_no_panic | apply body_no_insufficient | exact Hp | exact Hm].
Qed.

Theorem read_frame_need_more : forall fl bs max k, read fl bs max = NeedMore k ->
  (parse_fixed_header bs = Err (InsufficientBytes k) /\ 1 <= k /\ len bs <= 4) \/
  exists h, parse_fixed_header bs = Ok h /\ remaining_len h <= max /\ len bs < frame_length h /\
            1 <= k /\ k <= frame_length h - len bs.
Proof.
  intros fl bs max k H. unfold read in H.
  eapply read_framed_need_more; [apply body_no_panic | apply body_no_insufficient | exact H].
Qed.

Theorem prefix_stable_packet : forall fl bs max p rest more,
  read fl bs max = Packet p rest -> read fl (bs ++ more) max = Packet p (rest ++ more).
Proof.
  intros fl bs max p rest more H. unfold read in *.
  apply read_framed_prefix_packet; [apply body_no_panic | apply body_no_insufficient | exact H].
Qed.

Theorem prefix_stable_malformed : forall fl bs max e rest more,
  read fl bs max = Malformed e rest -> read fl (bs ++ more) max = Malformed e (rest ++ more).
Proof.
  intros fl bs max e rest more H. unfold read in *.
  apply read_framed_prefix_malformed; [apply body_no_panic | apply body_no_insufficient | exact H].
Qed.

(** the fixed header is all that decides how long a frame is: independent of flavour *)
Theorem chunking_independent4 : forall fl max chunks,
  run_stream4 fl max chunks = run_stream4 fl max [concat chunks].
Proof.
  intros fl max chunks. unfold run_stream4.
  apply chunking_independent.
  - intros b t. apply read_total.
  - intros b p rest H. destruct (read_frame_packet _ _ _ _ _ H) as (h & frame & _ & Hb & _ & _ & Hl).
    exists frame. split; [exact Hb |]. rewrite len_spec in Hl. lia.
  - intros b p rest more H. apply prefix_stable_packet. exact H.
  - intros b e rest more H. apply prefix_stable_malformed. exact H.
  - exists 2. reflexivity.
Qed.

(** every packet / error event of a stream is justified by one [read] (no OutOfFuel, no panic) *)
Theorem stream_no_panic : forall fl max chunks t, ~ In (EvPanic t) (fst (run_stream4 fl max chunks)).
Proof.
  intros fl max chunks t. rewrite chunking_independent4. unfold run_stream4, run_stream. cbn [feed_all].
  unfold feed. cbn [dead dinit buf app]. generalize (S (length (concat chunks))) as n. generalize (concat chunks) as b.
  intros b n. revert b.
  induction n as [| n IH]; intros b; cbn [drain].
  - cbn. intros [H | []]. discriminate.
  - destruct (read fl b max) as [p rest | e rest | k | t'] eqn:E.
    + specialize (IH rest). destruct (drain (fun b0 => read fl b0 max) n rest) as [evs st].
      cbn [fst app] in *. rewrite app_nil_r in *. intros [H | H]; [discriminate | exact (IH H)].
    + cbn. intros [H | []]. discriminate.
    + cbn. intros [].
    + exfalso. exact (read_total _ _ _ _ E).
Qed.

(** the model's own fuel never runs out: [OutOfFuel] is not an observable error *)
Theorem read_no_out_of_fuel : forall fl bs max rest, read fl bs max <> Malformed OutOfFuel rest.
Proof.
  intros fl bs max rest H. unfold read in H.
  apply read_framed_malformed_cause in H; [| apply body_no_panic | apply body_no_insufficient].
  destruct H as [H | [H | (h & frame & Hl & Hb)]]; try discriminate.
  pose proof (read_body_clean fl h frame Hl) as C. rewrite Hb in C. exact C.
Qed.

Theorem stream_no_out_of_fuel : forall fl max chunks,
  ~ In (EvError OutOfFuel) (fst (run_stream4 fl max chunks)).
Proof.
  intros fl max chunks. rewrite chunking_independent4. unfold run_stream4, run_stream. cbn [feed_all].
  unfold feed. cbn [dead dinit buf app].
  assert (Hgen : forall n b, (length b < n)%nat ->
            ~ In (EvError OutOfFuel) (fst (drain (fun b0 => read fl b0 max) n b))).
  { induction n as [| n IH]; intros b Hn; [lia |]. cbn [drain].
    destruct (read fl b max) as [p rest | e rest | k | t'] eqn:E.
    - destruct (read_frame_packet _ _ _ _ _ E) as (h & frame & _ & Hb & _ & _ & Hl).
      assert (Hs : (length rest < n)%nat).
      { subst b. rewrite app_length in Hn. rewrite len_spec in Hl. lia. }
      specialize (IH rest Hs). destruct (drain (fun b0 => read fl b0 max) n rest) as [evs st].
      cbn [fst] in *. intros [Hc | Hc]; [discriminate | exact (IH Hc)].
    - cbn. intros [Hc | []]. inversion Hc; subst. exact (read_no_out_of_fuel _ _ _ _ E).
    - cbn. intros [].
    - cbn. intros [Hc | []]. discriminate. }
  specialize (Hgen (S (length (concat chunks))) (concat chunks) ltac:(lia)).
  destruct (drain (fun b0 => read fl b0 max) (S (length (concat chunks))) (concat chunks)) as [evs st].
  cbn [fst] in *. rewrite app_nil_r. exact Hgen.
Qed.
