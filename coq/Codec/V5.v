(** M-CODEC, MQTT 5: executable model of
      Client : rumqttc/src/v5/mqttbytes/v5/*.rs   (Packet::read / Packet::write / Packet::size)
      Broker : rumqttd/src/protocol/v5/*.rs       (V5::read_mut / V5::write)
    over one canonical packet type; property sections go through the generic TLV layer of
    V5Props.v.  The two copies are the same code except where [fl] appears.  No proofs here.

    AUTH: rumqttd has no AUTH packet; rumqttc has `Packet::Auth` but `Packet::read` has no arm for
    type 15 (InvalidPacketType) and the `AuthReasonCode` needed to build one is not nameable outside
    the crate, so AUTH is neither decodable nor constructible through the public API: it is not
    part of the canonical packet type (see the report / evidence `not_covered`).

    [quirks] records behaviours that were found to violate C04/C05 and were repaired in /repo
    ([fixed]); [unfixed] is the code as it was, kept for the `_refuted` witnesses. *)
From Rumqtt Require Export Codec.V5Props.

Record quirks : Type := Quirks
  { q_varint_extra : N;          (* SubscriptionIdentifier: cursor += q + id_len  (was 1) *)
    q_inner_insufficient : bool; (* an InsufficientBytes raised inside a complete frame is passed on (F3) *)
    q_client_disconnect0 : bool  (* client Packet::read: DISCONNECT with remaining length 0 -> PayloadRequired *) }.

Definition unfixed : quirks := Quirks 1 true true.
Definition fixed : quirks := Quirks 0 false false.

Record will5 : Type := Will5
  { w5_topic : list N; w5_message : list N; w5_qos : qos; w5_retain : bool; w5_props : props }.

Record connect5 : Type := MkConnect5
  { c5_keep_alive : N; c5_client_id : list N; c5_clean_start : bool; c5_props : props;
    c5_will : option will5; c5_login : option login }.

Record filter5 : Type := Filter5
  { f5_path : list N; f5_qos : qos; f5_nolocal : bool; f5_preserve_retain : bool;
    f5_rule : N (* 0 OnEverySubscribe | 1 OnNewSubscribe | 2 Never *) }.

(** reason / return codes are the MQTT 5 wire codes of the enum variants; ConnAck additionally
    1 | 2 | 3 = the v4-only variants RefusedProtocolVersion | BadClientId (client) | ServiceUnavailable *)
Inductive packet5 : Type :=
| Connect5 (c : connect5)
| ConnAck5 (session_present : bool) (code : N) (p : props)
| Publish5 (dup : bool) (q : qos) (retain : bool) (topic : list N) (pkid : N) (payload : list N) (p : props)
| PubAck5 (pkid reason : N) (p : props)
| PubRec5 (pkid reason : N) (p : props)
| PubRel5 (pkid reason : N) (p : props)
| PubComp5 (pkid reason : N) (p : props)
| Subscribe5 (pkid : N) (filters : list filter5) (p : props)
| SubAck5 (pkid : N) (codes : list subrc) (p : props)
| Unsubscribe5 (pkid : N) (filters : list (list N)) (p : props)
| UnsubAck5 (pkid : N) (reasons : list N) (p : props)
| PingReq5
| PingResp5
| Disconnect5 (reason : N) (p : props).

(* ------------------------------------------------------------------ tables *)

Definition sg (id : N) : N * bool := (id, false).   (* Option field *)
Definition mu (id : N) : N * bool := (id, true).    (* Vec field *)

Definition connect_tab : ptable := [sg 17; sg 33; sg 39; sg 34; sg 25; sg 23; mu 38; sg 21; sg 22].
Definition will_tab : ptable := [sg 24; sg 1; sg 2; sg 3; sg 8; sg 9; mu 38].
Definition connack_tab : ptable :=
  [sg 17; sg 33; sg 36; sg 37; sg 39; sg 18; sg 34; sg 31; mu 38; sg 40; sg 41; sg 42; sg 19; sg 26; sg 28; sg 21; sg 22].
Definition publish_tab : ptable := [sg 1; sg 2; sg 35; sg 8; sg 9; mu 38; mu 11; sg 3].
Definition ack_tab : ptable := [sg 31; mu 38].
Definition subscribe_tab : ptable := [sg 11; mu 38].
Definition unsubscribe_tab : ptable := [mu 38].
Definition disconnect_tab : ptable := [sg 17; sg 31; mu 38; sg 28].

Definition mem (x : N) (l : list N) : bool := existsb (N.eqb x) l.

Definition puback_reasons : list N := [0; 16; 128; 131; 135; 144; 145; 151; 153].
Definition pubrel_reasons : list N := [0; 146].
Definition connack_codes : list N :=
  [0; 128; 129; 130; 131; 132; 133; 134; 135; 136; 137; 138; 140; 144; 149; 151; 153; 154; 155; 156; 157; 159].
Definition unsuback_reasons : list N := [0; 17; 128; 131; 135; 143; 145].
Definition disconnect_reasons : list N :=
  [0; 4; 128; 129; 130; 131; 135; 137; 139; 141; 142; 143; 144; 147; 148; 149; 150; 151; 152; 153;
   154; 155; 156; 157; 158; 159; 160; 161; 162].
Definition connack_v4_only (fl : flavour) : list N :=
  match fl with Client => [1; 2; 3] | Broker => [1; 3] end.

(* ------------------------------------------------------------------ representability *)

Definition repr_rc5 (fl : flavour) (c : subrc) : bool :=
  match c with
  | RcQoS _ => match fl with Client => false | Broker => true end
  | RcOther b => other_rc_known b
  | _ => true
  end.

Definition repr_filter5 (f : filter5) : bool := utf8_valid (f5_path f) && (f5_rule f <? 3).

Definition repr5 (fl : flavour) (p : packet5) : bool :=
  match p with
  | Connect5 c =>
      utf8_valid (c5_client_id c) && repr_props connect_tab (c5_props c)
      && match c5_will c with Some w => repr_props will_tab (w5_props w) | None => true end
      && repr_login (c5_login c)
  | ConnAck5 _ code ps => (mem code connack_codes || mem code (connack_v4_only fl)) && repr_props connack_tab ps
  | Publish5 _ _ _ _ _ _ ps => repr_props publish_tab ps
  | PubAck5 _ r ps | PubRec5 _ r ps => mem r puback_reasons && repr_props ack_tab ps
  | PubRel5 _ r ps | PubComp5 _ r ps => mem r pubrel_reasons && repr_props ack_tab ps
  | Subscribe5 _ fs ps => forallb repr_filter5 fs && repr_props subscribe_tab ps
  | SubAck5 _ cs ps => forallb (repr_rc5 fl) cs && repr_props ack_tab ps
  | Unsubscribe5 _ fs ps => forallb utf8_valid fs && repr_props unsubscribe_tab ps
  | UnsubAck5 _ rs ps => forallb (fun r => mem r unsuback_reasons) rs && repr_props ack_tab ps
  | PingReq5 | PingResp5 => true
  | Disconnect5 r ps => mem r disconnect_reasons && repr_props disconnect_tab ps
  end.

(* ------------------------------------------------------------------ len() / size() *)

Definition is_none {A} (o : option A) : bool := match o with None => true | Some _ => false end.

Definition will5_len (w : will5) : N :=
  props_len will_tab (w5_props w) + (2 + len (w5_topic w) + 2 + len (w5_message w)).

Definition connect5_len (c : connect5) : N :=
  2 + 4 + 1 + 1 + 2
  + props_len connect_tab (c5_props c)
  + (2 + len (c5_client_id c))
  + match c5_will c with Some w => will5_len w | None => 0 end
  + match c5_login c with Some l => login_len l | None => 0 end.

Definition publish5_len (q : qos) (topic : list N) (pkid : N) (payload : list N) (ps : props) : N :=
  (2 + len topic)
  + (if negb (is_qos0 q) && negb (pkid =? 0) then 2 else 0)
  + props_len publish_tab ps + len payload.

(** "sending reason code is optional": reason == Success && properties.is_none() *)
Definition short_ack (reason : N) (ps : props) : bool := (reason =? 0) && is_none ps.

Definition ack5_len (reason : N) (ps : props) : N :=
  if short_ack reason ps then 2 else 2 + 1 + props_len ack_tab ps.

Definition filter5_len (f : filter5) : N := 2 + len (f5_path f) + 1.

(** remaining length on the wire *)
Definition plen5 (p : packet5) : N :=
  match p with
  | Connect5 c => connect5_len c
  | ConnAck5 _ _ ps => 1 + 1 + props_len connack_tab ps
  | Publish5 _ q _ topic pkid payload ps => publish5_len q topic pkid payload ps
  | PubAck5 _ r ps | PubRec5 _ r ps | PubRel5 _ r ps | PubComp5 _ r ps => ack5_len r ps
  | Subscribe5 _ fs ps => 2 + sum_map filter5_len fs + props_len subscribe_tab ps
  | SubAck5 _ cs ps => 2 + len (map rc_code cs) + props_len ack_tab ps
  | Unsubscribe5 _ fs ps => 2 + sum_map (fun f => 2 + len f) fs + props_len unsubscribe_tab ps
  | UnsubAck5 _ rs ps => 2 + len rs + props_len ack_tab ps
  | PingReq5 | PingResp5 => 0
  | Disconnect5 r ps => if short_ack r ps then 0 else 1 + props_len disconnect_tab ps
  end.

(** Packet::size() (client); the count V5::write returns (broker) *)
Definition size5 (p : packet5) : N :=
  match p with
  | PingReq5 | PingResp5 => 2
  | _ => 1 + len_len (plen5 p) + plen5 p
  end.

(* ------------------------------------------------------------------ write *)

Definition header5 (b1 : N) (l : N) (body : R (list N)) : R (list N * N) :=
  do rl <- write_remaining_length l;
  do b <- body;
  Ok (b1 :: rl ++ b, 1 + len rl + l).

Definition will5_bytes (w : will5) : R (list N) :=
  do pb <- write_props will_tab (w5_props w);
  Ok (pb ++ write_mqtt_bytes (w5_topic w) ++ write_mqtt_bytes (w5_message w)).

Definition will5_flags (w : will5) : N :=
  let f := N.lor 4 (N.shiftl (qos_num (w5_qos w)) 3) in
  if w5_retain w then N.lor f 32 else f.

Definition connect5_write (c : connect5) : R (list N * N) :=
  let l := connect5_len c in
  do rl <- write_remaining_length l;
  let count := len rl in
  let flags_index := 1 + count + 2 + 4 + 1 in
  let f0 := if c5_clean_start c then 2 else 0 in
  do pb <- write_props connect_tab (c5_props c);
  let b0 := 16 :: rl ++ write_mqtt_string MQTT ++ [5] ++ [f0] ++ u16_be (c5_keep_alive c)
               ++ pb ++ write_mqtt_string (c5_client_id c) in
  do (f1, b1) <- (match c5_will c with
                  | Some w => do wb <- will5_bytes w; Ok (N.lor f0 (will5_flags w), b0 ++ wb)
                  | None => Ok (f0, b0)
                  end);
  let '(f2, b2) := match c5_login c with
                   | Some lg => (N.lor f1 (login_flags lg), b1 ++ login_bytes lg)
                   | None => (f1, b1)
                   end in
  do b3 <- set_index (N.to_nat flags_index) f2 b2;
  Ok (b3, 1 + count + l).

Definition publish5_write (dup : bool) (q : qos) (retain : bool) (topic : list N) (pkid : N)
           (payload : list N) (ps : props) : R (list N * N) :=
  let l := publish5_len q topic pkid payload ps in
  let b1 := N.lor (N.lor (N.lor 48 (b2n retain)) (N.shiftl (qos_num q) 1)) (N.shiftl (b2n dup) 3) in
  do rl <- write_remaining_length l;
  do pk <- (if is_qos0 q then Ok [] else if pkid =? 0 then Err PacketIdZero else Ok (u16_be pkid));
  do pb <- write_props publish_tab ps;
  Ok (b1 :: rl ++ write_mqtt_bytes topic ++ pk ++ pb ++ payload, 1 + len rl + l).

Definition ack5_write (b1 : N) (pkid reason : N) (ps : props) : R (list N * N) :=
  let l := ack5_len reason ps in
  do rl <- write_remaining_length l;
  if short_ack reason ps then Ok (b1 :: rl ++ u16_be pkid, 4)
  else
    do pb <- write_props ack_tab ps;
    Ok (b1 :: rl ++ u16_be pkid ++ [reason] ++ pb, 1 + len rl + l).

Definition filter5_bytes (f : filter5) : list N :=
  write_mqtt_string (f5_path f) ++
  [N.lor (N.lor (N.lor (N.lor 0 (qos_num (f5_qos f))) (if f5_nolocal f then 4 else 0))
                (if f5_preserve_retain f then 8 else 0))
         (N.shiftl (f5_rule f) 4)].

Definition write_body5 (p : packet5) : R (list N * N) :=
  match p with
  | Connect5 c => connect5_write c
  | ConnAck5 sp code ps =>
      do rl <- write_remaining_length (plen5 p);
      (* connect_code(): `_ => unreachable!()` for the v4-only variants *)
      if negb (mem code connack_codes) then Panic P_UNREACHABLE
      else do pb <- write_props connack_tab ps;
           Ok (32 :: rl ++ [b2n sp; code] ++ pb, 1 + len rl + plen5 p)
  | Publish5 dup q retain topic pkid payload ps => publish5_write dup q retain topic pkid payload ps
  | PubAck5 pkid r ps => ack5_write 64 pkid r ps
  | PubRec5 pkid r ps => ack5_write 80 pkid r ps
  | PubRel5 pkid r ps => ack5_write 98 pkid r ps
  | PubComp5 pkid r ps => ack5_write 112 pkid r ps
  | Subscribe5 pkid fs ps =>
      header5 130 (plen5 p)
        (do pb <- write_props subscribe_tab ps; Ok (u16_be pkid ++ pb ++ flat_map filter5_bytes fs))
  | SubAck5 pkid cs ps =>
      header5 144 (plen5 p) (do pb <- write_props ack_tab ps; Ok (u16_be pkid ++ pb ++ map rc_code cs))
  | Unsubscribe5 pkid fs ps =>
      header5 162 (plen5 p)
        (do pb <- write_props unsubscribe_tab ps; Ok (u16_be pkid ++ pb ++ flat_map write_mqtt_string fs))
  | UnsubAck5 pkid rs ps =>
      header5 176 (plen5 p) (do pb <- write_props ack_tab ps; Ok (u16_be pkid ++ pb ++ rs))
  | PingReq5 => Ok ([192; 0], 2)
  | PingResp5 => Ok ([208; 0], 2)
  | Disconnect5 r ps =>
      if short_ack r ps then Ok ([224; 0], 2)
      else header5 224 (plen5 p) (do pb <- write_props disconnect_tab ps; Ok ([r] ++ pb))
  end.

(** Client: Packet::write(&self, buf, max_size: Option<u32>) checks size() first; Broker: no check *)
Definition write5 (fl : flavour) (max : option N) (p : packet5) : R (list N * N) :=
  if negb (repr5 fl p) then Err Unrepresentable
  else
    match fl, max with
    | Client, Some mx => if mx <? size5 p then Err OutgoingPacketTooLarge else write_body5 p
    | _, _ => write_body5 p
    end.

(* ------------------------------------------------------------------ read *)

Section Read.
  Variable Q : quirks.
  Let rprops (tab : ptable) (s : list N) := read_props (q_varint_extra Q) tab s.

  Definition will5_read (flags : N) (s : list N) : R (option will5 * list N) :=
    if N.land flags 4 =? 0 then
      if negb (N.land flags 56 =? 0) then Err IncorrectPacketFormat else Ok (None, s)
    else
      do (ps, s0) <- rprops will_tab s;
      do (tp, s1) <- read_mqtt_bytes s0;
      do (ms, s2) <- read_mqtt_bytes s1;
      do q <- qos_of (N.shiftr (N.land flags 24) 3);
      Ok (Some (Will5 tp ms q (bit flags 32) ps), s2).

  Definition connect5_read (h : fixed_header) (frame : list N) : R packet5 :=
    do s <- advance (fixed_header_len h) frame;
    do (name, s) <- read_mqtt_string s;
    do (level, s) <- read_u8 s;
    if negb (str_eqb name MQTT) then Err InvalidProtocol
    else if negb (level =? 5) then Err InvalidProtocolLevel
    else
      do (flags, s) <- read_u8 s;
      let clean := bit flags 2 in
      do (ka, s) <- read_u16 s;
      do (ps, s) <- rprops connect_tab s;
      do (cid, s) <- read_mqtt_string s;
      do (w, s) <- will5_read flags s;
      do (lg, s) <- login_read Client flags s;       (* read_mqtt_string in both crates *)
      Ok (Connect5 (MkConnect5 ka cid clean ps w lg)).

  Definition connack5_read (h : fixed_header) (frame : list N) : R packet5 :=
    do s <- advance (fixed_header_len h) frame;
    do (flags, s) <- read_u8 s;
    do (rc, s) <- read_u8 s;
    do (ps, s) <- rprops connack_tab s;
    let sp := N.land flags 1 =? 1 in
    if mem rc connack_codes then Ok (ConnAck5 sp rc ps) else Err InvalidConnectReturnCode.

  Definition publish5_read (h : fixed_header) (frame : list N) : R packet5 :=
    do q <- qos_of (N.shiftr (N.land (byte1 h) 6) 1);
    let dup := bit (byte1 h) 8 in
    let retain := bit (byte1 h) 1 in
    do s <- advance (fixed_header_len h) frame;
    do (topic, s) <- read_mqtt_bytes s;
    do (pkid, s) <- (if is_qos0 q then Ok (0, s) else read_u16 s);
    if negb (is_qos0 q) && (pkid =? 0) then Err PacketIdZero
    else
      do (ps, s) <- rprops publish_tab s;
      Ok (Publish5 dup q retain topic pkid s ps).

  (** PUBACK / PUBREC / PUBREL / PUBCOMP.  The client validates the reason code after the
      properties have been read, the broker before. *)
  Definition ack5_read (fl : flavour) (mk : N -> N -> props -> packet5) (reasons : list N)
             (h : fixed_header) (frame : list N) : R packet5 :=
    do s <- advance (fixed_header_len h) frame;
    do (pkid, s) <- read_u16 s;
    if remaining_len h =? 2 then Ok (mk pkid 0 None)
    else
      do (r, s) <- read_u8 s;
      let check := if mem r reasons then Ok r else Err InvalidConnectReturnCode in
      if remaining_len h <? 4 then (do r <- check; Ok (mk pkid r None))
      else
        match fl with
        | Client => do (ps, s) <- rprops ack_tab s; do r <- check; Ok (mk pkid r ps)
        | Broker => do r <- check; do (ps, s) <- rprops ack_tab s; Ok (mk pkid r ps)
        end.

  Fixpoint filters5_read (fuel : nat) (s : list N) : R (list filter5) :=
    if is_empty s then Ok []
    else
      match fuel with
      | O => Err OutOfFuel
      | S f =>
          do (path, s1) <- read_mqtt_string s;
          do (options, s2) <- read_u8 s1;
          let rule := N.land (N.shiftr options 4) 3 in
          if 2 <? rule then Err InvalidRetainForwardRule
          else
            do q <- qos_of (N.land options 3);
            do r <- filters5_read f s2;
            Ok (Filter5 path q (bit options 4) (bit options 8) rule :: r)
      end.

  Definition subscribe5_read (h : fixed_header) (frame : list N) : R packet5 :=
    do s <- advance (fixed_header_len h) frame;
    do (pkid, s) <- read_u16 s;
    do (ps, s) <- rprops subscribe_tab s;
    do fs <- filters5_read (length s) s;
    if nil_b fs then Err EmptySubscription else Ok (Subscribe5 pkid fs ps).

  (** 0/1/2 decode to Success(qos) in the client and to QoS0/1/2 in the broker *)
  Definition rc5_reason (fl : flavour) (c : N) : R subrc :=
    match c with
    | 0 => Ok (match fl with Client => RcSuccess AtMostOnce | Broker => RcQoS AtMostOnce end)
    | 1 => Ok (match fl with Client => RcSuccess AtLeastOnce | Broker => RcQoS AtLeastOnce end)
    | 2 => Ok (match fl with Client => RcSuccess ExactlyOnce | Broker => RcQoS ExactlyOnce end)
    | 128 => Ok RcUnspecified
    | _ => if other_rc_known c then Ok (RcOther c) else Err InvalidSubscribeReasonCode
    end.

  Fixpoint codes5_read (fl : flavour) (s : list N) : R (list subrc) :=
    match s with
    | [] => Ok []
    | c :: r => do x <- rc5_reason fl c; do xs <- codes5_read fl r; Ok (x :: xs)
    end.

  Definition suback5_read (fl : flavour) (h : fixed_header) (frame : list N) : R packet5 :=
    do s <- advance (fixed_header_len h) frame;
    do (pkid, s) <- read_u16 s;
    do (ps, s) <- rprops ack_tab s;
    if is_empty s then Err MalformedPacket
    else do cs <- codes5_read fl s; Ok (SubAck5 pkid cs ps).

  Fixpoint strings_read (fuel : nat) (s : list N) : R (list (list N)) :=
    if is_empty s then Ok []
    else
      match fuel with
      | O => Err OutOfFuel
      | S f => do (x, s1) <- read_mqtt_string s; do r <- strings_read f s1; Ok (x :: r)
      end.

  Definition unsubscribe5_read (h : fixed_header) (frame : list N) : R packet5 :=
    do s <- advance (fixed_header_len h) frame;
    do (pkid, s) <- read_u16 s;
    do (ps, s) <- rprops unsubscribe_tab s;
    do fs <- strings_read (length s) s;
    Ok (Unsubscribe5 pkid fs ps).

  Fixpoint reasons_read (s : list N) : R (list N) :=
    match s with
    | [] => Ok []
    | c :: r => if mem c unsuback_reasons then (do xs <- reasons_read r; Ok (c :: xs))
                else Err InvalidSubscribeReasonCode
    end.

  Definition unsuback5_read (h : fixed_header) (frame : list N) : R packet5 :=
    do s <- advance (fixed_header_len h) frame;
    do (pkid, s) <- read_u16 s;
    do (ps, s) <- rprops ack_tab s;
    if is_empty s then Err MalformedPacket
    else do rs <- reasons_read s; Ok (UnsubAck5 pkid rs ps).

  Definition disconnect5_read (h : fixed_header) (frame : list N) : R packet5 :=
    let packet_type := N.shiftr (byte1 h) 4 in
    let flags := N.land (byte1 h) 15 in
    do s <- advance (fixed_header_len h) frame;
    if negb (packet_type =? 14) then Err InvalidPacketType
    else if negb (flags =? 0) then Err MalformedPacket
    else if remaining_len h =? 0 then Ok (Disconnect5 0 None)
    else
      do (r, s) <- read_u8 s;
      if negb (mem r disconnect_reasons) then Err InvalidConnectReturnCode
      else do (ps, s) <- rprops disconnect_tab s; Ok (Disconnect5 r ps).

  Definition read_body5_raw (fl : flavour) (h : fixed_header) (frame : list N) : R packet5 :=
    do ty <- packet_type h;
    if remaining_len h =? 0 then
      match ty with
      | 12 => Ok PingReq5
      | 13 => Ok PingResp5
      | 14 => match fl with
              | Client => if q_client_disconnect0 Q then Err PayloadRequired else Ok (Disconnect5 0 None)
              | Broker => Ok (Disconnect5 0 None)
              end
      | _ => Err PayloadRequired
      end
    else
      match ty with
      | 1 => connect5_read h frame
      | 2 => connack5_read h frame
      | 3 => publish5_read h frame
      | 4 => ack5_read fl PubAck5 puback_reasons h frame
      | 5 => ack5_read fl PubRec5 puback_reasons h frame
      | 6 => ack5_read fl PubRel5 pubrel_reasons h frame
      | 7 => ack5_read fl PubComp5 pubrel_reasons h frame
      | 8 => subscribe5_read h frame
      | 9 => suback5_read fl h frame
      | 10 => unsubscribe5_read h frame
      | 11 => unsuback5_read h frame
      | 12 => Ok PingReq5
      | 13 => Ok PingResp5
      | 14 => disconnect5_read h frame
      | _ => Panic P_UNREACHABLE
      end.

  (** after the repair of F3 the frame is known to be complete, so an InsufficientBytes from a
      nested variable byte integer is reported as MalformedPacket *)
  Definition read_body5 (fl : flavour) (h : fixed_header) (frame : list N) : R packet5 :=
    match read_body5_raw fl h frame with
    | Err (InsufficientBytes k) =>
        if q_inner_insufficient Q then Err (InsufficientBytes k) else Err MalformedPacket
    | r => r
    end.

  (** max_size: Option<u32> in the client (None = no limit), usize in the broker *)
  Definition read5_gen (fl : flavour) (bs : list N) (max : option N) : read_result packet5 :=
    read_framed (read_body5 fl) bs (match max with Some mx => mx | None => MAX_REMAINING end).
End Read.

Definition CURRENT : quirks := fixed.   (* /repo after 4a43eae, 3dc6acc, 6436c3f *)

Definition read5 (fl : flavour) (bs : list N) (max : option N) : read_result packet5 :=
  read5_gen CURRENT fl bs max.

Definition run_stream5 (fl : flavour) (max : option N) (chunks : list (list N)) :=
  run_stream (fun b => read5 fl b max) chunks.

(* ------------------------------------------------------------------ content / well-formedness *)

Definition norm_props (ps : props) : props :=
  match ps with Some [] => None | ps => ps end.

(** what decoder [fl] returns for the constructors that share a wire code *)
Definition norm_rc5 (fl : flavour) (c : subrc) : subrc :=
  match c with
  | RcFailure => RcUnspecified
  | RcSuccess q => match fl with Client => RcSuccess q | Broker => RcQoS q end
  | RcQoS q => match fl with Client => RcSuccess q | Broker => RcQoS q end
  | c => c
  end.

Definition norm5 (fl : flavour) (p : packet5) : packet5 :=
  match p with
  | Connect5 c =>
      Connect5 (MkConnect5 (c5_keep_alive c) (c5_client_id c) (c5_clean_start c) (norm_props (c5_props c))
                  (match c5_will c with
                   | Some w => Some (Will5 (w5_topic w) (w5_message w) (w5_qos w) (w5_retain w) (norm_props (w5_props w)))
                   | None => None
                   end)
                  (c5_login c))
  | ConnAck5 sp code ps => ConnAck5 sp code (norm_props ps)
  | Publish5 d q r tp pk pl ps => Publish5 d q r tp pk pl (norm_props ps)
  | PubAck5 pk r ps => PubAck5 pk r (norm_props ps)
  | PubRec5 pk r ps => PubRec5 pk r (norm_props ps)
  | PubRel5 pk r ps => PubRel5 pk r (norm_props ps)
  | PubComp5 pk r ps => PubComp5 pk r (norm_props ps)
  | Subscribe5 pk fs ps => Subscribe5 pk fs (norm_props ps)
  | SubAck5 pk cs ps => SubAck5 pk (map (norm_rc5 fl) cs) (norm_props ps)
  | Unsubscribe5 pk fs ps => Unsubscribe5 pk fs (norm_props ps)
  | UnsubAck5 pk rs ps => UnsubAck5 pk rs (norm_props ps)
  | Disconnect5 r ps => Disconnect5 r (norm_props ps)
  | p => p
  end.

(** [Some []] (properties present but empty) is not required to be absent here: it is handled by
    [norm5]; [wf_props] only constrains non-empty sets. *)
Definition wf_props' (tab : ptable) (ps : props) : bool :=
  match ps with Some [] => true | ps => wf_props tab ps end.

Definition wf_will5 (w : option will5) : bool :=
  match w with
  | Some w => str_ok (w5_topic w) && str_ok (w5_message w) && wf_props' will_tab (w5_props w)
  | None => true
  end.

Definition wf5 (fl : flavour) (p : packet5) : bool :=
  repr5 fl p && (plen5 p <=? MAX_REMAINING) &&
  match p with
  | Connect5 c =>
      u16_ok (c5_keep_alive c) && str_ok (c5_client_id c) && wf_props' connect_tab (c5_props c)
      && wf_will5 (c5_will c) && wf_login (c5_login c)
  | ConnAck5 _ code ps => mem code connack_codes && wf_props' connack_tab ps
  | Publish5 _ q _ topic pkid payload ps =>
      str_ok topic && bytes_ok payload && u16_ok pkid
      && (if is_qos0 q then pkid =? 0 else negb (pkid =? 0)) && wf_props' publish_tab ps
  | PubAck5 pkid _ ps | PubRec5 pkid _ ps | PubRel5 pkid _ ps | PubComp5 pkid _ ps =>
      u16_ok pkid && wf_props' ack_tab ps
  | Subscribe5 pkid fs ps =>
      u16_ok pkid && negb (nil_b fs) && forallb (fun f => str_ok (f5_path f)) fs
      && wf_props' subscribe_tab ps
  | SubAck5 pkid cs ps => u16_ok pkid && negb (nil_b cs) && wf_props' ack_tab ps
  | Unsubscribe5 pkid fs ps => u16_ok pkid && forallb str_ok fs && wf_props' unsubscribe_tab ps
  | UnsubAck5 pkid rs ps => u16_ok pkid && negb (nil_b rs) && wf_props' ack_tab ps
  | PingReq5 | PingResp5 => true
  | Disconnect5 _ ps => wf_props' disconnect_tab ps
  end.
