(** M-CODEC, helper layer: executable model of the functions that exist in four Rust copies
    (rumqttc/src/mqttbytes/mod.rs, rumqttc/src/v5/mqttbytes/mod.rs,
     rumqttd/src/protocol/v4/mod.rs, rumqttd/src/protocol/v5/mod.rs):
    [check], [parse_fixed_header], [length] (variable byte integer), [write_remaining_length],
    [len_len], [read_u8/u16/u32], [read_mqtt_bytes/string], [write_mqtt_bytes/string],
    and the [bytes::Buf] primitives they call ([get_u8/u16/u32], [advance], [split_to]),
    which panic when their precondition fails.  No proofs in this file.

    A byte string / [Bytes] cursor / [BytesMut] buffer is a [list N]; reading functions return
    the value together with the remaining cursor. *)
From Rumqtt Require Export Base.Outcome Base.Utf8.

(** Error kinds: the union of the [Error] enums of the four codec copies, by name only
    (numeric arguments dropped, except the byte count of [InsufficientBytes]).
    [OutgoingPacketTooLarge] exists in the client only.  [Unrepresentable] is not a Rust
    error: it is the answer of the harness (and of the model) when a canonical packet has no
    counterpart in the packet type of the chosen crate.  [OutOfFuel] is the model's own
    (proved unreachable). *)
Inductive err : Type :=
| InvalidConnectReturnCode | InvalidReason | InvalidRemainingLength | InvalidProtocol
| InvalidProtocolLevel | IncorrectPacketFormat | InvalidPacketType | InvalidRetainForwardRule
| InvalidQoS | InvalidSubscribeReasonCode | PacketIdZero | EmptySubscription | SubscriptionIdZero
| PayloadSizeIncorrect | PayloadTooLong | PayloadSizeLimitExceeded | PayloadRequired
| PayloadNotUtf8 | TopicNotUtf8 | BoundaryCrossed | MalformedPacket | MalformedRemainingLength
| InvalidPropertyType | ProtocolError
| InsufficientBytes (k : N)
| OutgoingPacketTooLarge | Unrepresentable | OutOfFuel.

Definition R (A : Type) : Type := Outcome err A.

(** panic tags *)
Definition P_UNWRAP : N := 1.       (* Option::unwrap on None *)
Definition P_GET : N := 2.          (* Buf::get_u8/u16/u32 past the end *)
Definition P_SPLIT_TO : N := 3.     (* Bytes(Mut)::split_to out of bounds *)
Definition P_ADVANCE : N := 4.      (* Buf::advance past the end *)
Definition P_SUB : N := 5.          (* usize subtraction overflow *)
Definition P_UNREACHABLE : N := 6.  (* unreachable!() *)
Definition P_INDEX : N := 7.        (* slice index out of range *)

(** [len()] — tail recursive, so that the extracted code copes with multi-megabyte payloads *)
Fixpoint len_acc (l : list N) (acc : N) : N :=
  match l with
  | [] => acc
  | _ :: r => len_acc r (N.succ acc)
  end.
Definition len (l : list N) : N := len_acc l 0.

Definition is_empty (l : list N) : bool := match l with [] => true | _ => false end.

(** bytes::Buf primitives *)
Definition get_u8 (s : list N) : R (N * list N) :=
  match s with
  | b :: r => Ok (b, r)
  | [] => Panic P_GET
  end.

Definition get_u16 (s : list N) : R (N * list N) :=
  match s with
  | a :: b :: r => Ok (a * 256 + b, r)
  | _ => Panic P_GET
  end.

Definition get_u32 (s : list N) : R (N * list N) :=
  match s with
  | a :: b :: c :: d :: r => Ok (((a * 256 + b) * 256 + c) * 256 + d, r)
  | _ => Panic P_GET
  end.

Definition split_to (n : N) (s : list N) : R (list N * list N) :=
  if n <=? len s then Ok (firstn (N.to_nat n) s, skipn (N.to_nat n) s)
  else Panic P_SPLIT_TO.

Definition advance (n : N) (s : list N) : R (list N) :=
  if n <=? len s then Ok (skipn (N.to_nat n) s) else Panic P_ADVANCE.

(** checked subtraction on usize (dev profile: overflow panics) *)
Definition sub (a b : N) : R N := if b <=? a then Ok (a - b) else Panic P_SUB.

(** read_u8 / read_u16 / read_u32: "pre checks will prevent bytes crashes" *)
Definition read_u8 (s : list N) : R (N * list N) :=
  if is_empty s then Err MalformedPacket else get_u8 s.

Definition read_u16 (s : list N) : R (N * list N) :=
  if len s <? 2 then Err MalformedPacket else get_u16 s.

Definition read_u32 (s : list N) : R (N * list N) :=
  if len s <? 4 then Err MalformedPacket else get_u32 s.

(** read_mqtt_bytes: u16 length, then that many bytes; [BoundaryCrossed] if the cursor is shorter *)
Definition read_mqtt_bytes (s : list N) : R (list N * list N) :=
  do (n, s1) <- read_u16 s;
  if len s1 <? n then Err BoundaryCrossed else split_to n s1.

(** read_mqtt_string = read_mqtt_bytes + String::from_utf8 -> TopicNotUtf8.
    [utf8_check e] is the variant [std::str::from_utf8(..)?] of the broker, whose error kind is
    [PayloadNotUtf8]. *)
Definition utf8_check (e : err) (x : list N * list N) : R (list N * list N) :=
  if utf8_valid (fst x) then Ok x else Err e.

Definition read_mqtt_string (s : list N) : R (list N * list N) :=
  do x <- read_mqtt_bytes s; utf8_check TopicNotUtf8 x.

(** put_u16 of [n as u16] (truncating cast) *)
Definition u16_be (n : N) : list N := [(n / 256) mod 256; n mod 256].
Definition u32_be (n : N) : list N :=
  [(n / 16777216) mod 256; (n / 65536) mod 256; (n / 256) mod 256; n mod 256].

Definition write_mqtt_bytes (b : list N) : list N := u16_be (len b) ++ b.
Definition write_mqtt_string (b : list N) : list N := write_mqtt_bytes b.

(** len_len *)
Definition len_len (n : N) : N :=
  if 2097152 <=? n then 4 else if 16384 <=? n then 3 else if 128 <=? n then 2 else 1.

Definition MAX_REMAINING : N := 268435455.

(** write_remaining_length: the [while !done] loop, on fuel (4 iterations suffice) *)
Fixpoint wrl_go (fuel : nat) (x : N) : R (list N) :=
  match fuel with
  | O => Err OutOfFuel
  | S f =>
      let byte := x mod 128 in
      let x' := x / 128 in
      if 0 <? x' then (do r <- wrl_go f x'; Ok ((byte + 128) :: r))   (* byte |= 128 *)
      else Ok [byte]
  end.

Definition write_remaining_length (n : N) : R (list N) :=
  if MAX_REMAINING <? n then Err PayloadTooLong else wrl_go 5 n.

(** Rust [length()]: variable byte integer; returns (len_len, len).  Named [vlen] here to keep
    [List.length] usable. *)
Fixpoint vlen_go (s : list N) (acc len_len shift : N) : R (N * N) :=
  match s with
  | [] => Err (InsufficientBytes 1)                 (* !done after the loop *)
  | b :: r =>
      let len_len' := len_len + 1 in
      let acc' := acc + N.shiftl (N.land b 127) shift in
      if N.land b 128 =? 0 then Ok (len_len', acc')
      else
        let shift' := shift + 7 in
        if 21 <? shift' then Err MalformedRemainingLength
        else vlen_go r acc' len_len' shift'
  end.

Definition vlen (s : list N) : R (N * N) := vlen_go s 0 0 0.

Record fixed_header : Type := FixedHeader
  { byte1 : N; fixed_header_len : N; remaining_len : N }.

Definition frame_length (h : fixed_header) : N := fixed_header_len h + remaining_len h.

Definition parse_fixed_header (s : list N) : R fixed_header :=
  let stream_len := len s in
  if stream_len <? 2 then Err (InsufficientBytes (2 - stream_len))
  else
    match s with
    | [] => Panic P_UNWRAP                           (* stream.next().unwrap() *)
    | b1 :: r =>
        do (ll, l) <- vlen r;
        Ok (FixedHeader b1 (ll + 1) l)
    end.

Definition check (s : list N) (max_packet_size : N) : R fixed_header :=
  let stream_len := len s in
  do h <- parse_fixed_header s;
  if max_packet_size <? remaining_len h then Err PayloadSizeLimitExceeded
  else
    let fl := frame_length h in
    if stream_len <? fl then Err (InsufficientBytes (fl - stream_len))
    else Ok h.

(** packet type number 1..14 from the high nibble of byte1 *)
Definition packet_type (h : fixed_header) : R N :=
  let num := byte1 h / 16 in
  if (1 <=? num) && (num <=? 14) then Ok num else Err InvalidPacketType.

(** Result of a framed read.  [Packet]/[Malformed] carry what is left in the buffer. *)
Inductive read_result (P : Type) : Type :=
| Packet (p : P) (rest : list N)
| Malformed (e : err) (rest : list N)
| NeedMore (k : N)
| RPanic (tag : N).
Arguments Packet {P} p rest.
Arguments Malformed {P} e rest.
Arguments NeedMore {P} k.
Arguments RPanic {P} tag.

(** Generic framing: [check], [split_to(frame_length)], then the body decoder on the frame.
    Any [InsufficientBytes] error — wherever it comes from — is what the callers
    ([Decoder::decode], [Network::read]) treat as "wait for more bytes". *)
Definition read_framed {P} (body : fixed_header -> list N -> R P) (bs : list N) (max : N)
  : read_result P :=
  match check bs max with
  | Err (InsufficientBytes k) => NeedMore k
  | Err e => Malformed e bs
  | Panic t => RPanic t
  | Ok h =>
      match split_to (frame_length h) bs with
      | Panic t => RPanic t
      | Err e => Malformed e bs
      | Ok (frame, rest) =>
          match body h frame with
          | Ok p => Packet p rest
          | Err (InsufficientBytes k) => NeedMore k
          | Err e => Malformed e rest
          | Panic t => RPanic t
          end
      end
  end.

(** The buffered decoder loop of [tokio_util::codec::Framed] and of
    [rumqttd::link::network::Network::read/readv]: append what arrived, decode until the decoder
    asks for more or fails.  After an error the stream is dead. *)
Inductive event (P : Type) : Type :=
| EvPacket (p : P)
| EvError (e : err)
| EvPanic (tag : N).
Arguments EvPacket {P} p.
Arguments EvError {P} e.
Arguments EvPanic {P} tag.

Record dstate : Type := DState { buf : list N; dead : bool }.
Definition dinit : dstate := DState [] false.

Fixpoint drain {P} (rd : list N -> read_result P) (fuel : nat) (b : list N)
  : list (event P) * dstate :=
  match fuel with
  | O => ([EvError OutOfFuel], DState b true)
  | S f =>
      match rd b with
      | Packet p rest => let '(evs, st) := drain rd f rest in (EvPacket p :: evs, st)
      | Malformed e rest => ([EvError e], DState rest true)
      | NeedMore _ => ([], DState b false)
      | RPanic t => ([EvPanic t], DState b true)
      end
  end.

Definition feed {P} (rd : list N -> read_result P) (st : dstate) (chunk : list N)
  : list (event P) * dstate :=
  if dead st then ([], st)
  else let b := buf st ++ chunk in drain rd (S (length b)) b.

Fixpoint feed_all {P} (rd : list N -> read_result P) (st : dstate) (chunks : list (list N))
  : list (event P) * dstate :=
  match chunks with
  | [] => ([], st)
  | c :: cs =>
      let '(e1, st1) := feed rd st c in
      let '(e2, st2) := feed_all rd st1 cs in
      (e1 ++ e2, st2)
  end.

(** how the stream ends when the peer closes: nothing left / a partial frame left / dead *)
Inductive ending : Type := EndClean | EndPartial | EndDead.
Definition ending_of (st : dstate) : ending :=
  if dead st then EndDead else if is_empty (buf st) then EndClean else EndPartial.

Definition run_stream {P} (rd : list N -> read_result P) (chunks : list (list N))
  : list (event P) * ending :=
  let '(evs, st) := feed_all rd dinit chunks in (evs, ending_of st).
