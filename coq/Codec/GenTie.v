(** Tie between the hand-written MQTT 5 codec model (Codec/V5.v, V5Props.v, V4.v) and the code tables
    that tools/gen_tables.py regenerates from the Rust sources of BOTH crates on every run
    (Gen/Tables.v).  Every statement quantifies over ALL property ids / reason codes (N, unbounded):
    the model accepts an id in a packet's property block iff the Rust `match property(prop)?` of that
    packet has an arm for it, it accepts a reason code iff the Rust decoder's match has an arm for it,
    and each Rust encoder table is the inverse of its decoder table.  A changed code, a dropped or
    added arm in the Rust source changes Gen/Tables.v and breaks these proofs. *)
From Coq Require Import NArith List Bool.
From Rumqtt Require Import Base.Outcome Gen.Tables Codec.Wire Codec.V4 Codec.V5Props Codec.V5.
Import ListNotations.
Open Scope N_scope.

Definition subset (a b : list N) : bool := forallb (fun x => mem x b) a.
Definition same_set (a b : list N) : bool := subset a b && subset b a.

Lemma mem_In x l : mem x l = true <-> In x l.
Proof.
  unfold mem. rewrite existsb_exists. split.
  - intros [y [Hy He]]. apply N.eqb_eq in He. subst. exact Hy.
  - intros H. exists x. split; [exact H | apply N.eqb_refl].
Qed.

Lemma subset_mem a b : subset a b = true -> forall x, mem x a = true -> mem x b = true.
Proof.
  unfold subset. rewrite forallb_forall. intros H x Hx. apply H. apply mem_In. exact Hx.
Qed.

Lemma same_set_mem a b : same_set a b = true -> forall x, mem x a = mem x b.
Proof.
  unfold same_set. intros H x. apply andb_true_iff in H. destruct H as [Hab Hba].
  destruct (mem x a) eqn:Ea, (mem x b) eqn:Eb; try reflexivity.
  - rewrite (subset_mem _ _ Hab x Ea) in Eb. discriminate.
  - rewrite (subset_mem _ _ Hba x Eb) in Ea. discriminate.
Qed.

Lemma in_table_mem tab id : in_table tab id = mem id (map fst tab).
Proof.
  unfold in_table, mem. induction tab as [|e tab IH]; cbn [existsb map]; [reflexivity|].
  rewrite IH. rewrite (N.eqb_sym (fst e) id). reflexivity.
Qed.

Lemma tie_table tab l : same_set (map fst tab) l = true -> forall id, in_table tab id = mem id l.
Proof. intros H id. rewrite in_table_mem. apply same_set_mem. exact H. Qed.

(** the property blocks: one statement per table of the model, both crates *)
Definition block_ties (tab : ptable) (ls : list (list N)) : Prop :=
  forall l, In l ls -> forall id, in_table tab id = mem id l.

Lemma block_ties_of tab ls : forallb (fun l => same_set (map fst tab) l) ls = true -> block_ties tab ls.
Proof. rewrite forallb_forall. intros H l Hl. apply tie_table. apply H. exact Hl. Qed.

Theorem tie_connect_props : block_ties connect_tab [broker_connect_props; client_connect_props].
Proof. apply block_ties_of. vm_compute. reflexivity. Qed.
Theorem tie_will_props : block_ties will_tab [broker_connect_will_props; client_connect_will_props].
Proof. apply block_ties_of. vm_compute. reflexivity. Qed.
Theorem tie_connack_props : block_ties connack_tab [broker_connack_props0; client_connack_props0].
Proof. apply block_ties_of. vm_compute. reflexivity. Qed.
Theorem tie_publish_props : block_ties publish_tab [broker_publish_props0; client_publish_props0].
Proof. apply block_ties_of. vm_compute. reflexivity. Qed.
Theorem tie_ack_props : block_ties ack_tab
  [broker_puback_props0; broker_pubrec_props0; broker_pubrel_props0; broker_pubcomp_props0;
   broker_suback_props0; broker_unsuback_props0;
   client_puback_props0; client_pubrec_props0; client_pubrel_props0; client_pubcomp_props0;
   client_suback_props0; client_unsuback_props0].
Proof. apply block_ties_of. vm_compute. reflexivity. Qed.
Theorem tie_subscribe_props : block_ties subscribe_tab [broker_subscribe_props0; client_subscribe_props0].
Proof. apply block_ties_of. vm_compute. reflexivity. Qed.
Theorem tie_unsubscribe_props : block_ties unsubscribe_tab [broker_unsubscribe_props0; client_unsubscribe_props0].
Proof. apply block_ties_of. vm_compute. reflexivity. Qed.
Theorem tie_disconnect_props : block_ties disconnect_tab [broker_disconnect_props0; client_disconnect_props0].
Proof. apply block_ties_of. vm_compute. reflexivity. Qed.

(** reason codes: decoder tables of both crates = the model's lists; encoder tables = decoder tables
    and inverse to them variant by variant *)
Definition code_ties (model : list N) (decs encs : list (list N)) (inv : list bool) : Prop :=
  (forall l, In l decs -> forall c, mem c model = mem c l) /\
  (forall l, In l encs -> forall c, mem c model = mem c l) /\
  (forall b, In b inv -> b = true).

Lemma code_ties_of model decs encs inv :
  forallb (same_set model) decs && forallb (same_set model) encs && forallb (fun b => b) inv = true ->
  code_ties model decs encs inv.
Proof.
  intros H. apply andb_true_iff in H. destruct H as [H Hi]. apply andb_true_iff in H. destruct H as [Hd He].
  rewrite forallb_forall in Hd, He, Hi.
  split; [|split].
  - intros l Hl. apply same_set_mem. apply Hd. exact Hl.
  - intros l Hl. apply same_set_mem. apply He. exact Hl.
  - intros b Hb. apply Hi. exact Hb.
Qed.

Theorem tie_puback_codes : code_ties puback_reasons
  [broker_puback_dec; broker_pubrec_dec; client_puback_dec; client_pubrec_dec]
  [broker_puback_enc; broker_pubrec_enc; client_puback_enc; client_pubrec_enc]
  [broker_puback_inverse; broker_pubrec_inverse; client_puback_inverse; client_pubrec_inverse].
Proof. apply code_ties_of. vm_compute. reflexivity. Qed.
Theorem tie_pubrel_codes : code_ties pubrel_reasons
  [broker_pubrel_dec; broker_pubcomp_dec; client_pubrel_dec; client_pubcomp_dec]
  [broker_pubrel_enc; broker_pubcomp_enc; client_pubrel_enc; client_pubcomp_enc]
  [broker_pubrel_inverse; broker_pubcomp_inverse; client_pubrel_inverse; client_pubcomp_inverse].
Proof. apply code_ties_of. vm_compute. reflexivity. Qed.
Theorem tie_connack_codes : code_ties connack_codes
  [broker_connack_dec; client_connack_dec] [broker_connack_enc; client_connack_enc]
  [broker_connack_inverse; client_connack_inverse].
Proof. apply code_ties_of. vm_compute. reflexivity. Qed.
Theorem tie_unsuback_codes : code_ties unsuback_reasons
  [broker_unsuback_dec; client_unsuback_dec] [broker_unsuback_enc; client_unsuback_enc]
  [broker_unsuback_inverse; client_unsuback_inverse].
Proof. apply code_ties_of. vm_compute. reflexivity. Qed.
Theorem tie_disconnect_codes : code_ties disconnect_reasons
  [broker_disconnect_dec; client_disconnect_dec] [broker_disconnect_enc; client_disconnect_enc]
  [broker_disconnect_inverse; client_disconnect_inverse].
Proof. apply code_ties_of. vm_compute. reflexivity. Qed.

(** the property decoder `fn property(u8)` of both crates knows exactly the ids the model types *)
Definition known_id (id : N) : bool := match kind_of_id id with Some _ => true | None => false end.

Theorem tie_property_ids : forall id, known_id id = mem id broker_property_ids /\ known_id id = mem id client_property_ids.
Proof.
  intros id. destruct id as [|p]; [split; reflexivity|].
  do 7 (try (destruct p as [p|p|])); split; reflexivity.
Qed.

(** SUBACK reason codes: the model's decoder accepts exactly the codes the Rust `fn reason` accepts *)
Definition rc5_ok (fl : flavour) (c : N) : bool := match rc5_reason fl c with Ok _ => true | _ => false end.

Theorem tie_suback_codes : forall fl c, rc5_ok fl c = mem c broker_suback_dec /\ rc5_ok fl c = mem c client_suback_dec.
Proof.
  intros fl c. destruct c as [|p]; [destruct fl; split; reflexivity|].
  do 9 (try (destruct p as [p|p|])); destruct fl; split; reflexivity.
Qed.

(** the two abbreviations, spelled out (pinned so that they cannot be quietly weakened) *)
Lemma tie_block_ties_means tab ls : block_ties tab ls <->
  (forall l, In l ls -> forall id, in_table tab id = mem id l).
Proof. unfold block_ties. split; intros H; exact H. Qed.

Lemma tie_code_ties_means model decs encs inv : code_ties model decs encs inv <->
  ((forall l, In l decs -> forall c, mem c model = mem c l) /\
   (forall l, In l encs -> forall c, mem c model = mem c l) /\
   (forall b, In b inv -> b = true)).
Proof. unfold code_ties. split; intros H; exact H. Qed.
