(** Lemmas about Codec/Wire.v: lengths, cursor primitives, the variable byte integer,
    mqtt strings. *)
From Rumqtt Require Import Codec.Wire.
From Coq Require Import ZArith ZifyBool ZifyN ZifyNat Lia.

Ltac Zify.zify_post_hook ::= Z.div_mod_to_equations.

Arguments N.add : simpl never.
Arguments N.sub : simpl never.
Arguments N.mul : simpl never.
Arguments N.div : simpl never.
Arguments N.modulo : simpl never.
Arguments N.land : simpl never.
Arguments N.lor : simpl never.
Arguments N.shiftl : simpl never.
Arguments N.shiftr : simpl never.
Arguments N.leb : simpl never.
Arguments N.ltb : simpl never.
Arguments N.eqb : simpl never.
Arguments N.to_nat : simpl never.
Arguments N.of_nat : simpl never.

(* ------------------------------------------------------------------ len *)

Lemma len_acc_spec : forall l a, len_acc l a = a + N.of_nat (length l).
Proof.
  induction l as [| x l IH]; intros a; cbn [len_acc length].
  - lia.
  - rewrite IH. lia.
Qed.

Lemma len_spec : forall l, len l = N.of_nat (length l).
Proof. intros l. unfold len. rewrite len_acc_spec. lia. Qed.

Lemma len_nil : len [] = 0.
Proof. reflexivity. Qed.

Lemma len_cons : forall x l, len (x :: l) = 1 + len l.
Proof. intros. rewrite !len_spec. cbn [length]. lia. Qed.

Lemma len_app : forall a b, len (a ++ b) = len a + len b.
Proof. intros. rewrite !len_spec, app_length. lia. Qed.

Lemma len_firstn : forall n l, n <= len l -> len (firstn (N.to_nat n) l) = n.
Proof. intros n l H. rewrite len_spec in *. rewrite firstn_length. lia. Qed.

Lemma len_skipn : forall n l, len (skipn (N.to_nat n) l) = len l - n.
Proof. intros n l. rewrite !len_spec. rewrite skipn_length. lia. Qed.

Lemma is_empty_len : forall l, is_empty l = (len l =? 0).
Proof. intros [| x l]; [reflexivity |]. rewrite len_cons. cbn [is_empty]. lia. Qed.

Lemma len_0_nil : forall l, len l = 0 -> l = [].
Proof. intros [| x l] H; [reflexivity |]. rewrite len_cons in H. lia. Qed.

Lemma firstn_len_app : forall a b, firstn (N.to_nat (len a)) (a ++ b) = a.
Proof.
  intros a b. rewrite len_spec, Nnat.Nat2N.id.
  rewrite firstn_app, Nat.sub_diag, firstn_all. cbn [firstn]. apply app_nil_r.
Qed.

Lemma skipn_len_app : forall a b, skipn (N.to_nat (len a)) (a ++ b) = b.
Proof.
  intros a b. rewrite len_spec, Nnat.Nat2N.id.
  rewrite skipn_app, Nat.sub_diag, skipn_all. reflexivity.
Qed.

(* ------------------------------------------------------------------ cursor primitives *)

Lemma split_to_app : forall a b, split_to (len a) (a ++ b) = Ok (a, b).
Proof.
  intros a b. unfold split_to. rewrite len_app.
  replace (len a <=? len a + len b) with true by lia.
  rewrite firstn_len_app, skipn_len_app. reflexivity.
Qed.

Lemma split_to_ok : forall n s, n <= len s ->
  split_to n s = Ok (firstn (N.to_nat n) s, skipn (N.to_nat n) s).
Proof. intros n s H. unfold split_to. replace (n <=? len s) with true by lia. reflexivity. Qed.

Lemma split_to_inv : forall n s a b, split_to n s = Ok (a, b) -> s = a ++ b /\ len a = n.
Proof.
  intros n s a b H. unfold split_to in H. destruct (n <=? len s) eqn:E; [| discriminate].
  inversion H; subst. split; [symmetry; apply firstn_skipn | apply len_firstn; lia].
Qed.

Lemma advance_app : forall a b, advance (len a) (a ++ b) = Ok b.
Proof.
  intros a b. unfold advance. rewrite len_app.
  replace (len a <=? len a + len b) with true by lia. rewrite skipn_len_app. reflexivity.
Qed.

Lemma advance_ok : forall n s, n <= len s -> advance n s = Ok (skipn (N.to_nat n) s).
Proof. intros n s H. unfold advance. replace (n <=? len s) with true by lia. reflexivity. Qed.

Lemma read_u8_cons : forall b r, read_u8 (b :: r) = Ok (b, r).
Proof. reflexivity. Qed.

Lemma read_u16_cons : forall a b r, read_u16 (a :: b :: r) = Ok (a * 256 + b, r).
Proof.
  intros. unfold read_u16. rewrite !len_cons.
  replace (1 + (1 + len r) <? 2) with false by lia. reflexivity.
Qed.

Lemma u16_be_val : forall n, n < 65536 -> (n / 256) mod 256 * 256 + n mod 256 = n.
Proof. intros n H. lia. Qed.

Lemma read_u16_u16_be : forall n r, n < 65536 -> read_u16 (u16_be n ++ r) = Ok (n, r).
Proof.
  intros n r H. unfold u16_be. cbn [app]. rewrite read_u16_cons, u16_be_val by exact H. reflexivity.
Qed.

Lemma len_u16_be : forall n, len (u16_be n) = 2.
Proof. reflexivity. Qed.

Lemma read_mqtt_bytes_write : forall b r, len b <= 65535 ->
  read_mqtt_bytes (write_mqtt_bytes b ++ r) = Ok (b, r).
Proof.
  intros b r H. unfold read_mqtt_bytes, write_mqtt_bytes. rewrite <- app_assoc.
  rewrite read_u16_u16_be by lia. cbn [bind]. rewrite len_app.
  replace (len b + len r <? len b) with false by lia. apply split_to_app.
Qed.

Lemma read_mqtt_string_write : forall b r, len b <= 65535 -> utf8_valid b = true ->
  read_mqtt_string (write_mqtt_string b ++ r) = Ok (b, r).
Proof.
  intros b r H U. unfold read_mqtt_string, write_mqtt_string.
  rewrite read_mqtt_bytes_write by exact H. cbn [bind]. unfold utf8_check. cbn [fst]. rewrite U. reflexivity.
Qed.

Lemma len_write_mqtt_bytes : forall b, len (write_mqtt_bytes b) = 2 + len b.
Proof. intros. unfold write_mqtt_bytes. rewrite len_app, len_u16_be. reflexivity. Qed.

(* ------------------------------------------------------------------ bytes: brute force over 0..255 *)

Lemma byte_forall (P : N -> bool) :
  forallb P (map N.of_nat (seq 0 256)) = true -> forall b, b < 256 -> P b = true.
Proof.
  intros H b Hb. rewrite forallb_forall in H. apply H.
  rewrite <- (Nnat.N2Nat.id b). apply in_map. apply in_seq. lia.
Qed.

Lemma land_127 : forall b, b < 256 -> N.land b 127 = b mod 128.
Proof.
  intros b Hb. apply N.eqb_eq.
  apply (byte_forall (fun b => N.land b 127 =? b mod 128)); [vm_compute; reflexivity | exact Hb].
Qed.

Lemma land_128 : forall b, b < 256 -> (N.land b 128 =? 0) = (b <? 128).
Proof.
  intros b Hb. apply Bool.eqb_prop.
  apply (byte_forall (fun b => Bool.eqb (N.land b 128 =? 0) (b <? 128))); [vm_compute; reflexivity | exact Hb].
Qed.

(* ------------------------------------------------------------------ write_remaining_length *)

Lemma wrl_1 : forall n, n < 128 -> write_remaining_length n = Ok [n].
Proof.
  intros n H. unfold write_remaining_length, MAX_REMAINING.
  replace (268435455 <? n) with false by lia. cbn [wrl_go].
  replace (0 <? n / 128) with false by lia. replace (n mod 128) with n by lia. reflexivity.
Qed.

Lemma wrl_2 : forall n, 128 <= n < 16384 ->
  write_remaining_length n = Ok [n mod 128 + 128; n / 128].
Proof.
  intros n H. unfold write_remaining_length, MAX_REMAINING.
  replace (268435455 <? n) with false by lia. cbn [wrl_go].
  replace (0 <? n / 128) with true by lia.
  replace (0 <? n / 128 / 128) with false by lia. cbn [bind].
  replace ((n / 128) mod 128) with (n / 128) by lia. reflexivity.
Qed.

Lemma wrl_3 : forall n, 16384 <= n < 2097152 ->
  write_remaining_length n = Ok [n mod 128 + 128; (n / 128) mod 128 + 128; n / 16384].
Proof.
  intros n H. unfold write_remaining_length, MAX_REMAINING.
  replace (268435455 <? n) with false by lia. cbn [wrl_go].
  replace (0 <? n / 128) with true by lia.
  replace (0 <? n / 128 / 128) with true by lia.
  replace (0 <? n / 128 / 128 / 128) with false by lia. cbn [bind].
  replace (n / 128 / 128) with (n / 16384) by lia.
  replace ((n / 16384) mod 128) with (n / 16384) by lia. reflexivity.
Qed.

Lemma wrl_4 : forall n, 2097152 <= n <= 268435455 ->
  write_remaining_length n =
  Ok [n mod 128 + 128; (n / 128) mod 128 + 128; (n / 16384) mod 128 + 128; n / 2097152].
Proof.
  intros n H. unfold write_remaining_length, MAX_REMAINING.
  replace (268435455 <? n) with false by lia. cbn [wrl_go].
  replace (0 <? n / 128) with true by lia.
  replace (0 <? n / 128 / 128) with true by lia.
  replace (0 <? n / 128 / 128 / 128) with true by lia.
  replace (0 <? n / 128 / 128 / 128 / 128) with false by lia. cbn [bind].
  replace (n / 128 / 128 / 128) with (n / 2097152) by lia.
  replace (n / 128 / 128) with (n / 16384) by lia.
  replace ((n / 2097152) mod 128) with (n / 2097152) by lia. reflexivity.
Qed.

(** one step of [vlen_go] on a continuation byte / on a final byte *)
Lemma vlen_go_cont : forall d r acc ll shift, d < 128 -> shift + 7 <= 21 ->
  vlen_go ((d + 128) :: r) acc ll shift = vlen_go r (acc + d * 2 ^ shift) (ll + 1) (shift + 7).
Proof.
  intros d r acc ll shift Hd Hs. cbn [vlen_go].
  rewrite land_128 by lia. replace (d + 128 <? 128) with false by lia.
  replace (21 <? shift + 7) with false by lia.
  rewrite land_127 by lia. rewrite N.shiftl_mul_pow2.
  replace ((d + 128) mod 128) with d by lia. reflexivity.
Qed.

Lemma vlen_go_last : forall d r acc ll shift, d < 128 ->
  vlen_go (d :: r) acc ll shift = Ok (ll + 1, acc + d * 2 ^ shift).
Proof.
  intros d r acc ll shift Hd. cbn [vlen_go].
  rewrite land_128 by lia. replace (d <? 128) with true by lia.
  rewrite land_127 by lia. rewrite N.shiftl_mul_pow2.
  replace (d mod 128) with d by lia. reflexivity.
Qed.

(** C04: the remaining-length codec round trip *)
Lemma length_write_remaining : forall n r, n <= 268435455 ->
  exists bs, write_remaining_length n = Ok bs /\ len bs = len_len n /\
             vlen (bs ++ r) = Ok (len_len n, n).
Proof.
  intros n r H. unfold len_len, vlen.
  destruct (2097152 <=? n) eqn:E4; [| destruct (16384 <=? n) eqn:E3; [| destruct (128 <=? n) eqn:E2]].
  - eexists. split; [apply wrl_4; lia |]. split; [reflexivity |]. cbn [app].
    rewrite vlen_go_cont by lia. rewrite vlen_go_cont by lia. rewrite vlen_go_cont by lia.
    rewrite vlen_go_last by lia. f_equal. f_equal. change (2 ^ 0) with 1. change (2 ^ (0 + 7)) with 128.
    change (2 ^ (0 + 7 + 7)) with 16384. change (2 ^ (0 + 7 + 7 + 7)) with 2097152. lia.
  - eexists. split; [apply wrl_3; lia |]. split; [reflexivity |]. cbn [app].
    rewrite vlen_go_cont by lia. rewrite vlen_go_cont by lia.
    rewrite vlen_go_last by lia. f_equal. f_equal. change (2 ^ 0) with 1. change (2 ^ (0 + 7)) with 128.
    change (2 ^ (0 + 7 + 7)) with 16384. lia.
  - eexists. split; [apply wrl_2; lia |]. split; [reflexivity |]. cbn [app].
    rewrite vlen_go_cont by lia. rewrite vlen_go_last by lia. f_equal. f_equal.
    change (2 ^ 0) with 1. change (2 ^ (0 + 7)) with 128. lia.
  - eexists. split; [apply wrl_1; lia |]. split; [reflexivity |]. cbn [app].
    rewrite vlen_go_last by lia. f_equal. f_equal. change (2 ^ 0) with 1. lia.
Qed.

Lemma write_remaining_length_too_long : forall n, 268435455 < n ->
  write_remaining_length n = Err PayloadTooLong.
Proof. intros n H. unfold write_remaining_length, MAX_REMAINING. replace (268435455 <? n) with true by lia. reflexivity. Qed.

(** the loop of write_remaining_length terminates within its fuel: OutOfFuel is unreachable *)
Lemma write_remaining_length_no_out_of_fuel : forall n, write_remaining_length n <> Err OutOfFuel.
Proof.
  intros n H. destruct (N.le_gt_cases n 268435455) as [Hn | Hn].
  - destruct (length_write_remaining n [] Hn) as (bs & Hw & _). rewrite Hw in H. discriminate.
  - rewrite write_remaining_length_too_long in H by lia. discriminate.
Qed.

Lemma len_len_boundaries :
  len_len 0 = 1 /\ len_len 127 = 1 /\ len_len 128 = 2 /\ len_len 16383 = 2 /\ len_len 16384 = 3 /\
  len_len 2097151 = 3 /\ len_len 2097152 = 4 /\ len_len 268435455 = 4.
Proof. vm_compute. repeat split. Qed.

Lemma len_len_range : forall n, 1 <= len_len n <= 4.
Proof.
  intros n. unfold len_len.
  destruct (2097152 <=? n); [lia |]. destruct (16384 <=? n); [lia |]. destruct (128 <=? n); lia.
Qed.

(** the bytes produced are bytes *)
Lemma wrl_bytes : forall n bs, write_remaining_length n = Ok bs -> Forall (fun b => b < 256) bs.
Proof.
  intros n bs H.
  destruct (N.le_gt_cases n 268435455) as [Hn | Hn].
  2:{ rewrite write_remaining_length_too_long in H by lia. discriminate. }
  destruct (N.lt_ge_cases n 128) as [H1 | H1].
  { rewrite wrl_1 in H by lia. inversion H; subst. repeat constructor. lia. }
  destruct (N.lt_ge_cases n 16384) as [H2 | H2].
  { rewrite wrl_2 in H by lia. inversion H; subst. repeat constructor; lia. }
  destruct (N.lt_ge_cases n 2097152) as [H3 | H3].
  { rewrite wrl_3 in H by lia. inversion H; subst. repeat constructor; lia. }
  rewrite wrl_4 in H by lia. inversion H; subst. repeat constructor; lia.
Qed.

(* ------------------------------------------------------------------ fixed header of an encoded packet *)

(** what every encoder produces: byte1, remaining length, body of that length *)
Lemma check_encoded : forall b1 n body rest max bs,
  write_remaining_length n = Ok bs -> len body = n -> n <= max ->
  check (b1 :: bs ++ body ++ rest) max = Ok (FixedHeader b1 (len_len n + 1) n).
Proof.
  intros b1 n body rest max bs Hw Hb Hm.
  assert (Hn : n <= 268435455).
  { destruct (N.le_gt_cases n 268435455) as [Hn | Hn]; [exact Hn |].
    rewrite write_remaining_length_too_long in Hw by lia. discriminate. }
  destruct (length_write_remaining n (body ++ rest) Hn) as (bs' & Hw' & Hl & Hv).
  rewrite Hw in Hw'. inversion Hw'; subst bs'.
  pose proof (len_len_range n) as Hr.
  unfold check, parse_fixed_header. rewrite len_cons, !len_app, Hl.
  replace (1 + (len_len n + (len body + len rest)) <? 2) with false by lia.
  rewrite Hv. cbn [bind remaining_len]. unfold frame_length. cbn [remaining_len fixed_header_len].
  replace (max <? n) with false by lia.
  replace (1 + (len_len n + (len body + len rest)) <? len_len n + 1 + n) with false by lia.
  reflexivity.
Qed.

Lemma split_encoded : forall b1 (bs body rest : list N),
  split_to (len (b1 :: bs ++ body)) (b1 :: bs ++ body ++ rest) = Ok (b1 :: bs ++ body, rest).
Proof.
  intros. replace (b1 :: bs ++ body ++ rest) with ((b1 :: bs ++ body) ++ rest).
  - apply split_to_app.
  - cbn [app]. rewrite <- app_assoc. reflexivity.
Qed.

Lemma advance_encoded : forall b1 (bs body : list N),
  advance (len bs + 1) (b1 :: bs ++ body) = Ok body.
Proof.
  intros. replace (len bs + 1) with (len (b1 :: bs)) by (rewrite len_cons; lia).
  replace (b1 :: bs ++ body) with ((b1 :: bs) ++ body) by reflexivity. apply advance_app.
Qed.

(** framing of an encoded packet: [read_framed] hands the body decoder exactly the frame *)
Lemma read_framed_encoded : forall {P} (bodyf : fixed_header -> list N -> R P) b1 n body rest max bs,
  write_remaining_length n = Ok bs -> len body = n -> n <= max ->
  read_framed bodyf (b1 :: bs ++ body ++ rest) max =
  match bodyf (FixedHeader b1 (len_len n + 1) n) (b1 :: bs ++ body) with
  | Ok p => Packet p rest
  | Err (InsufficientBytes k) => NeedMore k
  | Err e => Malformed e rest
  | Panic t => RPanic t
  end.
Proof.
  intros P bodyf b1 n body rest max bs Hw Hb Hm. unfold read_framed.
  rewrite (check_encoded b1 n body rest max bs Hw Hb Hm).
  assert (Hn : n <= 268435455).
  { destruct (N.le_gt_cases n 268435455) as [Hn | Hn]; [exact Hn |].
    rewrite write_remaining_length_too_long in Hw by lia. discriminate. }
  destruct (length_write_remaining n [] Hn) as (bs' & Hw' & Hl & _).
  rewrite Hw in Hw'. inversion Hw'; subst bs'.
  unfold frame_length. cbn [fixed_header_len remaining_len].
  replace (len_len n + 1 + n) with (len (b1 :: bs ++ body)) by (rewrite len_cons, len_app; lia).
  rewrite split_encoded. reflexivity.
Qed.
