(** C04 for MQTT 3.1.1: round trip of every packet type, both flavours; interoperability. *)
From Rumqtt Require Import Codec.Wire Codec.V4 Codec.WireProofs.
From Coq Require Import ZArith ZifyBool ZifyN ZifyNat Lia.

Ltac Zify.zify_post_hook ::= Z.div_mod_to_equations.

Ltac split_andb :=
  repeat match goal with
         | H : _ && _ = true |- _ => apply andb_prop in H; destruct H
         end.

(* ------------------------------------------------------------------ generic *)

Lemma write_reduce : forall fl maxo p, repr fl p = true -> (fl = Client -> size fl p <= maxo) ->
  write fl maxo p = write_body fl p.
Proof.
  intros fl maxo p Hr Hm. unfold write. rewrite Hr. cbn [negb].
  destruct fl; [| reflexivity]. specialize (Hm eq_refl).
  replace (maxo <? size Client p) with false by lia. reflexivity.
Qed.

(** what the round trip theorem says about one packet, in terms of [write_body] *)
Definition rt_ok (fl : flavour) (p : packet) : Prop :=
  exists bs, write_body fl p = Ok (bs, size fl p) /\ len bs = size fl p /\
    forall max rest, plen fl p <= max -> read fl (bs ++ rest) max = Packet (norm p) rest.

Lemma with_header_rt : forall fl b1 n body q,
  n <= 268435455 -> len body = n ->
  (forall bs, write_remaining_length n = Ok bs -> len bs = len_len n ->
     read_body fl (FixedHeader b1 (len_len n + 1) n) (b1 :: bs ++ body) = Ok q) ->
  exists bs, with_header b1 n body = Ok (bs, 1 + len_len n + n) /\ len bs = 1 + len_len n + n /\
     forall max rest, n <= max -> read fl (bs ++ rest) max = Packet q rest.
Proof.
  intros fl b1 n body q Hn Hb Hread.
  destruct (length_write_remaining n [] Hn) as (bs & Hw & Hl & _).
  exists (b1 :: bs ++ body). unfold with_header. rewrite Hw. cbn [bind]. rewrite Hl.
  split; [reflexivity |]. split.
  - rewrite len_cons, len_app. lia.
  - intros max rest Hm. unfold read. cbn [app]. rewrite <- app_assoc.
    rewrite (read_framed_encoded (read_body fl) b1 n body rest max bs Hw Hb Hm).
    rewrite (Hread bs Hw Hl). reflexivity.
Qed.

Lemma u16_ok_lt : forall n, u16_ok n = true -> n < 65536.
Proof. unfold u16_ok. intros. lia. Qed.

Lemma str_ok_len : forall s, str_ok s = true -> len s <= 65535.
Proof. unfold str_ok. intros s H. split_andb. lia. Qed.

(* ------------------------------------------------------------------ acks *)

Lemma ack_body : forall mk b1 bs pkid, pkid < 65536 ->
  ack_read mk (FixedHeader b1 (len bs + 1) 2) (b1 :: bs ++ u16_be pkid) = Ok (mk pkid 0).
Proof.
  intros mk b1 bs pkid H. unfold ack_read. cbn [fixed_header_len]. rewrite advance_encoded. cbn [bind].
  rewrite <- (app_nil_r (u16_be pkid)). rewrite read_u16_u16_be by exact H. reflexivity.
Qed.

Lemma rt_puback : forall fl pkid r, wf_v4 fl (PubAck pkid r) = true -> rt_ok fl (PubAck pkid r).
Proof.
  intros fl pkid r Hwf. unfold wf_v4 in Hwf. split_andb.
  destruct (with_header_rt fl 64 2 (u16_be pkid) (PubAck pkid 0)) as (bs & Hw & Hl & Hr); [lia | reflexivity | |].
  - intros bs Hw Hl. unfold read_body. change (packet_type _) with (@Ok err N 4). cbn [bind remaining_len].
    change (2 =? 0) with false. cbv iota. rewrite <- Hl. unfold puback_read. destruct fl.
    + apply ack_body. apply u16_ok_lt. assumption.
    + cbn [fixed_header_len remaining_len]. rewrite advance_encoded. cbn [bind].
      change (negb (2 =? 2)) with false. cbv iota.
      rewrite <- (app_nil_r (u16_be pkid)). rewrite read_u16_u16_be by (apply u16_ok_lt; assumption). reflexivity.
  - exists bs. split; [exact Hw |]. split; [exact Hl |]. intros max rest Hm. apply Hr. exact Hm.
Qed.

Ltac rt_ack b1 tyv mk :=
  let fl := fresh "fl" in let pkid := fresh "pkid" in let r := fresh "r" in let Hwf := fresh "Hwf" in
  intros fl pkid r Hwf; unfold wf_v4 in Hwf; split_andb;
  let bs := fresh "bs" in let Hw := fresh "Hw" in let Hl := fresh "Hl" in let Hr := fresh "Hr" in
  destruct (with_header_rt fl b1 2 (u16_be pkid) (mk pkid 0)) as (bs & Hw & Hl & Hr);
  [ lia | reflexivity
  | intros bs Hw Hl; unfold read_body; change (packet_type _) with (@Ok err N tyv); cbn [bind remaining_len];
    change (2 =? 0) with false; cbv iota; rewrite <- Hl; apply ack_body; apply u16_ok_lt; assumption
  | exists bs; split; [exact Hw |]; split; [exact Hl |]; intros max rest Hm; apply Hr; exact Hm ].

Lemma rt_pubrec : forall fl pkid r, wf_v4 fl (PubRec pkid r) = true -> rt_ok fl (PubRec pkid r).
Proof. rt_ack 80 5 PubRec. Qed.
Lemma rt_pubrel : forall fl pkid r, wf_v4 fl (PubRel pkid r) = true -> rt_ok fl (PubRel pkid r).
Proof. rt_ack 98 6 PubRel. Qed.
Lemma rt_pubcomp : forall fl pkid r, wf_v4 fl (PubComp pkid r) = true -> rt_ok fl (PubComp pkid r).
Proof. rt_ack 112 7 PubComp. Qed.

(* ------------------------------------------------------------------ 2-byte packets, unsuback, connack *)

Lemma wrl_0 : write_remaining_length 0 = Ok [0].
Proof. apply wrl_1. lia. Qed.

Lemma rt_empty : forall fl b1 q,
  read_body fl (FixedHeader b1 (len_len 0 + 1) 0) [b1; 0] = Ok q ->
  forall max rest, read fl ([b1; 0] ++ rest) max = Packet q rest.
Proof.
  intros fl b1 q H max rest. unfold read.
  change ([b1; 0] ++ rest) with (b1 :: [0] ++ [] ++ rest).
  rewrite (read_framed_encoded (read_body fl) b1 0 [] rest max [0] wrl_0 eq_refl) by lia.
  cbn [app]. rewrite H. reflexivity.
Qed.

Lemma rt_pingreq : forall fl, rt_ok fl PingReq.
Proof.
  intros fl. exists [192; 0]. split; [reflexivity |]. split; [reflexivity |].
  intros max rest _. apply rt_empty. reflexivity.
Qed.

Lemma rt_pingresp : forall fl, rt_ok fl PingResp.
Proof.
  intros fl. exists [208; 0]. split; [reflexivity |]. split; [reflexivity |].
  intros max rest _. apply rt_empty. reflexivity.
Qed.

Lemma rt_disconnect : forall fl r, rt_ok fl (Disconnect r).
Proof.
  intros fl r. exists [224; 0]. split; [reflexivity |]. split; [reflexivity |].
  intros max rest _. apply rt_empty. reflexivity.
Qed.

Lemma wrl_2' : write_remaining_length 2 = Ok [2].
Proof. apply wrl_1. lia. Qed.

Lemma rt_unsuback : forall fl pkid rs, wf_v4 fl (UnsubAck pkid rs) = true -> rt_ok fl (UnsubAck pkid rs).
Proof.
  intros fl pkid rs Hwf. unfold wf_v4 in Hwf. split_andb.
  exists ([176; 2] ++ u16_be pkid). split; [reflexivity |]. split; [reflexivity |].
  intros max rest Hm. cbn [plen] in Hm. unfold read.
  change (([176; 2] ++ u16_be pkid) ++ rest) with (176 :: [2] ++ u16_be pkid ++ rest).
  rewrite (read_framed_encoded (read_body fl) 176 2 (u16_be pkid) rest max [2] wrl_2' eq_refl Hm).
  unfold read_body. change (packet_type _) with (@Ok err N 11). cbn [bind remaining_len].
  change (2 =? 0) with false. cbv iota. unfold unsuback_read. cbn [remaining_len fixed_header_len].
  change (negb (2 =? 2)) with false. cbv iota.
  change (len_len 2 + 1) with (len [2] + 1). rewrite advance_encoded. cbn [bind].
  rewrite <- (app_nil_r (u16_be pkid)). rewrite read_u16_u16_be by (apply u16_ok_lt; assumption). reflexivity.
Qed.

Lemma rt_connack : forall fl sp code, wf_v4 fl (ConnAck sp code) = true -> rt_ok fl (ConnAck sp code).
Proof.
  intros fl sp code Hwf. unfold wf_v4 in Hwf. split_andb.
  assert (Hc : code < 6) by lia.
  exists (32 :: [2] ++ [b2n sp; code]). split.
  { cbn [write_body]. rewrite wrl_2'. cbn [bind]. replace (5 <? code) with false by lia. reflexivity. }
  split; [reflexivity |].
  intros max rest Hm. cbn [plen] in Hm. unfold read.
  change ((32 :: [2] ++ [b2n sp; code]) ++ rest) with (32 :: [2] ++ [b2n sp; code] ++ rest).
  rewrite (read_framed_encoded (read_body fl) 32 2 [b2n sp; code] rest max [2] wrl_2' eq_refl Hm).
  unfold read_body. change (packet_type _) with (@Ok err N 2). cbn [bind remaining_len].
  change (2 =? 0) with false. cbv iota. unfold connack_read. cbn [fixed_header_len].
  change (len_len 2 + 1) with (len [2] + 1). rewrite advance_encoded. cbn [bind].
  rewrite !read_u8_cons. cbn [bind]. rewrite read_u8_cons. cbn [bind].
  replace (code <? 6) with true by lia.
  destruct sp; reflexivity.
Qed.

(* ------------------------------------------------------------------ publish *)

Lemma publish_flags : forall dup q retain,
  let b1 := N.lor (N.lor (N.lor 48 (b2n retain)) (N.shiftl (qos_num q) 1)) (N.shiftl (b2n dup) 3) in
  (forall a b, packet_type (FixedHeader b1 a b) = Ok 3) /\
  qos_of (N.shiftr (N.land b1 6) 1) = Ok q /\ bit b1 8 = dup /\ bit b1 1 = retain.
Proof. intros dup q retain. destruct dup, q, retain; vm_compute; repeat split. Qed.

Lemma read_topic_write : forall fl topic r, len topic <= 65535 ->
  (fl = Client -> utf8_valid topic = true) ->
  read_topic fl (write_mqtt_bytes topic ++ r) = Ok (topic, r).
Proof.
  intros fl topic r Hl Hu. destruct fl; cbn [read_topic].
  - apply read_mqtt_string_write; [exact Hl | apply Hu; reflexivity].
  - apply read_mqtt_bytes_write. exact Hl.
Qed.

Lemma rt_publish : forall fl dup q retain topic pkid payload,
  wf_v4 fl (Publish dup q retain topic pkid payload) = true ->
  rt_ok fl (Publish dup q retain topic pkid payload).
Proof.
  intros fl dup q retain topic pkid payload Hwf. unfold wf_v4 in Hwf. split_andb.
  match goal with H : (plen _ _ <=? MAX_REMAINING) = true |- _ => rename H into Hlen end.
  match goal with H : str_ok topic = true |- _ => rename H into Htopic end.
  match goal with H : repr _ _ = true |- _ => rename H into Hrepr end.
  match goal with H : u16_ok pkid = true |- _ => rename H into Hpk end.
  match goal with H : (if is_qos0 q then _ else _) = true |- _ => rename H into Hq end.
  cbn [plen] in Hlen. unfold MAX_REMAINING in Hlen.
  pose proof (str_ok_len _ Htopic) as Htl. apply u16_ok_lt in Hpk.
  set (tail := if is_qos0 q then payload else u16_be pkid ++ payload).
  set (n := publish_len fl q topic pkid payload) in *.
  assert (Hn : len (write_mqtt_bytes topic ++ tail) = n).
  { rewrite len_app, len_write_mqtt_bytes. subst tail n. unfold publish_len.
    destruct fl, (is_qos0 q) eqn:Eq; cbn [negb andb]; try rewrite len_app, len_u16_be; try lia.
    replace (pkid =? 0) with false by lia. cbn [negb]. lia. }
  set (b1 := N.lor (N.lor (N.lor 48 (b2n retain)) (N.shiftl (qos_num q) 1)) (N.shiftl (b2n dup) 3)).
  destruct (publish_flags dup q retain) as (Hty & Hqos & Hdup & Hret). fold b1 in Hty, Hqos, Hdup, Hret.
  destruct (with_header_rt fl b1 n (write_mqtt_bytes topic ++ tail) (Publish dup q retain topic pkid payload))
    as (bs & Hw & Hl & Hr); [lia | exact Hn | |].
  - intros bs Hw Hl. unfold read_body. rewrite Hty. cbn [bind remaining_len].
    replace (n =? 0) with false by (rewrite <- Hn, len_app, len_write_mqtt_bytes; lia). cbv iota.
    unfold publish_read. cbn [byte1 fixed_header_len]. rewrite Hqos, Hdup, Hret. cbn [bind].
    rewrite <- Hl. rewrite advance_encoded. cbn [bind].
    rewrite read_topic_write; [| exact Htl |].
    2:{ intros ->. cbn [repr] in Hrepr. exact Hrepr. }
    cbn [bind]. subst tail. destruct (is_qos0 q) eqn:Eq.
    + cbn [bind negb andb]. replace pkid with 0 by lia. reflexivity.
    + rewrite read_u16_u16_be by exact Hpk. cbn [bind negb andb].
      replace (pkid =? 0) with false by lia. reflexivity.
  - exists bs. split.
    + cbn [write_body]. unfold publish_write. fold n. fold b1. unfold with_header in Hw.
      destruct (write_remaining_length n) as [rl | e | t]; cbn [bind] in Hw |- *; try discriminate.
      subst tail. cbn [size plen]. fold n. destruct (is_qos0 q) eqn:Eq.
      * cbn [bind]. injection Hw as Hbs Hsz. rewrite <- Hbs, Hsz. reflexivity.
      * replace (pkid =? 0) with false by lia. cbn [bind]. injection Hw as Hbs Hsz. rewrite <- Hbs, Hsz. reflexivity.
    + split; [exact Hl |]. intros max rest Hm. apply Hr. exact Hm.
Qed.

(* ------------------------------------------------------------------ subscribe *)

Lemma read_str_write : forall fl s r, len s <= 65535 -> utf8_valid s = true ->
  read_str fl (write_mqtt_string s ++ r) = Ok (s, r).
Proof.
  intros fl s r Hl Hu. destruct fl; cbn [read_str].
  - apply read_mqtt_string_write; assumption.
  - unfold write_mqtt_string. rewrite read_mqtt_bytes_write by exact Hl. cbn [bind].
    unfold utf8_check. cbn [fst]. rewrite Hu. reflexivity.
Qed.

Lemma qos_opt : forall q, qos_of (N.land (N.lor 0 (qos_num q)) 3) = Ok q.
Proof. destruct q; reflexivity. Qed.

Definition norm_filter (f : filter) : filter := Filter (f_path f) (f_qos f) 0.

Lemma filter_bytes_length : forall f, (3 <= length (filter_bytes f))%nat.
Proof.
  intros f. unfold filter_bytes, write_mqtt_string, write_mqtt_bytes, u16_be.
  rewrite !app_length. cbn [length]. lia.
Qed.

Lemma filters_read_S : forall fl fuel s, is_empty s = false ->
  filters_read fl (S fuel) s =
  (do (path, s1) <- read_str fl s;
   do (options, s2) <- read_u8 s1;
   do q <- qos_of (N.land options 3);
   do r <- filters_read fl fuel s2;
   Ok (Filter path q 0 :: r)).
Proof. intros fl fuel s H. cbn [filters_read]. rewrite H. reflexivity. Qed.

Lemma filters_read_ok : forall fl fs fuel,
  forallb (repr_filter fl) fs = true -> forallb (fun f => str_ok (f_path f)) fs = true ->
  (length (flat_map filter_bytes fs) <= fuel)%nat ->
  filters_read fl fuel (flat_map filter_bytes fs) = Ok (map norm_filter fs).
Proof.
  intros fl fs. induction fs as [| f fs IH]; intros fuel Hr Hs Hf.
  - destruct fuel; reflexivity.
  - cbn [forallb] in Hr, Hs. split_andb. cbn [flat_map] in Hf |- *.
    rewrite app_length in Hf. pose proof (filter_bytes_length f) as H3.
    destruct fuel as [| fuel]; [lia |].
    rewrite filters_read_S.
    2:{ unfold filter_bytes, write_mqtt_string, write_mqtt_bytes, u16_be. reflexivity. }
    unfold filter_bytes at 1. rewrite <- app_assoc.
    match goal with H : repr_filter fl f = true |- _ => unfold repr_filter in H; apply andb_prop in H; destruct H as [Hu _] end.
    rewrite read_str_write; [| apply str_ok_len; assumption | exact Hu].
    cbn [bind app]. rewrite read_u8_cons. cbn [bind]. rewrite qos_opt. cbn [bind].
    rewrite IH; [reflexivity | assumption | assumption |].
    lia.
Qed.

Lemma len_flat_map_filters : forall fs, len (flat_map filter_bytes fs) = sum_map filter_len fs.
Proof.
  induction fs as [| f fs IH]; [reflexivity |].
  cbn [flat_map sum_map]. rewrite len_app, IH. unfold filter_bytes, filter_len, write_mqtt_string.
  rewrite len_app, len_write_mqtt_bytes. change (len [_]) with 1. lia.
Qed.

Lemma rt_subscribe : forall fl pkid fs, wf_v4 fl (Subscribe pkid fs) = true -> rt_ok fl (Subscribe pkid fs).
Proof.
  intros fl pkid fs Hwf. unfold wf_v4 in Hwf. split_andb.
  match goal with H : (plen _ _ <=? MAX_REMAINING) = true |- _ => rename H into Hlen end.
  match goal with H : repr _ _ = true |- _ => rename H into Hrepr end.
  match goal with H : u16_ok pkid = true |- _ => rename H into Hpk end.
  match goal with H : negb (nil_b fs) = true |- _ => rename H into Hne end.
  cbn [repr] in Hrepr. unfold MAX_REMAINING in Hlen. apply u16_ok_lt in Hpk.
  set (n := plen fl (Subscribe pkid fs)) in *.
  assert (Hn : len (u16_be pkid ++ flat_map filter_bytes fs) = n).
  { rewrite len_app, len_u16_be, len_flat_map_filters. reflexivity. }
  destruct (with_header_rt fl 130 n (u16_be pkid ++ flat_map filter_bytes fs) (norm (Subscribe pkid fs)))
    as (bs & Hw & Hl & Hr); [lia | exact Hn | |].
  - intros bs Hw Hl. unfold read_body. change (packet_type _) with (@Ok err N 8). cbn [bind remaining_len].
    replace (n =? 0) with false by (subst n; cbn [plen]; lia). cbv iota.
    unfold subscribe_read. cbn [fixed_header_len]. rewrite <- Hl, advance_encoded. cbn [bind].
    rewrite read_u16_u16_be by exact Hpk. cbn [bind].
    rewrite filters_read_ok; [| assumption | assumption | lia].
    cbn [bind norm]. destruct fs; [discriminate | reflexivity].
  - exists bs. split; [| split; [exact Hl | exact Hr]].
    cbn [write_body size]. exact Hw.
Qed.

(* ------------------------------------------------------------------ suback *)

Lemma codes_read_ok : forall cs, forallb rc_decodable cs = true ->
  codes_read (map rc_code cs) = Ok (map norm_rc cs).
Proof.
  induction cs as [| c cs IH]; intros H; [reflexivity |].
  cbn [forallb] in H. split_andb. cbn [map codes_read].
  assert (Hc : rc_reason (rc_code c) = Ok (norm_rc c)).
  { destruct c as [q | | q | | b]; try destruct q; try reflexivity. discriminate. }
  rewrite Hc. cbn [bind]. rewrite IH by assumption. reflexivity.
Qed.

Lemma rt_suback : forall fl pkid cs, wf_v4 fl (SubAck pkid cs) = true -> rt_ok fl (SubAck pkid cs).
Proof.
  intros fl pkid cs Hwf. unfold wf_v4 in Hwf. split_andb.
  match goal with H : (plen _ _ <=? MAX_REMAINING) = true |- _ => rename H into Hlen end.
  match goal with H : u16_ok pkid = true |- _ => rename H into Hpk end.
  match goal with H : negb (nil_b cs) = true |- _ => rename H into Hne end.
  unfold MAX_REMAINING in Hlen. apply u16_ok_lt in Hpk.
  set (n := plen fl (SubAck pkid cs)) in *.
  assert (Hn : len (u16_be pkid ++ map rc_code cs) = n).
  { rewrite len_app, len_u16_be. reflexivity. }
  destruct (with_header_rt fl 144 n (u16_be pkid ++ map rc_code cs) (norm (SubAck pkid cs)))
    as (bs & Hw & Hl & Hr); [lia | exact Hn | |].
  - intros bs Hw Hl. unfold read_body. change (packet_type _) with (@Ok err N 9). cbn [bind remaining_len].
    replace (n =? 0) with false by (subst n; cbn [plen]; lia). cbv iota.
    unfold suback_read. cbn [fixed_header_len]. rewrite <- Hl, advance_encoded. cbn [bind].
    rewrite read_u16_u16_be by exact Hpk. cbn [bind].
    destruct cs as [| c cs]; [discriminate |]. cbn [map is_empty].
    change (rc_code c :: map rc_code cs) with (map rc_code (c :: cs)).
    rewrite codes_read_ok by assumption. reflexivity.
  - exists bs. split; [| split; [exact Hl | exact Hr]].
    cbn [write_body size]. exact Hw.
Qed.

(* ------------------------------------------------------------------ unsubscribe *)

Lemma topics_read_ok : forall ts fuel,
  forallb utf8_valid ts = true -> forallb str_ok ts = true ->
  (length (flat_map write_mqtt_string ts) < fuel)%nat ->
  topics_read fuel (sum_map (fun t => len t + 2) ts) (flat_map write_mqtt_string ts) = Ok ts.
Proof.
  induction ts as [| t ts IH]; intros fuel Hu Hs Hf.
  - destruct fuel; reflexivity.
  - cbn [forallb] in Hu, Hs. split_andb. cbn [flat_map sum_map] in Hf |- *.
    rewrite app_length in Hf.
    destruct fuel as [| fuel]; [lia |]. cbn [topics_read].
    replace (len t + 2 + sum_map (fun t0 : list N => len t0 + 2) ts =? 0) with false by lia.
    rewrite read_mqtt_string_write; [| apply str_ok_len; assumption | assumption].
    cbn [bind]. unfold sub.
    replace (len t + 2 <=? len t + 2 + sum_map (fun t0 : list N => len t0 + 2) ts) with true by lia.
    cbn [bind].
    replace (len t + 2 + sum_map (fun t0 : list N => len t0 + 2) ts - (len t + 2))
      with (sum_map (fun t0 : list N => len t0 + 2) ts) by lia.
    rewrite IH; [reflexivity | assumption | assumption |].
    assert (2 <= length (write_mqtt_string t))%nat.
    { unfold write_mqtt_string, write_mqtt_bytes, u16_be. rewrite app_length. cbn [length]. lia. }
    lia.
Qed.

Lemma len_flat_map_topics : forall ts,
  len (flat_map write_mqtt_string ts) = sum_map (fun t => len t + 2) ts.
Proof.
  induction ts as [| t ts IH]; [reflexivity |].
  cbn [flat_map sum_map]. rewrite len_app, IH. unfold write_mqtt_string. rewrite len_write_mqtt_bytes. lia.
Qed.

Lemma rt_unsubscribe : forall fl pkid ts, wf_v4 fl (Unsubscribe pkid ts) = true -> rt_ok fl (Unsubscribe pkid ts).
Proof.
  intros fl pkid ts Hwf. unfold wf_v4 in Hwf. split_andb.
  match goal with H : (plen _ _ <=? MAX_REMAINING) = true |- _ => rename H into Hlen end.
  match goal with H : repr _ _ = true |- _ => rename H into Hrepr end.
  match goal with H : u16_ok pkid = true |- _ => rename H into Hpk end.
  cbn [repr] in Hrepr. unfold MAX_REMAINING in Hlen. apply u16_ok_lt in Hpk.
  set (n := plen fl (Unsubscribe pkid ts)) in *.
  assert (Hn : len (u16_be pkid ++ flat_map write_mqtt_string ts) = n).
  { rewrite len_app, len_u16_be, len_flat_map_topics. reflexivity. }
  destruct (with_header_rt fl 162 n (u16_be pkid ++ flat_map write_mqtt_string ts) (Unsubscribe pkid ts))
    as (bs & Hw & Hl & Hr); [lia | exact Hn | |].
  - intros bs Hw Hl. unfold read_body. change (packet_type _) with (@Ok err N 10). cbn [bind remaining_len].
    replace (n =? 0) with false by (subst n; cbn [plen]; lia). cbv iota.
    unfold unsubscribe_read. cbn [fixed_header_len remaining_len]. rewrite <- Hl, advance_encoded. cbn [bind].
    rewrite read_u16_u16_be by exact Hpk. cbn [bind]. unfold sub.
    replace (2 <=? n) with true by (subst n; cbn [plen]; lia). cbn [bind].
    replace (n - 2) with (sum_map (fun t => len t + 2) ts) by (subst n; cbn [plen]; lia).
    rewrite topics_read_ok; [reflexivity | assumption | assumption | lia].
  - exists bs. split; [| split; [exact Hl | exact Hr]].
    cbn [write_body size]. exact Hw.
Qed.

(* ------------------------------------------------------------------ connect *)

Definition cflags (clean : bool) (w : option (qos * bool)) (l : option (bool * bool)) : N :=
  let f0 := if clean then 2 else 0 in
  let f1 := match w with
            | Some (q, r) => N.lor f0 (let f := N.lor 4 (N.shiftl (qos_num q) 3) in if r then N.lor f 32 else f)
            | None => f0
            end in
  match l with
  | Some (ue, pe) => N.lor f1 (N.lor (if ue then 0 else 128) (if pe then 0 else 64))
  | None => f1
  end.

Lemma cflags_facts : forall clean w l, let f := cflags clean w l in
  bit f 2 = clean /\
  (N.land f 4 =? 0) = (match w with None => true | Some _ => false end) /\
  (w = None -> (N.land f 56 =? 0) = true) /\
  (forall q r, w = Some (q, r) -> qos_of (N.shiftr (N.land f 24) 3) = Ok q /\ bit f 32 = r) /\
  (N.land f 128 =? 0) = (match l with None => true | Some (ue, _) => ue end) /\
  (N.land f 64 =? 0) = (match l with None => true | Some (_, pe) => pe end).
Proof.
  intros clean w l f. subst f.
  repeat match goal with |- _ /\ _ => split end.
  - destruct clean, w as [[[| |] []] |], l as [[[] []] |]; reflexivity.
  - destruct clean, w as [[[| |] []] |], l as [[[] []] |]; reflexivity.
  - intros ->. destruct clean, l as [[[] []] |]; reflexivity.
  - intros q r ->. destruct clean, q, r, l as [[[] []] |]; split; reflexivity.
  - destruct clean, w as [[[| |] []] |], l as [[[] []] |]; reflexivity.
  - destruct clean, w as [[[| |] []] |], l as [[[] []] |]; reflexivity.
Qed.

Lemma set_index_at : forall pre x post v i, i = length pre ->
  set_index i v (pre ++ x :: post) = Ok (pre ++ v :: post).
Proof.
  induction pre as [| y pre IH]; intros x post v i ->.
  - reflexivity.
  - cbn [app length set_index]. rewrite IH by reflexivity. reflexivity.
Qed.

Lemma is_empty_true : forall l, is_empty l = true -> l = [].
Proof. intros [| x l] H; [reflexivity | discriminate]. Qed.

Definition will_bytes (w : option lastwill) : list N :=
  match w with Some w => write_mqtt_bytes (w_topic w) ++ write_mqtt_bytes (w_message w) | None => [] end.
Definition login_bytes_o (l : option login) : list N :=
  match l with Some l => login_bytes l | None => [] end.
Definition will_key (w : option lastwill) := option_map (fun w => (w_qos w, w_retain w)) w.
Definition login_key (l : option login) := option_map (fun l => (is_empty (l_username l), is_empty (l_password l))) l.

Definition connect_body (level f ka : N) (cid : list N) (w : option lastwill) (l : option login) : list N :=
  write_mqtt_string MQTT ++ [level] ++ [f] ++ u16_be ka ++ write_mqtt_string cid ++ will_bytes w ++ login_bytes_o l.

Lemma set_index_connect : forall rl level f0 v post,
  set_index (N.to_nat (1 + len rl + 2 + 4 + 1)) v (16 :: rl ++ write_mqtt_string MQTT ++ level :: f0 :: post)
  = Ok (16 :: rl ++ write_mqtt_string MQTT ++ level :: v :: post).
Proof.
  intros rl level f0 v post.
  replace (16 :: rl ++ write_mqtt_string MQTT ++ level :: f0 :: post)
    with ((16 :: rl ++ write_mqtt_string MQTT ++ [level]) ++ f0 :: post)
    by (cbn [app]; repeat rewrite <- app_assoc; reflexivity).
  rewrite set_index_at.
  - cbn [app]. repeat rewrite <- app_assoc. reflexivity.
  - cbn [length]. rewrite !app_length. change (length (write_mqtt_string MQTT)) with 6%nat. cbn [length].
    rewrite len_spec. lia.
Qed.

Lemma connect_write_eq : forall fl proto ka cid clean w l rl,
  write_remaining_length (connect_len (MkConnect proto ka cid clean w l)) = Ok rl ->
  connect_write fl (MkConnect proto ka cid clean w l) =
  Ok (16 :: rl ++ connect_body (match fl with Client => if proto =? 4 then 4 else 5 | Broker => 4 end)
                               (cflags clean (will_key w) (login_key l)) ka cid w l,
      1 + len rl + connect_len (MkConnect proto ka cid clean w l)).
Proof.
  intros fl proto ka cid clean w l rl Hw. unfold connect_write. rewrite Hw. cbn [bind].
  cbn [c_protocol c_keep_alive c_client_id c_clean_session c_last_will c_login].
  set (level := match fl with Client => if proto =? 4 then 4 else 5 | Broker => 4 end).
  set (f0 := if clean then 2 else 0).
  assert (Hflags : (match l with Some lg => N.lor (match w with Some w0 => N.lor f0 (will_flags w0) | None => f0 end) (login_flags lg)
                             | None => match w with Some w0 => N.lor f0 (will_flags w0) | None => f0 end end)
                   = cflags clean (will_key w) (login_key l)).
  { destruct w as [[t m q r] |], l as [[u p] |]; reflexivity. }
  unfold connect_body.
  destruct w as [w0 |], l as [lg |]; cbn [will_bytes login_bytes_o] in *; rewrite <- Hflags;
    cbn [app]; repeat rewrite <- app_assoc; cbn [app]; rewrite set_index_connect; cbn [bind]; try rewrite app_nil_r; reflexivity.
Qed.

Lemma len_connect_body : forall level f proto ka cid clean w l,
  len (connect_body level f ka cid w l) = connect_len (MkConnect proto ka cid clean w l).
Proof.
  intros. unfold connect_body, connect_len.
  cbn [c_protocol c_keep_alive c_client_id c_clean_session c_last_will c_login].
  rewrite !len_app. unfold write_mqtt_string. rewrite !len_write_mqtt_bytes, len_u16_be.
  change (len MQTT) with 4. change (len [level]) with 1. change (len [f]) with 1.
  destruct w as [w0 |], l as [lg |]; cbn [will_bytes login_bytes_o]; unfold will_len, login_len, login_bytes;
    rewrite ?len_app, ?len_write_mqtt_bytes, ?len_nil;
    try (destruct (is_empty (l_username lg)), (is_empty (l_password lg)); unfold write_mqtt_string;
         rewrite ?len_write_mqtt_bytes, ?len_nil); lia.
Qed.

Lemma will_read_ok : forall fl f w r,
  (N.land f 4 =? 0) = (match will_key w with None => true | Some _ => false end) ->
  (will_key w = None -> (N.land f 56 =? 0) = true) ->
  (forall q b, will_key w = Some (q, b) -> qos_of (N.shiftr (N.land f 24) 3) = Ok q /\ bit f 32 = b) ->
  wf_will w = true -> repr_will fl w = true ->
  will_read fl f (will_bytes w ++ r) = Ok (w, r).
Proof.
  intros fl f w r H4 H56 Hq Hwf Hrepr. unfold will_read. rewrite H4.
  destruct w as [[t m q b] |]; cbn [will_key option_map will_bytes w_topic w_message w_qos w_retain] in *.
  - unfold wf_will in Hwf. cbn [w_topic w_message] in Hwf. apply andb_prop in Hwf. destruct Hwf as [Ht Hm].
    rewrite <- app_assoc. rewrite read_topic_write; [| apply str_ok_len; exact Ht |].
    2:{ intros ->. exact Hrepr. }
    cbn [bind]. rewrite read_mqtt_bytes_write by (apply str_ok_len; exact Hm). cbn [bind].
    destruct (Hq q b eq_refl) as [Hq1 Hq2]. rewrite Hq1, Hq2. reflexivity.
  - rewrite (H56 eq_refl). reflexivity.
Qed.

Lemma login_read_ok : forall fl f l,
  (N.land f 128 =? 0) = (match login_key l with None => true | Some (ue, _) => ue end) ->
  (N.land f 64 =? 0) = (match login_key l with None => true | Some (_, pe) => pe end) ->
  wf_login l = true -> repr_login l = true ->
  exists r, login_read fl f (login_bytes_o l) = Ok (l, r).
Proof.
  intros fl f l H128 H64 Hwf Hrepr. unfold login_read. rewrite H128, H64.
  destruct l as [[u p] |]; cbn [login_key option_map login_bytes_o l_username l_password] in *.
  - unfold wf_login in Hwf. cbn [l_username l_password] in Hwf. split_andb.
    unfold repr_login in Hrepr. cbn [l_username l_password] in Hrepr. split_andb.
    unfold login_bytes. cbn [l_username l_password].
    destruct (is_empty u) eqn:Eu, (is_empty p) eqn:Ep; try discriminate.
    + apply is_empty_true in Eu. subst u. cbn [bind app].
      rewrite <- (app_nil_r (write_mqtt_string p)). rewrite read_str_write by (try apply str_ok_len; assumption).
      cbn [bind is_empty andb]. rewrite Ep. eexists. reflexivity.
    + apply is_empty_true in Ep. subst p.
      rewrite app_nil_r. rewrite <- (app_nil_r (write_mqtt_string u)). rewrite read_str_write by (try apply str_ok_len; assumption).
      cbn [bind]. rewrite Eu. cbn [andb]. eexists. reflexivity.
    + rewrite read_str_write by (try apply str_ok_len; assumption). cbn [bind].
      rewrite <- (app_nil_r (write_mqtt_string p)). rewrite read_str_write by (try apply str_ok_len; assumption).
      cbn [bind]. rewrite Eu. cbn [andb]. eexists. reflexivity.
  - cbn [bind is_empty andb]. eexists. reflexivity.
Qed.

Lemma utf8_MQTT : utf8_valid MQTT = true.
Proof. reflexivity. Qed.

Lemma rt_connect : forall fl c, wf_v4 fl (Connect c) = true -> rt_ok fl (Connect c).
Proof.
  intros fl [proto ka cid clean w l] Hwf. unfold wf_v4 in Hwf. split_andb.
  match goal with H : (plen _ _ <=? MAX_REMAINING) = true |- _ => rename H into Hlen end.
  match goal with H : repr _ _ = true |- _ => rename H into Hrepr end.
  cbn [c_protocol c_keep_alive c_client_id c_clean_session c_last_will c_login] in *.
  match goal with H : u16_ok ka = true |- _ => apply u16_ok_lt in H; rename H into Hka end.
  match goal with H : str_ok cid = true |- _ => rename H into Hcid end.
  match goal with H : wf_will w = true |- _ => rename H into Hww end.
  match goal with H : wf_login l = true |- _ => rename H into Hwl end.
  cbn [repr c_protocol c_client_id c_last_will c_login] in Hrepr. split_andb.
  match goal with H : utf8_valid cid = true |- _ => rename H into Hucid end.
  match goal with H : repr_will fl w = true |- _ => rename H into Hrw end.
  match goal with H : repr_login l = true |- _ => rename H into Hrl end.
  match goal with H : match fl with Client => _ | Broker => _ end = true |- _ => rename H into Hproto end.
  set (c := MkConnect proto ka cid clean w l) in *.
  cbn [plen] in Hlen. unfold MAX_REMAINING in Hlen.
  set (n := connect_len c) in *.
  set (level := match fl with Client => if proto =? 4 then 4 else 5 | Broker => 4 end).
  set (f := cflags clean (will_key w) (login_key l)).
  destruct (cflags_facts clean (will_key w) (login_key l)) as (Hf2 & Hf4 & Hf56 & Hfq & Hf128 & Hf64). fold f in Hf2, Hf4, Hf56, Hfq, Hf128, Hf64.
  assert (Hn : len (connect_body level f ka cid w l) = n) by (apply len_connect_body).
  destruct (login_read_ok fl f l Hf128 Hf64 Hwl Hrl) as (lr & Hlogin).
  destruct (with_header_rt fl 16 n (connect_body level f ka cid w l) (Connect c)) as (bs & Hw & Hl & Hr); [lia | exact Hn | |].
  - intros bs Hw Hl. unfold read_body. change (packet_type _) with (@Ok err N 1). cbn [bind remaining_len].
    replace (n =? 0) with false by (subst n; unfold connect_len; lia). cbv iota.
    unfold connect_read. cbn [fixed_header_len]. rewrite <- Hl, advance_encoded. cbn [bind].
    unfold connect_body. rewrite read_str_write; [| vm_compute; discriminate | exact utf8_MQTT].
    cbn [bind app]. rewrite read_u8_cons. cbn [bind]. change (str_eqb MQTT MQTT) with true. cbn [negb].
    assert (Hlev : (match fl with
                    | Client => if level =? 4 then Ok 4 else if level =? 5 then Ok 5 else Err InvalidProtocolLevel
                    | Broker => if level =? 4 then Ok 4 else Err InvalidProtocolLevel
                    end) = @Ok err N proto).
    { subst level. destruct fl.
      - destruct (proto =? 4) eqn:E4; [replace proto with 4 by lia; reflexivity |].
        cbn [orb] in Hproto. replace proto with 5 by lia. reflexivity.
      - replace proto with 4 by lia. reflexivity. }
    rewrite Hlev. cbn [bind]. rewrite read_u8_cons. cbn [bind]. rewrite Hf2.
    rewrite read_u16_u16_be by exact Hka. cbn [bind].
    rewrite read_str_write; [| apply str_ok_len; exact Hcid | exact Hucid]. cbn [bind].
    rewrite will_read_ok; try assumption. cbn [bind]. rewrite Hlogin. reflexivity.
  - exists bs. split; [| split; [exact Hl | exact Hr]].
    cbn [write_body size plen]. fold c. fold n. unfold with_header in Hw.
    destruct (write_remaining_length n) as [rl | e | t] eqn:Hrl'; cbn [bind] in Hw; try discriminate.
    subst c. rewrite (connect_write_eq fl proto ka cid clean w l rl Hrl').
    fold level. fold f. injection Hw as Hbs Hsz. rewrite <- Hbs. f_equal. f_equal. exact Hsz.
Qed.

(* ------------------------------------------------------------------ assembly *)

Theorem rt_body : forall fl p, wf_v4 fl p = true -> rt_ok fl p.
Proof.
  intros fl p Hwf. destruct p.
  - apply rt_connect; exact Hwf.
  - apply rt_connack; exact Hwf.
  - apply rt_publish; exact Hwf.
  - apply rt_puback; exact Hwf.
  - apply rt_pubrec; exact Hwf.
  - apply rt_pubrel; exact Hwf.
  - apply rt_pubcomp; exact Hwf.
  - apply rt_subscribe; exact Hwf.
  - apply rt_suback; exact Hwf.
  - apply rt_unsubscribe; exact Hwf.
  - apply rt_unsuback; exact Hwf.
  - apply rt_pingreq.
  - apply rt_pingresp.
  - apply rt_disconnect.
Qed.

Lemma wf_repr : forall fl p, wf_v4 fl p = true -> repr fl p = true.
Proof. intros fl p H. unfold wf_v4 in H. split_andb. assumption. Qed.

(** C04 round trip: a well-formed packet is encoded successfully (client: when size() <= max_size),
    the count returned = size = bytes written, and decoding [bytes ++ rest] with any max >= the
    remaining length gives back the packet's content and exactly [rest]. *)
Theorem rt_v4 : forall fl p maxo, wf_v4 fl p = true -> (fl = Client -> size fl p <= maxo) ->
  exists bs, write fl maxo p = Ok (bs, size fl p) /\ len bs = size fl p /\
    forall max rest, plen fl p <= max -> read fl (bs ++ rest) max = Packet (norm p) rest.
Proof.
  intros fl p maxo Hwf Hm. rewrite write_reduce by (try apply wf_repr; assumption).
  apply rt_body. exact Hwf.
Qed.

(** the client refuses to write a packet larger than max_size *)
Lemma write_client_too_large : forall p maxo, repr Client p = true -> maxo < size Client p ->
  write Client maxo p = Err OutgoingPacketTooLarge.
Proof.
  intros p maxo Hr Hm. unfold write. rewrite Hr. cbn [negb].
  replace (maxo <? size Client p) with true by lia. reflexivity.
Qed.

(* ------------------------------------------------------------------ interoperability *)

Lemma norm_idem : forall p, norm (norm p) = norm p.
Proof.
  destruct p; cbn [norm]; try reflexivity.
  - f_equal. rewrite map_map. reflexivity.
  - f_equal. rewrite map_map. apply map_ext. intros c. destruct c; reflexivity.
Qed.

Lemma sum_filter_len_norm : forall fs,
  sum_map filter_len (map (fun f => Filter (f_path f) (f_qos f) 0) fs) = sum_map filter_len fs.
Proof. induction fs as [| f fs IH]; [reflexivity |]. cbn [map sum_map]. rewrite IH. reflexivity. Qed.

Lemma filter_bytes_norm : forall fs,
  flat_map filter_bytes (map (fun f => Filter (f_path f) (f_qos f) 0) fs) = flat_map filter_bytes fs.
Proof. induction fs as [| f fs IH]; [reflexivity |]. cbn [map flat_map]. rewrite IH. reflexivity. Qed.

Lemma rc_code_norm : forall cs, map rc_code (map norm_rc cs) = map rc_code cs.
Proof. intros cs. rewrite map_map. apply map_ext. intros c. destruct c; reflexivity. Qed.

Lemma plen_norm : forall fl1 fl2 p, wf_v4 fl1 p = true -> plen fl2 (norm p) = plen fl1 p.
Proof.
  intros fl1 fl2 p Hwf. destruct p; cbn [norm plen]; try reflexivity.
  - (* publish *) unfold wf_v4 in Hwf. split_andb. unfold publish_len.
    destruct fl1, fl2, (is_qos0 q) eqn:Eq; cbn [negb andb]; try reflexivity;
      (replace (pkid =? 0) with false by lia); reflexivity.
  - rewrite sum_filter_len_norm. reflexivity.
  - rewrite rc_code_norm. reflexivity.
Qed.

Lemma write_body_norm : forall fl1 fl2 p, wf_v4 fl1 p = true -> wf_v4 fl2 (norm p) = true ->
  write_body fl2 (norm p) = write_body fl1 p.
Proof.
  intros fl1 fl2 p Hwf1 Hwf2. pose proof (plen_norm fl1 fl2 p Hwf1) as Hpl.
  destruct p; cbn [norm] in *; cbn [write_body]; try reflexivity.
  - (* connect *) apply wf_repr in Hwf1. apply wf_repr in Hwf2. cbn [repr] in Hwf1, Hwf2. split_andb.
    unfold connect_write.
    replace (match fl2 with Client => if c_protocol c =? 4 then 4 else 5 | Broker => 4 end)
      with (match fl1 with Client => if c_protocol c =? 4 then 4 else 5 | Broker => 4 end); [reflexivity |].
    destruct fl1, fl2; try reflexivity.
    + replace (c_protocol c =? 4) with true by lia. reflexivity.
    + replace (c_protocol c =? 4) with true by lia. reflexivity.
  - (* publish *) unfold publish_write. cbn [plen] in Hpl. rewrite Hpl. reflexivity.
  - (* subscribe *) cbn [plen] in Hpl |- *. rewrite Hpl. rewrite filter_bytes_norm. reflexivity.
  - (* suback *) cbn [plen] in Hpl |- *. rewrite Hpl. rewrite rc_code_norm. reflexivity.
Qed.

Lemma size_norm : forall fl1 fl2 p, wf_v4 fl1 p = true -> size fl2 (norm p) = size fl1 p.
Proof.
  intros fl1 fl2 p Hwf. pose proof (plen_norm fl1 fl2 p Hwf) as Hpl.
  destruct p; cbn [norm] in *; unfold size; try rewrite Hpl; reflexivity.
Qed.

(** C04 interop: the bytes one crate's encoder produces for a well-formed packet are decoded by
    the other crate's decoder to the same content, provided that content is a well-formed value of
    the other crate's packet type (e.g. Connect with protocol level 5, or a non-UTF-8 publish topic,
    are not).  [fl1 = fl2] gives back [rt_v4]. *)
Theorem interop_v4 : forall fl1 fl2 p maxo,
  wf_v4 fl1 p = true -> wf_v4 fl2 (norm p) = true -> (fl1 = Client -> size fl1 p <= maxo) ->
  exists bs, write fl1 maxo p = Ok (bs, size fl1 p) /\
    forall max rest, plen fl1 p <= max -> read fl2 (bs ++ rest) max = Packet (norm p) rest.
Proof.
  intros fl1 fl2 p maxo Hwf1 Hwf2 Hm.
  rewrite write_reduce by (try apply wf_repr; assumption).
  destruct (rt_body fl2 (norm p) Hwf2) as (bs & Hw & _ & Hr).
  exists bs. split.
  - rewrite <- (write_body_norm fl1 fl2 p Hwf1 Hwf2), Hw, (size_norm fl1 fl2 p Hwf1). reflexivity.
  - intros max rest Hmax. rewrite <- (norm_idem p). apply Hr. rewrite (plen_norm fl1 fl2 p Hwf1). exact Hmax.
Qed.


(* ------------------------------------------------------------------ examples: wf is satisfiable, per packet type *)

Definition ex_will : lastwill := LastWill [119; 47; 195; 169] [98; 121; 101] AtLeastOnce true.
Definition ex_connect : packet :=
  Connect (MkConnect 4 60 [99; 108; 105] true (Some ex_will) (Some (Login [117] [112; 119]))).
Definition ex_connect5 : packet := Connect (MkConnect 5 0 [] false None None).
Definition ex_publish : packet := Publish true ExactlyOnce true [97; 47; 195; 169] 65535 [0; 255; 1].
Definition ex_publish_raw : packet := Publish false AtMostOnce false [255; 47] 0 [].
Definition ex_subscribe : packet := Subscribe 256 [Filter [97; 47; 43] AtLeastOnce 0; Filter [35] ExactlyOnce 0].
Definition ex_suback : packet := SubAck 256 [RcSuccess AtLeastOnce; RcFailure; RcSuccess ExactlyOnce].
Definition ex_suback_router : packet := SubAck 7 [RcQoS AtLeastOnce; RcUnspecified].
Definition ex_unsubscribe : packet := Unsubscribe 2 [[97; 47; 43]; []].

Example wf_examples :
  forallb (fun p => wf_v4 Client p && wf_v4 Broker p)
    [ex_connect; ConnAck true 5; ex_publish; PubAck 1 0; PubRec 255 0; PubRel 256 0; PubComp 65535 0;
     ex_subscribe; ex_suback; ex_unsubscribe; UnsubAck 9 []; PingReq; PingResp; Disconnect 0] = true
  /\ wf_v4 Client ex_connect5 = true /\ wf_v4 Broker ex_connect5 = false
  /\ wf_v4 Broker ex_publish_raw = true /\ wf_v4 Client ex_publish_raw = false
  /\ wf_v4 Broker ex_suback_router = true /\ wf_v4 Client ex_suback_router = false
  /\ wf_v4 Client (norm ex_suback_router) = true
  /\ wf_v4 Broker (PubAck 3 4) = true /\ wf_v4 Broker (UnsubAck 3 [0; 1]) = true /\ wf_v4 Broker (Disconnect 4) = true.
Proof. vm_compute. repeat split. Qed.

(** the asymmetries between the two crates, as facts about the model (each reproduced on the code
    by the correspondence run): *)
Example asym_connect_level5 :   (* the client encodes / decodes protocol level 5 in a v4 CONNECT; the broker rejects it *)
  exists bs, write Client 100 ex_connect5 = Ok (bs, 14) /\ read Client bs 100 = Packet ex_connect5 []
             /\ read Broker bs 100 = Malformed InvalidProtocolLevel [].
Proof. eexists. vm_compute. repeat split. Qed.

Example asym_publish_topic :    (* the broker does not check the topic's UTF-8; the client does *)
  exists bs, write Broker 0 ex_publish_raw = Ok (bs, 6) /\ read Broker bs 100 = Packet ex_publish_raw []
             /\ read Client bs 100 = Malformed TopicNotUtf8 [].
Proof. eexists. vm_compute. repeat split. Qed.

Example asym_suback_constructors :   (* router-style codes QoS1 / Unspecified come back as Success(QoS1) / Failure *)
  exists bs, write Broker 0 ex_suback_router = Ok (bs, 6)
             /\ read Broker bs 100 = Packet (SubAck 7 [RcSuccess AtLeastOnce; RcFailure]) []
             /\ read Client bs 100 = Packet (SubAck 7 [RcSuccess AtLeastOnce; RcFailure]) [].
Proof. eexists. vm_compute. repeat split. Qed.

Example asym_puback_length :    (* PUBACK with remaining length 3: accepted by the client, rejected by the broker *)
  read Client [64; 3; 0; 5; 0] 100 = Packet (PubAck 5 0) [] /\
  read Broker [64; 3; 0; 5; 0] 100 = Malformed InvalidRemainingLength [].
Proof. vm_compute. repeat split. Qed.

Example asym_disconnect_body :  (* DISCONNECT with a body: accepted by the client, InvalidProtocol in the broker *)
  read Client [224; 1; 0] 100 = Packet (Disconnect 0) [] /\
  read Broker [224; 1; 0] 100 = Malformed InvalidProtocol [].
Proof. vm_compute. repeat split. Qed.

Example asym_utf8_error_kind :  (* invalid UTF-8 in CONNECT client id: TopicNotUtf8 (client) vs PayloadNotUtf8 (broker) *)
  read Client [16; 13; 0; 4; 77; 81; 84; 84; 4; 2; 0; 10; 0; 1; 255] 100 = Malformed TopicNotUtf8 [] /\
  read Broker [16; 13; 0; 4; 77; 81; 84; 84; 4; 2; 0; 10; 0; 1; 255] 100 = Malformed PayloadNotUtf8 [].
Proof. vm_compute. repeat split. Qed.

Example broker_connack_unreachable :   (* V4::write of a ConnAck with a v5-only return code hits unreachable!() *)
  write Broker 0 (ConnAck false 6) = Panic P_UNREACHABLE /\ wf_v4 Broker (ConnAck false 6) = false.
Proof. vm_compute. repeat split. Qed.
